(* Proofs for C04 (Coro/Context.v): with a context supplied, every ContextVar
   access of the body is evaluated against it, on every path of the repaired
   code; with context=None the wrappers are the native await in the caller's
   context; the original code is refuted path by path. *)
From Asynkit Require Import Base.Prelude Coro.Tree Coro.Native Coro.TreeProofs Coro.Relay
  Coro.RelayProofs Coro.Context.
Open Scope Z_scope.

(* ------------------------------------------------------------ bodies *)
Definition is_marker (ev : event) : bool :=
  match ev with EUser t _ => (t =? TAG_ENTER) || (t =? TAG_EXIT) | _ => false end.

(* the body does not itself contain the two reserved context.run markers *)
Fixpoint nomark (c : coro) : Prop :=
  match c with
  | Ret _ | Raise _ => True
  | Eff ev c' => is_marker ev = false /\ nomark c'
  | Get _ k => forall v, nomark (k v)
  | Set_ _ _ c' => nomark c'
  | Susp _ k => forall i, nomark (k i)
  end.

Lemma crun_eff : forall s ev c, is_marker ev = false -> crun s (Eff ev c) = add_ev ev (crun s c).
Proof.
  intros s ev c H. destruct ev; simpl in *; auto.
  apply orb_false_iff in H. destruct H as [H1 H2]. rewrite H1, H2. reflexivity.
Qed.

(* ------------------------------------------------ isolation of a tree *)
(* [iso b t]: in t every Get / Set_ lies between a context.run entry (with the
   `is not None` test) and its exit, and t stops (returns, raises, suspends) only
   outside; b = "currently inside context.run" *)
Inductive iso : bool -> coro -> Prop :=
| iso_ret v : iso false (Ret v)
| iso_raise e : iso false (Raise e)
| iso_susp y k : (forall i, iso false (k i)) -> iso false (Susp y k)
| iso_eff b ev c : is_marker ev = false -> iso b c -> iso b (Eff ev c)
| iso_enter c : iso true c -> iso false (Eff (ev_enter repaired) c)
| iso_exit c : iso false c -> iso true (Eff ev_exit c)
| iso_get x k : (forall v, iso true (k v)) -> iso true (Get x k)
| iso_set x v c : iso true c -> iso true (Set_ x v c).

Definition stop_iso (st : stop) : Prop :=
  match st with SSusp _ k => forall i, iso false (k i) | _ => True end.

Lemma replay_cons : forall c a log, replay c (a :: log) = replay (apply_access c a) log.
Proof. reflexivity. Qed.

Lemma replay_app : forall l1 l2 c, replay c (l1 ++ l2) = replay (replay c l1) l2.
Proof. intros; unfold replay; apply fold_left_app. Qed.

Lemma reads_latest_app : forall l1 l2 c,
  reads_latest c l1 -> reads_latest (replay c l1) l2 -> reads_latest c (l1 ++ l2).
Proof.
  induction l1 as [|a t IH]; intros l2 c H1 H2; simpl in *; auto.
  destruct a as [x v|x v].
  - destruct H1 as [E H1]. split; auto.
  - apply IH; auto.
Qed.

(* running an isolated tree: the caller's context is untouched, the supplied
   context receives exactly the writes, every read sees the latest write *)
Lemma crun_iso : forall b t, iso b t -> forall cu x evs log s' st,
  crun (mkcstate cu (Some x) b) t = (evs, log, s', st) ->
  s' = mkcstate cu (Some (replay x log)) false /\ reads_latest x log /\ stop_iso st.
Proof.
  induction 1 as [v|e|y k Hk IH|b ev c Hm Hc IH|c Hc IH|c Hc IH|z k Hk IH|z v c Hc IH];
    intros cu x evs log s' st E.
  - simpl in E. inversion E; subst. simpl. auto.
  - simpl in E. inversion E; subst. simpl. auto.
  - simpl in E. inversion E; subst. simpl. auto.
  - rewrite crun_eff in E by auto.
    destruct (crun (mkcstate cu (Some x) b) c) as [[[evs0 log0] s0] st0] eqn:R.
    simpl in E. inversion E; subst. eapply IH; eauto.
  - simpl in E. eapply IH; eauto.
  - simpl in E. eapply IH; eauto.
  - simpl in E. unfold active in E; simpl in E.
    destruct (crun (mkcstate cu (Some x) true) (k (lookup x z))) as [[[evs0 log0] s0] st0] eqn:R.
    simpl in E. inversion E; subst.
    destruct (IH _ _ _ _ _ _ _ R) as (A & B & C). rewrite replay_cons. simpl. repeat split; auto.
  - simpl in E. unfold write in E; simpl in E.
    destruct (crun (mkcstate cu (Some (update x z v)) true) c) as [[[evs0 log0] s0] st0] eqn:R.
    simpl in E. inversion E; subst.
    destruct (IH _ _ _ _ _ _ R) as (A & B & C). rewrite replay_cons. simpl. repeat split; auto.
Qed.

(* ------------------------------------------------- objects and drivers *)
Definition obj_iso (o : cobj) : Prop :=
  match o with
  | New t => iso false t
  | Suspended k => forall i, iso false (k i)
  | _ => True
  end.

Definition resp_ok (cu x : ctx) (r : cresp) : Prop :=
  cr_state r = mkcstate cu (Some (replay x (cr_log r))) false /\
  reads_latest x (cr_log r) /\ obj_iso (cr_obj r).

Lemma resp_ok_still : forall cu x evs out o,
  obj_iso o -> resp_ok cu x (mkcresp evs [] out o (mkcstate cu (Some x) false)).
Proof. intros; repeat split; simpl; auto. Qed.

Lemma crun_settle_iso : forall kd t cu x,
  iso false t -> resp_ok cu x (csettle kd (crun (mkcstate cu (Some x) false) t)).
Proof.
  intros kd t cu x H.
  destruct (crun (mkcstate cu (Some x) false) t) as [[[evs log] s'] st] eqn:R.
  destruct (crun_iso _ _ H _ _ _ _ _ _ R) as (A & B & C).
  destruct st; simpl; repeat split; simpl; auto.
Qed.

Lemma c_apply_iso : forall kd o cu x op,
  obj_iso o -> resp_ok cu x (c_apply kd o (mkcstate cu (Some x) false) op).
Proof.
  intros kd o cu x op H. destruct op as [v|e|]; simpl.
  - destruct o as [c|k| |]; simpl.
    + destruct v; try (apply resp_ok_still; auto). apply crun_settle_iso; auto.
    + apply crun_settle_iso; apply H.
    + apply resp_ok_still; auto.
    + apply resp_ok_still; auto.
  - destruct o as [c|k| |]; simpl.
    + apply resp_ok_still; simpl; auto.
    + apply crun_settle_iso; apply H.
    + apply resp_ok_still; auto.
    + apply resp_ok_still; auto.
  - destruct o as [c|k| |]; simpl.
    + apply resp_ok_still; simpl; auto.
    + destruct (crun (mkcstate cu (Some x) false) (k (Throw GeneratorExit))) as [[[evs log] s'] st] eqn:R.
      destruct (crun_iso _ _ (H (Throw GeneratorExit)) _ _ _ _ _ _ R) as (A & B & C).
      destruct st as [v|e|y k']; [|destruct (is_genexit e)|]; repeat split; simpl; auto.
    + apply resp_ok_still; auto.
    + apply resp_ok_still; auto.
Qed.

(* what a list of steps must look like when everything ran in the supplied
   context x: the caller's context is cu after every step, the supplied context
   is x plus all writes so far, every read returned the latest write *)
Fixpoint steps_iso (cu x : ctx) (l : list step) : Prop :=
  match l with
  | [] => True
  | s :: t => st_cur s = cu /\ st_sup s = Some (replay x (st_log s)) /\
              reads_latest x (st_log s) /\ steps_iso cu (replay x (st_log s)) t
  end.

Definition after (x : ctx) (l : list step) : ctx :=
  fold_left (fun c s => replay c (st_log s)) l x.

Lemma after_app : forall l1 l2 x, after x (l1 ++ l2) = after (after x l1) l2.
Proof. intros; unfold after; apply fold_left_app. Qed.

Lemma steps_iso_app : forall l1 l2 cu x,
  steps_iso cu x l1 -> steps_iso cu (after x l1) l2 -> steps_iso cu x (l1 ++ l2).
Proof.
  induction l1 as [|s t IH]; intros l2 cu x H1 H2; simpl in *; auto.
  destruct H1 as (A & B & C & D). repeat split; auto.
Qed.

Lemma last_cons : forall (A : Type) (l : list A) (a d : A), last (a :: l) d = last l a.
Proof. induction l as [|b t IH]; intros a d; auto. simpl in *. destruct t; auto. Qed.

Lemma drive_iso : forall kd ops o cu x d,
  obj_iso o -> cr_state d = mkcstate cu (Some x) false ->
  steps_iso cu x (map step_of_cresp (c_drive_stop kd o (mkcstate cu (Some x) false) ops)) /\
  cr_state (last (c_drive_stop kd o (mkcstate cu (Some x) false) ops) d) =
    mkcstate cu (Some (after x (map step_of_cresp (c_drive_stop kd o (mkcstate cu (Some x) false) ops)))) false.
Proof.
  induction ops as [|op t IH]; intros o cu x d Ho Hd.
  - simpl. auto.
  - cbn [c_drive_stop].
    destruct (c_apply_iso kd o cu x op Ho) as (A & B & C).
    set (r := c_apply kd o (mkcstate cu (Some x) false) op) in *.
    rewrite last_cons. cbn [map].
    assert (Hstep : st_cur (step_of_cresp r) = cu /\
                    st_sup (step_of_cresp r) = Some (replay x (st_log (step_of_cresp r))) /\
                    reads_latest x (st_log (step_of_cresp r))).
    { unfold step_of_cresp; simpl. rewrite A. simpl. auto. }
    destruct Hstep as (S1 & S2 & S3).
    destruct (cr_out r) eqn:Out.
    + rewrite A.
      destruct (IH (cr_obj r) cu (replay x (cr_log r)) r C A) as (I1 & I2).
      split.
      * simpl. repeat split; auto.
      * rewrite I2. reflexivity.
    + split; simpl; auto.
    + split; simpl; auto.
Qed.

(* --------------------------------------- the repaired wrappers are isolated *)
Definition body_ok (b : cobj) : Prop :=
  match b with
  | New c => nomark c
  | Suspended k => forall i, nomark (k i)
  | _ => True
  end.

Definition cs_ok (st : cs_state) : Prop :=
  match st with CsSusp _ k => forall i, nomark (k i) | _ => True end.

Lemma iso_cs_start : forall c kont,
  nomark c -> (forall st, cs_ok st -> iso false (kont st)) ->
  iso true (cs_start c (fun st => Eff ev_exit (kont st))).
Proof.
  induction c as [v|e|ev c IH|x k IH|x v c IH|y k IH]; intros kont Hc Hk; simpl in *.
  - apply iso_exit, Hk; simpl; auto.
  - apply iso_exit, Hk; simpl; auto.
  - destruct Hc as [Hm Hc]. apply iso_eff; auto.
  - apply iso_get; intros v; apply IH; auto.
  - apply iso_set; auto.
  - apply iso_exit, Hk; simpl; auto.
Qed.

Lemma iso_ctx_run : forall c kont,
  nomark c -> (forall st, cs_ok st -> iso false (kont st)) ->
  iso false (ctx_run repaired true c kont).
Proof. intros; unfold ctx_run; simpl. apply iso_enter, iso_cs_start; auto. Qed.

Lemma iso_close_body : forall c kont,
  nomark c -> (forall r, iso false (kont r)) ->
  iso true (close_then KCoro c (fun r => Eff ev_exit (kont r))).
Proof.
  induction c as [v|e|ev c IH|x k IH|x v c IH|y k IH]; intros kont Hc Hk; simpl in *.
  - apply iso_exit, Hk.
  - destruct (is_genexit e); apply iso_exit, Hk.
  - destruct Hc as [Hm Hc]. apply iso_eff; auto.
  - apply iso_get; intros v; apply IH; auto.
  - apply iso_set; auto.
  - apply iso_exit, Hk.
Qed.

Lemma iso_ctx_close : forall c kont,
  nomark c -> (forall r, iso false (kont r)) -> iso false (ctx_close repaired true c kont).
Proof. intros; unfold ctx_close; simpl. apply iso_enter, iso_close_body; auto. Qed.

Lemma iso_relay_input : forall (k : input -> coro) i,
  (forall j, nomark (k j)) ->
  (forall j, iso true (relay_ctx repaired true (k j))) ->
  iso false
    match i with
    | Throw GeneratorExit =>
        ctx_close repaired (true && v_run_genexit repaired) (k (Throw GeneratorExit))
                  (fun r => Raise (exn_after_close r))
    | _ => mark true (ev_enter repaired) (relay_ctx repaired true (k i))
    end.
Proof.
  intros k i Hn Hr. destruct i as [v|e].
  - simpl. apply iso_enter, Hr.
  - destruct e; try (simpl; apply iso_enter, Hr).
    apply iso_ctx_close; auto. intros r; constructor.
Qed.

Lemma iso_relay : forall c, nomark c -> iso true (relay_ctx repaired true c).
Proof.
  induction c as [v|e|ev c IH|x k IH|x v c IH|y k IH]; intros Hc; simpl in *.
  - apply iso_exit; constructor.
  - apply iso_exit; constructor.
  - destruct Hc as [Hm Hc]. apply iso_eff; auto.
  - apply iso_get; intros v; apply IH; auto.
  - apply iso_set; auto.
  - apply iso_exit, iso_susp. intros i. apply (iso_relay_input k i); auto.
Qed.

Lemma iso_relay_wait : forall y k,
  (forall i, nomark (k i)) -> iso false (relay_wait repaired true y k).
Proof.
  intros y k Hk. unfold relay_wait. apply iso_susp. intros i.
  apply (iso_relay_input k i); auto. intros j; apply iso_relay; auto.
Qed.

Lemma iso_cs_await : forall r b, body_ok b -> iso false (cs_await_ctx repaired true r b).
Proof.
  intros r b Hb. destruct r as [|y|v|e]; simpl; try constructor.
  destruct b as [c|k| |]; [|apply iso_relay_wait; auto| |];
    (apply iso_susp; intros [v|e]; [|destruct e]; constructor).
Qed.

Lemma cs_ok_body : forall st, cs_ok st -> body_ok (body_of_cs st).
Proof. intros [v|e|y k|]; simpl; auto. Qed.

(* a native await around an isolated iterator is isolated *)
Lemma iso_close_then : forall b t, iso b t -> forall kd kont,
  (forall r, iso false (kont r)) -> iso b (close_then kd t kont).
Proof.
  induction 1 as [v|e|y k Hk IH|b ev c Hm Hc IH|c Hc IH|c Hc IH|z k Hk IH|z v c Hc IH];
    intros kd kont Hkont; simpl; auto.
  - destruct (is_genexit e); auto.
  - apply iso_eff; auto.
  - apply iso_enter; auto.
  - apply iso_exit; auto.
  - apply iso_get; auto.
  - apply iso_set; auto.
Qed.

Lemma iso_await : forall b t, iso b t -> forall kd kr ke,
  (forall v, iso false (kr v)) -> (forall e, iso false (ke e)) -> iso b (await_ kd t kr ke).
Proof.
  induction 1 as [v|e|y k Hk IH|b ev c Hm Hc IH|c Hc IH|c Hc IH|z k Hk IH|z v c Hc IH];
    intros kd kr ke Hr He; simpl; auto.
  - apply iso_susp. intros [v|e]; auto.
    destruct e; auto. apply iso_close_then; auto.
  - apply iso_eff; auto.
  - apply iso_enter; auto.
  - apply iso_exit; auto.
  - apply iso_get; auto.
  - apply iso_set; auto.
Qed.

Lemma iso_native_gen : forall t, iso false t -> iso false (native_await_gen t).
Proof. intros; apply iso_await; auto; intros; constructor. Qed.

Lemma iso_as_coroutine : forall r b, body_ok b -> iso false (cs_as_coroutine_ctx repaired true r b).
Proof. intros; apply iso_native_gen, iso_cs_await; auto. Qed.

Lemma iso_await_of : forall st, cs_ok st -> iso false (native_await_gen (cs_await_of repaired true st)).
Proof. intros; apply iso_native_gen, iso_cs_await, cs_ok_body; auto. Qed.

Lemma iso_athrow : forall b e, body_ok b -> iso false (cs_athrow_ctx repaired true b e).
Proof.
  intros b e Hb. destruct b as [c|k| |]; unfold cs_athrow_ctx;
    [|apply iso_ctx_run; [apply Hb|apply iso_await_of]| |];
    apply iso_native_gen, iso_cs_await; simpl; auto.
Qed.

Lemma iso_aclose : forall r b, body_ok b -> iso false (cs_aclose_ctx repaired true r b).
Proof.
  intros r b Hb. destruct r as [|y|v|e]; simpl; try constructor.
  apply iso_await; [apply iso_athrow; auto| |]; intros; try constructor.
  destruct (is_genexit e); constructor.
Qed.

Lemma iso_coro_await : forall c, nomark c -> iso false (coro_await_ctx repaired true c).
Proof. intros; apply iso_ctx_run; auto. apply iso_await_of. Qed.

Lemma iso_awaitable : forall w m,
  body_ok (w_body w) -> iso false (snd (awaitable repaired true w m)).
Proof.
  intros w m H. destruct m; simpl.
  - apply iso_cs_await; auto.
  - apply iso_athrow; auto.
  - apply iso_aclose; auto.
  - apply iso_as_coroutine; auto.
Qed.

(* ------------------------------- segments run directly by the CoroStart object *)
Definition stop_ok (st : stop) : Prop :=
  match st with SSusp _ k => forall i, nomark (k i) | _ => True end.

Lemma crun_seg : forall c, nomark c -> forall cu x evs log s' st,
  crun (mkcstate cu (Some x) true) (cs_start c (fun st => Eff ev_exit (unstop st))) = (evs, log, s', st) ->
  s' = mkcstate cu (Some (replay x log)) false /\ reads_latest x log /\ stop_ok st.
Proof.
  induction c as [v|e|ev c IH|z k IH|z v c IH|y k IH]; intros Hc cu x evs log s' st E;
    cbn [cs_start] in E; simpl in Hc.
  - simpl in E. inversion E; subst; simpl; auto.
  - simpl in E. inversion E; subst; simpl; auto.
  - destruct Hc as [Hm Hc]. rewrite crun_eff in E by auto.
    destruct (crun (mkcstate cu (Some x) true) (cs_start c (fun st => Eff ev_exit (unstop st))))
      as [[[evs0 log0] s0] st0] eqn:R.
    simpl in E. inversion E; subst. eapply IH; eauto.
  - simpl in E. unfold active in E; simpl in E.
    destruct (crun (mkcstate cu (Some x) true)
                   (cs_start (k (lookup x z)) (fun st => Eff ev_exit (unstop st))))
      as [[[evs0 log0] s0] st0] eqn:R.
    simpl in E. inversion E; subst.
    destruct (IH _ (Hc _) _ _ _ _ _ _ R) as (A & B & C).
    rewrite replay_cons. simpl. repeat split; auto.
  - simpl in E. unfold write in E; simpl in E.
    destruct (crun (mkcstate cu (Some (update x z v)) true)
                   (cs_start c (fun st => Eff ev_exit (unstop st))))
      as [[[evs0 log0] s0] st0] eqn:R.
    simpl in E. inversion E; subst.
    destruct (IH Hc _ _ _ _ _ _ R) as (A & B & C).
    rewrite replay_cons. simpl. repeat split; auto.
  - simpl in E. inversion E; subst; simpl; auto.
Qed.

Lemma crun_ctx_run_unstop : forall c, nomark c -> forall cu x evs log s' st,
  crun (mkcstate cu (Some x) false) (ctx_run repaired true c unstop) = (evs, log, s', st) ->
  s' = mkcstate cu (Some (replay x log)) false /\ reads_latest x log /\ stop_ok st.
Proof. intros c Hc cu x evs log s' st E. unfold ctx_run in E. simpl in E. eapply crun_seg; eauto. Qed.

Definition sync_ok (cu x : ctx) (r : sync_result) : Prop :=
  sy_state r = mkcstate cu (Some (replay x (sy_log r))) false /\
  reads_latest x (sy_log r) /\ body_ok (sy_body r).

Lemma throw_sync_iso : forall n b e cu x,
  body_ok b -> sync_ok cu x (cs_throw_sync repaired true (mkcstate cu (Some x) false) b e n).
Proof.
  induction n as [|n IH]; intros b e cu x Hb; cbn [cs_throw_sync].
  - repeat split; simpl; auto.
  - destruct b as [c|k| |]; try (repeat split; simpl; auto; fail).
    destruct (crun (mkcstate cu (Some x) false) (ctx_run repaired (true && v_run_throw repaired) (k (Throw e)) unstop))
      as [[[evs log] s'] st] eqn:R.
    destruct (crun_ctx_run_unstop _ (Hb (Throw e)) _ _ _ _ _ _ R) as (A & B & C).
    subst s'. destruct st as [v|e'|y k'].
    1,2: repeat split; simpl; auto.
    destruct (IH (Suspended k') e cu (replay x log) C) as (A' & B' & C').
    repeat split; simpl; auto.
    + rewrite A', replay_app. reflexivity.
    + apply reads_latest_app; auto.
Qed.

Lemma close_sync_iso : forall b cu x,
  body_ok b -> sync_ok cu x (cs_close_sync repaired true (mkcstate cu (Some x) false) b).
Proof.
  intros b cu x Hb. unfold cs_close_sync.
  destruct b as [c|k| |]; try (repeat split; simpl; auto; fail).
  destruct (crun (mkcstate cu (Some x) false)
                 (ctx_close repaired (true && v_run_close repaired) (k (Throw GeneratorExit))
                            (fun r => match r with None => Ret VNone | Some e => Raise e end)))
    as [[[evs log] s'] st] eqn:R.
  assert (I : iso false (ctx_close repaired (true && v_run_close repaired) (k (Throw GeneratorExit))
                            (fun r => match r with None => Ret VNone | Some e => Raise e end))).
  { apply iso_ctx_close; [apply Hb|]. intros [e|]; constructor. }
  destruct (crun_iso _ _ I _ _ _ _ _ _ R) as (A & B & C).
  destruct st as [v|e'|y k']; repeat split; simpl; auto.
  destruct e'; simpl; auto. destruct k0; simpl; auto.
Qed.

(* ------------------------------------------------------------- scripts *)
Definition world_ok (cu x : ctx) (w : world) : Prop :=
  w_state w = mkcstate cu (Some x) false /\ body_ok (w_body w).

Lemma run_phase_iso : forall p w cu x,
  world_ok cu x w ->
  steps_iso cu x (fst (fst (run_phase repaired true w p))) /\
  world_ok cu (after x (fst (fst (run_phase repaired true w p)))) (snd (fst (run_phase repaired true w p))).
Proof.
  intros p [s r b] cu x [Hs Hb]; simpl in Hs, Hb; subst s.
  destruct p as [e n| |m ops]; simpl.
  - destruct (throw_sync_iso n b e cu x Hb) as (A & B & C).
    rewrite A. simpl. repeat split; auto.
  - destruct (close_sync_iso b cu x Hb) as (A & B & C).
    rewrite A. simpl. repeat split; auto.
  - pose proof (iso_awaitable (mkworld (mkcstate cu (Some x) false) r b) m Hb) as I.
    destruct (awaitable repaired true (mkworld (mkcstate cu (Some x) false) r b) m) as [kd t].
    simpl in I. simpl.
    destruct (drive_iso kd (DSend VNone :: ops) (New t) cu x
                        (mkcresp [] [] (OYield VNone) Finished (mkcstate cu (Some x) false)) I eq_refl)
      as (D1 & D2).
    split; auto. split; simpl; auto.
Qed.

Lemma run_phases_iso : forall ps w cu x,
  world_ok cu x w -> steps_iso cu x (run_phases repaired true w ps).
Proof.
  induction ps as [|p t IH]; intros w cu x Hw; simpl; auto.
  destruct (run_phase_iso p w cu x Hw) as (A & B).
  destruct (run_phase repaired true w p) as [[steps w'] go]. simpl in A, B.
  apply steps_iso_app; auto. destruct go; simpl; auto.
Qed.

Lemma construct_iso : forall a caller x c,
  nomark c -> supplied a caller = Some x ->
  steps_iso caller x [fst (cs_construct repaired a caller c)] /\
  world_ok caller (after x [fst (cs_construct repaired a caller c)]) (snd (cs_construct repaired a caller c)).
Proof.
  intros a caller x c Hc Hx. unfold cs_construct. rewrite Hx.
  assert (G : is_given a = true) by (destruct a; simpl in *; auto; discriminate).
  rewrite G.
  destruct (crun (mkcstate caller (Some x) false) (ctx_run repaired true c unstop))
    as [[[evs log] s'] st] eqn:R.
  destruct (crun_ctx_run_unstop _ Hc _ _ _ _ _ _ R) as (A & B & C).
  subst s'. destruct st as [v|e|y k]; simpl; repeat split; auto.
Qed.

(* --- the three scenarios, for every body, context, caller and driver sequence --- *)
Theorem isolated_corostart : forall a caller x c ps,
  nomark c -> supplied a caller = Some x ->
  steps_iso caller x (run_corostart repaired a caller c ps).
Proof.
  intros a caller x c ps Hc Hx. unfold run_corostart.
  destruct (construct_iso a caller x c Hc Hx) as (A & B).
  destruct (cs_construct repaired a caller c) as [s0 w]. simpl in A, B.
  assert (G : is_given a = true) by (destruct a; simpl in *; auto; discriminate).
  rewrite G. change (s0 :: run_phases repaired true w ps) with ([s0] ++ run_phases repaired true w ps).
  apply steps_iso_app; auto. apply run_phases_iso; auto.
Qed.

Theorem isolated_coro_await : forall a caller x c ops,
  nomark c -> supplied a caller = Some x ->
  steps_iso caller x (run_coro_await repaired a caller c ops).
Proof.
  intros a caller x c ops Hc Hx. unfold run_coro_await. rewrite Hx.
  assert (G : is_given a = true) by (destruct a; simpl in *; auto; discriminate).
  rewrite G.
  apply (drive_iso KCoro (DSend VNone :: ops) (New (coro_await_ctx repaired true c)) caller x
                   (mkcresp [] [] (OYield VNone) Finished (mkcstate caller (Some x) false))).
  - simpl. apply iso_coro_await; auto.
  - reflexivity.
Qed.

Theorem isolated_eager : forall caller c ops,
  nomark c -> steps_iso caller caller (run_eager repaired caller c ops).
Proof.
  intros caller c ops Hc. unfold run_eager.
  destruct (construct_iso CEagerCopy caller caller c Hc eq_refl) as (A & B).
  destruct (cs_construct repaired CEagerCopy caller c) as [s0 w]. simpl in A, B.
  change (s0 :: (if sr_done (w_sr w) then [] else run_phases repaired true w [PAwaitable MAsCoro ops]))
    with ([s0] ++ (if sr_done (w_sr w) then [] else run_phases repaired true w [PAwaitable MAsCoro ops])).
  apply steps_iso_app; auto.
  destruct (sr_done (w_sr w)); [simpl; auto|]. apply run_phases_iso; auto.
Qed.

(* what [steps_iso] says, spelled out over the whole run *)
Lemma steps_iso_caller : forall l cu x, steps_iso cu x l -> Forall (fun s => st_cur s = cu) l.
Proof.
  induction l as [|s t IH]; intros cu x H; constructor; simpl in H.
  - apply H.
  - destruct H as (_ & _ & _ & H). eapply IH; eauto.
Qed.

Lemma after_concat : forall l x, after x l = replay x (concat (map st_log l)).
Proof.
  induction l as [|s t IH]; intros x; simpl; auto.
  unfold after in *. simpl. rewrite IH. rewrite replay_app. reflexivity.
Qed.

Lemma steps_iso_reads : forall l cu x, steps_iso cu x l -> reads_latest x (concat (map st_log l)).
Proof.
  induction l as [|s t IH]; intros cu x H; simpl in *; auto.
  destruct H as (_ & _ & R & H). apply reads_latest_app; auto. eapply IH; eauto.
Qed.

Lemma steps_iso_supplied : forall l cu x d, steps_iso cu x l -> l <> [] ->
  st_sup (last l d) = Some (replay x (concat (map st_log l))).
Proof.
  induction l as [|s t IH]; intros cu x d H Hne; [congruence|].
  simpl in H. destruct H as (_ & S & _ & H).
  rewrite last_cons. destruct t as [|s' t'].
  - simpl. rewrite app_nil_r. auto.
  - rewrite (IH cu (replay x (st_log s)) s H) by congruence.
    cbn [map concat]. rewrite !replay_app. reflexivity.
Qed.

(* ------------------------------------------------------ context = None *)
(* markers are not events: what the body's log shows *)
Definition visible (evs : list event) : list event := filter (fun ev => negb (is_marker ev)) evs.

Lemma crun_none : forall t cu,
  exists log, crun (mkcstate cu None false) t =
              (visible (fst (fst (run cu t))), log,
               mkcstate (snd (fst (run cu t))) None false, snd (run cu t)).
Proof.
  induction t as [v|e|ev c IH|z k IH|z v c IH|y k IH]; intros cu.
  - exists []. reflexivity.
  - exists []. reflexivity.
  - destruct (IH cu) as [log E].
    assert (R : run cu (Eff ev c) = (ev :: fst (fst (run cu c)), snd (fst (run cu c)), snd (run cu c))).
    { simpl. destruct (run cu c) as [[a b] d]. reflexivity. }
    rewrite R. cbn [fst snd].
    destruct (is_marker ev) eqn:M.
    + exists log. unfold visible; cbn [filter]. rewrite M. cbn [negb].
      destruct ev as [n|w|e|w|tg w]; simpl in M; try discriminate.
      simpl. destruct (tg =? TAG_ENTER) eqn:T1.
      * unfold enter; simpl. exact E.
      * simpl in M. rewrite M. unfold leave; simpl. exact E.
    + exists log. rewrite crun_eff by auto. rewrite E.
      unfold visible; cbn [filter]. rewrite M. reflexivity.
  - simpl. unfold active; simpl. destruct (IH (lookup cu z) cu) as [log E].
    eexists. rewrite E. reflexivity.
  - simpl. unfold write; simpl. destruct (IH (update cu z v)) as [log E].
    eexists. rewrite E. reflexivity.
  - exists []. reflexivity.
Qed.

(* Tree.drive_stop, with the store after every step *)
Fixpoint drive_stop_s (kd : kind) (o : cobj) (s : store) (ops : list dop)
  : list (list event * outcome * store) :=
  match ops with
  | [] => []
  | op :: t => let r := apply_op kd o s op in
               (r_events r, r_out r, r_store r) ::
               match r_out r with
               | OYield _ => drive_stop_s kd (r_obj r) (r_store r) t
               | _ => []
               end
  end.

Lemma drive_stop_s_rel : forall kd ops o o' s, obj_rel o o' ->
  drive_stop_s kd o s ops = drive_stop_s kd o' s ops.
Proof.
  induction ops as [|op t IH]; intros o o' s H; simpl; auto.
  destruct (apply_op_rel kd _ _ s op H) as (He & Ho & Hs & Hobj).
  rewrite He, Ho, Hs. f_equal. destruct (r_out (apply_op kd o' s op)); auto.
Qed.

Definition resp_none (r : cresp) (r0 : resp) : Prop :=
  cr_events r = visible (r_events r0) /\ cr_out r = r_out r0 /\ cr_obj r = r_obj r0 /\
  cr_state r = mkcstate (r_store r0) None false.

Lemma csettle_none : forall kd t cu,
  resp_none (csettle kd (crun (mkcstate cu None false) t)) (settle kd (run cu t)).
Proof.
  intros kd t cu. destruct (crun_none t cu) as [log E]. rewrite E.
  destruct (run cu t) as [[evs s'] st]. simpl. destruct st; repeat split.
Qed.

Lemma c_apply_none : forall kd o cu op,
  resp_none (c_apply kd o (mkcstate cu None false) op) (apply_op kd o cu op).
Proof.
  intros kd o cu op. destruct op as [v|e|]; simpl.
  - destruct o as [c|k| |]; simpl; try (repeat split; fail).
    + destruct v; try (repeat split; fail). apply csettle_none.
    + apply csettle_none.
  - destruct o as [c|k| |]; simpl; try (repeat split; fail). apply csettle_none.
  - destruct o as [c|k| |]; simpl; try (repeat split; fail).
    destruct (crun_none (k (Throw GeneratorExit)) cu) as [log E]. rewrite E.
    destruct (run cu (k (Throw GeneratorExit))) as [[evs s'] st]. simpl.
    destruct st as [v|e|y k']; [|destruct (is_genexit e)|]; repeat split.
Qed.

Definition seen (r : cresp) : list event * outcome * ctx := (cr_events r, cr_out r, cur (cr_state r)).
Definition hide (r : list event * outcome * store) : list event * outcome * ctx :=
  let '(evs, out, s) := r in (visible evs, out, s).

Lemma c_drive_none : forall kd ops o cu,
  map seen (c_drive_stop kd o (mkcstate cu None false) ops) = map hide (drive_stop_s kd o cu ops).
Proof.
  induction ops as [|op t IH]; intros o cu; simpl; auto.
  destruct (c_apply_none kd o cu op) as (A & B & C & D).
  set (r := c_apply kd o (mkcstate cu None false) op) in *.
  set (r0 := apply_op kd o cu op) in *.
  f_equal.
  - unfold seen, hide. rewrite A, B, D. reflexivity.
  - rewrite B. destruct (r_out r0); simpl; auto.
    rewrite C, D. apply IH.
Qed.

(* without a context argument the models are those of Relay.v (C02) *)
Lemma relay_ctx_none : forall vt c, eqv (relay_ctx vt false c) (relay_loop c).
Proof.
  intros vt. induction c as [v|e|ev c IH|x k IH|x v c IH|y k IH]; simpl; try (constructor; auto; fail).
  constructor. intros [v|e].
  - apply IH.
  - destruct e; try apply IH. apply eqv_refl.
Qed.

Lemma cs_await_none : forall vt st, eqv (cs_await_of vt false st) (cs_await st).
Proof.
  intros vt [v|e|y k|]; unfold cs_await_of; simpl; try apply eqv_refl.
  constructor. intros [v|e].
  - apply relay_ctx_none.
  - destruct e; try apply relay_ctx_none. apply eqv_refl.
Qed.

Lemma coro_await_none : forall vt c, eqv (coro_await_ctx vt false c) (native_await c).
Proof.
  intros vt c. eapply eqv_trans; [|apply coro_await_transparent].
  unfold coro_await_ctx, ctx_run, coro_await. simpl.
  apply cs_start_ext. intros st. apply await_cong; auto using eqv_refl, cs_await_none.
Qed.

Lemma corostart_none : forall vt c,
  eqv (cs_start c (cs_await_of vt false)) (native_await c).
Proof.
  intros vt c. eapply eqv_trans; [|apply corostart_transparent].
  apply cs_start_ext. apply cs_await_none.
Qed.

Theorem shared_when_none : forall vt c caller ops,
  map seen (c_drive_stop KCoro (New (coro_await_ctx vt false c)) (mkcstate caller None false) ops) =
  map hide (drive_stop_s KCoro (New (native_await c)) caller ops).
Proof.
  intros. rewrite c_drive_none. f_equal.
  apply drive_stop_s_rel. constructor. apply coro_await_none.
Qed.

Theorem shared_when_none_corostart : forall vt c caller ops,
  map seen (c_drive_stop KGen (New (cs_start c (cs_await_of vt false))) (mkcstate caller None false) ops) =
  map hide (drive_stop_s KGen (New (native_await c)) caller ops).
Proof.
  intros. rewrite c_drive_none. f_equal.
  apply drive_stop_s_rel. constructor. apply corostart_none.
Qed.

(* a body without markers shows all of its events *)
Lemma visible_nomark_run : forall c, nomark c -> forall s, visible (fst (fst (run s c))) = fst (fst (run s c)).
Proof.
  induction c as [v|e|ev c IH|x k IH|x v c IH|y k IH]; intros Hc s; simpl in *; auto.
  destruct Hc as [Hm Hc]. specialize (IH Hc s).
  destruct (run s c) as [[evs s'] st]. simpl in *. unfold visible in *. simpl. rewrite Hm. simpl.
  f_equal. exact IH.
Qed.

(* ------------------------------------------- examples and refutations *)
(* v0 = 1; try: await tok(11) finally: read v0; v0 = 2 *)
Definition ex_body : coro :=
  Set_ 0 (VInt 1)
    (Susp (VInt 11) (fun i =>
       Get 0 (fun v => Eff (ERecv v) (Set_ 0 (VInt 2)
         (match i with Send w => Ret w | Throw e => Raise e end))))).

Lemma ex_body_nomark : nomark ex_body.
Proof. simpl. intros i v. simpl. destruct i; simpl; auto. Qed.

Definition ex_caller : ctx := [(0, VInt 100)].
Definition ex_x : ctx := [(0, VInt 200)].

(* the hypotheses of the isolation theorems are satisfiable by a run that does something *)
Example ex_isolated :
  map (fun s => (st_log s, st_cur s, st_sup s))
      (run_corostart repaired (CGiven ex_x) ex_caller ex_body [PClose]) =
  [([AWrite 0 (VInt 1)], ex_caller, Some ((0, VInt 1) :: ex_x));
   ([ARead 0 (VInt 1); AWrite 0 (VInt 2)], ex_caller, Some ((0, VInt 2) :: (0, VInt 1) :: ex_x))].
Proof. vm_compute. reflexivity. Qed.

(* the code before the repair: cs.close() runs the cleanup in the caller's context *)
Example ex_original_close :
  map (fun s => (st_log s, st_cur s, st_sup s))
      (run_corostart original (CGiven ex_x) ex_caller ex_body [PClose]) =
  [([AWrite 0 (VInt 1)], ex_caller, Some ((0, VInt 1) :: ex_x));
   ([ARead 0 (VInt 100); AWrite 0 (VInt 2)], (0, VInt 2) :: ex_caller, Some ((0, VInt 1) :: ex_x))].
Proof. vm_compute. reflexivity. Qed.

Ltac refute_second H :=
  apply steps_iso_caller in H;
  inversion H as [|? ? _ H2]; subst; inversion H2 as [|? ? H3 _]; subst;
  vm_compute in H3; discriminate.

Theorem refuted_close : exists c x caller,
  nomark c /\ ~ steps_iso caller x (run_corostart original (CGiven x) caller c [PClose]).
Proof.
  exists ex_body, ex_x, ex_caller. split; [apply ex_body_nomark|]. intro H. refute_second H.
Qed.

Theorem refuted_sync_throw : exists c x caller,
  nomark c /\ ~ steps_iso caller x (run_corostart original (CGiven x) caller c [PThrow (E 1) 1]).
Proof.
  exists ex_body, ex_x, ex_caller. split; [apply ex_body_nomark|]. intro H. refute_second H.
Qed.

Theorem refuted_await_genexit : exists c x caller,
  nomark c /\ ~ steps_iso caller x
                  (run_corostart original (CGiven x) caller c [PAwaitable MAwait [DThrow GeneratorExit]]).
Proof.
  exists ex_body, ex_x, ex_caller. split; [apply ex_body_nomark|]. intro H.
  apply steps_iso_caller in H.
  inversion H as [|? ? _ H2]; subst; inversion H2 as [|? ? _ H3]; subst;
    inversion H3 as [|? ? H4 _]; subst. vm_compute in H4. discriminate.
Qed.

(* an empty Context() is falsy: the original code runs the body in the caller's context *)
Theorem refuted_empty_context : exists c caller,
  nomark c /\ ~ steps_iso caller [] (run_coro_await original (CGiven []) caller c []).
Proof.
  exists ex_body, ex_caller. split; [apply ex_body_nomark|]. intro H.
  apply steps_iso_caller in H. inversion H as [|? ? H1 _]; subst. vm_compute in H1. discriminate.
Qed.

Theorem refuted_eager_from_empty : exists c,
  nomark c /\ ~ steps_iso [] [] (run_eager original [] c []).
Proof.
  exists ex_body. split; [apply ex_body_nomark|]. intro H.
  apply steps_iso_caller in H. inversion H as [|? ? H1 _]; subst. vm_compute in H1. discriminate.
Qed.

(* [steps_iso] spelled out over a whole run *)
Lemma steps_iso_spelled : forall l cu x, steps_iso cu x l ->
  Forall (fun s => st_cur s = cu) l /\
  reads_latest x (concat (map st_log l)) /\
  (forall d, l <> [] -> st_sup (last l d) = Some (replay x (concat (map st_log l)))).
Proof.
  intros l cu x H. split; [eapply steps_iso_caller; eauto|].
  split; [eapply steps_iso_reads; eauto|]. intros d Hne. eapply steps_iso_supplied; eauto.
Qed.

Definition isolated_run (caller x : ctx) (steps : list step) : Prop :=
  Forall (fun s => st_cur s = caller) steps /\
  reads_latest x (concat (map st_log steps)) /\
  (forall d, steps <> [] -> st_sup (last steps d) = Some (replay x (concat (map st_log steps)))) /\
  steps_iso caller x steps.

Lemma steps_iso_run : forall l cu x, steps_iso cu x l -> isolated_run cu x l.
Proof.
  intros l cu x H. destruct (steps_iso_spelled l cu x H) as (A & B & C).
  unfold isolated_run. auto.
Qed.

Theorem isolated_all : forall (c : coro) (caller : ctx), nomark c ->
  (forall a x ps, supplied a caller = Some x ->
     isolated_run caller x (run_corostart repaired a caller c ps)) /\
  (forall a x ops, supplied a caller = Some x ->
     isolated_run caller x (run_coro_await repaired a caller c ops)) /\
  (forall ops, isolated_run caller caller (run_eager repaired caller c ops)).
Proof.
  intros c caller Hc. split; [|split].
  - intros a x ps Hx. apply steps_iso_run, isolated_corostart; auto.
  - intros a x ops Hx. apply steps_iso_run, isolated_coro_await; auto.
  - intros ops. apply steps_iso_run, isolated_eager; auto.
Qed.
