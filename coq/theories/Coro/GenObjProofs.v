(* C06, part 2: the two objects are in lock step on every body tree and every
   consumer history of the domain (by induction on the history, from the
   one-step simulation of GenObjSim.v); ayield from nested awaits. *)
From Asynkit Require Import Base.Prelude Base.Obs Coro.Tree Coro.Native Coro.TreeProofs
  Coro.AsyncGen Coro.GenObj Coro.GenObjSim.
Open Scope Z_scope.

(* ------------------------------------------------------ the main theorem *)
Lemma equiv_from : forall h a p, inv a p -> ok_history h -> agree (a, p) (proj a p, p) h.
Proof.
  induction h as [|op t IH]; intros a p Hinv Hh; [exact I|]. cbn [agree].
  unfold ok_history in Hh. simpl in Hh. apply andb_prop in Hh. destruct Hh as [Hop Ht].
  pose proof (step_sim a p op Hinv Hop) as Hs.
  destruct (ag_hstep (a, p) op) as [oa [a' p']].
  destruct (go_hstep (proj a p, p) op) as [og sg'].
  cbv beta iota zeta in Hs. cbn [fst snd] in *.
  destruct Hs as [Hres Hrest]. split; [exact Hres|].
  intros Hstop. destruct (Hrest Hstop) as (Hobs & -> & Hinv'). split; [exact Hobs|].
  apply IH; assumption.
Qed.

Lemma inv_new : forall c s, oob_free c -> inv (ag_new c s) None.
Proof. intros c s H. repeat split; simpl; auto; discriminate. Qed.

Theorem genobj_equiv : forall c s h, oob_free c -> ok_history h ->
  agree (ag_new c s, None) (go_new c s, None) h.
Proof. intros c s h Hc Hh. apply (equiv_from h (ag_new c s) None); auto using inv_new. Qed.

(* as long as the native object never reaches a stop state, the two traces
   are equal as lists (what [agree] says, in the shape of the harness oracle) *)
Fixpoint never_stops (sa : agen * option pend) (h : list hop) : bool :=
  match h with
  | [] => true
  | op :: t => let '(oa, sa') := ag_hstep sa op in
               negb (ag_stop oa (fst sa')) && never_stops sa' t
  end.

Lemma agree_traces : forall h sa sg, agree sa sg h -> never_stops sa h = true ->
  Forall2 same_obs (ag_trace sa h) (go_trace sg h).
Proof.
  induction h as [|op t IH]; intros sa sg Hag Hns; [constructor|].
  cbn [agree never_stops ag_trace go_trace] in *.
  destruct (ag_hstep sa op) as [oa sa']. destruct (go_hstep sg op) as [og sg'].
  apply andb_prop in Hns. destruct Hns as [Hstop Hns].
  destruct Hag as [_ Hag]. destruct (ag_stop oa (fst sa')); [discriminate|].
  destruct (Hag eq_refl) as [Hobs Hrest]. constructor; auto.
Qed.

Theorem genobj_equiv_traces : forall c s h, oob_free c -> ok_history h ->
  never_stops (ag_new c s, None) h = true ->
  Forall2 same_obs (ag_trace (ag_new c s, None) h) (go_trace (go_new c s, None) h).
Proof. intros. apply agree_traces; auto using genobj_equiv. Qed.

(* ---- a second consumer while the first one's awaitable is suspended ---- *)
Lemma second_consumer : forall a g c, ag_run a = true -> frame_done (ag_fr a) = false ->
  go_run g = true ->
  ag_start a c = mkastep [] (ORaise (RuntimeError RtAgenRunning)) a None /\
  go_start g c = mkgstep [] (ORaise (RuntimeError RtAgenRunning)) g None.
Proof.
  intros [fr run cl s] [grun_ m o gs] c Ha Hf Hg. simpl in *. subst.
  unfold ag_start, go_start; simpl. rewrite Hf. destruct c; auto.
Qed.

(* -------------------------------------------- ayield from nested awaits *)
Definition not_stopiter (i : input) : Prop := forall v, i <> Throw (StopIteration v).

(* c is a yield node whose continuation returns what is sent / raises what is thrown *)
Definition flat_at (d : val) (c : coro) : Prop :=
  exists k1, c = Eff (EUser 0 d) (Susp d k1) /\
             forall i, not_stopiter i -> eqv (k1 i) (resume_with Ret Raise i).

Lemma await_flat : forall kd d c kr ke, flat_at d c ->
  exists k1, await_ kd c kr ke = Eff (EUser 0 d) (Susp d k1) /\
             forall i, not_stopiter i -> eqv (k1 i) (resume_with kr ke i).
Proof.
  intros kd d c kr ke (k1 & -> & Hk). simpl. eexists; split; [reflexivity|].
  intros [v|e] Hi; simpl.
  - eapply eqv_trans.
    + apply await_cong; [apply (Hk (Send v)); intros w Hw; discriminate
                        | intros; apply eqv_refl | intros; apply eqv_refl].
    + simpl. apply eqv_refl.
  - assert (He : eqv (k1 (Throw e)) (Raise e)) by (apply (Hk (Throw e)); exact Hi).
    destruct e;
      try (eapply eqv_trans;
           [apply await_cong; [exact He | intros; apply eqv_refl | intros; apply eqv_refl]
           | simpl; apply eqv_refl]).
    + (* GeneratorExit: close() of the awaited frames, then GeneratorExit at the await *)
      eapply eqv_trans.
      * apply close_then_cong; [exact He | intros; apply eqv_refl].
      * simpl. apply eqv_refl.
    + exfalso. apply (Hi v). reflexivity.
Qed.

Lemma flat_yield : forall d, flat_at d (yield_ d Ret Raise).
Proof. intros d. eexists; split; [reflexivity|]. intros; apply eqv_refl. Qed.

Lemma flat_frames : forall n d, flat_at d (ayield_frames n d).
Proof.
  induction n as [|n IH]; intros d.
  - change (ayield_frames 0 d) with (await_ KGen (yield_ d Ret Raise) Ret Raise).
    unfold flat_at. apply (await_flat KGen d _ Ret Raise), flat_yield.
  - change (ayield_frames (S n) d) with (await_ KCoro (ayield_frames n d) Ret Raise).
    unfold flat_at. apply (await_flat KCoro d _ Ret Raise), IH.
Qed.

(* r = await g.ayield(d) issued under n nested coroutine frames, with the code
   after it [kr] and the handlers around it [ke], IS the yield node of
   `r = yield d` with a continuation bisimilar to the flat one for every input
   except a thrown StopIteration (which oob()'s generator frame converts, PEP 479) *)
Theorem nested_ayield : forall n d kr ke,
  exists k1, await_ KCoro (ayield_frames n d) kr ke = Eff (EUser 0 d) (Susp d k1) /\
             forall i, not_stopiter i -> eqv (k1 i) (resume_with kr ke i).
Proof. intros. apply await_flat, flat_frames. Qed.

(* ----------------------------------------------------------------- examples *)
Ltac prove_free :=
  repeat first [ assumption
               | apply of_ret | apply of_eff | apply of_set
               | apply of_raise; (reflexivity || assumption)
               | apply of_get; intro
               | apply of_susp; intros [?|?] ?; simpl in * ].

(* v = yield 1; log v; w = await tok(11); yield w *)
Definition ex_body : coro :=
  yield_ (VInt 1) (fun r => Eff (ERecv r)
     (await_ KGen (tok (VInt 11)) (fun v => yield_ v (fun _ => Ret VNone) Raise) Raise)) Raise.

Lemma ex_body_free : oob_free ex_body.
Proof. unfold ex_body, yield_, tok. simpl. prove_free. destruct e; simpl in *; prove_free. Qed.

(* anext; asend 7 (suspends on the token); a second consumer's aclose ("already
   running"); the token's answer 5 comes back as the second yielded value;
   aclose; anext on the closed generator *)
Definition ex_hist : list hop :=
  [HStart (CSend VNone); HStart (CSend (VInt 7)); HStart CClose; HResume (Send (VInt 5));
   HStart CClose; HStart (CSend VNone)].

(* the hypotheses of [genobj_equiv_traces] are satisfiable by a non-trivial instance *)
Example ex_equiv :
  oob_free ex_body /\ ok_history ex_hist /\ never_stops (ag_new ex_body [], None) ex_hist = true /\
  map ho_out (go_trace (go_new ex_body [], None) ex_hist) =
    [Some (OReturn (VInt 1)); Some (OYield (VInt 11)); Some (ORaise (RuntimeError RtAgenRunning));
     Some (OReturn (VInt 5)); Some (OReturn VNone); Some (ORaise StopAsyncIteration)] /\
  map ho_events (go_trace (go_new ex_body [], None) ex_hist) = [[]; [ERecv (VInt 7)]; []; []; []; []].
Proof. split; [exact ex_body_free|]. repeat split; reflexivity. Qed.

(* Why a direct throw(GeneratorExit) into a suspended awaitable is outside the domain:
   try: await tok(11) except GeneratorExit: pass  -- CPython throws GeneratorExit into the
   body (which returns: StopAsyncIteration); asynkit's relay closes the body and re-raises *)
Definition ex_ge_body : coro :=
  await_ KGen (tok (VInt 11)) (fun _ => Ret VNone) (fun e => if is_genexit e then Ret VNone else Raise e).

Example ex_throw_genexit_differs :
  let h := [HStart (CSend VNone); HResume (Throw GeneratorExit)] in
  map ho_out (ag_trace (ag_new ex_ge_body [], None) h) = [Some (OYield (VInt 11)); Some (ORaise StopAsyncIteration)] /\
  map ho_out (go_trace (go_new ex_ge_body [], None) h) = [Some (OYield (VInt 11)); Some (ORaise GeneratorExit)].
Proof. split; reflexivity. Qed.

(* Why the comparison ends at the ill-formed native state (CPython 3.12.1 quirk):
   try: yield 1 finally: await tok(11);  aclose() suspended in the finally block, E1 thrown in:
   both raise E1, but CPython leaves ag_running set and answers "already running" for ever *)
Definition ex_quirk_body : coro :=
  yield_ (VInt 1) (fun _ => Ret VNone) (fun e => await_ KGen (tok (VInt 11)) (fun _ => Raise e) Raise).

Example ex_quirk :
  let h := [HStart (CSend VNone); HStart CClose; HResume (Throw (E 1)); HStart (CSend VNone)] in
  map ho_out (ag_trace (ag_new ex_quirk_body [], None) h) =
    [Some (OReturn (VInt 1)); Some (OYield (VInt 11)); Some (ORaise (E 1)); Some (ORaise (RuntimeError RtAgenRunning))] /\
  map ho_running (ag_trace (ag_new ex_quirk_body [], None) h) = [false; true; true; true] /\
  map ho_out (go_trace (go_new ex_quirk_body [], None) h) =
    [Some (OReturn (VInt 1)); Some (OYield (VInt 11)); Some (ORaise (E 1)); Some (ORaise StopAsyncIteration)] /\
  never_stops (ag_new ex_quirk_body [], None) h = false.
Proof. repeat split; reflexivity. Qed.

(* Why it ends at "ignored GeneratorExit": the native generator is then marked closed
   although its frame is alive (a further aclose() raises StopAsyncIteration without
   touching the body); GeneratorObject has no such flag and closes the body *)
Definition ex_ign_body : coro :=
  yield_ (VInt 1) (fun _ => Ret VNone) (fun e => yield_ (VInt 2) (fun _ => Ret VNone) Raise).

Example ex_ignored :
  let h := [HStart (CSend VNone); HStart CClose; HStart CClose] in
  map ho_out (ag_trace (ag_new ex_ign_body [], None) h) =
    [Some (OReturn (VInt 1)); Some (ORaise (RuntimeError RtIgnoredGenExit)); Some (ORaise StopAsyncIteration)] /\
  map ho_out (go_trace (go_new ex_ign_body [], None) h) =
    [Some (OReturn (VInt 1)); Some (ORaise (RuntimeError RtIgnoredGenExit)); Some (OReturn VNone)].
Proof. split; reflexivity. Qed.

(* Why athrow(StopIteration) is outside the domain: thrown into a created generator
   CPython raises it as it is; asynkit's relay takes it for the coroutine's return *)
Example ex_athrow_stopiteration_differs :
  let h := [HStart (CThrow (StopIteration VNone))] in
  map ho_out (ag_trace (ag_new ex_body [], None) h) = [Some (ORaise (StopIteration VNone))] /\
  map ho_out (go_trace (go_new ex_body [], None) h) = [Some (ORaise StopAsyncIteration)].
Proof. split; reflexivity. Qed.

(* nested ayield, instance: depth 3 *)
Example ex_nested : exists k1,
  await_ KCoro (ayield_frames 3 (VInt 1)) Ret Raise = Eff (EUser 0 (VInt 1)) (Susp (VInt 1) k1) /\
  eqv (k1 (Send (VInt 7))) (Ret (VInt 7)) /\ eqv (k1 (Throw GeneratorExit)) (Raise GeneratorExit).
Proof.
  destruct (nested_ayield 3 (VInt 1) Ret Raise) as (k1 & Heq & Hk).
  exists k1. split; [exact Heq|]. split; [apply (Hk (Send (VInt 7)))|apply (Hk (Throw GeneratorExit))];
    intros v Hv; discriminate.
Qed.
