(* Correspondence interface of C04: a generated body, a context argument, the
   caller's initial context and a scenario; the observation lists, per step,
   the body's log entries (values read included), the outcome, the caller's
   context and the supplied context (len, ContextVar 0, ContextVar 1) and
   CoroStart.done() / `start_result is None`. *)
From Asynkit Require Import Base.Prelude Base.Obs Coro.Tree Coro.Native Coro.Prog Coro.Relay
  Coro.Context.
Open Scope Z_scope.

Inductive scen :=
| SCoroStart (ps : list phase)      (* cs = CoroStart(body, context=a); phases *)
| SCoroAwait (ops : list dop)       (* it = coro_await(body, context=a); send(None); ops *)
| SEager (ops : list dop).          (* coro_eager(body); if not done: as_coroutine() driven by ops *)

(* number of distinct variables set in a context: len(ctx) *)
Fixpoint nkeys_from (seen : list var) (c : ctx) : Z :=
  match c with
  | [] => 0
  | (x, _) :: t => if existsb (Z.eqb x) seen then nkeys_from seen t
                   else 1 + nkeys_from (x :: seen) t
  end.
Definition nkeys (c : ctx) : Z := nkeys_from [] c.

Definition octx (c : ctx) : obs := OL [OI (nkeys c); oval (lookup c 0); oval (lookup c 1)].

(* [0, x, v] = ContextVar x read as v ; [1, x, v] = ContextVar x set to v *)
Definition oaccess (a : access) : obs :=
  match a with
  | ARead x v => OL [OI 0; OI x; oval v]
  | AWrite x v => OL [OI 1; OI x; oval v]
  end.

Definition ocstep (s : step) : obs :=
  OL [olist oevent (st_events s); ooutcome (st_out s); octx (st_cur s); oopt octx (st_sup s);
      ob (st_done s); ob (st_srnone s); olist oaccess (st_log s)].

Definition run_with (vt : variant) (i : prog * ctxarg * ctx * scen) : obs :=
  let '(p, a, caller, sc) := i in
  let c := body_of p in
  olist ocstep
    (match sc with
     | SCoroStart ps => run_corostart vt a caller c ps
     | SCoroAwait ops => run_coro_await vt a caller c ops
     | SEager ops => run_eager vt caller c ops
     end).

(* the model of the repaired code (fixes/F3-context.patch) *)
Definition c04_run := run_with repaired.
(* the code before the repair: used for the refutation witnesses *)
Definition c04_run_original := run_with original.
