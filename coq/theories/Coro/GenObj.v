(* asynkit's GeneratorObjectIterator (monitor.py:306-427) over Monitor
   (monitor.py:50-182) over a body coroutine, as a state machine around the
   SAME body tree the native async generator of AsyncGen.v interprets.

     await g.ayield(d)   =  await monitor.oob(d)
     Monitor.oob(d)      :  state = -1 ; return (yield d)
                            -> the marked suspension [yield_ d ..] of AsyncGen.v:
                               the marker event is "state = -1"
     Monitor._asend      :  after every coro.send / coro.throw that came back
                            with a value: state == -1 (a marked suspension,
                            [GYield]) -> state = 1, raise OOBData(value);
                            otherwise the value is yielded outward ([GSusp])

   Three layers, each a small total function:
     gco_*   the body coroutine object (as Tree.co_send/co_throw/co_close, but
             telling marked from real suspensions)
     mon_*   Monitor._asend: first call [mon_start], and a send / throw /
             GeneratorExit arriving at its `yield out_value` [mon_resume]; the
             state cell [go_mstate] is 0 idle / 1 active (-1 exists only between
             oob() and the relay's test, inside one step)
     go_*    GeneratorObjectIterator.asend / _athrow (athrow, aclose): the
             ag_running flag, coro_is_finished / coro_is_new tests, exception
             mapping, `finally: ag_running = False`.
   The coroutines `asend()`, `Monitor.aawait()/athrow()` only `await` the next
   layer: by C02 (await_native, TreeProofs.v) such native awaits forward send
   and throw unchanged and turn GeneratorExit into close()+re-raise, which is
   what _asend does itself; so a send/throw into the suspended `asend()`
   coroutine is a send/throw at _asend's yield.  Checked against the real code
   on every ./check C06 run (stream `genobj`).

   Monitor.oob()'s guard (`state != 1` -> RuntimeError "Monitor not active") is
   not in the model: the body only runs inside _asend, where state = 1.
   Out of the model: asyncgen hooks (_first_iter, finalizer, __del__).

   Model file: definitions only.  Proofs: GenObjProofs.v. *)
From Asynkit Require Import Base.Prelude Base.Obs Coro.Tree Coro.Native Coro.AsyncGen.
Open Scope Z_scope.

(* ------------------------------------------------------------------ ayield *)
(* g.ayield(d):   async def ayield(self, value): return await self.monitor.oob(value)
   where oob() is a generator-based coroutine whose frame is [yield_ d Ret Raise] *)
Definition ayield (d : val) : coro := await_ KGen (yield_ d Ret Raise) Ret Raise.

(* ... awaited from inside n pass-through coroutines `async def f(v): return await g(v)` *)
Definition ayield_frames (n : nat) (d : val) : coro := Nat.iter n native_await (ayield d).

(* ------------------------------------------------- the body coroutine object *)
Inductive cres :=
| CROob (d : val)        (* came back from a marked suspension: Monitor.oob(d) *)
| CRSusp (y : val)       (* came back from a real suspension *)
| CRRet (v : val)        (* StopIteration(v) *)
| CRExc (e : exn).

Definition gsettle (r : list event * store * gstop) : list event * store * cobj * cres :=
  let '(evs, s, st) := r in
  match st with
  | GRet v => (evs, s, Finished, CRRet v)
  | GRaise e => (evs, s, Finished, CRExc (pep479 KCoro e))
  | GYield d k => (evs, s, Suspended k, CROob d)
  | GSusp y k => (evs, s, Suspended k, CRSusp y)
  end.

(* coro.send(v) / coro.throw(e) *)
Definition gco_resume (o : cobj) (s : store) (i : input) : list event * store * cobj * cres :=
  match o with
  | New c =>
      match i with
      | Send VNone => gsettle (grun s c)
      | Send _ => ([], s, o, CRExc (TypeError 1))
      | Throw e => ([], s, Finished, CRExc e)
      end
  | Suspended k => gsettle (grun s (k i))
  | Running => ([], s, o, CRExc (ValueError 1))
  | Finished => ([], s, o, CRExc (RuntimeError RtReuse))
  end.

(* coro.close(): None = returned, Some e = raised e *)
Definition gco_close (o : cobj) (s : store) : list event * store * cobj * option exn :=
  match o with
  | New _ => ([], s, Finished, None)
  | Suspended k =>
      let '(evs, s', st) := grun s (k (Throw GeneratorExit)) in
      match st with
      | GRet _ => (evs, s', Finished, None)
      | GRaise e => (evs, s', Finished, if is_genexit e then None else Some (pep479 KCoro e))
      | GYield _ k' | GSusp _ k' => (evs, s', Suspended k', Some (RuntimeError RtIgnoredGenExit))
      end
  | Running => ([], s, o, Some (ValueError 1))
  | Finished => ([], s, o, None)
  end.

Definition co_finished (o : cobj) : bool := match o with Finished => true | _ => false end.

(* -------------------------------------------------------- Monitor._asend *)
(* how one resumption of the _asend generator ends *)
Inductive mres :=
| MYield (y : val)       (* yielded outward: the relay stays suspended, state = 1 *)
| MRet (v : val)         (* the coroutine returned v *)
| MExc (e : exn).        (* raised e -- OOBData d for a marked suspension *)

(* the head of the while-loop, with what the last send/throw produced;
   result: Monitor.state afterwards (finally: state = 0) and the outcome *)
Definition mon_after (cr : cres) : Z * mres :=
  match cr with
  | CROob d => (0, MExc (OOBData d))       (* state == -1: state = 1; raise OOBData(out_value) *)
  | CRSusp y => (1, MYield y)              (* in_value = yield out_value *)
  | CRRet v => (0, MRet v)                 (* except StopIteration: return stop.value *)
  | CRExc (StopIteration v) => (0, MRet v) (* a StopIteration thrown into the created coroutine *)
  | CRExc e => (0, MExc e)
  end.

(* the first call `callable( *args)`:  except OOBData: raise RuntimeError *)
Definition mon_first (cr : cres) : Z * mres :=
  match cr with
  | CRExc (OOBData _) => (0, MExc (RuntimeError RtRaisedOOB))
  | _ => mon_after cr
  end.

(* Monitor.aawait(coro, v) = _asend(coro, coro.send, (v,)) ; Monitor.athrow(coro, e) =
   _asend(coro, coro.throw, (e,)) : from the start to the first yield / the end *)
Definition mon_start (m : Z) (o : cobj) (s : store) (i : input)
  : list event * store * cobj * (Z * mres) :=
  if (m =? 0)%Z then
    let '(evs, s', o', cr) := gco_resume o s i in (evs, s', o', mon_first cr)
  else ([], s, o, (m, MExc (RuntimeError RtMonitorReentered))).

(* a send / throw arriving at `in_value = yield out_value` *)
Definition mon_resume (o : cobj) (s : store) (i : input)
  : list event * store * cobj * (Z * mres) :=
  match i with
  | Throw GeneratorExit =>                 (* coro.close(); raise thrown *)
      let '(evs, s', o', r) := gco_close o s in
      (evs, s', o', (0%Z, MExc (exn_after_close r)))
  | _ => let '(evs, s', o', cr) := gco_resume o s i in (evs, s', o', mon_after cr)
  end.

(* ------------------------------------------------ GeneratorObjectIterator *)
Record gobj := mkgo {
  go_run : bool;          (* self.ag_running *)
  go_mstate : Z;          (* self.monitor.state *)
  go_coro : cobj;         (* self.coro *)
  go_st : store
}.

Definition go_new (c : coro) (s : store) : gobj := mkgo false 0 (New c) s.

Record gstep := mkgstep {
  gs_events : list event;
  gs_out : outcome;
  gs_obj : gobj;
  gs_pend : option pend
}.

(* asend(): try: await monitor.aawait(..) except OOBData / StopAsyncIteration / else *)
Definition send_outcome (r : mres) : outcome :=
  match r with
  | MYield y => OYield y
  | MExc (OOBData d) => OReturn d
  | MExc StopAsyncIteration => ORaise (RuntimeError RtAgenStopAsyncIter)
  | MExc e => ORaise e
  | MRet _ => ORaise StopAsyncIteration
  end.

(* _athrow(): except OOBData / StopAsyncIteration / GeneratorExit / else *)
Definition throw_outcome (closing : bool) (r : mres) : outcome :=
  match r with
  | MYield y => OYield y
  | MExc (OOBData d) => if closing then ORaise (RuntimeError RtIgnoredGenExit) else OReturn d
  | MExc StopAsyncIteration => ORaise (RuntimeError RtAgenStopAsyncIter)
  | MExc GeneratorExit => if closing then OReturn VNone else ORaise GeneratorExit
  | MExc e => ORaise e
  | MRet _ => if closing then OReturn VNone else ORaise StopAsyncIteration
  end.

Definition outcome_of (p : pend) (r : mres) : outcome :=
  match p with
  | PSend => send_outcome r
  | PThrow => throw_outcome false r
  | PClose => throw_outcome true r
  end.

(* the awaitable stays suspended exactly when the relay yielded outward;
   otherwise `finally: self.ag_running = False` *)
Definition finish (p : pend) (r : list event * store * cobj * (Z * mres)) : gstep :=
  let '(evs, s, o, (m, mr)) := r in
  match mr with
  | MYield _ => mkgstep evs (outcome_of p mr) (mkgo true m o s) (Some p)
  | _ => mkgstep evs (outcome_of p mr) (mkgo false m o s) None
  end.

(* the coroutine asend(v) / athrow(e) / aclose() run from its start *)
Definition go_start (g : gobj) (c : call) : gstep :=
  if go_run g then mkgstep [] (ORaise (RuntimeError RtAgenRunning)) g None
  else if co_finished (go_coro g) then
    mkgstep [] (match c with CSend _ => ORaise StopAsyncIteration | _ => OReturn VNone end) g None
  else
    match c with
    | CSend v => finish PSend (mon_start (go_mstate g) (go_coro g) (go_st g) (Send v))
    | CThrow e => finish PThrow (mon_start (go_mstate g) (go_coro g) (go_st g) (Throw e))
    | CClose => finish PClose (mon_start (go_mstate g) (go_coro g) (go_st g) (Throw GeneratorExit))
    end.

(* send(v) / throw(e) into the suspended coroutine of the call *)
Definition go_resume (g : gobj) (p : pend) (i : input) : gstep :=
  finish p (mon_resume (go_coro g) (go_st g) i).

Definition cstate_of (o : cobj) : Z :=
  match o with New _ => 0 | Suspended _ => 1 | Running => 3 | Finished => 2 end.

Definition go_hstep (st : gobj * option pend) (op : hop) : hobs * (gobj * option pend) :=
  let '(g, p) := st in
  match op with
  | HStart c =>
      let r := go_start g c in
      let p' := or_else (gs_pend r) p in
      (mkhobs (gs_events r) (Some (gs_out r)) (go_run (gs_obj r)) (cstate_of (go_coro (gs_obj r)))
              (is_some p'), (gs_obj r, p'))
  | HResume i =>
      match p with
      | None => (mkhobs [] None (go_run g) (cstate_of (go_coro g)) false, st)
      | Some k =>
          let r := go_resume g k i in
          (mkhobs (gs_events r) (Some (gs_out r)) (go_run (gs_obj r)) (cstate_of (go_coro (gs_obj r)))
                  (is_some (gs_pend r)), (gs_obj r, gs_pend r))
      end
  end.

Fixpoint go_trace (st : gobj * option pend) (h : list hop) : list hobs :=
  match h with
  | [] => []
  | op :: t => let '(o, st') := go_hstep st op in o :: go_trace st' t
  end.
