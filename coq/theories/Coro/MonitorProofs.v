(* Proofs for C07 (Monitor out-of-band channel).
   A. the CPS transformers of Monitor.v (what a caller's `await m.aawait(..)` is, as a
      tree) run exactly as the direct evaluator call_run / call_resume says: for ALL
      coroutine bodies, callers' continuations and stores;
   B. on every body [emb t] (t : mtree, no oob swallowed by a close) the model -- which
      finds out-of-band data by looking at the state flag -- produces, for EVERY history
      of calls and inputs, the trace of the reference semantics of MonitorSpec.v, which
      reads them off the explicit TOob nodes (generic simulation of sessions);
   C. idle after every completed call, re-entrant use refused without effect;
   D. nested monitors; E. helpers; F. examples (non-vacuity, necessity of the carve-out). *)
From Asynkit Require Import Base.Prelude Coro.Tree Coro.Native Coro.Monitor Coro.MonitorSpec.
Open Scope Z_scope.

(* ------------------------------------------------------------- store cells *)
Lemma cell_inj : forall m m', cell m = cell m' -> m = m'.
Proof. unfold cell; intros; lia. Qed.

Lemma mstate_set_same : forall s m z, mstate (setcell s m z) m = z.
Proof. intros. unfold mstate, setcell, update. simpl. rewrite Z.eqb_refl. reflexivity. Qed.

Lemma mstate_set_other : forall s m m' z, m' <> m -> mstate (setcell s m' z) m = mstate s m.
Proof.
  intros. unfold mstate, setcell, update. simpl.
  destruct (cell m =? cell m') eqn:E; [|reflexivity].
  apply Z.eqb_eq, cell_inj in E. congruence.
Qed.

(* prefix the events of a run *)
Definition pre (evs : list event) (r : list event * store * stop) : list event * store * stop :=
  let '(e, s, st) := r in (evs ++ e, s, st).

Lemma pre_nil : forall r, pre [] r = r.
Proof. intros [[e s] st]; reflexivity. Qed.

Lemma pre_cons : forall ev evs r, pre (ev :: evs) r = (let '(e, s, st) := pre evs r in (ev :: e, s, st)).
Proof. intros ev evs [[e s] st]; reflexivity. Qed.

(* ------------------------------------------- CPS trees = direct evaluator *)
Lemma close_k_run : forall c s kont,
  run s (close_k c kont) =
  let '(evs, s', (o, r)) := close_run s c in pre evs (run s' (kont o r)).
Proof.
  induction c as [v|e|ev c IH|x k IH|x v c IH|y k IH]; intros s kont; simpl.
  - rewrite pre_nil; reflexivity.
  - destruct (is_genexit e); rewrite pre_nil; reflexivity.
  - rewrite IH. destruct (close_run s c) as [[evs s'] [o r]]. rewrite pre_cons.
    destruct (pre evs (run s' (kont o r))) as [[e0 s0] st0]. reflexivity.
  - apply IH.
  - apply IH.
  - rewrite pre_nil; reflexivity.
Qed.

Definition run_of_mstop (m : Z) (kont kc : cobj -> res -> coro) (r : list event * store * mstop)
  : list event * store * stop :=
  let '(evs, s', st) := r in
  match st with
  | MEnd o x => pre evs (run s' (kont o x))
  | MSusp y k => (evs, s', SSusp y (relay_cont m k kont kc))
  end.

Lemma relay_k_run : forall c m first s kont kc,
  run s (relay_k m first c kont kc) = run_of_mstop m kont kc (relay_run m first s c).
Proof.
  induction c as [v|e|ev c IH|x k IH|x v c IH|y k IH]; intros m first s kont kc; simpl.
  - rewrite pre_nil; reflexivity.
  - rewrite pre_nil; reflexivity.
  - rewrite IH. destruct (relay_run m first s c) as [[evs s'] [o x|y k]]; simpl.
    + rewrite pre_cons. destruct (pre evs (run s' (kont o x))) as [[e0 s0] st0]. reflexivity.
    + reflexivity.
  - apply IH.
  - apply IH.
  - unfold mstate. destruct (st (lookup s (cell m)) =? -1); simpl.
    + rewrite pre_nil; reflexivity.
    + reflexivity.
Qed.

(* the answer to a real suspension: GeneratorExit goes to [kc], everything else to [kont] *)
Lemma relay_cont_run_close : forall m k kont kc s,
  run s (relay_cont m k kont kc (Throw GeneratorExit)) =
  let '(evs, s', st) := resume_run m s k (Throw GeneratorExit) in
  match st with
  | MEnd o x => pre evs (run s' (kc o x))
  | MSusp y k' => (evs, s', SSusp y (relay_cont m k' kont kc))
  end.
Proof.
  intros. unfold relay_cont, resume_run. rewrite close_k_run.
  destruct (close_run s (k (Throw GeneratorExit))) as [[evs s'] [o r]]. reflexivity.
Qed.

Lemma relay_cont_run_other : forall m k kont kc s i, i <> Throw GeneratorExit ->
  run s (relay_cont m k kont kc i) = run_of_mstop m kont kc (resume_run m s k i).
Proof.
  intros m k kont kc s i Hi. unfold relay_cont, resume_run.
  destruct i as [v|e]; [apply relay_k_run|].
  destruct e; try apply relay_k_run. contradiction.
Qed.

Lemma asend_k_run : forall m o i s kont kc,
  run s (asend_k m o i kont kc) = run_of_mstop m kont kc (asend_run m s o i).
Proof.
  intros m o i s kont kc. unfold asend_k, asend_run, mstate. simpl.
  destruct (st (lookup s (cell m)) =? 0); simpl.
  - destruct (first_call o i) as [c|[o' e]]; simpl.
    + apply relay_k_run.
    + rewrite pre_nil; reflexivity.
  - rewrite pre_nil; reflexivity.
Qed.

(* the continuation a caller's `await m.<cl>(o)` stores at a real suspension *)
Definition call_cont (m : Z) (cl : call) (k : input -> coro) (kont : cobj -> res -> coro) :=
  relay_cont m k (fun o' r => kont o' (post cl r))
             (fun o' r => kont o' (bound_fix true (Throw GeneratorExit) (post cl r))).

Definition run_of_call (m : Z) (cl : call) (kont : cobj -> res -> coro) (r : list event * store * mstop) :=
  let '(evs, s', st) := r in
  match st with
  | MEnd o x => pre evs (run s' (kont o x))
  | MSusp y k => (evs, s', SSusp y (call_cont m cl k kont))
  end.

Theorem call_k_run : forall m o cl s kont,
  run s (call_k m o cl kont) = run_of_call m cl kont (call_run m s o cl).
Proof.
  intros. unfold call_k, call_run. destruct (skips cl o).
  - simpl. rewrite pre_nil; reflexivity.
  - rewrite asend_k_run.
    destruct (asend_run m s o (call_input cl)) as [[evs s'] [o' x|y k]]; reflexivity.
Qed.

(* a caller's await adds one frame around the call coroutine: bound_resume true *)
Theorem call_cont_run : forall m cl k kont s i,
  run s (call_cont m cl k kont i) = run_of_call m cl kont (bound_resume true m cl s k i).
Proof.
  intros. unfold call_cont, bound_resume, call_resume.
  assert (D : i = Throw GeneratorExit \/ i <> Throw GeneratorExit).
  { destruct i as [v|e]; [right; discriminate|]. destruct e; try (right; discriminate). left; reflexivity. }
  destruct D as [->|Hi].
  - rewrite relay_cont_run_close.
    destruct (resume_run m s k (Throw GeneratorExit)) as [[evs s'] [o x|y k']]; reflexivity.
  - rewrite relay_cont_run_other by assumption.
    destruct (resume_run m s k i) as [[evs s'] [o x|y k']]; simpl; [|reflexivity].
    assert (F : bound_fix true i (post cl x) = post cl x).
    { destruct i as [v|e]; [reflexivity|]. destruct e; try reflexivity. contradiction. }
    rewrite F. reflexivity.
Qed.

(* ------------------------------------------------ generic simulation of sessions *)
Section Sim.
  Variables O K O' K' : Type.
  Variable first : store -> O -> call -> list event * store * gstop O K.
  Variable resume : call -> store -> K -> input -> list event * store * gstop O K.
  Variable first' : store -> O' -> call -> list event * store * gstop O' K'.
  Variable resume' : call -> store -> K' -> input -> list event * store * gstop O' K'.
  Variable RO : O -> O' -> Prop.
  Variable RK : store -> K -> K' -> Prop.

  Definition Rstop (s : store) (a : gstop O K) (b : gstop O' K') : Prop :=
    match a, b with
    | GEnd o r, GEnd o' r' => RO o o' /\ r = r'
    | GSusp y k, GSusp y' k' => y = y' /\ RK s k k'
    | _, _ => False
    end.

  Definition R3 (a : list event * store * gstop O K) (b : list event * store * gstop O' K') : Prop :=
    let '(evs, s, st) := a in let '(evs', s', st') := b in evs = evs' /\ s = s' /\ Rstop s st st'.

  Hypothesis Hfirst : forall s o o' cl, RO o o' -> R3 (first s o cl) (first' s o' cl).
  Hypothesis Hresume : forall cl s k k' i, RK s k k' -> R3 (resume cl s k i) (resume' cl s k' i).

  Lemma gsteps_sim : forall cl ins s k k', RK s k k' ->
    let '(tr, s2, o2) := @gsteps O K resume cl s k ins in
    let '(tr', s2', o2') := @gsteps O' K' resume' cl s k' ins in
    tr = tr' /\ s2 = s2' /\ match o2, o2' with
                            | Some o, Some o' => RO o o'
                            | None, None => True
                            | _, _ => False
                            end.
  Proof.
    induction ins as [|i t IH]; intros s k k' Hk; simpl; auto.
    pose proof (Hresume cl s k k' i Hk) as H.
    destruct (resume cl s k i) as [[evs s1] st1], (resume' cl s k' i) as [[evs' s1'] st1'].
    destruct H as (-> & -> & H).
    destruct st1 as [o r|y k1], st1' as [o' r'|y' k1']; simpl in H; try contradiction.
    - destruct H as [Ho ->]. auto.
    - destruct H as [-> Hk1]. specialize (IH s1' k1 k1' Hk1).
      destruct (@gsteps O K resume cl s1' k1 t) as [[tr s2] o2],
               (@gsteps O' K' resume' cl s1' k1' t) as [[tr' s2'] o2'].
      destruct IH as (-> & -> & Ho). auto.
  Qed.

  Theorem gsession_sim : forall h s o o', RO o o' ->
    @gsession O K first resume s o h = @gsession O' K' first' resume' s o' h.
  Proof.
    induction h as [|[cl ins] t IH]; intros s o o' Ho; simpl; auto.
    pose proof (Hfirst s o o' cl Ho) as H.
    destruct (first s o cl) as [[evs s1] st1], (first' s o' cl) as [[evs' s1'] st1'].
    destruct H as (-> & -> & H).
    destruct st1 as [o1 r|y k1], st1' as [o1' r'|y' k1']; simpl in H; try contradiction.
    - destruct H as [Ho1 ->]. simpl. f_equal. apply IH, Ho1.
    - destruct H as [-> Hk1]. pose proof (gsteps_sim cl ins s1' k1 k1' Hk1) as G.
      destruct (@gsteps O K resume cl s1' k1 ins) as [[tr s2] o2],
               (@gsteps O' K' resume' cl s1' k1' ins) as [[tr' s2'] o2'].
      destruct G as (-> & -> & G). simpl. f_equal.
      destruct o2 as [o2|], o2' as [o2'|]; try contradiction; auto.
  Qed.
End Sim.

(* ----------------------------------------- the model on [emb t] = the reference *)
Definition obj_ok (o : tobj) : Prop :=
  match o with TNew t => no_lost t | TAt k => forall i, no_lost (k i) | TFinished => True end.

Definition RO (o : cobj) (o' : tobj) : Prop := o = obj_emb o' /\ obj_ok o'.
Definition RK (m : Z) (s : store) (k : input -> coro) (k' : input -> mtree) : Prop :=
  k = (fun i => emb (k' i)) /\ (forall i, no_lost (k' i)) /\ mstate s m = 1.

Notation R3m m := (@R3 cobj (input -> coro) tobj (input -> mtree) RO (RK m)).

Lemma trelay_cons : forall m first ev evs s st,
  trelay m first (ev :: evs, s, st) =
  let '(e, s', g) := trelay m first (evs, s, st) in (ev :: e, s', g).
Proof.
  intros. unfold trelay. destruct st as [v|e|y k|m1 d k]; try reflexivity.
  destruct (m1 =? m); reflexivity.
Qed.

Lemma relay_run_emb : forall t m first s, mstate s m = 1 -> no_lost t ->
  R3m m (lift3 gstop_of (relay_run m first s (emb t))) (trelay m first (trun s t)).
Proof.
  induction t as [v|e|ev t IH|y k IH|m0 d k IH|m0 d ta IHa tn IHn];
    intros m first s Hs Hn; simpl in *.
  - repeat split.
  - repeat split.
  - specialize (IH m first s Hs Hn).
    destruct (relay_run m first s (emb t)) as [[evs s1] st1].
    destruct (trun s t) as [[evs' s1'] st1'].
    cbv beta iota. rewrite trelay_cons.
    destruct (trelay m first (evs', s1', st1')) as [[evs2 s2] st2].
    simpl in IH |- *. destruct IH as (-> & -> & H). repeat split; auto.
  - rewrite Hs. simpl. repeat split; auto.
  - fold (mstate s m0). destruct (mstate s m0 =? 1) eqn:Ea; simpl.
    + destruct (m0 =? m) eqn:Em.
      * apply Z.eqb_eq in Em; subst m0.
        unfold setst. simpl. fold (setcell s m (-1)). rewrite mstate_set_same. simpl.
        repeat split; auto.
      * apply Z.eqb_neq in Em. fold (setcell s m0 (-1)).
        rewrite mstate_set_other by auto. rewrite Hs. simpl. repeat split; auto.
        rewrite mstate_set_other by auto. exact Hs.
    + apply IH; auto.
  - contradiction.
Qed.

Ltac fin := unfold RO, RK; simpl; repeat split; auto.

Lemma tclose_cons : forall m ev evs s st,
  tclose m (ev :: evs, s, st) = let '(e, s', g) := tclose m (evs, s, st) in (ev :: e, s', g).
Proof. intros. unfold tclose. destruct st as [v|e|y k|m1 d k]; reflexivity. Qed.

Definition close_end (m : Z) (r : list event * store * (cobj * option exn))
  : list event * store * gstop cobj (input -> coro) :=
  let '(evs, s', (o, x)) := r in (evs, setcell s' m 0, GEnd o (RExc (exn_after_close x))).

Lemma close_run_emb : forall t m s, no_lost t ->
  R3m m (close_end m (close_run s (emb t))) (tclose m (trun s t)).
Proof.
  induction t as [v|e|ev t IH|y k IH|m0 d k IH|m0 d ta IHa tn IHn]; intros m s Hn; simpl in *.
  - fin.
  - destruct (is_genexit e); fin.
  - specialize (IH m s Hn).
    destruct (close_run s (emb t)) as [[evs s1] [o1 x1]].
    destruct (trun s t) as [[evs' s1'] st1'].
    cbv beta iota. rewrite tclose_cons.
    destruct (tclose m (evs', s1', st1')) as [[evs2 s2] st2].
    simpl in IH |- *. destruct IH as (-> & -> & H). repeat split; auto.
  - fin.
  - fold (mstate s m0). destruct (mstate s m0 =? 1) eqn:Ea; simpl.
    + fin.
    + apply IH; auto.
  - contradiction.
Qed.

Lemma tpost_R3 : forall m cl a b, R3m m a b ->
  R3m m (let '(evs, s, st) := a in
         (evs, s, match st with GEnd o x => GEnd o (post cl x) | GSusp y k => GSusp y k end))
        (tpost cl b).
Proof.
  intros m cl [[evs s] st] [[evs' s'] st'] (-> & -> & H). simpl.
  destruct st as [o x|y k], st' as [o' x'|y' k']; simpl in *; try contradiction.
  - destruct H as [[Ho1 Ho2] ->]. repeat split; auto.
  - destruct H as [-> (H1 & H2 & H3)]. repeat split; auto.
Qed.

Lemma lift3_post : forall cl (r : list event * store * mstop),
  lift3 gstop_of (let '(evs, s', st) := r in (evs, s', post_stop cl st)) =
  let '(evs, s, st) := lift3 gstop_of r in
  (evs, s, match st with GEnd o x => GEnd o (post cl x) | GSusp y k => GSusp y k end).
Proof. intros cl [[evs s] [o x|y k]]; reflexivity. Qed.

Lemma call_resume_emb : forall m cl s k k' i, RK m s k k' ->
  R3m m (lift3 gstop_of (call_resume m cl s k i)) (tcall_resume m cl s k' i).
Proof.
  intros m cl s k k' i (-> & Hn & Hs). unfold call_resume, tcall_resume.
  rewrite lift3_post. apply tpost_R3. unfold resume_run.
  destruct i as [v|e].
  - apply relay_run_emb; auto.
  - destruct e; try (apply relay_run_emb; auto).
    pose proof (close_run_emb (k' (Throw GeneratorExit)) m s (Hn _)) as H.
    destruct (close_run s (emb (k' (Throw GeneratorExit)))) as [[evs s1] [o1 x1]]. exact H.
Qed.

Lemma call_run_emb : forall m s o o' cl, RO o o' ->
  R3m m (lift3 gstop_of (call_run m s o cl)) (tcall_run m s o' cl).
Proof.
  intros m s o o' cl [-> Hok]. unfold call_run, tcall_run.
  assert (Hsk : skips cl (obj_emb o') = tskips cl o') by (destruct cl, o'; reflexivity).
  rewrite Hsk. destruct (tskips cl o').
  - simpl. fin.
  - unfold asend_run. destruct (mstate s m =? 0) eqn:E0.
    + rewrite lift3_post. apply tpost_R3.
      destruct o' as [t|k'|]; simpl in *.
      * destruct (call_input cl) as [v|e]; simpl.
        -- destruct v; simpl; try (fin; fail).
           apply relay_run_emb; auto using mstate_set_same.
        -- fin.
      * apply relay_run_emb; auto using mstate_set_same.
      * destruct (call_input cl); simpl; fin.
    + simpl. fin.
      destruct cl; reflexivity.
Qed.

(* Every history of calls, every body: the model (out-of-band data recognised by the
   state flag) produces the trace of the reference (explicit oob nodes). *)
Theorem msession_tsession : forall m t s h, no_lost t ->
  msession m s (New (emb t)) h = tsession m s (TNew t) h.
Proof.
  intros m t s h Hn. unfold msession, tsession.
  apply gsession_sim with (RO := RO) (RK := RK m).
  - intros; apply call_run_emb; auto.
  - intros; apply call_resume_emb; auto.
  - split; [reflexivity|exact Hn].
Qed.

(* ------------------------------------------------------------ idle after use *)
Lemma relay_run_idle : forall c m first s evs s' o r,
  relay_run m first s c = (evs, s', MEnd o r) -> mstate s' m = 0.
Proof.
  induction c as [v|e|ev c IH|x k IH|x v c IH|y k IH]; intros m first s evs s' o r H; simpl in H.
  - inversion H; apply mstate_set_same.
  - inversion H; apply mstate_set_same.
  - destruct (relay_run m first s c) as [[evs1 s1] st1] eqn:E. inversion H; subst.
    eapply IH; eauto.
  - eapply IH; eauto.
  - eapply IH; eauto.
  - destruct (mstate s m =? -1); inversion H. apply mstate_set_same.
Qed.

Lemma resume_run_idle : forall m s k i evs s' o r,
  resume_run m s k i = (evs, s', MEnd o r) -> mstate s' m = 0.
Proof.
  intros m s k i evs s' o r H. unfold resume_run in H.
  destruct i as [v|e]; [eapply relay_run_idle; eauto|].
  destruct e; try (eapply relay_run_idle; eauto; fail).
  destruct (close_run s (k (Throw GeneratorExit))) as [[evs1 s1] [o1 x1]].
  inversion H. apply mstate_set_same.
Qed.

(* a GeneratorExit at a real suspension (close() of the relay) always ends the call *)
Lemma resume_run_close_ends : forall m s k, exists evs s' o r,
  resume_run m s k (Throw GeneratorExit) = (evs, s', MEnd o r) /\ mstate s' m = 0.
Proof.
  intros. unfold resume_run.
  destruct (close_run s (k (Throw GeneratorExit))) as [[evs1 s1] [o1 x1]].
  do 4 eexists. split; [reflexivity|apply mstate_set_same].
Qed.

Lemma asend_run_idle : forall m s o i evs s' o' r,
  mstate s m = 0 -> asend_run m s o i = (evs, s', MEnd o' r) -> mstate s' m = 0.
Proof.
  intros m s o i evs s' o' r H0 H. unfold asend_run in H. rewrite H0 in H. simpl in H.
  destruct (first_call o i) as [c|[o1 e]].
  - eapply relay_run_idle; eauto.
  - inversion H. apply mstate_set_same.
Qed.

Lemma call_run_idle : forall m s o cl evs s' o' r,
  mstate s m = 0 -> call_run m s o cl = (evs, s', MEnd o' r) -> mstate s' m = 0.
Proof.
  intros m s o cl evs s' o' r H0 H. unfold call_run in H. destruct (skips cl o).
  - inversion H; subst; auto.
  - destruct (asend_run m s o (call_input cl)) as [[evs1 s1] st1] eqn:E.
    destruct st1 as [o1 r1|y k]; simpl in H; inversion H; subst.
    eapply asend_run_idle; eauto.
Qed.

Lemma call_resume_idle : forall m cl s k i evs s' o r,
  call_resume m cl s k i = (evs, s', MEnd o r) -> mstate s' m = 0.
Proof.
  intros m cl s k i evs s' o r H. unfold call_resume in H.
  destruct (resume_run m s k i) as [[evs1 s1] st1] eqn:E.
  destruct st1 as [o1 r1|y k1]; simpl in H; inversion H; subst.
  eapply resume_run_idle; eauto.
Qed.

(* ----------------------------------------------------------- re-entrant use *)
Lemma post_reentered : forall cl,
  post cl (RExc (RuntimeError RtMonitorReentered)) = RExc (RuntimeError RtMonitorReentered).
Proof. destruct cl; reflexivity. Qed.

Lemma call_run_reentered : forall m s o cl,
  mstate s m <> 0 -> skips cl o = false ->
  call_run m s o cl = ([], s, MEnd o (RExc (RuntimeError RtMonitorReentered))).
Proof.
  intros m s o cl H Hs. unfold call_run, asend_run. rewrite Hs.
  destruct (mstate s m =? 0) eqn:E; [apply Z.eqb_eq in E; contradiction|].
  simpl. rewrite post_reentered. reflexivity.
Qed.

Lemma call_k_reentered : forall m s o cl kont,
  mstate s m <> 0 -> skips cl o = false ->
  run s (call_k m o cl kont) = run s (kont o (RExc (RuntimeError RtMonitorReentered))).
Proof.
  intros. rewrite call_k_run, call_run_reentered by assumption. simpl. apply pre_nil.
Qed.

(* ------------------------------------------------------------ nested monitors *)
Definition kemb (k : input -> mtree) : input -> coro := fun i => emb (k i).

Lemma mstate_unfold : forall s m, st (lookup s (cell m)) = mstate s m.
Proof. reflexivity. Qed.

Opaque lookup update cell.

(* an oob of the OUTER monitor A issued under the relay of B: B passes it outward
   untouched (a real suspension for B, B stays active), A's relay consumes it *)
Lemma nested_outer_oob : forall A B fa fb s d k kontB kcB,
  A <> B -> mstate s A = 1 -> mstate s B = 1 ->
  relay_run A fa s (relay_k B fb (emb (TOob A d k)) kontB kcB) =
  ([], setcell (setcell (setcell s A (-1)) A 1) A 0,
   MEnd (Suspended (relay_cont B (kemb k) kontB kcB)) (RExc (OOBData d))).
Proof.
  intros A B fa fb s d k kontB kcB Hne HA HB. simpl.
  rewrite mstate_unfold, HA. simpl.
  fold (setcell s A (-1)). rewrite mstate_unfold, mstate_set_other by auto. rewrite HB. simpl.
  rewrite mstate_set_same. reflexivity.
Qed.

(* an oob of the INNER monitor B: consumed by B's relay; A's relay only sees what
   B's driver (kontB) does next *)
Lemma nested_inner_oob : forall A B fa fb s d k kontB kcB,
  A <> B -> mstate s B = 1 ->
  relay_run A fa s (relay_k B fb (emb (TOob B d k)) kontB kcB) =
  relay_run A fa (setcell (setcell (setcell s B (-1)) B 1) B 0)
            (kontB (Suspended (kemb k)) (RExc (OOBData d))).
Proof.
  intros A B fa fb s d k kontB kcB Hne HB. simpl.
  rewrite mstate_unfold, HB. simpl.
  fold (setcell s B (-1)). rewrite mstate_unfold, mstate_set_same. reflexivity.
Qed.

(* a real suspension passes through both relays unchanged *)
Lemma nested_real : forall A B fa fb s y k kontB kcB,
  mstate s A = 1 -> mstate s B = 1 ->
  relay_run A fa s (relay_k B fb (emb (TSusp y k)) kontB kcB) =
  ([], s, MSusp y (relay_cont B (kemb k) kontB kcB)).
Proof.
  intros A B fa fb s y k kontB kcB HA HB. simpl.
  rewrite mstate_unfold, HB. simpl. rewrite HA. reflexivity.
Qed.

Transparent lookup update cell.

(* what is sent / thrown at such a suspension reaches the body's continuation through B *)
Lemma relay_cont_forward : forall B k kontB kcB i,
  i <> Throw GeneratorExit -> relay_cont B (kemb k) kontB kcB i = relay_k B false (emb (k i)) kontB kcB.
Proof.
  intros B k kontB kcB i H. unfold relay_cont, kemb.
  destruct i as [v|e]; [reflexivity|]. destruct e; try reflexivity. contradiction.
Qed.

(* ------------------------------------------- answers reach the oob that asked *)
(* the body reaches an oob node of the driving monitor: the call ends with OOBData d and
   the object is that node's continuation; the next call's input is what oob() returns
   (aawait v) / raises (athrow e) *)
Lemma oob_then_answer : forall m s t evs s1 d k,
  mstate s m = 0 -> trun (setcell s m 1) t = (evs, s1, TsOob m d k) ->
  tcall_run m s (TNew t) (CAwait VNone) =
    (evs, setcell (setcell s1 m 1) m 0, GEnd (TAt k) (RExc (OOBData d)))
  /\ (forall v', tfirst_call (TAt k) (call_input (CAwait v')) = inl (k (Send v')))
  /\ (forall e, tfirst_call (TAt k) (call_input (CThrow e)) = inl (k (Throw e))).
Proof.
  intros m s t evs s1 d k H0 H. split; [|split; reflexivity].
  unfold tcall_run. simpl. rewrite H0. simpl. rewrite H. simpl. rewrite Z.eqb_refl. reflexivity.
Qed.

(* ---------------------------------------------------------------- helpers *)
Definition map_stop (f : res -> res) (r : list event * store * mstop) : list event * store * mstop :=
  let '(evs, s, st) := r in (evs, s, match st with MEnd o x => MEnd o (f x) | _ => st end).

Lemma helpers_first : forall m s o,
  (* start() = aawait(None); OOBData d -> return d; a return -> RuntimeError *)
  call_run m s o CStart =
    map_stop (fun x => match x with
                       | RExc (OOBData d) => RVal d
                       | RVal _ => RExc (RuntimeError (RtOther 99))
                       | _ => x end) (call_run m s o (CAwait VNone))
  (* try_await(v, sentinel) = aawait(v); OOBData -> return sentinel *)
  /\ (forall v sen, call_run m s o (CTry v sen) =
        map_stop (fun x => match x with RExc (OOBData _) => RVal sen | _ => x end)
                 (call_run m s o (CAwait v)))
  (* aclose() on a finished coroutine returns None and touches nothing *)
  /\ call_run m s Finished CClose = ([], s, MEnd Finished (RVal VNone))
  (* aclose() otherwise = athrow(GeneratorExit); GeneratorExit or a return -> None;
     an oob() issued while closing -> RuntimeError *)
  /\ (o <> Finished -> call_run m s o CClose =
        map_stop (fun x => match x with
                           | RExc GeneratorExit | RVal _ => RVal VNone
                           | RExc (OOBData _) => RExc (RuntimeError RtIgnoredGenExit)
                           | _ => x end) (call_run m s o (CThrow GeneratorExit))).
Proof.
  intros m s o. unfold call_run. simpl. repeat split.
  - destruct (asend_run m s o (Send VNone)) as [[evs s'] [o' [v|e]|y k]]; try reflexivity.
    all: try (destruct e; reflexivity).
  - intros v sen. destruct (asend_run m s o (Send v)) as [[evs s'] [o' [v0|e]|y k]]; try reflexivity.
    all: try (destruct e; reflexivity).
  - intros Ho. destruct o; try contradiction; simpl;
      match goal with |- context [asend_run ?a ?b ?c ?d] =>
        destruct (asend_run a b c d) as [[evs s'] [o' [v0|e]|y k0]]; try reflexivity;
        try (destruct e; reflexivity) end.
Qed.

Lemma helpers_resume : forall m cl s k i,
  call_resume m cl s k i = map_stop (post cl) (resume_run m s k i).
Proof. intros. unfold call_resume, map_stop. destruct (resume_run m s k i) as [[evs s'] [o x|y k']]; reflexivity. Qed.

(* ------------------------------------------------------ non-vacuity examples *)
(* d1 = await M0.oob(1); log d1; await tok(11); await M0.oob(2); return 5 *)
Definition ex_body : mtree :=
  TOob 0 (VInt 1) (fun i => match i with
    | Send v => TEff (ERecv v) (TSusp (VInt 11) (fun _ =>
                  TOob 0 (VInt 2) (fun j => match j with Send w => TRet w | Throw e => TRaise e end)))
    | Throw e => TRaise e end).

Example ex_no_lost : no_lost ex_body.
Proof. simpl. intros [v|e]; simpl; auto. intros _ [w|e]; exact I. Qed.

Definition ex_history : list (call * list input) :=
  [(CAwait VNone, []); (CAwait (VInt 7), [Send (VInt 31)]); (CAwait (VInt 5), [])].

Example ex_session :
  map (map (fun g : gobs => (fst (fst g), snd (fst g), mstate (snd g) 0)))
      (msession 0 [] (New (emb ex_body)) ex_history)
  = [ [([], ORaise (OOBData (VInt 1)), 0)];
      [([ERecv (VInt 7)], OYield (VInt 11), 1); ([], ORaise (OOBData (VInt 2)), 0)];
      [([], OReturn (VInt 5), 0)] ]
  /\ oob_seen (msession 0 [] (New (emb ex_body)) ex_history) = [VInt 1; VInt 2].
Proof. split; vm_compute; reflexivity. Qed.

(* the carve-out is necessary: an oob() swallowed by a close() of its frame leaves the flag
   at -1, and the next REAL suspension (token 12) reaches the driver as OOBData 12 *)
Definition ex_lost : mtree :=
  TOob 0 (VInt 1) (fun i => match i with
    | Throw GeneratorExit => TLost 0 (VInt 5) (TSusp (VInt 12) (fun _ => TRet VNone)) (TRet VNone)
    | _ => TRet VNone end).

Example ex_lost_confuses :
  let h := [(CAwait VNone, []); (CThrow GeneratorExit, [])] in
  map (map (fun g : gobs => snd (fst g))) (msession 0 [] (New (emb ex_lost)) h)
    = [[ORaise (OOBData (VInt 1))]; [ORaise (OOBData (VInt 12))]]
  /\ map (map (fun g : gobs => snd (fst g))) (tsession 0 [] (TNew ex_lost) h)
    = [[ORaise (OOBData (VInt 1))]; [OYield (VInt 12)]].
Proof. split; vm_compute; reflexivity. Qed.

Example ex_nested : forall kontB kcB,
  relay_run 0 false [(cell 1, VInt 1); (cell 0, VInt 1)]
            (relay_k 1 false (emb (TOob 0 (VInt 9) (fun _ => TRet VNone))) kontB kcB)
  = ([], setcell (setcell (setcell [(cell 1, VInt 1); (cell 0, VInt 1)] 0 (-1)) 0 1) 0 0,
     MEnd (Suspended (relay_cont 1 (kemb (fun _ => TRet VNone)) kontB kcB)) (RExc (OOBData (VInt 9)))).
Proof. intros. apply nested_outer_oob; [lia|reflexivity|reflexivity]. Qed.
