(* Proofs for C07 (work in progress placeholder; replaced below) *)
From Asynkit Require Import Base.Prelude Coro.Tree Coro.Native Coro.Monitor.
