(* Interaction trees for Python coroutines / generators (DESIGN 2.2(A)).

   A tree [coro] is the complete behaviour of one coroutine *body*: what it
   does until it returns, raises or suspends, and -- through the continuation
   of [Susp] -- how it reacts to whatever is sent or thrown into it next.
   Coroutine *objects* ([cobj]) add CPython's protocol around a body
   (created / suspended / running / finished, PEP 479 at the boundary,
   close()).  Theorems quantify over [coro], i.e. over all bodies.

   Model file: definitions only (shared by C01..C07).  Proofs: TreeProofs.v. *)
From Asynkit Require Import Base.Prelude Base.Obs.

(* ------------------------------------------------------------------ values *)
Inductive val := VNone | VInt (z : Z) | VFut (f : Z).
Definition var := Z.                       (* ContextVar identity *)

Definition val_eqb (a b : val) : bool :=
  match a, b with
  | VNone, VNone => true
  | VInt x, VInt y => Z.eqb x y
  | VFut x, VFut y => Z.eqb x y
  | _, _ => false
  end.

(* -------------------------------------------------------------- exceptions *)
(* RuntimeError is distinguished by the message CPython / asynkit gives it *)
Inductive rt_kind :=
| RtIgnoredGenExit      (* "coroutine ignored GeneratorExit" / "generator ignored ..." *)
| RtReuse               (* "cannot reuse already awaited coroutine" *)
| RtCoroStopIter        (* PEP 479: "coroutine raised StopIteration" *)
| RtGenStopIter         (* PEP 479: "generator raised StopIteration" *)
| RtNoActiveExc         (* "No active exception to reraise" *)
| RtRaisedOOB           (* Monitor: "coroutine raised OOBData" *)
| RtMonitorReentered    (* "Monitor cannot be re-entered" *)
| RtMonitorNotActive    (* "Monitor not active" *)
| RtOther (n : Z).      (* room for later properties *)

Inductive exn :=
| GeneratorExit
| CancelledError
| StopIteration (v : val)
| StopAsyncIteration
| RuntimeError (k : rt_kind)
| TypeError (k : Z)          (* 1 = can't send non-None value to a just-started coroutine *)
| ValueError (k : Z)         (* 1 = coroutine already executing *)
| AssertionError
| SynchronousAbort           (* asynkit, derives BaseException *)
| SynchronousError           (* asynkit, derives RuntimeError *)
| InvalidStateError
| OOBData (d : val)          (* asynkit.monitor, derives Exception *)
| E (n : Z)                  (* user exception class n, derives Exception *)
| BaseE (n : Z).             (* user exception class n, derives BaseException only *)

Definition rt_code (k : rt_kind) : Z :=
  match k with
  | RtIgnoredGenExit => 1 | RtReuse => 2 | RtCoroStopIter => 3 | RtGenStopIter => 4
  | RtNoActiveExc => 5 | RtRaisedOOB => 6 | RtMonitorReentered => 7 | RtMonitorNotActive => 8
  | RtOther n => 100 + n
  end.

Definition is_genexit (e : exn) : bool :=
  match e with GeneratorExit => true | _ => false end.

(* exception classes usable in an [except] clause *)
Inductive exc_class :=
| CGeneratorExit | CCancelledError | CStopIteration | CStopAsyncIteration
| CRuntimeError | CTypeError | CValueError | CAssertionError
| CSynchronousAbort | CSynchronousError | CInvalidStateError | COOBData
| CE (n : Z) | CBaseE (n : Z)
| CException | CBaseException.

(* does e derive from Exception? (GeneratorExit, CancelledError, SynchronousAbort and BaseE do not) *)
Definition is_exception (e : exn) : bool :=
  match e with
  | GeneratorExit | CancelledError | SynchronousAbort | BaseE _ => false
  | _ => true
  end.

Definition matches (c : exc_class) (e : exn) : bool :=
  match c, e with
  | CBaseException, _ => true
  | CException, _ => is_exception e
  | CGeneratorExit, GeneratorExit => true
  | CCancelledError, CancelledError => true
  | CStopIteration, StopIteration _ => true
  | CStopAsyncIteration, StopAsyncIteration => true
  | CRuntimeError, RuntimeError _ => true
  | CRuntimeError, SynchronousError => true
  | CTypeError, TypeError _ => true
  | CValueError, ValueError _ => true
  | CAssertionError, AssertionError => true
  | CSynchronousAbort, SynchronousAbort => true
  | CSynchronousError, SynchronousError => true
  | CInvalidStateError, InvalidStateError => true
  | COOBData, OOBData _ => true
  | CE n, E m => Z.eqb n m
  | CBaseE n, BaseE m => Z.eqb n m
  | _, _ => false
  end.

Definition matches_any (cs : list exc_class) (e : exn) : bool :=
  existsb (fun c => matches c e) cs.

(* which kind of object a frame belongs to; decides the PEP 479 message and
   what a finished object answers *)
Inductive kind := KCoro | KGen.

(* PEP 479: a StopIteration that escapes a generator/coroutine frame becomes RuntimeError *)
Definition pep479 (kd : kind) (e : exn) : exn :=
  match e with
  | StopIteration _ => RuntimeError (match kd with KCoro => RtCoroStopIter | KGen => RtGenStopIter end)
  | _ => e
  end.

(* ------------------------------------------------------------------ events *)
(* observable side effects of a body (entries appended to the log list) *)
Inductive event :=
| ELog (n : Z)               (* explicit log statement *)
| ERecv (v : val)            (* value an await / ContextVar.get evaluated to *)
| ECaught (e : exn)          (* an except clause was entered with e *)
| ECallRet (v : val)         (* value returned by a nested call *)
| EUser (tag : Z) (v : val). (* room for later properties *)

(* -------------------------------------------------------------------- trees *)
Inductive input := Send (v : val) | Throw (e : exn).

Inductive coro :=
| Ret   (v : val)                        (* return v  (StopIteration(v) at the boundary) *)
| Raise (e : exn)                        (* terminated by exception e                   *)
| Eff   (ev : event) (c : coro)          (* observable side effect                      *)
| Get   (x : var) (k : val -> coro)      (* ContextVar read in the current context      *)
| Set_  (x : var) (v : val) (c : coro)   (* ContextVar write                            *)
| Susp  (y : val) (k : input -> coro).   (* suspended having yielded y                  *)

(* prefix a tree with a list of events *)
Fixpoint effs (evs : list event) (c : coro) : coro :=
  match evs with
  | [] => c
  | ev :: t => Eff ev (effs t c)
  end.

(* Inductive bisimilarity: the two bodies perform the same effects and yield the
   same values, return / raise the same, and do so again after every input. *)
Inductive eqv : coro -> coro -> Prop :=
| eqv_ret v : eqv (Ret v) (Ret v)
| eqv_raise e : eqv (Raise e) (Raise e)
| eqv_eff ev c c' : eqv c c' -> eqv (Eff ev c) (Eff ev c')
| eqv_get x k k' : (forall v, eqv (k v) (k' v)) -> eqv (Get x k) (Get x k')
| eqv_set x v c c' : eqv c c' -> eqv (Set_ x v c) (Set_ x v c')
| eqv_susp y k k' : (forall i, eqv (k i) (k' i)) -> eqv (Susp y k) (Susp y k').

(* ------------------------------------------------- running a body to a stop *)
(* context variables of the context the object is driven in *)
Definition store := list (var * val).
Fixpoint lookup (s : store) (x : var) : val :=
  match s with
  | [] => VNone
  | (y, v) :: t => if Z.eqb x y then v else lookup t x
  end.
Definition update (s : store) (x : var) (v : val) : store := (x, v) :: s.

Inductive stop :=
| SRet (v : val) | SRaise (e : exn) | SSusp (y : val) (k : input -> coro).

(* run a body until it returns, raises or suspends; effects in order *)
Fixpoint run (s : store) (c : coro) : list event * store * stop :=
  match c with
  | Ret v => ([], s, SRet v)
  | Raise e => ([], s, SRaise e)
  | Eff ev c' => let '(evs, s', st) := run s c' in (ev :: evs, s', st)
  | Get x k => run s (k (lookup s x))
  | Set_ x v c' => run (update s x v) c'
  | Susp y k => ([], s, SSusp y k)
  end.

(* --------------------------------------------------------- coroutine objects *)
Inductive cobj :=
| New (c : coro)                    (* created, body not started *)
| Suspended (k : input -> coro)     (* suspended at a yield / await *)
| Running                           (* executing (re-entrant call) *)
| Finished.                         (* returned, raised or closed *)

Inductive outcome :=
| OYield (y : val)     (* send()/throw() returned y *)
| OReturn (v : val)    (* StopIteration(v); for close(): returned None *)
| ORaise (e : exn).

Record resp := mkresp { r_events : list event; r_out : outcome; r_obj : cobj; r_store : store }.

Definition settle (kd : kind) (r : list event * store * stop) : resp :=
  let '(evs, s, st) := r in
  match st with
  | SRet v => mkresp evs (OReturn v) Finished s
  | SRaise e => mkresp evs (ORaise (pep479 kd e)) Finished s
  | SSusp y k => mkresp evs (OYield y) (Suspended k) s
  end.

Definition co_send (kd : kind) (o : cobj) (s : store) (v : val) : resp :=
  match o with
  | New c => match v with
             | VNone => settle kd (run s c)
             | _ => mkresp [] (ORaise (TypeError 1)) o s
             end
  | Suspended k => settle kd (run s (k (Send v)))
  | Running => mkresp [] (ORaise (ValueError 1)) o s
  | Finished => mkresp [] (match kd with
                           | KCoro => ORaise (RuntimeError RtReuse)
                           | KGen => OReturn VNone
                           end) o s
  end.

(* throw into a never-started object finishes it with that exception without
   running the body (and without PEP 479 conversion) *)
Definition co_throw (kd : kind) (o : cobj) (s : store) (e : exn) : resp :=
  match o with
  | New c => mkresp [] (ORaise e) Finished s
  | Suspended k => settle kd (run s (k (Throw e)))
  | Running => mkresp [] (ORaise (ValueError 1)) o s
  | Finished => mkresp [] (ORaise (match kd with
                                   | KCoro => RuntimeError RtReuse
                                   | KGen => e
                                   end)) o s
  end.

(* close(): throw GeneratorExit at the suspension; GeneratorExit or a return are
   accepted, another exception propagates, a further yield is an error and
   leaves the object suspended where it yielded *)
Definition co_close (kd : kind) (o : cobj) (s : store) : resp :=
  match o with
  | New c => mkresp [] (OReturn VNone) Finished s
  | Suspended k =>
      let '(evs, s', st) := run s (k (Throw GeneratorExit)) in
      match st with
      | SRet _ => mkresp evs (OReturn VNone) Finished s'
      | SRaise e => if is_genexit e then mkresp evs (OReturn VNone) Finished s'
                    else mkresp evs (ORaise (pep479 kd e)) Finished s'
      | SSusp _ k' => mkresp evs (ORaise (RuntimeError RtIgnoredGenExit)) (Suspended k') s'
      end
  | Running => mkresp [] (ORaise (ValueError 1)) o s
  | Finished => mkresp [] (OReturn VNone) o s
  end.

(* ------------------------------------------------------------------ drivers *)
Inductive dop := DSend (v : val) | DThrow (e : exn) | DClose.

Definition apply_op (kd : kind) (o : cobj) (s : store) (op : dop) : resp :=
  match op with
  | DSend v => co_send kd o s v
  | DThrow e => co_throw kd o s e
  | DClose => co_close kd o s
  end.

Definition stepobs := (list event * outcome)%type.

(* apply every operation, whatever happens (also to a finished object) *)
Fixpoint drive (kd : kind) (o : cobj) (s : store) (ops : list dop) : list stepobs :=
  match ops with
  | [] => []
  | op :: t => let r := apply_op kd o s op in
               (r_events r, r_out r) :: drive kd (r_obj r) (r_store r) t
  end.

(* apply operations until the first one that does not yield (the await is over) *)
Fixpoint drive_stop (kd : kind) (o : cobj) (s : store) (ops : list dop) : list stepobs :=
  match ops with
  | [] => []
  | op :: t => let r := apply_op kd o s op in
               (r_events r, r_out r) ::
               match r_out r with
               | OYield _ => drive_stop kd (r_obj r) (r_store r) t
               | _ => []
               end
  end.

(* -------------------------------------------------- observations (Base/Obs) *)
Definition oval (v : val) : obs :=
  match v with VNone => OL [] | VInt z => OI z | VFut f => OL [OI f] end.

Definition oexn (e : exn) : obs :=
  match e with
  | GeneratorExit => OL [OI 1]
  | CancelledError => OL [OI 2]
  | StopIteration v => OL [OI 3; oval v]
  | StopAsyncIteration => OL [OI 4]
  | RuntimeError k => OL [OI 5; OI (rt_code k)]
  | TypeError k => OL [OI 6; OI k]
  | ValueError k => OL [OI 7; OI k]
  | AssertionError => OL [OI 8]
  | SynchronousAbort => OL [OI 9]
  | OOBData d => OL [OI 10; oval d]
  | E n => OL [OI 11; OI n]
  | BaseE n => OL [OI 12; OI n]
  | SynchronousError => OL [OI 13]
  | InvalidStateError => OL [OI 14]
  end.

Definition oevent (ev : event) : obs :=
  match ev with
  | ELog n => OL [OI 0; OI n]
  | ERecv v => OL [OI 1; oval v]
  | ECaught e => OL [OI 2; oexn e]
  | ECallRet v => OL [OI 3; oval v]
  | EUser t v => OL [OI 4; OI t; oval v]
  end.

(* a caller cannot tell a raised StopIteration(v) from "returned v" *)
Definition ooutcome (o : outcome) : obs :=
  match o with
  | OYield y => OL [OI 0; oval y]
  | OReturn v => OL [OI 1; oval v]
  | ORaise (StopIteration v) => OL [OI 1; oval v]
  | ORaise e => OL [OI 2; oexn e]
  end.

Definition ostep (s : stepobs) : obs := OL [olist oevent (fst s); ooutcome (snd s)].
Definition otrace (t : list stepobs) : obs := olist ostep t.

(* state of an object as inspect.getcoroutinestate reports it *)
Definition ostate (o : cobj) : obs :=
  OI (match o with New _ => 0 | Suspended _ => 1 | Running => 3 | Finished => 2 end).
