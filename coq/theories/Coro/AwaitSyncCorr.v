(* Correspondence interface of C05.

   sync    : await_sync(body()) / syncfunction(body)(), then an ordinary Task
             awaits each future on a real loop.
   aiter   : aiter_sync over a class-based async iterator or a native async
             generator built from a list of bodies; the consumer takes at most
             [take] values.
   capture : CoroStart(body()) for several bodies sharing futures, then the
             first yield of each `await cs` / `cs.athrow(E1)` as a Task would
             receive it (the handshake flag; shared with C01, finding F1).

   Bodies are [prog]s; an `await tok(y)` with y >= 100 stands for `await F[y-100]`
   with F[.] real pending asyncio Futures ([futurize]). *)
From Asynkit Require Import Base.Prelude Base.Obs Coro.Tree Coro.Native Coro.Prog Coro.AwaitSync.

Fixpoint futurize (c : coro) : coro :=
  match c with
  | Ret v => Ret v
  | Raise e => Raise e
  | Eff ev c' => Eff ev (futurize c')
  | Get x k => Get x (fun v => futurize (k v))
  | Set_ x v c' => Set_ x v (futurize c')
  | Susp y k =>
      Susp (match y with
            | VInt n => if (100 <=? n)%Z then VFut (n - 100) else y
            | _ => y
            end)
           (fun i => futurize (k i))
  end.

Definition body5 (p : prog) : coro := futurize (body_of p).

Definition osync_out (o : sync_out) : obs :=
  match o with
  | SyValue v => OL [OI 0; oval v]
  | SyRaise e => OL [OI 1; oexn e]
  | SySyncError caught cause => OL [OI 2; ob caught; oopt oexn cause]
  | SyCloseRaised e => OL [OI 1; oexn e]   (* told apart from SyRaise by the log *)
  end.

Definition ofut (x : fut) : obs := OL [ob (f_done x); OI (f_cbs x); ob (f_flag x)].
Definition oworld (w : fworld) : obs := OL [ofut (w 0%Z); ofut (w 1%Z)].
Definition ostore (s : store) : obs := OL [oval (lookup s 0%Z); oval (lookup s 1%Z)].

(* a Task awaits future g afterwards; observed after its first step (callbacks,
   flag) and at its end, after g.set_result(7) *)
Definition olater (w : fworld) (g : Z) : obs :=
  let '(w1, e) := task_await_step w g in
  OL [OI (f_cbs (w1 g)); ob (f_flag (w1 g));
      match e with None => OL [OI 1; OI 7] | Some x => OL [OI 2; oexn x] end].

(* [ow] = are the futures observed?  Not when a dry run by hand (harness,
   classify) shows a suspension in answer to close() inside a nested await:
   CPython drops that yield inside the child's close(), the tree (close_then)
   has no node for it, so the flag it leaves set is invisible here.  Far
   outside the property's domain (abort swallowed, suspended again, then
   GeneratorExit ignored as well). *)
Definition oworld_later (ow : bool) (w : fworld) : list obs :=
  if ow then [oworld w; OL [olater w 0; olater w 1]] else [OL []; OL []].

Definition sync_run (i : prog * bool) : obs :=
  let '(p, ow) := i in
  let r := await_sync true world0 [] (body5 p) in
  OL ([osync_out (sr_out r); olist oevent (sr_events r); ostate (sr_obj r);
       ostore (sr_store r)] ++ oworld_later ow (sr_world r)).

Definition oend (e : aiter_end) : obs :=
  match e with
  | AEnd => OL [OI 0]
  | ARaise o => OL [OI 1; osync_out o]
  | ATaken => OL [OI 2]
  end.

Definition aiter_run (i : bool * list prog * nat * bool) : obs :=
  let '(agen, ps, take, ow) := i in
  let r := if agen
           then aiter_sync_with helper_agen true world0 [] (map body5 ps) take
           else aiter_sync true world0 [] (map (fun p => native_await (body5 p)) ps) take in
  OL ([oend (ai_end r); olist oevent (ai_events r); ostore (ai_store r)]
      ++ oworld_later ow (ai_world r)).

(* --- capture ------------------------------------------------------------- *)
Definition ostop (st : stop) : obs :=
  match st with
  | SSusp y _ => OL [OI 0; oval y]
  | SRet v => OL [OI 1; oval v]
  | SRaise e => OL [OI 2; oexn (pep479 KCoro e)]
  end.

(* phase 1: CoroStart(body_i()) one after the other *)
Fixpoint cap_starts (w : fworld) (s : store) (cs : list (coro * bool))
  : list obs * list (stop * bool * bool) * fworld * store :=
  match cs with
  | [] => ([], [], w, s)
  | (c, athrow) :: t =>
      let '(evs, s', st, b, w') := csf_start true w s c in
      let '(os, pend, w'', s'') := cap_starts w' s' t in
      (OL [olist oevent evs; ostop st; oworld w'] :: os, (st, b, athrow) :: pend, w'', s'')
  end.

(* phase 2: for every CoroStart which is not done, the first step of
   `await cs` (or of `await cs.athrow(E1)`) and what a Task does on receiving
   the yielded object *)
Fixpoint cap_yields (w : fworld) (s : store) (pend : list (stop * bool * bool)) : list obs :=
  match pend with
  | [] => []
  | (SSusp y k, b, false) :: t =>
      let w1 := csf_first_yield w y b in
      let '(w2, e) := task_receive w1 y in
      OL [OL []; OL [OI 0; oval y]; oworld w1; oworld w2; oopt oexn e] :: cap_yields w2 s t
  | (SSusp y k, b, true) :: t =>
      (* athrow(E1): throw at the suspension, capture, `await self` re-yields *)
      let '(evs, s', st, b', w') := csf_start true w s (k (Throw (E 1))) in
      match st with
      | SSusp y' _ =>
          let w1 := csf_first_yield w' y' b' in
          let '(w2, e) := task_receive w1 y' in
          OL [olist oevent evs; ostop st; oworld w1; oworld w2; oopt oexn e] :: cap_yields w2 s' t
      | _ => OL [olist oevent evs; ostop st; oworld w'; oworld w'; OL []] :: cap_yields w' s' t
      end
  | _ :: t => cap_yields w s t
  end.

Definition capture_run (i : list (prog * bool)) : obs :=
  let '(os, pend, w, s) := cap_starts world0 [] (map (fun pa => (body5 (fst pa), snd pa)) i) in
  OL [OL os; OL (cap_yields w s pend)].
