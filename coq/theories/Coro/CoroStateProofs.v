(* C20 - proofs about Coro/CoroState.v and Coro/CoroStateCorr.v.
   The object-state space is finite; the reachable part is computed as a list
   ([closure]), shown to contain the initial states and to be closed under every
   drive step (vm_compute), hence to contain every [reachable] state (induction
   on the reachability derivation); the classification is then checked on the
   list (vm_compute) and lifted with [forallb_forall]. *)
From Asynkit Require Import Base.Prelude Base.Obs Coro.CoroState Coro.CoroStateCorr.

(* ---------- decidable equality ---------- *)
Lemma kind_eqb_eq a b : kind_eqb a b = true -> a = b.
Proof. destruct a, b; simpl; congruence. Qed.
Lemma fstate_eqb_eq a b : fstate_eqb a b = true -> a = b.
Proof. destruct a, b; simpl; congruence. Qed.
Lemma ostate_eqb_eq a b : ostate_eqb a b = true -> a = b.
Proof.
  destruct a as [k1 f1 r1 s1 e1 d1 n1], b as [k2 f2 r2 s2 e2 d2 n2].
  unfold ostate_eqb; simpl; intro Heq.
  repeat (apply andb_prop in Heq; destruct Heq as [Heq ?Hc]).
  apply kind_eqb_eq in Heq. apply fstate_eqb_eq in Hc4.
  apply Bool.eqb_prop in Hc, Hc0, Hc1, Hc2, Hc3.
  subst; reflexivity.
Qed.

Lemma mem_state_In s l : mem_state s l = true -> In s l.
Proof.
  unfold mem_state; intro Hm. apply existsb_exists in Hm.
  destruct Hm as [x [Hin Heq]]. apply ostate_eqb_eq in Heq. subst; exact Hin.
Qed.

(* ---------- the closure contains every reachable state ---------- *)
Lemma all_events_complete e : In e all_events.
Proof. destruct e as [[]| |[]| | | | |[]|]; simpl; tauto. Qed.

Lemma successors_complete s e s' : apply_ev s e = Some s' -> In s' (successors s).
Proof.
  intro Ha. unfold successors. apply in_flat_map. exists e. split.
  - apply all_events_complete.
  - rewrite Ha. left; reflexivity.
Qed.

Lemma closure_has_init : forallb (fun k => mem_state (init k) closure) [KCoro; KGen; KAgen] = true.
Proof. vm_compute; reflexivity. Qed.

Lemma closure_closed : closed_under_steps closure = true.
Proof. vm_compute; reflexivity. Qed.

Lemma reachable_in_closure s : reachable s -> In s closure.
Proof.
  induction 1 as [k | s e s' Hr IH Ha].
  - apply mem_state_In.
    pose proof closure_has_init as Hi. rewrite forallb_forall in Hi.
    apply Hi. destruct k; simpl; tauto.
  - pose proof closure_closed as Hc. unfold closed_under_steps in Hc.
    rewrite forallb_forall in Hc. specialize (Hc s IH).
    rewrite forallb_forall in Hc. apply mem_state_In. apply Hc.
    eapply successors_complete; eassumption.
Qed.

(* conversely every element of the list is reachable: the closure is exact, the
   theorem below does not quantify over junk states *)
Lemma add_new_sound (P : ostate -> Prop) l acc :
  Forall P l -> Forall P acc -> Forall P (add_new l acc).
Proof.
  revert acc; induction l as [|x t IH]; intros acc Hl Ha; simpl; auto.
  inversion Hl as [|? ? Hx Ht]; subst.
  destruct (mem_state x acc); apply IH; auto.
  apply Forall_app; split; auto.
Qed.

Lemma successors_reachable s : reachable s -> Forall reachable (successors s).
Proof.
  intro Hr. apply Forall_forall. intros s' Hin. unfold successors in Hin.
  apply in_flat_map in Hin. destruct Hin as [e [_ He]].
  destruct (apply_ev s e) as [s''|] eqn:Ha; simpl in He; [|tauto].
  destruct He as [He|[]]; subst. eapply reach_step; eassumption.
Qed.

Lemma closure_from_sound fuel acc :
  Forall reachable acc -> Forall reachable (closure_from fuel acc).
Proof.
  revert acc; induction fuel as [|f IH]; intros acc Ha; simpl; auto.
  apply IH. apply add_new_sound; auto.
  apply Forall_forall. intros x Hin. apply in_flat_map in Hin.
  destruct Hin as [s [Hs Hx]]. rewrite Forall_forall in Ha.
  pose proof (@successors_reachable s (Ha s Hs)) as Hf. rewrite Forall_forall in Hf. auto.
Qed.

Lemma closure_sound : Forall reachable closure.
Proof.
  apply closure_from_sound. repeat constructor.
Qed.

Theorem closure_exact s : reachable s <-> In s closure.
Proof.
  split; [apply reachable_in_closure|].
  pose proof closure_sound as Hc. rewrite Forall_forall in Hc. exact (Hc s).
Qed.

(* ---------- classification ---------- *)
Lemma closure_classified : forallb classify_ok closure = true.
Proof. vm_compute; reflexivity. Qed.

Theorem classify_ok_reachable s : reachable s -> classify_ok s = true.
Proof.
  intro Hr. pose proof closure_classified as Hc. rewrite forallb_forall in Hc.
  apply Hc. apply reachable_in_closure; exact Hr.
Qed.

(* the same statement spelled out in terms of the ground-truth fields *)
Definition spec_ok (s : ostate) : bool :=
  Bool.eqb (is_new s) (negb (gstarted s) && negb (gkilled s))
  && Bool.eqb (is_suspended s) (gstarted s && negb (gexited s) && negb (gonstack s))
  && Bool.eqb (is_finished s) (gexited s || gkilled s)
  && Bool.eqb (negb (is_new s) && negb (is_suspended s) && negb (is_finished s)) (gonstack s)
  && negb (is_new s && is_suspended s) && negb (is_new s && is_finished s)
  && negb (is_suspended s && is_finished s).

Lemma closure_spec : forallb spec_ok closure = true.
Proof. vm_compute; reflexivity. Qed.

Theorem exactly_one_and_true s :
  reachable s ->
  (* new <-> no code of the body has run (and it was not closed before starting) *)
  (is_new s = true <-> gstarted s = false /\ gkilled s = false) /\
  (* suspended <-> started, not finished, not being run: paused at an await or a yield *)
  (is_suspended s = true <-> gstarted s = true /\ gexited s = false /\ gonstack s = false) /\
  (* finished <-> returned or raised, or closed / thrown into before it started *)
  (is_finished s = true <-> gexited s = true \/ gkilled s = true) /\
  (* "currently executing" = none of the three helpers <-> it is being run *)
  (is_new s = false /\ is_suspended s = false /\ is_finished s = false <-> gonstack s = true) /\
  (* never two at once *)
  ~ (is_new s = true /\ is_suspended s = true) /\
  ~ (is_new s = true /\ is_finished s = true) /\
  ~ (is_suspended s = true /\ is_finished s = true).
Proof.
  intro Hr. pose proof closure_spec as Hc. rewrite forallb_forall in Hc.
  specialize (Hc s (@reachable_in_closure s Hr)). unfold spec_ok in Hc.
  destruct (is_new s), (is_suspended s), (is_finished s),
           (gstarted s), (gexited s), (gkilled s), (gonstack s);
    simpl in Hc; try discriminate Hc; clear Hc; intuition congruence.
Qed.

(* the truth function of the model agrees with the spelled-out conditions *)
Lemma ground_truth_cases s :
  reachable s ->
  match ground_truth s with
  | TNew => gstarted s = false /\ gkilled s = false /\ gexited s = false /\ gonstack s = false
  | TSuspended => gstarted s = true /\ gexited s = false /\ gkilled s = false /\ gonstack s = false
  | TExecuting => gonstack s = true /\ gstarted s = true /\ gexited s = false /\ gkilled s = false
  | TFinished => (gexited s = true \/ gkilled s = true) /\ gonstack s = false
  end.
Proof.
  intro Hr. apply reachable_in_closure in Hr.
  assert (Hall : forallb (fun s =>
            match ground_truth s with
            | TNew => negb (gstarted s) && negb (gkilled s) && negb (gexited s) && negb (gonstack s)
            | TSuspended => gstarted s && negb (gexited s) && negb (gkilled s) && negb (gonstack s)
            | TExecuting => gonstack s && gstarted s && negb (gexited s) && negb (gkilled s)
            | TFinished => (gexited s || gkilled s) && negb (gonstack s)
            end) closure = true) by (vm_compute; reflexivity).
  rewrite forallb_forall in Hall. specialize (Hall s Hr).
  destruct (ground_truth s), (gstarted s), (gexited s), (gkilled s), (gonstack s);
    simpl in Hall; try discriminate Hall; intuition congruence.
Qed.

(* ---------- non-trivial instances ---------- *)
Definition s_agen_at_yield : ostate := mkO KAgen FSuspYield false true false false false.
Definition s_agen_abandoned : ostate := mkO KAgen FSuspAwait true true false false false.
Definition s_agen_thrown_running : ostate := mkO KAgen FExecuting false true false false true.
Definition s_coro_throwing : ostate := mkO KCoro FThrowing false true false false true.
Definition s_agen_closed_running : ostate := mkO KAgen FCleared true true true false false.

Lemma reach_agen_at_yield : reachable s_agen_at_yield.
Proof.
  eapply reach_step with (e := EvYield);
    [eapply reach_step with (e := EvEnter true); [apply (reach_init KAgen)|reflexivity]|reflexivity].
Qed.

Example ex_agen_at_yield :
  reachable s_agen_at_yield /\ is_suspended s_agen_at_yield = true /\ is_new s_agen_at_yield = false.
Proof. split; [apply reach_agen_at_yield|vm_compute; auto]. Qed.

(* suspended in an inner await with ag_running still set (asend() awaitable left half-way) *)
Example ex_agen_abandoned :
  reachable s_agen_abandoned /\ a_running s_agen_abandoned = true
  /\ is_suspended s_agen_abandoned = true.
Proof.
  split; [|vm_compute; auto].
  eapply reach_step with (e := EvAwait);
    [eapply reach_step with (e := EvEnter true); [apply (reach_init KAgen)|reflexivity]|reflexivity].
Qed.

(* executing with ag_running clear: an exception thrown into a fresh asend() at a yield *)
Example ex_agen_thrown_running :
  reachable s_agen_thrown_running /\ a_running s_agen_thrown_running = false
  /\ is_new s_agen_thrown_running = false /\ is_suspended s_agen_thrown_running = false
  /\ is_finished s_agen_thrown_running = false.
Proof.
  split; [|vm_compute; auto].
  eapply reach_step with (e := EvEnter false); [apply reach_agen_at_yield|reflexivity].
Qed.

Example ex_coro_throwing : reachable s_coro_throwing /\ classify_ok s_coro_throwing = true.
Proof.
  split; [|vm_compute; auto].
  eapply reach_step with (e := EvThrowInto false);
    [eapply reach_step with (e := EvAwait);
       [eapply reach_step with (e := EvEnter false); [apply (reach_init KCoro)|reflexivity]
       |reflexivity]|reflexivity].
Qed.

(* finished with ag_running left set (exception leaving through aclose().throw()) *)
Example ex_agen_closed_running :
  reachable s_agen_closed_running /\ is_finished s_agen_closed_running = true.
Proof.
  split; [|vm_compute; auto].
  eapply reach_step with (e := EvFinish true);
    [eapply reach_step with (e := EvEnter true); [apply (reach_init KAgen)|reflexivity]|reflexivity].
Qed.

(* ---------- the helpers before fix F12 ---------- *)
Theorem refuted_before_fix :
  exists s, reachable s /\ ground_truth s = TSuspended
            /\ old_is_new s = true /\ old_is_suspended s = false.
Proof.
  exists s_agen_at_yield. split; [apply reach_agen_at_yield|vm_compute; auto].
Qed.

(* all the reachable states the old helpers get wrong: an async generator paused at
   a yield ("new"), executing after throw() into a never-sent asend() ("new"), busy
   throwing into the object it awaits ("suspended") *)
Lemma old_misclassified :
  filter (fun s => negb (old_classify_ok s)) closure =
  [mkO KAgen FExecuting false true false false true;
   mkO KAgen FSuspYield false true false false false;
   mkO KAgen FThrowing false true false false true;
   mkO KAgen FThrowing true true false false true].
Proof. vm_compute; reflexivity. Qed.

(* for native and generator-based coroutines the old helpers are the new ones *)
Lemma old_helpers_same_for_coroutines s :
  okind s <> KAgen ->
  old_is_new s = is_new s /\ old_is_suspended s = is_suspended s /\ old_is_finished s = is_finished s.
Proof. destruct s as [[] ? ? ? ? ? ?]; simpl; intro Hk; try congruence; auto. Qed.

(* ---------- the interpreter stays inside the reachable states ---------- *)
Lemma reachable_ev e s : reachable s -> reachable (ev e s).
Proof.
  intro Hr. unfold ev. destruct (apply_ev s e) eqn:Ha; auto.
  eapply reach_step; eassumption.
Qed.

Section InterpReach.
Variable H : ostate -> bool * bool * bool.
Variable b : body.

Definition R (m : mstate) : Prop := reachable (mo m).

Lemma continue_body_R m inj keep log g m' l :
  R m -> continue_body H b m inj keep log = (g, m', l) -> R m'.
Proof.
  unfold R, continue_body. intros Hr Hc.
  destruct (run_from H b (mo m) (mrest m) (minh m) inj log) as [r log'].
  destruct r as [[|] rest h| |e]; inversion Hc; subst; simpl; apply reachable_ev; exact Hr.
Qed.

Lemma resume_R m inj sr keep g m' l :
  R m -> resume H b m inj sr keep = (g, m', l) -> R m'.
Proof.
  unfold resume. intros Hr Hc.
  destruct (ofs (mo m)) eqn:Hf; destruct inj as [e|];
    try (inversion Hc; subst; simpl; auto; fail);
    try (eapply continue_body_R; [|exact Hc]; unfold R; simpl; apply reachable_ev; exact Hr);
    try (inversion Hc; subst; unfold R; simpl; apply reachable_ev; exact Hr).
Qed.

Lemma throw_in_R m e closing sr keep g m' l :
  R m -> throw_in H b m e closing sr keep = (g, m', l) -> R m'.
Proof.
  unfold throw_in. intros Hr Hc.
  destruct (ofs (mo m)) eqn:Hf; try (eapply resume_R; eassumption).
  destruct (mrest m) as [|[|n sw|] t] eqn:Hrest; try (eapply resume_R; eassumption).
  destruct closing.
  - eapply continue_body_R; [|exact Hc]. unfold R; simpl. do 2 apply reachable_ev. exact Hr.
  - destruct sw.
    + inversion Hc; subst. unfold R; simpl. do 2 apply reachable_ev. exact Hr.
    + eapply continue_body_R; [|exact Hc]. unfold R; simpl. do 2 apply reachable_ev. exact Hr.
Qed.

Lemma plain_step_R m o r m' l : R m -> plain_step H b m o = (r, m', l) -> R m'.
Proof.
  unfold plain_step. intros Hr Hc. destruct o; try (inversion Hc; subst; exact Hr).
  - destruct (resume H b m None false false) as [[g m1] lg] eqn:E.
    inversion Hc; subst. eapply resume_R; eassumption.
  - destruct (throw_in H b m XThrown false false false) as [[g m1] lg] eqn:E.
    inversion Hc; subst. eapply throw_in_R; eassumption.
  - destruct (ofs (mo m)) eqn:Hf;
      try (inversion Hc; subst; unfold R; simpl; try apply reachable_ev; exact Hr);
      destruct (throw_in H b m XGenExit true false false) as [[g m1] lg] eqn:E;
      inversion Hc; subst; eapply throw_in_R; eassumption.
Qed.

Lemma unwrap_R m g r m' : R m -> unwrap m g = (r, m') -> R m'.
Proof.
  unfold unwrap, R. intros Hr Hc.
  destruct g as [| | |[]|[[]|]]; inversion Hc; subst; simpl; auto; apply reachable_ev; exact Hr.
Qed.

Lemma unwrap_close_R m g r m' : R m -> unwrap_close m g = (r, m') -> R m'.
Proof.
  unfold unwrap_close, R. intros Hr Hc.
  destruct g as [| | |[]|[[]|]]; inversion Hc; subst; simpl; auto.
Qed.

Lemma set_slot_R m i v : R m -> R (set_slot m i v).
Proof. unfold R, set_slot. destruct i; simpl; auto. Qed.

Lemma set_closed_R m c : R m -> R (set_closed m c).
Proof. unfold R; simpl; auto. Qed.

Ltac solve_R := first [assumption | apply set_closed_R; assumption].

Ltac agen_tac Hc :=
  match type of Hc with
  | context [resume ?H0 ?b0 ?m0 ?i0 ?s0 ?k0] =>
      let E := fresh "E" in
      destruct (resume H0 b0 m0 i0 s0 k0) as [[? ?] ?] eqn:E;
      (let HR := fresh "HR" in assert (HR : R m0) by solve_R; pose proof (resume_R _ _ _ _ _ _ _ HR E))
  | context [throw_in ?H0 ?b0 ?m0 ?e0 ?c0 ?s0 ?k0] =>
      let E := fresh "E" in
      destruct (throw_in H0 b0 m0 e0 c0 s0 k0) as [[? ?] ?] eqn:E;
      (let HR := fresh "HR" in assert (HR : R m0) by solve_R; pose proof (throw_in_R _ _ _ _ _ _ _ _ HR E))
  | context [unwrap_close ?m0 ?g0] =>
      let E := fresh "E" in
      destruct (unwrap_close m0 g0) as [? ?] eqn:E;
      (let HR := fresh "HR" in assert (HR : R m0) by solve_R; pose proof (unwrap_close_R _ _ _ _ HR E))
  | context [unwrap ?m0 ?g0] =>
      let E := fresh "E" in
      destruct (unwrap m0 g0) as [? ?] eqn:E;
      (let HR := fresh "HR" in assert (HR : R m0) by solve_R; pose proof (unwrap_R _ _ _ _ HR E))
  | context [match ?x with _ => _ end] => destruct x
  end.

Lemma agen_step_R m o r m' l : R m -> agen_step H b m o = (r, m', l) -> R m'.
Proof.
  unfold agen_step. intros Hr Hc.
  destruct o as [| | |i md|i|i|i]; repeat agen_tac Hc;
    inversion Hc; subst; repeat apply set_slot_R; assumption.
Qed.

Lemma step_R m o r m' l : R m -> step H b m o = (r, m', l) -> R m'.
Proof.
  unfold step. intros Hr Hc. destruct (okind (mo m)).
  - eapply plain_step_R; eassumption.
  - eapply plain_step_R; eassumption.
  - eapply agen_step_R; eassumption.
Qed.

Lemma states_from_reachable m ops : R m -> Forall reachable (states_from H b m ops).
Proof.
  revert m; induction ops as [|o t IH]; intros m Hr; simpl.
  - constructor; [exact Hr|constructor].
  - destruct (step H b m o) as [[r m'] l] eqn:E. constructor; [exact Hr|].
    apply IH. eapply step_R; eassumption.
Qed.
End InterpReach.

(* every object state between two steps of any drive history of any body, as the
   correspondence interpreter computes it, is reachable - hence classified correctly *)
Theorem run_states_reachable H k b ops :
  Forall reachable (states_from H b (start_state k b) ops).
Proof. apply states_from_reachable. unfold R; simpl. apply reach_init. Qed.

Corollary run_states_classified k b ops :
  Forall (fun s => classify_ok s = true) (states_from new_helpers b (start_state k b) ops).
Proof.
  eapply Forall_impl; [|apply run_states_reachable].
  intros s Hs; apply classify_ok_reachable; exact Hs.
Qed.
