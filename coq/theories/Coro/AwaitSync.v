(* Model of asynkit's synchronous drivers (property C05) and of the asyncio
   Future handshake flag as far as CoroStart touches it (finding F1).

     coroutine.py  await_sync / syncfunction   -> await_sync
     coroutine.py  aiter_sync                  -> aiter_sync
     coroutine.py  CoroStart._start/_capture   -> capture      (the F1 repair)
     coroutine.py  CoroStart.throw (tries=1)   -> cs_throw1
     coroutine.py  CoroStart.close             -> cs_close
     coroutine.py  CoroStart.__await__ (first yield re-arms the flag) -> csf_first_yield

   The handshake (asyncio/futures.py, tasks.py; CPython 3.12):
     Future.__await__  on a pending future sets  _asyncio_future_blocking = True
                       and yields the future; with the flag already set it
                       raises RuntimeError("await wasn't used with future");
     Task.__step       on receiving a future with the flag set clears the flag
                       and adds its wake-up callback.
   Convention: a body tree that reaches [Susp (VFut f) k] is suspended inside
   [Future.__await__] of future f, i.e. it has set f's flag just before
   ([arm]); tokens yield [VInt]/[VNone] and touch nothing.

   [fixd] selects the repaired code (fixes/F1-future-blocking-flag.patch:
   whoever receives a flagged future in place of a Task clears the flag, and
   CoroStart.__await__ sets it again just before re-yielding the future) or the
   code before the repair ([false]: nobody clears it).

   Model file: definitions only.  Proofs: AwaitSyncProofs.v. *)
From Asynkit Require Import Base.Prelude Coro.Tree Coro.Native.

(* --------------------------------------------------------------- futures *)
Record fut := mkfut {
  f_done : bool;          (* done()                          *)
  f_cbs : Z;              (* number of done-callbacks        *)
  f_flag : bool           (* _asyncio_future_blocking        *)
}.
Definition fworld := Z -> fut.                 (* future identity -> state *)
Definition fut0 : fut := mkfut false 0 false.  (* fresh pending future     *)
Definition world0 : fworld := fun _ => fut0.

Definition set_flag (w : fworld) (f : Z) (b : bool) : fworld :=
  fun g => if Z.eqb g f then mkfut (f_done (w g)) (f_cbs (w g)) b else w g.

(* Future.__await__ of the pending future the body just yielded *)
Definition arm (w : fworld) (y : val) : fworld :=
  match y with VFut f => set_flag w f true | _ => w end.

(* _future_unblock(value): clear a set flag; was it set? *)
Definition unblock (w : fworld) (y : val) : fworld * bool :=
  match y with
  | VFut f => if f_flag (w f) then (set_flag w f false, true) else (w, false)
  | _ => (w, false)
  end.

(* what receiving a yielded object does to it: the repaired CoroStart clears
   the flag, the unrepaired one does nothing *)
Definition capture (fixd : bool) (w : fworld) (y : val) : fworld * bool :=
  if fixd then unblock w y else (w, false).

(* the body ran and stopped: if it is suspended on a future, the flag is set *)
Definition after_stop (w : fworld) (st : stop) : fworld :=
  match st with SSusp y _ => arm w y | _ => w end.

(* ------------------------------------------------- CoroStart.throw / close *)
Inductive throw_out :=
| TReturned (v : val)        (* StopIteration: the coroutine handled it and returned *)
| TRaised (e : exn).         (* it raised e -- or ignored the exception: RuntimeError *)

Definition rt_ignored_abort : exn := RuntimeError (RtOther 1).   (* "coroutine ignored SynchronousAbort" *)
Definition rt_await_no_future : exn := RuntimeError (RtOther 2). (* "await wasn't used with future" *)

Record step_res := mkstep {
  st_events : list event; st_store : store; st_world : fworld; st_obj : cobj
}.

(* start.throw(exc) with tries = 1, the coroutine suspended at k *)
Definition cs_throw1 (fixd : bool) (w : fworld) (s : store) (k : input -> coro) (e : exn)
  : step_res * throw_out :=
  let '(evs, s', st) := run s (k (Throw e)) in
  match st with
  | SRet v => (mkstep evs s' w Finished, TReturned v)
  | SRaise x => (mkstep evs s' w Finished, TRaised (pep479 KCoro x))
  | SSusp y k' =>
      (* the yielded object is dropped; the repaired code clears its flag *)
      (mkstep evs s' (fst (capture fixd (arm w y) y)) (Suspended k'), TRaised rt_ignored_abort)
  end.

(* start.close() = coro.close().  CPython drops what a coroutine yields in
   answer to GeneratorExit: a future's flag stays set *)
Definition cs_close (w : fworld) (s : store) (o : cobj) : step_res * option exn :=
  match o with
  | Suspended k =>
      let '(evs, s', st) := run s (k (Throw GeneratorExit)) in
      match st with
      | SRet _ => (mkstep evs s' w Finished, None)
      | SRaise x => (mkstep evs s' w Finished,
                     if is_genexit x then None else Some (pep479 KCoro x))
      | SSusp y k' => (mkstep evs s' (arm w y) (Suspended k'),
                       Some (RuntimeError RtIgnoredGenExit))
      end
  | _ => (mkstep [] s w o, None)       (* finished (or never started): nothing happens *)
  end.

(* ------------------------------------------------------------- await_sync *)
Inductive sync_out :=
| SyValue (v : val)                 (* return start.result()                              *)
| SyRaise (e : exn)                 (* start.result() raised the coroutine's exception    *)
| SySyncError (caught : bool) (cause : option exn)
                                    (* SynchronousError; caught = "(caught BaseException)";
                                       cause = __cause__                                  *)
| SyCloseRaised (e : exn).          (* start.close() in the finally clause raised e, which
                                       replaces the SynchronousError                      *)

Record sync_res := mksync {
  sr_events : list event;    (* everything the body logged                       *)
  sr_out : sync_out;
  sr_obj : cobj;             (* the coroutine object afterwards                  *)
  sr_store : store;          (* ContextVars of the caller's context              *)
  sr_world : fworld          (* the futures                                      *)
}.

(*  def await_sync(coro):
        start = CoroStart(coro)
        if start.done(): return start.result()
        try:     start.throw(SynchronousAbort())
        except BaseException as err:
                 raise SynchronousError("...") from err
        else:    raise SynchronousError("... (caught BaseException)")
        finally: start.close()                                               *)
Definition await_sync (fixd : bool) (w : fworld) (s : store) (c : coro) : sync_res :=
  let '(ev0, s0, st0) := run s c in               (* CoroStart._start: coro.send(None) *)
  match st0 with
  | SRet v => mksync ev0 (SyValue v) Finished s0 w
  | SRaise e => mksync ev0 (SyRaise (pep479 KCoro e)) Finished s0 w
  | SSusp y k =>
      let w1 := fst (capture fixd (arm w y) y) in
      let '(r1, t) := cs_throw1 fixd w1 s0 k SynchronousAbort in
      let pending := match t with
                     | TReturned _ => SySyncError true None
                     | TRaised e => SySyncError false (Some e)
                     end in
      let '(r2, ce) := cs_close (st_world r1) (st_store r1) (st_obj r1) in
      mksync (ev0 ++ st_events r1 ++ st_events r2)
             (match ce with None => pending | Some e => SyCloseRaised e end)
             (st_obj r2) (st_store r2) (st_world r2)
  end.

(* the property's domain: having suspended at k, the body does not swallow the
   abort and suspend again *)
Definition abort_terminates (s : store) (k : input -> coro) : Prop :=
  match run s (k (Throw SynchronousAbort)) with
  | (_, _, SSusp _ _) => False
  | _ => True
  end.

(* ------------------------------------------------------------- aiter_sync *)
(*  def aiter_sync(async_iterable):
        ai = async_iterable.__aiter__()
        async def helper(): return await ai.__anext__()
        try:
            while True: yield await_sync(helper())
        except StopAsyncIteration: pass

    The iterable is the list of the bodies of its successive __anext__()
    awaitables; when the list is used up __anext__ raises StopAsyncIteration.
    [hlp c] is the body of helper() when __anext__() returned an awaitable with
    body c.  A value handed to the consumer is recorded as [EUser 5 v] among
    the events.  The consumer takes at most [take] values and then closes the
    generator. *)
Definition helper (c : coro) : coro := native_await c.     (* __anext__ is an async def *)
Definition item (v : val) : event := EUser 5 v.

Inductive aiter_end :=
| AEnd                        (* StopAsyncIteration: the generator returns      *)
| ARaise (o : sync_out)       (* await_sync raised: out of the generator        *)
| ATaken.                     (* the consumer stopped and closed the generator  *)

Record aiter_res := mkaiter {
  ai_events : list event; ai_end : aiter_end; ai_store : store; ai_world : fworld;
  ai_obj : cobj               (* the last helper() coroutine *)
}.

Fixpoint aiter_sync_with (hlp : coro -> coro) (fixd : bool) (w : fworld) (s : store)
         (anexts : list coro) (take : nat) : aiter_res :=
  match take with
  | O => mkaiter [] ATaken s w Finished
  | S take' =>
      match anexts with
      | [] => mkaiter [] AEnd s w Finished
      | c :: rest =>
          let r := await_sync fixd w s (hlp c) in
          match sr_out r with
          | SyValue v =>
              let r' := aiter_sync_with hlp fixd (sr_world r) (sr_store r) rest take' in
              mkaiter (sr_events r ++ item v :: ai_events r') (ai_end r') (ai_store r')
                      (ai_world r') (ai_obj r')
          | SyRaise StopAsyncIteration
          | SyCloseRaised StopAsyncIteration =>     (* whatever await_sync raises is caught *)
              mkaiter (sr_events r) AEnd (sr_store r) (sr_world r) (sr_obj r)
          | o => mkaiter (sr_events r) (ARaise o) (sr_store r) (sr_world r) (sr_obj r)
          end
      end
  end.

Definition aiter_sync := aiter_sync_with helper.

(* the native loop   async for x in it: <record x>   as a tree *)
Fixpoint async_for (anexts : list coro) : coro :=
  match anexts with
  | [] => Ret VNone
  | c :: rest =>
      await_ KCoro c (fun v => Eff (item v) (async_for rest))
             (fun e => match e with StopAsyncIteration => Ret VNone | _ => Raise e end)
  end.

(* A native async generator as the iterable
       async def agen():
           for body in bodies: yield await body()
   [anext_agen c]: what the generator's frame does during one __anext__ (it
   awaits the body c; [Ret v] = it yields v; StopAsyncIteration escaping an
   async generator is RuntimeError).  [helper_asend g]: helper() awaiting the
   asend-object; CPython 3.12's asend.close() only marks the awaitable closed
   and does not resume the generator, then GeneratorExit is raised in helper. *)
Definition agen_conv (e : exn) : exn :=
  match e with StopAsyncIteration => RuntimeError (RtOther 3) | _ => e end.

Definition anext_agen (c : coro) : coro :=
  await_ KCoro c Ret (fun e => Raise (agen_conv e)).

Fixpoint helper_asend (g : coro) : coro :=
  match g with
  | Ret v => Ret v
  | Raise e => Raise e
  | Eff ev g' => Eff ev (helper_asend g')
  | Get x k => Get x (fun v => helper_asend (k v))
  | Set_ x v g' => Set_ x v (helper_asend g')
  | Susp y k =>
      Susp y (fun i => match i with
                       | Throw GeneratorExit => Raise GeneratorExit
                       | _ => helper_asend (k i)
                       end)
  end.

Definition helper_agen (c : coro) : coro := helper_asend (anext_agen c).

(* ------------------------------------------- what happens to the future later *)
(* an ordinary Task executes  `await f`  on the pending future f (first step),
   then f.set_result(v) is called and the Task runs to its end *)
Definition task_await_step (w : fworld) (f : Z) : fworld * option exn :=
  if f_flag (w f)
  then (w, Some rt_await_no_future)          (* Future.__await__ refuses; the flag stays *)
  else (fun g => if Z.eqb g f then mkfut (f_done (w g)) (f_cbs (w g) + 1) false else w g,
        None).                               (* flag set, yielded, Task clears it and registers *)

Definition awaitable_later (w : fworld) (f : Z) : bool :=
  match snd (task_await_step w f) with None => true | Some _ => false end.

(* ---------------------------------- CoroStart with the flag (C01's clause) *)
(* CoroStart(coro): run to the first suspension, capture what was yielded.
   Result: events, store, the stop, whether __await__ must re-arm, the world *)
Definition csf_start (fixd : bool) (w : fworld) (s : store) (c : coro)
  : list event * store * stop * bool * fworld :=
  let '(evs, s', st) := run s c in
  match st with
  | SSusp y _ => let '(w', b) := capture fixd (arm w y) y in (evs, s', st, b, w')
  | _ => (evs, s', st, false, w)
  end.

(* the first yield of CoroStart.__await__(): the captured object goes out to the
   Task with the flag set again *)
Definition csf_first_yield (w : fworld) (y : val) (blocking : bool) : fworld :=
  if blocking then arm w y else w.

(* Task.__step receiving y *)
Definition task_receive (w : fworld) (y : val) : fworld * option exn :=
  match y with
  | VFut f => if f_flag (w f)
              then (fun g => if Z.eqb g f then mkfut (f_done (w g)) (f_cbs (w g) + 1) false else w g,
                    None)
              else (w, Some (RuntimeError (RtOther 5)))   (* "yield was used instead of yield from" *)
  | _ => (w, None)
  end.
