(* C06, part 3: replacing every `yield d` of a body by `await g.ayield(d)` issued
   from n nested coroutine frames gives a tree that is bisimilar to the
   original for every input except a thrown StopIteration ([eqvn]). *)
From Asynkit Require Import Base.Prelude Base.Obs Coro.Tree Coro.Native Coro.TreeProofs
  Coro.AsyncGen Coro.GenObj Coro.GenObjSim Coro.GenObjProofs.
Open Scope Z_scope.

Definition nsi (i : input) : bool :=
  match i with Throw (StopIteration _) => false | _ => true end.

(* bisimilarity for consumers that never throw StopIteration *)
Inductive eqvn : coro -> coro -> Prop :=
| en_ret v : eqvn (Ret v) (Ret v)
| en_raise e : eqvn (Raise e) (Raise e)
| en_eff ev c c' : eqvn c c' -> eqvn (Eff ev c) (Eff ev c')
| en_get x k k' : (forall v, eqvn (k v) (k' v)) -> eqvn (Get x k) (Get x k')
| en_set x v c c' : eqvn c c' -> eqvn (Set_ x v c) (Set_ x v c')
| en_susp y k k' : (forall i, nsi i = true -> eqvn (k i) (k' i)) -> eqvn (Susp y k) (Susp y k').

Lemma eqv_eqvn : forall c c', eqv c c' -> eqvn c c'.
Proof. induction 1; constructor; auto. Qed.

Lemma eqvn_refl : forall c, eqvn c c.
Proof. induction c; constructor; auto. Qed.

Lemma eqvn_trans : forall a b, eqvn a b -> forall c, eqvn b c -> eqvn a c.
Proof.
  induction 1 as [v|e|ev a b Hab IH|x g g' Hg IH|x v a b Hab IH|y g g' Hg IH];
    intros c Hc; inversion Hc; subst; constructor; auto.
Qed.

(* is [Eff ev (Susp y _)] a yield node as [yield_] builds it? *)
Definition is_yield (ev : event) (y : val) : bool :=
  match ev with EUser t d => (t =? 0) && val_eqb d y | _ => false end.

Lemma val_eqb_eq : forall a b, val_eqb a b = true -> a = b.
Proof. intros [|x|x] [|z|z] H; simpl in H; try discriminate; auto; apply Z.eqb_eq in H; subst; auto. Qed.

Lemma is_yield_eq : forall ev y, is_yield ev y = true -> ev = EUser 0 y.
Proof.
  intros [| | | |t d] y H; simpl in H; try discriminate.
  apply andb_prop in H. destruct H as [Ht Hd]. apply Z.eqb_eq in Ht. apply val_eqb_eq in Hd. subst. auto.
Qed.

(* every `r = yield d` becomes `r = await g.ayield(d)` under n coroutine frames *)
Fixpoint deepen (n : nat) (c : coro) : coro :=
  match c with
  | Ret v => Ret v
  | Raise e => Raise e
  | Eff ev c' =>
      match c' with
      | Susp y k =>
          if is_yield ev y
          then await_ KCoro (ayield_frames n y) (fun v => deepen n (k (Send v)))
                      (fun e => deepen n (k (Throw e)))
          else Eff ev (Susp y (fun i => deepen n (k i)))
      | _ => Eff ev (deepen n c')
      end
  | Get x k => Get x (fun v => deepen n (k v))
  | Set_ x v c' => Set_ x v (deepen n c')
  | Susp y k => Susp y (fun i => deepen n (k i))
  end.

Lemma deepen_eff_eq : forall n ev c',
  deepen n (Eff ev c') =
  match c' with
  | Susp y k =>
      if is_yield ev y
      then await_ KCoro (ayield_frames n y) (fun v => deepen n (k (Send v)))
                  (fun e => deepen n (k (Throw e)))
      else Eff ev (Susp y (fun i => deepen n (k i)))
  | _ => Eff ev (deepen n c')
  end.
Proof. reflexivity. Qed.

Theorem deepen_eqvn : forall n c, eqvn (deepen n c) c.
Proof.
  intros n. induction c as [v|e|ev c IH|x g IH|x v c IH|y g IH].
  - constructor.
  - constructor.
  - rewrite deepen_eff_eq.
    destruct c as [v|e|ev0 c0|x g|x v c0|y k]; try (constructor; exact IH).
    assert (Hk : forall i, nsi i = true -> eqvn (deepen n (k i)) (k i)).
    { simpl in IH. inversion IH; subst; auto. }
    destruct (is_yield ev y) eqn:Hy.
    + apply is_yield_eq in Hy. subst ev.
      destruct (nested_ayield n y (fun v => deepen n (k (Send v))) (fun e => deepen n (k (Throw e))))
        as (k1 & -> & Hk1).
      constructor. constructor. intros i Hi.
      eapply eqvn_trans.
      * apply eqv_eqvn, Hk1. intros v Hv. subst i. discriminate.
      * destruct i; simpl; apply Hk; exact Hi.
    + constructor. constructor. exact Hk.
  - simpl. constructor. exact IH.
  - simpl. constructor. exact IH.
  - simpl. constructor. intros i _. apply IH.
Qed.
