(* C19, complements to Queue/BoostProofs.v (which is frozen):
   (a) one maintenance run never changes the multiset of (object, sequence
       number, base priority, inserted_at, class) - unconditionally, for every
       heap whose heapify permutes, in particular the executed heapq model;
   (b) in every reachable state every queued entry has inserted_at <=
       n_inserted, and inserted_at only changes by append / insert / reschedule;
       hence the straggler clause of C19_prompt without its explicit hypothesis;
   (c) the deterministic content of "so it eventually runs". *)
From Coq Require Import QArith Lqa Permutation.
From Asynkit Require Import Base.Prelude Base.Obs Queue.HeapqModel Queue.PQ Queue.Order
     Queue.Heap Queue.ListFacts Queue.HeapqProofs Queue.PQProofs Queue.PosPQ Queue.PosProofs
     Queue.Exec Queue.PQCorr Queue.BoostOld Queue.BoostProofs.
Local Open Scope Z_scope.

Lemma HPV_heapspec : HeapSpec HPV.
Proof. exact (heapq_model_spec pv_lt pv_dflt pv_lt_strict_weak). Qed.

(* ------------------------------------------------------------------------- *)
(* (a) contents of one maintenance run, no hypothesis on factor or draws      *)
(* ------------------------------------------------------------------------- *)
Lemma boost_loop_ident a : forall limit m f ds,
  map ident (fst (fst (boost_loop a limit m f ds))) = map ident a.
Proof.
  induction a as [|e t IH]; intros limit m f ds; simpl; [reflexivity|].
  destruct (_ || _ || _).
  - specialize (IH limit m f ds). destruct (boost_loop t limit m f ds) as [[t' ds'] n].
    simpl in *. rewrite IH. reflexivity.
  - specialize (IH limit m f (tl ds)). destruct (negb _);
      destruct (boost_loop t limit m f (tl ds)) as [[t' ds'] n]; simpl in *; rewrite IH; reflexivity.
Qed.

Section Contents.
Context (H : heapimpl pv) (HP : forall a, Permutation (heapify H a) a).

Theorem maintenance_contents s :
  Permutation (map ident (arr (pq_ (do_maintenance H s)))) (map ident (arr (pq_ s))).
Proof.
  unfold do_maintenance. destruct (Qeq_bool (factor s) 0); [apply Permutation_refl|].
  destruct (find _ _) as [r|]; [|apply Permutation_refl].
  destruct (has_straggler _ _); [|apply Permutation_refl].
  pose proof (boost_loop_ident (arr (pq_ s)) (n_ins s - plen s)
                (minmax_loop (arr (pq_ s)) (pv_priority (epri r))) (factor s) (draws s)) as E.
  destruct (boost_loop _ _ _ _ _) as [[a' ds'] n]. simpl in *.
  destruct n; [rewrite E; apply Permutation_refl|].
  rewrite <- E. apply Permutation_map, HP.
Qed.
End Contents.

Corollary maintenance_contents_HPV s :
  Permutation (map ident (arr (pq_ (do_maintenance HPV s)))) (map ident (arr (pq_ s))).
Proof. apply maintenance_contents. exact (hs_heapify_perm HPV_heapspec). Qed.

(* ------------------------------------------------------------------------- *)
(* (b) inserted_at <= n_inserted, in every reachable state                    *)
(* ------------------------------------------------------------------------- *)
Definition iat (i : Z * Z * Q * Z * Z) : Z := snd (fst i).
Lemma iat_ident e : iat (ident e) = ins_at (epri e).
Proof. reflexivity. Qed.

Definition bounded (N : Z) (a : list (entry pv)) : Prop :=
  Forall (fun e => ins_at (epri e) <= N) a.

(* the invariant *)
Definition IA (s : pos) : Prop := bounded (n_ins s) (arr (pq_ s)).

Lemma bounded_ident N a a' :
  Permutation (map ident a') (map ident a) -> bounded N a -> bounded N a'.
Proof.
  intros Hp Hb. unfold bounded in *.
  assert (Hb' : Forall (fun i => iat i <= N) (map ident a)).
  { apply Forall_forall. intros i Hi. apply in_map_iff in Hi. destruct Hi as (e & <- & He).
    rewrite iat_ident. rewrite Forall_forall in Hb. auto. }
  apply (Permutation_Forall (Permutation_sym Hp)) in Hb'.
  apply Forall_forall. intros e He. rewrite Forall_forall in Hb'.
  rewrite <- iat_ident. apply Hb'. apply in_map. exact He.
Qed.

Lemma bounded_perm N a a' : Permutation a a' -> bounded N a -> bounded N a'.
Proof. apply Permutation_Forall. Qed.

Lemma bounded_incl N a a' : incl a' a -> bounded N a -> bounded N a'.
Proof.
  intros Hi Hb. apply Forall_forall. intros x Hx. unfold bounded in Hb.
  rewrite Forall_forall in Hb. auto.
Qed.

Lemma bounded_mono N N' a : N <= N' -> bounded N a -> bounded N' a.
Proof. intros Hle. apply Forall_impl. intros e He. lia. Qed.

Lemma In_set_nth {A} (l : list A) : forall i y x, In x (set_nth l i y) -> x = y \/ In x l.
Proof.
  induction l as [|h t IH]; intros [|i] y x; simpl; try tauto.
  - intros [<-|Hx]; auto.
  - intros [<-|Hx]; auto. destruct (IH i y x Hx); auto.
Qed.

Lemma In_removelast {A} (l : list A) x : In x (removelast l) -> In x l.
Proof.
  destruct l as [|a l]; [simpl; tauto|]. intros Hx.
  assert (Hne : a :: l <> []) by discriminate.
  rewrite (app_removelast_last a Hne). apply in_or_app. auto.
Qed.

Lemma In_last {A} (l : list A) d : l <> [] -> In (last l d) l.
Proof.
  intros Hne. rewrite (app_removelast_last d Hne) at 2. apply in_or_app. right. simpl. auto.
Qed.

Section InsAt.
Context (H : heapimpl pv) (HS : HeapSpec H).

Lemma replace_with_tail_incl (a : list (entry pv)) i : incl (replace_with_tail H a i) a.
Proof.
  intros x Hx. unfold replace_with_tail in Hx.
  apply (Permutation_in _ (hs_heapify_perm HS _)) in Hx.
  destruct a as [|h t]; [simpl in Hx; contradiction|].
  apply In_set_nth in Hx. destruct Hx as [->|Hx].
  - apply In_last. discriminate.
  - apply In_removelast. exact Hx.
Qed.

Lemma heappop_incl a e a' : heappop H a = Some (e, a') -> incl a' a.
Proof.
  intros E x Hx. eapply Permutation_in; [apply Permutation_sym, (hs_pop_perm HS _ _ _ E)|].
  simpl; auto.
Qed.

Lemma popentry_incl q e q' : pq_popentry H q = Some (e, q') -> incl (arr q') (arr q).
Proof.
  unfold pq_popentry. destruct (heappop H (arr q)) as [[e0 a']|] eqn:E; [|discriminate].
  intros E'. inversion E'; subst. simpl. eapply heappop_incl; eauto.
Qed.

Lemma remove_incl q o p q' : pq_remove H q o = Some (p, q') -> incl (arr q') (arr q).
Proof.
  unfold pq_remove. destruct (find_index (Z.eqb o) (arr q)) as [i|]; [|discriminate].
  destruct (Nat.eqb i 0).
  - destruct (heappop H (arr q)) as [[e a']|] eqn:E; [|discriminate].
    intros E'. inversion E'; subst. simpl. eapply heappop_incl; eauto.
  - destruct (Nat.eqb i (length (arr q) - 1)); intros E'; inversion E'; subst; simpl.
    + intros x. apply In_removelast.
    + apply replace_with_tail_incl.
Qed.

Lemma find_incl q key rm e q' : pq_find H q key rm = Some (e, q') -> incl (arr q') (arr q).
Proof.
  unfold pq_find. destruct (find_last_index key (arr q)) as [i|]; [|discriminate].
  destruct rm.
  - destruct (Nat.eqb i (length (arr q) - 1)); intros E'; inversion E'; subst; simpl.
    + intros x. apply In_removelast.
    + apply replace_with_tail_incl.
  - intros E'; inversion E'; subst. apply incl_refl.
Qed.

Lemma resched_members q key np o q' :
  pq_reschedule H q key np = Some (o, q') ->
  forall x, In x (arr q') -> In x (arr q) \/ epri x = np.
Proof.
  unfold pq_reschedule. destruct (find_last_index key (arr q)) as [i|]; [|discriminate].
  destruct (_ || _); intros E'; inversion E'; subst; simpl; auto.
  intros x Hx. apply (Permutation_in _ (hs_heapify_perm HS _)) in Hx.
  apply In_set_nth in Hx. destruct Hx as [->|Hx]; auto.
Qed.

(* counters *)
Lemma do_maintenance_IA s : IA s -> IA (do_maintenance H s).
Proof.
  intros Hb. unfold IA. destruct (do_maintenance_frame H s) as (_ & -> & _).
  eapply bounded_ident; [apply (maintenance_contents H (hs_heapify_perm HS))|exact Hb].
Qed.

Lemma update_counters_IA s b : IA s -> IA (update_counters H s b).
Proof.
  intros Hb. destruct b.
  - rewrite update_counters_true.
    assert (Hb1 : IA (bump s)).
    { unfold IA, bump; simpl. eapply bounded_mono; [|exact Hb]. lia. }
    destruct (due (bump s)); auto. apply do_maintenance_IA in Hb1. exact Hb1.
  - rewrite update_counters_false. destruct (0 <? plen s) eqn:E; [exact Hb|].
    unfold IA; simpl. unfold plen in E. destruct (arr (pq_ s)); [constructor|].
    simpl in E. apply Z.ltb_ge in E. lia.
Qed.

Lemma with_pq_IA s q : bounded (n_ins s) (arr q) -> IA (with_pq s q).
Proof. auto. Qed.

Lemma append_IA s o p : IA s -> IA (pos_append_pri H s o p).
Proof.
  intros Hb. apply update_counters_IA, with_pq_IA. unfold pq_add; simpl.
  eapply bounded_perm; [apply Permutation_sym, (hs_push_perm HS)|].
  constructor; [simpl; lia | exact Hb].
Qed.

Lemma popleft_IA s o s' : IA s -> pos_popleft H s = Some (o, s') -> IA s'.
Proof.
  intros Hb. unfold pos_popleft.
  destruct (pq_popentry H (pq_ s)) as [[e q]|] eqn:E; [|discriminate].
  intros E'. assert (Es : s' = update_counters H (with_pq s q) false) by congruence.
  subst s'. apply update_counters_IA, with_pq_IA.
  eapply bounded_incl; [eapply popentry_incl; eauto | exact Hb].
Qed.

Lemma promote_IA k : forall s acc s1 pr ok,
  IA s -> promote H k s acc = (s1, pr, ok) -> IA s1.
Proof.
  induction k as [|k IH]; intros s acc s1 pr ok Hb E; simpl in E.
  - inversion E; subst; auto.
  - destruct (pos_popleft H s) as [[o s']|] eqn:Ep.
    + eapply IH; [|exact E]. eapply popleft_IA; eauto.
    + inversion E; subst; auto.
Qed.

Lemma fold_add_bounded N p os : forall q,
  ins_at p <= N -> bounded N (arr q) ->
  bounded N (arr (fold_left (fun q o => pq_add H q p o) os q)).
Proof.
  induction os as [|o os IH]; intros q Hp Hb; simpl; auto.
  apply IH; auto. unfold pq_add; simpl.
  eapply bounded_perm; [apply Permutation_sym, (hs_push_perm HS)|]. constructor; auto.
Qed.

Lemma insert_IA s k o : IA s -> IA (pos_insert H s k o).
Proof.
  intros Hb. unfold pos_insert. destruct (promote H k s []) as [[s1 pr] ok] eqn:E.
  pose proof (promote_IA _ _ _ _ _ _ Hb E) as Hb1.
  apply update_counters_IA, with_pq_IA. apply fold_add_bounded; [simpl; lia | exact Hb1].
Qed.

Lemma extend_entries_pris (l : list (pv * Z)) : forall s0,
  map (@epri pv) (snd (extend_entries s0 l)) = map fst l.
Proof.
  induction l as [|[p o] l IH]; intros s0; simpl; auto.
  specialize (IH (s0 + 1)). destruct (extend_entries (s0 + 1) l) as [s' es]. simpl in *.
  rewrite IH. reflexivity.
Qed.

Lemma reschedule_all_IA s getp : IA s -> IA (pos_reschedule_all H s getp).
Proof.
  intros Hb. unfold pos_reschedule_all. apply with_pq_IA. unfold pq_extend.
  set (l := map _ (arr (pq_sort H (pq_ s)))).
  pose proof (extend_entries_pris l 0) as Ep.
  destruct (extend_entries (seqn pq_empty) l) as [s' es] eqn:Ee.
  change (seqn pq_empty) with 0 in Ee. rewrite Ee in Ep. simpl in Ep. simpl.
  eapply bounded_perm; [apply Permutation_sym, (hs_heapify_perm HS)|].
  apply Forall_forall. intros x Hx.
  assert (Hi : In (epri x) (map fst l)) by (rewrite <- Ep; apply in_map; exact Hx).
  unfold l in Hi. rewrite map_map in Hi. apply in_map_iff in Hi.
  destruct Hi as (e & Ee' & He). simpl in Ee'.
  assert (Hbe : ins_at (epri e) <= n_ins s).
  { unfold IA, bounded in Hb. rewrite Forall_forall in Hb. apply Hb.
    eapply Permutation_in; [apply (stable_sort_perm H)|]. exact He. }
  rewrite <- Ee'. destruct (pclass (epri e) =? 0); simpl; exact Hbe.
Qed.

Theorem gstep_IA s op : IA s -> IA (gstep H s op).
Proof.
  intros Hb. destruct op; simpl.
  - apply append_IA; auto.
  - apply append_IA; auto.
  - apply insert_IA; auto.
  - destruct (pos_popleft H s) as [[o' s']|] eqn:P; auto. eapply popleft_IA; eauto.
  - unfold pos_remove. destruct (pq_remove H (pq_ s) o) as [[p q]|] eqn:E; auto.
    apply update_counters_IA, with_pq_IA.
    eapply bounded_incl; [eapply remove_incl; eauto | exact Hb].
  - unfold pos_find. destruct (pq_find H (pq_ s) (Z.eqb o) rm) as [[e q]|] eqn:E; auto.
    apply with_pq_IA. eapply bounded_incl; [eapply find_incl; eauto | exact Hb].
  - unfold pos_reschedule. destruct (pq_find _ _ _ _) as [[e q0]|]; auto.
    destruct (_ =? _); auto. unfold pos_reschedule_reg.
    destruct (pq_reschedule H (pq_ s) (Z.eqb o) _) as [[o' q]|] eqn:E; auto.
    apply with_pq_IA. apply Forall_forall. intros x Hx.
    destruct (resched_members _ _ _ _ _ E x Hx) as [Hin| ->].
    + unfold IA, bounded in Hb. rewrite Forall_forall in Hb. auto.
    + simpl. lia.
  - apply reschedule_all_IA; auto.
  - unfold pos_clear. apply with_pq_IA. constructor.
  - unfold pos_iter. simpl. apply with_pq_IA.
    eapply bounded_perm; [apply Permutation_sym, (stable_sort_perm H) | exact Hb].
  - exact Hb.
Qed.

Theorem gexec_IA ops : forall s, IA s -> IA (gexec H s ops).
Proof.
  induction ops as [|op ops IH]; simpl; intros s Hb; auto.
  apply IH. apply gstep_IA. exact Hb.
Qed.

Theorem ins_at_inv f ds ops :
  let s := gexec H (pos_empty f ds) ops in
  Forall (fun e => ins_at (epri e) <= n_ins s) (arr (pq_ s)).
Proof. apply gexec_IA. constructor. Qed.

(* inserted_at of a queued object only changes by append / insert / reschedule:
   after any other operation every entry is an entry of the state before with
   the same object and the same inserted_at *)
Definition same_oi (e' e : entry pv) : Prop :=
  eobj e' = eobj e /\ ins_at (epri e') = ins_at (epri e).

Theorem ins_at_frame s op :
  match op with
  | QAppend _ _ | QAppendPri _ _ | QInsert _ _ | QResched _ _ => True
  | _ => forall e', In e' (arr (pq_ (gstep H s op))) ->
                    exists e, In e (arr (pq_ s)) /\ same_oi e' e
  end.
Proof.
  assert (Hsub : forall a, incl a (arr (pq_ s)) ->
            forall e', In e' a -> exists e, In e (arr (pq_ s)) /\ same_oi e' e).
  { intros a Hi e' He'. exists e'. split; [apply Hi; auto | split; reflexivity]. }
  assert (Huc : forall q, pq_ (update_counters H (with_pq s q) false) = q).
  { intros q. rewrite update_counters_false. destruct (0 <? _); reflexivity. }
  destruct op; cbn [gstep]; auto.
  - unfold pos_popleft. destruct (pq_popentry H (pq_ s)) as [[e q]|] eqn:E.
    + rewrite Huc. apply Hsub. eapply popentry_incl; eauto.
    + apply Hsub, incl_refl.
  - unfold pos_remove. destruct (pq_remove H (pq_ s) o) as [[p q]|] eqn:E.
    + rewrite Huc. apply Hsub. eapply remove_incl; eauto.
    + apply Hsub, incl_refl.
  - unfold pos_find. destruct (pq_find H (pq_ s) (Z.eqb o) rm) as [[e q]|] eqn:E.
    + simpl. apply Hsub. eapply find_incl; eauto.
    + apply Hsub, incl_refl.
  - (* reschedule_all: entries are re-created with the same object and inserted_at *)
    unfold pos_reschedule_all, pq_extend. cbn [pq_ with_pq].
    set (l := map _ (arr (pq_sort H (pq_ s)))).
    intros e' He'.
    destruct (extend_entries (seqn pq_empty) l) as [s' es] eqn:Ee. simpl in He'.
    apply (Permutation_in _ (hs_heapify_perm HS _)) in He'.
    assert (Hes : forall s0 x, In x (snd (extend_entries s0 l)) -> In (epri x, eobj x) l).
    { clear. induction l as [|[p o] l IH]; intros s0 x; simpl; [tauto|].
      specialize (IH (s0 + 1)). destruct (extend_entries (s0 + 1) l) as [s' es]. simpl in *.
      intros [<-|Hx]; auto. }
    specialize (Hes (seqn (@pq_empty pv)) e'). rewrite Ee in Hes. specialize (Hes He').
    unfold l in Hes. apply in_map_iff in Hes. destruct Hes as (e & Ee' & He).
    exists e. split.
    + eapply Permutation_in; [apply (stable_sort_perm H)|]. exact He.
    + inversion Ee' as [[E1 E2]]. split; auto.
      destruct (pclass (epri e) =? 0); rewrite <- E1; reflexivity.
  - intros e' [].
  - unfold pos_iter. simpl. intros e' He'. exists e'. split; [|split; reflexivity].
    eapply Permutation_in; [apply (stable_sort_perm H)|]. exact He'.
  - apply Hsub, incl_refl.
Qed.

End InsAt.

(* ------------------------------------------------------------------------- *)
(* the straggler clause of C19_prompt without the inserted_at hypothesis      *)
(* ------------------------------------------------------------------------- *)
Theorem prompt_closed (f : Q) (draws : list Q) (history : list posop) (load : list (Z * Q)) :
  let s := pos_exec (pos_empty f draws) history in
  let L := plen s in
  2 <= L ->
  L + Z.max 10 L + 1 <= Z.of_nat (length load) ->
  exists l1 x l2, load = l1 ++ x :: l2 /\
    L <= Z.of_nat (length l1) <= L + Z.max 10 L /\
    maintenance_in_round HPV (pairs HPV s l1) x /\
    forall o s1, pos_popleft HPV (pairs HPV s l1) = Some (o, s1) ->
      let sm := pre_maint HPV s1 (fst x) (snd x) in
      plen sm = L /\
      forall e, In e (arr (pq_ sm)) -> In (ident e) (map ident (arr (pq_ s))) ->
                (ins_at (epri e) <? n_ins sm - plen sm) = true.
Proof.
  intros s L HL Hlen.
  assert (Hc : cinv s).
  { unfold s. rewrite pos_exec_gexec. apply gexec_cinv. unfold cinv; simpl; lia. }
  assert (Hia : Forall (fun e => ins_at (epri e) <= n_ins s) (arr (pq_ s))).
  { unfold s. rewrite pos_exec_gexec. apply (ins_at_inv HPV HPV_heapspec). }
  destruct (prompt HPV heap_len_HPV s load Hc HL Hlen) as (l1 & x & l2 & E & B & M & St).
  exists l1, x, l2. repeat (split; [assumption|]).
  intros o s1 P. destruct (St o s1 P) as [Hpl Hst]. split; [exact Hpl|].
  intros e He Hid. apply Hst; auto.
  apply in_map_iff in Hid. destruct Hid as (e0 & E0 & He0).
  rewrite Forall_forall in Hia. specialize (Hia e0 He0).
  rewrite <- (iat_ident e), <- E0, iat_ident. exact Hia.
Qed.


Lemma Forall2_impl_local {A B} (P1 P2 : A -> B -> Prop) l l' :
  (forall a b, P1 a b -> P2 a b) -> Forall2 P1 l l' -> Forall2 P2 l l'.
Proof. intros Hi. induction 1; constructor; auto. Qed.

(* ------------------------------------------------------------------------- *)
(* (c) "so it eventually runs", deterministically                             *)
(* ------------------------------------------------------------------------- *)
Local Open Scope Q_scope.

(* priority() of an entry after one maintenance run in which the most urgent
   regular priority is m: a considered entry (p > m) moves to p + r(m-p)f with
   its draw r, any other entry keeps its priority *)
Definition boost_step (m f r p : Q) : Q :=
  if qltb m p then p + r * ((m - p) * f) else p.
(* ... after successive runs with draws rs (m the same in each of them) *)
Definition boost_many (m f : Q) (rs : list Q) (p : Q) : Q :=
  fold_left (fun p r => boost_step m f r p) rs p.

Fixpoint qpow (x : Q) (k : nat) : Q :=
  match k with O => 1 | S k => x * qpow x k end.

(* the contraction factor for draws >= rho: max(0, 1 - rho f) *)
Definition shrink (rho f : Q) : Q := qmax 0 (1 - rho * f).

Lemma shrink_facts rho f : 0 <= shrink rho f /\ 1 - rho * f <= shrink rho f.
Proof.
  unfold shrink, qmax. destruct (qltb 0 (1 - rho * f)) eqn:E.
  - apply BoostProofs.qltb_lt in E. split; lra.
  - apply BoostProofs.qltb_ge in E. split; lra.
Qed.

Lemma shrink_lt_1 rho f : 0 < rho -> 0 < f -> shrink rho f < 1.
Proof.
  intros Hr Hf. unfold shrink, qmax. assert (0 < rho * f) by nra.
  destruct (qltb 0 (1 - rho * f)); lra.
Qed.

Lemma shrink_zero rho f : 1 <= rho * f -> shrink rho f == 0.
Proof.
  intros Hr. unfold shrink, qmax. destruct (qltb 0 (1 - rho * f)) eqn:E; [|reflexivity].
  apply BoostProofs.qltb_lt in E. lra.
Qed.

Lemma qpow_nonneg x k : 0 <= x -> 0 <= qpow x k.
Proof. intros Hx. induction k as [|k IH]; simpl; [lra | nra]. Qed.

Lemma boost_step_le m f r p : 0 < f -> 0 <= r -> boost_step m f r p <= p.
Proof.
  intros Hf Hr. unfold boost_step. destruct (qltb m p) eqn:E; [|lra].
  apply BoostProofs.qltb_lt in E. assert (0 <= r * ((p - m) * f)) by (apply Qmult_le_0_compat; nra).
  nra.
Qed.

Lemma boost_step_stay m f r p : p <= m -> boost_step m f r p = p.
Proof.
  intros Hp. unfold boost_step. destruct (qltb m p) eqn:E; auto.
  apply BoostProofs.qltb_lt in E. lra.
Qed.

Lemma boost_many_stay m f rs : forall p, p <= m -> boost_many m f rs p = p.
Proof.
  induction rs as [|r rs IH]; intros p Hp; simpl; auto.
  rewrite (boost_step_stay m f r p Hp). apply IH. exact Hp.
Qed.

(* one run: the distance to m shrinks at least by the factor shrink rho f *)
Lemma boost_step_gap m f rho r p :
  0 < f -> 0 < rho -> rho <= r -> m < p ->
  boost_step m f r p - m <= shrink rho f * (p - m).
Proof.
  intros Hf Hrho Hr Hp. destruct (shrink_facts rho f) as [S0 S1].
  unfold boost_step. rewrite (proj2 (BoostProofs.qltb_lt m p) Hp).
  assert (H1 : 0 <= (r - rho) * f) by (apply Qmult_le_0_compat; lra).
  assert (H2 : 1 - r * f <= shrink rho f) by nra.
  assert (H3 : 0 <= (shrink rho f - (1 - r * f)) * (p - m)) by (apply Qmult_le_0_compat; lra).
  nra.
Qed.

(* k runs: priority() <= m + shrink^k (p - m); it never increases *)
Theorem boost_many_bound m f rho rs : forall p,
  0 < f -> 0 < rho -> Forall (fun r => rho <= r) rs -> m < p ->
  boost_many m f rs p - m <= qpow (shrink rho f) (length rs) * (p - m) /\
  boost_many m f rs p <= p.
Proof.
  induction rs as [|r rs IH]; intros p Hf Hrho Hall Hp; simpl.
  - split; lra.
  - inversion Hall as [|? ? Hr Hrs]; subst.
    destruct (shrink_facts rho f) as [S0 S1].
    pose proof (qpow_nonneg (shrink rho f) (length rs) S0) as Q0.
    pose proof (boost_step_gap m f rho r p Hf Hrho Hr Hp) as G.
    pose proof (boost_step_le m f r p Hf) as L. assert (Hr0 : 0 <= r) by lra. specialize (L Hr0).
    set (p1 := boost_step m f r p) in *.
    destruct (Qlt_le_dec m p1) as [Hp1|Hp1].
    + destruct (IH p1 Hf Hrho Hrs Hp1) as [IH1 IH2]. split; [|lra].
      assert (H3 : 0 <= qpow (shrink rho f) (length rs) * (shrink rho f * (p - m) - (p1 - m)))
        by (apply Qmult_le_0_compat; lra).
      nra.
    + change (fold_left (fun p r => boost_step m f r p) rs p1) with (boost_many m f rs p1).
      rewrite (boost_many_stay m f rs p1 Hp1). split; [|lra].
      assert (H3 : 0 <= shrink rho f * qpow (shrink rho f) (length rs) * (p - m)).
      { apply Qmult_le_0_compat; [apply Qmult_le_0_compat|]; lra. }
      lra.
Qed.

(* if every draw satisfies rho <= r with rho * f >= 1, ONE run suffices *)
Corollary boost_one_run_suffices m f rho r rs p :
  0 < f -> 0 < rho -> 1 <= rho * f -> Forall (fun r => rho <= r) (r :: rs) -> m < p ->
  boost_many m f (r :: rs) p <= m.
Proof.
  intros Hf Hrho H1 Hall Hp.
  destruct (boost_many_bound m f rho (r :: rs) p Hf Hrho Hall Hp) as [B _].
  simpl length in B. simpl qpow in B. pose proof (shrink_zero rho f H1) as Z.
  pose proof (qpow_nonneg (shrink rho f) (length rs) (proj1 (shrink_facts rho f))) as Q0.
  set (c := shrink rho f) in *. set (w := qpow c (length rs)) in *.
  assert (E : c * w * (p - m) == 0) by (rewrite Z; ring).
  lra.
Qed.

(* any threshold t above m is passed after finitely many runs: as soon as
   shrink^k (p - m) <= t - m *)
Corollary boost_passes_threshold m f rho rs p t :
  0 < f -> 0 < rho -> Forall (fun r => rho <= r) rs -> m < p ->
  qpow (shrink rho f) (length rs) * (p - m) <= t - m ->
  boost_many m f rs p <= t.
Proof.
  intros Hf Hrho Hall Hp Ht.
  destruct (boost_many_bound m f rho rs p Hf Hrho Hall Hp) as [B _]. lra.
Qed.

(* but m itself is NOT reached while every draw has r * f < 1: the distance is
   multiplied by 1 - r f > 0 in each run.  So a bound on the number of runs
   after which priority() <= m exists iff some draw has r * f >= 1. *)
Theorem boost_never_reaches m f rs : forall p,
  0 < f -> Forall (fun r => 0 <= r /\ r * f < 1) rs -> m < p -> m < boost_many m f rs p.
Proof.
  induction rs as [|r rs IH]; intros p Hf Hall Hp; simpl; auto.
  inversion Hall as [|? ? [Hr0 Hr1] Hrs]; subst. apply IH; auto.
  unfold boost_step. rewrite (proj2 (BoostProofs.qltb_lt m p) Hp).
  assert (0 < (1 - r * f) * (p - m)) by (apply Qmult_lt_0_compat; lra). nra.
Qed.

Theorem boost_reaches_with_big_draw m f rs1 r rs2 p :
  0 < f -> Forall (fun r => 0 <= r) (rs1 ++ r :: rs2) -> 1 <= r * f ->
  boost_many m f (rs1 ++ r :: rs2) p <= m.
Proof.
  intros Hf Hall Hr. unfold boost_many. rewrite fold_left_app. simpl.
  fold (boost_many m f rs1 p). set (p1 := boost_many m f rs1 p).
  assert (H1 : boost_step m f r p1 <= m).
  { unfold boost_step. destruct (qltb m p1) eqn:E.
    - apply BoostProofs.qltb_lt in E. apply boost_reaches_min; auto.
    - apply BoostProofs.qltb_ge in E. exact E. }
  fold (boost_many m f rs2 (boost_step m f r p1)).
  rewrite boost_many_stay; auto.
Qed.

(* the model's boost_stragglers does exactly boost_step on every entry it
   considers: with factor f > 0 and draws >= rho > 0 (enough of them), every
   regular straggler with priority() > m ends with
   priority() - m <= shrink rho f * (old priority() - m) *)
Lemma boost_loop_step a : forall limit m f rho ds,
  0 < f -> 0 < rho -> Forall (fun d => rho <= d) ds -> (length a <= length ds)%nat ->
  Forall2 (fun e e' =>
     ident e' = ident e /\
     (regular e -> (ins_at (epri e) < limit)%Z -> m < prio e ->
        exists r, In r ds /\ prio e' == boost_step m f r (prio e)) /\
     (prio e' <= prio e))
    a (fst (fst (boost_loop a limit m f ds))).
Proof.
  induction a as [|e t IH]; simpl; intros limit m f rho ds Hf Hrho Hd Hlen; [constructor|].
  destruct (_ || _ || _) eqn:C.
  - assert (Hlen' : (length t <= length ds)%nat) by lia.
    specialize (IH limit m f rho ds Hf Hrho Hd Hlen').
    destruct (boost_loop t limit m f ds) as [[t' ds'] n]. simpl in *.
    constructor; auto. split; [reflexivity|]. split; [|lra].
    intros R L M. exfalso.
    apply orb_true_iff in C. destruct C as [C|C].
    + apply orb_true_iff in C. destruct C as [C|C].
      * apply Z.eqb_eq in C. contradiction.
      * apply negb_true_iff, Z.ltb_ge in C. lia.
    + apply negb_true_iff, BoostProofs.qltb_ge in C. unfold prio in M. lra.
  - destruct ds as [|d ds]; [simpl in Hlen; lia|].
    inversion Hd as [|? ? Hd1 Hd2]; subst. simpl tl.
    assert (Hlen' : (length t <= length ds)%nat) by (simpl in Hlen; lia).
    specialize (IH limit m f rho ds Hf Hrho Hd2 Hlen').
    assert (IH' : Forall2 (fun e e' =>
       ident e' = ident e /\
       (regular e -> (ins_at (epri e) < limit)%Z -> m < prio e ->
          exists r, In r (d :: ds) /\ prio e' == boost_step m f r (prio e)) /\
       (prio e' <= prio e)) t (fst (fst (boost_loop t limit m f ds)))).
    { eapply Forall2_impl_local; [|exact IH]. cbv beta. intros a0 b0 (A0 & A1 & A2).
      split; auto. split; auto.
      intros R0 L0 M0. destruct (A1 R0 L0 M0) as (r0 & I0 & E0). exists r0. split; [right; auto | auto]. }
    apply orb_false_iff in C. destruct C as [C C3].
    apply negb_false_iff, BoostProofs.qltb_lt in C3.
    assert (PB : d * ((m - pv_priority (epri e)) * f) < 0).
    { assert (0 < d * ((pv_priority (epri e) - m) * f))
        by (apply Qmult_lt_0_compat; [lra | apply Qmult_lt_0_compat; lra]). lra. }
    rewrite (proj2 (BoostProofs.qltb_lt _ _) PB). simpl.
    destruct (boost_loop t limit m f ds) as [[t' ds'] n]. simpl in *.
    constructor; auto. split; [reflexivity|]. unfold prio, pv_priority in *. simpl. split.
    + intros _ _ M. exists d. split; auto. unfold boost_step.
      rewrite (proj2 (BoostProofs.qltb_lt _ _) M). ring.
    + lra.
Qed.

Lemma Forall2_in_l {A B} (P : A -> B -> Prop) l l' x :
  Forall2 P l l' -> In x l -> exists y, In y l' /\ P x y.
Proof.
  induction 1 as [|a b l l' Hab HF IH]; simpl; [tauto|].
  intros [<-|Hx]; [exists b; auto|]. destruct (IH Hx) as (y & Hy & Py). exists y; auto.
Qed.

(* one maintenance run of the model: a regular straggler e with priority() > m
   (m = the most urgent regular priority) is still queued afterwards, identical
   but for its boost, and its distance to m has shrunk by the factor
   shrink rho f = max(0, 1 - rho f) at least *)
Section Shrinks.
Context (H : heapimpl pv) (HP : forall a, Permutation (heapify H a) a).

Theorem maintenance_shrinks s rho e m :
  0 < factor s -> 0 < rho -> Forall (fun d => rho <= d) (draws s) ->
  (length (arr (pq_ s)) <= length (draws s))%nat ->
  In e (arr (pq_ s)) -> regular e -> (ins_at (epri e) < n_ins s - plen s)%Z ->
  min_regular (arr (pq_ s)) m -> m < prio e ->
  exists e', In e' (arr (pq_ (do_maintenance H s))) /\ ident e' = ident e /\
             prio e' - m <= shrink rho (factor s) * (prio e - m) /\ prio e' <= prio e.
Proof.
  intros Hf Hrho Hd Hlen He Hreg Hst (Hm1 & Hm2) Hlt. unfold do_maintenance.
  destruct (Qeq_bool (factor s) 0) eqn:Ef0; [apply Qeq_bool_iff in Ef0; lra|].
  destruct (find _ (arr (pq_ s))) as [r|] eqn:F.
  2: { exfalso. pose proof (List.find_none _ _ F e He) as Hn. simpl in Hn.
       apply negb_false_iff, Z.eqb_eq in Hn. contradiction. }
  assert (Hhs : has_straggler (arr (pq_ s)) (n_ins s - plen s) = true).
  { unfold has_straggler. apply existsb_exists. exists e. split; auto.
    apply andb_true_iff. split; [apply negb_true_iff, Z.eqb_neq; exact Hreg | apply Z.ltb_lt; exact Hst]. }
  rewrite Hhs.
  apply List.find_some in F. destruct F as [F1 F2]. apply negb_true_iff, Z.eqb_neq in F2.
  set (m0 := minmax_loop (arr (pq_ s)) (pv_priority (epri r))).
  destruct (minmax_loop_spec (arr (pq_ s)) (pv_priority (epri r))) as (M1 & M2 & M3).
  fold m0 in M1, M2, M3.
  assert (Em : m == m0).
  { apply Qle_antisym.
    - destruct M3 as [M3|(x & X1 & X2 & X3)].
      + rewrite M3. apply (Hm2 r F1 F2).
      + rewrite <- X3. apply Hm2; auto.
    - destruct Hm1 as (x & X1 & X2 & X3). rewrite <- X3. apply M2; auto. }
  pose proof (boost_loop_step (arr (pq_ s)) (n_ins s - plen s) m0 (factor s) rho (draws s)
                Hf Hrho Hd Hlen) as HF.
  destruct (boost_loop _ _ _ _ _) as [[a' ds'] n]. simpl in HF.
  destruct (@Forall2_in_l _ _ _ _ _ _ HF He) as (e' & He' & Hid & Hcons & Hle).
  exists e'. split.
  - cbn [pq_ arr]. destruct n; auto. eapply Permutation_in; [apply Permutation_sym, HP | exact He'].
  - split; auto. split; auto.
    destruct Hcons as (r0 & Hr0 & Er0); auto. { unfold prio in *. lra. }
    rewrite Forall_forall in Hd. specialize (Hd r0 Hr0).
    assert (Hlt0 : m0 < prio e) by lra.
    pose proof (boost_step_gap m0 (factor s) rho r0 (prio e) Hf Hrho Hd Hlt0) as G.
    destruct (shrink_facts rho (factor s)) as [S0 _].
    set (c := shrink rho (factor s)) in *.
    assert (Ecm : c * m == c * m0) by (rewrite Em; reflexivity).
    lra.
Qed.
End Shrinks.

(* ------------------------------------------------------------------------- *)
(* Non-vacuity                                                                *)
(* ------------------------------------------------------------------------- *)
(* a state in which the hypotheses of maintenance_shrinks hold for entry 2
   (priority 7, m = 5, factor 3/2, draws 1/2): its priority goes to 11/2, the
   distance to m from 2 to 1/2 = shrink (1/2) (3/2) * 2 *)
Example maintenance_shrinks_example :
  let e1 := mkE (mkPV 5 0 0 1) 0 1 in
  let e2 := mkE (mkPV 7 0 0 1) 1 2 in
  let s := mkPos (mkPQ 2 [e1; e2]) 0 10 5 (3#2) [1#2; 1#2] in
  (0 < factor s /\ Forall (fun d => (1#2) <= d) (draws s) /\
   (length (arr (pq_ s)) <= length (draws s))%nat /\
   In e2 (arr (pq_ s)) /\ regular e2 /\ (ins_at (epri e2) < n_ins s - plen s)%Z /\
   min_regular (arr (pq_ s)) 5 /\ 5 < prio e2) /\
  summary (do_maintenance HPV s) = [(1%Z, 1%Z, 5, 0); (2%Z, 1%Z, 7, (-3#2))] /\
  Qred (shrink (1#2) (3#2)) = (1#4).
Proof.
  cbv zeta. split; [|split; vm_compute; reflexivity].
  split; [reflexivity|]. split; [repeat constructor; discriminate|].
  split; [simpl; lia|]. split; [simpl; auto|]. split; [discriminate|].
  split; [reflexivity|]. split; [|reflexivity].
  split.
  - eexists. split; [left; reflexivity|]. split; [discriminate | reflexivity].
  - intros e [<-|[<-|[]]] _; vm_compute; discriminate.
Qed.

Example boost_many_example :
  Qred (boost_many 5 (3#2) [1#2; 1#2; 1#2] 7) = (161#32) /\
  Qred (5 + qpow (shrink (1#2) (3#2)) 3 * (7 - 5)) = (161#32).
Proof. split; vm_compute; reflexivity. Qed.

(* the invariant of (b) is not vacuous: after this history entries with
   different inserted_at are queued and n_inserted is larger than all *)
Example ins_at_inv_example :
  let s := pos_exec (pos_empty (3#2) [1#2])
             (map oop_posop ([OA 1 0; OA 2 0] ++ rounds 3 3 0)) in
  (n_ins s, map (fun e => ins_at (epri e)) (arr (pq_ s))) = (5%Z, [3%Z; 4%Z]).
Proof. vm_compute. reflexivity. Qed.
