(* HeapqModel (the transcription of CPython's heapq) meets HeapSpec for every
   order whose `<` is asymmetric and whose complement is transitive; in
   particular for PriEntry.__lt__ over a strict weak priority order.  This
   closes the C17 development: no hypothesis about heapq remains for the
   instances HZ / HPV used in the correspondence check. *)
From Coq Require Import Sorting.Permutation.
From Asynkit Require Import Base.Prelude Queue.PQ Queue.Order Queue.Heap Queue.ListFacts
  Queue.HeapqModel.

Section HeapqProofs.
Context {A : Type} (lt : A -> A -> bool) (dflt : A).
Hypothesis lt_asym : forall a b, lt a b = true -> lt b a = false.
Hypothesis le_trans : forall a b c, lt b a = false -> lt c b = false -> lt c a = false.

Notation get := (get dflt).
Notation "'par' i" := ((i - 1) / 2) (at level 10, i at level 9).

Lemma le_refl a : lt a a = false.
Proof. destruct (lt a a) eqn:E; auto. rewrite (lt_asym _ _ E) in E. discriminate. Qed.

(* x < y <= z  ->  x <= z *)
Lemma lt_le_trans x y z : lt x y = true -> lt z y = false -> lt z x = false.
Proof. intros Hxy Hyz. eapply le_trans; [apply lt_asym, Hxy | exact Hyz]. Qed.

(* ---- arrays ---- *)
Lemma get_set_same (h : list A) i x : i < length h -> get (set_nth h i x) i = x.
Proof. apply nth_set_nth_same. Qed.

Lemma get_set_other (h : list A) i j x : i <> j -> get (set_nth h j x) i = get h i.
Proof.
  unfold HeapqModel.get. revert i j. induction h as [|a t IH]; intros [|i] [|j] Hne; simpl; auto; try lia.
Qed.

Lemma set_set_same (h : list A) i x y : set_nth (set_nth h i x) i y = set_nth h i y.
Proof. revert i. induction h as [|a t IH]; intros [|i]; simpl; auto. rewrite IH. auto. Qed.

Lemma perm_set_swap (h : list A) : forall i j x,
  i <> j -> i < length h -> j < length h ->
  Permutation (set_nth (set_nth h i (nth j h dflt)) j x) (set_nth h i x).
Proof.
  induction h as [|a t IH]; intros [|i] [|j] x Hne Hi Hj; simpl in *; try lia.
  - eapply perm_trans; [apply perm_skip, perm_set_nth; lia|].
    eapply perm_trans; [apply perm_swap|]. apply perm_skip.
    apply Permutation_sym, perm_remove_nth. lia.
  - eapply perm_trans; [apply perm_skip, perm_set_nth; lia|].
    eapply perm_trans; [apply perm_swap|]. apply perm_skip.
    apply Permutation_sym, perm_set_nth. lia.
  - apply perm_skip, IH; lia.
Qed.

(* ---- partial heaps ---- *)
Definition rel (h : list A) (i : nat) : Prop := lt (get h i) (get h (par i)) = false.

(* all parent-child relations whose parent index is >= s hold *)
Definition heap_ge (s : nat) (h : list A) : Prop :=
  forall i, 0 < i < length h -> s <= par i -> rel h i.

Lemma heap_ge_0 h : heap_ge 0 h <-> is_heap lt h.
Proof.
  rewrite (is_heap_nth lt h dflt). unfold heap_ge, rel, HeapqModel.get. split; intros Hh i Hi.
  - apply Hh; lia.
  - intros _. apply Hh; lia.
Qed.

Inductive desc (s : nat) : nat -> Prop :=
| desc_refl : desc s s
| desc_child p : 0 < p -> desc s (par p) -> desc s p.

Lemma desc_ge s p : desc s p -> s <= p.
Proof. induction 1; lia. Qed.

Lemma desc_par s p : desc s p -> s < p -> desc s (par p) /\ s <= par p.
Proof.
  intros Hd Hlt. inversion Hd; subst; [lia|]. split; auto. apply desc_ge; auto.
Qed.

Lemma desc_zero p : desc 0 p.
Proof.
  induction p as [p IH] using lt_wf_ind. destruct p; [constructor|].
  apply desc_child; [lia|]. apply IH. lia.
Qed.

(* ---- _siftdown ---- *)
Lemma siftdown_final h s pos x :
  pos < length h -> desc s pos ->
  (forall i, 0 < i < length h -> i <> pos -> s <= par i -> rel h i) ->
  (forall c, 0 < c < length h -> par c = pos -> lt (get h c) x = false) ->
  (pos <= s \/ (0 < pos /\ lt x (get h (par pos)) = false)) ->
  heap_ge s (set_nth h pos x).
Proof.
  intros Hpos Hd J1 J2 Hstop i Hi Hs. rewrite set_nth_length in Hi. unfold rel.
  destruct (Nat.eq_dec i pos) as [->|Hne].
  - destruct Hstop as [Hle | [Hp Hlt]].
    + apply desc_ge in Hd. exfalso. lia.
    + rewrite get_set_same by auto. rewrite get_set_other by lia. auto.
  - rewrite (get_set_other _ _ _ _ Hne).
    destruct (Nat.eq_dec (par i) pos) as [Hp|Hp].
    + rewrite Hp, get_set_same by auto. apply J2; auto.
    + rewrite get_set_other by auto. apply J1; auto.
Qed.

Lemma siftdown_loop_heap fuel : forall h s pos x,
  pos < fuel -> pos < length h -> desc s pos ->
  (forall i, 0 < i < length h -> i <> pos -> s <= par i -> rel h i) ->
  (forall c, 0 < c < length h -> par c = pos -> lt (get h c) x = false) ->
  (s < pos -> length h <= 2 * pos + 1 \/ rel h pos) ->
  heap_ge s (siftdown_loop lt dflt fuel h s pos x).
Proof.
  induction fuel as [|fuel IH]; intros h s pos x Hf Hpos Hd J1 J2 J3; [lia|].
  simpl. destruct (Nat.ltb s pos) eqn:Hsp.
  - apply Nat.ltb_lt in Hsp. rewrite Nat.div2_div.
    destruct (lt x (get h (par pos))) eqn:Hlt.
    + destruct (desc_par _ _ Hd Hsp) as [Hd' Hge].
      assert (Hpp : par pos < pos) by lia.
      apply IH; auto; try lia; rewrite ?set_nth_length; try lia.
      * (* J1 *)
        intros i Hi Hne Hs. unfold rel.
        destruct (Nat.eq_dec i pos) as [->|Hne2].
        -- rewrite get_set_same by auto. rewrite get_set_other by lia. apply le_refl.
        -- rewrite (get_set_other _ _ _ _ Hne2).
           destruct (Nat.eq_dec (par i) pos) as [Hp|Hp].
           ++ rewrite Hp, get_set_same by auto.
              destruct (J3 Hsp) as [Hleaf | Hrel]; [lia|].
              assert (Hri : rel h i) by (apply J1; auto; lia).
              unfold rel in Hri, Hrel. rewrite Hp in Hri. eapply le_trans; eauto.
           ++ rewrite get_set_other by auto. apply J1; auto.
      * (* J2 *)
        intros c Hc Hpc.
        destruct (Nat.eq_dec c pos) as [->|Hne2].
        -- rewrite get_set_same by auto. apply lt_asym; auto.
        -- rewrite (get_set_other _ _ _ _ Hne2).
           assert (Hrc : rel h c) by (apply J1; auto; lia).
           unfold rel in Hrc. rewrite Hpc in Hrc. eapply lt_le_trans; eauto.
      * (* J3 *)
        intros Hs2. right. unfold rel.
        rewrite !get_set_other by lia. apply J1; try lia.
        destruct (desc_par _ _ Hd' Hs2). auto.
    + apply siftdown_final; auto. right. split; auto. lia.
  - apply Nat.ltb_ge in Hsp. apply siftdown_final; auto.
Qed.

Lemma siftdown_loop_perm fuel : forall h s pos x,
  pos < length h ->
  Permutation (siftdown_loop lt dflt fuel h s pos x) (set_nth h pos x).
Proof.
  induction fuel as [|fuel IH]; intros h s pos x Hpos; simpl; auto.
  destruct (Nat.ltb s pos) eqn:Hsp; auto.
  apply Nat.ltb_lt in Hsp. rewrite Nat.div2_div.
  destruct (lt x (get h (par pos))); auto.
  eapply perm_trans; [apply IH; rewrite set_nth_length; lia|].
  apply perm_set_swap; lia.
Qed.

(* ---- _siftup: walk the hole down to a leaf ---- *)
Definition pick (h : list A) (n pos : nat) : nat :=
  if Nat.ltb (2 * pos + 1 + 1) n && negb (lt (get h (2 * pos + 1)) (get h (2 * pos + 1 + 1)))
  then 2 * pos + 1 + 1 else 2 * pos + 1.

Lemma siftup_loop_S fuel h n pos :
  siftup_loop lt dflt (S fuel) h n pos =
  if Nat.ltb (2 * pos + 1) n
  then siftup_loop lt dflt fuel (set_nth h pos (get h (pick h n pos))) n (pick h n pos)
  else (h, pos).
Proof. reflexivity. Qed.

Lemma pick_spec h pos :
  2 * pos + 1 < length h ->
  (pick h (length h) pos = 2 * pos + 1 \/ pick h (length h) pos = 2 * pos + 2) /\
  pick h (length h) pos < length h /\
  (forall c', 0 < c' < length h -> par c' = pos ->
              lt (get h c') (get h (pick h (length h) pos)) = false).
Proof.
  intros Hc. unfold pick.
  destruct (Nat.ltb (2 * pos + 1 + 1) (length h)) eqn:Hr; cbn [andb].
  - apply Nat.ltb_lt in Hr.
    destruct (lt (get h (2 * pos + 1)) (get h (2 * pos + 1 + 1))) eqn:Hl; cbn [negb].
    + split; [lia|]. split; [lia|]. intros c' Hc' Hp.
      assert (Hcc : c' = 2 * pos + 1 \/ c' = 2 * pos + 1 + 1) by lia.
      destruct Hcc as [->| ->]; [apply le_refl | apply lt_asym; auto].
    + split; [lia|]. split; [lia|]. intros c' Hc' Hp.
      assert (Hcc : c' = 2 * pos + 1 \/ c' = 2 * pos + 1 + 1) by lia.
      destruct Hcc as [->| ->]; [auto | apply le_refl].
  - apply Nat.ltb_ge in Hr. split; [lia|]. split; [lia|]. intros c' Hc' Hp.
    assert (c' = 2 * pos + 1) by lia. subst c'. apply le_refl.
Qed.

Lemma siftup_loop_perm fuel : forall h pos,
  pos < length h ->
  let r := siftup_loop lt dflt fuel h (length h) pos in
  length (fst r) = length h /\ snd r < length h /\
  (forall x, Permutation (set_nth (fst r) (snd r) x) (set_nth h pos x)).
Proof.
  induction fuel as [|fuel IH]; intros h pos Hpos.
  - simpl. auto.
  - rewrite siftup_loop_S. destruct (Nat.ltb (2 * pos + 1) (length h)) eqn:Hc.
    + apply Nat.ltb_lt in Hc.
      destruct (pick_spec h pos Hc) as (Hcv & Hcl & _).
      set (c := pick h (length h) pos) in *. clearbody c.
      specialize (IH (set_nth h pos (get h c)) c).
      rewrite set_nth_length in IH. destruct IH as (L1 & L2 & L6); auto.
      repeat split; auto.
      intros x. eapply perm_trans; [apply L6|].
      unfold HeapqModel.get. apply perm_set_swap; lia.
    + simpl. auto.
Qed.

Lemma siftup_loop_spec fuel : forall h s pos,
  length h - pos <= fuel -> pos < length h -> desc s pos ->
  (forall i, 0 < i < length h -> (s < par i \/ (par i = s /\ pos <> s)) -> rel h i) ->
  let r := siftup_loop lt dflt fuel h (length h) pos in
  length h <= 2 * snd r + 1 /\ desc s (snd r) /\
  (forall i, 0 < i < length h -> (s < par i \/ (par i = s /\ snd r <> s)) -> rel (fst r) i).
Proof.
  induction fuel as [|fuel IH]; intros h s pos Hf Hpos Hd K; [lia|].
  rewrite siftup_loop_S. destruct (Nat.ltb (2 * pos + 1) (length h)) eqn:Hc.
  - apply Nat.ltb_lt in Hc.
    destruct (pick_spec h pos Hc) as (Hcv & Hcl & Hmin).
    set (c := pick h (length h) pos) in *. clearbody c.
    assert (Hpc : par c = pos) by lia.
    assert (Hcp : c <> pos) by lia.
    specialize (IH (set_nth h pos (get h c)) s c).
    rewrite set_nth_length in IH.
    apply IH; auto; try lia.
    + apply desc_child; [lia|]. rewrite Hpc. auto.
    + (* K for the new array: everything from s on holds *)
      intros i Hi Hs. unfold rel.
      assert (Hs' : s <= par i) by lia.
      apply desc_ge in Hd.
      destruct (Nat.eq_dec i pos) as [->|Hne].
      * (* the moved-up child against pos's parent *)
        rewrite get_set_same by auto. rewrite get_set_other by lia.
        assert (Hr1 : rel h pos) by (apply K; [lia|]; lia).
        assert (Hr2 : rel h c) by (apply K; [lia|]; rewrite Hpc; lia).
        unfold rel in Hr1, Hr2. rewrite Hpc in Hr2. eapply le_trans; eauto.
      * rewrite (get_set_other _ _ _ _ Hne).
        destruct (Nat.eq_dec (par i) pos) as [Hp|Hp].
        -- rewrite Hp, get_set_same by auto. apply Hmin; auto.
        -- rewrite get_set_other by auto. apply K; auto.
           destruct (Nat.eq_dec (par i) s); [right|left]; try lia.
  - apply Nat.ltb_ge in Hc. simpl. repeat split; auto; lia.
Qed.

Lemma siftup_heap h pos :
  pos < length h -> heap_ge (pos + 1) h -> heap_ge pos (siftup lt dflt h pos).
Proof.
  intros Hpos Hh. unfold siftup.
  pose proof (siftup_loop_spec (length h) h pos pos) as Hspec.
  pose proof (siftup_loop_perm (length h) h pos Hpos) as Hperm.
  destruct (siftup_loop lt dflt (length h) h (length h) pos) as [h' p]. cbn [fst snd] in Hspec, Hperm.
  destruct Hperm as (L1 & L2 & _).
  destruct Hspec as (L3 & L4 & L5); auto; try lia.
  { constructor. }
  { intros i Hi [Hs|[_ Hne]]; [|lia]. apply Hh; auto. lia. }
  unfold siftdown. rewrite get_set_same by lia.
  apply siftdown_loop_heap; rewrite ?set_nth_length; auto; try lia.
  - intros i Hi Hne Hs. unfold rel.
    assert (Hpi : par i <> p) by lia.
    rewrite !get_set_other by auto. apply L5; try lia.
Qed.

Lemma siftup_perm h pos : pos < length h -> Permutation (siftup lt dflt h pos) h.
Proof.
  intros Hpos. unfold siftup.
  pose proof (siftup_loop_perm (length h) h pos Hpos) as Hperm.
  destruct (siftup_loop lt dflt (length h) h (length h) pos) as [h' p]. cbn [fst snd] in Hperm.
  destruct Hperm as (L1 & L2 & L6).
  unfold siftdown.
  eapply perm_trans; [apply siftdown_loop_perm; rewrite set_nth_length; lia|].
  rewrite get_set_same by lia. rewrite set_set_same.
  eapply perm_trans; [apply L6|]. unfold HeapqModel.get. rewrite set_nth_nth_id; auto.
Qed.

Lemma siftup_length h pos : pos < length h -> length (siftup lt dflt h pos) = length h.
Proof. intros Hpos. apply Permutation_length, siftup_perm; auto. Qed.

(* ---- heappush ---- *)
Lemma heappush_perm h x : Permutation (heappush lt dflt h x) (x :: h).
Proof.
  unfold heappush, siftdown.
  eapply perm_trans; [apply siftdown_loop_perm; rewrite app_length; simpl; lia|].
  unfold HeapqModel.get. rewrite set_nth_nth_id by (rewrite app_length; simpl; lia).
  apply Permutation_sym, Permutation_cons_append.
Qed.

Lemma heappush_heap h x : is_heap lt h -> is_heap lt (heappush lt dflt h x).
Proof.
  intros Hh. apply heap_ge_0. unfold heappush, siftdown.
  assert (Hlen : length (h ++ [x]) = length h + 1) by (rewrite app_length; simpl; lia).
  apply siftdown_loop_heap; rewrite ?Hlen; try lia.
  - apply desc_zero.
  - intros i Hi Hne _. unfold rel, HeapqModel.get.
    rewrite !app_nth1 by lia.
    apply (proj1 (is_heap_nth lt h dflt) Hh). lia.
Qed.

(* ---- heappop ---- *)
Lemma heappop_cases h :
  (h = [] /\ heappop lt dflt h = None) \/
  (exists x, h = [x] /\ heappop lt dflt h = Some (x, [])) \/
  (exists ret t lastelt, h = ret :: t ++ [lastelt] /\
     heappop lt dflt h = Some (ret, siftup lt dflt (lastelt :: t) 0)).
Proof.
  induction h as [|a h0 _] using rev_ind.
  - left. auto.
  - right. unfold heappop. rewrite rev_app_distr. simpl rev. simpl app.
    cbv beta iota zeta. rewrite !rev_involutive. destruct h0 as [|ret t].
    + left. exists a. auto.
    + right. exists ret, t, a. auto.
Qed.

Lemma heappop_nil : heappop lt dflt [] = None.
Proof. reflexivity. Qed.

Lemma heappop_some h : h <> [] -> exists e h', heappop lt dflt h = Some (e, h').
Proof.
  intros Hne. destruct (heappop_cases h) as [[E _]|[(x & _ & E)|(r & t & l & _ & E)]];
    [congruence | eauto | eauto].
Qed.

Lemma heappop_perm h e h' : heappop lt dflt h = Some (e, h') -> Permutation h (e :: h').
Proof.
  intros Hp. destruct (heappop_cases h) as [[_ E]|[(x & Eh & E)|(r & t & l & Eh & E)]];
    rewrite E in Hp; inversion Hp; subst; auto.
  apply perm_skip.
  eapply perm_trans; [|apply Permutation_sym, siftup_perm; simpl; lia].
  apply Permutation_sym, Permutation_cons_append.
Qed.

Lemma heappop_heap h e h' :
  is_heap lt h -> heappop lt dflt h = Some (e, h') -> hd_error h = Some e /\ is_heap lt h'.
Proof.
  intros Hh Hp. destruct (heappop_cases h) as [[_ E]|[(x & Eh & E)|(r & t & l & Eh & E)]];
    rewrite E in Hp; inversion Hp; subst; clear Hp.
  - split; auto. apply is_heap_nil.
  - split; auto. apply heap_ge_0. apply siftup_heap; [simpl; lia|].
    change (e :: t ++ [l]) with ((e :: t) ++ [l]) in Hh. apply is_heap_app_l in Hh.
    apply heap_ge_0 in Hh.
    intros i Hi Hs. unfold rel, HeapqModel.get.
    pose proof (Hh i) as Hr. unfold rel, HeapqModel.get in Hr.
    destruct i as [|i']; [lia|]. remember (par (S i')) as pi eqn:Epi.
    destruct pi as [|pi']; [lia|].
    cbn [nth length] in *. apply Hr; lia.
Qed.

(* ---- heapify ---- *)
Lemma heapify_loop_perm i : forall h, i <= length h -> Permutation (heapify_loop lt dflt i h) h.
Proof.
  induction i as [|i IH]; intros h Hi; simpl; auto.
  eapply perm_trans; [apply IH; rewrite siftup_length; lia|]. apply siftup_perm. lia.
Qed.

Lemma heapify_loop_heap i : forall h,
  i <= length h -> heap_ge i h -> heap_ge 0 (heapify_loop lt dflt i h).
Proof.
  induction i as [|i IH]; intros h Hi Hh; simpl; auto.
  apply IH; [rewrite siftup_length; lia|]. apply siftup_heap; [lia|].
  replace (i + 1) with (S i) by lia. auto.
Qed.

Lemma heapify_perm h : Permutation (heapify lt dflt h) h.
Proof.
  unfold heapify. apply heapify_loop_perm. rewrite Nat.div2_div.
  apply Nat.div_le_upper_bound; lia.
Qed.

Lemma heapify_heap h : is_heap lt (heapify lt dflt h).
Proof.
  apply heap_ge_0. unfold heapify. rewrite Nat.div2_div. apply heapify_loop_heap.
  - apply Nat.div_le_upper_bound; lia.
  - intros i Hi Hs. exfalso. lia.
Qed.

End HeapqProofs.

(* ------------------------------------------------------------------ *)
(* the executable heap implementation of Queue/Exec.v meets HeapSpec   *)
From Asynkit Require Import Queue.Exec.

Theorem heapq_model_spec {P : Type} (lt : P -> P -> bool) (d : P) :
  StrictWeak lt -> HeapSpec (mk_heapimpl lt d).
Proof.
  intros SW.
  assert (Ha : forall a b, entry_lt lt a b = true -> entry_lt lt b a = false)
    by (apply (elt_asym SW)).
  assert (Ht : forall a b c, entry_lt lt b a = false -> entry_lt lt c b = false ->
                             entry_lt lt c a = false)
    by (apply (ele_trans SW)).
  constructor; unfold mk_heapimpl; cbn [PQ.heappush PQ.heappop PQ.heapify plt].
  - intros a e. apply heappush_perm; auto.
  - intros a e. apply heappush_heap; auto.
  - apply heappop_nil.
  - intros a. apply heappop_some.
  - intros a e a'. apply heappop_perm; auto.
  - intros a e a'. apply heappop_heap; auto.
  - intros a. apply heapify_perm; auto.
  - intros a. apply heapify_heap; auto.
Qed.

Corollary HZ_spec : HeapSpec HZ.
Proof. exact (heapq_model_spec Z.ltb 0%Z Zltb_strict_weak). Qed.
