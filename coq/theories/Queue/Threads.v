(* C18: what happens when another thread appends to the priority loop's ready
   queue while the loop thread is inside a heap operation.

   CPython can switch threads only inside Python-level code; inside heapq's C
   functions that is exactly the Python-level PriEntry.__lt__.  The C functions
   (3.12 _heapqmodule.c, transcribed below with their swap-based sifting) check
   after every comparison that the list's size is unchanged and otherwise raise
   RuntimeError("list changed size during iteration"), leaving the operation
   half done.  A foreign append is modelled as a complete heappush performed
   during the k-th comparison of the loop thread's operation. *)
From Coq Require Import QArith.
From Asynkit Require Import Base.Prelude Queue.HeapqModel Queue.PQ Queue.PosPQ Queue.Exec.
Open Scope nat_scope.

Notation E := (entry pv).
Definition elt : E -> E -> bool := entry_lt pv_lt.
Definition ed : E := mkE pv_dflt 0 0.
Definition push_atomic (a : list E) (x : E) : list E := HeapqModel.heappush elt ed a x.

(* state of an interruptible heap operation *)
Record cst := mkC { carr : list E; cbudget : option nat; cx : E; cerr : bool }.

(* one PriEntry.__lt__ evaluation; the foreign append strikes during the k-th one *)
Definition ccmp (s : cst) (a b : E) : cst * bool :=
  match cbudget s with
  | Some O => (mkC (push_atomic (carr s) (cx s)) None (cx s) true, elt a b)
  | Some (S n) => (mkC (carr s) (Some n) (cx s) false, elt a b)
  | None => (s, elt a b)
  end.

Definition cget (s : cst) i := nth i (carr s) ed.
Definition cswap (s : cst) i j : cst :=
  let a := cget s i in let b := cget s j in
  mkC (set_nth (set_nth (carr s) i b) j a) (cbudget s) (cx s) (cerr s).

(* static int siftdown(heap, startpos, pos) *)
Fixpoint c_siftdown (fuel : nat) (s : cst) (startpos pos : nat) : cst :=
  match fuel with
  | O => s
  | S fuel =>
      if Nat.ltb startpos pos then
        let parentpos := Nat.div2 (pos - 1) in
        let '(s, lt) := ccmp s (cget s pos) (cget s parentpos) in
        if cerr s then s                        (* size changed: RuntimeError *)
        else if lt then c_siftdown fuel (cswap s parentpos pos) startpos parentpos
        else s
      else s
  end.

(* static int siftup(heap, pos); endpos is the size when the function was entered *)
Fixpoint c_siftup_loop (fuel : nat) (s : cst) (endpos pos : nat) : cst * nat :=
  match fuel with
  | O => (s, pos)
  | S fuel =>
      if Nat.ltb pos (Nat.div2 endpos) then
        let childpos := 2 * pos + 1 in
        if Nat.ltb (childpos + 1) endpos then
          let '(s, lt) := ccmp s (cget s childpos) (cget s (childpos + 1)) in
          if cerr s then (s, pos)
          else
            let childpos := if lt then childpos else childpos + 1 in
            c_siftup_loop fuel (cswap s childpos pos) endpos childpos
        else c_siftup_loop fuel (cswap s childpos pos) endpos childpos
      else (s, pos)
  end.
Definition c_siftup (s : cst) (pos : nat) : cst :=
  let endpos := length (carr s) in
  let '(s, p) := c_siftup_loop endpos s endpos pos in
  if cerr s then s else c_siftdown (S p) s pos p.

Definition c_heappush (s : cst) (x : E) : cst :=
  let s := mkC (carr s ++ [x]) (cbudget s) (cx s) (cerr s) in
  c_siftdown (length (carr s)) s 0 (length (carr s) - 1).

(* returns the popped item unless the sift was aborted (then the item is dropped: lost) *)
Definition c_heappop (s : cst) : cst * option E :=
  match rev (carr s) with
  | [] => (s, None)
  | lastelt :: r =>
      let a := rev r in
      match a with
      | [] => (mkC [] (cbudget s) (cx s) (cerr s), Some lastelt)
      | ret :: _ =>
          let s := c_siftup (mkC (set_nth a 0 lastelt) (cbudget s) (cx s) (cerr s)) 0 in
          (s, if cerr s then None else Some ret)
      end
  end.

Fixpoint c_heapify_loop (i : nat) (s : cst) : cst :=
  match i with
  | O => s
  | S i => let s := c_siftup s i in if cerr s then s else c_heapify_loop i s
  end.
Definition c_heapify (s : cst) : cst := c_heapify_loop (Nat.div2 (length (carr s))) s.

(* --- the loop thread's queue operations, interruptible ------------------------------
   outcome: new queue state, what the operation returned, whether it raised
   (RuntimeError / ValueError), and the counters as they were left *)
Inductive tout := TOk (v : Z) | TNone | TRaise.

Record tres := mkT { tq : pos; tout_ : tout }.

Definition start (s : pos) (k : nat) (x : E) : cst := mkC (arr (pq_ s)) (Some k) x false.
(* the foreign append did not strike during the operation: it happens right after (atomically) *)
Definition settle (s : pos) (c : cst) (o : tout) : tres :=
  match cbudget c with
  | Some _ => (* not reached: the append is performed after the operation, as a sequential step *)
      mkT (pos_append_pri HPV s (eobj (cx c)) (base (epri (cx c)))) o
  | None => mkT s o
  end.

Definition with_arr (s : pos) (a : list E) : pos :=
  mkPos (mkPQ (seqn (pq_ s)) a) (last_maint s) (n_ins s) (n_rem s) (factor s) (draws s).
(* the bookkeeping of the foreign thread's own (complete) append: _sequence += 1, update_counters(True) *)
Definition foreign_done (s : pos) : pos :=
  update_counters HPV (mkPos (mkPQ (seqn (pq_ s) + 1) (arr (pq_ s))) (last_maint s) (n_ins s) (n_rem s)
                             (factor s) (draws s)) true.

(* popleft *)
Definition t_popleft (s : pos) (k : nat) (x : E) : tres :=
  let '(c, r) := c_heappop (start s k x) in
  if cerr c then mkT (foreign_done (with_arr s (carr c))) TRaise
  else match r with
       | None => settle s c TRaise                    (* IndexError on an empty queue *)
       | Some e =>
           let q := mkPQ (match carr c with [] => 0%Z | _ => seqn (pq_ s) end) (carr c) in
           let s' := update_counters HPV (mkPos q (last_maint s) (n_ins s) (n_rem s) (factor s) (draws s)) false in
           settle s' c (TOk (eobj e))
       end.

(* append (the loop thread's own append of object o with priority p) *)
Definition t_append (s : pos) (o : Z) (p : Q) (k : nat) (x : E) : tres :=
  let e := mkE (mkPV p (n_ins s) 0 1) (seqn (pq_ s)) o in
  let c := c_heappush (start s k x) e in
  if cerr c then mkT (foreign_done (with_arr s (carr c))) TRaise   (* the loop thread's own _sequence/counters are NOT advanced *)
  else
    let q := mkPQ (seqn (pq_ s) + 1) (carr c) in
    settle (update_counters HPV (mkPos q (last_maint s) (n_ins s) (n_rem s) (factor s) (draws s)) true) c TNone.

(* find(key, remove=True) / remove(obj) in the middle of the array: replace by the tail, heapify *)
Definition t_find_remove (s : pos) (o : Z) (k : nat) (x : E) : tres :=
  match find_last_index (Z.eqb o) (arr (pq_ s)) with
  | None => settle s (start s k x) TNone
  | Some i =>
      let a := arr (pq_ s) in
      if Nat.eqb i (length a - 1) then
        let q := mkPQ (match removelast a with [] => 0%Z | _ => seqn (pq_ s) end) (removelast a) in
        settle (with_pq s q) (start s k x) (TOk o)
      else
        let c := c_heapify (mkC (set_nth (removelast a) i (last a ed)) (Some k) x false) in
        if cerr c then mkT (foreign_done (with_arr s (carr c))) TRaise
        else settle (with_arr s (carr c)) c (TOk o)
  end.

(* reschedule(key, new priority) of a regular entry: assign, heapify *)
Definition t_reschedule (s : pos) (o : Z) (p : Q) (k : nat) (x : E) : tres :=
  match find_last_index (Z.eqb o) (arr (pq_ s)) with
  | None => settle s (start s k x) TNone
  | Some i =>
      let e := nth i (arr (pq_ s)) ed in
      if (pclass (epri e) =? 0)%Z then settle s (start s k x) (TOk o) else
      let np := mkPV p (n_ins s) 0 1 in
      if pv_lt (epri e) np || pv_lt np (epri e) then
        let c := c_heapify (mkC (set_nth (arr (pq_ s)) i (mkE np (eseq e) (eobj e))) (Some k) x false) in
        if cerr c then mkT (foreign_done (with_arr s (carr c))) TRaise
        else settle (with_arr s (carr c)) c (TOk o)
      else settle s (start s k x) (TOk o)
  end.

(* iteration: list.sort() empties the list while sorting; an append made meanwhile is
   discarded and ValueError("list modified during sort") is raised after the sort *)
Definition t_iter_struck (s : pos) : tres :=
  mkT (foreign_done (with_pq s (pq_sort HPV (pq_ s)))) TRaise.
