(* Concrete instances of the queue models for execution: the heap primitives
   are HeapqModel's transcription of CPython's heapq. *)
From Coq Require Import QArith.
From Asynkit Require Import Base.Prelude Queue.HeapqModel Queue.PQ Queue.PosPQ.

Definition mk_heapimpl {P} (lt : P -> P -> bool) (d : P) : heapimpl P :=
  let elt := entry_lt lt in
  let ed := mkE d 0 0 in
  mkHI lt d (HeapqModel.heappush elt ed) (HeapqModel.heappop elt ed)
       (HeapqModel.heapify elt ed).

Definition HZ : heapimpl Z := mk_heapimpl Z.ltb 0%Z.
Definition HPV : heapimpl pv := mk_heapimpl pv_lt pv_dflt.
