(* C18: the wake-up theorems of Queue/WakeupProofs.v hold with the drain loop at the granularity of
   the code (one popleft per loop step, foreign threads free to run between two of them). *)
From Asynkit Require Import Base.Prelude Base.Obs Queue.Wakeup Queue.WakeupProofs Queue.WakeupFine.
Open Scope nat_scope.
Set Implicit Arguments.

(* ---- the invariant is kept by an item-wise drain step ---- *)
Lemma step_loop_f_inv s : WInv s -> WInv (step_loop_f s).
Proof.
  intros HI. pose proof HI as [H1 H2 H3 H4]. unfold step_loop_f.
  case_eq (lp s); intros Hl.
  - case_eq (inbox s).
    + intros Hi. rewrite Hi in H1.
      constructor; simpl; [exact H1 | exact H2 | exact H3 | intros h []].
    + intros h t Hi. rewrite Hi in H1.
      constructor; simpl.
      * rewrite <- H1, <- app_assoc. reflexivity.
      * exact H2.
      * exact H3.
      * intros h' Hin. right; left; reflexivity.
  - case_eq (blocked s); intros Hb; [exact HI|].
    constructor; simpl; [rewrite <- H1, app_assoc; reflexivity | exact H2 | exact H3 | auto].
Qed.

Lemma wstep_f_inv s t : WInv s -> WInv (wstep_f s t).
Proof. destruct t; simpl; auto using step_loop_f_inv, step_foreign_inv. Qed.

Theorem wrun_f_inv ts : forall s, WInv s -> WInv (wrun_f s ts).
Proof.
  induction ts as [|t r IH]; intros s H; simpl; auto.
  apply IH, wstep_f_inv, H.
Qed.

(* every reachable state of every schedule, any number of foreign threads, foreign steps allowed
   between any two popleft()s of a drain *)
Theorem wake_inv_f n start w ts : WInv (wrun_f (winit n start w) ts).
Proof. apply wrun_f_inv, winit_inv. Qed.

(* nothing is stranded (the state-level theorem of WakeupProofs applies to every fine state) *)
Theorem blocked_means_collected_f n start w ts :
  let s := wrun_f (winit n start w) ts in
  all_done s = true -> blocked s = true ->
  inbox s = [] /\ rdy s = [] /\ ran s = hist s /\ forall i, i < length (fts s) -> In i (ran s).
Proof. simpl. intros Hd Hb. apply blocked_means_collected; auto. apply wake_inv_f. Qed.

Theorem exactly_once_fifo_f n start w ts :
  let s := wrun_f (winit n start w) ts in
  ran s ++ rdy s ++ inbox s = hist s /\ NoDup (ran s) /\
  forall i, In i (ran s) -> started s i.
Proof.
  simpl. destruct (wake_inv_f n start w ts) as [H1 H2 H3 H4]. split; auto. split.
  - rewrite <- H1 in H2. apply NoDup_app_l in H2. exact H2.
  - intros i Hin. apply H3. rewrite <- H1. apply in_or_app. auto.
Qed.

(* ---- refinement: an uninterrupted item-wise drain IS the atomic drain of Queue/Wakeup.v ---- *)
Lemma wrun_f_app s a b : wrun_f s (a ++ b) = wrun_f (wrun_f s a) b.
Proof. unfold wrun_f. apply fold_left_app. Qed.

Lemma loop_alone_S k : loop_alone (S k) = TLoop :: loop_alone k.
Proof. reflexivity. Qed.

Lemma loop_alone_snoc k : loop_alone (k + 1) = loop_alone k ++ [TLoop].
Proof. unfold loop_alone. rewrite repeat_app. reflexivity. Qed.

Lemma drain_f_is_atomic m : forall s,
  lp s = LDrain -> length (inbox s) = m ->
  wrun_f s (loop_alone (m + 1)) = step_loop s.
Proof.
  induction m as [|m IH]; intros s Hl Hm.
  - destruct (inbox s) as [|h t] eqn:Hi; [|discriminate].
    simpl. unfold step_loop_f, step_loop. rewrite Hl, Hi, app_nil_r. reflexivity.
  - destruct (inbox s) as [|h t] eqn:Hi; [discriminate|].
    simpl in Hm. injection Hm as Hm.
    change (S m + 1) with (S (m + 1)). rewrite loop_alone_S.
    change (wrun_f s (TLoop :: loop_alone (m + 1)))
      with (wrun_f (step_loop_f s) (loop_alone (m + 1))).
    set (s1 := mkW t (rdy s ++ [h]) (ran s) (wake s) LDrain (fts s) (hist s)).
    assert (E : step_loop_f s = s1) by (unfold step_loop_f; rewrite Hl, Hi; reflexivity).
    rewrite E. rewrite (IH s1); [|reflexivity|exact Hm].
    unfold step_loop, s1. simpl. rewrite Hl, Hi, <- app_assoc. reflexivity.
Qed.

Lemma select_f_is_select s : lp s = LSelect -> step_loop_f s = step_loop s.
Proof. intros Hl. unfold step_loop_f, step_loop. rewrite Hl. reflexivity. Qed.

(* ---- liveness with the item-wise drain: once the submissions are complete the loop thread
        needs at most |inbox| + 3 of its own steps to have run every callback ---- *)
Lemma all_ran s :
  WInv s -> all_done s = true -> rdy s = [] -> inbox s = [] ->
  forall i, i < length (fts s) -> In i (ran s).
Proof.
  intros [H1 H2 H3 H4] Hd Hr Hi i Hlt. rewrite Hr, Hi in H1. simpl in H1.
  rewrite app_nil_r in H1. rewrite H1. apply H3.
  destruct (nth_error (fts s) i) as [f|] eqn:Hf.
  - exists f. split; auto. rewrite (@all_done_spec _ Hd _ _ Hf). congruence.
  - apply nth_error_None in Hf. lia.
Qed.

Lemma all_run_from_drain s :
  WInv s -> all_done s = true -> lp s = LDrain ->
  forall i, i < length (fts s) ->
    In i (ran (wrun_f s (loop_alone (length (inbox s) + 2)))).
Proof.
  intros HI Hd Hl i Hlt.
  replace (length (inbox s) + 2) with ((length (inbox s) + 1) + 1) by lia.
  rewrite loop_alone_snoc, wrun_f_app, (drain_f_is_atomic s Hl eq_refl).
  set (s1 := step_loop s).
  assert (HI1 : WInv s1) by (apply step_loop_inv; auto).
  assert (Hd1 : all_done s1 = true) by (unfold s1; rewrite step_loop_done; auto).
  assert (Hl1 : lp s1 = LSelect) by (unfold s1, step_loop; rewrite Hl; reflexivity).
  assert (Hi1 : inbox s1 = []) by (unfold s1, step_loop; rewrite Hl; reflexivity).
  change (wrun_f s1 [TLoop]) with (step_loop_f s1). rewrite (select_f_is_select _ Hl1).
  destruct (quiescent_after_select HI1 Hd1 Hl1 Hi1) as (A & B & C).
  apply all_ran; auto.
  - apply step_loop_inv; auto.
  - rewrite step_loop_done; auto.
  - rewrite step_loop_fts. unfold s1. rewrite step_loop_fts. auto.
Qed.

Theorem all_run_fine s :
  WInv s -> all_done s = true ->
  exists k, k <= length (inbox s) + 3 /\
    forall i, i < length (fts s) -> In i (ran (wrun_f s (loop_alone k))).
Proof.
  intros HI Hd. destruct (lp s) eqn:Hl.
  - exists (length (inbox s) + 2). split; [lia|]. apply all_run_from_drain; auto.
  - destruct (blocked s) eqn:Hb.
    + exists 0. split; [lia|]. simpl.
      destruct (blocked_means_collected HI Hd Hb) as (_ & _ & _ & A). exact A.
    + set (s1 := mkW (inbox s) [] (ran s ++ rdy s) false LDrain (fts s) (hist s)).
      assert (E1 : step_loop_f s = s1) by (unfold step_loop_f; rewrite Hl, Hb; reflexivity).
      assert (HI1 : WInv s1) by (rewrite <- E1; apply step_loop_f_inv; auto).
      assert (Hd1 : all_done s1 = true) by exact Hd.
      exists (S (length (inbox s) + 2)). split; [lia|].
      intros i Hlt. rewrite loop_alone_S.
      change (wrun_f s (TLoop :: loop_alone (length (inbox s) + 2)))
        with (wrun_f (step_loop_f s) (loop_alone (length (inbox s) + 2))).
      rewrite E1.
      apply (@all_run_from_drain s1 HI1 Hd1 eq_refl i Hlt).
Qed.

(* a foreign thread appending and waking in the middle of a drain: the handle is taken along by
   the same drain, runs in the same iteration, and the wake-up it wrote costs one empty iteration *)
Example mid_drain_append :
  let s := wrun_f (winit 3 LDrain false)
             [TForeign 0; TForeign 0; TForeign 1; TForeign 1;   (* two submissions *)
              TLoop;                                             (* drain takes 0 *)
              TForeign 2; TForeign 2;                            (* a third lands mid-drain *)
              TLoop; TLoop; TLoop;                               (* takes 1, takes 2, inbox empty *)
              TLoop] in                                          (* select: runs all three *)
  all_done s = true /\ ran s = [0; 1; 2] /\ inbox s = [] /\ rdy s = [] /\ wake s = false.
Proof. vm_compute. repeat split. Qed.
