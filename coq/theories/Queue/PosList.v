(* PosPriorityQueue (boosting disabled) as a list: [plist s] is the sorted list
   of the entries of the queue - the order in which popleft returns them.  Every
   operation of the wrapper is characterised on that list.  Generic in the heap
   implementation (any H meeting HeapSpec whose priority order is pv_lt). *)
From Coq Require Import QArith Lqa Sorting.Sorted Sorting.Permutation.
From Asynkit Require Import Base.Prelude Queue.PQ Queue.Order Queue.Heap Queue.ListFacts
  Queue.PQProofs Queue.PosPQ Queue.PosProofs Queue.PosInsert.
Local Open Scope nat_scope.

Section PosList.
Context (H : heapimpl pv) (Hplt : plt H = pv_lt) (HS : HeapSpec H).
Notation sort := (stable_sort H).
Notation SW := (SWH H Hplt).
Notation PInv := (PInv H).
Notation ins := (ins_stable H).

Definition plist (s : pos) : list (entry pv) := sort (arr (pq_ s)).

Lemma plist_perm s : Permutation (plist s) (arr (pq_ s)).
Proof. apply (stable_sort_perm H). Qed.

Lemma plist_sorted s : sorted (plt H) (plist s).
Proof. apply (stable_sort_sorted H SW). Qed.

Lemma plist_nodup s : PInv s -> NoDup (map (@eseq pv) (plist s)).
Proof.
  intros ((_ & Hnd & _) & _). eapply Permutation_NoDup; [|exact Hnd].
  apply Permutation_map, Permutation_sym, plist_perm.
Qed.

Lemma plist_strict s : PInv s ->
  StronglySorted (fun a b => entry_lt (plt H) a b = true) (plist s).
Proof. intros Hp. apply (sorted_strict SW); [apply plist_sorted | apply plist_nodup, Hp]. Qed.

Lemma plist_cls s : PInv s -> Forall cls_ok (plist s).
Proof.
  intros (_ & _ & Hc). eapply Permutation_Forall; [apply Permutation_sym, plist_perm | exact Hc].
Qed.

Lemma plist_counters s b : boost_off s -> plist (update_counters H s b) = plist s.
Proof. intros Hf. unfold plist. destruct (update_counters_off H s b Hf) as [E _]. rewrite E. reflexivity. Qed.

Lemma with_pq_id s : with_pq s (pq_ s) = s.
Proof. destruct s; reflexivity. Qed.

(* ---- append_pri ---- *)
Lemma append_plist s o p : PInv s ->
  plist (pos_append_pri H s o p) = ins (mkE (mkPV p (n_ins s) 0 1) (seqn (pq_ s)) o) (plist s).
Proof.
  intros (Hi & Hf & Hc). unfold pos_append_pri. rewrite plist_counters by exact Hf.
  unfold plist. simpl pq_.
  pose proof (add_refines H SW HS (pq_ s) (mkPV p (n_ins s) 0 1) o Hi) as R.
  apply (f_equal (@arr pv)) in R. exact R.
Qed.

(* ---- popleft ---- *)
Lemma popleft_plist s : PInv s ->
  match plist s with
  | [] => pos_popleft H s = None
  | e :: t => exists s', pos_popleft H s = Some (eobj e, s') /\ plist s' = t /\ PInv s'
  end.
Proof.
  intros Hp. pose proof Hp as (Hi & Hf & Hc).
  pose proof (pop_refines H SW HS (pq_ s) Hi) as Hr.
  unfold ref_popentry in Hr. simpl arr in Hr. fold (plist s) in Hr.
  unfold pos_popleft.
  destruct (pq_popentry H (pq_ s)) as [[e q]|] eqn:Epop; simpl in Hr.
  - destruct (plist s) as [|e0 t]; [discriminate|].
    assert (He : e0 = e) by congruence. subst e0.
    assert (Hq : sort (arr q) = t).
    { pose proof (f_equal (fun x => match x with Some (_, r) => arr r | None => [] end) Hr) as Hq.
      simpl in Hq. exact Hq. }
    exists (update_counters H (with_pq s q) false). split; [reflexivity|]. split.
    + rewrite plist_counters by exact Hf. exact Hq.
    + eapply (popleft_inv H Hplt HS s (eobj e)); eauto. unfold pos_popleft. rewrite Epop. reflexivity.
  - destruct (plist s); [reflexivity | discriminate].
Qed.

(* ---- find ---- *)
Lemma find_plist s key rm : PInv s -> KeyUniq key (arr (pq_ s)) ->
  match find (okey key) (plist s) with
  | None => pos_find H s key rm = None
  | Some e => exists s', pos_find H s key rm = Some (eobj e, s') /\ PInv s' /\
                (if rm then plist s' = remove_first (okey key) (plist s) else s' = s)
  end.
Proof.
  intros Hp Hu. pose proof Hp as (Hi & Hf & Hc).
  pose proof (find_refines H SW HS (pq_ s) key rm Hi Hu) as Hr.
  unfold ref_find in Hr. simpl arr in Hr. fold (plist s) in Hr.
  unfold pos_find.
  destruct (pq_find H (pq_ s) key rm) as [[e q]|] eqn:Ef; simpl in Hr.
  - destruct (find (okey key) (plist s)) as [e0|]; [|discriminate].
    assert (He : e0 = e) by congruence. subst e0.
    exists (with_pq s q). split; [reflexivity|]. split.
    + eapply (find_inv_pos H HS s key rm (eobj e)); eauto. unfold pos_find. rewrite Ef. reflexivity.
    + destruct rm.
      * pose proof (f_equal (fun x => match x with Some (_, r) => arr r | None => [] end) Hr) as Hq.
        simpl in Hq. unfold plist. simpl pq_. rewrite Hq.
        unfold reset_if_empty. reflexivity.
      * destruct (find_inv H HS _ _ _ _ _ Hi Ef) as (_ & _ & _ & ->). apply with_pq_id.
  - destruct (find (okey key) (plist s)); [discriminate | reflexivity].
Qed.

(* ---- remove ---- *)
Lemma remove_refines_ku q o :
  Inv H q -> KeyUniq (Z.eqb o) (arr q) -> lift_abs H (pq_remove H q o) = ref_remove (pq_sort H q) o.
Proof.
  intros Hi Hu. unfold ref_remove. simpl arr. simpl seqn.
  destruct (find_index (Z.eqb o) (arr q)) as [i|] eqn:Hfi.
  - destruct (remove_some H SW HS q o i Hi Hfi) as (a' & E & Hp & Hh). rewrite E. simpl.
    destruct (find_index_some _ _ _ (edflt H) Hfi) as [Hlt Hk].
    set (e := nth i (arr q) (edflt H)) in *.
    destruct Hi as (_ & Hnd & _).
    destruct (removed_abs H SW (okey (Z.eqb o)) _ _ _ Hnd Hp Hk) as [Hf Hs].
    { intros x Hx Hkx. apply Hu; auto. apply nth_In; auto. }
    rewrite Hf, (sort_reset H), Hs. reflexivity.
  - rewrite (remove_none H) by auto. simpl.
    rewrite (find_sorted_none H); auto. apply find_index_none; auto.
Qed.

Lemma remove_plist s o : PInv s -> KeyUniq (Z.eqb o) (arr (pq_ s)) ->
  match find (okey (Z.eqb o)) (plist s) with
  | None => pos_remove H s o = None
  | Some e => exists s', pos_remove H s o = Some s' /\ PInv s' /\
                plist s' = remove_first (okey (Z.eqb o)) (plist s)
  end.
Proof.
  intros Hp Hu. pose proof Hp as (Hi & Hf & Hc).
  pose proof (remove_refines_ku (pq_ s) o Hi Hu) as Hr.
  unfold ref_remove in Hr. simpl arr in Hr. fold (plist s) in Hr.
  unfold pos_remove.
  destruct (pq_remove H (pq_ s) o) as [[p q]|] eqn:Ef; simpl in Hr.
  - destruct (find (okey (Z.eqb o)) (plist s)) as [e0|]; [|discriminate].
    exists (update_counters H (with_pq s q) false). split; [reflexivity|]. split.
    + eapply (remove_inv_pos H Hplt HS s o); eauto. unfold pos_remove. rewrite Ef. reflexivity.
    + rewrite plist_counters by exact Hf.
      pose proof (f_equal (fun x => match x with Some (_, r) => arr r | None => [] end) Hr) as Hq.
      simpl in Hq. unfold plist. simpl pq_. rewrite Hq. unfold reset_if_empty. reflexivity.
  - destruct (find (okey (Z.eqb o)) (plist s)); [discriminate | reflexivity].
Qed.

(* ---- reschedule ---- *)
Lemma reschedule_plist s key np : PInv s -> KeyUniq key (arr (pq_ s)) ->
  let newp := mkPV np (n_ins s) 0 1 in
  match find (okey key) (plist s) with
  | None => pos_reschedule H s key np = None
  | Some e =>
      exists s', pos_reschedule H s key np = Some (eobj e, s') /\ PInv s' /\
        if (pclass (epri e) =? 0)%Z then s' = s
        else if pv_lt (epri e) newp || pv_lt newp (epri e)
             then plist s' = ins (mkE newp (eseq e) (eobj e)) (remove_first (okey key) (plist s))
             else s' = s
  end.
Proof.
  intros Hp Hu newp. pose proof Hp as (Hi & Hf & Hc).
  pose proof (find_refines H SW HS (pq_ s) key false Hi Hu) as Hr.
  unfold ref_find in Hr. simpl arr in Hr. fold (plist s) in Hr.
  unfold pos_reschedule.
  destruct (pq_find H (pq_ s) key false) as [[e q]|] eqn:Ef; simpl in Hr.
  2: { destruct (find (okey key) (plist s)); [discriminate | reflexivity]. }
  destruct (find (okey key) (plist s)) as [e0|] eqn:Efs; [|discriminate].
  assert (He : e0 = e) by congruence. subst e0.
  destruct (pclass (epri e) =? 0)%Z eqn:Ecl.
  { exists s. auto. }
  pose proof (resched_refines H SW HS (pq_ s) key newp Hi Hu) as Hr2.
  unfold ref_reschedule in Hr2. simpl arr in Hr2. simpl seqn in Hr2. fold (plist s) in Hr2.
  rewrite Efs in Hr2. rewrite Hplt in Hr2.
  unfold pos_reschedule_reg. fold newp.
  destruct (pq_reschedule H (pq_ s) key newp) as [[o q2]|] eqn:Er; simpl in Hr2.
  2: { destruct (pv_lt (epri e) newp || pv_lt newp (epri e)); discriminate. }
  assert (Ho : o = eobj e).
  { destruct (pv_lt (epri e) newp || pv_lt newp (epri e)); congruence. }
  subst o. exists (with_pq s q2). split; [reflexivity|]. split.
  { eapply (reschedule_reg_inv_pos H HS s key np (eobj e)); eauto.
    unfold pos_reschedule_reg. fold newp. rewrite Er. reflexivity. }
  destruct (pv_lt (epri e) newp || pv_lt newp (epri e)) eqn:Ed.
  - pose proof (f_equal (fun x => match x with Some (_, r) => arr r | None => [] end) Hr2) as Hq.
    simpl in Hq. exact Hq.
  - (* unchanged: pq_reschedule returned the queue itself *)
    destruct (find_last_index key (arr (pq_ s))) as [i|] eqn:Hfi.
    + rewrite (resched_some H (pq_ s) key newp i Hfi) in Er.
      assert (Hei : nth i (arr (pq_ s)) (edflt H) = e).
      { destruct (find_some H HS (pq_ s) key i Hi Hfi) as (E0 & _). rewrite E0 in Ef. congruence. }
      rewrite Hei, Hplt, Ed in Er. inversion Er; subst. apply with_pq_id.
    + rewrite (resched_none H) in Er by auto. discriminate.
Qed.

(* ---- __iter__ ---- *)
Lemma iter_plist s : PInv s ->
  fst (pos_iter H s) = map (@eobj pv) (plist s) /\ plist (snd (pos_iter H s)) = plist s.
Proof.
  intros ((_ & Hnd & _) & _). unfold pos_iter, plist. simpl. split; auto.
  apply (sort_idem H SW); auto.
Qed.

(* ---- insert(position, obj) ---- *)
Lemma fold_add_sorted' p os : forall q pre rest,
  Inv H q -> sort (arr q) = pre ++ rest ->
  Forall (fun x => pv_lt p (epri x) = false) pre -> below p rest ->
  pv_lt p p = false ->
  exists news,
    sort (arr (fold_left (fun q o => pq_add H q p o) os q)) = (pre ++ news) ++ rest /\
    map (@eobj pv) news = os /\ Forall (fun e => epri e = p) news.
Proof.
  induction os as [|o os IH]; intros q pre rest Hi Es Fp Fr Hpp.
  - exists []. simpl. rewrite app_nil_r. auto.
  - simpl fold_left.
    destruct (add_position H SW HS q p o Hi) as (l1 & l2 & E1 & E2 & F1 & F2).
    simpl arr in E1, E2. rewrite Hplt in F1, F2.
    rewrite Es in E1. symmetry in E1.
    destruct (split_unique (fun x => pv_lt p (epri x)) _ _ _ _ E1 F1 F2 Fp Fr) as [-> ->].
    set (e := mkE p (seqn q) o) in *.
    destruct (IH (pq_add H q p o) (pre ++ [e]) rest) as (news & En & Em & Ep); auto.
    + apply (add_inv H HS); auto.
    + change (arr (pq_add H q p o)) with (heappush H (arr q) e). rewrite E2. rewrite <- app_assoc. reflexivity.
    + apply Forall_app. split; auto.
    + exists (e :: news). rewrite En. split; [|split; [simpl; congruence | constructor; auto]].
      rewrite <- !app_assoc. reflexivity.
Qed.

(* the new object and the promoted ones become positional (class 0) entries that
   sit, in the requested order, in front of everything that was left *)
Theorem insert_plist s k o :
  PInv s ->
  exists news,
    plist (pos_insert H s k o) = news ++ skipn k (plist s) /\
    map (@eobj pv) news = map (@eobj pv) (firstn k (plist s)) ++ [o] /\
    Forall (fun e => pclass (epri e) = 0%Z) news.
Proof.
  intros Hp. set (L := plist s). unfold pos_insert.
  destruct (promote_spec H Hplt HS k s [] Hp) as (s1 & E & Hp1 & Hs1).
  fold (plist s) in E, Hs1. fold L in E, Hs1. fold (plist s1) in Hs1.
  rewrite E. simpl app.
  pose proof Hp1 as (Hi1 & Hf1 & Hc1).
  set (pval := if Nat.leb k (length L) then _ else _).
  set (p := mkPV pval (n_ins s1) 0 0).
  rewrite plist_counters by exact Hf1.
  unfold plist at 1. simpl pq_.
  assert (Hbelow : below p (skipn k L)).
  { rewrite <- Hs1. unfold below. rewrite Forall_forall. intros x Hx.
    assert (Hcx : cls_ok x).
    { rewrite Forall_forall in Hc1. apply Hc1.
      eapply Permutation_in; [apply plist_perm | exact Hx]. }
    apply pv_lt_true. unfold p. simpl pclass.
    destruct Hcx as [[Hx0 Hxb]|Hx1]; [|left; lia].
    right. split; [lia|].
    pose proof (peek_refines H SW (pq_ s1) Hi1) as Hpk.
    unfold pq_peek in Hpk at 2. simpl arr in Hpk. fold (plist s1) in Hpk.
    pose proof (plist_sorted s1) as Hsorted.
    destruct (plist s1) as [|h t] eqn:Esort; [destruct Hx|].
    simpl in Hpk.
    assert (Hhx : ele (plt H) h x).
    { destruct Hx as [<-|Hx]; [apply (ele_refl SW)|].
      destruct (sorted_cons_inv Hsorted) as [_ Hall]. rewrite Forall_forall in Hall. auto. }
    unfold ele in Hhx. apply (elt_false SW) in Hhx. rewrite Hplt in Hhx.
    assert (Hch : cls_ok h).
    { rewrite Forall_forall in Hc1. apply Hc1.
      eapply Permutation_in; [apply plist_perm|]. rewrite Esort. simpl; auto. }
    assert (Hk : Nat.leb k (length L) = true).
    { destruct (Nat.leb k (length L)) eqn:Ek; auto. apply Nat.leb_gt in Ek.
      rewrite skipn_all2 in Hs1 by lia. discriminate. }
    unfold pval. rewrite Hk, Hpk.
    assert (Hh0 : pclass (epri h) = 0%Z /\ (pv_priority (epri h) <= pv_priority (epri x))%Q).
    { destruct Hhx as [Hlt | (Hxh & Hhx' & _)].
      - apply pv_lt_true in Hlt. destruct Hch as [[? _]|?]; destruct Hlt as [?|[? ?]]; try lia.
        split; auto. lra.
      - apply pv_lt_false in Hxh, Hhx'. destruct Hch as [[? _]|?];
          destruct Hxh as [?|[? ?]]; destruct Hhx' as [?|[? ?]]; try lia. split; auto. }
    destruct Hh0 as [Hh0 Hle]. rewrite Hh0. simpl.
    destruct Hch as [[_ Hhb]|?]; [|lia].
    unfold pv_priority in *. simpl. rewrite Hhb in Hle. lra. }
  destruct (fold_add_sorted' p (map (@eobj pv) (firstn k L) ++ [o]) (pq_ s1) [] (skipn k L))
    as (news & En & Em & Ep); auto.
  { apply (sw_irrefl pv_lt_strict_weak). }
  simpl app in En. exists news. split; [exact En|]. split; [exact Em|].
  eapply Forall_impl; [|exact Ep]. intros a ->. reflexivity.
Qed.

(* ---- popleft returns a minimal entry ---- *)
Theorem popleft_min s o s' :
  PInv s -> pos_popleft H s = Some (o, s') ->
  exists e, In e (arr (pq_ s)) /\ eobj e = o /\
    (forall x, In x (arr (pq_ s)) -> entry_lt (plt H) x e = false) /\
    (forall x, In x (arr (pq_ s)) -> x = e \/ entry_lt (plt H) e x = true) /\
    Permutation (arr (pq_ s)) (e :: arr (pq_ s')) /\ PInv s'.
Proof.
  intros Hp E. pose proof (popleft_plist s Hp) as Hl.
  pose proof (plist_strict s Hp) as Hst. pose proof (plist_perm s) as Hperm.
  destruct (plist s) as [|e t] eqn:El; [congruence|].
  destruct Hl as (s1 & E1 & Ht & Hp1). rewrite E in E1. inversion E1; subst o s1; clear E1.
  assert (Hall : Forall (fun b => entry_lt (plt H) e b = true) t) by (inversion Hst; auto).
  rewrite Forall_forall in Hall.
  assert (Hin : forall x, In x (arr (pq_ s)) -> x = e \/ In x t).
  { intros x Hx. apply (Permutation_in _ (Permutation_sym Hperm)) in Hx. destruct Hx; auto. }
  exists e. split; [eapply Permutation_in; [exact Hperm|]; simpl; auto|]. split; [reflexivity|].
  split; [|split; [|split]]; auto.
  - intros x Hx. destruct (Hin x Hx) as [->|Hx']; [apply (elt_irrefl SW)|].
    apply (elt_asym SW). auto.
  - intros x Hx. destruct (Hin x Hx) as [->|Hx']; auto.
  - eapply perm_trans; [apply Permutation_sym, Hperm|]. apply perm_skip.
    rewrite <- Ht. apply plist_perm.
Qed.

End PosList.
