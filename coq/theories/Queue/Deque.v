(* Executable model of the collections.deque operations asynkit's default-loop
   helpers rely on, and of those helpers themselves, transcribed branch by
   branch:
     tools.py:54-76         deque_pop
     loop/default.py:107-118 queue_find
     loop/default.py:121-128 queue_remove
     loop/default.py:131-147 call_pos
   A deque is the list of its elements, head first.  Handles are identified by
   integers (the same integer = the same object, `is`).  No proofs here. *)
From Asynkit Require Import Base.Prelude.

Inductive exn := IndexError | ValueError | AssertionError.

(* result of a call that may raise: the value and the deque afterwards *)
Inductive outcome (A R : Type) :=
| Ok (r : R) (d : list A)
| Raise (e : exn) (d : list A).      (* d: the deque as the exception left it *)
Arguments Ok {A R}. Arguments Raise {A R}.

Section Deque.
Context {A : Type}.
Notation deque := (list A).

Definition dlen (d : deque) : Z := Z.of_nat (length d).

(* deque.rotate(n): n steps to the right, negative = to the left; no-op on an
   empty deque; n is taken modulo the length *)
Definition rotate (d : deque) (n : Z) : deque :=
  match d with
  | [] => []
  | _ =>
      let len := length d in
      let k := Z.to_nat (n mod Z.of_nat len) in     (* 0 <= k < len *)
      skipn (len - k) d ++ firstn (len - k) d
  end.

Definition popleft (d : deque) : option (A * deque) :=
  match d with [] => None | x :: t => Some (x, t) end.

Fixpoint pop (d : deque) : option (A * deque) :=      (* from the right *)
  match d with
  | [] => None
  | x :: t => match pop t with
              | None => Some (x, [])
              | Some (y, t') => Some (y, x :: t')
              end
  end.

Definition append (d : deque) (x : A) : deque := d ++ [x].
Definition appendleft (d : deque) (x : A) : deque := x :: d.

(* deque.insert(i, x) (Modules/_collectionsmodule.c deque_insert):
     i >= len            -> append
     i <= -len or i == 0 -> appendleft
     otherwise           -> rotate(-i); append(x) if i < 0 else appendleft(x); rotate(i) *)
Definition dinsert (d : deque) (i : Z) (x : A) : deque :=
  let n := dlen d in
  if (n <=? i)%Z then append d x
  else if ((i <=? - n) || (i =? 0))%Z then appendleft d x
  else if (i <? 0)%Z then rotate (append (rotate d (- i)) x) i
  else rotate (appendleft (rotate d (- i)) x) i.

(* ---- tools.deque_pop, line by line ---- *)
Definition deque_pop (d : deque) (pos : Z) : outcome A A :=
  let ld := dlen d in
  let neg := (pos <? 0)%Z in
  let pos := if neg then (pos + ld)%Z else pos in              (* pos += ld *)
  if neg && (pos <? 0)%Z then Raise IndexError d
  else if (pos <? Z.shiftr ld 2)%Z then                        (* closer to head *)
    let d1 := rotate d (- pos) in
    match popleft d1 with
    | None => Raise IndexError d1
    | Some (r, d2) => Ok r (rotate d2 pos)
    end
  else if (pos <? ld)%Z then                                   (* pop of the tail end *)
    let pos := (pos - (ld - 1))%Z in
    let d1 := rotate d (- pos) in
    match pop d1 with
    | None => Raise IndexError d1
    | Some (r, d2) => Ok r (rotate d2 pos)
    end
  else Raise IndexError d.

(* `for i, handle in enumerate(reversed(queue))`: the index, counted from the
   END, of the first element satisfying key *)
Fixpoint scan (key : A -> bool) (l : list A) (i : nat) : option (nat * A) :=
  match l with
  | [] => None
  | h :: t => if key h then Some (i, h) else scan key t (S i)
  end.
Definition rscan (key : A -> bool) (d : deque) : option (nat * A) := scan key (rev d) 0.

Context (same : A -> A -> bool).        (* `is` *)

(* queue_find(queue, key, remove) -> Optional[Handle] *)
Definition queue_find (d : deque) (key : A -> bool) (remove : bool) : outcome A (option A) :=
  match rscan key d with
  | None => Ok None d
  | Some (i, h) =>
      if remove then
        match deque_pop d (dlen d - Z.of_nat i - 1) with
        | Raise e d' => Raise e d'
        | Ok popped d' => if same popped h then Ok (Some h) d' else Raise AssertionError d'
        end
      else Ok (Some h) d
  end.

(* queue_remove(queue, in_handle) *)
Definition queue_remove (d : deque) (h : A) : outcome A unit :=
  match rscan (same h) d with
  | None => Raise ValueError d
  | Some (i, _) =>
      match deque_pop d (dlen d - Z.of_nat i - 1) with
      | Raise e d' => Raise e d'
      | Ok _ d' => Ok tt d'
      end
  end.

(* default.call_pos(loop, pos, callback): call_soon appends the new handle,
   it is popped from the right again and inserted at pos *)
Definition call_pos (d : deque) (pos : Z) (h : A) : outcome A A :=
  let d1 := append d h in                   (* loop.call_soon *)
  match pop d1 with
  | None => Raise IndexError d1
  | Some (h2, d2) =>
      if same h2 h then Ok h (dinsert d2 pos h) else Raise AssertionError d2
  end.

End Deque.

(* Python's list semantics, the reference: list.pop(pos), list.insert(pos, x) *)
Definition norm_index (len pos : Z) : Z := if (pos <? 0)%Z then (pos + len)%Z else pos.

Definition list_pop {A} (l : list A) (pos : Z) : option (A * list A) :=
  let p := norm_index (Z.of_nat (length l)) pos in
  if ((0 <=? p) && (p <? Z.of_nat (length l)))%Z
  then match nth_error l (Z.to_nat p) with
       | Some x => Some (x, remove_nth l (Z.to_nat p))
       | None => None
       end
  else None.

(* clamp as list.insert does *)
Definition ins_index (len pos : Z) : nat :=
  let p := norm_index len pos in
  Z.to_nat (Z.max 0 (Z.min p len)).

Definition list_insert {A} (l : list A) (pos : Z) (x : A) : list A :=
  insert_nth l (ins_index (Z.of_nat (length l)) pos) x.
