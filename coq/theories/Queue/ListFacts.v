(* Small list lemmas used by the queue proofs (positional updates, searching,
   permutations). Stdlib only. *)
From Coq Require Import Sorting.Permutation.
From Asynkit Require Import Base.Prelude.

Section ListFacts.
Context {A : Type}.

Lemma NoDup_app_intro (l1 l2 : list A) :
  NoDup l1 -> NoDup l2 -> (forall x, In x l1 -> ~ In x l2) -> NoDup (l1 ++ l2).
Proof.
  induction l1 as [|a l1 IH]; simpl; intros H1 H2 Hd; auto.
  inversion H1; subst. constructor.
  - rewrite in_app_iff. intros [Hin|Hin]; auto. apply (Hd a); auto.
  - apply IH; auto.
Qed.

Lemma NoDup_app_l (l1 l2 : list A) : NoDup (l1 ++ l2) -> NoDup l1.
Proof.
  induction l1 as [|a l1 IH]; simpl; intros Hn; [constructor|].
  inversion Hn; subst. constructor; auto. rewrite in_app_iff in *. tauto.
Qed.

Lemma NoDup_app_r (l1 l2 : list A) : NoDup (l1 ++ l2) -> NoDup l2.
Proof.
  induction l1 as [|a l1 IH]; simpl; intros Hn; auto. inversion Hn; auto.
Qed.

Lemma NoDup_map_inj_in {B} (g : A -> B) (l : list A) x y :
  NoDup (map g l) -> In x l -> In y l -> g x = g y -> x = y.
Proof.
  induction l as [|a l IH]; simpl; intros Hn Hx Hy Hg; [tauto|].
  inversion Hn as [|? ? Hnin Hn']; subst.
  destruct Hx as [->|Hx], Hy as [->|Hy]; auto.
  - exfalso. apply Hnin. rewrite Hg. apply in_map; auto.
  - exfalso. apply Hnin. rewrite <- Hg. apply in_map; auto.
Qed.

(* positional updates *)
Lemma perm_remove_nth (l : list A) i d :
  i < length l -> Permutation l (nth i l d :: remove_nth l i).
Proof.
  revert i. induction l as [|h t IH]; intros [|i] Hi; simpl in *; try lia; auto.
  eapply perm_trans; [apply perm_skip, (IH i); lia | apply perm_swap].
Qed.

Lemma perm_set_nth (l : list A) i x :
  i < length l -> Permutation (set_nth l i x) (x :: remove_nth l i).
Proof.
  revert i. induction l as [|h t IH]; intros [|i] Hi; simpl in *; try lia; auto.
  eapply perm_trans; [apply perm_skip, (IH i); lia | apply perm_swap].
Qed.

Lemma set_nth_nth_id (l : list A) i d : i < length l -> set_nth l i (nth i l d) = l.
Proof.
  revert i. induction l as [|h t IH]; intros [|i] Hi; simpl in *; try lia; auto.
  rewrite IH by lia. auto.
Qed.

Lemma map_set_nth {B} (f : A -> B) (l : list A) i x :
  map f (set_nth l i x) = set_nth (map f l) i (f x).
Proof.
  revert i. induction l as [|h t IH]; intros [|i]; simpl; auto. rewrite IH. auto.
Qed.

Lemma nth_set_nth_same (l : list A) i x d : i < length l -> nth i (set_nth l i x) d = x.
Proof.
  revert i. induction l as [|h t IH]; intros [|i] Hi; simpl in *; try lia; auto.
  apply IH. lia.
Qed.

Lemma last_nth (l : list A) d : last l d = nth (length l - 1) l d.
Proof.
  induction l as [|a l IH]; auto.
  destruct l as [|b l]; auto.
  change (last (a :: b :: l) d) with (last (b :: l) d). rewrite IH. simpl.
  rewrite Nat.sub_0_r. auto.
Qed.

Lemma removelast_length (l : list A) : length (removelast l) = length l - 1.
Proof.
  destruct l as [|a l]; auto.
  assert (Hne : a :: l <> []) by discriminate.
  pose proof (f_equal (@length A) (app_removelast_last a Hne)) as E.
  rewrite app_length in E. simpl length in E at 1 3. simpl length at 2. lia.
Qed.

Lemma nth_removelast (l : list A) i d :
  i < length l - 1 -> nth i (removelast l) d = nth i l d.
Proof.
  intros Hi. destruct l as [|a l]; auto.
  assert (Hne : a :: l <> []) by discriminate.
  rewrite (app_removelast_last d Hne) at 2.
  rewrite app_nth1; auto. rewrite removelast_length. auto.
Qed.

Lemma perm_removelast (l : list A) d :
  l <> [] -> Permutation l (last l d :: removelast l).
Proof.
  intros Hne. rewrite (app_removelast_last d Hne) at 1.
  apply Permutation_sym, Permutation_cons_append.
Qed.

(* self._pq[i] = self._pq.pop(): position i replaced by the tail element *)
Lemma perm_replace_with_tail (l : list A) i d :
  i < length l - 1 ->
  Permutation l (nth i l d :: set_nth (removelast l) i (last l d)).
Proof.
  intros Hi.
  assert (Hne : l <> []) by (destruct l; simpl in *; [lia | discriminate]).
  eapply perm_trans; [apply (perm_removelast l d Hne)|].
  assert (Hi' : i < length (removelast l)) by (rewrite removelast_length; auto).
  eapply perm_trans; [apply perm_skip, (perm_remove_nth (removelast l) i d Hi')|].
  rewrite nth_removelast by auto.
  eapply perm_trans; [apply perm_swap|]. apply perm_skip.
  apply Permutation_sym, perm_set_nth; auto.
Qed.

(* searching *)
Fixpoint remove_first (f : A -> bool) (l : list A) : list A :=
  match l with
  | [] => []
  | x :: t => if f x then t else x :: remove_first f t
  end.

Lemma find_none_iff (f : A -> bool) l : find f l = None <-> forall x, In x l -> f x = false.
Proof.
  split; [apply find_none|].
  induction l as [|a l IH]; simpl; intros Hall; auto.
  rewrite (Hall a) by auto. apply IH. auto.
Qed.

Lemma find_perm_remove (f : A -> bool) l e :
  find f l = Some e -> Permutation l (e :: remove_first f l).
Proof.
  induction l as [|a l IH]; simpl; [discriminate|].
  destruct (f a).
  - intros Hs. inversion Hs; subst. auto.
  - intros Hs. eapply perm_trans; [apply perm_skip, IH, Hs | apply perm_swap].
Qed.

Lemma find_unique (f : A -> bool) l e :
  In e l -> f e = true -> (forall x, In x l -> f x = true -> x = e) -> find f l = Some e.
Proof.
  induction l as [|a l IH]; simpl; intros Hin Hfe Hu; [tauto|].
  destruct (f a) eqn:Hfa.
  - f_equal. apply Hu; auto.
  - destruct Hin as [->|Hin]; [congruence|]. apply IH; auto.
Qed.

Lemma remove_first_incl (f : A -> bool) l x : In x (remove_first f l) -> In x l.
Proof.
  induction l as [|a l IH]; simpl; auto. destruct (f a); simpl; intuition.
Qed.

Lemma remove_first_none (f : A -> bool) l :
  (forall x, In x l -> f x = false) -> remove_first f l = l.
Proof.
  induction l as [|a l IH]; simpl; intros Hall; auto.
  rewrite (Hall a) by auto. rewrite IH; auto.
Qed.

Lemma existsb_perm (f : A -> bool) l l' : Permutation l l' -> existsb f l = existsb f l'.
Proof.
  intros Hp. destruct (existsb f l) eqn:E1; symmetry.
  - apply existsb_exists in E1. destruct E1 as (x & Hx & Hfx).
    apply existsb_exists. exists x. split; auto. eapply Permutation_in; eauto.
  - destruct (existsb f l') eqn:E2; auto.
    apply existsb_exists in E2. destruct E2 as (x & Hx & Hfx).
    assert (E : existsb f l = true).
    { apply existsb_exists. exists x. split; auto.
      eapply Permutation_in; [apply Permutation_sym|]; eauto. }
    congruence.
Qed.

End ListFacts.
