(* Correspondence interface for the deque-level helpers (C08, stream `deque`):
   an initial deque of handle ids and a list of operations; after every
   operation the result (or exception) and the complete contents are observed. *)
From Asynkit Require Import Base.Prelude Base.Obs Queue.Deque.

Inductive dop :=
| DPop (pos : Z)                      (* tools.deque_pop(d, pos) *)
| DFind (m r : Z) (rm : bool)         (* default.queue_find(d, lambda h: h.v % m == r, rm) *)
| DRemove (h : Z)                     (* default.queue_remove(d, obj(h)) *)
| DCallPos (pos : Z) (h : Z)          (* default.call_pos(loop, pos, cb): the new handle is h *)
| DInsert (pos : Z) (h : Z)           (* d.insert(pos, obj(h)) *)
| DRotate (n : Z)
| DAppend (h : Z) | DPopleft | DPopRight.

Definition exn_code (e : exn) : Z :=
  match e with IndexError => 1 | ValueError => 2 | AssertionError => 3 end.
Definition dok (v : obs) : obs := OL [OI 0; v].
Definition derr (e : exn) : obs := OL [OI 1; OI (exn_code e)].

Definition dstep (d : list Z) (op : dop) : obs * list Z :=
  match op with
  | DPop pos => match deque_pop d pos with
                | Ok r d' => (dok (OI r), d') | Raise e d' => (derr e, d') end
  | DFind m r rm =>
      match queue_find Z.eqb d (fun h => (h mod m =? r)%Z) rm with
      | Ok r d' => (dok (oopt OI r), d') | Raise e d' => (derr e, d') end
  | DRemove h => match queue_remove Z.eqb d h with
                 | Ok _ d' => (dok (OL []), d') | Raise e d' => (derr e, d') end
  | DCallPos pos h => match call_pos Z.eqb d pos h with
                      | Ok r d' => (dok (OI r), d') | Raise e d' => (derr e, d') end
  | DInsert pos h => (dok (OL []), dinsert d pos h)
  | DRotate n => (dok (OL []), rotate d n)
  | DAppend h => (dok (OL []), append d h)
  | DPopleft => match popleft d with
                | Some (x, d') => (dok (OI x), d') | None => (derr IndexError, d) end
  | DPopRight => match pop d with
                 | Some (x, d') => (dok (OI x), d') | None => (derr IndexError, d) end
  end.

Fixpoint drun_from (d : list Z) (ops : list dop) : list obs :=
  match ops with
  | [] => []
  | op :: t => let '(o, d') := dstep d op in OL [o; olist OI d'] :: drun_from d' t
  end.

Definition deque_run (i : list Z * list dop) : obs := OL (drun_from (fst i) (snd i)).
