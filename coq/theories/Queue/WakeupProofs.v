(* C18: no wake-up is lost and every submission runs exactly once, for EVERY interleaving of
   any number of foreign call_soon_threadsafe calls with the loop thread (Queue/Wakeup.v). *)
From Asynkit Require Import Base.Prelude Base.Obs Queue.Wakeup.
Open Scope nat_scope.
Set Implicit Arguments.

Lemma nth_error_set_nth_eq {A} (l : list A) i x :
  i < length l -> nth_error (set_nth l i x) i = Some x.
Proof. revert i; induction l as [|h t IH]; intros [|i] H; simpl in *; try lia; auto. apply IH. lia. Qed.

Lemma nth_error_set_nth_neq {A} (l : list A) i j x :
  i <> j -> nth_error (set_nth l i x) j = nth_error l j.
Proof.
  revert i j; induction l as [|h t IH]; intros [|i] [|j] H; simpl; auto; try congruence.
Qed.

Lemma nth_error_lt {A} (l : list A) i x : nth_error l i = Some x -> i < length l.
Proof. intros H. apply nth_error_Some. congruence. Qed.

Lemma NoDup_app_single {A} (l : list A) x : NoDup l -> ~ In x l -> NoDup (l ++ [x]).
Proof.
  induction l as [|h t IH]; intros Hn Hx; simpl.
  - constructor; [intros []|constructor].
  - inversion Hn as [|? ? Hh Ht]; subst. constructor.
    + rewrite in_app_iff. intros [H|[H|[]]]; [contradiction|]. subst. apply Hx. left; reflexivity.
    + apply IH; auto. intros H. apply Hx. right; exact H.
Qed.

Lemma NoDup_app_l {A} (l r : list A) : NoDup (l ++ r) -> NoDup l.
Proof.
  induction l as [|h t IH]; intros H; [constructor|].
  simpl in H. inversion H as [|? ? Hh Ht]; subst. constructor.
  - intros Hin. apply Hh. apply in_or_app. auto.
  - apply IH. exact Ht.
Qed.

Definition started (s : wst) (i : nat) : Prop :=
  exists f, nth_error (fts s) i = Some f /\ f <> FStart.

Record WInv (s : wst) : Prop := {
  w_hist : ran s ++ rdy s ++ inbox s = hist s;
  w_nodup : NoDup (hist s);
  w_started : forall i, In i (hist s) <-> started s i;
  (* THE wake-up invariant: whatever sits in the inbox will be collected - the self-pipe is
     readable, or the loop is about to drain, or the submitting thread has not yet written *)
  w_wake : forall h, In h (inbox s) ->
             wake s = true \/ lp s = LDrain \/ nth_error (fts s) h = Some FAppended }.

Lemma winit_inv n start w : WInv (winit n start w).
Proof.
  constructor; simpl.
  - reflexivity.
  - constructor.
  - intros i. split; [intros []|]. intros (f & Hf & Hn).
    apply nth_error_In in Hf. apply repeat_spec in Hf. congruence.
  - intros h [].
Qed.

Lemma step_loop_inv s : WInv s -> WInv (step_loop s).
Proof.
  intros HI. pose proof HI as [H1 H2 H3 H4]. unfold step_loop.
  case_eq (lp s); intros Hl.
  - constructor; simpl; [rewrite app_nil_r; exact H1 | exact H2 | exact H3 | intros h []].
  - case_eq (blocked s); intros Hb; [exact HI|].
    constructor; simpl; [rewrite <- H1, app_assoc; reflexivity | exact H2 | exact H3 | auto].
Qed.

Lemma step_foreign_inv s i : WInv s -> WInv (step_foreign s i).
Proof.
  intros [H1 H2 H3 H4]. unfold step_foreign.
  destruct (nth_error (fts s) i) as [[| |]|] eqn:Hi; try (constructor; assumption).
  - (* append *)
    pose proof (@nth_error_lt _ _ _ _ Hi) as Hlt.
    assert (Hni : ~ In i (hist s)).
    { intros Hin. apply H3 in Hin. destruct Hin as (f & Hf & Hn). congruence. }
    constructor; simpl.
    + rewrite <- H1, !app_assoc. reflexivity.
    + apply NoDup_app_single; auto.
    + intros j. rewrite in_app_iff. unfold started; simpl. split.
      * intros [Hin|[<-|[]]].
        -- destruct (Nat.eq_dec i j) as [<-|Hne]; [contradiction|].
           apply H3 in Hin. destruct Hin as (f & Hf & Hn).
           exists f. rewrite nth_error_set_nth_neq by auto. auto.
        -- exists FAppended. rewrite nth_error_set_nth_eq by auto. split; [auto|congruence].
      * intros (f & Hf & Hn). destruct (Nat.eq_dec i j) as [<-|Hne]; [right; left; auto|].
        left. apply H3. exists f. rewrite nth_error_set_nth_neq in Hf by auto. auto.
    + intros h Hin. apply in_app_or in Hin. destruct Hin as [Hin|[<-|[]]].
      * destruct (Nat.eq_dec i h) as [<-|Hne].
        -- right; right. apply nth_error_set_nth_eq; auto.
        -- destruct (H4 h Hin) as [A|[A|A]]; auto.
           right; right. rewrite nth_error_set_nth_neq; auto.
      * right; right. apply nth_error_set_nth_eq; auto.
  - (* wake *)
    pose proof (@nth_error_lt _ _ _ _ Hi) as Hlt.
    constructor; simpl; [exact H1 | exact H2 | | auto].
    intros j. unfold started; simpl. split.
    + intros Hin. apply H3 in Hin. destruct Hin as (f & Hf & Hn).
      destruct (Nat.eq_dec i j) as [<-|Hne].
      * exists FDone. rewrite nth_error_set_nth_eq by auto. split; [auto|congruence].
      * exists f. rewrite nth_error_set_nth_neq by auto. auto.
    + intros (f & Hf & Hn). apply H3.
      destruct (Nat.eq_dec i j) as [<-|Hne].
      * exists FAppended. split; [auto|congruence].
      * exists f. rewrite nth_error_set_nth_neq in Hf by auto. auto.
Qed.

Lemma wstep_inv s t : WInv s -> WInv (wstep s t).
Proof. destruct t; simpl; auto using step_loop_inv, step_foreign_inv. Qed.

Theorem wrun_inv ts : forall s, WInv s -> WInv (wrun s ts).
Proof. induction ts as [|t r IH]; intros s H; simpl; auto. apply IH, wstep_inv, H. Qed.

(* every reachable state of every schedule, any number of foreign threads *)
Theorem wake_inv n start w ts : WInv (wrun (winit n start w) ts).
Proof. apply wrun_inv, winit_inv. Qed.

(* ---- consequences ---- *)
Lemma all_done_spec s : all_done s = true -> forall i f, nth_error (fts s) i = Some f -> f = FDone.
Proof.
  unfold all_done. intros H i f Hf. rewrite forallb_forall in H.
  specialize (H f (nth_error_In _ _ Hf)). destruct f; congruence.
Qed.

(* 1. nothing is stranded: when the loop is blocked in select() and no submission is in
      progress, the inbox is empty and every submitted callback has run *)
Theorem blocked_means_collected s :
  WInv s -> all_done s = true -> blocked s = true ->
  inbox s = [] /\ rdy s = [] /\ ran s = hist s /\
  forall i, i < length (fts s) -> In i (ran s).
Proof.
  intros [H1 H2 H3 H4] Hd Hb. unfold blocked in Hb.
  destruct (lp s) eqn:Hl; [discriminate|].
  destruct (rdy s) eqn:Hr; [|discriminate].
  assert (Hi : inbox s = []).
  { destruct (inbox s) as [|h t] eqn:Hin; auto. exfalso.
    destruct (H4 h (or_introl eq_refl)) as [A|[A|A]].
    - rewrite A in Hb. discriminate.
    - congruence.
    - apply (@all_done_spec _ Hd) in A. discriminate. }
  rewrite Hi in H1. simpl in H1. rewrite app_nil_r in H1.
  split; [exact Hi|]. split; [reflexivity|]. split; [exact H1|].
  intros i Hlt. rewrite H1. apply H3.
  destruct (nth_error (fts s) i) as [f|] eqn:Hf.
  - exists f. split; auto. rewrite (@all_done_spec _ Hd _ _ Hf). congruence.
  - apply nth_error_None in Hf. lia.
Qed.

(* 2. liveness: once the submissions are complete, four loop steps (two iterations) suffice
      to run everything, from whatever point of its iteration the loop is at *)
Lemma step_loop_fts s : fts (step_loop s) = fts s.
Proof. unfold step_loop. destruct (lp s); simpl; auto. destruct (blocked s); auto. Qed.
Lemma step_loop_done s : all_done (step_loop s) = all_done s.
Proof. unfold all_done. rewrite step_loop_fts. reflexivity. Qed.

Lemma quiescent_after_select s :
  WInv s -> all_done s = true -> lp s = LSelect -> inbox s = [] ->
  let s' := step_loop s in rdy s' = [] /\ inbox s' = [] /\ ran s' = hist s'.
Proof.
  intros HI Hd Hl Hi. simpl. unfold step_loop. rewrite Hl.
  destruct (blocked s) eqn:Hb.
  - destruct (blocked_means_collected HI Hd Hb) as (A & B & C & _). auto.
  - simpl. destruct HI as [H1 _ _ _]. rewrite Hi, app_nil_r in H1. auto.
Qed.

Theorem all_run_within_four s :
  WInv s -> all_done s = true ->
  let s' := wrun s [TLoop; TLoop; TLoop; TLoop] in
  forall i, i < length (fts s) -> In i (ran s').
Proof.
  intros HI Hd. simpl.
  assert (G : forall s0, WInv s0 -> all_done s0 = true -> rdy s0 = [] -> inbox s0 = [] ->
                         forall i, i < length (fts s0) -> In i (ran s0)).
  { intros s0 [H1 H2 H3 H4] Hd0 Hr Hi i Hlt. rewrite Hr, Hi in H1. simpl in H1.
    rewrite app_nil_r in H1. rewrite H1. apply H3.
    destruct (nth_error (fts s0) i) as [f|] eqn:Hf.
    - exists f. split; auto. rewrite (@all_done_spec _ Hd0 _ _ Hf). congruence.
    - apply nth_error_None in Hf. lia. }
  assert (M : forall s0 i, In i (ran s0) -> In i (ran (step_loop s0))).
  { intros s0 i Hin. unfold step_loop. destruct (lp s0); simpl; auto.
    destruct (blocked s0); simpl; auto. apply in_or_app. auto. }
  (* bring the loop to the start of an iteration *)
  assert (D : forall s0, WInv s0 -> all_done s0 = true -> lp s0 = LDrain ->
                         forall i, i < length (fts s0) -> In i (ran (step_loop (step_loop s0)))).
  { intros s0 HI0 Hd0 Hl i Hlt.
    set (s1 := step_loop s0).
    assert (HI1 : WInv s1) by (apply step_loop_inv; auto).
    assert (Hd1 : all_done s1 = true) by (unfold s1; rewrite step_loop_done; auto).
    assert (Hl1 : lp s1 = LSelect) by (unfold s1, step_loop; rewrite Hl; reflexivity).
    assert (Hi1 : inbox s1 = []) by (unfold s1, step_loop; rewrite Hl; reflexivity).
    destruct (quiescent_after_select HI1 Hd1 Hl1 Hi1) as (A & B & C).
    apply G; auto.
    - apply step_loop_inv; auto.
    - rewrite step_loop_done; auto.
    - rewrite step_loop_fts. unfold s1. rewrite step_loop_fts. auto. }
  intros i Hlt.
  destruct (lp s) eqn:Hl.
  - apply M, M. apply D; auto.
  - (* at select: either it passes (then drain+select), or it is blocked (already all run) *)
    unfold step_loop at 4. rewrite Hl.
    destruct (blocked s) eqn:Hb.
    + destruct (blocked_means_collected HI Hd Hb) as (_ & _ & _ & A).
      apply M, M, M. auto.
    + set (s1 := mkW (inbox s) [] (ran s ++ rdy s) false LDrain (fts s) (hist s)).
      assert (E1 : s1 = step_loop s) by (unfold step_loop; rewrite Hl, Hb; reflexivity).
      assert (HI1 : WInv s1) by (rewrite E1; apply step_loop_inv; auto).
      assert (Hd1 : all_done s1 = true) by (rewrite E1, step_loop_done; auto).
      apply M. apply D; auto.
Qed.

(* 3. exactly once, in submission order (all foreign callbacks have the same priority) *)
Theorem exactly_once_fifo n start w ts :
  let s := wrun (winit n start w) ts in
  ran s ++ rdy s ++ inbox s = hist s /\ NoDup (ran s) /\
  forall i, In i (ran s) -> started s i.
Proof.
  simpl. destruct (wake_inv n start w ts) as [H1 H2 H3 H4]. split; auto. split.
  - rewrite <- H1 in H2. apply NoDup_app_l in H2. exact H2.
  - intros i Hin. apply H3. rewrite <- H1. apply in_or_app. auto.
Qed.

(* ---- the check-then-act optimisation loses a wake-up: schedule
        F0 appends and wakes | F1 checks (inbox non-empty: no wake needed) | loop drains, runs F0's
        callback, drains again, blocks | F1 appends (and does not wake) ---- *)
Definition bad_schedule : list tok :=
  [TForeign 0; TForeign 0; TForeign 0;           (* check, append, wake *)
   TForeign 1;                                    (* check: inbox = [0] -> w = false *)
   TLoop; TLoop; TLoop; TLoop;                    (* drain, select+run, drain, select: blocked *)
   TForeign 1; TForeign 1;                        (* append, (no) wake *)
   TLoop; TLoop; TLoop; TLoop].

Theorem check_then_act_refuted :
  let s := wrun2 (winit2 2 LDrain false) bad_schedule in
  fts2 s = [GDone; GDone] /\ blocked (base2 s) = true /\ inbox (base2 s) = [1] /\ ran (base2 s) = [0].
Proof. vm_compute. repeat split. Qed.

(* the same schedule on the real protocol *)
Example same_schedule_ok :
  let s := wrun (winit 2 LDrain false)
                [TForeign 0; TForeign 0; TLoop; TLoop; TLoop; TLoop; TForeign 1; TForeign 1;
                 TLoop; TLoop; TLoop; TLoop] in
  all_done s = true /\ ran s = [0; 1] /\ inbox s = [].
Proof. vm_compute. repeat split. Qed.
