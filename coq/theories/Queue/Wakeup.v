(* C18, the wake-up half of the repaired call_soon_threadsafe (fix F13):

     foreign thread:   handle = Handle(...); inbox.append(handle); self._write_to_self()
     loop thread:      _run_once = drain the inbox into the ready queue;
                                   select(timeout = 0 if ready else None);  (reads the self-pipe)
                                   run what is ready

   as a concurrent state machine with one atomic step per observable effect.  A token of a
   schedule lets one thread perform its next step; a loop token while the loop is blocked in
   select() is a no-op.  No proofs here. *)
From Asynkit Require Import Base.Prelude Base.Obs.
Open Scope nat_scope.

Inductive lpc := LDrain | LSelect.
Inductive fpc := FStart | FAppended | FDone.

Record wst := mkW {
  inbox : list nat;     (* handles appended and not yet collected (handle id = thread index) *)
  rdy : list nat;       (* the ready queue (all entries have priority 0: FIFO) *)
  ran : list nat;       (* callbacks executed, in order *)
  wake : bool;          (* the self-pipe is readable *)
  lp : lpc;             (* what the loop thread does next *)
  fts : list fpc;       (* the foreign threads *)
  hist : list nat }.    (* ghost: order of the appends *)

Inductive tok := TLoop | TForeign (i : nat) | TStutter.

Definition blocked (s : wst) : bool :=
  match lp s with
  | LSelect => match rdy s with [] => negb (wake s) | _ => false end
  | LDrain => false
  end.

Definition step_loop (s : wst) : wst :=
  match lp s with
  | LDrain => mkW [] (rdy s ++ inbox s) (ran s) (wake s) LSelect (fts s) (hist s)
  | LSelect =>
      if blocked s then s
      else mkW (inbox s) [] (ran s ++ rdy s) false LDrain (fts s) (hist s)
  end.

Definition step_foreign (s : wst) (i : nat) : wst :=
  match nth_error (fts s) i with
  | Some FStart =>
      mkW (inbox s ++ [i]) (rdy s) (ran s) (wake s) (lp s) (set_nth (fts s) i FAppended) (hist s ++ [i])
  | Some FAppended =>
      mkW (inbox s) (rdy s) (ran s) true (lp s) (set_nth (fts s) i FDone) (hist s)
  | _ => s
  end.

Definition wstep (s : wst) (t : tok) : wst :=
  match t with
  | TLoop => step_loop s
  | TForeign i => step_foreign s i
  | TStutter => s
  end.

Definition wrun (s : wst) (ts : list tok) : wst := fold_left wstep ts s.

Definition winit (n : nat) (start : lpc) (w : bool) : wst :=
  mkW [] [] [] w start (repeat FStart n) [].

Definition all_done (s : wst) : bool :=
  forallb (fun f => match f with FDone => true | _ => false end) (fts s).

(* ---- the tempting optimisation (seeded change C18-seedD1): decide whether to wake
        BEFORE appending, from the emptiness of the inbox ---- *)
Inductive fpc2 := GStart | GChecked (w : bool) | GAppended (w : bool) | GDone.
Record wst2 := mkW2 { base2 : wst; fts2 : list fpc2 }.

Definition step_foreign2 (s : wst2) (i : nat) : wst2 :=
  let b := base2 s in
  match nth_error (fts2 s) i with
  | Some GStart =>
      mkW2 b (set_nth (fts2 s) i (GChecked (match inbox b with [] => true | _ => false end)))
  | Some (GChecked w) =>
      mkW2 (mkW (inbox b ++ [i]) (rdy b) (ran b) (wake b) (lp b) (fts b) (hist b ++ [i]))
           (set_nth (fts2 s) i (GAppended w))
  | Some (GAppended w) =>
      mkW2 (mkW (inbox b) (rdy b) (ran b) (wake b || w) (lp b) (fts b) (hist b))
           (set_nth (fts2 s) i GDone)
  | _ => s
  end.

Definition wstep2 (s : wst2) (t : tok) : wst2 :=
  match t with
  | TLoop => mkW2 (step_loop (base2 s)) (fts2 s)
  | TForeign i => step_foreign2 s i
  | TStutter => s
  end.
Definition wrun2 (s : wst2) (ts : list tok) : wst2 := fold_left wstep2 ts s.
Definition winit2 (n : nat) (start : lpc) (w : bool) : wst2 :=
  mkW2 (winit 0 start w) (repeat GStart n).

(* ---- observation for the correspondence with the real loop ---- *)
Definition olpc (p : lpc) : obs := OI (match p with LDrain => 0 | LSelect => 1 end)%Z.
Definition ofpc (p : fpc) : obs := OI (match p with FStart => 0 | FAppended => 1 | FDone => 2 end)%Z.
Definition onat (n : nat) : obs := OI (Z.of_nat n).
Definition owst (s : wst) : obs :=
  OL [olist onat (inbox s); olist onat (rdy s); olist onat (ran s); ob (wake s); olpc (lp s); ob (blocked s);
      olist ofpc (fts s)].

Fixpoint wtrace (s : wst) (ts : list tok) : list obs :=
  match ts with
  | [] => []
  | t :: r => let s' := wstep s t in owst s' :: wtrace s' r
  end.

Record winput := mkWI { wi_n : nat; wi_toks : list tok }.
(* the real loop thread always starts an iteration with the drain; the self-pipe is empty *)
(* second component: no exception ever leaves the loop or a submission in the model *)
Definition wake_run (i : winput) : obs :=
  OL [OL (wtrace (winit (wi_n i) LDrain false) (wi_toks i)); OL [OI 0]].
