(* C19, whole-history versions (complements to Queue/BoostProofs.v and
   Queue/BoostMore.v, which are frozen).
   Part 1: the PriorityQueue invariant (heap layout, distinct sequence numbers)
           holds in every reachable state of PosPriorityQueue WITH boosting
           enabled, for every history of all operations (maintenance re-heapifies
           iff it boosted something).
   Part 2: an entry tracked through rounds popleft/append_pri of a sustained
           load: it is popped, or it is still queued, identical but for a boost
           that only ever made it more urgent.
   Part 3: within every window of L + max(10,L) + 1 rounds a maintenance run
           considers it (straggler_history), whatever the prior history.
   Part 4: k windows shrink its distance to the least urgent stream priority by
           shrink^k; once below a threshold T it is popped within 2L rounds of
           stream entries of priority >= T (eventually_runs_history).          *)
From Coq Require Import QArith Lqa Permutation.
From Asynkit Require Import Base.Prelude Base.Obs Queue.HeapqModel Queue.PQ Queue.Order
     Queue.Heap Queue.ListFacts Queue.HeapqProofs Queue.PQProofs Queue.PosPQ Queue.PosProofs
     Queue.Exec Queue.PQCorr Queue.BoostOld Queue.BoostProofs Queue.BoostMore.
Local Open Scope Z_scope.

(* ------------------------------------------------------------------------- *)
(* Part 1: the queue invariant with boosting enabled                          *)
(* ------------------------------------------------------------------------- *)
Definition iseq (i : Z * Z * Q * Z * Z) : Z := snd (fst (fst (fst i))).
Lemma map_eseq_ident (a : list (entry pv)) : map (@eseq pv) a = map iseq (map ident a).
Proof. rewrite map_map. apply map_ext. reflexivity. Qed.

Lemma boost_loop_zero a : forall limit m f ds,
  snd (boost_loop a limit m f ds) = O -> fst (fst (boost_loop a limit m f ds)) = a.
Proof.
  induction a as [|e t IH]; simpl; intros limit m f ds; auto.
  destruct (_ || _ || _).
  - specialize (IH limit m f ds). destruct (boost_loop t limit m f ds) as [[t' ds'] n].
    simpl in *. intros ->. now rewrite IH.
  - specialize (IH limit m f (tl ds)). destruct (negb _);
      destruct (boost_loop t limit m f (tl ds)) as [[t' ds'] n]; simpl in *.
    + intros ->. now rewrite IH.
    + discriminate.
Qed.

(* boosting never makes an entry less urgent - unconditionally *)
Lemma boost_loop_mono a : forall limit m f ds,
  Forall2 (fun e e' => ident e' = ident e /\ (prio e' <= prio e)%Q)
          a (fst (fst (boost_loop a limit m f ds))).
Proof.
  induction a as [|e t IH]; simpl; intros limit m f ds; [constructor|].
  destruct (_ || _ || _).
  - specialize (IH limit m f ds). destruct (boost_loop t limit m f ds) as [[t' ds'] n].
    simpl in *. constructor; auto. split; [reflexivity|apply Qle_refl].
  - specialize (IH limit m f (tl ds)).
    destruct (negb (qltb _ 0)) eqn:PB;
      destruct (boost_loop t limit m f (tl ds)) as [[t' ds'] n]; simpl in *.
    + constructor; auto. split; [reflexivity|apply Qle_refl].
    + constructor; auto. split; [reflexivity|].
      apply negb_false_iff, BoostProofs.qltb_lt in PB.
      unfold prio, pv_priority in *. simpl. lra.
Qed.

(* the draws left after a run are a suffix of the draws before; a run uses at
   most one draw per entry *)
Lemma boost_loop_draws a : forall limit m f ds,
  exists used, ds = used ++ snd (fst (boost_loop a limit m f ds)) /\
               (length used <= length a)%nat.
Proof.
  induction a as [|e t IH]; simpl; intros limit m f ds.
  - exists []. split; auto.
  - destruct (_ || _ || _).
    + destruct (IH limit m f ds) as (u & E & Hl).
      destruct (boost_loop t limit m f ds) as [[t' ds'] n]. simpl in *.
      exists u. split; auto.
    + destruct (IH limit m f (tl ds)) as (u & E & Hl).
      destruct (negb _); destruct (boost_loop t limit m f (tl ds)) as [[t' ds'] n]; simpl in *;
        (destruct ds as [|d ds]; simpl in *;
         [exists u; split; [exact E|lia]
         |exists (d :: u); split; [simpl; now rewrite <- E|simpl; lia]]).
Qed.

Section HistInv.
Context (H : heapimpl pv) (Hplt : plt H = pv_lt) (HS : HeapSpec H).
Notation Inv := (PQProofs.Inv H).

Lemma SWp : StrictWeak (plt H).
Proof. rewrite Hplt. apply pv_lt_strict_weak. Qed.

Lemma CInv_ident s (a a' : list (entry pv)) :
  Permutation (map ident a') (map ident a) -> CInv s a -> CInv s a'.
Proof.
  intros Hp (Hnd & Hall & Hs).
  assert (Hq : Permutation (map (@eseq pv) a') (map (@eseq pv) a)).
  { rewrite !map_eseq_ident. apply Permutation_map, Hp. }
  repeat split; auto.
  - eapply Permutation_NoDup; [apply Permutation_sym, Hq | exact Hnd].
  - apply (proj1 (Forall_map (@eseq pv) (fun z => z < s) a')).
    eapply Permutation_Forall; [apply Permutation_sym, Hq|].
    apply (proj2 (Forall_map (@eseq pv) (fun z => z < s) a)). exact Hall.
Qed.

Lemma do_maintenance_Inv s : Inv (pq_ s) -> Inv (pq_ (do_maintenance H s)).
Proof.
  intros [Hh Hc]. unfold do_maintenance.
  destruct (Qeq_bool (factor s) 0); [split; auto|].
  destruct (find _ _) as [r|]; [|split; auto].
  destruct (has_straggler _ _); [|split; auto].
  pose proof (boost_loop_ident (arr (pq_ s)) (n_ins s - plen s)
                (minmax_loop (arr (pq_ s)) (pv_priority (epri r))) (factor s) (draws s)) as E.
  pose proof (boost_loop_zero (arr (pq_ s)) (n_ins s - plen s)
                (minmax_loop (arr (pq_ s)) (pv_priority (epri r))) (factor s) (draws s)) as Z0.
  destruct (boost_loop _ _ _ _ _) as [[a' ds'] n]. simpl in *.
  destruct n.
  - rewrite Z0 by reflexivity. split; auto.
  - split; simpl.
    + apply (hs_heapify_heap HS).
    + eapply CInv_ident; [|exact Hc]. rewrite <- E. apply Permutation_map, (hs_heapify_perm HS).
Qed.

Lemma update_counters_Inv s b : Inv (pq_ s) -> Inv (pq_ (update_counters H s b)).
Proof.
  intros Hi. destruct b.
  - rewrite update_counters_true. destruct (due (bump s)); [|exact Hi].
    unfold set_lm; simpl. apply do_maintenance_Inv. exact Hi.
  - rewrite update_counters_false. destruct (0 <? plen s); exact Hi.
Qed.

Lemma append_Inv s o p : Inv (pq_ s) -> Inv (pq_ (pos_append_pri H s o p)).
Proof.
  intros Hi. unfold pos_append_pri. apply update_counters_Inv. simpl.
  apply (add_inv H HS). exact Hi.
Qed.

Lemma popleft_Inv s o s' : Inv (pq_ s) -> pos_popleft H s = Some (o, s') -> Inv (pq_ s').
Proof.
  intros Hi. unfold pos_popleft.
  destruct (pq_popentry H (pq_ s)) as [[e q]|] eqn:E; [|discriminate].
  intros E'. assert (Es : s' = update_counters H (with_pq s q) false) by congruence.
  subst s'. apply update_counters_Inv. simpl.
  destruct (pop_inv H SWp HS _ _ _ Hi E) as (Hi' & _). exact Hi'.
Qed.

Lemma promote_Inv k : forall s acc s1 pr ok,
  Inv (pq_ s) -> promote H k s acc = (s1, pr, ok) -> Inv (pq_ s1).
Proof.
  induction k as [|k IH]; intros s acc s1 pr ok Hp E; simpl in E.
  - inversion E; subst; auto.
  - destruct (pos_popleft H s) as [[o s']|] eqn:Ep.
    + eapply IH; [|exact E]. eapply popleft_Inv; eauto.
    + inversion E; subst; auto.
Qed.

Lemma fold_add_Inv p os : forall q,
  Inv q -> Inv (fold_left (fun q o => pq_add H q p o) os q).
Proof.
  induction os as [|o os IH]; intros q Hi; simpl; auto.
  apply IH. apply (add_inv H HS); auto.
Qed.

Theorem gstep_Inv s op : Inv (pq_ s) -> Inv (pq_ (gstep H s op)).
Proof.
  intros Hi. destruct op; simpl.
  - apply append_Inv; auto.
  - apply append_Inv; auto.
  - unfold pos_insert. destruct (promote H position s []) as [[s1 pr] ok] eqn:E.
    apply update_counters_Inv. simpl. apply fold_add_Inv. eapply promote_Inv; eauto.
  - destruct (pos_popleft H s) as [[o' s']|] eqn:P; auto. eapply popleft_Inv; eauto.
  - unfold pos_remove. destruct (pq_remove H (pq_ s) o) as [[p q]|] eqn:E; auto.
    apply update_counters_Inv. simpl.
    destruct (remove_inv H SWp HS _ _ _ _ Hi E) as (Hi' & _). exact Hi'.
  - unfold pos_find. destruct (pq_find H (pq_ s) (Z.eqb o) rm) as [[e q]|] eqn:E; auto.
    simpl. destruct (find_inv H HS _ _ _ _ _ Hi E) as (Hi' & _). exact Hi'.
  - unfold pos_reschedule. destruct (pq_find _ _ _ _) as [[e q0]|]; auto.
    destruct (_ =? _); auto. unfold pos_reschedule_reg.
    destruct (pq_reschedule H (pq_ s) (Z.eqb o) _) as [[o' q]|] eqn:E; auto.
    simpl. destruct (resched_inv H HS _ _ _ _ _ Hi E) as (Hi' & _). exact Hi'.
  - unfold pos_reschedule_all. simpl. apply (extend_inv H SWp HS), Inv_empty.
  - unfold pos_clear. simpl. apply Inv_empty.
  - unfold pos_iter. simpl. apply (abs_inv H SWp); auto.
  - exact Hi.
Qed.

(* the invariants of a reachable state, together *)
Record SInv (s : pos) : Prop := mkSI {
  si_inv : Inv (pq_ s);        (* heap layout, distinct sequence numbers *)
  si_cinv : cinv s;            (* 0 <= last_maintenance <= min(n_inserted, n_removed) *)
  si_ia : IA s }.              (* inserted_at <= n_inserted for every queued entry *)

Lemma gstep_SInv s op : SInv s -> SInv (gstep H s op).
Proof.
  intros [A B C]. split; [apply gstep_Inv | apply gstep_cinv | apply (gstep_IA H HS)]; auto.
Qed.

Lemma gexec_SInv ops : forall s, SInv s -> SInv (gexec H s ops).
Proof.
  induction ops as [|op ops IH]; simpl; intros s Hs; auto. apply IH, gstep_SInv, Hs.
Qed.

Lemma SInv_empty f ds : SInv (pos_empty f ds).
Proof.
  split; [apply Inv_empty | unfold cinv; simpl; lia | constructor].
Qed.

End HistInv.

(* ------------------------------------------------------------------------- *)
(* Part 2: tracking one entry through the rounds of a sustained load          *)
(* ------------------------------------------------------------------------- *)
Lemma min_regular_exists (a : list (entry pv)) :
  (exists r, In r a /\ regular r) -> exists m, min_regular a m.
Proof.
  intros (r0 & Hr0 & Rr0).
  destruct (find (fun e => negb (pclass (epri e) =? 0)) a) as [r|] eqn:F.
  - apply List.find_some in F. destruct F as [F1 F2]. apply negb_true_iff, Z.eqb_neq in F2.
    exists (minmax_loop a (pv_priority (epri r))).
    destruct (minmax_loop_spec a (pv_priority (epri r))) as (M1 & M2 & M3).
    split; auto. destruct M3 as [M3|(x & X1 & X2 & X3)].
    + exists r. repeat split; auto. symmetry. exact M3.
    + exists x. auto.
  - exfalso. pose proof (List.find_none _ _ F r0 Hr0) as Hn. simpl in Hn.
    apply negb_false_iff, Z.eqb_eq in Hn. contradiction.
Qed.

Lemma min_regular_unique (a : list (entry pv)) m m' :
  min_regular a m -> min_regular a m' -> (m == m')%Q.
Proof.
  intros ((x & X1 & X2 & X3) & A2) ((y & Y1 & Y2 & Y3) & B2).
  apply Qle_antisym.
  - rewrite <- Y3. apply A2; auto.
  - rewrite <- X3. apply B2; auto.
Qed.

(* e' is e, identical but for a boost that made it at most more urgent *)
Definition tracks (e e' : entry pv) : Prop := ident e' = ident e /\ (prio e' <= prio e)%Q.
Lemma tracks_refl e : tracks e e.
Proof. split; [reflexivity | apply Qle_refl]. Qed.
Lemma tracks_trans e1 e2 e3 : tracks e1 e2 -> tracks e2 e3 -> tracks e1 e3.
Proof. intros [A1 A2] [B1 B2]. split; [congruence | eapply Qle_trans; eauto]. Qed.

Definition DrOK (rho : Q) (n : Z) (st : pos) : Prop :=
  Forall (fun d => rho <= d)%Q (draws st) /\ n <= Z.of_nat (length (draws st)).

Section Track.
Context (H : heapimpl pv) (Hplt : plt H = pv_lt) (HS : HeapSpec H).
Notation Inv := (PQProofs.Inv H).
Notation elt := (entry_lt (plt H)).
Notation ele := (Order.ele (plt H)).
Notation SW := (SWp H Hplt).
Notation SInv := (SInv H).

Lemma HLs : heap_len H.
Proof.
  apply heap_len_of_perm;
    [apply (hs_push_perm HS) | apply (hs_pop_some HS) | apply (hs_pop_perm HS)
    | apply (hs_heapify_perm HS)].
Qed.

Lemma maintenance_tracks s e :
  In e (arr (pq_ s)) -> exists e', In e' (arr (pq_ (do_maintenance H s))) /\ tracks e e'.
Proof.
  intros He. unfold do_maintenance.
  destruct (Qeq_bool (factor s) 0); [exists e; split; auto; apply tracks_refl|].
  destruct (find _ _) as [r|]; [|exists e; split; auto; apply tracks_refl].
  destruct (has_straggler _ _); [|exists e; split; auto; apply tracks_refl].
  pose proof (boost_loop_mono (arr (pq_ s)) (n_ins s - plen s)
                (minmax_loop (arr (pq_ s)) (pv_priority (epri r))) (factor s) (draws s)) as HF.
  destruct (boost_loop _ _ _ _ _) as [[a' ds'] n]. simpl in HF.
  destruct (@Forall2_in_l _ _ _ _ _ _ HF He) as (e' & He' & T).
  exists e'. split; [|exact T]. cbn [pq_ arr]. destruct n; auto.
  eapply Permutation_in; [apply Permutation_sym, (hs_heapify_perm HS) | exact He'].
Qed.

Lemma do_maintenance_draws s :
  exists used, draws s = used ++ draws (do_maintenance H s) /\
               (length used <= length (arr (pq_ s)))%nat.
Proof.
  unfold do_maintenance.
  destruct (Qeq_bool (factor s) 0); [exists []; split; auto; simpl; lia|].
  destruct (find _ _) as [r|]; [|exists []; split; auto; simpl; lia].
  destruct (has_straggler _ _); [|exists []; split; auto; simpl; lia].
  destruct (boost_loop_draws (arr (pq_ s)) (n_ins s - plen s)
                (minmax_loop (arr (pq_ s)) (pv_priority (epri r))) (factor s) (draws s))
    as (u & E & Hl).
  destruct (boost_loop _ _ _ _ _) as [[a' ds'] n]. simpl in *. exists u. auto.
Qed.

(* anatomy of one round  popleft(); append_pri(o, p)  in a state with >= 2 entries *)
Lemma round_cases st x : Inv (pq_ st) -> 2 <= plen st ->
  exists h a1 s1,
    pq_popentry H (pq_ st) = Some (h, mkPQ (seqn (pq_ st)) a1) /\
    pos_popleft H st = Some (eobj h, s1) /\
    Permutation (arr (pq_ st)) (h :: a1) /\ Forall (ele h) a1 /\
    let sm := pre_maint H s1 (fst x) (snd x) in
    Permutation (arr (pq_ sm))
                (mkE (mkPV (snd x) (n_ins st) 0 1) (seqn (pq_ st)) (fst x) :: a1) /\
    plen sm = plen st /\ n_ins sm = n_ins st + 1 /\ n_rem sm = n_rem st + 1 /\
    last_maint sm = last_maint st /\ factor sm = factor st /\ draws sm = draws st /\
    seqn (pq_ sm) = seqn (pq_ st) + 1 /\
    pair_pa H st x =
      (if due sm then set_lm (do_maintenance H sm) (Z.min (n_ins st + 1) (n_rem st + 1))
       else sm).
Proof.
  intros [Hh Hc] HL2.
  assert (Hne : arr (pq_ st) <> []).
  { unfold plen in HL2. destruct (arr (pq_ st)); simpl in *; [lia|discriminate]. }
  destruct (hs_pop_some HS _ Hne) as (h & a1 & E).
  destruct (heappop_shape H SW HS _ _ _ Hh E) as (Hhd & Hp & Hh1 & Hall).
  assert (Hlen : length (arr (pq_ st)) = S (length a1)).
  { rewrite (Permutation_length Hp). reflexivity. }
  assert (Hne1 : a1 <> []).
  { unfold plen in HL2. destruct a1; [simpl in *; lia|discriminate]. }
  set (s1 := mkPos (mkPQ (seqn (pq_ st)) a1) (last_maint st) (n_ins st) (n_rem st + 1)
                   (factor st) (draws st)).
  assert (Epe : pq_popentry H (pq_ st) = Some (h, mkPQ (seqn (pq_ st)) a1)).
  { unfold pq_popentry. rewrite E. rewrite reset_nonempty by exact Hne1. reflexivity. }
  assert (Epl : pos_popleft H st = Some (eobj h, s1)).
  { unfold pos_popleft. rewrite Epe. rewrite update_counters_false.
    assert (Hp1 : (0 <? plen (with_pq st (mkPQ (seqn (pq_ st)) a1))) = true).
    { apply Z.ltb_lt. unfold plen, with_pq. simpl. destruct a1; [congruence|simpl; lia]. }
    rewrite Hp1. reflexivity. }
  exists h, a1, s1. split; [exact Epe|]. split; [exact Epl|]. split; [exact Hp|].
  split; [exact Hall|]. cbv zeta.
  split. { unfold pre_maint, bump, with_pq, pq_add. simpl. apply (hs_push_perm HS). }
  split. { unfold pre_maint, bump, with_pq, pq_add, plen. simpl.
           rewrite (Permutation_length (hs_push_perm HS _ _)). simpl. rewrite Hlen. lia. }
  split; [reflexivity|]. split; [reflexivity|]. split; [reflexivity|]. split; [reflexivity|].
  split; [reflexivity|]. split; [reflexivity|].
  unfold pair_pa. rewrite Epl. unfold pos_append_pri. rewrite update_counters_true.
  reflexivity.
Qed.

(* in one round, the entry e is returned by popleft or is still queued after it *)
Lemma round_track st x e : Inv (pq_ st) -> 2 <= plen st -> In e (arr (pq_ st)) ->
  (exists q, pq_popentry H (pq_ st) = Some (e, q)) \/
  exists e', In e' (arr (pq_ (pair_pa H st x))) /\ tracks e e'.
Proof.
  intros Hi HL2 He.
  destruct (round_cases st x Hi HL2)
    as (h & a1 & s1 & Epe & Epl & Hp & Hall & Hpm & _ & _ & _ & _ & _ & _ & _ & Epair).
  apply (Permutation_in _ Hp) in He. destruct He as [<-|He]; [left; eauto|right].
  assert (Hm : In e (arr (pq_ (pre_maint H s1 (fst x) (snd x))))).
  { eapply Permutation_in; [apply Permutation_sym, Hpm|]. right. exact He. }
  rewrite Epair. destruct (due _).
  - unfold set_lm. cbn [pq_]. apply maintenance_tracks. exact Hm.
  - exists e. split; [exact Hm | apply tracks_refl].
Qed.

(* ... and in a round whose append runs maintenance while e passes the straggler
   test, its distance to any upper bound hi of the appended priority shrinks *)
Lemma round_shrinks st x e rho :
  Inv (pq_ st) -> 2 <= plen st -> In e (arr (pq_ st)) -> regular e ->
  (0 < factor st)%Q -> (0 < rho)%Q -> DrOK rho (plen st) st ->
  forall o s1, pos_popleft H st = Some (o, s1) ->
  let sm := pre_maint H s1 (fst x) (snd x) in
  due sm = true -> (In e (arr (pq_ sm)) -> ins_at (epri e) < n_ins sm - plen sm) ->
  (exists q, pq_popentry H (pq_ st) = Some (e, q)) \/
  In e (arr (pq_ sm)) /\
  exists e', In e' (arr (pq_ (pair_pa H st x))) /\ tracks e e' /\
    (forall hi G, (snd x <= hi)%Q -> (0 <= G)%Q -> (prio e - hi <= G)%Q ->
               (prio e' - hi <= shrink rho (factor st) * G)%Q) /\
    (forall m, min_regular (arr (pq_ sm)) m -> (m < prio e)%Q ->
               (boost (epri e') < boost (epri e))%Q /\
               (prio e' - m <= shrink rho (factor st) * (prio e - m))%Q).
Proof.
  intros Hi HL2 He Hreg Hf Hrho [Hd Hdl] o s1' Epl' sm Hdue Hst.
  destruct (round_cases st x Hi HL2)
    as (h & a1 & s1 & Epe & Epl & Hp & Hall & Hpm & Hplen & Hni & Hnr & Hlm & Hfa & Hdr & _ & Epair).
  rewrite Epl in Epl'. injection Epl' as _ <-. fold sm in Hpm, Hplen, Hni, Hnr, Hlm, Hfa, Hdr, Epair.
  apply (Permutation_in _ Hp) in He. destruct He as [<-|He]; [left; eauto|right].
  assert (Hm : In e (arr (pq_ sm))).
  { eapply Permutation_in; [apply Permutation_sym, Hpm|]. right. exact He. }
  split; [exact Hm|]. specialize (Hst Hm).
  rewrite Epair, Hdue. unfold set_lm. cbn [pq_].
  set (nw := mkE (mkPV (snd x) (n_ins st) 0 1) (seqn (pq_ st)) (fst x)) in *.
  assert (Hnw : In nw (arr (pq_ sm))).
  { eapply Permutation_in; [apply Permutation_sym, Hpm|]. left. reflexivity. }
  assert (Rnw : regular nw) by (unfold regular, nw; simpl; lia).
  destruct (min_regular_exists (arr (pq_ sm))) as (m0 & Hm0); [exists nw; auto|].
  assert (Hm0x : (m0 <= snd x)%Q).
  { destruct Hm0 as [_ M2]. specialize (M2 nw Hnw Rnw). unfold prio, pv_priority, nw in M2.
    simpl in M2. lra. }
  destruct (shrink_facts rho (factor st)) as [S0 S1].
  pose proof (shrink_lt_1 rho (factor st) Hrho Hf) as S2.
  destruct (Qlt_le_dec m0 (prio e)) as [Hlt|Hge].
  - assert (Y1 : (0 < factor sm)%Q) by (rewrite Hfa; exact Hf).
    assert (Y2 : Forall (fun d => rho <= d)%Q (draws sm)) by (rewrite Hdr; exact Hd).
    assert (Y3 : (length (arr (pq_ sm)) <= length (draws sm))%nat).
    { rewrite Hdr. unfold plen in Hplen, Hdl. lia. }
    destruct (maintenance_shrinks H (hs_heapify_perm HS) sm rho e m0 Y1 Hrho Y2 Y3 Hm Hreg Hst Hm0 Hlt)
      as (e' & He' & Hid & Hsh & Hle).
    exists e'. split; [exact He'|]. split; [split; auto|]. rewrite Hfa in Hsh. split.
    + intros hi G Hx HG HeG. set (c := shrink rho (factor st)) in *.
      assert (X1 : (0 <= c * (G - (prio e - hi)))%Q) by (apply Qmult_le_0_compat; lra).
      assert (X2 : (0 <= (1 - c) * (hi - m0))%Q) by (apply Qmult_le_0_compat; lra).
      lra.
    + intros m Hmm Hml. pose proof (min_regular_unique _ _ _ Hmm Hm0) as Em.
      set (c := shrink rho (factor st)) in *.
      assert (Ecm : (c * m == c * m0)%Q) by (rewrite Em; reflexivity).
      split; [|lra].
      assert (X3 : (0 < (1 - c) * (prio e - m0))%Q) by (apply Qmult_lt_0_compat; lra).
      assert (Hpl : (prio e' < prio e)%Q) by lra.
      assert (Hb : base (epri e') = base (epri e)) by (unfold ident in Hid; congruence).
      unfold prio, pv_priority in Hpl. rewrite Hb in Hpl. lra.
  - destruct (maintenance_tracks sm e Hm) as (e' & He' & T).
    exists e'. split; [exact He'|]. split; [exact T|]. destruct T as [_ T2]. split.
    + intros hi G Hx HG HeG. assert (X1 : (0 <= shrink rho (factor st) * G)%Q)
        by (apply Qmult_le_0_compat; lra). lra.
    + intros m Hmm Hml. pose proof (min_regular_unique _ _ _ Hmm Hm0) as Em. lra.
Qed.

(* invariants along the rounds *)
Lemma pair_SInv st x : SInv st -> 2 <= plen st ->
  SInv (pair_pa H st x) /\ plen (pair_pa H st x) = plen st.
Proof.
  intros [A B C] HL2.
  destruct (pair_facts H HLs st x HL2 B) as (P1 & _ & _ & P4 & _).
  split; [|exact P1]. split; [| exact P4 |].
  - destruct (popleft_facts H HLs st HL2) as (o & s1 & P & _).
    unfold pair_pa. rewrite P. apply (append_Inv H HS). eapply (popleft_Inv H Hplt HS); eauto.
  - destruct (popleft_facts H HLs st HL2) as (o & s1 & P & _).
    unfold pair_pa. rewrite P. apply (append_IA H HS). eapply (popleft_IA H HS); eauto.
Qed.

Lemma pairs_SInv l : forall st, SInv st -> 2 <= plen st ->
  SInv (pairs H st l) /\ plen (pairs H st l) = plen st.
Proof.
  induction l as [|x l IH]; intros st Hs HL2; [split; auto|].
  destruct (pair_SInv st x Hs HL2) as [Hs1 Hp1].
  change (pairs H st (x :: l)) with (pairs H (pair_pa H st x) l).
  destruct (IH (pair_pa H st x) Hs1) as [Hs2 Hp2]; [lia|]. split; [exact Hs2 | lia].
Qed.

Lemma pair_DrOK st x rho n : Inv (pq_ st) -> 2 <= plen st -> DrOK rho (n + plen st) st ->
  DrOK rho n (pair_pa H st x) /\ factor (pair_pa H st x) = factor st.
Proof.
  intros Hi HL2 [Hd Hdl].
  destruct (round_cases st x Hi HL2)
    as (h & a1 & s1 & _ & _ & _ & _ & _ & Hplen & _ & _ & _ & Hfa & Hdr & _ & Epair).
  rewrite Epair. destruct (due _).
  - unfold set_lm, DrOK. cbn [draws factor].
    destruct (do_maintenance_frame H (pre_maint H s1 (fst x) (snd x))) as (_ & _ & _ & F4 & _).
    rewrite F4, Hfa. split; [|reflexivity].
    destruct (do_maintenance_draws (pre_maint H s1 (fst x) (snd x))) as (u & Eu & Hu).
    rewrite Hdr in Eu. rewrite Eu in Hd, Hdl. apply Forall_app in Hd. destruct Hd as [_ Hd].
    split; [exact Hd|]. rewrite app_length in Hdl. unfold plen in *. lia.
  - unfold DrOK. rewrite Hdr, Hfa. split; [|reflexivity]. split; [exact Hd|lia].
Qed.

Lemma pairs_DrOK l : forall st rho n, SInv st -> 2 <= plen st ->
  DrOK rho (n + Z.of_nat (length l) * plen st) st ->
  DrOK rho n (pairs H st l) /\ factor (pairs H st l) = factor st.
Proof.
  induction l as [|x l IH]; intros st rho n Hs HL2 Hd.
  - simpl in *. split; [|reflexivity]. destruct Hd as [D1 D2]. split; [exact D1|lia].
  - destruct (pair_SInv st x Hs HL2) as [Hs1 Hp1].
    change (pairs H st (x :: l)) with (pairs H (pair_pa H st x) l).
    destruct (pair_DrOK st x rho (n + Z.of_nat (length l) * plen st) (si_inv _ _ Hs) HL2) as [D1 F1].
    { destruct Hd as [D1 D2]. split; [exact D1|]. simpl length in D2. lia. }
    destruct (IH (pair_pa H st x) rho n Hs1) as [D2 F2]; [lia| |].
    { rewrite Hp1. exact D1. }
    split; [exact D2 | congruence].
Qed.

(* the entry e of st is returned by the popleft of some round of the load l *)
Definition popped_in (st : pos) (e : entry pv) (l : list (Z * Q)) : Prop :=
  exists l1 x l2 e1 q, l = l1 ++ x :: l2 /\
    pq_popentry H (pq_ (pairs H st l1)) = Some (e1, q) /\ ident e1 = ident e.

Lemma popped_in_app_l st e l l' : popped_in st e l -> popped_in st e (l ++ l').
Proof.
  intros (l1 & x & l2 & e1 & q & E & P & I). exists l1, x, (l2 ++ l'), e1, q.
  split; [|auto]. rewrite E, <- app_assoc. reflexivity.
Qed.

Lemma popped_in_app_r st e e' l l' :
  ident e' = ident e -> popped_in (pairs H st l) e' l' -> popped_in st e (l ++ l').
Proof.
  intros Hid (l1 & x & l2 & e1 & q & E & P & I). exists (l ++ l1), x, l2, e1, q.
  split; [rewrite E, <- app_assoc; reflexivity|]. rewrite pairs_app. split; [exact P|congruence].
Qed.

Lemma rounds_track l : forall st e, SInv st -> 2 <= plen st -> In e (arr (pq_ st)) ->
  popped_in st e l \/ exists e', In e' (arr (pq_ (pairs H st l))) /\ tracks e e'.
Proof.
  induction l as [|x l IH]; intros st e Hs HL2 He.
  - right. exists e. split; [exact He | apply tracks_refl].
  - destruct (round_track st x e (si_inv _ _ Hs) HL2 He) as [(q & P)|(e1 & He1 & T1)].
    + left. exists [], x, l, e, q. repeat split; auto.
    + destruct (pair_SInv st x Hs HL2) as [Hs1 Hp1].
      change (pairs H st (x :: l)) with (pairs H (pair_pa H st x) l).
      destruct (IH (pair_pa H st x) e1 Hs1) as [Pp|(e2 & He2 & T2)]; [lia|exact He1| |].
      * left. apply (popped_in_app_r st e e1 [x] l); [apply T1|exact Pp].
      * right. exists e2. split; [exact He2|]. eapply tracks_trans; eauto.
Qed.


Lemma DrOK_mono rho n n' st : n' <= n -> DrOK rho n st -> DrOK rho n' st.
Proof. intros Hle [A B]. split; [exact A|lia]. Qed.

Lemma pairs_snoc st l x : pairs H st (l ++ [x]) = pair_pa H (pairs H st l) x.
Proof. rewrite pairs_app. reflexivity. Qed.

(* the rounds are the operation history  popleft; append_pri(o,p); ...  *)
Definition round_ops (l : list (Z * Q)) : list posop :=
  concat (map (fun x => [QPopleft; QAppendPri (fst x) (snd x)]) l).

Lemma round_ops_length l : length (round_ops l) = (2 * length l)%nat.
Proof. induction l as [|x l IH]; simpl; [reflexivity|]. unfold round_ops in IH. rewrite IH. lia. Qed.

Lemma pairs_gexec l : forall st, SInv st -> 2 <= plen st ->
  pairs H st l = gexec H st (round_ops l).
Proof.
  induction l as [|x l IH]; intros st Hs HL2; [reflexivity|].
  destruct (pair_SInv st x Hs HL2) as [Hs1 Hp1].
  change (pairs H st (x :: l)) with (pairs H (pair_pa H st x) l).
  rewrite IH; [|exact Hs1|lia].
  destruct (popleft_facts H HLs st HL2) as (o & s1 & P & _).
  unfold pair_pa. rewrite P. simpl. rewrite P. reflexivity.
Qed.

(* ------------------------------------------------------------------------- *)
(* Part 3: every window of L + max(10,L) + 1 rounds considers the entry        *)
(* ------------------------------------------------------------------------- *)
Definition window (L : Z) : Z := L + Z.max 10 L + 1.

(* what "maintenance considers e1 in the round x started in state st1" means *)
Definition considered_in_round (rho : Q) (st1 : pos) (x : Z * Q) (e1 : entry pv) : Prop :=
  exists o s1,
    pos_popleft H st1 = Some (o, s1) /\
    let sm := pre_maint H s1 (fst x) (snd x) in
    due sm = true /\ In e1 (arr (pq_ sm)) /\
    ins_at (epri e1) < n_ins sm - plen sm /\
    exists e', In e' (arr (pq_ (pair_pa H st1 x))) /\ tracks e1 e' /\
      (forall hi G, (snd x <= hi)%Q -> (0 <= G)%Q -> (prio e1 - hi <= G)%Q ->
                 (prio e' - hi <= shrink rho (factor st1) * G)%Q) /\
      (forall m, min_regular (arr (pq_ sm)) m -> (m < prio e1)%Q ->
                 (boost (epri e') < boost (epri e1))%Q /\
                 (prio e' - m <= shrink rho (factor st1) * (prio e1 - m))%Q).

Theorem straggler_window st e rho win :
  SInv st -> 2 <= plen st -> In e (arr (pq_ st)) -> regular e ->
  (0 < factor st)%Q -> (0 < rho)%Q ->
  DrOK rho (Z.of_nat (length win) * plen st) st ->
  window (plen st) <= Z.of_nat (length win) ->
  exists l1 x l2, win = l1 ++ x :: l2 /\
    plen st <= Z.of_nat (length l1) <= plen st + Z.max 10 (plen st) /\
    (popped_in st e (l1 ++ [x]) \/
     exists e1, In e1 (arr (pq_ (pairs H st l1))) /\ tracks e e1 /\
                considered_in_round rho (pairs H st l1) x e1).
Proof.
  intros Hs HL2 He Hreg Hf Hrho Hdr Hlen. unfold window in Hlen.
  destruct (prompt H HLs st win (si_cinv _ _ Hs) HL2 Hlen) as (l1 & x & l2 & E & B & M & St).
  exists l1, x, l2. split; [exact E|]. split; [exact B|].
  destruct (rounds_track l1 st e Hs HL2 He) as [Pp|(e1 & He1 & T1)].
  { left. apply popped_in_app_l. exact Pp. }
  destruct (pairs_SInv l1 st Hs HL2) as [Hs1 Hp1].
  assert (Hlw : Z.of_nat (length win) = Z.of_nat (length l1) + 1 + Z.of_nat (length l2)).
  { rewrite E, app_length. simpl length. lia. }
  destruct (pairs_DrOK l1 st rho (plen st) Hs HL2) as [D1 F1].
  { eapply DrOK_mono; [|exact Hdr]. nia. }
  destruct M as (o & s1 & P & Hdue).
  assert (Hreg1 : regular e1).
  { destruct T1 as [T1 _]. unfold regular, ident in *. congruence. }
  assert (Hia1 : ins_at (epri e1) <= n_ins st).
  { destruct T1 as [T1 _]. replace (ins_at (epri e1)) with (ins_at (epri e))
      by (unfold ident in T1; congruence).
    pose proof (si_ia _ _ Hs) as Hia. unfold IA, bounded in Hia. rewrite Forall_forall in Hia. auto. }
  assert (Hstr : In e1 (arr (pq_ (pre_maint H s1 (fst x) (snd x)))) ->
                 ins_at (epri e1) < n_ins (pre_maint H s1 (fst x) (snd x))
                                    - plen (pre_maint H s1 (fst x) (snd x))).
  { intros Hin. destruct (St o s1 P) as [_ Hst]. apply Z.ltb_lt. apply Hst; [exact Hin|exact Hia1]. }
  assert (Hf1 : (0 < factor (pairs H st l1))%Q) by (rewrite F1; exact Hf).
  assert (HL21 : 2 <= plen (pairs H st l1)) by lia.
  assert (D1' : DrOK rho (plen (pairs H st l1)) (pairs H st l1)) by (rewrite Hp1; exact D1).
  destruct (round_shrinks (pairs H st l1) x e1 rho (si_inv _ _ Hs1) HL21 He1 Hreg1 Hf1 Hrho D1'
              o s1 P Hdue Hstr)
    as [(q & Pq)|(Hm & e' & He' & T' & C1 & C2)].
  - left. exists l1, x, [], e1, q. split; [reflexivity|]. split; [exact Pq|apply T1].
  - right. exists e1. split; [exact He1|]. split; [exact T1|].
    exists o, s1. split; [exact P|]. cbv zeta. split; [exact Hdue|]. split; [exact Hm|].
    split; [exact (Hstr Hm)|].
    exists e'. auto.
Qed.

(* the same for a window anywhere in the load *)
Theorem straggler_history st e rho pre win :
  SInv st -> 2 <= plen st -> In e (arr (pq_ st)) -> regular e ->
  (0 < factor st)%Q -> (0 < rho)%Q ->
  DrOK rho (Z.of_nat (length (pre ++ win)) * plen st) st ->
  window (plen st) <= Z.of_nat (length win) ->
  exists l1 x l2, win = l1 ++ x :: l2 /\
    plen st <= Z.of_nat (length l1) <= plen st + Z.max 10 (plen st) /\
    (popped_in st e (pre ++ l1 ++ [x]) \/
     exists e1, In e1 (arr (pq_ (pairs H st (pre ++ l1)))) /\ tracks e e1 /\
                considered_in_round rho (pairs H st (pre ++ l1)) x e1).
Proof.
  intros Hs HL2 He Hreg Hf Hrho Hdr Hlen.
  destruct (pairs_SInv pre st Hs HL2) as [Hs0 Hp0].
  rewrite app_length in Hdr.
  destruct (pairs_DrOK pre st rho (Z.of_nat (length win) * plen st) Hs HL2) as [D0 F0].
  { eapply DrOK_mono; [|exact Hdr]. nia. }
  destruct (rounds_track pre st e Hs HL2 He) as [Pp|(e0 & He0 & T0)].
  - (* already popped before the window: any split will do *)
    destruct (prompt H HLs (pairs H st pre) win (si_cinv _ _ Hs0)) as (l1 & x & l2 & E & B & _);
      [lia|unfold window in Hlen; lia|].
    exists l1, x, l2. split; [exact E|]. split; [lia|]. left. apply popped_in_app_l. exact Pp.
  - assert (Hreg0 : regular e0).
    { destruct T0 as [T0 _]. unfold regular, ident in *. congruence. }
    destruct (straggler_window (pairs H st pre) e0 rho win Hs0) as (l1 & x & l2 & E & B & C);
      auto; try lia; try (rewrite F0; auto); try (rewrite Hp0; auto).
    exists l1, x, l2. split; [exact E|]. split; [lia|].
    destruct C as [Pp|(e1 & He1 & T1 & C1)].
    + left. apply (popped_in_app_r st e e0 pre (l1 ++ [x])); [apply T0|exact Pp].
    + right. exists e1. rewrite pairs_app. split; [exact He1|]. split; [|exact C1].
      eapply tracks_trans; eauto.
Qed.

(* ------------------------------------------------------------------------- *)
(* Part 4: k windows; overtaking                                               *)
(* ------------------------------------------------------------------------- *)
Lemma one_window st e rho hi G win :
  SInv st -> 2 <= plen st -> In e (arr (pq_ st)) -> regular e ->
  (0 < factor st)%Q -> (0 < rho)%Q ->
  DrOK rho (Z.of_nat (length win) * plen st) st ->
  window (plen st) <= Z.of_nat (length win) ->
  Forall (fun x => snd x <= hi)%Q win -> (0 <= G)%Q -> (prio e - hi <= G)%Q ->
  popped_in st e win \/
  exists e', In e' (arr (pq_ (pairs H st win))) /\ tracks e e' /\
             (prio e' - hi <= shrink rho (factor st) * G)%Q.
Proof.
  intros Hs HL2 He Hreg Hf Hrho Hdr Hlen Hhi HG HeG.
  destruct (straggler_window st e rho win Hs HL2 He Hreg Hf Hrho Hdr Hlen)
    as (l1 & x & l2 & E & B & C).
  assert (E' : win = (l1 ++ [x]) ++ l2) by (rewrite <- app_assoc; exact E).
  destruct C as [Pp|(e1 & He1 & T1 & (o & s1 & P & Hdue & Hm & Hst & e' & He' & T' & C1 & _))].
  { left. rewrite E'. apply popped_in_app_l. exact Pp. }
  destruct (pairs_SInv l1 st Hs HL2) as [Hs1 Hp1].
  destruct (pairs_DrOK l1 st rho 0 Hs HL2) as [_ F1].
  { eapply DrOK_mono; [|exact Hdr]. rewrite E, app_length. nia. }
  assert (Hx : (snd x <= hi)%Q).
  { rewrite Forall_forall in Hhi. apply Hhi. rewrite E. apply in_or_app. right. left. reflexivity. }
  assert (Hb : (prio e' - hi <= shrink rho (factor st) * G)%Q).
  { rewrite <- F1. apply C1; auto. destruct T1 as [_ T1]. lra. }
  destruct (pair_SInv (pairs H st l1) x Hs1) as [Hs2 Hp2]; [lia|].
  rewrite <- pairs_snoc in Hs2, Hp2, He'.
  destruct (rounds_track l2 (pairs H st (l1 ++ [x])) e' Hs2) as [Pp|(e2 & He2 & T2)]; [lia|exact He'| |].
  - left. rewrite E'. apply (popped_in_app_r st e e' (l1 ++ [x]) l2); [|exact Pp].
    destruct T1 as [T1 _]. destruct T' as [T' _]. congruence.
  - right. exists e2. rewrite E', pairs_app. split; [exact He2|]. split.
    + eapply tracks_trans; [exact T1|]. eapply tracks_trans; eauto.
    + destruct T2 as [_ T2]. lra.
Qed.

Theorem windows_shrink K : forall st e rho hi G load,
  SInv st -> 2 <= plen st -> In e (arr (pq_ st)) -> regular e ->
  (0 < factor st)%Q -> (0 < rho)%Q ->
  DrOK rho (Z.of_nat (length load) * plen st) st ->
  Z.of_nat (length load) = Z.of_nat K * window (plen st) ->
  Forall (fun x => snd x <= hi)%Q load -> (0 <= G)%Q -> (prio e - hi <= G)%Q ->
  popped_in st e load \/
  exists e', In e' (arr (pq_ (pairs H st load))) /\ tracks e e' /\
             (prio e' - hi <= qpow (shrink rho (factor st)) K * G)%Q.
Proof.
  induction K as [|K IH]; intros st e rho hi G load Hs HL2 He Hreg Hf Hrho Hdr Hlen Hhi HG HeG.
  - destruct load; [|simpl in Hlen; lia]. right. exists e. split; [exact He|].
    split; [apply tracks_refl|]. simpl. lra.
  - set (W := Z.to_nat (window (plen st))).
    assert (HW : Z.of_nat W = window (plen st)) by (unfold W, window; lia).
    assert (Hl1 : length (firstn W load) = W) by (apply firstn_length_le; nia).
    assert (Hl2 : Z.of_nat (length (skipn W load)) = Z.of_nat K * window (plen st)).
    { rewrite skipn_length. nia. }
    pose proof (firstn_skipn W load) as Esplit.
    set (w1 := firstn W load) in *. set (rest := skipn W load) in *.
    assert (Hhi1 : Forall (fun x => snd x <= hi)%Q w1 /\ Forall (fun x => snd x <= hi)%Q rest).
    { rewrite <- Esplit in Hhi. apply Forall_app in Hhi. exact Hhi. }
    destruct Hhi1 as [Hhi1 Hhi2].
    assert (Hll : Z.of_nat (length load) = Z.of_nat (length w1) + Z.of_nat (length rest)).
    { rewrite <- Esplit, app_length. lia. }
    destruct (one_window st e rho hi G w1 Hs HL2 He Hreg Hf Hrho) as [Pp|(e1 & He1 & T1 & B1)]; auto.
    { eapply DrOK_mono; [|exact Hdr]. nia. }
    { lia. }
    { left. rewrite <- Esplit. apply popped_in_app_l. exact Pp. }
    destruct (pairs_SInv w1 st Hs HL2) as [Hs1 Hp1].
    destruct (pairs_DrOK w1 st rho (Z.of_nat (length rest) * plen st) Hs HL2) as [D1 F1].
    { eapply DrOK_mono; [|exact Hdr]. nia. }
    assert (Hreg1 : regular e1).
    { destruct T1 as [T1 _]. unfold regular, ident in *. congruence. }
    destruct (shrink_facts rho (factor st)) as [S0 _].
    destruct (IH (pairs H st w1) e1 rho hi (shrink rho (factor st) * G)%Q rest Hs1)
      as [Pp|(e2 & He2 & T2 & B2)]; auto; try lia.
    + rewrite F1. exact Hf.
    + rewrite Hp1. exact D1.
    + rewrite Hp1. exact Hl2.
    + apply Qmult_le_0_compat; lra.
    + left. rewrite <- Esplit. apply (popped_in_app_r st e e1 w1 rest); [apply T1|exact Pp].
    + right. exists e2. rewrite <- Esplit, pairs_app. split; [exact He2|]. split.
      * eapply tracks_trans; eauto.
      * rewrite F1 in B2. simpl qpow. set (c := shrink rho (factor st)) in *.
        assert (Er : (c * qpow c K * G == qpow c K * (c * G))%Q) by ring. lra.
Qed.

(* --- overtaking: once at or below a threshold T, the entry is popped within
   2L rounds of stream entries of priority >= T --- *)
Definition ahead (e : entry pv) (a : list (entry pv)) : nat :=
  length (filter (fun x => elt x e) a).

Lemma ahead_perm e a a' : Permutation a a' -> ahead e a = ahead e a'.
Proof.
  unfold ahead. induction 1 as [|y a a' Hp IH|y z a|a a' a'' _ IH1 _ IH2]; simpl; auto.
  - destruct (elt y e); simpl; lia.
  - destruct (elt y e), (elt z e); simpl; lia.
  - lia.
Qed.

Lemma ahead_le e a : (ahead e a <= length a)%nat.
Proof.
  unfold ahead. induction a as [|y a IH]; simpl; auto. destruct (elt y e); simpl; lia.
Qed.

Lemma ahead_lt e a : In e a -> (ahead e a < length a)%nat.
Proof.
  unfold ahead. induction a as [|y a IH]; simpl; [tauto|]. intros [->|Hin].
  - rewrite (elt_irrefl SW e). pose proof (ahead_le e a) as Hle. unfold ahead in Hle. lia.
  - specialize (IH Hin). destruct (elt y e); simpl; lia.
Qed.

Definition maint_b (st : pos) (x : Z * Q) : bool :=
  match pos_popleft H st with
  | Some (_, s1) => due (pre_maint H s1 (fst x) (snd x))
  | None => false
  end.

Fixpoint nomaint (st : pos) (l : list (Z * Q)) : Prop :=
  match l with
  | [] => True
  | x :: l' => maint_b st x = false /\ nomaint (pair_pa H st x) l'
  end.

Lemma drain l : forall st e T,
  SInv st -> 2 <= plen st -> In e (arr (pq_ st)) -> pclass (epri e) = 1 ->
  (prio e <= T)%Q -> Forall (fun x => T <= snd x)%Q l -> nomaint st l ->
  (ahead e (arr (pq_ st)) < length l)%nat -> popped_in st e l.
Proof.
  induction l as [|x l IH]; intros st e T Hs HL2 He Hcl HeT HT Hnm Hah; [simpl in Hah; lia|].
  destruct Hnm as [Hmb Hnm].
  destruct (round_cases st x (si_inv _ _ Hs) HL2)
    as (h & a1 & s1 & Epe & Epl & Hp & Hall & Hpm & Hplen & _ & _ & _ & _ & _ & _ & Epair).
  unfold maint_b in Hmb. rewrite Epl in Hmb. rewrite Hmb in Epair.
  pose proof (Permutation_in _ Hp He) as He'. destruct He' as [<-|He1].
  { exists [], x, l, h, (mkPQ (seqn (pq_ st)) a1). repeat split; auto. }
  destruct (si_inv _ _ Hs) as [Hh (Hnd & Hsq & Hs0)].
  (* the head is ahead of e *)
  assert (Hhe : elt h e = true).
  { apply (ele_elt SW).
    - eapply Permutation_NoDup in Hnd; [|apply Permutation_map, Hp]. simpl in Hnd.
      inversion Hnd as [|? ? Hnin _]; subst. intros Eq. apply Hnin. rewrite Eq.
      apply in_map. exact He1.
    - rewrite Forall_forall in Hall. apply Hall. exact He1. }
  (* the new entry is not *)
  set (nw := mkE (mkPV (snd x) (n_ins st) 0 1) (seqn (pq_ st)) (fst x)) in *.
  assert (Hnw : elt nw e = false).
  { unfold entry_lt. rewrite Hplt.
    assert (Hx : (T <= snd x)%Q) by (inversion HT; auto).
    assert (A1 : pv_lt (epri nw) (epri e) = false).
    { apply pv_lt_false. right. split; [simpl; lia|]. unfold prio in HeT. unfold nw, pv_priority.
      simpl. unfold pv_priority in HeT. lra. }
    rewrite A1. simpl. apply andb_false_iff. right. apply Z.ltb_ge.
    rewrite Forall_forall in Hsq. specialize (Hsq e He). unfold nw. simpl. lia. }
  destruct (pair_SInv st x Hs HL2) as [Hs1 Hp1].
  assert (He2 : In e (arr (pq_ (pair_pa H st x)))).
  { rewrite Epair. eapply Permutation_in; [apply Permutation_sym, Hpm|]. right. exact He1. }
  assert (Hah2 : (ahead e (arr (pq_ (pair_pa H st x))) < length l)%nat).
  { rewrite Epair. rewrite (ahead_perm e _ _ Hpm). rewrite (ahead_perm e _ _ Hp) in Hah.
    unfold ahead in *. simpl in *. rewrite Hhe in Hah. fold nw. rewrite Hnw. simpl in Hah. lia. }
  change (x :: l) with ([x] ++ l).
  apply (popped_in_app_r st e e [x] l); [reflexivity|].
  apply (IH (pair_pa H st x) e T Hs1); auto; [lia|inversion HT; auto].
Qed.

Lemma nomaint_counters l : forall st, SInv st -> 2 <= plen st ->
  Z.min (n_ins st) (n_rem st) + Z.of_nat (length l) <= Z.max 10 (plen st) + last_maint st ->
  nomaint st l.
Proof.
  induction l as [|x l IH]; intros st Hs HL2 Hc; [exact I|].
  destruct (round_cases st x (si_inv _ _ Hs) HL2)
    as (h & a1 & s1 & _ & Epl & _ & _ & _ & Hplen & Hni & Hnr & Hlm & _ & _ & _ & Epair).
  simpl length in Hc.
  assert (Hd : due (pre_maint H s1 (fst x) (snd x)) = false).
  { unfold due. rewrite Hplen, Hni, Hnr, Hlm. apply Z.ltb_ge. lia. }
  split.
  - unfold maint_b. rewrite Epl. exact Hd.
  - destruct (pair_SInv st x Hs HL2) as [Hs1 Hp1]. apply IH; auto; [lia|].
    rewrite Hp1. rewrite Epair, Hd, Hni, Hnr, Hlm. lia.
Qed.

Lemma first_maint l : forall st,
  nomaint st l \/
  exists l1 x l2, l = l1 ++ x :: l2 /\ nomaint st l1 /\ maint_b (pairs H st l1) x = true.
Proof.
  induction l as [|x l IH]; intros st; [left; exact I|].
  destruct (maint_b st x) eqn:Mb.
  - right. exists [], x, l. repeat split; auto.
  - destruct (IH (pair_pa H st x)) as [Hn|(l1 & y & l2 & E & Hn & Hm)].
    + left. split; auto.
    + right. exists (x :: l1), y, l2. rewrite E. repeat split; auto.
Qed.

Theorem overtakes st e T l :
  SInv st -> 2 <= plen st -> In e (arr (pq_ st)) -> pclass (epri e) = 1 ->
  (prio e <= T)%Q -> Forall (fun x => T <= snd x)%Q l ->
  2 * plen st <= Z.of_nat (length l) -> popped_in st e l.
Proof.
  intros Hs HL2 He Hcl HeT HT Hlen.
  set (n := Z.to_nat (plen st)). assert (Hn : Z.of_nat n = plen st) by (unfold n; lia).
  pose proof (firstn_skipn n l) as Esplit.
  assert (Hla : length (firstn n l) = n) by (apply firstn_length_le; lia).
  assert (Hlb : (n <= length (skipn n l))%nat) by (rewrite skipn_length; lia).
  set (la := firstn n l) in *. set (lb := skipn n l) in *.
  assert (HTs : Forall (fun x => T <= snd x)%Q la /\ Forall (fun x => T <= snd x)%Q lb).
  { rewrite <- Esplit in HT. apply Forall_app in HT. exact HT. }
  destruct HTs as [HTa HTb].
  assert (Hlenarr : forall st', plen st' = plen st -> length (arr (pq_ st')) = n).
  { intros st' E. unfold plen in *. lia. }
  destruct (first_maint la st) as [Hn0|(l1 & x & l2 & E & Hn1 & Hm)].
  - rewrite <- Esplit. apply popped_in_app_l. apply (drain la st e T); auto.
    rewrite Hla. rewrite <- (Hlenarr st eq_refl). apply ahead_lt. exact He.
  - (* maintenance in round x of the first L rounds; none in the L rounds after it *)
    assert (El : l = (l1 ++ [x]) ++ (l2 ++ lb)).
    { rewrite <- Esplit, E, <- !app_assoc. reflexivity. }
    destruct (rounds_track l1 st e Hs HL2 He) as [Pp|(e1 & He1 & T1)].
    { rewrite El, <- app_assoc. apply popped_in_app_l. exact Pp. }
    destruct (pairs_SInv l1 st Hs HL2) as [Hs1 Hp1].
    destruct (round_track (pairs H st l1) x e1 (si_inv _ _ Hs1)) as [(q & Pq)|(e2 & He2 & T2)];
      [lia|exact He1| |].
    { rewrite El. apply popped_in_app_l. exists l1, x, [], e1, q.
      split; [reflexivity|]. split; [exact Pq|apply T1]. }
    rewrite <- pairs_snoc in He2.
    destruct (pair_SInv (pairs H st l1) x Hs1) as [Hs2 Hp2]; [lia|].
    rewrite <- pairs_snoc in Hs2, Hp2.
    set (st2 := pairs H st (l1 ++ [x])) in *.
    (* counters after the maintenance round *)
    assert (Hc2 : last_maint st2 = Z.min (n_ins st2) (n_rem st2)).
    { unfold st2. rewrite pairs_snoc.
      destruct (round_cases (pairs H st l1) x (si_inv _ _ Hs1))
        as (h & a1 & s1 & _ & Epl & _ & _ & _ & _ & Hni & Hnr & _ & _ & _ & _ & Epair); [lia|].
      unfold maint_b in Hm. rewrite Epl in Hm. rewrite Hm in Epair. rewrite Epair.
      destruct (do_maintenance_frame H (pre_maint H s1 (fst x) (snd x))) as (_ & F2 & F3 & _).
      unfold set_lm. simpl. rewrite F2, F3, Hni, Hnr. reflexivity. }
    set (lc := firstn n (l2 ++ lb)).
    assert (Hlc : length lc = n).
    { apply firstn_length_le. rewrite app_length. lia. }
    assert (HTc : Forall (fun x => T <= snd x)%Q lc).
    { apply Forall_forall. intros y Hy0.
      assert (Hy : In y (l2 ++ lb)) by (rewrite <- (firstn_skipn n (l2 ++ lb)); apply in_or_app; left; exact Hy0).
      apply in_app_or in Hy.
      rewrite Forall_forall in HTa, HTb. destruct Hy as [Hy|Hy]; [|auto].
      apply HTa. rewrite E. apply in_or_app. right. right. exact Hy. }
    assert (Hpop : popped_in st2 e2 lc).
    { apply (drain lc st2 e2 T); auto; try lia.
      - destruct T1 as [T1 _]. destruct T2 as [T2 _]. unfold ident in *. congruence.
      - destruct T1 as [_ T1]. destruct T2 as [_ T2]. lra.
      - apply nomaint_counters; auto; [lia|]. rewrite Hlc, Hc2. lia.
      - rewrite Hlc. rewrite <- (Hlenarr st2); [|lia]. apply ahead_lt. exact He2. }
    rewrite El. rewrite <- (firstn_skipn n (l2 ++ lb)). fold lc. rewrite app_assoc.
    apply popped_in_app_l. apply (popped_in_app_r st e e2 (l1 ++ [x]) lc); [|exact Hpop].
    destruct T1 as [T1 _]. destruct T2 as [T2 _]. congruence.
Qed.

(* The whole-history version of "so it eventually runs":  K windows of stream
   entries of priority <= hi bring the entry within eps = shrink^K * G of hi,
   and it is then popped within 2L rounds of stream entries of priority
   >= hi + eps. *)
Theorem eventually_runs_history st e rho hi G eps K phase1 phase2 :
  SInv st -> 2 <= plen st -> In e (arr (pq_ st)) -> pclass (epri e) = 1 ->
  (0 < factor st)%Q -> (0 < rho)%Q ->
  DrOK rho (Z.of_nat (length phase1) * plen st) st ->
  Z.of_nat (length phase1) = Z.of_nat K * window (plen st) ->
  Forall (fun x => snd x <= hi)%Q phase1 ->
  (0 <= G)%Q -> (prio e - hi <= G)%Q -> (qpow (shrink rho (factor st)) K * G <= eps)%Q ->
  2 * plen st <= Z.of_nat (length phase2) ->
  Forall (fun x => hi + eps <= snd x)%Q phase2 ->
  popped_in st e (phase1 ++ phase2).
Proof.
  intros Hs HL2 He Hcl Hf Hrho Hdr Hlen Hhi HG HeG Heps Hlen2 Hlo.
  assert (Hreg : regular e) by (unfold regular; lia).
  destruct (windows_shrink K st e rho hi G phase1 Hs HL2 He Hreg Hf Hrho Hdr Hlen Hhi HG HeG)
    as [Pp|(e1 & He1 & T1 & B1)].
  - apply popped_in_app_l. exact Pp.
  - destruct (pairs_SInv phase1 st Hs HL2) as [Hs1 Hp1].
    apply (popped_in_app_r st e e1 phase1 phase2); [apply T1|].
    apply (overtakes (pairs H st phase1) e1 (hi + eps)%Q phase2 Hs1); auto; try lia.
    + destruct T1 as [T1 _]. unfold ident in T1. congruence.
    + lra.
Qed.

(* the boost factor never changes *)
Lemma pairs_factor l : forall st, SInv st -> 2 <= plen st -> factor (pairs H st l) = factor st.
Proof.
  induction l as [|x l IH]; intros st Hs HL2; [reflexivity|].
  destruct (pair_SInv st x Hs HL2) as [Hs1 Hp1].
  change (pairs H st (x :: l)) with (pairs H (pair_pa H st x) l).
  rewrite IH; [|exact Hs1|lia].
  destruct (round_cases st x (si_inv _ _ Hs) HL2)
    as (h & a1 & s1 & _ & _ & _ & _ & _ & _ & _ & _ & _ & Hfa & _ & _ & Epair).
  rewrite Epair. destruct (due _); [|exact Hfa].
  destruct (do_maintenance_frame H (pre_maint H s1 (fst x) (snd x))) as (_ & _ & _ & F4 & _).
  unfold set_lm. cbn [factor]. rewrite F4. exact Hfa.
Qed.

(* ... with the explicit bound: the popleft that returns the entry is one of the
   first K * window + 2L rounds, however long the second phase goes on *)
Theorem eventually_runs_bound st e rho hi G eps K phase1 phase2 :
  SInv st -> 2 <= plen st -> In e (arr (pq_ st)) -> pclass (epri e) = 1 ->
  (0 < factor st)%Q -> (0 < rho)%Q ->
  DrOK rho (Z.of_nat (length phase1) * plen st) st ->
  Z.of_nat (length phase1) = Z.of_nat K * window (plen st) ->
  Forall (fun x => snd x <= hi)%Q phase1 ->
  (0 <= G)%Q -> (prio e - hi <= G)%Q -> (qpow (shrink rho (factor st)) K * G <= eps)%Q ->
  2 * plen st <= Z.of_nat (length phase2) ->
  Forall (fun x => hi + eps <= snd x)%Q phase2 ->
  exists l1 x l2 e1 q,
    phase1 ++ phase2 = l1 ++ x :: l2 /\
    Z.of_nat (length l1) < Z.of_nat K * window (plen st) + 2 * plen st /\
    pq_popentry H (pq_ (pairs H st l1)) = Some (e1, q) /\ ident e1 = ident e.
Proof.
  intros Hs HL2 He Hcl Hf Hrho Hdr Hlen Hhi HG HeG Heps Hlen2 Hlo.
  set (n := Z.to_nat (2 * plen st)).
  assert (Hn : Z.of_nat n = 2 * plen st) by (unfold n; lia).
  assert (Hl2 : length (firstn n phase2) = n) by (apply firstn_length_le; lia).
  assert (Hlo2 : Forall (fun x => hi + eps <= snd x)%Q (firstn n phase2)).
  { rewrite <- (firstn_skipn n phase2) in Hlo. apply Forall_app in Hlo. apply Hlo. }
  destruct (eventually_runs_history st e rho hi G eps K phase1 (firstn n phase2)
              Hs HL2 He Hcl Hf Hrho Hdr Hlen Hhi HG HeG Heps) as (l1 & x & l2 & e1 & q & E & P & I);
    [lia|exact Hlo2|].
  exists l1, x, (l2 ++ skipn n phase2), e1, q. split; [|split; [|split; [exact P|exact I]]].
  - rewrite <- (firstn_skipn n phase2) at 1. rewrite app_assoc, E, <- app_assoc. reflexivity.
  - apply (f_equal (@length _)) in E. rewrite !app_length in E. simpl length in E. lia.
Qed.

End Track.

(* ------------------------------------------------------------------------- *)
(* Part 5: the converse - with draw * factor < 1 a stream that stays at the    *)
(* most urgent priority is never overtaken                                     *)
(* ------------------------------------------------------------------------- *)
Lemma boost_loop_lower a : forall limit m f ds lb,
  (0 < f)%Q -> Forall (fun r => 0 <= r /\ r * f < 1)%Q ds -> (lb <= m)%Q ->
  Forall2 (fun x x' => ident x' = ident x /\ (prio x' <= prio x)%Q /\
                       ((lb <= prio x)%Q -> (lb <= prio x')%Q) /\
                       ((lb < prio x)%Q -> (lb < prio x')%Q))
          a (fst (fst (boost_loop a limit m f ds))).
Proof.
  induction a as [|e t IH]; simpl; intros limit m f ds lb Hf Hd Hlb; [constructor|].
  destruct (_ || _ || _) eqn:C.
  - specialize (IH limit m f ds lb Hf Hd Hlb).
    destruct (boost_loop t limit m f ds) as [[t' ds'] n]. simpl in *.
    constructor; auto. split; [reflexivity|]. split; [apply Qle_refl|]. split; auto.
  - assert (Hd' : Forall (fun r => 0 <= r /\ r * f < 1)%Q (tl ds)).
    { destruct ds; simpl; auto. now inversion Hd. }
    specialize (IH limit m f (tl ds) lb Hf Hd' Hlb).
    apply orb_false_iff in C. destruct C as [C C3].
    apply negb_false_iff, BoostProofs.qltb_lt in C3.
    set (r := match ds with [] => 0%Q | d :: _ => d end) in *.
    assert (Hr : (0 <= r /\ r * f < 1)%Q).
    { unfold r. destruct ds; [split; lra|]. now inversion Hd. }
    destruct (qltb (r * ((m - pv_priority (epri e)) * f)) 0) eqn:PB; simpl;
      destruct (boost_loop t limit m f (tl ds)) as [[t' ds'] n]; simpl in *.
    + apply BoostProofs.qltb_lt in PB. constructor; auto. split; [reflexivity|].
      unfold prio, pv_priority in *. simpl.
      set (p := (base (epri e) + boost (epri e))%Q) in *.
      assert (X : (0 < (1 - r * f) * (p - m))%Q) by (apply Qmult_lt_0_compat; lra).
      subst p. split; [lra|]. split; intros; lra.
    + constructor; auto. split; [reflexivity|]. split; [apply Qle_refl|]. split; auto.
Qed.

Lemma Forall2_in_r {A B} (P : A -> B -> Prop) l l' y :
  Forall2 P l l' -> In y l' -> exists x, In x l /\ P x y.
Proof.
  induction 1 as [|a b l l' Hab HF IH]; simpl; [tauto|].
  intros [<-|Hy]; [exists a; auto|]. destruct (IH Hy) as (x & Hx & Px). exists x; auto.
Qed.

Section Never.
Context (H : heapimpl pv) (Hplt : plt H = pv_lt) (HS : HeapSpec H).
Notation Inv := (PQProofs.Inv H).
Notation elt := (entry_lt (plt H)).
Notation ele := (Order.ele (plt H)).
Notation SW := (SWp H Hplt).
Notation SInv := (SInv H).

Definition small_draws (f : Q) (ds : list Q) : Prop :=
  Forall (fun r => 0 <= r /\ r * f < 1)%Q ds.

Lemma maintenance_lower s lb :
  (0 < factor s)%Q -> small_draws (factor s) (draws s) ->
  (forall x, In x (arr (pq_ s)) -> regular x -> (lb <= prio x)%Q) ->
  (forall x', In x' (arr (pq_ (do_maintenance H s))) -> regular x' -> (lb <= prio x')%Q) /\
  (forall x, In x (arr (pq_ s)) ->
     exists x', In x' (arr (pq_ (do_maintenance H s))) /\ tracks x x' /\
                ((lb < prio x)%Q -> (lb < prio x')%Q)) /\
  small_draws (factor s) (draws (do_maintenance H s)).
Proof.
  intros Hf Hd Hlb.
  assert (Hdr : small_draws (factor s) (draws (do_maintenance H s))).
  { destruct (do_maintenance_draws H s) as (u & Eu & _). unfold small_draws in *.
    rewrite Eu in Hd. apply Forall_app in Hd. apply Hd. }
  split; [|split; [|exact Hdr]]; clear Hdr.
  - unfold do_maintenance.
    destruct (Qeq_bool (factor s) 0); [exact Hlb|].
    destruct (find _ _) as [r|] eqn:F; [|exact Hlb].
    destruct (has_straggler _ _); [|exact Hlb].
    apply List.find_some in F. destruct F as [F1 F2]. apply negb_true_iff, Z.eqb_neq in F2.
    set (m := minmax_loop (arr (pq_ s)) (pv_priority (epri r))).
    assert (Hm : (lb <= m)%Q).
    { destruct (minmax_loop_spec (arr (pq_ s)) (pv_priority (epri r))) as (_ & _ & M3).
      fold m in M3. destruct M3 as [M3|(x & X1 & X2 & X3)].
      - rewrite M3. apply (Hlb r F1 F2).
      - rewrite <- X3. apply Hlb; auto. }
    pose proof (boost_loop_lower (arr (pq_ s)) (n_ins s - plen s) m (factor s) (draws s) lb Hf Hd Hm) as HF.
    destruct (boost_loop _ _ _ _ _) as [[a' ds'] n]. simpl in HF. cbn [pq_ arr].
    intros x' Hx' Rx'.
    assert (Hx'' : In x' a').
    { destruct n; auto. eapply Permutation_in; [apply (hs_heapify_perm HS)|exact Hx']. }
    destruct (Forall2_in_r _ _ _ _ HF Hx'') as (x & Hx & Hid & _ & Hl & _).
    apply Hl. apply Hlb; auto. unfold regular, ident in *. congruence.
  - intros x Hx. unfold do_maintenance.
    destruct (Qeq_bool (factor s) 0); [exists x; split; auto; split; [apply tracks_refl|auto]|].
    destruct (find _ _) as [r|] eqn:F; [|exists x; split; auto; split; [apply tracks_refl|auto]].
    destruct (has_straggler _ _); [|exists x; split; auto; split; [apply tracks_refl|auto]].
    apply List.find_some in F. destruct F as [F1 F2]. apply negb_true_iff, Z.eqb_neq in F2.
    set (m := minmax_loop (arr (pq_ s)) (pv_priority (epri r))).
    assert (Hm : (lb <= m)%Q).
    { destruct (minmax_loop_spec (arr (pq_ s)) (pv_priority (epri r))) as (_ & _ & M3).
      fold m in M3. destruct M3 as [M3|(y & X1 & X2 & X3)].
      - rewrite M3. apply (Hlb r F1 F2).
      - rewrite <- X3. apply Hlb; auto. }
    pose proof (boost_loop_lower (arr (pq_ s)) (n_ins s - plen s) m (factor s) (draws s) lb Hf Hd Hm) as HF.
    destruct (boost_loop _ _ _ _ _) as [[a' ds'] n]. simpl in HF. cbn [pq_ arr].
    destruct (@Forall2_in_l _ _ _ _ _ _ HF Hx) as (x' & Hx' & Hid & Hle & _ & Hlt).
    exists x'. split; [|split; [split; auto|exact Hlt]].
    destruct n; auto. eapply Permutation_in; [apply Permutation_sym, (hs_heapify_perm HS)|exact Hx'].
Qed.

(* the situation that persists: e is queued, strictly less urgent than q, every
   regular entry is at priority >= q, and some entry is ahead of e *)
Record NInv (q : Q) (st : pos) (e : entry pv) : Prop := mkNI {
  ni_s : SInv st; ni_len : 2 <= plen st; ni_in : In e (arr (pq_ st));
  ni_cl : pclass (epri e) = 1; ni_f : (0 < factor st)%Q;
  ni_d : small_draws (factor st) (draws st);
  ni_lb : forall x, In x (arr (pq_ st)) -> regular x -> (q <= prio x)%Q;
  ni_gt : (q < prio e)%Q;
  ni_ahead : exists e0, In e0 (arr (pq_ st)) /\ elt e0 e = true }.

Lemma never_round q st e x : NInv q st e -> (snd x == q)%Q ->
  (forall h qq, pq_popentry H (pq_ st) = Some (h, qq) -> eseq h <> eseq e) /\
  exists e', NInv q (pair_pa H st x) e' /\ tracks e e'.
Proof.
  intros [Hs HL2 He Hcl Hf Hd Hlb Hgt (e0 & He0 & Hah)] Hx.
  destruct (round_cases H Hplt HS st x (si_inv _ _ Hs) HL2)
    as (h & a1 & s1 & Epe & Epl & Hp & Hall & Hpm & Hplen & _ & _ & _ & Hfa & Hdr & _ & Epair).
  destruct (si_inv _ _ Hs) as [Hh (Hnd & Hsq & Hs0)].
  assert (Hne : eseq h <> eseq e).
  { intros Eq. assert (Ehe : h = e).
    { apply (NoDup_map_inj_in (@eseq pv) (arr (pq_ st))); auto.
      eapply Permutation_in; [apply Permutation_sym, Hp|]. left. reflexivity. }
    subst h. apply (Permutation_in _ Hp) in He0. destruct He0 as [<-|He0].
    - rewrite (elt_irrefl SW e) in Hah. discriminate.
    - rewrite Forall_forall in Hall. specialize (Hall e0 He0). unfold Order.ele in Hall.
      rewrite Hall in Hah. discriminate. }
  split. { intros h' qq E. rewrite Epe in E. injection E as <- _. exact Hne. }
  assert (He1 : In e a1).
  { apply (Permutation_in _ Hp) in He. destruct He as [<-|He]; [congruence|exact He]. }
  set (sm := pre_maint H s1 (fst x) (snd x)) in *.
  set (nw := mkE (mkPV (snd x) (n_ins st) 0 1) (seqn (pq_ st)) (fst x)) in *.
  assert (Hem : In e (arr (pq_ sm))).
  { eapply Permutation_in; [apply Permutation_sym, Hpm|]. right. exact He1. }
  assert (Hnm : In nw (arr (pq_ sm))).
  { eapply Permutation_in; [apply Permutation_sym, Hpm|]. left. reflexivity. }
  assert (Hnq : (prio nw == q)%Q).
  { unfold prio, pv_priority, nw. simpl. rewrite Hx. ring. }
  assert (Hlbm : forall y, In y (arr (pq_ sm)) -> regular y -> (q <= prio y)%Q).
  { intros y Hy Ry. apply (Permutation_in _ Hpm) in Hy. destruct Hy as [<-|Hy].
    - rewrite Hnq. apply Qle_refl.
    - apply Hlb; auto. eapply Permutation_in; [apply Permutation_sym, Hp|]. right. exact Hy. }
  destruct (pair_SInv H Hplt HS st x Hs HL2) as [Hs1 Hp1].
  assert (Hlt : forall n' e', pclass (epri n') = 1 -> pclass (epri e') = 1 ->
                (prio n' < prio e')%Q -> elt n' e' = true).
  { intros n' e' C1 C2 Hl. unfold entry_lt. rewrite Hplt.
    assert (A : pv_lt (epri n') (epri e') = true).
    { apply pv_lt_true. right. split; [congruence|exact Hl]. }
    rewrite A. reflexivity. }
  rewrite Epair in Hs1, Hp1. rewrite Epair.
  destruct (due sm) eqn:Hdue.
  - destruct (maintenance_lower sm q) as (L1 & L2 & L3);
      [rewrite Hfa; exact Hf | rewrite Hfa, Hdr; exact Hd | exact Hlbm |].
    destruct (L2 e Hem) as (e' & He' & T & Hgt').
    destruct (L2 nw Hnm) as (nw' & Hnw' & Tn & _).
    destruct (do_maintenance_frame H sm) as (_ & _ & _ & F4 & _).
    exists e'. split; [|exact T]. apply mkNI.
    + exact Hs1.
    + rewrite Hp1. exact HL2.
    + exact He'.
    + destruct T as [T _]. unfold ident in T. congruence.
    + unfold set_lm. cbn [factor]. rewrite F4, Hfa. exact Hf.
    + unfold set_lm. cbn [factor draws]. rewrite F4. exact L3.
    + exact L1.
    + exact (Hgt' Hgt).
    + exists nw'. split; [exact Hnw'|]. apply Hlt.
      * destruct Tn as [Tn _]. unfold ident in Tn.
        replace (pclass (epri nw')) with (pclass (epri nw)) by congruence. reflexivity.
      * destruct T as [T _]. unfold ident in T. congruence.
      * destruct Tn as [_ Tn]. specialize (Hgt' Hgt). lra.
  - exists e. split; [|apply tracks_refl]. apply mkNI.
    + exact Hs1.
    + rewrite Hp1. exact HL2.
    + exact Hem.
    + exact Hcl.
    + rewrite Hfa. exact Hf.
    + rewrite Hfa, Hdr. exact Hd.
    + exact Hlbm.
    + exact Hgt.
    + exists nw. split; [exact Hnm|]. apply Hlt; auto. lra.
Qed.

(* for EVERY load of stream entries of priority q: e is never returned by a
   popleft and its priority() stays strictly above q *)
Theorem never_popped q load : forall st e,
  NInv q st e -> Forall (fun x => snd x == q)%Q load ->
  ~ popped_in H st e load /\
  exists e', NInv q (pairs H st load) e' /\ tracks e e'.
Proof.
  induction load as [|x load IH]; intros st e Hn Hq.
  - split; [|exists e; split; [exact Hn|apply tracks_refl]].
    intros (l1 & y & l2 & e1 & qq & E & _). destruct l1; discriminate.
  - assert (Hx : (snd x == q)%Q) by (inversion Hq; auto).
    assert (Hq' : Forall (fun x => snd x == q)%Q load) by (inversion Hq; auto).
    destruct (never_round q st e x Hn Hx) as (Hhd & e' & Hn' & T).
    destruct (IH (pair_pa H st x) e' Hn' Hq') as (Hnp & e'' & Hn'' & T').
    split.
    + intros (l1 & y & l2 & e1 & qq & E & P & I). destruct l1 as [|z l1].
      * simpl in E, P. apply (Hhd e1 qq P). unfold ident in I. congruence.
      * injection E as <- E. apply Hnp. exists l1, y, l2, e1, qq. split; [exact E|].
        split; [exact P|]. destruct T as [T _]. congruence.
    + exists e''. split; [exact Hn''|]. eapply tracks_trans; eauto.
Qed.

End Never.

(* ------------------------------------------------------------------------- *)
(* The executed model; reachable states                                       *)
(* ------------------------------------------------------------------------- *)
Lemma HPV_plt : plt HPV = pv_lt.
Proof. reflexivity. Qed.

(* every state reachable from the empty queue by ANY history satisfies SInv *)
Theorem reachable_SInv f ds hist : SInv HPV (pos_exec (pos_empty f ds) hist).
Proof.
  rewrite pos_exec_gexec. apply (gexec_SInv HPV HPV_plt HPV_heapspec). apply SInv_empty.
Qed.

(* the rounds of a load are the operation history popleft; append_pri; ... *)
Lemma pairs_pos_exec st l : SInv HPV st -> 2 <= plen st ->
  pairs HPV st l = pos_exec st (round_ops l).
Proof.
  intros Hs HL2. rewrite pos_exec_gexec. apply (pairs_gexec HPV HPV_plt HPV_heapspec); auto.
Qed.

(* "maintenance considers e within the window win, or e was popped before",
   with the bound L + max(10,L) on the number of rounds before that round *)
Definition considered_within (H : heapimpl pv) (rho : Q) (st : pos) (e : entry pv)
           (win : list (Z * Q)) (L : Z) : Prop :=
  exists l1 x l2, win = l1 ++ x :: l2 /\
    L <= Z.of_nat (length l1) <= L + Z.max 10 L /\
    (popped_in H st e (l1 ++ [x]) \/
     exists e1, In e1 (arr (pq_ (pairs H st l1))) /\ tracks e e1 /\
                considered_in_round H rho (pairs H st l1) x e1).

(* history independence: the bound of straggler_window mentions only L *)
Theorem history_independent f1 ds1 h1 f2 ds2 h2 rho e1 e2 win1 win2 :
  let s1 := pos_exec (pos_empty f1 ds1) h1 in
  let s2 := pos_exec (pos_empty f2 ds2) h2 in
  Permutation (map ident (arr (pq_ s1))) (map ident (arr (pq_ s2))) ->
  let L := plen s1 in
  2 <= L ->
  In e1 (arr (pq_ s1)) -> In e2 (arr (pq_ s2)) -> regular e1 -> regular e2 ->
  (0 < factor s1)%Q -> (0 < factor s2)%Q -> (0 < rho)%Q ->
  DrOK rho (Z.of_nat (length win1) * L) s1 -> DrOK rho (Z.of_nat (length win2) * L) s2 ->
  window L <= Z.of_nat (length win1) -> window L <= Z.of_nat (length win2) ->
  plen s2 = L /\
  considered_within HPV rho s1 e1 win1 L /\ considered_within HPV rho s2 e2 win2 L.
Proof.
  intros s1 s2 Hperm L HL2 He1 He2 Hr1 Hr2 Hf1 Hf2 Hrho D1 D2 W1 W2.
  assert (HL : plen s2 = L).
  { unfold L, plen. apply Permutation_length in Hperm. rewrite !map_length in Hperm. lia. }
  split; [exact HL|]. split.
  - apply (straggler_window HPV HPV_plt HPV_heapspec s1 e1 rho win1); auto. apply reachable_SInv.
  - rewrite <- HL. apply (straggler_window HPV HPV_plt HPV_heapspec s2 e2 rho win2); auto;
      try (rewrite HL; auto). apply reachable_SInv.
Qed.

(* ------------------------------------------------------------------------- *)
(* Examples                                                                   *)
(* ------------------------------------------------------------------------- *)
Lemma DrOK_check rho n st :
  forallb (fun d => Qle_bool rho d) (draws st) = true ->
  (n <=? Z.of_nat (length (draws st))) = true -> DrOK rho n st.
Proof.
  intros A B. split; [|apply Z.leb_le; exact B].
  apply Forall_forall. intros d Hd. rewrite forallb_forall in A. apply Qle_bool_iff, A, Hd.
Qed.

Definition rnds (n : nat) (o : Z) (p : Q) : list posop :=
  concat (repeat [QPopleft; QAppendPri o p] n).

(* a prior busy period of 300 operations: two stretches each drained to empty,
   a third one that leaves 7 entries queued and the counters far from zero *)
Definition busy_history : list posop :=
  [QAppendPri 1 0; QAppendPri 2 0] ++ rnds 40 3 0 ++ [QPopleft; QPopleft] ++
  [QAppendPri 4 0; QAppendPri 5 0; QAppendPri 6 0] ++ rnds 30 7 0 ++ [QPopleft; QPopleft; QPopleft] ++
  map (fun o => QAppendPri o 0) [11; 12; 13; 14; 15; 16; 17] ++ rnds 71 8 0 ++ [QIter].

(* ... then the straggler: object 100, priority 10 *)
Definition ex_start (f : Q) : pos :=
  pos_exec (pos_empty f (repeat (1#2) 400)) (busy_history ++ [QAppendPri 100 10]).

(* number (from 1) of the round whose popleft returns the object obj *)
Fixpoint pop_round (s : pos) (l : list (Z * Q)) (obj : Z) (i : nat) : option nat :=
  match l with
  | [] => None
  | x :: l' =>
      match pos_popleft HPV s with
      | Some (o, s1) => if (o =? obj) then Some i
                        else pop_round (pos_append_pri HPV s1 (fst x) (snd x)) l' obj (S i)
      | None => None
      end
  end.

Definition ex_phase1 : list (Z * Q) := repeat (50, 0%Q) 38.   (* 2 windows of 19 rounds *)
Definition ex_phase2 : list (Z * Q) := repeat (51, 1%Q) 16.   (* 2 L rounds *)

Definition ex_entry : entry pv := mkE (mkPV 10 78 0 1) 78 100.

Lemma Forall_repeat {A} (P : A -> Prop) x n : P x -> Forall P (repeat x n).
Proof. intros Hx. apply Forall_forall. intros y Hy. apply repeat_spec in Hy. now subst. Qed.

(* Example 1.  After the busy period (300 operations, two drains; the counters
   are (last_maintenance, n_inserted, n_removed) = (66, 79, 71)) the straggler
   of priority 10 faces a stream of priority 0 with L = 8, factor 3/2, every
   draw 1/2: shrink = 1/4.  K = 2 windows of 19 rounds bring it within
   eps = 10/16 of 0; the stream then continues with priority 1 >= 5/8 (still more
   urgent than the straggler's own priority 10).  The theorem gives: popped
   within 2*19 + 2*8 = 54 rounds (108 operations); by computation it is popped
   by the popleft of round 46. *)
Example history_example :
  let s := ex_start (3#2) in
  length busy_history = 300%nat /\
  (plen s, last_maint s, n_ins s, n_rem s) = (8, 66, 79, 71) /\
  popped_in HPV s ex_entry (ex_phase1 ++ ex_phase2) /\
  pop_round s (ex_phase1 ++ ex_phase2) 100 1 = Some 46%nat /\
  (46 <= 2 * 19 + 2 * 8)%nat.
Proof.
  cbv zeta. split; [vm_compute; reflexivity|]. split; [vm_compute; reflexivity|].
  split; [|split; [vm_compute; reflexivity | lia]].
  apply (eventually_runs_history HPV HPV_plt HPV_heapspec (ex_start (3#2)) ex_entry
           (1#2) 0 10 (5#8) 2 ex_phase1 ex_phase2).
  - unfold ex_start. apply reachable_SInv.
  - vm_compute; discriminate.
  - vm_compute. do 7 right. left. reflexivity.
  - reflexivity.
  - vm_compute; reflexivity.
  - reflexivity.
  - apply DrOK_check; vm_compute; reflexivity.
  - vm_compute; reflexivity.
  - apply Forall_repeat. simpl. apply Qle_refl.
  - vm_compute; discriminate.
  - vm_compute; discriminate.
  - vm_compute; discriminate.
  - vm_compute; discriminate.
  - apply Forall_repeat. vm_compute; discriminate.
Qed.

(* Example 2.  Same start, factor 2 so that draw * factor = 1: shrink = 0, one
   window suffices (K = 1, eps = 0) and the stream may stay at priority 0
   throughout: popped within 19 + 16 = 35 rounds; by computation in round 18. *)
Example history_example_big_draw :
  let s := ex_start 2 in
  let load := repeat (50, 0%Q) 19 ++ repeat (50, 0%Q) 16 in
  popped_in HPV s ex_entry load /\ pop_round s load 100 1 = Some 18%nat.
Proof.
  cbv zeta. split; [|vm_compute; reflexivity].
  apply (eventually_runs_history HPV HPV_plt HPV_heapspec (ex_start 2) ex_entry
           (1#2) 0 10 0 1 (repeat (50, 0%Q) 19) (repeat (50, 0%Q) 16)).
  - unfold ex_start. apply reachable_SInv.
  - vm_compute; discriminate.
  - vm_compute. do 7 right. left. reflexivity.
  - reflexivity.
  - vm_compute; reflexivity.
  - reflexivity.
  - apply DrOK_check; vm_compute; reflexivity.
  - vm_compute; reflexivity.
  - apply Forall_repeat. simpl. apply Qle_refl.
  - vm_compute; discriminate.
  - vm_compute; discriminate.
  - vm_compute; discriminate.
  - vm_compute; discriminate.
  - apply Forall_repeat. vm_compute; discriminate.
Qed.

(* Example 3: why "it is popped" cannot be claimed against a stream that stays
   at the SAME priority when draw * factor < 1.  Same start, factor 3/2, draws
   1/2, stream of priority 0 for 120 rounds (10 maintenance runs): the straggler
   is never popped; its priority is 10/4^10 = 5/524288 > 0, still behind every
   stream entry.  Exact rationals never reach 0 (C19_eventually_runs_needs_big_draw). *)
Example history_needs_big_draw :
  let s := ex_start (3#2) in
  let load := repeat (50, 0%Q) 120 in
  pop_round s load 100 1 = None /\
  filter (fun x => fst (fst (fst x)) =? 100) (summary (pairs HPV s load))
  = [(100, 1, 10%Q, (-5242875 # 524288)%Q)].
Proof. cbv zeta. split; vm_compute; reflexivity. Qed.

(* Example 4 (history independence is not vacuous): two histories that leave
   the same contents but different counters - remove() counts a removal,
   find(remove=True) does not.  Maintenance first runs in round 10 resp. 11,
   both within the common bound 3 + max(10,3) + 1 = 14. *)
Definition hi_base : list posop :=
  [QAppendPri 100 10; QAppendPri 1 0; QAppendPri 2 0; QAppendPri 3 0].
Example history_independent_example :
  let s1 := pos_exec (pos_empty (3#2) (repeat (1#2) 100)) (hi_base ++ [QRemove 3]) in
  let s2 := pos_exec (pos_empty (3#2) (repeat (1#2) 100)) (hi_base ++ [QFind 3 true]) in
  map ident (arr (pq_ s1)) = map ident (arr (pq_ s2)) /\
  (last_maint s1, n_ins s1, n_rem s1) = (0, 4, 1) /\
  (last_maint s2, n_ins s2, n_rem s2) = (0, 4, 0) /\
  map (fun i => (last_maint (pairs HPV s1 (repeat (4, 0%Q) i)),
                 last_maint (pairs HPV s2 (repeat (4, 0%Q) i)))) [9; 10; 11]%nat
  = [(0, 0); (11, 0); (11, 11)].
Proof. cbv zeta. repeat split; vm_compute; reflexivity. Qed.

(* Example 3, for EVERY length: the hypotheses of never_popped hold in that
   start state (factor 3/2, draws 1/2, stream of priority 0), so the straggler
   is never returned by a popleft, however long the stream goes on. *)
Example history_never_example : forall n,
  ~ popped_in HPV (ex_start (3#2)) ex_entry (repeat (50, 0%Q) n).
Proof.
  intros n.
  apply (never_popped HPV HPV_plt HPV_heapspec 0 (repeat (50, 0%Q) n) (ex_start (3#2)) ex_entry);
    [|apply Forall_repeat; reflexivity].
  apply mkNI.
  - unfold ex_start. apply reachable_SInv.
  - vm_compute; discriminate.
  - vm_compute. do 7 right. left. reflexivity.
  - reflexivity.
  - vm_compute; reflexivity.
  - apply Forall_forall. intros r Hr.
    assert (A : forallb (fun r => Qle_bool 0 r && negb (Qle_bool 1 (r * factor (ex_start (3#2)))))
                        (draws (ex_start (3#2))) = true) by (vm_compute; reflexivity).
    rewrite forallb_forall in A. specialize (A r Hr). apply andb_true_iff in A. destruct A as [A1 A2].
    split; [apply Qle_bool_iff; exact A1|]. apply negb_true_iff in A2.
    apply Qnot_le_lt. intros Hle. apply Qle_bool_iff in Hle. congruence.
  - intros x Hx _.
    assert (A : forallb (fun x => Qle_bool 0 (prio x)) (arr (pq_ (ex_start (3#2)))) = true)
      by (vm_compute; reflexivity).
    rewrite forallb_forall in A. apply Qle_bool_iff. apply A. exact Hx.
  - vm_compute; reflexivity.
  - exists (mkE (mkPV 0 71 0 1) 71 8). split; [vm_compute; left; reflexivity | vm_compute; reflexivity].
Qed.
