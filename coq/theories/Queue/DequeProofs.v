(* Proofs about Queue/Deque.v: deque_pop, queue_find, queue_remove, call_pos
   have list semantics, for every deque (all lengths) and every integer position. *)
From Asynkit Require Import Base.Prelude Queue.Deque.
From Coq Require Import Permutation.

Section Proofs.
Context {A : Type}.
Notation deque := (list A).

(* ------------------------------------------------------------------ *)
(* rotate                                                              *)
Lemma skipn_firstn_app (a b : deque) :
  skipn (length a) (a ++ b) ++ firstn (length a) (a ++ b) = b ++ a.
Proof.
  rewrite skipn_app, firstn_app, Nat.sub_diag, skipn_all, firstn_all. simpl.
  now rewrite app_nil_r.
Qed.

Lemma rotate_to (a b : deque) (n : Z) :
  (n mod Z.of_nat (length (a ++ b)) = Z.of_nat (length b) mod Z.of_nat (length (a ++ b)))%Z ->
  rotate (a ++ b) n = b ++ a.
Proof.
  intros Hn. unfold rotate.
  destruct (a ++ b) as [|x t] eqn:E.
  { apply app_eq_nil in E as [-> ->]. reflexivity. }
  rewrite <- E in *. rewrite Hn. clear Hn.
  assert (Hlen : length (a ++ b) = length a + length b) by apply app_length.
  destruct a as [|a0 a'].
  - simpl in *. rewrite Z.mod_same by (rewrite E; simpl; lia).
    simpl. rewrite Nat.sub_0_r, skipn_all, firstn_all. now rewrite app_nil_r.
  - rewrite Z.mod_small by (rewrite Hlen; simpl; lia).
    rewrite Nat2Z.id. replace (length (_ ++ b) - length b) with (length (a0 :: a')) by lia.
    apply skipn_firstn_app.
Qed.

Lemma rotate_app_r (a b : deque) : rotate (a ++ b) (Z.of_nat (length b)) = b ++ a.
Proof. apply rotate_to. reflexivity. Qed.

Lemma rotate_app_l (a b : deque) : rotate (a ++ b) (- Z.of_nat (length a)) = b ++ a.
Proof.
  destruct (Nat.eq_dec (length a + length b) 0) as [E|E].
  - destruct a, b; simpl in E; try lia. reflexivity.
  - apply rotate_to. rewrite app_length.
    replace (- Z.of_nat (length a))%Z
      with (Z.of_nat (length b) + (-1) * Z.of_nat (length a + length b))%Z by lia.
    now rewrite Z.mod_add by lia.
Qed.

Lemma rotate_length (d : deque) n : length (rotate d n) = length d.
Proof.
  unfold rotate. destruct d as [|x t]; [reflexivity|].
  rewrite app_length, skipn_length, firstn_length. lia.
Qed.

(* ------------------------------------------------------------------ *)
(* pop from the right                                                  *)
Lemma pop_snoc (d : deque) (x : A) : pop (d ++ [x]) = Some (x, d).
Proof.
  induction d as [|h t IH]; simpl; [reflexivity|]. now rewrite IH.
Qed.

Lemma pop_nil_inv (d : deque) : pop d = None -> d = [].
Proof. destruct d as [|h t]; [reflexivity|]. simpl. destruct (pop t) as [[? ?]|]; discriminate. Qed.

(* ------------------------------------------------------------------ *)
(* splitting a list at an index                                        *)
Lemma split_at (d : deque) (p : nat) :
  p < length d ->
  exists a x b, d = a ++ x :: b /\ length a = p /\ nth_error d p = Some x /\ remove_nth d p = a ++ b.
Proof.
  revert p. induction d as [|h t IH]; intros p Hp; simpl in Hp; [lia|].
  destruct p as [|p].
  - exists [], h, t. repeat split; reflexivity.
  - destruct (IH p ltac:(lia)) as (a & x & b & E & L & N & R).
    exists (h :: a), x, b. simpl. rewrite <- E at 1. repeat split; auto. now rewrite R.
Qed.

(* ------------------------------------------------------------------ *)
(* C08_deque_pop                                                       *)
Theorem deque_pop_spec (d : deque) (pos : Z) :
  deque_pop d pos =
  match list_pop d pos with
  | Some (x, d') => Ok x d'
  | None => Raise IndexError d
  end.
Proof.
  unfold deque_pop, list_pop, norm_index, dlen. cbv zeta.
  set (ld := Z.of_nat (length d)).
  set (p := if (pos <? 0)%Z then (pos + ld)%Z else pos).
  destruct ((pos <? 0)%Z && (p <? 0)%Z) eqn:Hneg.
  { assert (p < 0)%Z by lia.
    replace ((0 <=? p)%Z) with false by lia. reflexivity. }
  assert (Hp0 : (0 <= p)%Z) by (subst p ld; destruct (pos <? 0)%Z eqn:E; simpl in Hneg; lia).
  replace ((0 <=? p)%Z) with true by lia. simpl andb.
  destruct (p <? ld)%Z eqn:Hlt.
  2:{ assert (Hsh : (Z.shiftr ld 2 <= ld)%Z).
      { rewrite Z.shiftr_div_pow2 by lia. change (2 ^ 2)%Z with 4%Z. subst ld. lia. }
      replace (p <? Z.shiftr ld 2)%Z with false by lia. reflexivity. }
  assert (Hpn : Z.to_nat p < length d) by (subst ld; lia).
  destruct (@split_at d _ Hpn) as (a & x & b & E & La & Nth & Rm).
  rewrite Nth, Rm.
  assert (Hp : p = Z.of_nat (length a)) by lia.
  destruct (p <? Z.shiftr ld 2)%Z.
  - (* head branch *)
    rewrite E, Hp, rotate_app_l. simpl.
    rewrite rotate_app_r. reflexivity.
  - (* tail branch *)
    assert (Hld : ld = Z.of_nat (length a + S (length b))).
    { subst ld. rewrite E, app_length. simpl. lia. }
    replace (- (p - (ld - 1)))%Z with (Z.of_nat (length b)) by lia.
    replace (p - (ld - 1))%Z with (- Z.of_nat (length b))%Z by lia.
    rewrite E.
    replace (a ++ x :: b) with ((a ++ [x]) ++ b) by (now rewrite <- app_assoc).
    rewrite rotate_app_r.
    replace (b ++ a ++ [x]) with ((b ++ a) ++ [x]) by (now rewrite <- app_assoc).
    rewrite pop_snoc. rewrite rotate_app_l. reflexivity.
Qed.

(* the same statement in words: in range <-> element and exact removal *)
Corollary deque_pop_in_range (d : deque) (pos : Z) :
  let p := norm_index (Z.of_nat (length d)) pos in
  (0 <= p < Z.of_nat (length d))%Z ->
  exists a x b, d = a ++ x :: b /\ Z.of_nat (length a) = p /\ deque_pop d pos = Ok x (a ++ b).
Proof.
  intros p Hp. rewrite deque_pop_spec. unfold list_pop. fold p.
  replace ((0 <=? p)%Z && (p <? Z.of_nat (length d))%Z) with true by lia.
  destruct (@split_at d (Z.to_nat p) ltac:(lia)) as (a & x & b & E & La & Nth & Rm).
  rewrite Nth, Rm. exists a, x, b. repeat split; auto. lia.
Qed.

Corollary deque_pop_out_of_range (d : deque) (pos : Z) :
  let p := norm_index (Z.of_nat (length d)) pos in
  ~ (0 <= p < Z.of_nat (length d))%Z ->
  deque_pop d pos = Raise IndexError d.
Proof.
  intros p Hp. rewrite deque_pop_spec. unfold list_pop. fold p.
  replace ((0 <=? p)%Z && (p <? Z.of_nat (length d))%Z) with false by lia.
  reflexivity.
Qed.

(* ------------------------------------------------------------------ *)
(* reverse scan                                                        *)
Lemma scan_none key (l : deque) i :
  scan key l i = None <-> (forall x, In x l -> key x = false).
Proof.
  revert i. induction l as [|h t IH]; intros i; simpl.
  - split; [intros _ x []|reflexivity].
  - destruct (key h) eqn:K.
    + split; [discriminate|]. intros H. rewrite (H h) in K by auto. discriminate.
    + rewrite IH. split.
      * intros H x [<-|Hx]; auto.
      * intros H x Hx. apply H. auto.
Qed.

Lemma scan_some key (l : deque) i j h :
  scan key l i = Some (j, h) ->
  exists a b, l = a ++ h :: b /\ key h = true /\ (forall x, In x a -> key x = false)
              /\ j = i + length a.
Proof.
  revert i. induction l as [|y t IH]; intros i; simpl; [discriminate|].
  destruct (key y) eqn:K.
  - intros [= <- <-]. exists [], t. repeat split; auto; try (now intros x []); simpl; lia.
  - intros H. destruct (IH _ H) as (a & b & -> & Kh & Ka & ->).
    exists (y :: a), b. repeat split; auto.
    + intros x [<-|Hx]; auto.
    + simpl. lia.
Qed.

(* the last element satisfying key: d = a ++ h :: b with no match in b *)
Lemma rscan_some key (d : deque) j h :
  rscan key d = Some (j, h) ->
  exists a b, d = a ++ h :: b /\ key h = true /\ (forall x, In x b -> key x = false)
              /\ j = length b.
Proof.
  unfold rscan. intros H. destruct (@scan_some _ _ _ _ _ H) as (a & b & E & Kh & Ka & ->).
  exists (rev b), (rev a). repeat split; auto.
  - rewrite <- (rev_involutive d), E, rev_app_distr. simpl. now rewrite <- app_assoc.
  - intros x Hx. apply Ka. now apply in_rev.
  - now rewrite rev_length.
Qed.

Lemma rscan_none key (d : deque) :
  rscan key d = None <-> (forall x, In x d -> key x = false).
Proof.
  unfold rscan. rewrite scan_none. split; intros H x Hx; apply H; [now apply -> in_rev|now apply in_rev].
Qed.

Lemma deque_pop_split (a b : deque) (h : A) :
  deque_pop (a ++ h :: b) (dlen (a ++ h :: b) - Z.of_nat (length b) - 1) = Ok h (a ++ b).
Proof.
  rewrite deque_pop_spec. unfold list_pop, norm_index, dlen.
  rewrite app_length. simpl length.
  replace (Z.of_nat (length a + S (length b)) - Z.of_nat (length b) - 1)%Z
    with (Z.of_nat (length a)) by lia.
  replace (Z.of_nat (length a) <? 0)%Z with false by lia.
  replace ((0 <=? Z.of_nat (length a))%Z && (Z.of_nat (length a) <? Z.of_nat (length a + S (length b)))%Z)
    with true by lia.
  rewrite Nat2Z.id.
  rewrite nth_error_app2, Nat.sub_diag by lia. simpl.
  f_equal. clear. induction a as [|y t IH]; simpl; [reflexivity|now rewrite IH].
Qed.

Lemma scan_skip key (l1 l2 : deque) i :
  (forall x, In x l1 -> key x = false) -> scan key (l1 ++ l2) i = scan key l2 (i + length l1).
Proof.
  revert i. induction l1 as [|y t IH]; intros i Hf; simpl.
  - now rewrite Nat.add_0_r.
  - rewrite (Hf y) by (simpl; auto). rewrite IH by (intros x Hx; apply Hf; simpl; auto).
    f_equal. lia.
Qed.

(* the scan from the end stops at h when nothing after h matches *)
Lemma rscan_split key (a b : deque) (h : A) :
  key h = true -> (forall x, In x b -> key x = false) ->
  rscan key (a ++ h :: b) = Some (length b, h).
Proof.
  intros Kh Kb. unfold rscan. rewrite rev_app_distr. simpl. rewrite <- app_assoc. simpl.
  rewrite scan_skip by (intros x Hx; apply Kb; now apply in_rev).
  simpl. rewrite Kh, rev_length. reflexivity.
Qed.

(* ------------------------------------------------------------------ *)
(* deque.insert = list.insert                                          *)
Lemma insert_nth_app (a b : deque) (x : A) :
  insert_nth (a ++ b) (length a) x = a ++ x :: b.
Proof. induction a as [|y t IH]; simpl; [now destruct b|now rewrite IH]. Qed.

Lemma insert_nth_end (d : deque) (x : A) n : length d <= n -> insert_nth d n x = d ++ [x].
Proof.
  revert n. induction d as [|y t IH]; intros n Hn; simpl in *.
  - now destruct n.
  - destruct n as [|n]; [lia|]. simpl. now rewrite IH by lia.
Qed.

Lemma split_len (d : deque) (k : nat) :
  k <= length d -> exists a b, d = a ++ b /\ length a = k.
Proof.
  intros Hk. exists (firstn k d), (skipn k d). split; [now rewrite firstn_skipn|].
  rewrite firstn_length. lia.
Qed.

Lemma insert_nth_0 (d : deque) (x : A) : insert_nth d 0 x = x :: d.
Proof. now destruct d. Qed.

Lemma insert_nth_split (d : deque) (n : nat) (x : A) :
  n <= length d -> exists a b, d = a ++ b /\ length a = n /\ insert_nth d n x = a ++ x :: b.
Proof.
  intros Hn. destruct (@split_len d n Hn) as (a & b & E & La).
  exists a, b. repeat split; auto. subst d. rewrite <- La. apply insert_nth_app.
Qed.

Lemma insert_nth_perm (d : deque) (n : nat) (x : A) : Permutation (x :: d) (insert_nth d n x).
Proof.
  revert d. induction n as [|n IH]; intros d; simpl.
  - destruct d; reflexivity.
  - destruct d as [|y t]; [reflexivity|]. rewrite perm_swap. constructor. apply IH.
Qed.

Lemma list_insert_nat (d : deque) (p : nat) (x : A) :
  list_insert d (Z.of_nat p) x = insert_nth d (Nat.min p (length d)) x.
Proof.
  unfold list_insert, ins_index, norm_index.
  replace (Z.of_nat p <? 0)%Z with false by lia. f_equal. lia.
Qed.

Theorem dinsert_spec (d : deque) (i : Z) (x : A) : dinsert d i x = list_insert d i x.
Proof.
  unfold dinsert, list_insert, ins_index, norm_index, dlen, append, appendleft.
  set (n := Z.of_nat (length d)).
  destruct (n <=? i)%Z eqn:H1.
  { replace (i <? 0)%Z with false by lia.
    rewrite insert_nth_end; [reflexivity|lia]. }
  destruct ((i <=? - n)%Z || (i =? 0)%Z) eqn:H2.
  { replace (Z.to_nat (Z.max 0 (Z.min (if (i <? 0)%Z then (i + n)%Z else i) n))) with 0%nat
      by (destruct (i <? 0)%Z eqn:?; lia).
    destruct d; reflexivity. }
  destruct (i <? 0)%Z eqn:H3.
  - (* negative, in range: element goes before index n + i *)
    destruct (@split_len d (Z.to_nat (i + n)) ltac:(lia)) as (a & b & E & La).
    assert (Lb : Z.of_nat (length b) = (- i)%Z).
    { subst n. rewrite E, app_length in *. lia. }
    replace (Z.to_nat (Z.max 0 (Z.min (i + n) n))) with (length a) by lia.
    rewrite E, insert_nth_app.
    rewrite <- Lb, rotate_app_r.
    replace ((b ++ a) ++ [x]) with (b ++ (a ++ [x])) by (now rewrite app_assoc).
    replace i with (- Z.of_nat (length b))%Z by lia.
    rewrite rotate_app_l. now rewrite <- app_assoc.
  - destruct (@split_len d (Z.to_nat i) ltac:(lia)) as (a & b & E & La).
    replace (Z.to_nat (Z.max 0 (Z.min i n))) with (length a) by lia.
    rewrite E, insert_nth_app.
    replace (- i)%Z with (- Z.of_nat (length a))%Z by lia.
    rewrite rotate_app_l.
    replace (x :: b ++ a) with ((x :: b) ++ a) by reflexivity.
    replace i with (Z.of_nat (length a)) by lia.
    rewrite rotate_app_r. reflexivity.
Qed.

Context (same : A -> A -> bool).
Hypothesis same_refl : forall x, same x x = true.

(* queue_find: finds, and with remove=True removes, exactly the LAST element
   satisfying key; nothing else moves; never raises; not found = unchanged *)
Theorem queue_find_spec (d : deque) key (rm : bool) :
  (  (forall x, In x d -> key x = false) /\ queue_find same d key rm = Ok None d )
  \/ (exists a h b, d = a ++ h :: b /\ key h = true /\ (forall x, In x b -> key x = false)
       /\ queue_find same d key rm = Ok (Some h) (if rm then a ++ b else d)).
Proof.
  unfold queue_find. destruct (rscan key d) as [[j h]|] eqn:S.
  - right. destruct (@rscan_some _ _ _ _ S) as (a & b & E & Kh & Kb & ->).
    exists a, h, b. repeat split; auto. destruct rm; [|reflexivity].
    rewrite E, deque_pop_split, same_refl. reflexivity.
  - left. split; [now apply rscan_none|reflexivity].
Qed.

(* computational forms of queue_find_spec *)
Lemma queue_find_split (a b : deque) (h : A) key (rm : bool) :
  key h = true -> (forall x, In x b -> key x = false) ->
  queue_find same (a ++ h :: b) key rm = Ok (Some h) (if rm then a ++ b else a ++ h :: b).
Proof.
  intros Kh Kb. unfold queue_find. rewrite (@rscan_split key a b h Kh Kb).
  destruct rm; [|reflexivity]. now rewrite deque_pop_split, same_refl.
Qed.

Lemma queue_find_none (d : deque) key (rm : bool) :
  (forall x, In x d -> key x = false) -> queue_find same d key rm = Ok None d.
Proof. intros Hd. unfold queue_find. apply rscan_none in Hd. now rewrite Hd. Qed.

Hypothesis same_eq : forall x y, same x y = true -> x = y.

(* queue_remove: removes the last occurrence of the identical handle;
   ValueError, deque unchanged, when it is not there *)
Theorem queue_remove_spec (d : deque) (h : A) :
  (  ~ In h d /\ queue_remove same d h = Raise ValueError d )
  \/ (exists a b, d = a ++ h :: b /\ ~ In h b /\ queue_remove same d h = Ok tt (a ++ b)).
Proof.
  unfold queue_remove. destruct (rscan (same h) d) as [[j h']|] eqn:S.
  - right. destruct (@rscan_some _ _ _ _ S) as (a & b & E & Kh & Kb & ->).
    apply same_eq in Kh. subst h'.
    exists a, b. repeat split; auto.
    + intros Hin. apply Kb in Hin. rewrite same_refl in Hin. discriminate.
    + rewrite E, deque_pop_split. reflexivity.
  - left. split; [|reflexivity]. intros Hin.
    rewrite rscan_none in S. apply S in Hin. rewrite same_refl in Hin. discriminate.
Qed.

Lemma queue_remove_split (a b : deque) (h : A) :
  ~ In h b -> queue_remove same (a ++ h :: b) h = Ok tt (a ++ b).
Proof.
  intros Hb. unfold queue_remove.
  rewrite (@rscan_split (same h) a b h (same_refl h)).
  - now rewrite deque_pop_split.
  - intros x Hx. destruct (same h x) eqn:E; [|reflexivity]. apply same_eq in E. now subst.
Qed.

Lemma queue_remove_absent (d : deque) (h : A) :
  ~ In h d -> queue_remove same d h = Raise ValueError d.
Proof.
  intros Hd. unfold queue_remove.
  assert (E : rscan (same h) d = None).
  { apply rscan_none. intros x Hx. destruct (same h x) eqn:E; [|reflexivity].
    apply same_eq in E. now subst. }
  now rewrite E.
Qed.

(* call_pos: h ends up after exactly min(pos, len) earlier entries (pos >= 0);
   every other entry keeps its place relative to the others *)
Theorem call_pos_spec (d : deque) (pos : Z) (h : A) :
  call_pos same d pos h = Ok h (list_insert d pos h).
Proof.
  unfold call_pos, append. rewrite pop_snoc, same_refl, dinsert_spec. reflexivity.
Qed.

Corollary call_pos_split (d : deque) (pos : nat) (h : A) :
  exists a b, d = a ++ b /\ length a = Nat.min pos (length d)
              /\ call_pos same d (Z.of_nat pos) h = Ok h (a ++ h :: b).
Proof.
  destruct (@split_len d (Nat.min pos (length d)) ltac:(lia)) as (a & b & E & La).
  exists a, b. repeat split; auto.
  rewrite call_pos_spec. unfold list_insert, ins_index, norm_index.
  replace (Z.of_nat pos <? 0)%Z with false by lia.
  replace (Z.to_nat (Z.max 0 (Z.min (Z.of_nat pos) (Z.of_nat (length d))))) with (length a) by lia.
  rewrite E at 1. now rewrite insert_nth_app.
Qed.

Corollary call_pos_perm (d : deque) (pos : Z) (h : A) :
  exists d', call_pos same d pos h = Ok h d' /\ Permutation (h :: d) d'.
Proof.
  eexists. split; [apply call_pos_spec|].
  unfold list_insert. generalize (ins_index (Z.of_nat (length d)) pos). intros n.
  revert d. induction n as [|n IH]; intros d; simpl.
  - destruct d; reflexivity.
  - destruct d as [|y t]; [reflexivity|].
    rewrite perm_swap. constructor. apply IH.
Qed.

End Proofs.

(* non-vacuity: the three branches of deque_pop on a 9-element deque, the
   IndexError cases, a reverse scan with two matches *)
Example deque_pop_examples :
  let d := [10; 11; 12; 13; 14; 15; 16; 17; 18]%Z in
  deque_pop d 1 = Ok 11%Z [10; 12; 13; 14; 15; 16; 17; 18]%Z /\
  deque_pop d 2 = Ok 12%Z [10; 11; 13; 14; 15; 16; 17; 18]%Z /\
  deque_pop d (-1) = Ok 18%Z [10; 11; 12; 13; 14; 15; 16; 17]%Z /\
  deque_pop d (-9) = Ok 10%Z [11; 12; 13; 14; 15; 16; 17; 18]%Z /\
  deque_pop d 9 = Raise IndexError d /\ deque_pop d (-10) = Raise IndexError d /\
  queue_find Z.eqb d (fun h => (h mod 3 =? 0)%Z) true
    = Ok (Some 18%Z) [10; 11; 12; 13; 14; 15; 16; 17]%Z /\
  queue_remove Z.eqb d 7%Z = Raise ValueError d /\
  call_pos Z.eqb d 2 99%Z = Ok 99%Z [10; 11; 99; 12; 13; 14; 15; 16; 17; 18]%Z /\
  call_pos Z.eqb d 50 99%Z = Ok 99%Z (d ++ [99%Z]) /\
  call_pos Z.eqb d (-2) 99%Z = Ok 99%Z [10; 11; 12; 13; 14; 15; 16; 99; 17; 18]%Z.
Proof. vm_compute. repeat split; reflexivity. Qed.
