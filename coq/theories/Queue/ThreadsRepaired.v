(* C18 after the repair (fix: call_soon_threadsafe goes through a deque): foreign
   submissions - at ANY moment, also in the middle of a loop-thread queue operation -
   only append to an inbox (deque.append: one atomic step); the loop thread moves the
   inbox into the heap at the start of each iteration.  The heap is therefore only
   ever touched by the loop thread: every interleaving is a sequential history of the
   C17 queue model in which the foreign appends happen at the drain points. *)
From Coq Require Import QArith.
From Asynkit Require Import Base.Prelude Queue.PQ Queue.PosPQ Queue.Exec Queue.PosProofs
     Queue.Threads Queue.ThreadsProofs.
Open Scope nat_scope.

Inductive rev_ := RForeign (x : E) | RLoop (op : lop) | RDrain.

Record rst := mkR { rq_ : pos; rinbox : list E; routs : list tout }.

Definition drain (s : pos) (inbox : list E) : pos := fold_left foreign_append inbox s.

Definition rstep (r : rst) (e : rev_) : rst :=
  match e with
  | RForeign x => mkR (rq_ r) (rinbox r ++ [x]) (routs r)
  | RLoop op => mkR (fst (seq_op (rq_ r) op)) (rinbox r) (routs r ++ [snd (seq_op (rq_ r) op)])
  | RDrain => mkR (drain (rq_ r) (rinbox r)) [] (routs r)
  end.

Definition rrun (r : rst) (evs : list rev_) : rst := fold_left rstep evs r.

Lemma drain_inv inbox : forall s, PInv HPV s -> PInv HPV (drain s inbox).
Proof.
  induction inbox as [|x t IH]; intros s H; simpl; auto.
  apply IH. apply (append_pri_inv HPV HPV_spec). exact H.
Qed.

(* 1. the queue invariant (heap, distinct sequence numbers, class facts: C17's PInv) holds
      at every moment of every interleaving *)
Theorem repaired_inv evs : forall r, PInv HPV (rq_ r) -> PInv HPV (rq_ (rrun r evs)).
Proof.
  induction evs as [|e t IH]; intros r H; simpl; auto.
  apply IH. destruct e as [x|op|]; simpl; auto.
  - apply seq_op_inv. exact H.
  - apply drain_inv. exact H.
Qed.

(* 2. a loop-thread operation is never disturbed: its outcome and effect are those of the
      sequential queue operation, whatever was submitted meanwhile *)
Theorem repaired_op_undisturbed r op xs :
  let r' := rrun r (map RForeign xs ++ [RLoop op]) in
  rq_ r' = fst (seq_op (rq_ r) op) /\ routs r' = routs r ++ [snd (seq_op (rq_ r) op)] /\
  rinbox r' = rinbox r ++ xs.
Proof.
  revert r. induction xs as [|x t IH]; intros r; simpl.
  - rewrite app_nil_r. auto.
  - specialize (IH (mkR (rq_ r) (rinbox r ++ [x]) (routs r))). simpl in IH.
    destruct IH as (A & B & C). repeat split; auto.
    rewrite C, <- app_assoc. reflexivity.
Qed.

(* 3. nothing submitted is lost or duplicated: the inbox is FIFO and a drain appends exactly
      its content, in arrival order, as ordinary sequential appends *)
Theorem repaired_drain r :
  rq_ (rstep r RDrain) = fold_left foreign_append (rinbox r) (rq_ r) /\ rinbox (rstep r RDrain) = [].
Proof. split; reflexivity. Qed.

(* 4. the run is a sequential history: no operation ever raises because of another thread *)
Theorem repaired_never_struck evs r :
  forall o, In o (routs (rrun r evs)) -> In o (routs r) \/ exists s op, o = snd (seq_op s op).
Proof.
  revert r. induction evs as [|e t IH]; intros r o Hin; simpl in *; auto.
  destruct (IH _ o Hin) as [H|H]; auto.
  destruct e as [x|op|]; simpl in H; auto.
  apply in_app_or in H. destruct H as [H|[<-|[]]]; auto.
  right. eauto.
Qed.
