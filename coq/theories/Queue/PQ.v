(* Executable model of asynkit.tools.PriorityQueue (tools.py:79-298).
   Generic in the priority type [P], which is only ever compared with [plt]
   (the model of Python's bare `<`).  The heap primitives are parameters, so the
   same definitions serve the abstract proofs (any implementation satisfying
   HeapSpec) and execution (instantiated with HeapqModel). *)
From Asynkit Require Import Base.Prelude.

Record entry (P : Type) := mkE { epri : P; eseq : Z; eobj : Z }.
Arguments mkE {P}. Arguments epri {P}. Arguments eseq {P}. Arguments eobj {P}.

(* everything the queue needs from its environment: the priority order, a
   default priority (never observed) and the three heapq primitives *)
Record heapimpl (P : Type) := mkHI {
  plt : P -> P -> bool;
  pdflt : P;
  heappush : list (entry P) -> entry P -> list (entry P);
  heappop  : list (entry P) -> option (entry P * list (entry P));
  heapify  : list (entry P) -> list (entry P) }.
Arguments mkHI {P}. Arguments plt {P}. Arguments pdflt {P}. Arguments heappush {P}.
Arguments heappop {P}. Arguments heapify {P}.

(* PriEntry.__lt__ : built only from `<` on priorities *)
Definition entry_lt {P} (lt : P -> P -> bool) (a b : entry P) : bool :=
  lt (epri a) (epri b) || (negb (lt (epri b) (epri a)) && (eseq a <? eseq b)%Z).

Record pq (P : Type) := mkPQ { seqn : Z; arr : list (entry P) }.
Arguments mkPQ {P}. Arguments seqn {P}. Arguments arr {P}.

Definition pq_empty {P} : pq P := mkPQ 0 [].

Section PQ.
Context {P : Type} (H : heapimpl P).
Notation entry := (entry P).
Notation pq := (pq P).
Notation heappush := (heappush H).
Notation heappop := (heappop H).
Notation heapify := (heapify H).
Notation entry_lt := (entry_lt (plt H)).
Notation plt := (plt H).
Definition edflt : entry := mkE (pdflt H) 0 0.



Definition reset_if_empty (s : Z) (a : list entry) : pq :=
  mkPQ (match a with [] => 0%Z | _ => s end) a.

(* add *)
Definition pq_add (q : pq) (p : P) (o : Z) : pq :=
  mkPQ (seqn q + 1) (heappush (arr q) (mkE p (seqn q) o)).

(* pop / popitem: IndexError on empty *)
Definition pq_popentry (q : pq) : option (entry * pq) :=
  match heappop (arr q) with
  | None => None
  | Some (e, a) => Some (e, reset_if_empty (seqn q) a)
  end.

(* extend *)
Fixpoint extend_entries (s : Z) (l : list (P * Z)) : Z * list entry :=
  match l with
  | [] => (s, [])
  | (p, o) :: l' =>
      let '(s', es) := extend_entries (s + 1) l' in (s', mkE p s o :: es)
  end.
Definition pq_extend (q : pq) (l : list (P * Z)) : pq :=
  let '(s', es) := extend_entries (seqn q) l in
  mkPQ s' (heapify (arr q ++ es)).

Definition pq_peek (q : pq) : option entry := hd_error (arr q).

Definition pq_clear (q : pq) : pq := pq_empty.
Definition pq_refresh (q : pq) : pq := mkPQ (seqn q) (heapify (arr q)).

(* list.sort() is a stable sort: an element moves left only past strictly
   greater ones (e goes before h iff e < h). *)
Fixpoint ins_stable (e : entry) (l : list entry) : list entry :=
  match l with
  | [] => [e]
  | h :: t => if entry_lt e h then e :: l else h :: ins_stable e t
  end.
Definition stable_sort (l : list entry) : list entry :=
  fold_right ins_stable [] l.
Definition pq_sort (q : pq) : pq := mkPQ (seqn q) (stable_sort (arr q)).

(* index of the first entry (forward scan) whose object satisfies key *)
Fixpoint find_index (key : Z -> bool) (l : list entry) : option nat :=
  match l with
  | [] => None
  | e :: t => if key (eobj e) then Some O
              else match find_index key t with Some i => Some (S i) | None => None end
  end.
(* index (in array coordinates) of the last entry satisfying key: the
   `for i, entry in enumerate(reversed(self._pq))` scan *)
Definition find_last_index (key : Z -> bool) (l : list entry) : option nat :=
  match find_index key (rev l) with
  | None => None
  | Some i => Some (length l - i - 1)
  end.

(* replace position i by the tail element and heapify: self._pq[i] = self._pq.pop() *)
Definition replace_with_tail (a : list entry) (i : nat) : list entry :=
  let tail := last a edflt in
  heapify (set_nth (removelast a) i tail).

(* remove(obj): forward scan with == *)
Definition pq_remove (q : pq) (o : Z) : option (P * pq) :=
  match find_index (Z.eqb o) (arr q) with
  | None => None                                  (* ValueError *)
  | Some i =>
      let a := arr q in
      let n := length a in
      if Nat.eqb i 0 then
        match heappop a with
        | Some (e, a') => Some (epri e, reset_if_empty (seqn q) a')
        | None => None
        end
      else if Nat.eqb i (n - 1) then
        Some (epri (last a edflt), reset_if_empty (seqn q) (removelast a))
      else
        Some (epri (nth i a edflt), reset_if_empty (seqn q) (replace_with_tail a i))
  end.

(* find(key, remove) *)
Definition pq_find (q : pq) (key : Z -> bool) (rm : bool) : option (entry * pq) :=
  match find_last_index key (arr q) with
  | None => None
  | Some i =>
      let a := arr q in
      let e := nth i a edflt in
      if rm then
        if Nat.eqb i (length a - 1)
        then Some (e, reset_if_empty (seqn q) (removelast a))
        else Some (e, mkPQ (seqn q) (replace_with_tail a i))
      else Some (e, q)
  end.

(* reschedule(key, new_priority) *)
Definition pq_reschedule (q : pq) (key : Z -> bool) (np : P) : option (Z * pq) :=
  match find_last_index key (arr q) with
  | None => None
  | Some i =>
      let e := nth i (arr q) edflt in
      if plt (epri e) np || plt np (epri e)
      then Some (eobj e, mkPQ (seqn q)
                   (heapify (set_nth (arr q) i (mkE np (eseq e) (eobj e)))))
      else Some (eobj e, q)
  end.

(* ordereditems(): the consumer takes [n] items and then closes the generator
   (n larger than the length = exhaustion).  popped holds n-1 entries when
   n items were yielded and the generator is closed at the n-th yield. *)
Fixpoint pop_many (k : nat) (a : list entry) (popped : list entry)
  : list entry * list entry :=
  match k with
  | O => (popped, a)
  | S k => match heappop a with
           | None => (popped, a)
           | Some (e, a') => pop_many k a' (popped ++ [e])
           end
  end.

Definition restore (popped a : list entry) : list entry :=
  let lp := length popped in
  let lq := length a in
  if Nat.leb lq lp then popped ++ a
  else if Nat.leb (Nat.div2 lq) lp then heapify (popped ++ a)
  else fold_left heappush popped a.

(* returns the yielded entries and the restored queue *)
Fixpoint yield_loop (k : nat) (a : list entry) (popped yielded : list entry)
  : list entry * list entry * list entry :=
  (* about to evaluate `while self._pq` with k more items wanted *)
  match k with
  | O => (yielded, popped, a)
  | S k =>
      match a with
      | [] => (yielded, popped, a)
      | head :: _ =>
          (* yield head; if the consumer wants more, pop and loop *)
          match k with
          | O => (yielded ++ [head], popped, a)           (* closed at this yield *)
          | S _ => match heappop a with
                   | None => (yielded ++ [head], popped, a)
                   | Some (e, a') => yield_loop k a' (popped ++ [e]) (yielded ++ [head])
                   end
          end
      end
  end.

Definition pq_ordered_take (q : pq) (n : nat) : list entry * pq :=
  match n with
  | O => ([], q)     (* generator closed before it started: body never ran *)
  | _ =>
      (* asking for n items and then one more `next` is not issued: closed.
         Exhaustion happens when n exceeds the length: model by n+1 requests *)
      let '(ys, popped, a) := yield_loop n (arr q) [] [] in
      (ys, mkPQ (seqn q) (restore popped a))
  end.

(* exhausting the generator: every item is yielded and popped *)
Definition pq_ordered_all (q : pq) : list entry * pq :=
  let '(popped, a) := pop_many (length (arr q)) (arr q) [] in
  (popped, mkPQ (seqn q) (restore popped a)).

End PQ.
