(* Proofs for C19 (starvation boosting of PosPriorityQueue, repaired code).
   Part 1: counters (C19_counter_inv), for every heap implementation.
   Part 2: promptness (C19_prompt), for every heap implementation whose
           primitives change lengths as expected ([heap_len]); proved for the
           HeapqModel transcription, hence closed for the executed model HPV.
   Part 3: safety of one maintenance run (C19_boost_safe), for every heap
           implementation; the multiset corollary needs heapify to permute.
   Part 4: witnesses that the unrepaired code (Queue/BoostOld.v) violated each. *)
From Coq Require Import QArith Lqa Permutation.
From Asynkit Require Import Base.Prelude Base.Obs Queue.HeapqModel Queue.PQ Queue.PosPQ
     Queue.Exec Queue.PQCorr Queue.BoostOld.
Local Open Scope Z_scope.

(* ------------------------------------------------------------------------- *)
(* Histories: every operation of the queue, for an arbitrary heap             *)
(* ------------------------------------------------------------------------- *)
Section Hist.
Context (H : heapimpl pv).

Definition gstep (s : pos) (op : posop) : pos :=
  match op with
  | QAppend o p | QAppendPri o p => pos_append_pri H s o p
  | QInsert n o => pos_insert H s n o
  | QPopleft => match pos_popleft H s with None => s | Some (_, s') => s' end
  | QRemove o => match pos_remove H s o with None => s | Some s' => s' end
  | QFind o rm => match pos_find H s (Z.eqb o) rm with None => s | Some (_, s') => s' end
  | QResched o p => match pos_reschedule H s (Z.eqb o) p with None => s | Some (_, s') => s' end
  | QReschedAll tbl => pos_reschedule_all H s (tbl_get tbl)
  | QClear => pos_clear s
  | QIter => snd (pos_iter H s)
  | QLen => s
  end.

Definition gexec (s : pos) (ops : list posop) : pos := fold_left gstep ops s.

(* the counter invariant *)
Definition cinv (s : pos) : Prop :=
  0 <= last_maint s /\ last_maint s <= Z.min (n_ins s) (n_rem s).

Lemma do_maintenance_frame s :
  last_maint (do_maintenance H s) = last_maint s /\
  n_ins (do_maintenance H s) = n_ins s /\
  n_rem (do_maintenance H s) = n_rem s /\
  factor (do_maintenance H s) = factor s /\
  seqn (pq_ (do_maintenance H s)) = seqn (pq_ s).
Proof.
  unfold do_maintenance.
  destruct (Qeq_bool (factor s) 0); [repeat split|].
  destruct (find _ _); [|repeat split].
  destruct (has_straggler _ _); [|repeat split].
  destruct (boost_loop _ _ _ _ _) as [[a' ds'] n]. simpl. repeat split.
Qed.

(* update_counters(True), unfolded once and for all *)
Definition bump (s : pos) : pos :=
  mkPos (pq_ s) (last_maint s) (n_ins s + 1) (n_rem s) (factor s) (draws s).
Definition set_lm (s : pos) (v : Z) : pos :=
  mkPos (pq_ s) v (n_ins s) (n_rem s) (factor s) (draws s).
(* the test `througput > limit`, on the state with n_inserted already incremented *)
Definition due (s : pos) : bool :=
  (Z.max 10 (plen s) + last_maint s <? Z.min (n_ins s) (n_rem s)).

Lemma update_counters_true s :
  update_counters H s true =
  if due (bump s) then set_lm (do_maintenance H (bump s)) (Z.min (n_ins s + 1) (n_rem s))
  else bump s.
Proof. reflexivity. Qed.

Lemma update_counters_false s :
  update_counters H s false =
  if (0 <? plen s) then mkPos (pq_ s) (last_maint s) (n_ins s) (n_rem s + 1) (factor s) (draws s)
  else mkPos (pq_ s) 0 0 0 (factor s) (draws s).
Proof. reflexivity. Qed.

Lemma update_counters_cinv s b : cinv s -> cinv (update_counters H s b).
Proof.
  intros [H0 H1]. destruct b.
  - rewrite update_counters_true. destruct (due (bump s)) eqn:E.
    + unfold due in E. simpl in E. apply Z.ltb_lt in E.
      destruct (do_maintenance_frame (bump s)) as (_ & Hi & Hr & _).
      unfold cinv, set_lm; simpl. rewrite Hi, Hr. simpl. lia.
    + unfold cinv, bump; simpl. lia.
  - rewrite update_counters_false. destruct (0 <? plen s); unfold cinv; simpl; lia.
Qed.

Lemma cinv_with_pq s q : cinv (with_pq s q) <-> cinv s.
Proof. unfold cinv, with_pq; simpl. tauto. Qed.

Lemma popleft_cinv s o s' : cinv s -> pos_popleft H s = Some (o, s') -> cinv s'.
Proof.
  unfold pos_popleft. intros Hc. destruct (pq_popentry H (pq_ s)) as [[e q]|]; [|discriminate].
  intros E. assert (E2 : s' = update_counters H (with_pq s q) false) by congruence.
  rewrite E2. apply update_counters_cinv. now apply cinv_with_pq.
Qed.

Lemma promote_cinv k : forall s l s1 l1 ok,
  cinv s -> promote H k s l = (s1, l1, ok) -> cinv s1.
Proof.
  induction k as [|k IH]; simpl; intros s l s1 l1 ok Hc E.
  - inversion E; subst; auto.
  - destruct (pos_popleft H s) as [[o s']|] eqn:P.
    + eapply IH; [|exact E]. eapply popleft_cinv; eauto.
    + inversion E; subst; auto.
Qed.

Lemma gstep_cinv s op : cinv s -> cinv (gstep s op).
Proof.
  intros Hc. destruct op; simpl.
  - apply update_counters_cinv. now apply cinv_with_pq.
  - apply update_counters_cinv. now apply cinv_with_pq.
  - unfold pos_insert. destruct (promote H position s []) as [[s1 promoted] ok] eqn:P.
    apply update_counters_cinv. apply cinv_with_pq. eapply promote_cinv; eauto.
  - destruct (pos_popleft H s) as [[o' s']|] eqn:P; auto. eapply popleft_cinv; eauto.
  - unfold pos_remove. destruct (pq_remove H (pq_ s) o) as [[p q]|]; auto.
    apply update_counters_cinv. now apply cinv_with_pq.
  - unfold pos_find. destruct (pq_find H (pq_ s) (Z.eqb o) rm) as [[e q]|]; auto;
    simpl; now apply cinv_with_pq.
  - unfold pos_reschedule. destruct (pq_find _ _ _ _) as [[e q0]|]; auto.
    destruct (_ =? _); auto. unfold pos_reschedule_reg.
    destruct (pq_reschedule H (pq_ s) (Z.eqb o) _) as [[o' q]|]; auto;
    simpl; now apply cinv_with_pq.
  - unfold pos_reschedule_all. now apply cinv_with_pq.
  - unfold pos_clear. now apply cinv_with_pq.
  - unfold pos_iter. simpl. now apply cinv_with_pq.
  - exact Hc.
Qed.

Lemma gexec_cinv ops : forall s, cinv s -> cinv (gexec s ops).
Proof.
  induction ops as [|op ops IH]; simpl; intros s Hc; auto.
  apply IH. now apply gstep_cinv.
Qed.

Theorem counter_inv f ds ops :
  let s := gexec (pos_empty f ds) ops in
  0 <= last_maint s /\ last_maint s <= Z.min (n_ins s) (n_rem s).
Proof. apply gexec_cinv. unfold cinv, pos_empty; simpl. lia. Qed.

End Hist.

(* the history semantics used above is the one the correspondence executes *)
Lemma gstep_pos_step s op : gstep HPV s op = snd (pos_step s op).
Proof.
  destruct op; simpl; try reflexivity;
    repeat match goal with
           | |- context [match ?x with _ => _ end] => destruct x
           end; reflexivity.
Qed.

(* state after a history, as executed by [pos_run] *)
Definition pos_exec (s : pos) (ops : list posop) : pos :=
  fold_left (fun s op => snd (pos_step s op)) ops s.

Lemma pos_exec_gexec ops : forall s, pos_exec s ops = gexec HPV s ops.
Proof.
  induction ops as [|op ops IH]; simpl; intros s; auto.
  unfold pos_exec, gexec in *. simpl. rewrite <- gstep_pos_step. apply IH.
Qed.

(* [pos_run] observes exactly these states, one after every operation *)
Lemma pos_run_from_app ops1 : forall s ops2,
  pos_run_from s (ops1 ++ ops2) = pos_run_from s ops1 ++ pos_run_from (pos_exec s ops1) ops2.
Proof.
  induction ops1 as [|op ops1 IH]; simpl; intros s ops2; auto.
  destruct (pos_step s op) as [o s'] eqn:E. simpl. f_equal.
  replace (pos_exec s (op :: ops1)) with (pos_exec s' ops1); [apply IH|].
  unfold pos_exec. simpl. now rewrite E.
Qed.

Lemma pos_run_from_last s ops op :
  exists o, pos_run_from s (ops ++ [op]) =
            pos_run_from s ops ++ [OL [o; opos (pos_exec s (ops ++ [op]))]].
Proof.
  rewrite pos_run_from_app. simpl.
  destruct (pos_step (pos_exec s ops) op) as [o s'] eqn:E. exists o. repeat f_equal.
  unfold pos_exec. rewrite fold_left_app. simpl. fold (pos_exec s ops). now rewrite E.
Qed.

(* ------------------------------------------------------------------------- *)
(* Length facts about the heap primitives                                     *)
(* ------------------------------------------------------------------------- *)
Record heap_len (H : heapimpl pv) : Prop := mkHL {
  hl_push : forall a e, length (heappush H a e) = S (length a);
  hl_pop_some : forall a, a <> [] -> exists e a', heappop H a = Some (e, a');
  hl_pop_len : forall a e a', heappop H a = Some (e, a') -> length a = S (length a');
  hl_heapify : forall a, length (heapify H a) = length a }.

(* any implementation whose primitives permute has them *)
Lemma heap_len_of_perm (H : heapimpl pv) :
  (forall a e, Permutation (heappush H a e) (e :: a)) ->
  (forall a, a <> [] -> exists e a', heappop H a = Some (e, a')) ->
  (forall a e a', heappop H a = Some (e, a') -> Permutation a (e :: a')) ->
  (forall a, Permutation (heapify H a) a) -> heap_len H.
Proof.
  intros P1 P2 P3 P4. split; auto.
  - intros a e. now rewrite (Permutation_length (P1 a e)).
  - intros a e a' E. now rewrite (Permutation_length (P3 a e a' E)).
  - intros a. now rewrite (Permutation_length (P4 a)).
Qed.

Section HeapqLen.
Context {A : Type} (lt : A -> A -> bool) (dflt : A).

Lemma siftdown_loop_length fuel : forall h sp pos x,
  length (siftdown_loop lt dflt fuel h sp pos x) = length h.
Proof.
  induction fuel as [|fuel IH]; simpl; intros h sp pos x.
  - apply set_nth_length.
  - destruct (Nat.ltb sp pos); [|apply set_nth_length].
    destruct (lt x _); [|apply set_nth_length].
    rewrite IH. apply set_nth_length.
Qed.

Lemma siftdown_length h sp pos : length (siftdown lt dflt h sp pos) = length h.
Proof. apply siftdown_loop_length. Qed.

Lemma siftup_loop_length fuel : forall h e pos,
  length (fst (siftup_loop lt dflt fuel h e pos)) = length h.
Proof.
  induction fuel as [|fuel IH]; simpl; intros h e pos; auto.
  destruct (Nat.ltb (pos + (pos + 0) + 1) e); auto.
  rewrite IH. apply set_nth_length.
Qed.

Lemma siftup_length h pos : length (siftup lt dflt h pos) = length h.
Proof.
  unfold siftup.
  pose proof (siftup_loop_length (length h) h (length h) pos) as E.
  destruct (siftup_loop lt dflt (length h) h (length h) pos) as [h' p]. simpl in E.
  rewrite siftdown_length, set_nth_length. exact E.
Qed.

Lemma hq_heappush_length h x : length (HeapqModel.heappush lt dflt h x) = S (length h).
Proof.
  unfold HeapqModel.heappush. rewrite siftdown_length, app_length. simpl. lia.
Qed.

Lemma hq_heappop_some h : h <> [] -> exists e a', HeapqModel.heappop lt dflt h = Some (e, a').
Proof.
  intros Hne. unfold HeapqModel.heappop.
  destruct (rev h) as [|l r] eqn:E.
  - exfalso. apply Hne. rewrite <- (rev_involutive h), E. reflexivity.
  - destruct (rev r); eauto.
Qed.

Lemma hq_heappop_length h e a' :
  HeapqModel.heappop lt dflt h = Some (e, a') -> length h = S (length a').
Proof.
  unfold HeapqModel.heappop. destruct (rev h) as [|l r] eqn:E; [discriminate|].
  assert (Hl : length h = S (length (rev r))).
  { rewrite <- (rev_length h), E. simpl. now rewrite rev_length. }
  destruct (rev r) as [|ret t] eqn:E2; intros X; inversion X; subst.
  - exact Hl.
  - rewrite siftup_length. simpl. simpl in Hl. exact Hl.
Qed.

Lemma heapify_loop_length i : forall h, length (heapify_loop lt dflt i h) = length h.
Proof.
  induction i as [|i IH]; simpl; intros h; auto. rewrite IH. apply siftup_length.
Qed.

Lemma hq_heapify_length h : length (HeapqModel.heapify lt dflt h) = length h.
Proof. apply heapify_loop_length. Qed.
End HeapqLen.

Lemma heap_len_HPV : heap_len HPV.
Proof.
  split; unfold HPV, mk_heapimpl; simpl.
  - intros; apply hq_heappush_length.
  - intros; now apply hq_heappop_some.
  - intros; eapply hq_heappop_length; eauto.
  - intros; apply hq_heapify_length.
Qed.

(* ------------------------------------------------------------------------- *)
(* Part 2: promptness                                                         *)
(* ------------------------------------------------------------------------- *)
Section Prompt.
Context (H : heapimpl pv) (HL : heap_len H).

Lemma boost_loop_length a : forall limit m f ds,
  length (fst (fst (boost_loop a limit m f ds))) = length a.
Proof.
  induction a as [|e t IH]; simpl; intros limit m f ds; auto.
  destruct (_ || _ || _).
  - specialize (IH limit m f ds). destruct (boost_loop t limit m f ds) as [[t' ds'] n].
    simpl in *. now rewrite IH.
  - specialize (IH limit m f (tl ds)). destruct (boost_loop t limit m f (tl ds)) as [[t' ds'] n].
    destruct (negb _); simpl in *; now rewrite IH.
Qed.

Lemma do_maintenance_plen s : plen (do_maintenance H s) = plen s.
Proof.
  unfold do_maintenance.
  destruct (Qeq_bool (factor s) 0); auto.
  destruct (find _ _); auto.
  destruct (has_straggler _ _); auto.
  pose proof (boost_loop_length (arr (pq_ s)) (n_ins s - plen s)
                (minmax_loop (arr (pq_ s)) (pv_priority (epri e))) (factor s) (draws s)) as E.
  destruct (boost_loop _ _ _ _ _) as [[a' ds'] n]. simpl in E.
  unfold plen. simpl. destruct n; [|rewrite (hl_heapify _ HL)]; now rewrite E.
Qed.

(* the state on which update_counters(True) decides, for append_pri(o, p) *)
Definition pre_maint (s : pos) (o : Z) (p : Q) : pos :=
  bump (with_pq s (pq_add H (pq_ s) (mkPV p (n_ins s) 0 1) o)).

(* append_pri in the two cases *)
Lemma append_runs_maintenance s o p :
  due (pre_maint s o p) = true ->
  pos_append_pri H s o p =
  set_lm (do_maintenance H (pre_maint s o p)) (Z.min (n_ins s + 1) (n_rem s)).
Proof.
  intros D. unfold pos_append_pri. rewrite update_counters_true.
  fold (pre_maint s o p). rewrite D. reflexivity.
Qed.

Lemma append_no_maintenance s o p :
  due (pre_maint s o p) = false -> pos_append_pri H s o p = pre_maint s o p.
Proof.
  intros D. unfold pos_append_pri. rewrite update_counters_true.
  fold (pre_maint s o p). rewrite D. reflexivity.
Qed.

Lemma pre_maint_facts s o p :
  plen (pre_maint s o p) = plen s + 1 /\ n_ins (pre_maint s o p) = n_ins s + 1 /\
  n_rem (pre_maint s o p) = n_rem s /\ last_maint (pre_maint s o p) = last_maint s.
Proof.
  unfold pre_maint, bump, plen, with_pq, pq_add; simpl. rewrite (hl_push _ HL). repeat split. lia.
Qed.

Lemma append_facts s o p :
  let s' := pos_append_pri H s o p in
  plen s' = plen s + 1 /\ n_ins s' = n_ins s + 1 /\ n_rem s' = n_rem s /\
  (last_maint s' = last_maint s \/ due (pre_maint s o p) = true).
Proof.
  destruct (pre_maint_facts s o p) as (P1 & P2 & P3 & P4).
  destruct (due (pre_maint s o p)) eqn:D; simpl.
  - rewrite (append_runs_maintenance _ _ _ D).
    destruct (do_maintenance_frame H (pre_maint s o p)) as (F1 & F2 & F3 & _).
    unfold set_lm, plen; simpl. fold (plen (do_maintenance H (pre_maint s o p))).
    rewrite do_maintenance_plen, F2, F3. auto.
  - rewrite (append_no_maintenance _ _ _ D). auto.
Qed.

Lemma popleft_facts s :
  2 <= plen s ->
  exists o s1, pos_popleft H s = Some (o, s1) /\
    plen s1 = plen s - 1 /\ n_ins s1 = n_ins s /\ n_rem s1 = n_rem s + 1 /\
    last_maint s1 = last_maint s /\ (forall e, In e (arr (pq_ s1)) -> True).
Proof.
  intros HLn. unfold pos_popleft, pq_popentry.
  assert (Hne : arr (pq_ s) <> []).
  { unfold plen in HLn. destruct (arr (pq_ s)); simpl in *; [lia|discriminate]. }
  destruct (hl_pop_some _ HL _ Hne) as (e & a' & E). rewrite E.
  pose proof (hl_pop_len _ HL _ _ _ E) as El.
  eexists; eexists; split; [reflexivity|].
  rewrite update_counters_false.
  assert (Hp : plen (with_pq s (reset_if_empty (seqn (pq_ s)) a')) = plen s - 1).
  { unfold plen, with_pq, reset_if_empty; simpl. unfold plen in HLn. lia. }
  rewrite Hp. destruct (0 <? plen s - 1) eqn:Z0; [|apply Z.ltb_ge in Z0; lia].
  unfold plen in *; simpl in *. repeat split; auto.
Qed.

(* one round of the sustained load: popleft, then append_pri of a new entry *)
Definition pair_pa (s : pos) (x : Z * Q) : pos :=
  match pos_popleft H s with
  | Some (_, s1) => pos_append_pri H s1 (fst x) (snd x)
  | None => s
  end.
Definition pairs (s : pos) (l : list (Z * Q)) : pos := fold_left pair_pa l s.

(* maintenance runs in the append of round x, started in state s *)
Definition maintenance_in_round (s : pos) (x : Z * Q) : Prop :=
  exists o s1, pos_popleft H s = Some (o, s1) /\ due (pre_maint s1 (fst x) (snd x)) = true.

Lemma pair_facts s x :
  2 <= plen s -> cinv s ->
  let s' := pair_pa s x in
  plen s' = plen s /\ n_ins s' = n_ins s + 1 /\ n_rem s' = n_rem s + 1 /\ cinv s' /\
  (maintenance_in_round s x \/
   (last_maint s' = last_maint s /\
    Z.min (n_ins s') (n_rem s') <= Z.max 10 (plen s) + last_maint s)).
Proof.
  intros HLn Hc. destruct (popleft_facts s HLn) as (o & s1 & P & L1 & I1 & R1 & M1 & _).
  unfold pair_pa. rewrite P. simpl.
  destruct (append_facts s1 (fst x) (snd x)) as (A1 & A2 & A3 & A4).
  assert (Hc' : cinv (pos_append_pri H s1 (fst x) (snd x))).
  { unfold pos_append_pri. apply update_counters_cinv. apply cinv_with_pq.
    eapply popleft_cinv; eauto. }
  repeat split; try lia; try apply Hc'.
  destruct (due (pre_maint s1 (fst x) (snd x))) eqn:D.
  - left. exists o, s1. auto.
  - right. destruct A4 as [A4|A4]; [|congruence]. split; [lia|].
    unfold due in D. apply Z.ltb_ge in D.
    destruct (pre_maint_facts s1 (fst x) (snd x)) as (Q1 & Q2 & Q3 & Q4).
    rewrite Q1, Q2, Q3, Q4 in D. lia.
Qed.

Lemma pairs_facts l : forall s,
  2 <= plen s -> cinv s ->
  plen (pairs s l) = plen s /\ n_ins (pairs s l) = n_ins s + Z.of_nat (length l) /\
  n_rem (pairs s l) = n_rem s + Z.of_nat (length l) /\ cinv (pairs s l).
Proof.
  induction l as [|x l IH]; intros s HLn Hc.
  - simpl. repeat split; try lia; apply Hc.
  - destruct (pair_facts s x HLn Hc) as (P1 & P2 & P3 & P4 & _).
    change (pairs s (x :: l)) with (pairs (pair_pa s x) l).
    destruct (IH (pair_pa s x)) as (Q1 & Q2 & Q3 & Q4); [lia|auto|].
    rewrite Q1, Q2, Q3, P1, P2, P3. simpl length. repeat split; try lia; apply Q4.
Qed.

Lemma pairs_app s l1 l2 : pairs s (l1 ++ l2) = pairs (pairs s l1) l2.
Proof. unfold pairs. apply fold_left_app. Qed.

(* core: maintenance runs before the backlog thr - last_maint can exceed max(10,L) *)
Lemma prompt_aux load : forall s,
  2 <= plen s -> cinv s -> load <> [] ->
  Z.max 10 (plen s) + 1 <=
    Z.of_nat (length load) + (Z.min (n_ins s) (n_rem s) - last_maint s) ->
  exists l1 x l2, load = l1 ++ x :: l2 /\
    Z.of_nat (length l1) <=
      Z.max 0 (Z.max 10 (plen s) - (Z.min (n_ins s) (n_rem s) - last_maint s)) /\
    maintenance_in_round (pairs s l1) x.
Proof.
  induction load as [|x load IH]; intros s HLn Hc Hne Hlen; [congruence|].
  destruct (pair_facts s x HLn Hc) as (P1 & P2 & P3 & P4 & [M|[M1 M2]]).
  - exists [], x, load. simpl. split; [reflexivity|]. split; [lia|exact M].
  - assert (Hne' : load <> []).
    { intros ->. simpl length in Hlen. lia. }
    destruct (IH (pair_pa s x)) as (l1 & y & l2 & E & B & M); try lia; auto.
    { rewrite P1, P2, P3, M1. simpl length in Hlen. lia. }
    exists (x :: l1), y, l2. rewrite E. split; [reflexivity|]. split.
    + rewrite P1, P2, P3, M1 in B. simpl length. lia.
    + exact M.
Qed.

(* C19_prompt, part (a): from ANY state satisfying the counter invariant (hence
   from any reachable state), with L >= 2 entries queued, maintenance runs in
   one of the first max(10,L)+1 rounds. *)
Theorem prompt_maintenance s load :
  cinv s -> 2 <= plen s ->
  Z.max 10 (plen s) + 1 <= Z.of_nat (length load) ->
  exists l1 x l2, load = l1 ++ x :: l2 /\
    Z.of_nat (length l1) <= Z.max 10 (plen s) /\
    maintenance_in_round (pairs s l1) x.
Proof.
  intros Hc HLn Hlen.
  destruct (prompt_aux load s HLn Hc) as (l1 & x & l2 & E & B & M).
  - intros ->. simpl length in Hlen. lia.
  - destruct Hc. lia.
  - exists l1, x, l2. repeat split; auto. destruct Hc. lia.
Qed.

(* part (b): in a round that starts after at least L rounds (so the entry was
   passed over by more than L insertions when this round's append runs), every
   regular entry that was already queued in s satisfies the straggler test of
   do_maintenance: inserted_at < n_inserted - len. *)
Theorem prompt_straggler s l1 x o s1 :
  cinv s -> 2 <= plen s -> plen s <= Z.of_nat (length l1) ->
  pos_popleft H (pairs s l1) = Some (o, s1) ->
  let sm := pre_maint s1 (fst x) (snd x) in
  plen sm = plen s /\
  forall e, In e (arr (pq_ sm)) -> ins_at (epri e) <= n_ins s ->
            (ins_at (epri e) <? n_ins sm - plen sm) = true.
Proof.
  intros Hc HLn Hl P sm.
  destruct (pairs_facts l1 s HLn Hc) as (Q1 & Q2 & Q3 & Q4).
  destruct (popleft_facts (pairs s l1)) as (o' & s1' & P' & L1 & I1 & R1 & M1 & _); [lia|].
  rewrite P in P'. injection P' as <- <-.
  destruct (pre_maint_facts s1 (fst x) (snd x)) as (F1 & F2 & F3 & F4).
  fold sm in F1, F2, F3, F4.
  split; [lia|].
  intros e _ Hi. apply Z.ltb_lt. lia.
Qed.

End Prompt.

(* ------------------------------------------------------------------------- *)
(* Part 3: what one maintenance run may change                                *)
(* ------------------------------------------------------------------------- *)
Lemma qltb_lt x y : qltb x y = true <-> (x < y)%Q.
Proof.
  unfold qltb. rewrite negb_true_iff. split.
  - intros E. apply Qnot_le_lt. intros L. apply Qle_bool_iff in L. congruence.
  - intros L. destruct (Qle_bool y x) eqn:E; auto.
    apply Qle_bool_iff in E. exfalso. exact (Qlt_not_le _ _ L E).
Qed.

Lemma qltb_ge x y : qltb x y = false <-> (y <= x)%Q.
Proof.
  unfold qltb. rewrite negb_false_iff. apply Qle_bool_iff.
Qed.

Definition regular (e : entry pv) : Prop := pclass (epri e) <> 0.
Definition prio (e : entry pv) : Q := pv_priority (epri e).   (* PriorityValue.priority() *)

(* m is the priority of the most urgent regular entry of the array *)
Definition min_regular (a : list (entry pv)) (m : Q) : Prop :=
  (exists e, In e a /\ regular e /\ (prio e == m)%Q) /\
  (forall e, In e a -> regular e -> (m <= prio e)%Q).

(* what may happen to one entry in a maintenance run with minimum m, boost
   factor f and straggler limit `limit`: nothing, or - only for a regular
   straggler strictly less urgent than m - its boost is lowered, the new
   priority staying above m - (f-1)(p-m) *)
Definition boost_rel (m f : Q) (limit : Z) (e e' : entry pv) : Prop :=
  e' = e \/
  (regular e /\ ins_at (epri e) < limit /\ (m < prio e)%Q /\
   eobj e' = eobj e /\ eseq e' = eseq e /\
   base (epri e') = base (epri e) /\ ins_at (epri e') = ins_at (epri e) /\
   pclass (epri e') = pclass (epri e) /\
   (boost (epri e') < boost (epri e))%Q /\
   (m - (f - 1) * (prio e - m) < prio e')%Q).

Lemma minmax_loop_spec a : forall mn,
  let r := minmax_loop a mn in
  (r <= mn)%Q /\ (forall e, In e a -> regular e -> (r <= prio e)%Q) /\
  ((r == mn)%Q \/ exists e, In e a /\ regular e /\ (prio e == r)%Q).
Proof.
  induction a as [|e t IH]; simpl; intros mn.
  - split; [apply Qle_refl|]. split; [tauto|]. left; reflexivity.
  - destruct (pclass (epri e) =? 0) eqn:C.
    + destruct (IH mn) as (I1 & I2 & I3). split; auto. split.
      * intros x [<-|Hx] R; auto. apply Z.eqb_eq in C. contradiction.
      * destruct I3 as [I3|(x & X1 & X2 & X3)]; auto. right; exists x; auto.
    + assert (R : regular e) by (apply Z.eqb_neq in C; exact C).
      destruct (IH (qmin mn (pv_priority (epri e)))) as (I1 & I2 & I3).
      assert (Q1 : (qmin mn (pv_priority (epri e)) <= mn)%Q /\
                   (qmin mn (pv_priority (epri e)) <= prio e)%Q /\
                   (qmin mn (pv_priority (epri e)) = mn \/
                    qmin mn (pv_priority (epri e)) = prio e)).
      { unfold qmin, prio. destruct (qltb (pv_priority (epri e)) mn) eqn:E.
        - apply qltb_lt in E. repeat split; auto; try apply Qle_refl. now apply Qlt_le_weak.
        - apply qltb_ge in E. repeat split; auto; apply Qle_refl. }
      destruct Q1 as (Q1 & Q2 & Q3).
      split; [eapply Qle_trans; eauto|]. split.
      * intros x [<-|Hx] Rx; auto. eapply Qle_trans; eauto.
      * destruct I3 as [I3|(x & X1 & X2 & X3)].
        -- destruct Q3 as [Q3|Q3].
           ++ left. eapply Qeq_trans; [exact I3|]. rewrite Q3. reflexivity.
           ++ right. exists e. split; auto. split; auto. symmetry.
              eapply Qeq_trans; [exact I3|]. rewrite Q3. reflexivity.
        -- right; exists x; auto.
Qed.

Lemma boost_loop_spec a : forall limit m f ds,
  (0 < f)%Q -> Forall (fun d => d < 1)%Q ds ->
  Forall2 (boost_rel m f limit) a (fst (fst (boost_loop a limit m f ds))) /\
  Forall (fun d => d < 1)%Q (snd (fst (boost_loop a limit m f ds))) /\
  (snd (boost_loop a limit m f ds) = O -> fst (fst (boost_loop a limit m f ds)) = a).
Proof.
  induction a as [|e t IH]; simpl; intros limit m f ds Hf Hd.
  - repeat split; auto.
  - destruct (_ || _ || _) eqn:C.
    + destruct (IH limit m f ds Hf Hd) as (I1 & I2 & I3).
      destruct (boost_loop t limit m f ds) as [[t' ds'] n]. simpl in *.
      repeat split; auto.
      * constructor; auto. now left.
      * intros ->. now rewrite I3.
    + assert (Hd' : Forall (fun d => d < 1)%Q (tl ds)).
      { destruct ds; simpl; auto. now inversion Hd. }
      destruct (IH limit m f (tl ds) Hf Hd') as (I1 & I2 & I3).
      destruct (boost_loop t limit m f (tl ds)) as [[t' ds'] n]. simpl in *.
      apply orb_false_iff in C. destruct C as [C C3].
      apply orb_false_iff in C. destruct C as [C1 C2].
      apply negb_false_iff in C2, C3. apply Z.eqb_neq in C1. apply Z.ltb_lt in C2.
      apply qltb_lt in C3.
      set (r := match ds with [] => 0%Q | d :: _ => d end) in *.
      assert (Hr : (r < 1)%Q).
      { unfold r. destruct ds; [reflexivity|]. now inversion Hd. }
      destruct (qltb (r * ((m - pv_priority (epri e)) * f)) 0) eqn:PB; simpl.
      * apply qltb_lt in PB. repeat split; auto; [|discriminate].
        constructor; auto. right. unfold regular, prio. simpl.
        repeat split; auto.
        -- set (pb := (r * ((m - pv_priority (epri e)) * f))%Q) in *. lra.
        -- unfold pv_priority in *. simpl.
           set (b := base (epri e)) in *. set (bo := boost (epri e)) in *.
           assert (0 < f * (b + bo - m))%Q by nra. nra.
      * repeat split; auto.
        -- constructor; auto. now left.
        -- intros ->. now rewrite I3.
Qed.

Lemma boost_rel_frame m f limit e e' :
  boost_rel m f limit e e' ->
  eobj e' = eobj e /\ eseq e' = eseq e /\ base (epri e') = base (epri e) /\
  ins_at (epri e') = ins_at (epri e) /\ pclass (epri e') = pclass (epri e) /\
  (boost (epri e') <= boost (epri e))%Q.
Proof.
  intros [->|(_ & _ & _ & A & B & C & D & E & F & _)].
  - repeat split; auto. apply Qle_refl.
  - repeat split; auto. now apply Qlt_le_weak.
Qed.

Lemma boost_rel_positional m f limit e e' :
  boost_rel m f limit e e' -> pclass (epri e) = 0 -> e' = e.
Proof. intros [->|(R & _)] C; auto. contradiction. Qed.

(* the part of an entry that no maintenance run ever changes *)
Definition ident (e : entry pv) : Z * Z * Q * Z * Z :=
  (eobj e, eseq e, base (epri e), ins_at (epri e), pclass (epri e)).

Lemma boost_rel_ident m f limit a a' :
  Forall2 (boost_rel m f limit) a a' -> map ident a' = map ident a.
Proof.
  induction 1 as [|e e' a a' R _ IH]; simpl; auto.
  destruct (boost_rel_frame _ _ _ _ _ R) as (A & B & C & D & E & _).
  unfold ident at 1 3. now rewrite A, B, C, D, E, IH.
Qed.

Section Safe.
Context (H : heapimpl pv).

Theorem boost_safe s :
  (0 < factor s)%Q -> Forall (fun d => d < 1)%Q (draws s) ->
  let s' := do_maintenance H s in
  s' = s \/
  exists m a',
    min_regular (arr (pq_ s)) m /\
    Forall2 (boost_rel m (factor s) (n_ins s - plen s)) (arr (pq_ s)) a' /\
    (arr (pq_ s') = a' \/ arr (pq_ s') = heapify H a').
Proof.
  intros Hf Hd. unfold do_maintenance.
  destruct (Qeq_bool (factor s) 0); [now left|].
  destruct (find _ _) as [r|] eqn:F; [|now left].
  destruct (has_straggler _ _); [|now left].
  apply find_some in F. destruct F as [F1 F2].
  apply negb_true_iff, Z.eqb_neq in F2.
  set (m := minmax_loop (arr (pq_ s)) (pv_priority (epri r))).
  destruct (boost_loop_spec (arr (pq_ s)) (n_ins s - plen s) m (factor s) (draws s) Hf Hd)
    as (B1 & _ & _).
  destruct (boost_loop _ _ _ _ _) as [[a' ds'] n]. simpl in B1.
  right. exists m, a'. split; [|split; auto].
  - destruct (minmax_loop_spec (arr (pq_ s)) (pv_priority (epri r))) as (M1 & M2 & M3).
    fold m in M1, M2, M3. split; auto.
    destruct M3 as [M3|(x & X1 & X2 & X3)].
    + exists r. repeat split; auto. symmetry. exact M3.
    + exists x. auto.
  - simpl. destruct n; auto.
Qed.

(* nothing is lost, duplicated or re-sequenced, given that heapify permutes *)
Corollary boost_safe_contents s :
  (forall a, Permutation (heapify H a) a) ->
  (0 < factor s)%Q -> Forall (fun d => d < 1)%Q (draws s) ->
  Permutation (map ident (arr (pq_ (do_maintenance H s)))) (map ident (arr (pq_ s))).
Proof.
  intros HP Hf Hd. destruct (boost_safe s Hf Hd) as [E|(m & a' & _ & R & [E|E])].
  - rewrite E. apply Permutation_refl.
  - rewrite E, (boost_rel_ident _ _ _ _ _ R). apply Permutation_refl.
  - rewrite E, <- (boost_rel_ident _ _ _ _ _ R). apply Permutation_map, HP.
Qed.

End Safe.

(* whatever the boosts: a positional entry always compares before a regular one *)
Lemma class_dominates a b :
  pclass a < pclass b -> pv_lt a b = true /\ pv_lt b a = false.
Proof.
  intros L. unfold pv_lt.
  assert (E1 : (pclass a =? pclass b) = false) by (apply Z.eqb_neq; lia).
  assert (E2 : (pclass b =? pclass a) = false) by (apply Z.eqb_neq; lia).
  rewrite E1, E2. simpl. split; [apply Z.ltb_lt|apply Z.ltb_ge]; lia.
Qed.

(* ------------------------------------------------------------------------- *)
(* Promptness, combined: the bound in L only                                  *)
(* ------------------------------------------------------------------------- *)
Section Prompt2.
Context (H : heapimpl pv) (HL : heap_len H).

Theorem prompt s load :
  cinv s -> 2 <= plen s ->
  plen s + Z.max 10 (plen s) + 1 <= Z.of_nat (length load) ->
  exists l1 x l2, load = l1 ++ x :: l2 /\
    plen s <= Z.of_nat (length l1) <= plen s + Z.max 10 (plen s) /\
    maintenance_in_round H (pairs H s l1) x /\
    forall o s1, pos_popleft H (pairs H s l1) = Some (o, s1) ->
      let sm := pre_maint H s1 (fst x) (snd x) in
      plen sm = plen s /\
      forall e, In e (arr (pq_ sm)) -> ins_at (epri e) <= n_ins s ->
                (ins_at (epri e) <? n_ins sm - plen sm) = true.
Proof.
  intros Hc HLn Hlen.
  set (n := Z.to_nat (plen s)).
  assert (Hn : Z.of_nat n = plen s) by (unfold n; lia).
  assert (HlA : length (firstn n load) = n) by (apply firstn_length_le; lia).
  pose proof (firstn_skipn n load) as Esplit.
  assert (HlB : Z.of_nat (length (skipn n load)) = Z.of_nat (length load) - plen s).
  { rewrite skipn_length. lia. }
  destruct (pairs_facts H HL (firstn n load) s HLn Hc) as (Q1 & Q2 & Q3 & Q4).
  destruct (prompt_maintenance H HL (pairs H s (firstn n load)) (skipn n load))
    as (l1 & x & l2 & E & B & M); auto; try lia.
  exists (firstn n load ++ l1), x, l2.
  split. { rewrite <- app_assoc, <- E. now symmetry. }
  split. { rewrite app_length, HlA. rewrite Q1 in B. lia. }
  rewrite pairs_app. split; [exact M|].
  intros o s1 P. rewrite <- pairs_app in P.
  apply (prompt_straggler H HL s (firstn n load ++ l1) x o s1); auto.
  rewrite app_length, HlA. lia.
Qed.

End Prompt2.

(* ------------------------------------------------------------------------- *)
(* The other order of a round: append_pri first, then popleft (L >= 1)         *)
(* ------------------------------------------------------------------------- *)
Section PromptAP.
Context (H : heapimpl pv) (HL : heap_len H).

Definition pair_ap (s : pos) (x : Z * Q) : pos :=
  let s1 := pos_append_pri H s (fst x) (snd x) in
  match pos_popleft H s1 with Some (_, s2) => s2 | None => s1 end.
Definition pairs_ap (s : pos) (l : list (Z * Q)) : pos := fold_left pair_ap l s.

Lemma pair_ap_facts s x :
  1 <= plen s -> cinv s ->
  let s' := pair_ap s x in
  plen s' = plen s /\ n_ins s' = n_ins s + 1 /\ n_rem s' = n_rem s + 1 /\ cinv s' /\
  (due (pre_maint H s (fst x) (snd x)) = true \/
   (last_maint s' = last_maint s /\
    Z.min (n_ins s) (n_rem s) <= Z.max 10 (plen s + 1) + last_maint s)).
Proof.
  intros HLn Hc.
  destruct (append_facts H HL s (fst x) (snd x)) as (A1 & A2 & A3 & A4).
  assert (Hc1 : cinv (pos_append_pri H s (fst x) (snd x))).
  { unfold pos_append_pri. apply update_counters_cinv. now apply cinv_with_pq. }
  destruct (popleft_facts H HL (pos_append_pri H s (fst x) (snd x)))
    as (o & s2 & P & L1 & I1 & R1 & M1 & _); [lia|].
  unfold pair_ap. rewrite P.
  assert (Hc2 : cinv s2) by (eapply popleft_cinv; eauto).
  repeat split; try lia; try apply Hc2.
  destruct (due (pre_maint H s (fst x) (snd x))) eqn:D; [now left|right].
  destruct A4 as [A4|A4]; [|congruence]. split; [lia|].
  unfold due in D. apply Z.ltb_ge in D.
  destruct (pre_maint_facts H HL s (fst x) (snd x)) as (Q1 & Q2 & Q3 & Q4).
  rewrite Q1, Q2, Q3, Q4 in D. lia.
Qed.

Lemma pairs_ap_facts l : forall s,
  1 <= plen s -> cinv s ->
  plen (pairs_ap s l) = plen s /\ n_ins (pairs_ap s l) = n_ins s + Z.of_nat (length l) /\
  cinv (pairs_ap s l).
Proof.
  induction l as [|x l IH]; intros s HLn Hc.
  - simpl. repeat split; try lia; apply Hc.
  - destruct (pair_ap_facts s x HLn Hc) as (P1 & P2 & P3 & P4 & _).
    change (pairs_ap s (x :: l)) with (pairs_ap (pair_ap s x) l).
    destruct (IH (pair_ap s x)) as (Q1 & Q2 & Q4); [lia|auto|].
    rewrite Q1, Q2, P1, P2. simpl length. repeat split; try lia; apply Q4.
Qed.

Lemma prompt_ap_aux load : forall s,
  1 <= plen s -> cinv s -> load <> [] ->
  Z.max 10 (plen s + 1) + 2 <=
    Z.of_nat (length load) + (Z.min (n_ins s) (n_rem s) - last_maint s) ->
  exists l1 x l2, load = l1 ++ x :: l2 /\
    Z.of_nat (length l1) <=
      Z.max 0 (Z.max 10 (plen s + 1) + 1 - (Z.min (n_ins s) (n_rem s) - last_maint s)) /\
    due (pre_maint H (pairs_ap s l1) (fst x) (snd x)) = true.
Proof.
  induction load as [|x load IH]; intros s HLn Hc Hne Hlen; [congruence|].
  destruct (pair_ap_facts s x HLn Hc) as (P1 & P2 & P3 & P4 & [M|[M1 M2]]).
  - exists [], x, load. simpl. split; [reflexivity|]. split; [lia|exact M].
  - assert (Hne' : load <> []).
    { intros ->. simpl length in Hlen. lia. }
    destruct (IH (pair_ap s x)) as (l1 & y & l2 & E & B & M); try lia; auto.
    { rewrite P1, P2, P3, M1. simpl length in Hlen. lia. }
    exists (x :: l1), y, l2. rewrite E. split; [reflexivity|]. split.
    + rewrite P1, P2, P3, M1 in B. simpl length. lia.
    + exact M.
Qed.

(* with L >= 1 entries queued and rounds append_pri;popleft, maintenance runs in
   one of the first max(10,L+1)+2 rounds; in a round after more than L rounds
   every entry queued since the start passes the straggler test *)
Theorem prompt_ap s load :
  cinv s -> 1 <= plen s ->
  Z.max 10 (plen s + 1) + 2 <= Z.of_nat (length load) ->
  exists l1 x l2, load = l1 ++ x :: l2 /\
    Z.of_nat (length l1) <= Z.max 10 (plen s + 1) + 1 /\
    due (pre_maint H (pairs_ap s l1) (fst x) (snd x)) = true.
Proof.
  intros Hc HLn Hlen.
  destruct (prompt_ap_aux load s HLn Hc) as (l1 & x & l2 & E & B & M).
  - intros ->. simpl length in Hlen. lia.
  - destruct Hc. lia.
  - exists l1, x, l2. repeat split; auto. destruct Hc. lia.
Qed.

Theorem prompt_ap_straggler s l1 x :
  cinv s -> 1 <= plen s -> plen s < Z.of_nat (length l1) ->
  let sm := pre_maint H (pairs_ap s l1) (fst x) (snd x) in
  plen sm = plen s + 1 /\
  forall e, In e (arr (pq_ sm)) -> ins_at (epri e) <= n_ins s ->
            (ins_at (epri e) <? n_ins sm - plen sm) = true.
Proof.
  intros Hc HLn Hl sm.
  destruct (pairs_ap_facts l1 s HLn Hc) as (Q1 & Q2 & Q4).
  destruct (pre_maint_facts H HL (pairs_ap s l1) (fst x) (snd x)) as (F1 & F2 & F3 & F4).
  fold sm in F1, F2, F3, F4.
  split; [lia|]. intros e _ Hi. apply Z.ltb_lt. lia.
Qed.

End PromptAP.

(* ------------------------------------------------------------------------- *)
(* A considered entry is boosted (draws in (0,1), factor > 0)                 *)
(* ------------------------------------------------------------------------- *)
Lemma boost_loop_complete a : forall limit m f ds,
  (0 < f)%Q -> Forall (fun d => 0 < d)%Q ds -> (length a <= length ds)%nat ->
  Forall2 (fun e e' => regular e -> ins_at (epri e) < limit -> (m < prio e)%Q ->
                       (boost (epri e') < boost (epri e))%Q)
          a (fst (fst (boost_loop a limit m f ds))).
Proof.
  induction a as [|e t IH]; simpl; intros limit m f ds Hf Hd Hl.
  - constructor.
  - destruct (_ || _ || _) eqn:C.
    + assert (I1 := IH limit m f ds Hf Hd ltac:(lia)).
      destruct (boost_loop t limit m f ds) as [[t' ds'] n]. simpl in *.
      constructor; auto.
      intros R S M. exfalso.
      apply orb_true_iff in C. destruct C as [C|C].
      * apply orb_true_iff in C. destruct C as [C|C].
        -- apply Z.eqb_eq in C. contradiction.
        -- apply negb_true_iff, Z.ltb_ge in C. lia.
      * apply negb_true_iff, qltb_ge in C. unfold prio in M. lra.
    + destruct ds as [|d ds]; [simpl in Hl; lia|].
      inversion Hd as [|? ? Hd1 Hd2]; subst.
      assert (I1 := IH limit m f ds Hf Hd2 ltac:(simpl in Hl; lia)).
      simpl tl. destruct (boost_loop t limit m f ds) as [[t' ds'] n]. simpl in *.
      apply orb_false_iff in C. destruct C as [C C3].
      apply negb_false_iff, qltb_lt in C3.
      assert (PB : qltb (d * ((m - pv_priority (epri e)) * f)) 0 = true).
      { apply qltb_lt. assert (0 < f * (pv_priority (epri e) - m))%Q by nra. nra. }
      rewrite PB. simpl.
      constructor; auto. intros _ _ _. simpl. apply qltb_lt in PB. lra.
Qed.

(* the deterministic core of "so it eventually runs": a draw with r * factor >= 1
   takes the entry to the front of the regular entries (<= m), r * factor > 1
   strictly before them *)
Lemma boost_reaches_min (m p f r : Q) :
  (m < p)%Q -> (1 <= r * f)%Q -> (p + r * ((m - p) * f) <= m)%Q.
Proof. intros. nra. Qed.

Lemma boost_passes_min (m p f r : Q) :
  (m < p)%Q -> (1 < r * f)%Q -> (p + r * ((m - p) * f) < m)%Q.
Proof. intros. nra. Qed.

(* ------------------------------------------------------------------------- *)
(* Part 4: the unrepaired code violated each part (witnesses, by computation) *)
(* ------------------------------------------------------------------------- *)
Inductive oop := OA (o : Z) (p : Q) | OP | OI0 (o : Z).   (* append_pri, popleft, insert(0,.) *)

Definition old_step (s : pos) (op : oop) : pos :=
  match op with
  | OA o p => old_append_pri HPV s o p
  | OP => match old_popleft HPV s with Some (_, s') => s' | None => s end
  | OI0 o => old_insert0 HPV s o
  end.
Definition old_exec (f : Q) (ds : list Q) (ops : list oop) : pos :=
  fold_left old_step ops (pos_empty f ds).

(* the same histories on the repaired model *)
Definition oop_posop (op : oop) : posop :=
  match op with OA o p => QAppendPri o p | OP => QPopleft | OI0 o => QInsert 0 o end.

Definition rounds (n : nat) (o : Z) (p : Q) : list oop := concat (repeat [OP; OA o p] n).
Definition rounds_ap (n : nat) (o : Z) (p : Q) : list oop := concat (repeat [OA o p; OP] n).

(* (object, class, base, boost) of every entry, in array order *)
Definition summary (s : pos) : list (Z * Z * Q * Q) :=
  map (fun e => (eobj e, pclass (epri e), Qred (base (epri e)), Qred (boost (epri e))))
      (arr (pq_ s)).

(* (i) a busy period of 120 rounds, a drain, then a straggler (object 7, priority
   10) with two more urgent entries: last_maintenance exceeds the (reset) counters,
   and 100 rounds later (bound: max(10,3)+1 = 11) maintenance still has not run:
   last_maintenance is unchanged and the straggler was never boosted *)
Definition hist_i : list oop :=
  [OA 1 0%Q; OA 2 0%Q] ++ rounds 120 3 0%Q ++ [OP; OP] ++ [OA 7 (10#1); OA 8 0%Q; OA 9 0%Q].

Lemma refuted_prompt :
  let s := old_exec (3#2) [1#2] hist_i in
  last_maint s = 110 /\ Z.min (n_ins s) (n_rem s) = 0 /\ plen s = 3 /\
  let s' := fold_left old_step (rounds 100 5 0%Q) s in
  last_maint s' = last_maint s /\
  summary s' = [(5, 1, 0%Q, 0%Q); (7, 1, 10%Q, 0%Q); (5, 1, 0%Q, 0%Q)].
Proof. vm_compute. repeat split; reflexivity. Qed.

(* the repaired model on the same history: maintenance within 11 rounds *)
Example repaired_prompt :
  let s := pos_exec (pos_empty (3#2) [1#2]) (map oop_posop hist_i) in
  let s' := pos_exec s (map oop_posop (rounds 11 5 0%Q)) in
  last_maint s = 0 /\ last_maint s' = 11 /\
  summary s' = [(5, 1, 0%Q, 0%Q); (7, 1, 10%Q, (-15#2)%Q); (5, 1, 0%Q, 0%Q)].
Proof. vm_compute. repeat split; reflexivity. Qed.

(* (ii) a positional entry at the head when maintenance runs: the most urgent
   REGULAR entry (object 1, priority 5) is boosted, by more than the bound *)
Definition hist_ii : list oop :=
  [OA 1 (5#1); OA 2 (7#1)] ++ rounds_ap 11 3 1%Q.

Lemma refuted_min_positional :
  let s := old_exec (3#2) [1#2; 1#2; 1#2] hist_ii in
  let s' := old_step s (OI0 4) in
  summary s = [(1, 1, 5%Q, 0%Q); (2, 1, 7%Q, 0%Q)] /\
  summary s' = [(4, 0, 0%Q, 0%Q); (2, 1, 7%Q, (-21#4)%Q); (1, 1, 5%Q, (-15#4)%Q)].
Proof. vm_compute. split; reflexivity. Qed.

Example repaired_min_positional :
  let s := pos_exec (pos_empty (3#2) [1#2; 1#2; 1#2]) (map oop_posop hist_ii) in
  let s' := pos_exec s [QInsert 0 4] in
  summary s' = [(4, 0, 0%Q, 0%Q); (2, 1, 7%Q, (-3#2)%Q); (1, 1, 5%Q, 0%Q)].
Proof. vm_compute. reflexivity. Qed.

(* (iii) a boosted entry (object 1: 10 -> 17/8) is made LESS urgent again by the
   next maintenance (-> 71/8) *)
Definition hist_iii (n : nat) : list oop :=
  [OA 1 (10#1); OA 2 1%Q] ++ rounds_ap n 3 1%Q.

Lemma refuted_only_more_urgent :
  let d := [7#8; 1#8; 1#8] in
  summary (old_exec 1 d (hist_iii 22)) = [(3, 1, 1%Q, 0%Q); (1, 1, 10%Q, (-63#8)%Q)] /\
  summary (old_exec 1 d (hist_iii 23)) = [(3, 1, 1%Q, 0%Q); (1, 1, 10%Q, (-9#8)%Q)].
Proof. vm_compute. split; reflexivity. Qed.

Example repaired_only_more_urgent :
  let d := [7#8; 1#8; 1#8] in
  summary (pos_exec (pos_empty 1 d) (map oop_posop (hist_iii 23)))
  = [(3, 1, 1%Q, 0%Q); (1, 1, 10%Q, (-513#64)%Q)].
Proof. vm_compute. reflexivity. Qed.

(* ------------------------------------------------------------------------- *)
(* Non-vacuity of the main theorems                                           *)
(* ------------------------------------------------------------------------- *)
(* counter_inv: a history after which last_maintenance is positive *)
Example counter_inv_nontrivial :
  let s := pos_exec (pos_empty (3#2) [1#2]) (map oop_posop ([OA 1 0%Q; OA 2 0%Q] ++ rounds 30 3 0%Q)) in
  (last_maint s, n_ins s, n_rem s) = (22, 32, 30).
Proof. vm_compute. reflexivity. Qed.

(* prompt: the hypotheses hold for the state after hist_i (3 entries queued,
   counters reset by the drain) and any load of 14 rounds *)
Example prompt_hypotheses :
  let s := pos_exec (pos_empty (3#2) [1#2]) (map oop_posop hist_i) in
  cinv s /\ 2 <= plen s /\
  plen s + Z.max 10 (plen s) + 1 <= Z.of_nat (length (repeat (5, 0%Q) 14)).
Proof.
  split; [|vm_compute; split; discriminate].
  rewrite pos_exec_gexec. apply gexec_cinv. unfold cinv; simpl; lia.
Qed.

(* boost_safe: a state in which maintenance does change something *)
Example boost_safe_nontrivial :
  let s := bump (pos_exec (pos_empty (3#2) [1#2; 1#2]) (map oop_posop hist_ii)) in
  (0 < factor s)%Q /\ Forall (fun d => d < 1)%Q (draws s) /\
  summary (do_maintenance HPV s) = [(1, 1, 5%Q, 0%Q); (2, 1, 7%Q, (-3#2)%Q)].
Proof.
  vm_compute. split; [reflexivity|]. split; [repeat constructor|reflexivity].
Qed.
