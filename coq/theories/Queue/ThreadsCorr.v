(* Correspondence interface for C18: a queue built by appends, one loop-thread
   operation, the index k of the comparison during which a real second thread
   appends, and that foreign entry. *)
From Coq Require Import QArith.
From Asynkit Require Import Base.Prelude Base.Obs Queue.PQ Queue.PosPQ Queue.Exec Queue.PQCorr Queue.Threads.
Open Scope nat_scope.

Inductive top :=
| TPopleft | TAppend (o : Z) (p : Q) | TFindRemove (o : Z) | TResched (o : Z) (p : Q) | TIter.

Definition prefill (l : list (Z * Q)) : pos :=
  fold_left (fun s op => pos_append_pri HPV s (fst op) (snd op)) l (pos_empty 0 []).

Definition foreign_entry (s : pos) (o : Z) (p : Q) : entry pv := mkE (mkPV p (n_ins s) 0 1) (seqn (pq_ s)) o.

(* number of PriEntry.__lt__ evaluations the undisturbed operation performs: used by the
   harness to know whether index k strikes at all *)
Definition otout (o : tout) : obs :=
  match o with TOk v => OL [OI 0; OI v] | TNone => OL [OI 0] | TRaise => OL [OI 1] end.

Definition threads_run (i : list (Z * Q) * top * nat * (Z * Q)) : obs :=
  let '(pre, op, k, (fo, fp)) := i in
  let s := prefill pre in
  let x := foreign_entry s fo fp in
  let r := match op with
           | TPopleft => t_popleft s k x
           | TAppend o p => t_append s o p k x
           | TFindRemove o => t_find_remove s o k x
           | TResched o p => t_reschedule s o p k x
           | TIter => t_iter_struck s
           end in
  OL [otout (tout_ r); opos (tq r)].
