(* Proofs for asynkit.tools.PriorityQueue (model: Queue/PQ.v).
   For every heap implementation meeting HeapSpec and every strict weak order
   on priorities:
   - the representation invariant [Inv] is preserved by every operation;
   - every operation refines the sorted-list reference model [ref_*] under the
     abstraction [pq_sort] (the unique sorted permutation of the heap array);
   - whole histories: [run_refines]; pop order, nothing lost or duplicated,
     observation does not change the abstract state. *)
From Coq Require Import Sorting.Sorted Sorting.Permutation.
From Asynkit Require Import Base.Prelude Queue.PQ Queue.Order Queue.Heap Queue.ListFacts.

(* operations and results, for whole histories *)
Inductive op (P : Type) :=
| OAdd (p : P) (o : Z) | OExtend (l : list (P * Z))
| OPop | OPeek | ORemove (o : Z)
| OFind (key : Z -> bool) (rm : bool) | OResched (key : Z -> bool) (np : P)
| ORefresh | OSort | OClear
| OOrdered (n : nat)          (* ordereditems(): take n items, then close *)
| OOrderedAll                 (* ordereditems() exhausted *)
| OSortedCopy                 (* sorted() / copy(): contents of a sorted copy *)
| ODrainCopy                  (* pop everything from a copy *)
| OLen | OMem (o : Z).
Arguments OAdd {P}. Arguments OExtend {P}. Arguments OPop {P}. Arguments OPeek {P}.
Arguments ORemove {P}. Arguments OFind {P}. Arguments OResched {P}. Arguments ORefresh {P}.
Arguments OSort {P}. Arguments OClear {P}. Arguments OOrdered {P}. Arguments OOrderedAll {P}.
Arguments OSortedCopy {P}. Arguments ODrainCopy {P}. Arguments OLen {P}. Arguments OMem {P}.

Inductive res (P : Type) :=
| RUnit | RErr | RNone | REntry (e : entry P) | RPri (p : P) | RObj (o : Z)
| REntries (l : list (entry P)) | RNat (n : nat) | RBool (b : bool).
Arguments RUnit {P}. Arguments RErr {P}. Arguments RNone {P}. Arguments REntry {P}.
Arguments RPri {P}. Arguments RObj {P}. Arguments REntries {P}. Arguments RNat {P}.
Arguments RBool {P}.

Section PQProofs.
Context {P : Type} (H : heapimpl P) (SW : StrictWeak (plt H)) (HS : HeapSpec H).
Notation entry := (entry P).
Notation pq := (pq P).
Notation elt := (entry_lt (plt H)).
Notation ele := (ele (plt H)).
Notation heap := (is_heap (entry_lt (plt H))).
Notation sorted := (sorted (plt H)).
Notation sort := (stable_sort H).
Notation ins := (ins_stable H).
Notation abs := (pq_sort H).

(* ------------------------------------------------------------------ *)
(* the invariant                                                       *)

(* the part that does not depend on the layout *)
Definition CInv (s : Z) (a : list entry) : Prop :=
  NoDup (map eseq a) /\ Forall (fun e => (eseq e < s)%Z) a /\ (0 <= s)%Z.

Definition Inv (q : pq) : Prop := heap (arr q) /\ CInv (seqn q) (arr q).

Lemma Inv_unfold q :
  Inv q <-> heap (arr q) /\ NoDup (map eseq (arr q)) /\
            Forall (fun e => (eseq e < seqn q)%Z) (arr q) /\ (0 <= seqn q)%Z.
Proof. reflexivity. Qed.

Lemma CInv_perm s a a' : Permutation a a' -> CInv s a -> CInv s a'.
Proof.
  intros Hp (Hnd & Hall & Hs). repeat split; auto.
  - eapply Permutation_NoDup; [apply Permutation_map, Hp | auto].
  - eapply Permutation_Forall; eauto.
Qed.

Lemma CInv_app_r s r a : CInv s (r ++ a) -> CInv s a.
Proof.
  intros (Hnd & Hall & Hs). rewrite map_app in Hnd. apply NoDup_app_r in Hnd.
  apply Forall_app in Hall. repeat split; tauto.
Qed.

Lemma CInv_cons_inv s e a : CInv s (e :: a) -> CInv s a.
Proof. apply (CInv_app_r s [e] a). Qed.

Lemma CInv_reset s a : CInv s a -> CInv (match a with [] => 0%Z | _ => s end) a.
Proof.
  destruct a; auto. intros _. repeat split; simpl; auto; try constructor. lia.
Qed.

Lemma CInv_add s a p o : CInv s a -> CInv (s + 1) (mkE p s o :: a).
Proof.
  intros (Hnd & Hall & Hs). repeat split; simpl; try lia.
  - constructor; auto. rewrite in_map_iff. intros (x & Hx & Hin).
    rewrite Forall_forall in Hall. specialize (Hall _ Hin). lia.
  - constructor; simpl; try lia. eapply Forall_impl; [|exact Hall]. simpl. intros; lia.
Qed.

Lemma CInv_nil : CInv 0 [].
Proof. repeat split; simpl; try constructor. lia. Qed.

Lemma Inv_empty : Inv pq_empty.
Proof. split; [apply is_heap_nil | apply CInv_nil]. Qed.

(* an entry leaves the array *)
Lemma removed_inv s a e a' :
  CInv s a -> Permutation a (e :: a') -> heap a' ->
  Inv (mkPQ s a') /\ Inv (reset_if_empty s a').
Proof.
  intros Hc Hp Hh.
  assert (Hc' : CInv s a') by (eapply CInv_cons_inv, CInv_perm; eauto).
  split; split; simpl; auto. apply CInv_reset; auto.
Qed.

Lemma reset_nonempty s (a : list entry) : a <> [] -> reset_if_empty s a = mkPQ s a.
Proof. destruct a; [congruence | reflexivity]. Qed.

(* ------------------------------------------------------------------ *)
(* sorting and the abstraction                                         *)

Lemma ins_not_nil e l : ins e l <> [].
Proof. destruct l; simpl; [discriminate|]. destruct (elt e e0); discriminate. Qed.

Lemma sort_reset s a : abs (reset_if_empty s a) = reset_if_empty s (sort a).
Proof.
  unfold pq_sort, reset_if_empty; simpl. destruct a as [|h t]; auto.
  simpl. destruct (ins h (sort t)) eqn:E; auto. apply ins_not_nil in E. tauto.
Qed.

Lemma abs_inv q : Inv q -> Inv (abs q).
Proof.
  intros [Hh Hc]. split; simpl.
  - apply (esorted_is_heap SW), stable_sort_sorted; auto.
  - eapply CInv_perm; [apply Permutation_sym, stable_sort_perm | auto].
Qed.

Lemma abs_idem q : Inv q -> abs (abs q) = abs q.
Proof.
  intros (_ & Hnd & _). unfold pq_sort; simpl. f_equal. apply sort_idem; auto.
Qed.

(* sorting after removing the unique entry picked out by f *)
Lemma removed_abs (f : entry -> bool) a e a' :
  NoDup (map eseq a) -> Permutation a (e :: a') -> f e = true ->
  (forall x, In x a -> f x = true -> x = e) ->
  find f (sort a) = Some e /\ sort a' = remove_first f (sort a).
Proof.
  intros Hnd Hp Hfe Hu.
  assert (Hps : Permutation (sort a) a) by apply stable_sort_perm.
  assert (Hfind : find f (sort a) = Some e).
  { apply find_unique; auto.
    - eapply Permutation_in; [apply Permutation_sym, Hps|].
      eapply Permutation_in; [apply Permutation_sym, Hp|]. simpl; auto.
    - intros x Hx. apply Hu. eapply Permutation_in; eauto. }
  split; auto.
  apply sort_unique; auto.
  - eapply (NoDup_map_perm eseq) in Hnd; [|exact Hp]. simpl in Hnd. inversion Hnd; auto.
  - pose proof (stable_sort_sorted H SW a) as Hs.
    clear - Hs SW. induction (sort a) as [|h t IH]; simpl; auto.
    destruct (sorted_cons_inv Hs) as [Hst Hall].
    destruct (f h); auto. apply sorted_cons; auto.
    rewrite Forall_forall in *. intros x Hx. apply Hall. eapply remove_first_incl; eauto.
  - apply (Permutation_cons_inv (a := e)).
    eapply perm_trans; [apply Permutation_sym, find_perm_remove, Hfind|].
    eapply perm_trans; [exact Hps | exact Hp].
Qed.

(* ------------------------------------------------------------------ *)
(* reference model: a queue whose array is the sorted list             *)

Definition ref_add (r : pq) (p : P) (o : Z) : pq :=
  mkPQ (seqn r + 1) (ins (mkE p (seqn r) o) (arr r)).

Definition ref_popentry (r : pq) : option (entry * pq) :=
  match arr r with
  | [] => None
  | e :: t => Some (e, reset_if_empty (seqn r) t)
  end.

Definition ref_extend (r : pq) (l : list (P * Z)) : pq :=
  fold_left (fun r po => ref_add r (fst po) (snd po)) l r.

Definition okey (key : Z -> bool) (e : entry) : bool := key (eobj e).

Definition ref_remove (r : pq) (o : Z) : option (P * pq) :=
  match find (okey (Z.eqb o)) (arr r) with
  | None => None
  | Some e => Some (epri e, reset_if_empty (seqn r) (remove_first (okey (Z.eqb o)) (arr r)))
  end.

Definition ref_find (r : pq) (key : Z -> bool) (rm : bool) : option (entry * pq) :=
  match find (okey key) (arr r) with
  | None => None
  | Some e => Some (e, if rm then reset_if_empty (seqn r) (remove_first (okey key) (arr r))
                       else r)
  end.

Definition ref_reschedule (r : pq) (key : Z -> bool) (np : P) : option (Z * pq) :=
  match find (okey key) (arr r) with
  | None => None
  | Some e =>
      if plt H (epri e) np || plt H np (epri e)
      then Some (eobj e, mkPQ (seqn r) (ins (mkE np (eseq e) (eobj e))
                                            (remove_first (okey key) (arr r))))
      else Some (eobj e, r)
  end.

Definition ref_ordered_take (r : pq) (n : nat) : list entry * pq := (firstn n (arr r), r).

Definition lift_abs {X} (r : option (X * pq)) : option (X * pq) :=
  match r with None => None | Some (x, q) => Some (x, abs q) end.

(* the key of find/reschedule selects at most one entry of the queue *)
Definition KeyUniq (key : Z -> bool) (a : list entry) : Prop :=
  forall x y, In x a -> In y a -> key (eobj x) = true -> key (eobj y) = true -> x = y.

Definition ObjsDistinct (a : list entry) : Prop := NoDup (map eobj a).

Lemma ObjsDistinct_keyuniq a o : ObjsDistinct a -> KeyUniq (Z.eqb o) a.
Proof.
  intros Hnd x y Hx Hy Hkx Hky. apply Z.eqb_eq in Hkx, Hky.
  eapply NoDup_map_inj_in; eauto. congruence.
Qed.

Lemma KeyUniq_perm key a a' : Permutation a a' -> KeyUniq key a -> KeyUniq key a'.
Proof.
  intros Hp Hu x y Hx Hy. apply Hu; eapply Permutation_in; try apply Permutation_sym; eauto.
Qed.

(* ------------------------------------------------------------------ *)
(* add                                                                 *)

Lemma add_perm q p o : Permutation (arr (pq_add H q p o)) (mkE p (seqn q) o :: arr q).
Proof. apply (hs_push_perm HS). Qed.

Lemma add_inv q p o : Inv q -> Inv (pq_add H q p o).
Proof.
  intros [Hh Hc]. split; simpl.
  - apply (hs_push_heap HS); auto.
  - eapply CInv_perm; [apply Permutation_sym, (hs_push_perm HS)|]. apply CInv_add; auto.
Qed.

Lemma add_refines q p o : Inv q -> abs (pq_add H q p o) = ref_add (abs q) p o.
Proof.
  intros Hi. destruct (add_inv q p o Hi) as (_ & Hnd & _).
  unfold pq_sort, ref_add; simpl. f_equal.
  apply sort_cons_perm; auto. apply (hs_push_perm HS).
Qed.

(* ------------------------------------------------------------------ *)
(* pop                                                                 *)

Lemma heappop_shape a e a' :
  heap a -> heappop H a = Some (e, a') ->
  hd_error a = Some e /\ Permutation a (e :: a') /\ heap a' /\ Forall (ele e) a'.
Proof.
  intros Hh Hpop.
  destruct (hs_pop_heap HS _ _ _ Hh Hpop) as [Hhd Hh'].
  pose proof (hs_pop_perm HS _ _ _ Hpop) as Hp.
  repeat split; auto.
  destruct a as [|x t]; simpl in Hhd; [discriminate|]. inversion Hhd; subst x.
  apply (eheap_min_cons SW) in Hh.
  eapply Permutation_Forall; [|exact Hh]. eapply Permutation_cons_inv; eauto.
Qed.

Lemma heappop_none a : heappop H a = None -> a = [].
Proof.
  intros Hn. destruct a as [|x t]; auto.
  destruct (hs_pop_some HS (x :: t)) as (e & a' & E); [discriminate | congruence].
Qed.

Lemma pop_inv q e q' :
  Inv q -> pq_popentry H q = Some (e, q') ->
  Inv q' /\ Permutation (arr q) (e :: arr q') /\ hd_error (arr q) = Some e.
Proof.
  intros [Hh Hc]. unfold pq_popentry. destruct (heappop H (arr q)) as [[e0 a']|] eqn:Hpop; [|discriminate].
  intros E. inversion E; subst e0 q'; clear E.
  destruct (heappop_shape _ _ _ Hh Hpop) as (Hhd & Hp & Hh' & _).
  destruct (removed_inv _ _ _ _ Hc Hp Hh') as [_ Hi].
  split; [exact Hi | split; simpl; auto].
Qed.

Lemma pop_refines q : Inv q -> lift_abs (pq_popentry H q) = ref_popentry (abs q).
Proof.
  intros [Hh (Hnd & _)]. unfold pq_popentry, ref_popentry.
  destruct (heappop H (arr q)) as [[e a']|] eqn:Hpop; simpl.
  - destruct (heappop_shape _ _ _ Hh Hpop) as (_ & Hp & _ & Hall).
    rewrite (sort_min_first H SW _ _ _ Hnd Hp Hall). rewrite sort_reset. reflexivity.
  - apply heappop_none in Hpop. rewrite Hpop. reflexivity.
Qed.

Lemma peek_refines q : Inv q -> pq_peek q = pq_peek (abs q).
Proof.
  intros [Hh (Hnd & _)]. unfold pq_peek, pq_sort. simpl.
  destruct (arr q) as [|e t].
  - reflexivity.
  - rewrite (sort_min_first H SW (e :: t) e t Hnd); auto.
    apply (eheap_min_cons SW). auto.
Qed.

(* ------------------------------------------------------------------ *)
(* extend                                                              *)

Lemma extend_entries_spec l : forall s a,
  CInv s a ->
  CInv (fst (extend_entries s l)) (a ++ snd (extend_entries s l)) /\
  mkPQ (fst (extend_entries s l)) (sort (a ++ snd (extend_entries s l)))
  = ref_extend (mkPQ s (sort a)) l.
Proof.
  induction l as [|[p o] l IH]; intros s a Hc; simpl.
  - rewrite app_nil_r. auto.
  - destruct (extend_entries (s + 1) l) as [s' es] eqn:E. simpl.
    assert (Hc1 : CInv (s + 1) (a ++ [mkE p s o])).
    { eapply CInv_perm; [apply Permutation_cons_append | apply CInv_add; auto]. }
    specialize (IH (s + 1)%Z (a ++ [mkE p s o]) Hc1). rewrite E in IH. simpl in IH.
    rewrite <- app_assoc in IH. simpl in IH. destruct IH as [IH1 IH2].
    split; auto. rewrite IH2. unfold ref_add; simpl. do 3 f_equal.
    apply sort_cons_perm; auto.
    + destruct Hc1; auto.
    + apply Permutation_sym, Permutation_cons_append.
Qed.

Lemma extend_inv q l : Inv q -> Inv (pq_extend H q l).
Proof.
  intros [Hh Hc]. unfold pq_extend.
  destruct (extend_entries_spec l _ _ Hc) as [Hc' _].
  destruct (extend_entries (seqn q) l) as [s' es]. simpl in *. split; simpl.
  - apply (hs_heapify_heap HS).
  - eapply CInv_perm; [apply Permutation_sym, (hs_heapify_perm HS) | auto].
Qed.

Lemma extend_refines q l : Inv q -> abs (pq_extend H q l) = ref_extend (abs q) l.
Proof.
  intros [Hh Hc]. unfold pq_extend.
  destruct (extend_entries_spec l _ _ Hc) as [Hc' Hr].
  destruct (extend_entries (seqn q) l) as [s' es]. cbn [fst snd] in *.
  change (abs q) with (mkPQ (seqn q) (sort (arr q))). rewrite <- Hr.
  unfold pq_sort; cbn [seqn arr]. f_equal.
  symmetry. apply (sort_perm_eq H SW).
  - destruct Hc'; auto.
  - apply Permutation_sym, (hs_heapify_perm HS).
Qed.

Lemma extend_perm q l :
  Permutation (arr (pq_extend H q l)) (arr q ++ snd (extend_entries (seqn q) l)).
Proof.
  unfold pq_extend. destruct (extend_entries (seqn q) l) as [s' es]. simpl.
  apply (hs_heapify_perm HS).
Qed.

(* ------------------------------------------------------------------ *)
(* searching the array                                                 *)

Lemma find_index_some key (l : list entry) i d :
  find_index key l = Some i -> i < length l /\ key (eobj (nth i l d)) = true.
Proof.
  revert i. induction l as [|e t IH]; simpl; intros i; [discriminate|].
  destruct (key (eobj e)) eqn:K.
  - intros E; inversion E; subst. split; [lia | auto].
  - destruct (find_index key t) as [j|] eqn:F; [|discriminate].
    intros E; inversion E; subst. destruct (IH j eq_refl). split; [lia | auto].
Qed.

Lemma find_index_none key (l : list entry) :
  find_index key l = None -> forall x, In x l -> key (eobj x) = false.
Proof.
  induction l as [|e t IH]; simpl; [tauto|].
  destruct (key (eobj e)) eqn:K; [discriminate|].
  destruct (find_index key t); [discriminate|].
  intros _ x [<-|Hx]; auto.
Qed.

Lemma find_last_index_some key (l : list entry) i d :
  find_last_index key l = Some i -> i < length l /\ key (eobj (nth i l d)) = true.
Proof.
  unfold find_last_index. destruct (find_index key (rev l)) as [j|] eqn:F; [|discriminate].
  intros E; inversion E; subst; clear E.
  destruct (find_index_some key (rev l) j d F) as [Hj Hk]. rewrite rev_length in Hj.
  split; [lia|]. rewrite rev_nth in Hk by auto.
  replace (length l - j - 1) with (length l - S j) by lia. auto.
Qed.

Lemma find_last_index_none key (l : list entry) :
  find_last_index key l = None -> forall x, In x l -> key (eobj x) = false.
Proof.
  unfold find_last_index. destruct (find_index key (rev l)) as [j|] eqn:F; [discriminate|].
  intros _ x Hx. apply (find_index_none _ _ F). apply in_rev in Hx. auto.
Qed.

Lemma find_sorted_none key a :
  (forall x, In x a -> key (eobj x) = false) -> find (okey key) (sort a) = None.
Proof.
  intros Hn. apply find_none_iff. intros x Hx. apply Hn.
  eapply Permutation_in; [apply (stable_sort_perm H) | auto].
Qed.

(* ------------------------------------------------------------------ *)
(* remove                                                              *)

Lemma remove_some q o i :
  Inv q -> find_index (Z.eqb o) (arr q) = Some i ->
  let e := nth i (arr q) (edflt H) in
  exists a', pq_remove H q o = Some (epri e, reset_if_empty (seqn q) a') /\
             Permutation (arr q) (e :: a') /\ heap a'.
Proof.
  intros [Hh Hc] Hfi e.
  destruct (find_index_some _ _ _ (edflt H) Hfi) as [Hi _].
  unfold pq_remove. rewrite Hfi.
  destruct (Nat.eqb i 0) eqn:E0.
  - apply Nat.eqb_eq in E0. subst i.
    destruct (heappop H (arr q)) as [[e' a']|] eqn:Hpop.
    + destruct (heappop_shape _ _ _ Hh Hpop) as (Hhd & Hp & Hh' & _).
      assert (e' = e).
      { unfold e. destruct (arr q); simpl in *; [discriminate|]. congruence. }
      subst e'. exists a'. auto.
    + apply heappop_none in Hpop. rewrite Hpop in Hi. simpl in Hi. lia.
  - apply Nat.eqb_neq in E0.
    assert (Hne : arr q <> []) by (destruct (arr q); simpl in *; [lia | discriminate]).
    destruct (Nat.eqb i (length (arr q) - 1)) eqn:E1.
    + apply Nat.eqb_eq in E1. exists (removelast (arr q)).
      rewrite last_nth. rewrite <- E1. fold e. repeat split.
      * unfold e. rewrite E1, <- last_nth. apply perm_removelast; auto.
      * apply is_heap_removelast; auto.
    + apply Nat.eqb_neq in E1. exists (replace_with_tail H (arr q) i).
      fold e. repeat split.
      * unfold replace_with_tail.
        eapply perm_trans; [apply (perm_replace_with_tail (arr q) i (edflt H)); lia|].
        apply perm_skip, Permutation_sym, (hs_heapify_perm HS).
      * apply (hs_heapify_heap HS).
Qed.

Lemma remove_none q o :
  find_index (Z.eqb o) (arr q) = None -> pq_remove H q o = None.
Proof. intros Hfi. unfold pq_remove. rewrite Hfi. auto. Qed.

Lemma remove_inv q o p q' :
  Inv q -> pq_remove H q o = Some (p, q') ->
  Inv q' /\ exists e, eobj e = o /\ epri e = p /\ Permutation (arr q) (e :: arr q').
Proof.
  intros Hi Hr. destruct (find_index (Z.eqb o) (arr q)) as [i|] eqn:Hfi.
  - destruct (remove_some q o i Hi Hfi) as (a' & E & Hp & Hh).
    rewrite E in Hr. inversion Hr; subst; clear Hr.
    destruct Hi as [_ Hc]. destruct (removed_inv _ _ _ _ Hc Hp Hh) as [_ Hi']. split; auto.
    exists (nth i (arr q) (edflt H)). repeat split; auto.
    destruct (find_index_some _ _ _ (edflt H) Hfi) as [_ Hk]. apply Z.eqb_eq in Hk. auto.
  - rewrite remove_none in Hr by auto. discriminate.
Qed.

Lemma remove_refines q o :
  Inv q -> ObjsDistinct (arr q) -> lift_abs (pq_remove H q o) = ref_remove (abs q) o.
Proof.
  intros Hi Hd. unfold ref_remove. simpl arr. simpl seqn.
  destruct (find_index (Z.eqb o) (arr q)) as [i|] eqn:Hfi.
  - destruct (remove_some q o i Hi Hfi) as (a' & E & Hp & Hh). rewrite E. simpl.
    destruct (find_index_some _ _ _ (edflt H) Hfi) as [Hlt Hk].
    set (e := nth i (arr q) (edflt H)) in *.
    destruct Hi as (_ & Hnd & _).
    destruct (removed_abs (okey (Z.eqb o)) _ _ _ Hnd Hp Hk) as [Hf Hs].
    { intros x Hx Hkx. apply (ObjsDistinct_keyuniq _ o Hd); auto. apply nth_In; auto. }
    rewrite Hf, sort_reset, Hs. reflexivity.
  - rewrite remove_none by auto. simpl.
    rewrite find_sorted_none; auto. apply find_index_none; auto.
Qed.

(* ------------------------------------------------------------------ *)
(* find                                                                *)

Lemma find_some q key i :
  Inv q -> find_last_index key (arr q) = Some i ->
  let e := nth i (arr q) (edflt H) in
  pq_find H q key false = Some (e, q) /\
  exists a', pq_find H q key true = Some (e, reset_if_empty (seqn q) a') /\
             Permutation (arr q) (e :: a') /\ heap a'.
Proof.
  intros [Hh Hc] Hfi e.
  destruct (find_last_index_some _ _ _ (edflt H) Hfi) as [Hi _].
  unfold pq_find. rewrite Hfi. split; auto.
  assert (Hne : arr q <> []) by (destruct (arr q); simpl in *; [lia | discriminate]).
  destruct (Nat.eqb i (length (arr q) - 1)) eqn:E1.
  - apply Nat.eqb_eq in E1. exists (removelast (arr q)). fold e. repeat split.
    + unfold e. rewrite E1, <- last_nth. apply perm_removelast; auto.
    + apply is_heap_removelast; auto.
  - apply Nat.eqb_neq in E1. exists (replace_with_tail H (arr q) i). fold e.
    assert (Hp : Permutation (arr q) (e :: replace_with_tail H (arr q) i)).
    { unfold replace_with_tail.
      eapply perm_trans; [apply (perm_replace_with_tail (arr q) i (edflt H)); lia|].
      apply perm_skip, Permutation_sym, (hs_heapify_perm HS). }
    repeat split; auto.
    + rewrite reset_nonempty; auto. intros E. rewrite E in Hp.
      apply Permutation_length in Hp. simpl in Hp. lia.
    + apply (hs_heapify_heap HS).
Qed.

Lemma find_none q key rm :
  find_last_index key (arr q) = None -> pq_find H q key rm = None.
Proof. intros Hfi. unfold pq_find. rewrite Hfi. auto. Qed.

Lemma find_inv q key rm e q' :
  Inv q -> pq_find H q key rm = Some (e, q') ->
  Inv q' /\ key (eobj e) = true /\ In e (arr q) /\
  (if rm then Permutation (arr q) (e :: arr q') else q' = q).
Proof.
  intros Hi Hr. destruct (find_last_index key (arr q)) as [i|] eqn:Hfi.
  - destruct (find_some q key i Hi Hfi) as (E0 & a' & E1 & Hp & Hh).
    destruct (find_last_index_some _ _ _ (edflt H) Hfi) as [Hlt Hk].
    destruct rm.
    + rewrite E1 in Hr. inversion Hr; subst; clear Hr.
      destruct Hi as [_ Hc]. destruct (removed_inv _ _ _ _ Hc Hp Hh) as [_ Hi'].
      split; [exact Hi'|]. split; [auto|]. split; [apply nth_In; auto | simpl; auto].
    + rewrite E0 in Hr. inversion Hr; subst; clear Hr.
      split; [exact Hi|]. split; [auto|]. split; [apply nth_In; auto | auto].
  - rewrite find_none in Hr by auto. discriminate.
Qed.

Lemma find_refines q key rm :
  Inv q -> KeyUniq key (arr q) ->
  lift_abs (pq_find H q key rm) = ref_find (abs q) key rm.
Proof.
  intros Hi Hu. unfold ref_find. simpl arr. simpl seqn.
  destruct (find_last_index key (arr q)) as [i|] eqn:Hfi.
  - destruct (find_some q key i Hi Hfi) as (E0 & a' & E1 & Hp & Hh).
    destruct (find_last_index_some _ _ _ (edflt H) Hfi) as [Hlt Hk].
    set (e := nth i (arr q) (edflt H)) in *.
    destruct Hi as (_ & Hnd & _).
    destruct (removed_abs (okey key) _ _ _ Hnd Hp Hk) as [Hf Hs].
    { intros x Hx Hkx. apply Hu; auto. apply nth_In; auto. }
    rewrite Hf. destruct rm.
    + rewrite E1. simpl. rewrite sort_reset, Hs. reflexivity.
    + rewrite E0. reflexivity.
  - rewrite find_none by auto. simpl.
    rewrite find_sorted_none; auto. apply find_last_index_none; auto.
Qed.

(* ------------------------------------------------------------------ *)
(* reschedule                                                          *)

Lemma CInv_swap_head s (e e' : entry) r :
  eseq e' = eseq e -> CInv s (e :: r) -> CInv s (e' :: r).
Proof.
  intros Hs (Hnd & Hall & H0). repeat split; auto.
  - simpl in *. rewrite Hs. auto.
  - inversion Hall; subst. constructor; auto. rewrite Hs. auto.
Qed.

Lemma resched_none q key np :
  find_last_index key (arr q) = None -> pq_reschedule H q key np = None.
Proof. intros Hfi. unfold pq_reschedule. rewrite Hfi. auto. Qed.

Lemma resched_some q key np i :
  find_last_index key (arr q) = Some i ->
  let e := nth i (arr q) (edflt H) in
  pq_reschedule H q key np =
  if plt H (epri e) np || plt H np (epri e)
  then Some (eobj e, mkPQ (seqn q) (heapify H (set_nth (arr q) i (mkE np (eseq e) (eobj e)))))
  else Some (eobj e, q).
Proof. intros Hfi. unfold pq_reschedule. rewrite Hfi. reflexivity. Qed.

Lemma resched_inv q key np o q' :
  Inv q -> pq_reschedule H q key np = Some (o, q') ->
  Inv q' /\ key o = true /\
  exists e r, In e (arr q) /\ eobj e = o /\ Permutation (arr q) (e :: r) /\
    (q' = q \/ Permutation (arr q') (mkE np (eseq e) o :: r) /\ seqn q' = seqn q).
Proof.
  intros Hi Hr. destruct (find_last_index key (arr q)) as [i|] eqn:Hfi.
  - rewrite (resched_some q key np i Hfi) in Hr.
    destruct (find_last_index_some _ _ _ (edflt H) Hfi) as [Hlt Hk].
    set (e := nth i (arr q) (edflt H)) in *.
    pose proof (perm_remove_nth (arr q) i (edflt H) Hlt) as Hp. fold e in Hp.
    destruct (plt H (epri e) np || plt H np (epri e)); inversion Hr as [[Ho Hq]]; subst o q'; clear Hr.
    + set (e' := mkE np (eseq e) (eobj e)).
      assert (Hp' : Permutation (heapify H (set_nth (arr q) i e')) (e' :: remove_nth (arr q) i)).
      { eapply perm_trans; [apply (hs_heapify_perm HS) | apply perm_set_nth; auto]. }
      split; [|split; auto].
      * destruct Hi as [_ Hc]. split; simpl; [apply (hs_heapify_heap HS)|].
        eapply CInv_perm; [apply Permutation_sym, Hp'|].
        apply (CInv_swap_head _ e); auto. eapply CInv_perm; eauto.
      * exists e, (remove_nth (arr q) i).
        split; [apply nth_In; auto|]. split; [auto|]. split; [auto|]. right. simpl. auto.
    + split; auto. split; auto.
      exists e, (remove_nth (arr q) i).
      split; [apply nth_In; auto|]. split; [auto|]. split; [auto|]. left. auto.
  - rewrite resched_none in Hr by auto. discriminate.
Qed.

Lemma resched_refines q key np :
  Inv q -> KeyUniq key (arr q) ->
  lift_abs (pq_reschedule H q key np) = ref_reschedule (abs q) key np.
Proof.
  intros Hi Hu. unfold ref_reschedule. simpl arr. simpl seqn.
  destruct (find_last_index key (arr q)) as [i|] eqn:Hfi.
  - rewrite (resched_some q key np i Hfi).
    destruct (find_last_index_some _ _ _ (edflt H) Hfi) as [Hlt Hk].
    set (e := nth i (arr q) (edflt H)) in *.
    pose proof (perm_remove_nth (arr q) i (edflt H) Hlt) as Hp. fold e in Hp.
    destruct Hi as (_ & Hc). pose proof Hc as (Hnd & _).
    destruct (removed_abs (okey key) _ _ _ Hnd Hp Hk) as [Hf Hs].
    { intros x Hx Hkx. apply Hu; auto. apply nth_In; auto. }
    rewrite Hf.
    destruct (plt H (epri e) np || plt H np (epri e)); simpl; auto.
    unfold pq_sort; simpl. do 3 f_equal. rewrite <- Hs.
    set (e' := mkE np (eseq e) (eobj e)).
    assert (Hp' : Permutation (heapify H (set_nth (arr q) i e')) (e' :: remove_nth (arr q) i)).
    { eapply perm_trans; [apply (hs_heapify_perm HS) | apply perm_set_nth; auto]. }
    apply sort_cons_perm; auto.
    assert (Hc' : CInv (seqn q) (heapify H (set_nth (arr q) i e'))).
    { eapply CInv_perm; [apply Permutation_sym, Hp'|].
      apply (CInv_swap_head _ e); auto. eapply CInv_perm; eauto. }
    destruct Hc'; auto.
  - rewrite resched_none by auto. simpl.
    rewrite find_sorted_none; auto. apply find_last_index_none; auto.
Qed.

(* ------------------------------------------------------------------ *)
(* refresh, sort, clear                                                *)

Lemma refresh_inv q : Inv q -> Inv (pq_refresh H q).
Proof.
  intros [Hh Hc]. split; simpl; [apply (hs_heapify_heap HS)|].
  eapply CInv_perm; [apply Permutation_sym, (hs_heapify_perm HS) | auto].
Qed.

Lemma refresh_refines q : Inv q -> abs (pq_refresh H q) = abs q.
Proof.
  intros (_ & Hnd & _). unfold pq_sort, pq_refresh; simpl. f_equal.
  symmetry. apply (sort_perm_eq H SW); auto. apply Permutation_sym, (hs_heapify_perm HS).
Qed.

Lemma sort_inv q : Inv q -> Inv (pq_sort H q).
Proof. apply abs_inv. Qed.

Lemma clear_inv q : Inv (pq_clear q).
Proof. apply Inv_empty. Qed.

(* ------------------------------------------------------------------ *)
(* ordereditems(): lazy popping, then one of three restore strategies   *)

Lemma sort_head_heap x t : heap (x :: t) -> NoDup (map eseq (x :: t)) ->
  sort (x :: t) = x :: sort t.
Proof.
  intros Hh Hnd. apply (sort_min_first H SW (x :: t) x t Hnd); auto.
  apply (eheap_min_cons SW); auto.
Qed.

Lemma heappop_sort a e a1 :
  heap a -> NoDup (map eseq a) -> heappop H a = Some (e, a1) ->
  hd_error a = Some e /\ heap a1 /\ NoDup (map eseq a1) /\
  sort a = e :: sort a1 /\ Permutation a (e :: a1).
Proof.
  intros Hh Hnd Hpop.
  destruct (heappop_shape _ _ _ Hh Hpop) as (Hhd & Hp & Hh1 & Hall).
  repeat split; auto.
  - eapply (NoDup_map_perm eseq) in Hnd; [|exact Hp]. simpl in Hnd. inversion Hnd; auto.
  - apply (sort_min_first H SW _ _ _ Hnd Hp Hall).
Qed.

Lemma yield_loop_SS k head t popped yielded :
  yield_loop H (S (S k)) (head :: t) popped yielded =
  match heappop H (head :: t) with
  | None => (yielded ++ [head], popped, head :: t)
  | Some (e, a') => yield_loop H (S k) a' (popped ++ [e]) (yielded ++ [head])
  end.
Proof. reflexivity. Qed.

Lemma yield_loop_spec k : forall a popped yielded,
  heap a -> NoDup (map eseq a) ->
  exists popped2 a',
    yield_loop H k a popped yielded
      = (yielded ++ firstn k (sort a), popped ++ popped2, a') /\
    heap a' /\ popped2 ++ sort a' = sort a /\ Permutation a (popped2 ++ a').
Proof.
  induction k as [|k IH]; intros a popped yielded Hh Hnd.
  - exists [], a. simpl. rewrite !app_nil_r. auto.
  - destruct a as [|head t].
    + exists [], []. simpl. rewrite !app_nil_r. repeat split; auto.
    + pose proof (sort_head_heap _ _ Hh Hnd) as Hsh.
      destruct k as [|k].
      * exists [], (head :: t). cbn [yield_loop]. rewrite Hsh, app_nil_r. simpl. auto.
      * rewrite yield_loop_SS.
        destruct (heappop H (head :: t)) as [[e a1]|] eqn:Hpop.
        -- destruct (heappop_sort _ _ _ Hh Hnd Hpop) as (Hhd & Hh1 & Hnd1 & Hs & Hp).
           simpl in Hhd. inversion Hhd; subst e.
           destruct (IH a1 (popped ++ [head]) (yielded ++ [head]) Hh1 Hnd1)
             as (p2 & a' & E & Hh' & Hs' & Hp').
           exists (head :: p2), a'. rewrite E, Hs. repeat split; auto.
           ++ rewrite <- !app_assoc. simpl. reflexivity.
           ++ simpl. rewrite Hs'. reflexivity.
           ++ simpl. eapply perm_trans; [exact Hp | apply perm_skip, Hp'].
        -- apply heappop_none in Hpop. discriminate.
Qed.

Lemma pop_many_spec k : forall a popped,
  heap a -> NoDup (map eseq a) ->
  exists popped2 a',
    pop_many H k a popped = (popped ++ popped2, a') /\
    heap a' /\ popped2 ++ sort a' = sort a /\ Permutation a (popped2 ++ a') /\
    (length a <= k -> a' = []).
Proof.
  induction k as [|k IH]; intros a popped Hh Hnd.
  - exists [], a. simpl. rewrite !app_nil_r. repeat split; auto.
    destruct a; simpl; auto. lia.
  - cbn [pop_many]. destruct (heappop H a) as [[e a1]|] eqn:Hpop.
    + destruct (heappop_sort _ _ _ Hh Hnd Hpop) as (Hhd & Hh1 & Hnd1 & Hs & Hp).
      destruct (IH a1 (popped ++ [e]) Hh1 Hnd1) as (p2 & a' & E & Hh' & Hs' & Hp' & Hl).
      exists (e :: p2), a'. rewrite E, Hs. repeat split; auto.
      * rewrite <- app_assoc; reflexivity.
      * simpl. rewrite Hs'. reflexivity.
      * simpl. eapply perm_trans; [exact Hp | apply perm_skip, Hp'].
      * intros Hlen. apply Hl. apply Permutation_length in Hp. simpl in Hp. lia.
    + apply heappop_none in Hpop. subst a. exists [], []. rewrite app_nil_r.
      repeat split; auto.
Qed.

Lemma fold_push_spec l : forall a,
  heap a -> heap (fold_left (heappush H) l a) /\
            Permutation (fold_left (heappush H) l a) (l ++ a).
Proof.
  induction l as [|x l IH]; intros a Hh; simpl; auto.
  destruct (IH (heappush H a x)) as [Hh' Hp']; [apply (hs_push_heap HS); auto|].
  split; auto. eapply perm_trans; [exact Hp'|].
  eapply perm_trans; [apply Permutation_app_head, (hs_push_perm HS)|].
  apply Permutation_sym, Permutation_middle.
Qed.

Lemma restore_spec popped a :
  popped ++ sort a = sort (popped ++ a) -> heap a ->
  heap (restore H popped a) /\ Permutation (restore H popped a) (popped ++ a).
Proof.
  intros Hs Hh. unfold restore.
  destruct (Nat.leb (length a) (length popped)) eqn:E1.
  - split; auto. apply Nat.leb_le in E1.
    pose proof (stable_sort_sorted H SW (popped ++ a)) as Hso. rewrite <- Hs in Hso.
    apply sorted_app in Hso. destruct Hso as (Hsp & _ & Hx).
    apply (emerge_restore_heap SW); auto; [|lia].
    intros x y Hx1 Hy. apply Hx; auto.
    eapply Permutation_in; [apply Permutation_sym, (stable_sort_perm H) | auto].
  - destruct (Nat.leb (Nat.div2 (length a)) (length popped)).
    + split; [apply (hs_heapify_heap HS) | apply (hs_heapify_perm HS)].
    + apply fold_push_spec; auto.
Qed.

Lemma ordered_take_spec q n ys q' :
  Inv q -> pq_ordered_take H q n = (ys, q') ->
  ys = firstn n (sort (arr q)) /\ Inv q' /\ Permutation (arr q') (arr q) /\
  seqn q' = seqn q.
Proof.
  intros [Hh Hc] E. destruct n as [|n].
  - simpl in E. inversion E; subst. split; [auto|]. split; [split; auto|]. split; auto.
  - unfold pq_ordered_take in E. pose proof Hc as (Hnd & _).
    destruct (yield_loop_spec (S n) (arr q) [] [] Hh Hnd) as (p2 & a' & Ey & Hh' & Hs & Hp).
    rewrite Ey in E. simpl app in E. inversion E; subst ys q'; clear E.
    assert (Hs2 : p2 ++ sort a' = sort (p2 ++ a')).
    { rewrite Hs. apply (sort_perm_eq H SW); auto. }
    destruct (restore_spec p2 a' Hs2 Hh') as [Hhr Hpr].
    assert (Hpq : Permutation (restore H p2 a') (arr q)).
    { eapply perm_trans; [exact Hpr | apply Permutation_sym, Hp]. }
    split; auto. split; [|split; auto].
    split; simpl; auto. eapply CInv_perm; [apply Permutation_sym, Hpq | auto].
Qed.

Lemma ordered_all_spec q ys q' :
  Inv q -> pq_ordered_all H q = (ys, q') ->
  ys = sort (arr q) /\ Inv q' /\ Permutation (arr q') (arr q) /\ seqn q' = seqn q.
Proof.
  intros [Hh Hc] E. unfold pq_ordered_all in E. pose proof Hc as (Hnd & _).
  destruct (pop_many_spec (length (arr q)) (arr q) [] Hh Hnd)
    as (p2 & a' & Ey & Hh' & Hs & Hp & Hl).
  rewrite Ey in E. simpl app in E. inversion E; subst ys q'; clear E.
  rewrite (Hl (le_n _)) in *. simpl in Hs. rewrite app_nil_r in Hs, Hp.
  assert (Hs2 : p2 ++ sort [] = sort (p2 ++ [])).
  { simpl. rewrite !app_nil_r. rewrite Hs. symmetry. apply (sort_idem H SW); auto. }
  destruct (restore_spec p2 [] Hs2 Hh') as [Hhr Hpr]. rewrite app_nil_r in Hpr.
  assert (Hpq : Permutation (restore H p2 []) (arr q)).
  { eapply perm_trans; [exact Hpr | apply Permutation_sym, Hp]. }
  split; auto. split; [|split; auto].
  split; simpl; auto. eapply CInv_perm; [apply Permutation_sym, Hpq | auto].
Qed.

Lemma abs_perm q q' :
  Inv q -> Permutation (arr q') (arr q) -> seqn q' = seqn q -> abs q' = abs q.
Proof.
  intros (_ & Hnd & _) Hp Hs. unfold pq_sort. rewrite Hs. f_equal.
  symmetry. apply (sort_perm_eq H SW); auto. apply Permutation_sym; auto.
Qed.

(* ------------------------------------------------------------------ *)
(* popping everything: the pop order                                   *)

Fixpoint drain (fuel : nat) (q : pq) : list entry :=
  match fuel with
  | O => []
  | S f => match pq_popentry H q with
           | None => []
           | Some (e, q') => e :: drain f q'
           end
  end.

Lemma drain_sorted n : forall q, Inv q -> length (arr q) <= n -> drain n q = sort (arr q).
Proof.
  induction n as [|n IH]; intros q Hi Hlen.
  - destruct (arr q); simpl in *; [reflexivity | lia].
  - simpl. destruct (pq_popentry H q) as [[e q']|] eqn:Hpop.
    + destruct (pop_inv _ _ _ Hi Hpop) as (Hi' & Hp & _).
      pose proof (pop_refines q Hi) as Hr. rewrite Hpop in Hr. simpl in Hr.
      unfold ref_popentry in Hr. simpl arr in Hr.
      destruct (sort (arr q)) as [|e0 t]; [discriminate|].
      pose proof (f_equal (fun x => match x with Some (_, r) => arr r | None => [] end) Hr) as Hq.
      pose proof (f_equal (fun x => match x with Some (y, _) => [y] | None => [] end) Hr) as He.
      simpl in Hq, He. inversion He; subst e0. rewrite IH; auto.
      * rewrite Hq. reflexivity.
      * apply Permutation_length in Hp. simpl in Hp. lia.
    + unfold pq_popentry in Hpop. destruct (heappop H (arr q)) as [[e a']|] eqn:E; [discriminate|].
      apply heappop_none in E. rewrite E. reflexivity.
Qed.

(* ------------------------------------------------------------------ *)
(* histories                                                           *)

Definition mem_obj (o : Z) (a : list entry) : bool := existsb (okey (Z.eqb o)) a.

Definition step (q : pq) (o : op P) : res P * pq :=
  match o with
  | OAdd p ob => (RUnit, pq_add H q p ob)
  | OExtend l => (RUnit, pq_extend H q l)
  | OPop => match pq_popentry H q with
            | None => (RErr, q) | Some (e, q') => (REntry e, q') end
  | OPeek => match pq_peek q with None => (RErr, q) | Some e => (REntry e, q) end
  | ORemove ob => match pq_remove H q ob with
                  | None => (RErr, q) | Some (p, q') => (RPri p, q') end
  | OFind key rm => match pq_find H q key rm with
                    | None => (RNone, q) | Some (e, q') => (REntry e, q') end
  | OResched key np => match pq_reschedule H q key np with
                       | None => (RNone, q) | Some (ob, q') => (RObj ob, q') end
  | ORefresh => (RUnit, pq_refresh H q)
  | OSort => (RUnit, pq_sort H q)
  | OClear => (RUnit, pq_clear q)
  | OOrdered n => let '(ys, q') := pq_ordered_take H q n in (REntries ys, q')
  | OOrderedAll => let '(ys, q') := pq_ordered_all H q in (REntries ys, q')
  | OSortedCopy => (REntries (arr (pq_sort H q)), q)
  | ODrainCopy => (REntries (drain (length (arr q)) q), q)
  | OLen => (RNat (length (arr q)), q)
  | OMem ob => (RBool (mem_obj ob (arr q)), q)
  end.

(* the reference model never mentions the heap primitives *)
Definition ref_step (r : pq) (o : op P) : res P * pq :=
  match o with
  | OAdd p ob => (RUnit, ref_add r p ob)
  | OExtend l => (RUnit, ref_extend r l)
  | OPop => match ref_popentry r with
            | None => (RErr, r) | Some (e, r') => (REntry e, r') end
  | OPeek => match arr r with [] => (RErr, r) | e :: _ => (REntry e, r) end
  | ORemove ob => match ref_remove r ob with
                  | None => (RErr, r) | Some (p, r') => (RPri p, r') end
  | OFind key rm => match ref_find r key rm with
                    | None => (RNone, r) | Some (e, r') => (REntry e, r') end
  | OResched key np => match ref_reschedule r key np with
                       | None => (RNone, r) | Some (ob, r') => (RObj ob, r') end
  | ORefresh | OSort => (RUnit, r)
  | OClear => (RUnit, pq_empty)
  | OOrdered n => (REntries (firstn n (arr r)), r)
  | OOrderedAll | OSortedCopy | ODrainCopy => (REntries (arr r), r)
  | OLen => (RNat (length (arr r)), r)
  | OMem ob => (RBool (mem_obj ob (arr r)), r)
  end.

(* what the caller promises: added objects are new; a key selects at most one *)
Definition op_ok (r : pq) (o : op P) : Prop :=
  match o with
  | OAdd _ ob => ~ In ob (map eobj (arr r))
  | OExtend l => NoDup (map (@snd P Z) l) /\
                 forall ob, In ob (map (@snd P Z) l) -> ~ In ob (map eobj (arr r))
  | OFind key _ | OResched key _ => KeyUniq key (arr r)
  | _ => True
  end.

Lemma ObjsDistinct_perm a a' : Permutation a a' -> ObjsDistinct a -> ObjsDistinct a'.
Proof. intros Hp. apply Permutation_NoDup, Permutation_map, Hp. Qed.

Lemma ObjsDistinct_cons_inv e a : ObjsDistinct (e :: a) -> ObjsDistinct a.
Proof. intros Hd. inversion Hd; auto. Qed.

Lemma ObjsDistinct_removed a e a' :
  Permutation a (e :: a') -> ObjsDistinct a -> ObjsDistinct a'.
Proof. intros Hp Hd. eapply ObjsDistinct_cons_inv, ObjsDistinct_perm; eauto. Qed.

Lemma objs_sort_in o a : In o (map eobj (sort a)) <-> In o (map eobj a).
Proof.
  split; apply Permutation_in, Permutation_map;
    [apply (stable_sort_perm H) | apply Permutation_sym, (stable_sort_perm H)].
Qed.

Lemma extend_entries_objs (l : list (P * Z)) :
  forall s, map eobj (snd (extend_entries s l)) = map (@snd P Z) l.
Proof.
  induction l as [|[p o] l IH]; intros s; simpl; auto.
  specialize (IH (s + 1)%Z). destruct (extend_entries (s + 1) l) as [s' es]. simpl in *.
  congruence.
Qed.

Lemma step_refines q o :
  Inv q -> ObjsDistinct (arr q) -> op_ok (abs q) o ->
  ref_step (abs q) o = (fst (step q o), abs (snd (step q o))) /\
  Inv (snd (step q o)) /\ ObjsDistinct (arr (snd (step q o))).
Proof.
  intros Hi Hd Hok. destruct o as [p ob|l| | |ob|key rm|key np| | | |n| | | | |ob]; simpl.
  - (* add *)
    rewrite add_refines by auto. split; auto. split; [apply add_inv; auto|].
    eapply ObjsDistinct_perm; [apply Permutation_sym, add_perm|].
    constructor; auto. simpl in Hok. rewrite objs_sort_in in Hok. auto.
  - (* extend *)
    rewrite extend_refines by auto. split; auto. split; [apply extend_inv; auto|].
    eapply ObjsDistinct_perm; [apply Permutation_sym, extend_perm|].
    unfold ObjsDistinct. rewrite map_app, extend_entries_objs.
    destruct Hok as [Hnd Hfresh]. apply NoDup_app_intro; auto.
    intros x Hx Hx'. apply (Hfresh x Hx'). simpl. apply objs_sort_in. auto.
  - (* pop *)
    rewrite <- pop_refines by auto.
    destruct (pq_popentry H q) as [[e q']|] eqn:E; simpl; auto.
    destruct (pop_inv _ _ _ Hi E) as (Hi' & Hp & _).
    split; auto. split; auto. eapply ObjsDistinct_removed; eauto.
  - (* peek *)
    pose proof (peek_refines q Hi) as Hpk. unfold pq_peek in Hpk at 2. simpl arr in Hpk.
    destruct (sort (arr q)) as [|e t]; simpl in Hpk; rewrite Hpk; simpl; auto.
  - (* remove *)
    rewrite <- remove_refines by auto.
    destruct (pq_remove H q ob) as [[p q']|] eqn:E; simpl; auto.
    destruct (remove_inv _ _ _ _ Hi E) as (Hi' & e & _ & _ & Hp).
    split; auto. split; auto. eapply ObjsDistinct_removed; eauto.
  - (* find *)
    simpl in Hok. assert (Hu : KeyUniq key (arr q)).
    { eapply KeyUniq_perm; [apply (stable_sort_perm H) | exact Hok]. }
    rewrite <- find_refines by auto.
    destruct (pq_find H q key rm) as [[e q']|] eqn:E; simpl; auto.
    destruct (find_inv _ _ _ _ _ Hi E) as (Hi' & _ & _ & Hrm).
    split; auto. split; auto. destruct rm; [|subst; auto].
    eapply ObjsDistinct_removed; eauto.
  - (* reschedule *)
    simpl in Hok. assert (Hu : KeyUniq key (arr q)).
    { eapply KeyUniq_perm; [apply (stable_sort_perm H) | exact Hok]. }
    rewrite <- resched_refines by auto.
    destruct (pq_reschedule H q key np) as [[ob q']|] eqn:E; simpl; auto.
    destruct (resched_inv _ _ _ _ _ Hi E) as (Hi' & _ & e & r & _ & Hob & Hp & Hq').
    split; auto. split; auto. destruct Hq' as [->|[Hp' _]]; auto.
    eapply ObjsDistinct_perm; [apply Permutation_sym, Hp'|].
    eapply ObjsDistinct_perm in Hd; [|exact Hp]. unfold ObjsDistinct in *. simpl in *.
    rewrite <- Hob. auto.
  - (* refresh *)
    rewrite refresh_refines by auto. split; auto. split; [apply refresh_inv; auto|].
    eapply ObjsDistinct_perm; [apply Permutation_sym, (hs_heapify_perm HS) | auto].
  - (* sort *)
    rewrite abs_idem by auto. split; auto. split; [apply abs_inv; auto|].
    eapply ObjsDistinct_perm; [apply Permutation_sym, (stable_sort_perm H) | auto].
  - (* clear *)
    split; auto. split; [apply Inv_empty | constructor].
  - (* ordered n *)
    destruct (pq_ordered_take H q n) as [ys q'] eqn:E.
    destruct (ordered_take_spec _ _ _ _ Hi E) as (Hys & Hi' & Hp & Hs). simpl.
    rewrite (abs_perm q q') by auto. subst ys. split; auto. split; auto.
    eapply ObjsDistinct_perm; [apply Permutation_sym, Hp | auto].
  - (* ordered, exhausted *)
    destruct (pq_ordered_all H q) as [ys q'] eqn:E.
    destruct (ordered_all_spec _ _ _ Hi E) as (Hys & Hi' & Hp & Hs). simpl.
    rewrite (abs_perm q q') by auto. subst ys. split; auto. split; auto.
    eapply ObjsDistinct_perm; [apply Permutation_sym, Hp | auto].
  - (* sorted copy *) auto.
  - (* drain of a copy *)
    rewrite drain_sorted by auto. auto.
  - (* len *)
    rewrite stable_sort_length. auto.
  - (* membership *)
    unfold mem_obj. rewrite (existsb_perm _ _ _ (stable_sort_perm H (arr q))). auto.
Qed.

Fixpoint run (q : pq) (ops : list (op P)) : list (res P) * pq :=
  match ops with
  | [] => ([], q)
  | o :: t => let '(r, q') := step q o in
              let '(rs, q'') := run q' t in (r :: rs, q'')
  end.

Fixpoint ref_run (r : pq) (ops : list (op P)) : list (res P) * pq :=
  match ops with
  | [] => ([], r)
  | o :: t => let '(x, r') := ref_step r o in
              let '(xs, r'') := ref_run r' t in (x :: xs, r'')
  end.

(* the caller's promises along a history, stated on the reference model only *)
Fixpoint ok_run (r : pq) (ops : list (op P)) : Prop :=
  match ops with
  | [] => True
  | o :: t => op_ok r o /\ ok_run (snd (ref_step r o)) t
  end.

Theorem run_refines ops : forall q,
  Inv q -> ObjsDistinct (arr q) -> ok_run (abs q) ops ->
  ref_run (abs q) ops = (fst (run q ops), abs (snd (run q ops))) /\
  Inv (snd (run q ops)) /\ ObjsDistinct (arr (snd (run q ops))).
Proof.
  induction ops as [|o t IH]; intros q Hi Hd Hok; simpl.
  - auto.
  - destruct Hok as [Hok1 Hok2].
    destruct (step_refines q o Hi Hd Hok1) as (Hr & Hi' & Hd').
    rewrite Hr in *. simpl in Hok2.
    destruct (step q o) as [r q'] eqn:Es. simpl in *.
    destruct (IH q' Hi' Hd' Hok2) as (Hr2 & Hi2 & Hd2). rewrite Hr2.
    destruct (run q' t) as [rs q'']. simpl in *. auto.
Qed.

Corollary run_refines_empty ops :
  ok_run pq_empty ops ->
  ref_run pq_empty ops = (fst (run pq_empty ops), abs (snd (run pq_empty ops))) /\
  Inv (snd (run pq_empty ops)).
Proof.
  intros Hok. destruct (run_refines ops pq_empty) as (Hr & Hi & _); auto.
  - apply Inv_empty.
  - constructor.
Qed.

(* pop order *)
Theorem drain_order q :
  Inv q ->
  let out := drain (length (arr q)) q in
  Permutation out (arr q) /\
  StronglySorted (fun a b => entry_lt (plt H) a b = true) out.
Proof.
  intros Hi out. unfold out. rewrite drain_sorted by auto. split.
  - apply stable_sort_perm.
  - destruct Hi as (_ & Hnd & _). apply (sorted_strict SW).
    + apply stable_sort_sorted; auto.
    + eapply NoDup_map_perm; [apply Permutation_sym, (stable_sort_perm H) | auto].
Qed.

(* where add puts the new item in the pop order *)
Theorem add_position q p o :
  Inv q ->
  exists l1 l2, arr (abs q) = l1 ++ l2 /\
    arr (abs (pq_add H q p o)) = l1 ++ mkE p (seqn q) o :: l2 /\
    Forall (fun x => plt H p (epri x) = false) l1 /\
    Forall (fun x => plt H p (epri x) = true) l2.
Proof.
  intros Hi. rewrite add_refines by auto. simpl.
  destruct Hi as (_ & _ & Hall & _).
  destruct (ins_stable_split H SW (mkE p (seqn q) o) (sort (arr q))) as (l1 & l2 & E1 & E2 & F1 & F2).
  - apply stable_sort_sorted; auto.
  - simpl. eapply Permutation_Forall; [apply Permutation_sym, (stable_sort_perm H) | auto].
  - exists l1, l2. auto.
Qed.

(* ------------------------------------------------------------------ *)
(* summaries used by Props/C17.v                                       *)

Theorem all_ops_inv q :
  Inv q ->
  (forall p o, Inv (pq_add H q p o)) /\
  (forall l, Inv (pq_extend H q l)) /\
  (forall e q', pq_popentry H q = Some (e, q') -> Inv q') /\
  (forall o p q', pq_remove H q o = Some (p, q') -> Inv q') /\
  (forall key rm e q', pq_find H q key rm = Some (e, q') -> Inv q') /\
  (forall key np o q', pq_reschedule H q key np = Some (o, q') -> Inv q') /\
  Inv (pq_refresh H q) /\ Inv (pq_sort H q) /\ Inv (pq_clear q) /\
  (forall n ys q', pq_ordered_take H q n = (ys, q') -> Inv q') /\
  (forall ys q', pq_ordered_all H q = (ys, q') -> Inv q').
Proof.
  intros Hi.
  split; [intros; apply add_inv; auto|].
  split; [intros; apply extend_inv; auto|].
  split; [intros e q' E; apply (pop_inv _ _ _ Hi E)|].
  split; [intros o p q' E; apply (remove_inv _ _ _ _ Hi E)|].
  split; [intros key rm e q' E; apply (find_inv _ _ _ _ _ Hi E)|].
  split; [intros key np o q' E; apply (resched_inv _ _ _ _ _ Hi E)|].
  split; [apply refresh_inv; auto|].
  split; [apply sort_inv; auto|].
  split; [apply clear_inv|].
  split; [intros n ys q' E; apply (ordered_take_spec _ _ _ _ Hi E)|].
  intros ys q' E; apply (ordered_all_spec _ _ _ Hi E).
Qed.

Theorem all_ops_refine q :
  Inv q -> ObjsDistinct (arr q) ->
  (forall p o, abs (pq_add H q p o) = ref_add (abs q) p o) /\
  (forall l, abs (pq_extend H q l) = ref_extend (abs q) l) /\
  lift_abs (pq_popentry H q) = ref_popentry (abs q) /\
  pq_peek q = pq_peek (abs q) /\
  (forall o, lift_abs (pq_remove H q o) = ref_remove (abs q) o) /\
  (forall key rm, KeyUniq key (arr q) ->
                  lift_abs (pq_find H q key rm) = ref_find (abs q) key rm) /\
  (forall key np, KeyUniq key (arr q) ->
                  lift_abs (pq_reschedule H q key np) = ref_reschedule (abs q) key np) /\
  (forall n, fst (pq_ordered_take H q n) = firstn n (arr (abs q)) /\
             abs (snd (pq_ordered_take H q n)) = abs q) /\
  length (arr q) = length (arr (abs q)) /\
  (forall o, mem_obj o (arr q) = mem_obj o (arr (abs q))).
Proof.
  intros Hi Hd.
  split; [intros; apply add_refines; auto|].
  split; [intros; apply extend_refines; auto|].
  split; [apply pop_refines; auto|].
  split; [apply peek_refines; auto|].
  split; [intros; apply remove_refines; auto|].
  split; [intros; apply find_refines; auto|].
  split; [intros; apply resched_refines; auto|].
  split.
  { intros n. destruct (pq_ordered_take H q n) as [ys q'] eqn:E.
    destruct (ordered_take_spec _ _ _ _ Hi E) as (Hys & _ & Hp & Hs). simpl.
    split; auto. apply abs_perm; auto. }
  split; [simpl; rewrite stable_sort_length; auto|].
  intros o. unfold mem_obj. simpl. symmetry.
  apply existsb_perm, (stable_sort_perm H).
Qed.

(* observing the queue never changes the abstract state (hence, by
   [run_refines], nothing that any later operation returns) *)
Theorem observation_abs q :
  Inv q ->
  abs (pq_refresh H q) = abs q /\ abs (pq_sort H q) = abs q /\
  (forall n, abs (snd (pq_ordered_take H q n)) = abs q) /\
  abs (snd (pq_ordered_all H q)) = abs q /\
  (forall key, match pq_find H q key false with Some (_, q') => q' = q | None => True end).
Proof.
  intros Hi.
  split; [apply refresh_refines; auto|].
  split; [apply abs_idem; auto|].
  split.
  { intros n. destruct (pq_ordered_take H q n) as [ys q'] eqn:E.
    destruct (ordered_take_spec _ _ _ _ Hi E) as (_ & _ & Hp & Hs). apply abs_perm; auto. }
  split.
  { destruct (pq_ordered_all H q) as [ys q'] eqn:E.
    destruct (ordered_all_spec _ _ _ Hi E) as (_ & _ & Hp & Hs). apply abs_perm; auto. }
  intros key. destruct (pq_find H q key false) as [[e q']|] eqn:E; auto.
  apply (find_inv _ _ _ _ _ Hi E).
Qed.

(* nothing is lost or duplicated *)
Theorem all_ops_perm q :
  Inv q ->
  (forall p o, Permutation (arr (pq_add H q p o)) (mkE p (seqn q) o :: arr q)) /\
  (forall l, Permutation (arr (pq_extend H q l))
                         (arr q ++ snd (extend_entries (seqn q) l))) /\
  (forall e q', pq_popentry H q = Some (e, q') -> Permutation (arr q) (e :: arr q')) /\
  (forall o p q', pq_remove H q o = Some (p, q') ->
     exists e, eobj e = o /\ epri e = p /\ Permutation (arr q) (e :: arr q')) /\
  (forall key e q', pq_find H q key true = Some (e, q') ->
     key (eobj e) = true /\ Permutation (arr q) (e :: arr q')) /\
  (forall key np o q', pq_reschedule H q key np = Some (o, q') ->
     key o = true /\ exists e r, eobj e = o /\ Permutation (arr q) (e :: r) /\
       (q' = q \/ Permutation (arr q') (mkE np (eseq e) o :: r))) /\
  Permutation (arr (pq_refresh H q)) (arr q) /\
  Permutation (arr (pq_sort H q)) (arr q) /\
  (forall n, Permutation (arr (snd (pq_ordered_take H q n))) (arr q)).
Proof.
  intros Hi.
  split; [intros; apply add_perm|].
  split; [intros; apply extend_perm|].
  split; [intros e q' E; apply (pop_inv _ _ _ Hi E)|].
  split; [intros o p q' E; apply (remove_inv _ _ _ _ Hi E)|].
  split.
  { intros key e q' E. destruct (find_inv _ _ _ _ _ Hi E) as (_ & Hk & _ & Hp). auto. }
  split.
  { intros key np o q' E.
    destruct (resched_inv _ _ _ _ _ Hi E) as (_ & Hk & e & r & _ & Ho & Hp & Hq).
    split; auto. exists e, r. split; auto. split; auto. destruct Hq as [|[? _]]; auto. }
  split; [apply (hs_heapify_perm HS)|].
  split; [apply (stable_sort_perm H)|].
  intros n. destruct (pq_ordered_take H q n) as [ys q'] eqn:E.
  apply (ordered_take_spec _ _ _ _ Hi E).
Qed.

End PQProofs.
