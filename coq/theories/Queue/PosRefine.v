(* History-level refinement of PosPriorityQueue (boosting disabled) to the list
   model "positional prefix ++ regular entries by (priority, arrival)".

   Abstract model [rpos]: [rposl] = the objects scheduled at a position, in run
   order; [rreg] = the regular entries (object, priority, arrival) kept sorted
   by (priority, arrival); [rnext] = next arrival number.  The run order is
   [rposl ++ map robj rreg].

   The simulation relation [R p r] says: PInv p (Queue/PosProofs.v), the
   key-sorted entry list [plist p] (Queue/PosList.v) splits into class-0
   entries whose objects are [rposl r] and class-1 entries that match [rreg r]
   one by one (object, priority() == priority, no boost) with the order of
   their sequence numbers isomorphic to the order of the abstract arrival
   numbers (the implementation re-uses and re-assigns sequence numbers - reset
   when the queue empties, reschedule_all, insert - so they are not equal).

   Main theorem [pos_run_refines]: [R] holds for the empty queues and every
   operation of a history preserves it with equal results, provided the objects
   appended/inserted are fresh (stated on the abstract side, [rok_run]).
   Generic in the heap implementation (any H with HeapSpec whose order is pv_lt). *)
From Coq Require Import QArith Lqa Sorting.Sorted Sorting.Permutation.
From Asynkit Require Import Base.Prelude Base.Obs Queue.PQ Queue.Order Queue.Heap Queue.ListFacts
  Queue.PQProofs Queue.PosPQ Queue.PosProofs Queue.PosInsert Queue.PosList Queue.Exec Queue.PQCorr.
Local Open Scope nat_scope.

(* ------------------------------------------------------------------------- *)
(* The abstract list model                                                    *)
(* ------------------------------------------------------------------------- *)
Record rent := mkRE { robj : Z; rpri : Q; rarr : Z }.
Record rpos := mkRP { rposl : list Z; rreg : list rent; rnext : Z }.

(* (priority, arrival) order *)
Definition rlt (a b : rent) : bool :=
  qltb (rpri a) (rpri b) || (negb (qltb (rpri b) (rpri a)) && (rarr a <? rarr b)%Z).

Fixpoint rins (x : rent) (l : list rent) : list rent :=
  match l with
  | [] => [x]
  | h :: t => if rlt x h then x :: l else h :: rins x t
  end.
Definition rsort (l : list rent) : list rent := fold_right rins [] l.

Definition run_order (r : rpos) : list Z := rposl r ++ map robj (rreg r).

Definition r_empty : rpos := mkRP [] [] 0.

Definition rk (o : Z) (x : rent) : bool := (o =? robj x)%Z.

(* append / append_pri: a new regular entry, after every entry whose priority is
   not above its own *)
Definition r_append (r : rpos) (o : Z) (p : Q) : rpos :=
  mkRP (rposl r) (rins (mkRE o p (rnext r)) (rreg r)) (rnext r + 1).

(* insert(k, o): the first min(k, len) entries of the run order become (or stay)
   positional, o comes right after them, the rest is unchanged *)
Definition r_insert (r : rpos) (k : nat) (o : Z) : rpos :=
  mkRP (firstn k (run_order r) ++ o :: skipn k (rposl r))
       (skipn (k - length (rposl r)) (rreg r)) (rnext r).

(* popleft: head of the run order *)
Definition r_popleft (r : rpos) : option (Z * rpos) :=
  match rposl r with
  | o :: t => Some (o, mkRP t (rreg r) (rnext r))
  | [] => match rreg r with
          | x :: t => Some (robj x, mkRP [] t (rnext r))
          | [] => None
          end
  end.

(* remove(o) / find(o, remove=True) *)
Definition r_remove (r : rpos) (o : Z) : option rpos :=
  if existsb (Z.eqb o) (rposl r)
  then Some (mkRP (remove_first (Z.eqb o) (rposl r)) (rreg r) (rnext r))
  else if existsb (rk o) (rreg r)
       then Some (mkRP (rposl r) (remove_first (rk o) (rreg r)) (rnext r))
       else None.

Definition r_mem (r : rpos) (o : Z) : bool := existsb (Z.eqb o) (run_order r).

Definition r_find (r : rpos) (o : Z) (rm : bool) : option (Z * rpos) :=
  if rm then match r_remove r o with Some r' => Some (o, r') | None => None end
  else if r_mem r o then Some (o, r) else None.

(* reschedule(o, p): a positional entry keeps its place; a regular entry gets
   the new priority and KEEPS ITS ARRIVAL NUMBER (the implementation keeps the
   old sequence number), so among entries of the new priority it sits where its
   original arrival puts it - not at the end; nothing moves when the priority
   is unchanged *)
Definition r_resched (r : rpos) (o : Z) (p : Q) : option (Z * rpos) :=
  if existsb (Z.eqb o) (rposl r) then Some (o, r)
  else match find (rk o) (rreg r) with
       | None => None
       | Some x =>
           if Qeq_bool (rpri x) p then Some (o, r)
           else Some (o, mkRP (rposl r)
                              (rins (mkRE o p (rarr x)) (remove_first (rk o) (rreg r)))
                              (rnext r))
       end.

(* reschedule_all(getp): the positional prefix is unchanged; every regular entry
   gets priority getp(obj), and the regular entries are re-sorted by the new
   priority, stably w.r.t. the existing run order (arrival := position in it) *)
Fixpoint renum (i : Z) (getp : Z -> Q) (l : list rent) : list rent :=
  match l with
  | [] => []
  | x :: t => mkRE (robj x) (getp (robj x)) i :: renum (i + 1) getp t
  end.
Definition r_resched_all (r : rpos) (getp : Z -> Q) : rpos :=
  mkRP (rposl r) (rsort (renum 0 getp (rreg r))) (Z.of_nat (length (rreg r))).

Definition r_clear (r : rpos) : rpos := r_empty.

(* ------------------------------------------------------------------------- *)
(* Histories                                                                  *)
(* ------------------------------------------------------------------------- *)
Inductive pres := PUnit | PNone | PObj (o : Z) | PErr (code : Z) | PList (l : list Z) | PLen (n : Z).

Definition rstep (r : rpos) (op : posop) : pres * rpos :=
  match op with
  | QAppend o p | QAppendPri o p => (PUnit, r_append r o p)
  | QInsert k o => (PUnit, r_insert r k o)
  | QPopleft => match r_popleft r with None => (PErr 1, r) | Some (o, r') => (PObj o, r') end
  | QRemove o => match r_remove r o with None => (PErr 2, r) | Some r' => (PUnit, r') end
  | QFind o rm => match r_find r o rm with None => (PNone, r) | Some (o', r') => (PObj o', r') end
  | QResched o p => match r_resched r o p with None => (PNone, r) | Some (o', r') => (PObj o', r') end
  | QReschedAll tbl => (PUnit, r_resched_all r (tbl_get tbl))
  | QClear => (PUnit, r_clear r)
  | QIter => (PList (run_order r), r)
  | QLen => (PLen (Z.of_nat (length (run_order r))), r)
  end.

Fixpoint rrun (r : rpos) (ops : list posop) : list pres * rpos :=
  match ops with
  | [] => ([], r)
  | op :: t => let '(x, r') := rstep r op in let '(xs, r'') := rrun r' t in (x :: xs, r'')
  end.

(* the caller's obligation: an appended / inserted object is not queued *)
Definition rop_ok (r : rpos) (op : posop) : Prop :=
  match op with
  | QAppend o _ | QAppendPri o _ | QInsert _ o => ~ In o (run_order r)
  | _ => True
  end.
Fixpoint rok_run (r : rpos) (ops : list posop) : Prop :=
  match ops with
  | [] => True
  | op :: t => rop_ok r op /\ rok_run (snd (rstep r op)) t
  end.

Section Impl.
Context (H : heapimpl pv).
(* the implementation model, any heap; same shape as PQCorr.pos_step *)
Definition pstep (s : pos) (op : posop) : pres * pos :=
  match op with
  | QAppend o p | QAppendPri o p => (PUnit, pos_append_pri H s o p)
  | QInsert n o => (PUnit, pos_insert H s n o)
  | QPopleft => match pos_popleft H s with
                | None => (PErr 1, s) | Some (o, s') => (PObj o, s') end
  | QRemove o => match pos_remove H s o with
                 | None => (PErr 2, s) | Some s' => (PUnit, s') end
  | QFind o rm => match pos_find H s (Z.eqb o) rm with
                  | None => (PNone, s) | Some (o', s') => (PObj o', s') end
  | QResched o p => match pos_reschedule H s (Z.eqb o) p with
                    | None => (PNone, s) | Some (o', s') => (PObj o', s') end
  | QReschedAll tbl => (PUnit, pos_reschedule_all H s (tbl_get tbl))
  | QClear => (PUnit, pos_clear s)
  | QIter => let '(l, s') := pos_iter H s in (PList l, s')
  | QLen => (PLen (plen s), s)
  end.

Fixpoint prun (s : pos) (ops : list posop) : list pres * pos :=
  match ops with
  | [] => ([], s)
  | op :: t => let '(x, s') := pstep s op in let '(xs, s'') := prun s' t in (x :: xs, s'')
  end.
End Impl.

(* the observation printed by the correspondence run *)
Definition pres_obs (x : pres) : obs :=
  match x with
  | PUnit => ok onone | PNone => ok onone | PObj o => ok (OI o) | PErr c => err c
  | PList l => ok (olist OI l) | PLen n => ok (OI n)
  end.

Lemma pstep_pos_step s op :
  pos_step s op = (pres_obs (fst (pstep HPV s op)), snd (pstep HPV s op)).
Proof.
  destruct op; simpl; try reflexivity.
  - destruct (pos_popleft HPV s) as [[o s']|]; reflexivity.
  - destruct (pos_remove HPV s o) as [s'|]; reflexivity.
  - destruct (pos_find HPV s (Z.eqb o) rm) as [[o' s']|]; reflexivity.
  - destruct (pos_reschedule HPV s (Z.eqb o) p) as [[o' s']|]; reflexivity.
Qed.

(* ------------------------------------------------------------------------- *)
(* List facts                                                                 *)
(* ------------------------------------------------------------------------- *)
Section Lists.
Context {A : Type}.

Lemma find_app2 (f : A -> bool) l1 l2 :
  find f (l1 ++ l2) = match find f l1 with Some e => Some e | None => find f l2 end.
Proof. induction l1 as [|a l1 IH]; simpl; auto. destruct (f a); auto. Qed.

Lemma find_existsb (f : A -> bool) l :
  existsb f l = match find f l with Some _ => true | None => false end.
Proof. induction l as [|a l IH]; simpl; auto. destruct (f a); auto. Qed.

Lemma remove_first_app (f : A -> bool) l1 l2 :
  remove_first f (l1 ++ l2) =
  if existsb f l1 then remove_first f l1 ++ l2 else l1 ++ remove_first f l2.
Proof.
  induction l1 as [|a l1 IH]; simpl; auto. destruct (f a); simpl; auto.
  rewrite IH. destruct (existsb f l1); reflexivity.
Qed.

Lemma map_remove_first {B} (g : A -> B) (key : B -> bool) l :
  map g (remove_first (fun a => key (g a)) l) = remove_first key (map g l).
Proof. induction l as [|a l IH]; simpl; auto. destruct (key (g a)); simpl; congruence. Qed.

Lemma existsb_map {B} (g : A -> B) (key : B -> bool) l :
  existsb (fun a => key (g a)) l = existsb key (map g l).
Proof. induction l as [|a l IH]; simpl; congruence. Qed.

Lemma NoDup_remove_first (f : A -> bool) l : NoDup l -> NoDup (remove_first f l).
Proof.
  induction 1 as [|a l Hn Hnd IH]; simpl; [constructor|].
  destruct (f a); auto. constructor; auto. intros Hin. apply Hn.
  eapply remove_first_incl; eauto.
Qed.

Lemma In_skipn n : forall (l : list A) x, In x (skipn n l) -> In x l.
Proof.
  induction n as [|n IH]; intros [|a l] x; simpl; auto.
Qed.

Lemma Forall2_skipn {B} (P : A -> B -> Prop) n : forall l l',
  Forall2 P l l' -> Forall2 P (skipn n l) (skipn n l').
Proof.
  induction n as [|n IH]; intros l l' HF; simpl; auto.
  destruct HF; auto.
Qed.

Lemma combine_skipn_in {B} n : forall (l : list A) (l' : list B) pr,
  In pr (combine (skipn n l) (skipn n l')) -> In pr (combine l l').
Proof.
  induction n as [|n IH]; intros l l' pr; simpl; auto.
  destruct l as [|a l]; simpl; [tauto|]. destruct l' as [|b l']; simpl.
  - destruct (skipn n l); simpl; tauto.
  - intros Hin. right. apply IH. exact Hin.
Qed.

Lemma Forall2_length_eq {B} (P : A -> B -> Prop) l l' : Forall2 P l l' -> length l = length l'.
Proof. induction 1; simpl; congruence. Qed.
End Lists.

Lemma qltb_compat a a' b b' : (a == a')%Q -> (b == b')%Q -> qltb a b = qltb a' b'.
Proof.
  intros Ha Hb. destruct (qltb a b) eqn:E1, (qltb a' b') eqn:E2; auto.
  - apply qltb_lt in E1. apply qltb_ge in E2. lra.
  - apply qltb_ge in E1. apply qltb_lt in E2. lra.
Qed.

Lemma qltb_neq a a' b b' : (a == a')%Q -> (b == b')%Q ->
  qltb a b || qltb b a = negb (Qeq_bool a' b').
Proof.
  intros Ha Hb. destruct (Qeq_bool a' b') eqn:E; simpl.
  - apply Qeq_bool_iff in E.
    destruct (qltb a b) eqn:E1; [apply qltb_lt in E1; lra|].
    destruct (qltb b a) eqn:E2; [apply qltb_lt in E2; lra|]. reflexivity.
  - apply Qeq_bool_neq in E.
    destruct (qltb a b) eqn:E1; auto. destruct (qltb b a) eqn:E2; auto.
    apply qltb_ge in E1, E2. exfalso. apply E. lra.
Qed.

(* abstract sorted insert *)
Lemma rins_perm x l : Permutation (rins x l) (x :: l).
Proof.
  induction l as [|h t IH]; simpl; auto. destruct (rlt x h); auto.
  eapply perm_trans; [apply perm_skip, IH | apply perm_swap].
Qed.

Lemma rsort_perm l : Permutation (rsort l) l.
Proof.
  induction l as [|h t IH]; simpl; auto.
  eapply perm_trans; [apply rins_perm | apply perm_skip, IH].
Qed.

(* ------------------------------------------------------------------------- *)
(* The simulation                                                             *)
(* ------------------------------------------------------------------------- *)
Section Refine.
Context (H : heapimpl pv) (Hplt : plt H = pv_lt) (HS : HeapSpec H).
Notation SW := (SWH H Hplt).
Notation PInv := (PInv H).
Notation plist := (plist H).
Notation ins := (ins_stable H).
Notation sort := (stable_sort H).
Notation elt := (entry_lt (plt H)).
Notation class0 := (fun e : entry pv => pclass (epri e) = 0%Z).

(* a regular entry of the implementation and its abstract counterpart *)
Definition match1 (e : entry pv) (x : rent) : Prop :=
  pclass (epri e) = 1%Z /\ eobj e = robj x /\
  (pv_priority (epri e) == rpri x)%Q /\ (boost (epri e) == 0)%Q.

(* sequence numbers and arrival numbers order the matched pairs the same way *)
Definition SeqIso (G : list (entry pv)) (Rg : list rent) : Prop :=
  forall e x g y, In (e, x) (combine G Rg) -> In (g, y) (combine G Rg) ->
    (eseq e <? eseq g)%Z = (rarr x <? rarr y)%Z.

Definition R (p : pos) (r : rpos) : Prop :=
  PInv p /\ NoDup (run_order r) /\
  exists Pz G, plist p = Pz ++ G /\
    Forall class0 Pz /\ map (@eobj pv) Pz = rposl r /\
    Forall2 match1 G (rreg r) /\ SeqIso G (rreg r) /\
    Forall (fun x => (rarr x < rnext r)%Z) (rreg r).

Lemma elt_rlt e x g y :
  match1 e x -> match1 g y -> (eseq e <? eseq g)%Z = (rarr x <? rarr y)%Z ->
  elt e g = rlt x y.
Proof.
  intros (Ce & _ & Pe & _) (Cg & _ & Pg & _) Hs. unfold entry_lt, rlt. rewrite Hplt.
  unfold pv_lt. rewrite Ce, Cg. simpl. rewrite Hs.
  rewrite (qltb_compat _ _ _ _ Pe Pg), (qltb_compat _ _ _ _ Pg Pe). reflexivity.
Qed.

Lemma elt_reg_pos e h : pclass (epri e) = 1%Z -> pclass (epri h) = 0%Z -> elt e h = false.
Proof.
  intros Ce Ch. unfold entry_lt. rewrite Hplt. unfold pv_lt. rewrite Ce, Ch. reflexivity.
Qed.

Lemma ins_past_pos e Pz G :
  pclass (epri e) = 1%Z -> Forall class0 Pz -> ins e (Pz ++ G) = Pz ++ ins e G.
Proof.
  intros Ce. induction 1 as [|h Pz Hh HF IH]; simpl; auto.
  rewrite (elt_reg_pos e h Ce Hh), IH. reflexivity.
Qed.

Lemma match_objs G Rg : Forall2 match1 G Rg -> map (@eobj pv) G = map robj Rg.
Proof. induction 1 as [|e x G Rg (_ & Ho & _) HF IH]; simpl; congruence. Qed.

Lemma ins_match e x : forall G Rg, Forall2 match1 G Rg -> match1 e x ->
  (forall g y, In (g, y) (combine G Rg) -> (eseq e <? eseq g)%Z = (rarr x <? rarr y)%Z) ->
  Forall2 match1 (ins e G) (rins x Rg) /\
  (forall pr, In pr (combine (ins e G) (rins x Rg)) -> pr = (e, x) \/ In pr (combine G Rg)).
Proof.
  induction 1 as [|g y G Rg Hgy HF IH]; intros Hm Hs; simpl.
  - split; [constructor; auto|]. intros pr [<-|[]]; auto.
  - rewrite (elt_rlt e x g y Hm Hgy (Hs g y (or_introl eq_refl))).
    destruct (rlt x y).
    + split; [constructor; auto|]. intros pr [<-|Hin]; auto.
    + assert (Hs' : forall g0 y0, In (g0, y0) (combine G Rg) -> (eseq e <? eseq g0)%Z = (rarr x <? rarr y0)%Z) by (intros; apply Hs; simpl; auto).
      destruct (IH Hm Hs') as [IH1 IH2].
      split; [constructor; auto|]. intros pr [<-|Hin]; [right; left; auto|].
      destruct (IH2 _ Hin); auto.
Qed.

Lemma SeqIso_ins e x G Rg :
  Forall2 match1 G Rg -> match1 e x -> SeqIso G Rg ->
  (forall g y, In (g, y) (combine G Rg) ->
     (eseq e <? eseq g)%Z = (rarr x <? rarr y)%Z /\ (eseq g <? eseq e)%Z = (rarr y <? rarr x)%Z) ->
  Forall2 match1 (ins e G) (rins x Rg) /\ SeqIso (ins e G) (rins x Rg).
Proof.
  intros HF Hm Hiso Hs.
  destruct (ins_match e x G Rg HF Hm) as [H1 H2]; [intros; apply Hs; auto|].
  split; auto. intros a xa b xb Ha Hb.
  destruct (H2 _ Ha) as [Ea|Ia], (H2 _ Hb) as [Eb|Ib].
  - inversion Ea; inversion Eb; subst. rewrite !Z.ltb_irrefl. reflexivity.
  - inversion Ea; subst. apply Hs; auto.
  - inversion Eb; subst. apply Hs; auto.
  - apply Hiso; auto.
Qed.

Lemma rf_match o : forall G Rg, Forall2 match1 G Rg ->
  Forall2 match1 (remove_first (okey (Z.eqb o)) G) (remove_first (rk o) Rg) /\
  (forall pr, In pr (combine (remove_first (okey (Z.eqb o)) G) (remove_first (rk o) Rg)) ->
              In pr (combine G Rg)).
Proof.
  induction 1 as [|g y G Rg Hgy HF [IH1 IH2]]; simpl; [split; [constructor | tauto]|].
  assert (E : okey (Z.eqb o) g = rk o y).
  { unfold okey, rk. destruct Hgy as (_ & -> & _). reflexivity. }
  rewrite E. destruct (rk o y); simpl.
  - split; auto.
  - split; [constructor; auto|]. intros pr [<-|Hin]; auto.
Qed.

Lemma find_match o : forall G Rg, Forall2 match1 G Rg ->
  match find (okey (Z.eqb o)) G, find (rk o) Rg with
  | Some e, Some x => match1 e x /\ In (e, x) (combine G Rg)
  | None, None => True
  | _, _ => False
  end.
Proof.
  induction 1 as [|g y G Rg Hgy HF IH]; simpl; auto.
  assert (E : okey (Z.eqb o) g = rk o y).
  { unfold okey, rk. destruct Hgy as (_ & -> & _). reflexivity. }
  rewrite E. destruct (rk o y); auto.
  destruct (find (okey (Z.eqb o)) G), (find (rk o) Rg); auto. destruct IH; auto.
Qed.

Lemma R_objs p r : R p r -> map (@eobj pv) (plist p) = run_order r.
Proof.
  intros (_ & _ & Pz & G & E & _ & EP & HF & _). rewrite E, map_app, EP, (match_objs _ _ HF).
  reflexivity.
Qed.

Lemma R_distinct p r : R p r -> ObjsDistinct (arr (pq_ p)).
Proof.
  intros HR. pose proof (R_objs p r HR) as E. destruct HR as (_ & Hnd & _).
  unfold ObjsDistinct. rewrite <- E in Hnd.
  eapply Permutation_NoDup; [|exact Hnd]. apply Permutation_map, plist_perm.
Qed.

Lemma R_keyuniq p r o : R p r -> KeyUniq (Z.eqb o) (arr (pq_ p)).
Proof. intros HR. apply ObjsDistinct_keyuniq. eapply R_distinct; eauto. Qed.

Lemma R_empty ds : R (pos_empty 0 ds) r_empty.
Proof.
  split; [apply PInv_empty|]. split; [constructor|].
  exists [], []. repeat split; try constructor. intros e x g y [].
Qed.

Lemma R_intro p r Pz G :
  PInv p -> NoDup (run_order r) -> plist p = Pz ++ G ->
  Forall class0 Pz -> map (@eobj pv) Pz = rposl r ->
  Forall2 match1 G (rreg r) -> SeqIso G (rreg r) ->
  Forall (fun x => (rarr x < rnext r)%Z) (rreg r) -> R p r.
Proof.
  intros. split; [assumption|]. split; [assumption|]. exists Pz, G.
  repeat (split; [assumption|]). assumption.
Qed.

Lemma find_okey_obj o (l : list (entry pv)) e : find (okey (Z.eqb o)) l = Some e -> eobj e = o.
Proof.
  intros Hf. apply List.find_some in Hf. destruct Hf as [_ Hk]. unfold okey in Hk.
  apply Z.eqb_eq in Hk. auto.
Qed.

Lemma existsb_posl o Pz : existsb (Z.eqb o) (map (@eobj pv) Pz) = existsb (okey (Z.eqb o)) Pz.
Proof. symmetry. apply (existsb_map (@eobj pv) (Z.eqb o)). Qed.

(* ---- append / append_pri ---- *)
Lemma R_append p r o pr :
  R p r -> ~ In o (run_order r) -> R (pos_append_pri H p o pr) (r_append r o pr).
Proof.
  intros (HP & Hnd & Pz & G & E & HPz & EP & HF & Hiso & Hnx) Hfresh.
  set (e0 := mkE (mkPV pr (n_ins p) 0 1) (seqn (pq_ p)) o).
  set (x0 := mkRE o pr (rnext r)).
  assert (Hm : match1 e0 x0).
  { unfold match1, e0, x0, pv_priority; simpl. repeat split; try reflexivity. lra. }
  assert (Hseq : forall g, In g G -> (eseq g < seqn (pq_ p))%Z).
  { destruct HP as ((_ & _ & Hlt & _) & _ & _). rewrite Forall_forall in Hlt.
    intros g Hg. apply Hlt. eapply Permutation_in; [apply plist_perm|]. rewrite E.
    apply in_or_app; auto. }
  destruct (SeqIso_ins e0 x0 G (rreg r) HF Hm Hiso) as [HF' Hiso'].
  { intros g y Hin. pose proof (Hseq g (in_combine_l _ _ _ _ Hin)) as H1.
    rewrite Forall_forall in Hnx. pose proof (Hnx y (in_combine_r _ _ _ _ Hin)) as H2.
    unfold e0, x0; simpl. split.
    - destruct (Z.ltb_spec (seqn (pq_ p)) (eseq g)), (Z.ltb_spec (rnext r) (rarr y)); auto; lia.
    - destruct (Z.ltb_spec (eseq g) (seqn (pq_ p))), (Z.ltb_spec (rarr y) (rnext r)); auto; lia. }
  apply (R_intro _ _ Pz (ins e0 G)); simpl; auto.
  - apply append_pri_inv; auto.
  - eapply Permutation_NoDup with (l := o :: run_order r); [|constructor; auto].
    unfold run_order; simpl. eapply perm_trans; [apply Permutation_middle|].
    apply Permutation_app_head. apply Permutation_sym.
    eapply perm_trans; [apply Permutation_map, rins_perm|]. apply Permutation_refl.
  - rewrite (append_plist H Hplt HS p o pr HP). fold e0. rewrite E. apply ins_past_pos; auto.
  - eapply Permutation_Forall; [apply Permutation_sym, rins_perm|].
    constructor; [simpl; lia|]. eapply Forall_impl; [|exact Hnx]. simpl. intros; lia.
Qed.

(* ---- popleft ---- *)
Lemma R_popleft p r : R p r ->
  match pos_popleft H p, r_popleft r with
  | Some (o, p'), Some (o', r') => o = o' /\ R p' r'
  | None, None => True
  | _, _ => False
  end.
Proof.
  intros (HP & Hnd & Pz & G & E & HPz & EP & HF & Hiso & Hnx).
  pose proof (popleft_plist H Hplt HS p HP) as Hl. rewrite E in Hl. clear E.
  destruct r as [posl reg nxt]. unfold run_order, r_popleft in *. simpl in *. subst posl.
  destruct Pz as [|e Pz]; simpl in *.
  - inversion HF as [|g y G' reg' Hgy HF' EG Er]; subst; simpl in *.
    + rewrite Hl. exact I.
    + destruct Hl as (p' & Ep & Et & HP'). rewrite Ep.
      split; [destruct Hgy as (_ & Ho & _); exact Ho|].
      apply (R_intro p' _ [] G'); simpl; auto.
      * inversion Hnd; auto.
      * intros a xa b xb Ha Hb. apply Hiso; simpl; auto.
      * inversion Hnx; auto.
  - destruct Hl as (p' & Ep & Et & HP'). rewrite Ep. split; auto.
    apply (R_intro p' _ Pz G); simpl; auto.
    + inversion Hnd; auto.
    + inversion HPz; auto.
Qed.

(* ---- insert ---- *)
Lemma R_insert p r k o :
  R p r -> ~ In o (run_order r) -> R (pos_insert H p k o) (r_insert r k o).
Proof.
  intros HR Hfresh. pose proof (R_objs p r HR) as Eobjs.
  destruct HR as (HP & Hnd & Pz & G & E & HPz & EP & HF & Hiso & Hnx).
  destruct (insert_plist H Hplt HS p k o HP) as (news & En & Em & Hc).
  assert (Elen : length (rposl r) = length Pz) by (rewrite <- EP; apply map_length).
  assert (Ero : run_order (r_insert r k o)
                = firstn k (run_order r) ++ o :: skipn k (run_order r)).
  { unfold r_insert. unfold run_order at 1. simpl. rewrite <- app_assoc. simpl.
    f_equal. f_equal. unfold run_order. rewrite skipn_app, skipn_map. reflexivity. }
  apply (R_intro _ _ (news ++ skipn k Pz) (skipn (k - length Pz) G)).
  - apply insert_inv; auto.
  - rewrite Ero. eapply Permutation_NoDup with (l := o :: run_order r); [|constructor; auto].
    rewrite <- (firstn_skipn k (run_order r)) at 1. apply Permutation_middle.
  - rewrite En, E, skipn_app, app_assoc. reflexivity.
  - apply Forall_app; split; auto. apply Forall_forall. intros x Hx.
    rewrite Forall_forall in HPz. apply HPz. eapply In_skipn; eauto.
  - simpl. rewrite map_app, Em, <- Eobjs, firstn_map, <- app_assoc. simpl.
    rewrite <- EP, skipn_map. reflexivity.
  - simpl. rewrite Elen. apply Forall2_skipn; auto.
  - simpl. rewrite Elen. intros a xa b xb Ha Hb. apply Hiso; eapply combine_skipn_in; eauto.
  - simpl. apply Forall_forall. intros x Hx. rewrite Forall_forall in Hnx. apply Hnx.
    eapply In_skipn; eauto.
Qed.

(* ---- removal (remove, find with removal) ---- *)
Lemma run_order_remove r o r' :
  r_remove r o = Some r' -> run_order r' = remove_first (Z.eqb o) (run_order r).
Proof.
  unfold r_remove, run_order. destruct (existsb (Z.eqb o) (rposl r)) eqn:E1.
  - intros E; inversion E; subst; simpl. rewrite remove_first_app, E1. reflexivity.
  - destruct (existsb (rk o) (rreg r)) eqn:E2; [|discriminate].
    intros E; inversion E; subst; simpl. rewrite remove_first_app, E1. f_equal.
    rewrite <- (map_remove_first robj (Z.eqb o)). reflexivity.
Qed.

Lemma R_removed p r o p' e :
  R p r -> PInv p' -> find (okey (Z.eqb o)) (plist p) = Some e ->
  plist p' = remove_first (okey (Z.eqb o)) (plist p) ->
  exists r', r_remove r o = Some r' /\ R p' r'.
Proof.
  intros (HP & Hnd & Pz & G & E & HPz & EP & HF & Hiso & Hnx) HP' Hfind Hpl.
  assert (Ex : existsb (Z.eqb o) (rposl r) = existsb (okey (Z.eqb o)) Pz).
  { rewrite <- EP. apply existsb_posl. }
  rewrite E, find_app2 in Hfind. rewrite E, remove_first_app in Hpl.
  destruct (existsb (okey (Z.eqb o)) Pz) eqn:Eb.
  - assert (Erm : r_remove r o = Some (mkRP (remove_first (Z.eqb o) (rposl r)) (rreg r) (rnext r))).
    { unfold r_remove. rewrite Ex. reflexivity. }
    eexists; split; [exact Erm|].
    apply (R_intro p' _ (remove_first (okey (Z.eqb o)) Pz) G); simpl; auto.
    + rewrite (run_order_remove _ _ _ Erm). apply NoDup_remove_first; auto.
    + apply Forall_forall. intros x Hx. rewrite Forall_forall in HPz. apply HPz.
      eapply remove_first_incl; eauto.
    + rewrite <- EP. apply (map_remove_first (@eobj pv) (Z.eqb o)).
  - rewrite find_existsb in Eb.
    destruct (find (okey (Z.eqb o)) Pz) eqn:EfP; [discriminate|].
    pose proof (find_match o G _ HF) as Hfm. rewrite Hfind in Hfm.
    destruct (find (rk o) (rreg r)) as [x|] eqn:Efr; [|contradiction].
    assert (Erm : r_remove r o = Some (mkRP (rposl r) (remove_first (rk o) (rreg r)) (rnext r))).
    { unfold r_remove. rewrite Ex, find_existsb, Efr. reflexivity. }
    eexists; split; [exact Erm|].
    destruct (rf_match o G _ HF) as [HF' Hin'].
    apply (R_intro p' _ Pz (remove_first (okey (Z.eqb o)) G)); simpl; auto.
    + rewrite (run_order_remove _ _ _ Erm). apply NoDup_remove_first; auto.
    + intros a xa b xb Ha Hb. apply Hiso; apply Hin'; auto.
    + apply Forall_forall. intros y Hy. rewrite Forall_forall in Hnx. apply Hnx.
      eapply remove_first_incl; eauto.
Qed.

Lemma R_absent p r o :
  R p r -> find (okey (Z.eqb o)) (plist p) = None ->
  existsb (Z.eqb o) (rposl r) = false /\ find (rk o) (rreg r) = None.
Proof.
  intros (HP & Hnd & Pz & G & E & HPz & EP & HF & Hiso & Hnx) Hfind.
  rewrite E, find_app2 in Hfind.
  destruct (find (okey (Z.eqb o)) Pz) eqn:EfP; [discriminate|]. split.
  - rewrite <- EP, existsb_posl, find_existsb, EfP. reflexivity.
  - pose proof (find_match o G _ HF) as Hfm. rewrite Hfind in Hfm.
    destruct (find (rk o) (rreg r)); [contradiction | reflexivity].
Qed.

Lemma R_mem p r o : R p r ->
  r_mem r o = match find (okey (Z.eqb o)) (plist p) with Some _ => true | None => false end.
Proof.
  intros HR. unfold r_mem. rewrite <- (R_objs p r HR), existsb_posl. apply find_existsb.
Qed.

Lemma R_remove p r o : R p r ->
  match pos_remove H p o, r_remove r o with
  | Some p', Some r' => R p' r'
  | None, None => True
  | _, _ => False
  end.
Proof.
  intros HR. pose proof HR as (HP & _).
  pose proof (remove_plist H Hplt HS p o HP (R_keyuniq p r o HR)) as Hl.
  destruct (find (okey (Z.eqb o)) (plist p)) as [e|] eqn:Ef.
  - destruct Hl as (p' & Ep & HP' & Epl). rewrite Ep.
    destruct (R_removed p r o p' e HR HP' Ef Epl) as (r' & Er & HR'). rewrite Er. exact HR'.
  - rewrite Hl. destruct (R_absent p r o HR Ef) as [E1 E2].
    unfold r_remove. rewrite E1, find_existsb, E2. exact I.
Qed.

Lemma R_find p r o rm : R p r ->
  match pos_find H p (Z.eqb o) rm, r_find r o rm with
  | Some (o1, p'), Some (o2, r') => o1 = o2 /\ R p' r'
  | None, None => True
  | _, _ => False
  end.
Proof.
  intros HR. pose proof HR as (HP & _).
  pose proof (find_plist H Hplt HS p (Z.eqb o) rm HP (R_keyuniq p r o HR)) as Hl.
  pose proof (R_mem p r o HR) as Hmem.
  destruct (find (okey (Z.eqb o)) (plist p)) as [e|] eqn:Ef.
  - destruct Hl as (p' & Ep & HP' & Hrm). rewrite Ep. unfold r_find.
    pose proof (find_okey_obj _ _ _ Ef) as Eo. destruct rm.
    + destruct (R_removed p r o p' e HR HP' Ef Hrm) as (r' & Er & HR'). rewrite Er. auto.
    + subst p'. rewrite Hmem. auto.
  - rewrite Hl. unfold r_find. destruct (R_absent p r o HR Ef) as [E1 E2]. destruct rm.
    + unfold r_remove. rewrite E1, find_existsb, E2. exact I.
    + rewrite Hmem. exact I.
Qed.

(* ---- reschedule ---- *)
Lemma R_resched p r o np : R p r ->
  match pos_reschedule H p (Z.eqb o) np, r_resched r o np with
  | Some (o1, p'), Some (o2, r') => o1 = o2 /\ R p' r'
  | None, None => True
  | _, _ => False
  end.
Proof.
  intros HR. pose proof HR as (HP & Hnd & Pz & G & E & HPz & EP & HF & Hiso & Hnx).
  pose proof (reschedule_plist H Hplt HS p (Z.eqb o) np HP (R_keyuniq p r o HR)) as Hl.
  cbv zeta in Hl.
  destruct (find (okey (Z.eqb o)) (plist p)) as [e|] eqn:Ef.
  2: { rewrite Hl. destruct (R_absent p r o HR Ef) as [E1 E2].
       unfold r_resched. rewrite E1, E2. exact I. }
  destruct Hl as (p' & Ep & HP' & Hcase). rewrite Ep.
  pose proof (find_okey_obj _ _ _ Ef) as Eo.
  assert (Ex : existsb (Z.eqb o) (rposl r) = existsb (okey (Z.eqb o)) Pz).
  { rewrite <- EP. apply existsb_posl. }
  rewrite E, find_app2 in Ef. unfold r_resched. rewrite Ex, find_existsb.
  destruct (find (okey (Z.eqb o)) Pz) as [e1|] eqn:EfP.
  - inversion Ef; subst e1.
    assert (Hc0 : pclass (epri e) = 0%Z).
    { apply List.find_some in EfP. destruct EfP as [Hin _]. rewrite Forall_forall in HPz. auto. }
    rewrite Hc0 in Hcase. simpl in Hcase. subst p'. auto.
  - pose proof (find_match o G _ HF) as Hfm. rewrite Ef in Hfm.
    destruct (find (rk o) (rreg r)) as [x|] eqn:Efr; [|contradiction].
    destruct Hfm as [Hm Hin]. pose proof Hm as (Ce & Eox & Epx & Ebx).
    rewrite Ce in Hcase. change (1 =? 0)%Z with false in Hcase. cbv iota in Hcase.
    set (newp := mkPV np (n_ins p) 0 1) in *.
    assert (Econd : pv_lt (epri e) newp || pv_lt newp (epri e) = negb (Qeq_bool (rpri x) np)).
    { unfold pv_lt. rewrite Ce. simpl. apply qltb_neq; auto. unfold pv_priority; simpl; lra. }
    rewrite Econd in Hcase. destruct (Qeq_bool (rpri x) np); simpl in Hcase.
    + subst p'. auto.
    + split; auto.
      set (e' := mkE newp (eseq e) (eobj e)) in *. set (x' := mkRE o np (rarr x)).
      assert (Hm' : match1 e' x').
      { unfold match1, e', x', newp, pv_priority; simpl. repeat split; auto; try reflexivity. lra. }
      destruct (rf_match o G _ HF) as [HF1 Hin1].
      destruct (SeqIso_ins e' x' _ _ HF1 Hm') as [HF2 Hiso2].
      { intros a xa b xb Ha Hb. apply Hiso; apply Hin1; auto. }
      { intros g y Hgy. apply Hin1 in Hgy. unfold e', x'; simpl. split; apply Hiso; auto. }
      assert (EbP : existsb (okey (Z.eqb o)) Pz = false) by (rewrite find_existsb, EfP; reflexivity).
      apply (R_intro p' _ Pz (ins e' (remove_first (okey (Z.eqb o)) G))); simpl; auto.
      * eapply Permutation_NoDup; [apply Permutation_sym|exact Hnd].
        unfold run_order; simpl. apply Permutation_app_head.
        eapply perm_trans; [apply Permutation_map, rins_perm|]. simpl.
        apply Permutation_sym.
        eapply perm_trans; [apply Permutation_map, (find_perm_remove _ _ _ Efr)|]. simpl.
        rewrite <- Eox, Eo. apply Permutation_refl.
      * rewrite Hcase, E, remove_first_app, EbP. apply ins_past_pos; auto.
      * eapply Permutation_Forall; [apply Permutation_sym, rins_perm|].
        rewrite Forall_forall in Hnx. constructor.
        -- simpl. apply Hnx. apply List.find_some in Efr. tauto.
        -- apply Forall_forall. intros y Hy. apply Hnx. eapply remove_first_incl; eauto.
Qed.

(* ---- clear, iteration, len ---- *)
Lemma R_clear p r : R p r -> R (pos_clear p) (r_clear r).
Proof.
  intros (HP & _). apply (R_intro _ _ [] []); simpl; auto.
  - apply clear_inv_pos; auto.
  - constructor.
  - intros e x g y [].
Qed.

Lemma R_iter p r : R p r ->
  fst (pos_iter H p) = run_order r /\ R (snd (pos_iter H p)) r.
Proof.
  intros HR. pose proof (R_objs p r HR) as Eo.
  destruct HR as (HP & Hnd & Pz & G & E & HPz & EP & HF & Hiso & Hnx).
  destruct (iter_plist H Hplt p HP) as [E1 E2]. split; [congruence|].
  apply (R_intro _ _ Pz G); auto.
  - apply iter_inv_pos; auto.
  - rewrite E2. exact E.
Qed.

Lemma R_len p r : R p r -> plen p = Z.of_nat (length (run_order r)).
Proof.
  intros HR. rewrite <- (R_objs p r HR), map_length. unfold plen. f_equal.
  symmetry. apply Permutation_length, plist_perm.
Qed.

(* ---- reschedule_all ---- *)
(* the entries handed to extend() by reschedule_all: re-prioritised, numbered
   from i in the old run order *)
Fixpoint renumE (i : Z) (getp : Z -> Q) (l : list (entry pv)) : list (entry pv) :=
  match l with
  | [] => []
  | e :: t => mkE (fst (repri getp e)) i (eobj e) :: renumE (i + 1) getp t
  end.

Lemma extend_renumE getp l : forall s0,
  extend_entries s0 (map (repri getp) l) = ((s0 + Z.of_nat (length l))%Z, renumE s0 getp l).
Proof.
  induction l as [|e l IH]; intros s0; simpl.
  - f_equal. lia.
  - rewrite IH. f_equal. lia.
Qed.

Lemma Forall2_weaken {A B} (P1 P2 : A -> B -> Prop) l l' :
  (forall a b, P1 a b -> P2 a b) -> Forall2 P1 l l' -> Forall2 P2 l l'.
Proof. intros Hi. induction 1; constructor; auto. Qed.

Lemma renumE_rel getp l : forall i,
  Forall2 (fun g g' => epri g' = fst (repri getp g) /\ eobj g' = eobj g /\ (i <= eseq g')%Z)
          l (renumE i getp l).
Proof.
  induction l as [|e l IH]; intros i; simpl; constructor.
  - simpl. repeat split; auto. lia.
  - eapply Forall2_weaken; [|apply IH]. simpl. intros a b (? & ? & ?). repeat split; auto. lia.
Qed.

Lemma Forall2_transfer {A B} (Rel : A -> B -> Prop) (P : A -> Prop) (Q' : B -> Prop) l l' :
  Forall2 Rel l l' -> (forall a b, Rel a b -> P a -> Q' b) -> Forall P l -> Forall Q' l'.
Proof.
  induction 1 as [|a b l l' Hab HF IH]; intros Himp HP; constructor; inversion HP; subst; eauto.
Qed.

Lemma renumE_seqs getp l : forall i,
  Forall (fun e => (i <= eseq e)%Z) (renumE i getp l) /\ NoDup (map (@eseq pv) (renumE i getp l)).
Proof.
  induction l as [|e l IH]; intros i; simpl.
  - split; constructor.
  - destruct (IH (i + 1)%Z) as [IH1 IH2]. split.
    + constructor; [simpl; lia|]. eapply Forall_impl; [|exact IH1]. simpl. intros; lia.
    + constructor; auto. intros Hin. apply in_map_iff in Hin. destruct Hin as (x & Ex & Hx).
      rewrite Forall_forall in IH1. specialize (IH1 x Hx). simpl in IH1. lia.
Qed.

Lemma renumE_app getp l1 : forall l2 i,
  renumE i getp (l1 ++ l2) = renumE i getp l1 ++ renumE (i + Z.of_nat (length l1)) getp l2.
Proof.
  induction l1 as [|e l1 IH]; intros l2 i; simpl.
  - f_equal. lia.
  - rewrite IH. do 3 f_equal. lia.
Qed.

Lemma renumE_objs getp l : forall i, map (@eobj pv) (renumE i getp l) = map (@eobj pv) l.
Proof. induction l as [|e l IH]; intros i; simpl; auto. rewrite IH. reflexivity. Qed.

Lemma renumE_pos_class getp Pz i : Forall class0 Pz -> Forall class0 (renumE i getp Pz).
Proof.
  intros HPz. eapply Forall2_transfer; [apply (renumE_rel getp Pz i) | | exact HPz].
  cbv beta. intros a b (Ep & _ & _) Ha. rewrite Ep, repri_class0; auto.
Qed.

Lemma renumE_pos_sorted getp Pz : forall i,
  Forall class0 Pz -> sorted (plt H) Pz -> sorted (plt H) (renumE i getp Pz).
Proof.
  induction Pz as [|e t IH]; intros i HPz Hs; cbn [renumE]; [constructor|].
  inversion HPz as [|? ? He Ht]; subst. destruct (sorted_cons_inv Hs) as [Hst Hall].
  apply sorted_cons; [apply IH; auto|].
  assert (Hboth : Forall (fun g => class0 g /\ ele (plt H) e g) t).
  { rewrite Forall_forall in *. auto. }
  eapply Forall2_transfer; [apply (renumE_rel getp t (i + 1)%Z) | | exact Hboth].
  cbv beta. intros g g' (Ep & _ & Hseq) (Hg0 & Hle).
  unfold ele, entry_lt in *. cbn [epri eseq]. rewrite Ep, !repri_class0 by auto.
  apply orb_false_iff in Hle. destruct Hle as [Hle _]. rewrite Hle. simpl.
  replace (eseq g' <? i)%Z with false; [apply andb_false_r|].
  symmetry. apply Z.ltb_ge. lia.
Qed.

Lemma resched_all_plist p getp :
  PInv p -> plist (pos_reschedule_all H p getp) = sort (renumE 0 getp (plist p)).
Proof.
  intros HP. rewrite reschedule_all_unfold. unfold PosList.plist at 1. simpl pq_.
  unfold pq_extend. fold (plist p). rewrite extend_renumE. simpl.
  symmetry. apply (sort_perm_eq H SW).
  - apply renumE_seqs.
  - apply Permutation_sym, (hs_heapify_perm HS).
Qed.

Lemma sort_pos_reg A B :
  sorted (plt H) A -> NoDup (map (@eseq pv) (A ++ B)) -> Forall class0 A ->
  Forall (fun e => pclass (epri e) = 1%Z) B -> sort (A ++ B) = A ++ sort B.
Proof.
  intros HsA Hnd HA HB. apply (sort_unique H SW); auto.
  - apply sorted_app. split; [auto|]. split; [apply (stable_sort_sorted H SW)|].
    intros x y Hx Hy. unfold ele. rewrite Forall_forall in HA, HB. apply elt_reg_pos; auto.
    apply HB. eapply Permutation_in; [apply (stable_sort_perm H)|]. exact Hy.
  - apply Permutation_app_head, (stable_sort_perm H).
Qed.

Lemma renum_match getp G Rg : Forall2 match1 G Rg -> forall a b,
  Forall2 match1 (renumE a getp G) (renum b getp Rg) /\
  (forall g y, In (g, y) (combine (renumE a getp G) (renum b getp Rg)) ->
     (eseq g - a = rarr y - b)%Z /\ (b <= rarr y < b + Z.of_nat (length Rg))%Z).
Proof.
  induction 1 as [|g y G Rg Hgy HF IH]; intros a b; simpl.
  - split; [constructor|]. intros g y [].
  - destruct (IH (a + 1)%Z (b + 1)%Z) as [IH1 IH2]. split.
    + constructor; auto. destruct Hgy as (Cg & Eo & Ep & Eb).
      unfold match1, repri. rewrite Cg. simpl. repeat split; auto.
      unfold pv_priority; simpl. rewrite Eo. lra.
    + intros g2 y2 [Heq|Hin].
      * inversion Heq; subst; simpl. lia.
      * destruct (IH2 _ _ Hin). lia.
Qed.

Lemma sort_match : forall L Rg, Forall2 match1 L Rg -> SeqIso L Rg ->
  Forall2 match1 (sort L) (rsort Rg) /\
  (forall pr, In pr (combine (sort L) (rsort Rg)) -> In pr (combine L Rg)).
Proof.
  induction 1 as [|g y L Rg Hgy HF IH]; intros Hiso.
  - simpl. split; [constructor | tauto].
  - change (sort (g :: L)) with (ins g (sort L)).
    change (rsort (y :: Rg)) with (rins y (rsort Rg)).
    destruct IH as [IH1 IH2].
    { intros a xa b xb Ha Hb. apply Hiso; simpl; auto. }
    destruct (ins_match g y (sort L) (rsort Rg) IH1 Hgy) as [H1 H2].
    { intros g2 y2 Hin. apply Hiso; simpl; auto. }
    split; auto. intros pr Hin. destruct (H2 _ Hin) as [->|Hin2]; simpl; auto.
Qed.

Lemma renum_objs getp l : forall b, map robj (renum b getp l) = map robj l.
Proof. induction l as [|x l IH]; intros b; simpl; auto. rewrite IH. reflexivity. Qed.

Lemma R_resched_all p r getp :
  R p r -> R (pos_reschedule_all H p getp) (r_resched_all r getp).
Proof.
  intros (HP & Hnd & Pz & G & E & HPz & EP & HF & Hiso & Hnx).
  pose proof (plist_sorted H Hplt p) as Hs. rewrite E in Hs. apply sorted_app in Hs.
  destruct Hs as (HsP & _ & _).
  set (n0 := Z.of_nat (length Pz)).
  assert (HG1 : Forall (fun e => pclass (epri e) = 1%Z) G).
  { clear - HF. induction HF as [|g y G Rg (Cg & _) HF IH]; constructor; auto. }
  destruct (renum_match getp G (rreg r) HF n0 0%Z) as [HFn Hoff].
  assert (Hison : SeqIso (renumE n0 getp G) (renum 0 getp (rreg r))).
  { intros a xa b xb Ha Hb. destruct (Hoff _ _ Ha) as [Oa _], (Hoff _ _ Hb) as [Ob _].
    destruct (Z.ltb_spec (eseq a) (eseq b)), (Z.ltb_spec (rarr xa) (rarr xb)); auto; lia. }
  destruct (sort_match _ _ HFn Hison) as [HFs Hins].
  assert (Epl : plist (pos_reschedule_all H p getp)
                = renumE 0 getp Pz ++ sort (renumE n0 getp G)).
  { rewrite (resched_all_plist p getp HP), E, renumE_app. simpl. fold n0.
    apply sort_pos_reg.
    - apply renumE_pos_sorted; auto.
    - change n0 with (0 + Z.of_nat (length Pz))%Z. rewrite <- (renumE_app getp Pz G 0%Z). apply renumE_seqs.
    - apply renumE_pos_class; auto.
    - eapply Forall2_transfer; [apply (renumE_rel getp G n0) | | exact HG1].
      cbv beta. intros a b (Ep & _ & _) Ca. rewrite Ep. unfold repri. cbn [fst]. rewrite Ca. reflexivity. }
  apply (R_intro _ _ (renumE 0 getp Pz) (sort (renumE n0 getp G))); simpl; auto.
  - apply reschedule_all_inv; auto.
  - eapply Permutation_NoDup; [apply Permutation_sym|exact Hnd].
    unfold run_order; simpl. apply Permutation_app_head.
    eapply perm_trans; [apply Permutation_map, rsort_perm|]. rewrite renum_objs. apply Permutation_refl.
  - apply renumE_pos_class; auto.
  - rewrite renumE_objs. exact EP.
  - intros a xa b xb Ha Hb. apply Hison; apply Hins; auto.
  - eapply Permutation_Forall; [apply Permutation_sym, rsort_perm|].
    apply Forall_forall. intros y Hy.
    assert (Hlen : length (renumE n0 getp G) = length (renum 0 getp (rreg r))).
    { eapply Forall2_length_eq; eauto. }
    destruct (In_nth _ _ y Hy) as (i & Hi & En).
    assert (Hc : In (nth i (renumE n0 getp G) (mkE pv_dflt 0 0), y)
                    (combine (renumE n0 getp G) (renum 0 getp (rreg r)))).
    { rewrite <- En. rewrite <- (combine_nth _ _ i _ _ Hlen). apply nth_In.
      rewrite combine_length, Hlen, Nat.min_id. exact Hi. }
    destruct (Hoff _ _ Hc) as [_ Hr]. lia.
Qed.

(* ------------------------------------------------------------------------- *)
(* Every step, every history                                                  *)
(* ------------------------------------------------------------------------- *)
Theorem step_refines p r op :
  R p r -> rop_ok r op ->
  fst (pstep H p op) = fst (rstep r op) /\ R (snd (pstep H p op)) (snd (rstep r op)).
Proof.
  intros HR Hok. destruct op; simpl in *.
  - split; auto. apply R_append; auto.
  - split; auto. apply R_append; auto.
  - split; auto. apply R_insert; auto.
  - pose proof (R_popleft p r HR) as Hp.
    destruct (pos_popleft H p) as [[o p']|], (r_popleft r) as [[o' r']|]; simpl; try contradiction; auto.
    destruct Hp; subst; auto.
  - pose proof (R_remove p r o HR) as Hp.
    destruct (pos_remove H p o) as [p'|], (r_remove r o) as [r'|]; simpl; try contradiction; auto.
  - pose proof (R_find p r o rm HR) as Hp.
    destruct (pos_find H p (Z.eqb o) rm) as [[o1 p']|], (r_find r o rm) as [[o2 r']|];
      simpl; try contradiction; auto.
    destruct Hp; subst; auto.
  - pose proof (R_resched p r o p0 HR) as Hp.
    destruct (pos_reschedule H p (Z.eqb o) p0) as [[o1 p']|], (r_resched r o p0) as [[o2 r']|];
      simpl; try contradiction; auto.
    destruct Hp; subst; auto.
  - split; auto. apply R_resched_all; auto.
  - split; auto. apply R_clear; auto.
  - destruct (R_iter p r HR) as [E1 E2]. unfold pos_iter in *. simpl in *.
    split; [f_equal; auto | auto].
  - rewrite (R_len p r HR). auto.
Qed.

Theorem pos_run_refines ops : forall p r,
  R p r -> rok_run r ops ->
  fst (prun H p ops) = fst (rrun r ops) /\ R (snd (prun H p ops)) (snd (rrun r ops)).
Proof.
  induction ops as [|op ops IH]; intros p r HR Hok; simpl.
  - auto.
  - destruct Hok as [Hop Hrest].
    destruct (step_refines p r op HR Hop) as [E1 HR'].
    destruct (pstep H p op) as [x p'], (rstep r op) as [x' r']. simpl in *.
    specialize (IH p' r' HR' Hrest).
    destruct (prun H p' ops), (rrun r' ops). simpl in *. destruct IH as [IH1 IH2].
    split; [f_equal; auto | auto].
Qed.

Corollary pos_run_refines_empty ds ops :
  rok_run r_empty ops ->
  fst (prun H (pos_empty 0 ds) ops) = fst (rrun r_empty ops) /\
  R (snd (prun H (pos_empty 0 ds) ops)) (snd (rrun r_empty ops)).
Proof. apply pos_run_refines, R_empty. Qed.

(* ---- consequences ---- *)
Lemma Forall2_transfer_in {A B} (Rel : A -> B -> Prop) (P : A -> Prop) (Q' : B -> Prop) l l' :
  Forall2 Rel l l' ->
  (forall a b, In (a, b) (combine l l') -> Rel a b -> P a -> Q' b) ->
  Forall P l -> Forall Q' l'.
Proof.
  induction 1 as [|a b l l' Hab HF IH]; intros Himp HP; constructor; inversion HP; subst.
  - apply (Himp a b); simpl; auto.
  - apply IH; auto. intros a0 b0 Hin. apply Himp. simpl; auto.
Qed.

(* the abstract regular part is strictly ascending for (priority, arrival) *)
Lemma R_rsorted p r : R p r -> StronglySorted (fun a b => rlt a b = true) (rreg r).
Proof.
  intros (HP & _ & Pz & G & E & _ & _ & HF & Hiso & _).
  pose proof (plist_strict H Hplt p HP) as Hs. rewrite E in Hs.
  apply ssorted_app_inv in Hs. destruct Hs as [HsG _]. clear E.
  revert Hiso HsG. induction HF as [|g y G Rg Hgy HF IH]; intros Hiso HsG; constructor.
  - apply IH; [|inversion HsG; auto]. intros a xa b xb Ha Hb. apply Hiso; simpl; auto.
  - inversion HsG as [|? ? _ Hall]; subst.
    eapply Forall2_transfer_in; [exact HF | | exact Hall].
    cbv beta. intros a b Hin Hab Ha. rewrite <- (elt_rlt g y a b Hgy Hab); auto.
    apply Hiso; simpl; auto.
Qed.

Lemma R_contents p r : R p r ->
  Permutation (map (@eobj pv) (arr (pq_ p))) (run_order r) /\ NoDup (run_order r) /\
  length (arr (pq_ p)) = length (run_order r).
Proof.
  intros HR. pose proof (R_objs p r HR) as E. destruct HR as (_ & Hnd & _).
  assert (Hp : Permutation (map (@eobj pv) (arr (pq_ p))) (run_order r)).
  { rewrite <- E. apply Permutation_map, Permutation_sym, plist_perm. }
  split; auto. split; auto. rewrite <- (Permutation_length Hp), map_length. reflexivity.
Qed.
End Refine.

(* ------------------------------------------------------------------------- *)
(* Facts about the abstract model alone                                       *)
(* ------------------------------------------------------------------------- *)
Lemma rlt_spec a b :
  rlt a b = true <-> (rpri a < rpri b)%Q \/ ((rpri a == rpri b)%Q /\ (rarr a < rarr b)%Z).
Proof.
  unfold rlt. rewrite orb_true_iff, andb_true_iff, negb_true_iff, qltb_lt, qltb_ge, Z.ltb_lt.
  split.
  - intros [Hl|[Hge Ha]]; auto. destruct (Qlt_le_dec (rpri a) (rpri b)); auto.
    right. split; auto. lra.
  - intros [Hl|[He Ha]]; auto. right. split; auto. lra.
Qed.

Lemma rok_run_popleft n : forall r, rok_run r (repeat QPopleft n).
Proof. induction n as [|n IH]; intros r; simpl; auto. Qed.

(* popping everything returns the run order *)
Lemma rrun_drain posl : forall reg nxt,
  rrun (mkRP posl reg nxt) (repeat QPopleft (length posl + length reg))
  = (map PObj (posl ++ map robj reg), mkRP [] [] nxt).
Proof.
  induction posl as [|o posl IH]; intros reg nxt.
  - simpl (length [] + _). induction reg as [|x reg IHr]; simpl; [reflexivity|].
    simpl in IHr. rewrite IHr. reflexivity.
  - simpl. rewrite IH. reflexivity.
Qed.

(* observation does not change the abstract state *)
Lemma rstep_observation r :
  snd (rstep r QIter) = r /\ snd (rstep r QLen) = r /\ forall o, snd (rstep r (QFind o false)) = r.
Proof.
  repeat split. intros o. simpl. unfold r_find. destruct (r_mem r o); reflexivity.
Qed.

Lemma rins_remove o x : forall l,
  (forall y, In y l -> rk o y = false) -> rk o x = true -> remove_first (rk o) (rins x l) = l.
Proof.
  induction l as [|h t IH]; intros Hno Hx; simpl.
  - rewrite Hx. reflexivity.
  - destruct (rlt x h); simpl.
    + rewrite Hx. reflexivity.
    + rewrite (Hno h) by (simpl; auto). rewrite IH; auto. intros y Hy. apply Hno. simpl; auto.
Qed.

Lemma rk_absent o l : ~ In o (map robj l) -> forall y, In y l -> rk o y = false.
Proof.
  intros Hn y Hy. unfold rk. apply Z.eqb_neq. intros ->. apply Hn. apply in_map. exact Hy.
Qed.

Lemma remove_first_nomatch o l :
  NoDup (map robj l) -> forall y, In y (remove_first (rk o) l) -> rk o y = false.
Proof.
  induction l as [|h t IH]; simpl; intros Hnd y Hy; [tauto|].
  inversion Hnd as [|? ? Hnin Hnd']; subst.
  destruct (rk o h) eqn:Eh.
  - unfold rk in Eh. apply Z.eqb_eq in Eh. subst o. apply (rk_absent _ t Hnin). exact Hy.
  - destruct Hy as [<-|Hy]; auto.
Qed.

Lemma remove_first_run o posl reg :
  existsb (Z.eqb o) posl = false ->
  remove_first (Z.eqb o) (posl ++ map robj reg) = posl ++ map robj (remove_first (rk o) reg).
Proof.
  intros E. rewrite remove_first_app, E. f_equal.
  rewrite <- (map_remove_first robj (Z.eqb o)). reflexivity.
Qed.

Lemma existsb_notin o (l : list Z) : ~ In o l -> existsb (Z.eqb o) l = false.
Proof.
  intros Hn. destruct (existsb (Z.eqb o) l) eqn:E; auto.
  apply existsb_exists in E. destruct E as (x & Hx & Ex). apply Z.eqb_eq in Ex. subst. tauto.
Qed.

(* nothing is lost or duplicated, untouched items keep their relative order *)
Theorem r_contents r : NoDup (run_order r) ->
  (forall o p, ~ In o (run_order r) ->
     Permutation (run_order (r_append r o p)) (o :: run_order r) /\
     remove_first (Z.eqb o) (run_order (r_append r o p)) = run_order r) /\
  (forall k o, run_order (r_insert r k o)
               = firstn k (run_order r) ++ o :: skipn k (run_order r)) /\
  (forall o r', r_popleft r = Some (o, r') -> run_order r = o :: run_order r') /\
  (r_popleft r = None -> run_order r = []) /\
  (forall o r', r_remove r o = Some r' ->
     run_order r' = remove_first (Z.eqb o) (run_order r)) /\
  (forall o, r_remove r o = None -> ~ In o (run_order r)) /\
  (forall o p o' r', r_resched r o p = Some (o', r') ->
     o' = o /\ Permutation (run_order r') (run_order r) /\
     remove_first (Z.eqb o) (run_order r') = remove_first (Z.eqb o) (run_order r)) /\
  (forall getp, rposl (r_resched_all r getp) = rposl r /\
     Permutation (run_order (r_resched_all r getp)) (run_order r)) /\
  run_order (r_clear r) = [].
Proof.
  intros Hnd. destruct r as [posl reg nxt]. unfold run_order in *. simpl in *.
  split; [|split; [|split; [|split; [|split; [|split; [|split; [|split]]]]]]].
  - intros o p Hfresh. split.
    + eapply perm_trans; [|apply Permutation_sym, Permutation_middle].
      apply Permutation_app_head. eapply perm_trans; [apply Permutation_map, rins_perm|].
      apply Permutation_refl.
    + assert (Hp : ~ In o posl) by (intros Hi; apply Hfresh, in_or_app; auto).
      assert (Hr : ~ In o (map robj reg)) by (intros Hi; apply Hfresh, in_or_app; auto).
      rewrite remove_first_run by (apply existsb_notin; auto). f_equal. f_equal.
      apply rins_remove; [apply rk_absent; auto|]. unfold rk; simpl. apply Z.eqb_refl.
  - intros k o. rewrite <- app_assoc. simpl. f_equal. f_equal.
    rewrite skipn_app, skipn_map. reflexivity.
  - intros o r'. unfold r_popleft; simpl. destruct posl as [|a posl].
    + destruct reg as [|x reg]; [discriminate|]. intros E; inversion E; subst. reflexivity.
    + intros E; inversion E; subst. reflexivity.
  - unfold r_popleft; simpl. destruct posl as [|a posl]; [|discriminate].
    destruct reg; [reflexivity | discriminate].
  - intros o r' E. apply (run_order_remove _ _ _ E).
  - intros o. unfold r_remove; simpl.
    destruct (existsb (Z.eqb o) posl) eqn:E1; [discriminate|].
    destruct (existsb (rk o) reg) eqn:E2; [discriminate|]. intros _ Hin.
    apply in_app_or in Hin. destruct Hin as [Hin|Hin].
    + assert (E : existsb (Z.eqb o) posl = true)
        by (apply existsb_exists; exists o; split; auto; apply Z.eqb_refl). congruence.
    + apply in_map_iff in Hin. destruct Hin as (x & Ex & Hx).
      assert (E : existsb (rk o) reg = true)
        by (apply existsb_exists; exists x; split; auto; unfold rk; rewrite Ex; apply Z.eqb_refl).
      congruence.
  - intros o p o' r'. unfold r_resched; simpl.
    destruct (existsb (Z.eqb o) posl) eqn:E1.
    { intros E; inversion E; subst. auto. }
    destruct (find (rk o) reg) as [x|] eqn:Ef; [|discriminate].
    destruct (Qeq_bool (rpri x) p).
    { intros E; inversion E; subst. auto. }
    intros E. assert (E' : o' = o) by (inversion E; auto). subst o'.
    assert (Er : r' = mkRP posl (rins (mkRE o p (rarr x)) (remove_first (rk o) reg)) nxt)
      by (inversion E; auto).
    subst r'. clear E. simpl. split; auto.
    pose proof (List.find_some _ _ Ef) as [Hx Hkx].
    assert (Eo : robj x = o) by (unfold rk in Hkx; apply Z.eqb_eq in Hkx; auto).
    split.
    + apply Permutation_app_head.
      eapply perm_trans; [apply Permutation_map, rins_perm|]. simpl.
      apply Permutation_sym.
      eapply perm_trans; [apply Permutation_map, (find_perm_remove _ _ _ Ef)|]. simpl.
      rewrite Eo. apply Permutation_refl.
    + rewrite !remove_first_run by auto. f_equal. f_equal.
      rewrite rins_remove;
        [reflexivity | apply remove_first_nomatch; apply NoDup_app_r in Hnd; exact Hnd
         | unfold rk; simpl; apply Z.eqb_refl].
  - intros getp. split; auto. apply Permutation_app_head.
    eapply perm_trans; [apply Permutation_map, rsort_perm|]. rewrite renum_objs.
    apply Permutation_refl.
  - reflexivity.
Qed.

Section Consequences.
Context (H : heapimpl pv) (Hplt : plt H = pv_lt) (HS : HeapSpec H).

(* popping everything returns the abstract run order, and empties the queue *)
Corollary pos_drain_order p r : R H p r ->
  let n := length (run_order r) in
  fst (prun H p (repeat QPopleft n)) = map PObj (run_order r) /\
  arr (pq_ (snd (prun H p (repeat QPopleft n)))) = [].
Proof.
  intros HR n.
  destruct (pos_run_refines H Hplt HS (repeat QPopleft n) p r HR (rok_run_popleft _ _)) as [E1 HR'].
  destruct r as [posl reg nxt]. unfold n, run_order in *. simpl in *.
  rewrite app_length, map_length in *. rewrite rrun_drain in *. simpl in *. split; auto.
  pose proof (R_objs H _ _ HR') as Eo. unfold run_order in Eo. simpl in Eo.
  apply map_eq_nil in Eo. apply Permutation_nil. rewrite <- Eo. apply plist_perm.
Qed.
End Consequences.

(* the implementation side of the theorem IS the correspondence run (heap = the
   heapq model): same results, step by step *)
Lemma prun_is_corr_run ops : forall s,
  Forall2 (fun ob x => exists st, ob = OL [pres_obs x; st])
          (pos_run_from s ops) (fst (prun HPV s ops)).
Proof.
  induction ops as [|op ops IH]; intros s; simpl; [constructor|].
  rewrite pstep_pos_step. destruct (pstep HPV s op) as [x s']. simpl.
  specialize (IH s'). destruct (prun HPV s' ops) as [xs s'']. simpl in *.
  constructor; eauto.
Qed.

(* ------------------------------------------------------------------------- *)
(* A non-trivial history satisfying the hypothesis of the theorem             *)
(* ------------------------------------------------------------------------- *)
Definition ex_hist : list posop :=
  [QAppend 1 1; QAppend 2 0; QAppend 3 1; QAppendPri 4 (-1#1); QInsert 2 5; QResched 3 0;
   QResched 1 (-1#1); QInsert 1 6; QReschedAll [(1%Z, 0%Q); (3%Z, 0%Q); (2%Z, 0%Q)]; QIter;
   QPopleft; QRemove 3; QFind 2 true; QFind 1 false; QInsert 7 9; QLen; QIter]%Z.

Example ex_hist_ok : rok_run r_empty ex_hist.
Proof.
  vm_compute. repeat split; auto; intros Hx;
    repeat (destruct Hx as [Hx|Hx]; [discriminate Hx|]); exact Hx.
Qed.

Example ex_hist_results :
  fst (rrun r_empty ex_hist)
  = [PUnit; PUnit; PUnit; PUnit; PUnit; PObj 3; PObj 1; PUnit; PUnit;
     PList [4; 6; 2; 5; 1; 3]; PObj 4; PUnit; PObj 2; PObj 1; PUnit; PLen 4;
     PList [6; 5; 1; 9]]%Z.
Proof. vm_compute. reflexivity. Qed.
