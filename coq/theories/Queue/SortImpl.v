(* HeapSpec is satisfiable: the heap "implementation" that keeps its list fully
   sorted meets it for every strict weak order.  (Non-vacuity witness for the
   theorems quantified over HeapSpec; the implementation used for execution is
   HeapqModel, see HeapqProofs.v.) *)
From Coq Require Import Sorting.Sorted Sorting.Permutation.
From Asynkit Require Import Base.Prelude Queue.PQ Queue.Order Queue.Heap.

Definition sort_impl {P} (lt : P -> P -> bool) (d : P) : heapimpl P :=
  let H0 := mkHI lt d (fun l e => e :: l) (fun _ => None) (fun l => l) in
  mkHI lt d
       (fun l e => stable_sort H0 (e :: l))
       (fun l => match l with [] => None | x :: t => Some (x, stable_sort H0 t) end)
       (stable_sort H0).

Lemma sort_impl_spec {P} (lt : P -> P -> bool) (d : P) :
  StrictWeak lt -> HeapSpec (sort_impl lt d).
Proof.
  intros SW.
  set (H0 := mkHI lt d (fun l e => e :: l) (fun _ => None) (fun l : list (entry P) => l)).
  assert (SW0 : StrictWeak (plt H0)) by exact SW.
  constructor.
  - intros a e. exact (stable_sort_perm H0 (e :: a)).
  - intros a e _. exact (esorted_is_heap SW _ (stable_sort_sorted H0 SW0 (e :: a))).
  - reflexivity.
  - intros [|x t] Hne; [congruence|]. simpl. eauto.
  - intros [|x t] e a' E; [discriminate|]. simpl in E. inversion E; subst.
    apply perm_skip, Permutation_sym. exact (stable_sort_perm H0 t).
  - intros [|x t] e a' _ E; [discriminate|]. simpl in E. inversion E; subst. split; auto.
    exact (esorted_is_heap SW _ (stable_sort_sorted H0 SW0 t)).
  - intros a. exact (stable_sort_perm H0 a).
  - intros a. exact (esorted_is_heap SW _ (stable_sort_sorted H0 SW0 a)).
Qed.
