(* Correspondence interface for PriorityQueue and PosPriorityQueue: operation
   syntax, the observation after every operation (result + complete internal
   array + counters).  Compared in-kernel with what the real classes did. *)
From Coq Require Import QArith.
From Asynkit Require Import Base.Prelude Base.Obs Queue.PQ Queue.PosPQ Queue.Exec.

Definition ok (v : obs) : obs := OL [OI 0; v].
Definition err (code : Z) : obs := OL [OI 1; OI code].   (* 1 IndexError, 2 ValueError *)
Definition onone : obs := OL [].

(* ---------- PriorityQueue with integer priorities ---------- *)
Inductive pqop :=
| PAdd (p o : Z) | PExtend (l : list (Z * Z))
| PPop | PPopItem | PPeek | PPeekItem
| PRemove (o : Z) | PFind (o : Z) (rm : bool) | PResched (o p : Z)
| PRefresh | PSort | PClear | PIter | PItems
| POrdered (n : nat) | PSortedCopy | PCopyDrain | PLen.

Definition oentry (e : entry Z) : obs := OL [OI (epri e); OI (eseq e); OI (eobj e)].
Definition opq (q : pq Z) : obs := OL [OI (seqn q); olist oentry (arr q)].
Definition opo (e : entry Z) : obs := OL [OI (epri e); OI (eobj e)].

Fixpoint drain (fuel : nat) (q : pq Z) : list (entry Z) :=
  match fuel with
  | O => []
  | S f => match pq_popentry HZ q with
           | None => []
           | Some (e, q') => e :: drain f q'
           end
  end.

Definition pq_step (q : pq Z) (op : pqop) : obs * pq Z :=
  match op with
  | PAdd p o => (ok onone, pq_add HZ q p o)
  | PExtend l => (ok onone, pq_extend HZ q l)
  | PPop => match pq_popentry HZ q with
            | None => (err 1, q) | Some (e, q') => (ok (OI (eobj e)), q') end
  | PPopItem => match pq_popentry HZ q with
                | None => (err 1, q) | Some (e, q') => (ok (opo e), q') end
  | PPeek => match pq_peek q with None => (err 1, q) | Some e => (ok (OI (eobj e)), q) end
  | PPeekItem => match pq_peek q with None => (err 1, q) | Some e => (ok (opo e), q) end
  | PRemove o => match pq_remove HZ q o with
                 | None => (err 2, q) | Some (p, q') => (ok (OI p), q') end
  | PFind o rm => match pq_find HZ q (Z.eqb o) rm with
                  | None => (ok onone, q) | Some (e, q') => (ok (opo e), q') end
  | PResched o p => match pq_reschedule HZ q (Z.eqb o) p with
                    | None => (ok onone, q) | Some (o', q') => (ok (OI o'), q') end
  | PRefresh => (ok onone, pq_refresh HZ q)
  | PSort => (ok onone, pq_sort HZ q)
  | PClear => (ok onone, pq_clear q)
  | PIter => (ok (olist (fun e => OI (eobj e)) (arr q)), q)
  | PItems => (ok (olist opo (arr q)), q)
  | POrdered n => let '(ys, q') := pq_ordered_take HZ q n in (ok (olist opo ys), q')
  | PSortedCopy => (ok (olist opo (arr (pq_sort HZ q))), q)
  | PCopyDrain => (ok (olist opo (drain (length (arr q)) q)), q)
  | PLen => (ok (OI (Z.of_nat (length (arr q)))), q)
  end.

Fixpoint pq_run_from (q : pq Z) (ops : list pqop) : list obs :=
  match ops with
  | [] => []
  | op :: t => let '(o, q') := pq_step q op in OL [o; opq q'] :: pq_run_from q' t
  end.
Definition pq_run (ops : list pqop) : obs := OL (pq_run_from pq_empty ops).

(* ---------- PosPriorityQueue ---------- *)
Inductive posop :=
| QAppend (o : Z) (p : Q) | QAppendPri (o : Z) (p : Q)
| QInsert (position : nat) (o : Z) | QPopleft | QRemove (o : Z)
| QFind (o : Z) (rm : bool) | QResched (o : Z) (p : Q)
| QReschedAll (tbl : list (Z * Q)) | QClear | QIter | QLen.

Definition oq (x : Q) : obs := let y := Qred x in OL [OI (Qnum y); OI (Zpos (Qden y))].
Definition opv (e : entry pv) : obs :=
  let p := epri e in
  OL [OI (pclass p); oq (base p); oq (boost p); OI (ins_at p); OI (eseq e); OI (eobj e)].
Definition opos (s : pos) : obs :=
  OL [OI (last_maint s); OI (n_ins s); OI (n_rem s); OI (seqn (pq_ s));
      olist opv (arr (pq_ s))].

Fixpoint tbl_get (tbl : list (Z * Q)) (o : Z) : Q :=
  match tbl with
  | [] => 0
  | (k, v) :: t => if (k =? o)%Z then v else tbl_get t o
  end.

Definition pos_step (s : pos) (op : posop) : obs * pos :=
  match op with
  | QAppend o p | QAppendPri o p => (ok onone, pos_append_pri HPV s o p)
  | QInsert n o => (ok onone, pos_insert HPV s n o)
  | QPopleft => match pos_popleft HPV s with
                | None => (err 1, s) | Some (o, s') => (ok (OI o), s') end
  | QRemove o => match pos_remove HPV s o with
                 | None => (err 2, s) | Some s' => (ok onone, s') end
  | QFind o rm => match pos_find HPV s (Z.eqb o) rm with
                  | None => (ok onone, s) | Some (o', s') => (ok (OI o'), s') end
  | QResched o p => match pos_reschedule HPV s (Z.eqb o) p with
                    | None => (ok onone, s) | Some (o', s') => (ok (OI o'), s') end
  | QReschedAll tbl => (ok onone, pos_reschedule_all HPV s (tbl_get tbl))
  | QClear => (ok onone, pos_clear s)
  | QIter => let '(l, s') := pos_iter HPV s in (ok (olist OI l), s')
  | QLen => (ok (OI (plen s)), s)
  end.

Fixpoint pos_run_from (s : pos) (ops : list posop) : list obs :=
  match ops with
  | [] => []
  | op :: t => let '(o, s') := pos_step s op in OL [o; opos s'] :: pos_run_from s' t
  end.
(* input: boost factor, draw stream, operations *)
Definition pos_run (i : Q * list Q * list posop) : obs :=
  let '(f, ds, ops) := i in OL (pos_run_from (pos_empty f ds) ops).
