(* The boosting code of PosPriorityQueue as it was BEFORE fix F11
   (priority.py:457-522 of the unrepaired tree), kept verbatim from the
   original model so that the C19_refuted_before_fix witnesses can be replayed
   by vm_compute.  Queue/PosPQ.v models the repaired code.  Differences:
     - update_counters did not reset last_maintenance with the counters,
     - do_maintenance seeded min_pri from the head entry (even a positional one),
     - boost_stragglers compared base_priority with min_pri and REPLACED the
       boost (so an earlier boost could be undone). *)
From Coq Require Import QArith.
From Asynkit Require Import Base.Prelude Queue.PQ Queue.PosPQ.

Section BoostOld.
Context (H : heapimpl pv).

Fixpoint old_boost_loop (a : list (entry pv)) (limit : Z) (min_pri : Q) (f : Q)
         (ds : list Q) : list (entry pv) * list Q * nat :=
  match a with
  | [] => ([], ds, O)
  | e :: t =>
      let p := epri e in
      if (pclass p =? 0)%Z || negb (ins_at p <? limit)%Z || negb (qltb min_pri (base p))
      then let '(t', ds', n) := old_boost_loop t limit min_pri f ds in (e :: t', ds', n)
      else
        let r := match ds with [] => 0 | d :: _ => d end in
        let pb := r * ((min_pri - base p) * f) in
        let ds1 := tl ds in
        if Qeq_bool pb 0
        then let '(t', ds', n) := old_boost_loop t limit min_pri f ds1 in (e :: t', ds', n)
        else let '(t', ds', n) := old_boost_loop t limit min_pri f ds1 in
             (mkE (mkPV (base p) (ins_at p) pb (pclass p)) (eseq e) (eobj e) :: t', ds', S n)
  end.

Fixpoint old_minmax_loop (a : list (entry pv)) (mn : Q) : Q :=
  match a with
  | [] => mn
  | e :: t => if (pclass (epri e) =? 0)%Z then old_minmax_loop t mn
              else old_minmax_loop t (qmin mn (pv_priority (epri e)))
  end.

Definition old_has_straggler (a : list (entry pv)) (limit : Z) : bool :=
  existsb (fun e => negb (pclass (epri e) =? 0)%Z && (ins_at (epri e) <? limit)%Z) a.

Definition old_do_maintenance (s : pos) : pos :=
  if Qeq_bool (factor s) 0 then s else
  match arr (pq_ s) with
  | [] => s
  | head :: _ =>
      let a := arr (pq_ s) in
      let min_pri := old_minmax_loop a (pv_priority (epri head)) in
      let limit := (n_ins s - plen s)%Z in
      if old_has_straggler a limit then
        let '(a', ds', n) := old_boost_loop a limit min_pri (factor s) (draws s) in
        let a'' := match n with O => a' | _ => heapify H a' end in
        mkPos (mkPQ (seqn (pq_ s)) a'') (last_maint s) (n_ins s) (n_rem s) (factor s) ds'
      else s
  end.

Definition old_update_counters (s : pos) (inserted : bool) : pos :=
  if inserted then
    let s := mkPos (pq_ s) (last_maint s) (n_ins s + 1) (n_rem s) (factor s) (draws s) in
    let thr := Z.min (n_ins s) (n_rem s) in
    let limit := (Z.max 10 (plen s) + last_maint s)%Z in
    if (limit <? thr)%Z then
      let s := old_do_maintenance s in
      mkPos (pq_ s) thr (n_ins s) (n_rem s) (factor s) (draws s)
    else s
  else
    if (0 <? plen s)%Z
    then mkPos (pq_ s) (last_maint s) (n_ins s) (n_rem s + 1) (factor s) (draws s)
    else mkPos (pq_ s) (last_maint s) 0 0 (factor s) (draws s).

(* the three queue operations needed by the witnesses, over the old counters *)
Definition old_append_pri (s : pos) (o : Z) (p : Q) : pos :=
  old_update_counters (with_pq s (pq_add H (pq_ s) (mkPV p (n_ins s) 0 1) o)) true.

Definition old_popleft (s : pos) : option (Z * pos) :=
  match pq_popentry H (pq_ s) with
  | None => None
  | Some (e, q) => Some (eobj e, old_update_counters (with_pq s q) false)
  end.

(* insert(0, obj): nothing is promoted *)
Definition old_insert0 (s : pos) (o : Z) : pos :=
  let pval : Q :=
    match pq_peek (pq_ s) with
    | Some h => if (pclass (epri h) =? 0)%Z then base (epri h) - 1 else 0
    | None => 0
    end in
  old_update_counters (with_pq s (pq_add H (pq_ s) (mkPV pval (n_ins s) 0 0) o)) true.

End BoostOld.
