(* Binary heaps laid out in a list, as heapq uses them, and the contract
   (HeapSpec) which the proofs about PriorityQueue assume of heapq's
   heappush / heappop / heapify. *)
From Coq Require Import Sorting.Sorted Sorting.Permutation.
From Asynkit Require Import Base.Prelude Queue.PQ Queue.Order.

Section Heap.
Context {A : Type} (lt : A -> A -> bool).

(* a <= b  :=  not (b < a) *)
Definition hle (a b : A) : Prop := lt b a = false.

(* heapq's invariant: no element is smaller than its parent *)
Definition is_heap (l : list A) : Prop :=
  forall i x y, 0 < i -> nth_error l i = Some x -> nth_error l ((i - 1) / 2) = Some y ->
                lt x y = false.

Lemma is_heap_nil : is_heap [].
Proof. intros [|i] x y Hi Hx; simpl in *; discriminate. Qed.

Lemma is_heap_single a : is_heap [a].
Proof. intros [|[|i]] x y Hi Hx; simpl in *; try discriminate; lia. Qed.

(* the same with a default element, as array code reads it *)
Lemma is_heap_nth l d :
  is_heap l <-> forall i, 0 < i < length l -> lt (nth i l d) (nth ((i - 1) / 2) l d) = false.
Proof.
  split.
  - intros Hh i Hi. apply (Hh i); try lia; apply nth_error_nth'; lia.
  - intros Hn i x y Hi Hx Hy.
    assert (Hlen : i < length l) by (apply nth_error_Some; congruence).
    apply (nth_error_nth _ _ d) in Hx. apply (nth_error_nth _ _ d) in Hy.
    rewrite <- Hx, <- Hy. apply Hn. lia.
Qed.

(* a prefix of a heap is a heap (list.pop() of the tail) *)
Lemma is_heap_app_l l1 l2 : is_heap (l1 ++ l2) -> is_heap l1.
Proof.
  intros Hh i x y Hi Hx Hy. apply (Hh i); auto.
  - rewrite nth_error_app1; auto. apply nth_error_Some. congruence.
  - rewrite nth_error_app1; auto. apply nth_error_Some. congruence.
Qed.

Lemma is_heap_removelast l : is_heap l -> is_heap (removelast l).
Proof.
  destruct l as [|a l]; auto. intros Hh.
  assert (Hne : a :: l <> []) by discriminate.
  rewrite (app_removelast_last a Hne) in Hh. eapply is_heap_app_l; eauto.
Qed.

Section WithOrder.
Hypothesis hle_refl : forall a, hle a a.
Hypothesis hle_trans : forall a b c, hle a b -> hle b c -> hle a c.

(* element 0 of a heap is minimal *)
Lemma heap_min l : is_heap l ->
  forall i x y, nth_error l i = Some x -> nth_error l 0 = Some y -> hle y x.
Proof.
  intros Hh i. induction i as [i IH] using lt_wf_ind. intros x y Hx Hy.
  destruct (Nat.eq_dec i 0) as [->|Hne].
  - rewrite Hx in Hy. inversion Hy; subst. apply hle_refl.
  - assert (Hlen : i < length l) by (apply nth_error_Some; congruence).
    assert (Hp : (i - 1) / 2 < i) by lia.
    destruct (nth_error l ((i - 1) / 2)) as [z|] eqn:Hz.
    + apply hle_trans with z.
      * apply (IH _ Hp); auto.
      * apply (Hh i); auto. lia.
    + apply nth_error_None in Hz. lia.
Qed.

Lemma heap_min_cons a l : is_heap (a :: l) -> Forall (hle a) (a :: l).
Proof.
  intros Hh. rewrite Forall_forall. intros x Hx.
  apply In_nth_error in Hx. destruct Hx as [i Hi].
  eapply heap_min; eauto.
Qed.

Lemma StronglySorted_nth_error (R : A -> A -> Prop) l :
  StronglySorted R l -> forall i j x y, i < j ->
  nth_error l i = Some x -> nth_error l j = Some y -> R x y.
Proof.
  induction 1 as [|a l Hs IH Hall]; intros i j x y Hij Hx Hy.
  - destruct i; discriminate.
  - destruct j as [|j]; [lia|]. destruct i as [|i]; simpl in *.
    + inversion Hx; subst. rewrite Forall_forall in Hall. apply Hall.
      eapply nth_error_In; eauto.
    + apply (IH i j); auto. lia.
Qed.

(* a sorted list is a heap: list.sort() keeps the heap invariant *)
Lemma sorted_is_heap l : StronglySorted hle l -> is_heap l.
Proof.
  intros Hs i x y Hi Hx Hy.
  apply (StronglySorted_nth_error _ _ Hs) with (i := (i - 1) / 2) (j := i); auto. lia.
Qed.

(* the `lp >= lq` restore of ordereditems(): the popped entries (sorted, each
   not above any remaining entry) followed by the remaining ones.  Every index
   of the second part then has its parent in the first part, which is why
   the result is a heap; this needs  length a <= length p + 1  (the code
   requires length a <= length p) and does not even use that [a] is a heap. *)
Lemma merge_restore_heap p a :
  StronglySorted hle p ->
  (forall x y, In x p -> In y a -> hle x y) ->
  length a <= length p + 1 ->
  is_heap (p ++ a).
Proof.
  intros Hs Hle Hlen i x y Hi Hx Hy.
  assert (Hil : i < length (p ++ a)) by (apply nth_error_Some; congruence).
  rewrite app_length in Hil.
  assert (Hpar : (i - 1) / 2 < length p) by lia.
  rewrite nth_error_app1 in Hy by auto.
  destruct (Nat.lt_ge_cases i (length p)) as [Hip | Hip].
  - rewrite nth_error_app1 in Hx by auto.
    apply (StronglySorted_nth_error _ _ Hs) with (i := (i - 1) / 2) (j := i); auto. lia.
  - rewrite nth_error_app2 in Hx by auto.
    apply Hle; eapply nth_error_In; eauto.
Qed.

End WithOrder.
End Heap.

(* ------------------------------------------------------------------ *)
(* What is assumed of heapq (for the entry order of the given heapimpl). *)
Record HeapSpec {P : Type} (H : heapimpl P) : Prop := mkHS {
  hs_push_perm : forall a e, Permutation (heappush H a e) (e :: a);
  hs_push_heap : forall a e, is_heap (entry_lt (plt H)) a ->
                             is_heap (entry_lt (plt H)) (heappush H a e);
  hs_pop_nil : heappop H [] = None;
  hs_pop_some : forall a, a <> [] -> exists e a', heappop H a = Some (e, a');
  hs_pop_perm : forall a e a', heappop H a = Some (e, a') -> Permutation a (e :: a');
  hs_pop_heap : forall a e a', is_heap (entry_lt (plt H)) a -> heappop H a = Some (e, a') ->
                               hd_error a = Some e /\ is_heap (entry_lt (plt H)) a';
  hs_heapify_perm : forall a, Permutation (heapify H a) a;
  hs_heapify_heap : forall a, is_heap (entry_lt (plt H)) (heapify H a) }.
Arguments hs_push_perm {P H} _ _ _.
Arguments hs_push_heap {P H} _ _ _ _.
Arguments hs_pop_nil {P H} _.
Arguments hs_pop_some {P H} _ _ _.
Arguments hs_pop_perm {P H} _ _ _ _ _.
Arguments hs_pop_heap {P H} _ _ _ _ _ _.
Arguments hs_heapify_perm {P H} _ _.
Arguments hs_heapify_heap {P H} _ _.

(* heaps of entries *)
Section EntryHeap.
Context {P : Type} (lt : P -> P -> bool) (SW : StrictWeak lt).
Notation elt := (entry_lt lt).

Lemma hle_ele a b : hle elt a b <-> ele lt a b.
Proof. reflexivity. Qed.

Lemma eheap_min_cons a l : is_heap elt (a :: l) -> Forall (ele lt a) l.
Proof.
  intros Hh. apply heap_min_cons in Hh.
  - inversion Hh; auto.
  - intros x. apply (ele_refl SW).
  - intros x y z. apply (ele_trans SW).
Qed.

Lemma esorted_is_heap l : sorted lt l -> is_heap elt l.
Proof.
  intros Hs. eapply sorted_is_heap; try exact Hs; intros;
    try (apply (ele_refl SW)); try (eapply (ele_trans SW); eassumption).
Qed.

Lemma emerge_restore_heap p a :
  sorted lt p -> (forall x y, In x p -> In y a -> ele lt x y) ->
  length a <= length p + 1 -> is_heap elt (p ++ a).
Proof.
  intros Hs Hle Hlen. eapply merge_restore_heap; try exact Hs; auto; intros;
    try (apply (ele_refl SW)); try (eapply (ele_trans SW); eassumption).
Qed.

End EntryHeap.
Arguments eheap_min_cons {P lt} SW a l _.
Arguments esorted_is_heap {P lt} SW l _.
Arguments emerge_restore_heap {P lt} SW p a _ _ _.
