(* Executable model of asynkit.experimental.priority.PosPriorityQueue and
   PriorityValue (priority.py:390-617).  Numbers are rationals; the random draw
   of compute_priority_boost is an explicit oracle stream [draws]. *)
From Coq Require Import QArith.
From Asynkit Require Import Base.Prelude Queue.PQ.

Record pv := mkPV { base : Q; ins_at : Z; boost : Q; pclass : Z }.

Definition pv_priority (p : pv) : Q := base p + boost p.
Definition qltb (a b : Q) : bool := negb (Qle_bool b a).
Definition pv_lt (a b : pv) : bool :=
  if negb (pclass a =? pclass b)%Z then (pclass a <? pclass b)%Z
  else qltb (pv_priority a) (pv_priority b).
Definition pv_dflt : pv := mkPV 0 0 0 1.

Definition qmin (a b : Q) : Q := if qltb b a then b else a.   (* Python min(a,b) *)
Definition qmax (a b : Q) : Q := if qltb a b then b else a.   (* Python max(a,b) *)

Section PosPQ.
Context (H : heapimpl pv).

Notation pqt := (pq pv).
Notation add := (pq_add H).
Notation popentry := (pq_popentry H).
Notation heapify := (heapify H).

Record pos := mkPos {
  pq_ : pqt; last_maint : Z; n_ins : Z; n_rem : Z; factor : Q; draws : list Q }.

Definition pos_empty (f : Q) (ds : list Q) : pos := mkPos pq_empty 0 0 0 f ds.
Definition plen (s : pos) : Z := Z.of_nat (length (arr (pq_ s))).

Definition with_pq (s : pos) (q : pqt) : pos :=
  mkPos q (last_maint s) (n_ins s) (n_rem s) (factor s) (draws s).

(* ---- starvation boosting: models the code REPAIRED by fixes/F11-boost.patch
   (the unrepaired definitions are kept in Queue/BoostOld.v) ---- *)

(* boost_stragglers over the array, in array order; returns new array,
   remaining draws and the number boosted.  An entry is considered when it is
   regular, a straggler (inserted_at < limit) and its CURRENT priority() is
   strictly greater than min_pri; pb = random() * ((min_pri - priority) * factor)
   is ADDED to its boost, and only when pb < 0. *)
Fixpoint boost_loop (a : list (entry pv)) (limit : Z) (min_pri : Q) (f : Q)
         (ds : list Q) : list (entry pv) * list Q * nat :=
  match a with
  | [] => ([], ds, O)
  | e :: t =>
      let p := epri e in
      if (pclass p =? 0)%Z || negb (ins_at p <? limit)%Z || negb (qltb min_pri (pv_priority p))
      then let '(t', ds', n) := boost_loop t limit min_pri f ds in (e :: t', ds', n)
      else
        let r := match ds with [] => 0 | d :: _ => d end in
        let pb := r * ((min_pri - pv_priority p) * f) in
        let ds1 := tl ds in
        if negb (qltb pb 0)
        then let '(t', ds', n) := boost_loop t limit min_pri f ds1 in (e :: t', ds', n)
        else let '(t', ds', n) := boost_loop t limit min_pri f ds1 in
             (mkE (mkPV (base p) (ins_at p) (boost p + pb) (pclass p)) (eseq e) (eobj e) :: t',
              ds', S n)
  end.

(* running minimum of priority() over the regular entries, starting from [mn]
   (the code starts from +inf; do_maintenance below passes the priority of the
   first regular entry, which gives the same result) *)
Fixpoint minmax_loop (a : list (entry pv)) (mn : Q) : Q :=
  match a with
  | [] => mn
  | e :: t => if (pclass (epri e) =? 0)%Z then minmax_loop t mn
              else minmax_loop t (qmin mn (pv_priority (epri e)))
  end.

Definition has_straggler (a : list (entry pv)) (limit : Z) : bool :=
  existsb (fun e => negb (pclass (epri e) =? 0)%Z && (ins_at (epri e) <? limit)%Z) a.

Definition do_maintenance (s : pos) : pos :=
  if Qeq_bool (factor s) 0 then s else
  let a := arr (pq_ s) in
  match find (fun e => negb (pclass (epri e) =? 0)%Z) a with
  | None => s                                   (* no regular entry: no stragglers *)
  | Some r =>
      let min_pri := minmax_loop a (pv_priority (epri r)) in
      let limit := (n_ins s - plen s)%Z in
      if has_straggler a limit then
        let '(a', ds', n) := boost_loop a limit min_pri (factor s) (draws s) in
        let a'' := match n with O => a' | _ => heapify a' end in
        mkPos (mkPQ (seqn (pq_ s)) a'') (last_maint s) (n_ins s) (n_rem s) (factor s) ds'
      else s
  end.

Definition update_counters (s : pos) (inserted : bool) : pos :=
  if inserted then
    let s := mkPos (pq_ s) (last_maint s) (n_ins s + 1) (n_rem s) (factor s) (draws s) in
    let thr := Z.min (n_ins s) (n_rem s) in
    let limit := (Z.max 10 (plen s) + last_maint s)%Z in
    if (limit <? thr)%Z then
      let s := do_maintenance s in
      mkPos (pq_ s) thr (n_ins s) (n_rem s) (factor s) (draws s)
    else s
  else
    if (0 <? plen s)%Z
    then mkPos (pq_ s) (last_maint s) (n_ins s) (n_rem s + 1) (factor s) (draws s)
    else mkPos (pq_ s) 0 0 0 (factor s) (draws s).   (* counters AND last_maintenance *)

Definition pos_append_pri (s : pos) (o : Z) (p : Q) : pos :=
  update_counters (with_pq s (add (pq_ s) (mkPV p (n_ins s) 0 1) o)) true.

Definition pos_popleft (s : pos) : option (Z * pos) :=
  match popentry (pq_ s) with
  | None => None                                     (* IndexError *)
  | Some (e, q) => Some (eobj e, update_counters (with_pq s q) false)
  end.

(* insert(position, obj) *)
Fixpoint promote (k : nat) (s : pos) (promoted : list Z) : pos * list Z * bool :=
  (* bool: false = IndexError was raised while promoting *)
  match k with
  | O => (s, promoted, true)
  | S k => match pos_popleft s with
           | None => (s, promoted, false)
           | Some (o, s') => promote k s' (promoted ++ [o])
           end
  end.

Definition pos_insert (s : pos) (position : nat) (o : Z) : pos :=
  let '(s1, promoted, ok) := promote position s [] in
  let pval : Q :=
    if ok then
      match pq_peek (pq_ s1) with
      | Some h => if (pclass (epri h) =? 0)%Z then base (epri h) - 1 else 0
      | None => 0
      end
    else 0 in
  let p := mkPV pval (n_ins s1) 0 0 in
  let q := fold_left (fun q o => add q p o) (promoted ++ [o]) (pq_ s1) in
  update_counters (with_pq s1 q) true.

Definition pos_remove (s : pos) (o : Z) : option pos :=
  match pq_remove H (pq_ s) o with
  | None => None                                     (* ValueError *)
  | Some (_, q) => Some (update_counters (with_pq s q) false)
  end.

Definition pos_find (s : pos) (key : Z -> bool) (rm : bool) : option (Z * pos) :=
  match pq_find H (pq_ s) key rm with
  | None => None
  | Some (e, q) => Some (eobj e, with_pq s q)
  end.

Definition pos_reschedule_reg (s : pos) (key : Z -> bool) (np : Q) : option (Z * pos) :=
  match pq_reschedule H (pq_ s) key (mkPV np (n_ins s) 0 1) with
  | None => None
  | Some (o, q) => Some (o, with_pq s q)
  end.
(* reschedule(): an entry scheduled at a position (class 0) keeps its place *)
Definition pos_reschedule (s : pos) (key : Z -> bool) (np : Q) : option (Z * pos) :=
  match pq_find H (pq_ s) key false with
  | None => None
  | Some (e, _) => if (pclass (epri e) =? 0)%Z then Some (eobj e, s)
                   else pos_reschedule_reg s key np
  end.

(* reschedule_all with get_priority given as a function of the object *)
Definition pos_reschedule_all (s : pos) (getp : Z -> Q) : pos :=
  let newpri :=
    map (fun e => let p := epri e in
                  ((if (pclass p =? 0)%Z then p
                    else mkPV (getp (eobj e)) (ins_at p) (boost p) (pclass p)), eobj e))
        (arr (pq_sort H (pq_ s))) in     (* self._pq.sort() first *)
  with_pq s (pq_extend H pq_empty newpri).

Definition pos_clear (s : pos) : pos := with_pq s pq_empty.

(* __iter__: sorts in place, then yields the objects *)
Definition pos_iter (s : pos) : list Z * pos :=
  let q := pq_sort H (pq_ s) in (map (@eobj pv) (arr q), with_pq s q).

End PosPQ.
