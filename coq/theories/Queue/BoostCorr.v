(* Correspondence input for C19: a compact, run-length encoded description of a
   history, expanded here into the operation list and draw stream that
   [pos_run] (Queue/PQCorr.v) executes.  Nothing is modelled in this file: it is
   only a decoder (Coq parses literals slowly, long histories are mostly
   repetitions).  The Python side (harness/props/c19.py: expand_case) performs
   the same expansion before driving the real PosPriorityQueue.

   operation codes:  0            popleft
                     1            insert(0, <next object>)
                     c >= 2 even  append_pri(<next object>, c/2 - 40)
                     c >= 2 odd   append(<next object>)  with priority c/2 - 40
   objects are numbered 1, 2, 3, ... in order of creation. *)
From Coq Require Import QArith.
From Asynkit Require Import Base.Prelude Base.Obs Queue.PQ Queue.PosPQ Queue.Exec Queue.PQCorr.
Open Scope Z_scope.

Fixpoint decode (nxt : Z) (cs : list Z) : list posop :=
  match cs with
  | [] => []
  | c :: t =>
      if c =? 0 then QPopleft :: decode nxt t
      else if c =? 1 then QInsert 0 nxt :: decode (nxt + 1) t
      else let p := inject_Z (c / 2 - 40) in
           (if Z.even c then QAppendPri nxt p else QAppend nxt p) :: decode (nxt + 1) t
  end.

Fixpoint rep {A} (n : nat) (b : list A) : list A :=
  match n with O => [] | S n => b ++ rep n b end.

Definition expand (segs : list (Z * list Z)) : list Z :=
  flat_map (fun s => rep (Z.to_nat (fst s)) (snd s)) segs.

(* the first n elements of pat pat pat ... *)
Fixpoint cycle (pat cur : list Q) (n : nat) : list Q :=
  match n with
  | O => []
  | S n => match cur with
           | d :: r => d :: cycle pat r n
           | [] => match pat with
                   | [] => []
                   | d :: r => d :: cycle pat r n
                   end
           end
  end.

(* input: boost factor, (draw pattern, number of draws), run-length encoded codes *)
Definition boost_run (i : Q * (list Q * Z) * list (Z * list Z)) : obs :=
  let '(f, (pat, nd), segs) := i in
  pos_run (f, cycle pat pat (Z.to_nat nd), decode 1 (expand segs)).
