(* C18: the wake-up protocol with the drain loop at the granularity of the code.
   Queue/Wakeup.v moves the whole inbox in one loop step; the code is

       def _drain_threadsafe_inbox(self):
           inbox = self._threadsafe_inbox
           while inbox:
               self._ready.append(inbox.popleft())

   so foreign threads can append (and write to the self-pipe) BETWEEN two popleft()s of one drain.
   Here a drain step moves ONE handle; the loop leaves the drain phase only on finding the inbox
   empty.  (The truth test and the popleft are one step: only the loop thread removes from the
   inbox, so between the test and the popleft it can only grow and the popleft cannot fail.)
   The foreign side and the select/run step are those of Queue/Wakeup.v. *)
From Asynkit Require Import Base.Prelude Base.Obs Queue.Wakeup.
Open Scope nat_scope.

Definition step_loop_f (s : wst) : wst :=
  match lp s with
  | LDrain =>
      match inbox s with
      | [] => mkW [] (rdy s) (ran s) (wake s) LSelect (fts s) (hist s)
      | h :: t => mkW t (rdy s ++ [h]) (ran s) (wake s) LDrain (fts s) (hist s)
      end
  | LSelect =>
      if blocked s then s
      else mkW (inbox s) [] (ran s ++ rdy s) false LDrain (fts s) (hist s)
  end.

Definition wstep_f (s : wst) (t : tok) : wst :=
  match t with
  | TLoop => step_loop_f s
  | TForeign i => step_foreign s i
  | TStutter => s
  end.

Definition wrun_f (s : wst) (ts : list tok) : wst := fold_left wstep_f ts s.

(* the loop thread running alone for k steps *)
Definition loop_alone (k : nat) : list tok := repeat TLoop k.

(* ---- observation for the correspondence with the real loop, drain single-stepped ---- *)
Fixpoint wtrace_f (s : wst) (ts : list tok) : list obs :=
  match ts with
  | [] => []
  | t :: r => let s' := wstep_f s t in owst s' :: wtrace_f s' r
  end.

Definition wake_run_f (i : winput) : obs :=
  OL [OL (wtrace_f (winit (wi_n i) LDrain false) (wi_toks i)); OL [OI 0]].
