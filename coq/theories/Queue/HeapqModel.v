(* Line-by-line transcription of CPython 3.12 heapq (_siftdown, _siftup,
   heappush, heappop, heapify) on lists used as arrays.  The C accelerator
   implements the same algorithm; its cache-friendly heapify variant is only
   used for n > 2500, which the correspondence check never reaches. *)
From Asynkit Require Import Base.Prelude.

Section Heapq.
Context {A : Type} (lt : A -> A -> bool) (dflt : A).

Definition get (h : list A) (i : nat) : A := nth i h dflt.

(* while pos > startpos: parent = heap[(pos-1)>>1];
     if newitem < parent: heap[pos] = parent; pos = parentpos; continue
     break
   heap[pos] = newitem *)
Fixpoint siftdown_loop (fuel : nat) (h : list A) (startpos pos : nat) (newitem : A)
  : list A :=
  match fuel with
  | O => set_nth h pos newitem
  | S fuel =>
      if Nat.ltb startpos pos then
        let parentpos := Nat.div2 (pos - 1) in
        let parent := get h parentpos in
        if lt newitem parent
        then siftdown_loop fuel (set_nth h pos parent) startpos parentpos newitem
        else set_nth h pos newitem
      else set_nth h pos newitem
  end.

Definition siftdown (h : list A) (startpos pos : nat) : list A :=
  siftdown_loop (S pos) h startpos pos (get h pos).

(* while childpos < endpos: pick smaller child; heap[pos] = heap[childpos]; ... *)
Fixpoint siftup_loop (fuel : nat) (h : list A) (endpos pos : nat) : list A * nat :=
  match fuel with
  | O => (h, pos)
  | S fuel =>
      let childpos := 2 * pos + 1 in
      if Nat.ltb childpos endpos then
        let rightpos := childpos + 1 in
        let childpos :=
          if Nat.ltb rightpos endpos && negb (lt (get h childpos) (get h rightpos))
          then rightpos else childpos in
        siftup_loop fuel (set_nth h pos (get h childpos)) endpos childpos
      else (h, pos)
  end.

Definition siftup (h : list A) (pos : nat) : list A :=
  let endpos := length h in
  let newitem := get h pos in
  let '(h', p) := siftup_loop endpos h endpos pos in
  siftdown (set_nth h' p newitem) pos p.

Definition heappush (h : list A) (x : A) : list A :=
  siftdown (h ++ [x]) 0 (length h).

(* lastelt = heap.pop(); if heap: ret = heap[0]; heap[0] = lastelt; _siftup(heap,0) *)
Definition heappop (h : list A) : option (A * list A) :=
  match rev h with
  | [] => None
  | lastelt :: r =>
      let h' := rev r in
      match h' with
      | [] => Some (lastelt, [])
      | ret :: _ => Some (ret, siftup (set_nth h' 0 lastelt) 0)
      end
  end.

(* for i in reversed(range(n//2)): _siftup(x, i) *)
Fixpoint heapify_loop (i : nat) (h : list A) : list A :=
  match i with
  | O => h
  | S i => heapify_loop i (siftup h i)
  end.
Definition heapify (h : list A) : list A := heapify_loop (Nat.div2 (length h)) h.

End Heapq.
