(* PosPriorityQueue.insert(position, obj), boosting disabled: in the pop order
   the new object comes after exactly min(position, len) earlier objects, whose
   order and the order of the remaining ones are unchanged. *)
From Coq Require Import QArith Lqa Sorting.Sorted Sorting.Permutation.
From Asynkit Require Import Base.Prelude Queue.PQ Queue.Order Queue.Heap Queue.ListFacts
  Queue.PQProofs Queue.PosPQ Queue.PosProofs.
Local Open Scope nat_scope.

Section PosInsert.
Context (H : heapimpl pv) (Hplt : plt H = pv_lt) (HS : HeapSpec H).
Notation sort := (stable_sort H).
Notation SW := (SWH H Hplt).

Lemma promote_spec k : forall s acc,
  PInv H s ->
  let L := sort (arr (pq_ s)) in
  exists s1,
    promote H k s acc = (s1, acc ++ map (@eobj pv) (firstn k L), Nat.leb k (length L)) /\
    PInv H s1 /\ sort (arr (pq_ s1)) = skipn k L.
Proof.
  induction k as [|k IH]; intros s acc Hp L.
  - exists s. simpl. rewrite app_nil_r. auto.
  - pose proof Hp as (Hi & Hf & Hc).
    pose proof (pop_refines H SW HS (pq_ s) Hi) as Hr.
    unfold ref_popentry in Hr. simpl arr in Hr. fold L in Hr.
    simpl promote. unfold pos_popleft.
    destruct (pq_popentry H (pq_ s)) as [[e q]|] eqn:Epop; simpl in Hr.
    + destruct L as [|e0 t] eqn:EL; [discriminate|].
      assert (He : e0 = e) by congruence. subst e0.
      assert (Hq : sort (arr q) = t).
      { pose proof (f_equal (fun x => match x with Some (_, r) => arr r | None => [] end) Hr) as Hq.
        simpl in Hq. exact Hq. }
      set (s' := update_counters H (with_pq s q) false).
      assert (Hp' : PInv H s').
      { eapply (popleft_inv H Hplt HS s (eobj e)); eauto. unfold pos_popleft. rewrite Epop. reflexivity. }
      assert (Epq : pq_ s' = q).
      { unfold s'. apply (update_counters_off H (with_pq s q) false). exact Hf. }
      destruct (IH s' (acc ++ [eobj e]) Hp') as (s1 & E1 & Hp1 & Hs1).
      rewrite Epq, Hq in E1, Hs1.
      exists s1. rewrite E1. simpl. rewrite <- app_assoc. simpl. auto.
    + destruct L as [|e0 t] eqn:EL; [|discriminate].
      exists s. simpl. rewrite app_nil_r. auto.
Qed.

(* the value used for the promoted and the new entry is strictly below everything left *)
Definition below (p : pv) (l : list (entry pv)) : Prop :=
  Forall (fun x => pv_lt p (epri x) = true) l.

Lemma split_unique (f : entry pv -> bool) l1 l2 m1 m2 :
  l1 ++ l2 = m1 ++ m2 ->
  Forall (fun x => f x = false) l1 -> Forall (fun x => f x = true) l2 ->
  Forall (fun x => f x = false) m1 -> Forall (fun x => f x = true) m2 ->
  l1 = m1 /\ l2 = m2.
Proof.
  revert m1. induction l1 as [|a l1 IH]; intros m1 E F1 F2 G1 G2.
  - destruct m1 as [|b m1]; auto. simpl in E. subst l2.
    inversion F2 as [|? ? Ha _]. inversion G1 as [|? ? Hb _]. congruence.
  - destruct m1 as [|b m1]; simpl in E.
    + subst m2. inversion F1 as [|? ? Ha _]. inversion G2 as [|? ? Hb _]. congruence.
    + injection E as Eab Et. subst b.
      inversion F1 as [|? ? Ha F1']. inversion G1 as [|? ? Hb G1']. subst.
      destruct (IH m1 Et F1' F2 G1' G2) as [E1 E2]. subst. auto.
Qed.

Lemma fold_add_sorted p os : forall q pre rest,
  Inv H q -> sort (arr q) = pre ++ rest ->
  Forall (fun x => pv_lt p (epri x) = false) pre -> below p rest ->
  pv_lt p p = false ->
  exists news,
    sort (arr (fold_left (fun q o => pq_add H q p o) os q)) = (pre ++ news) ++ rest /\
    map (@eobj pv) news = os.
Proof.
  induction os as [|o os IH]; intros q pre rest Hi Es Fp Fr Hpp.
  - exists []. simpl. rewrite app_nil_r. auto.
  - simpl fold_left.
    destruct (add_position H SW HS q p o Hi) as (l1 & l2 & E1 & E2 & F1 & F2).
    simpl arr in E1, E2. rewrite Hplt in F1, F2.
    rewrite Es in E1. symmetry in E1.
    destruct (split_unique (fun x => pv_lt p (epri x)) _ _ _ _ E1 F1 F2 Fp Fr) as [-> ->].
    set (e := mkE p (seqn q) o) in *.
    destruct (IH (pq_add H q p o) (pre ++ [e]) rest) as (news & En & Em); auto.
    + apply (add_inv H HS); auto.
    + change (arr (pq_add H q p o)) with (heappush H (arr q) e). rewrite E2. rewrite <- app_assoc. reflexivity.
    + apply Forall_app. split; auto.
    + exists (e :: news). rewrite En. split; [|simpl; congruence].
      rewrite <- !app_assoc. reflexivity.
Qed.

Theorem insert_position s k o :
  PInv H s ->
  let L := sort (arr (pq_ s)) in
  map (@eobj pv) (sort (arr (pq_ (pos_insert H s k o))))
  = map (@eobj pv) (firstn k L) ++ o :: map (@eobj pv) (skipn k L).
Proof.
  intros Hp L. unfold pos_insert.
  destruct (promote_spec k s [] Hp) as (s1 & E & Hp1 & Hs1). fold L in E, Hs1.
  rewrite E. simpl app.
  pose proof Hp1 as (Hi1 & Hf1 & Hc1).
  set (pval := if Nat.leb k (length L) then _ else _).
  set (p := mkPV pval (n_ins s1) 0 0).
  match goal with |- context [update_counters H ?x true] =>
    destruct (update_counters_off H x true Hf1) as [Epq _]; rewrite Epq end.
  simpl pq_.
  assert (Hbelow : below p (skipn k L)).
  { rewrite <- Hs1. unfold below. rewrite Forall_forall. intros x Hx.
    assert (Hcx : cls_ok x).
    { rewrite Forall_forall in Hc1. apply Hc1.
      eapply Permutation_in; [apply (stable_sort_perm H) | exact Hx]. }
    apply pv_lt_true. unfold p. simpl pclass.
    destruct Hcx as [[Hx0 Hxb]|Hx1]; [|left; lia].
    right. split; [lia|].
    (* x is positional: then the head is positional too and pval = base head - 1 *)
    pose proof (peek_refines H SW (pq_ s1) Hi1) as Hpk.
    unfold pq_peek in Hpk at 2. simpl arr in Hpk.
    pose proof (stable_sort_sorted H SW (arr (pq_ s1))) as Hsorted.
    destruct (sort (arr (pq_ s1))) as [|h t] eqn:Esort; [destruct Hx|].
    simpl in Hpk.
    assert (Hhx : ele (plt H) h x).
    { destruct Hx as [<-|Hx]; [apply (ele_refl SW)|].
      destruct (sorted_cons_inv Hsorted) as [_ Hall]. rewrite Forall_forall in Hall. auto. }
    unfold ele in Hhx. apply (elt_false SW) in Hhx. rewrite Hplt in Hhx.
    assert (Hch : cls_ok h).
    { rewrite Forall_forall in Hc1. apply Hc1.
      eapply Permutation_in; [apply (stable_sort_perm H)|]. rewrite Esort. simpl; auto. }
    assert (Hk : Nat.leb k (length L) = true).
    { destruct (Nat.leb k (length L)) eqn:Ek; auto. apply Nat.leb_gt in Ek.
      rewrite skipn_all2 in Hs1 by lia. discriminate. }
    unfold pval. rewrite Hk, Hpk.
    assert (Hh0 : pclass (epri h) = 0%Z /\ (pv_priority (epri h) <= pv_priority (epri x))%Q).
    { destruct Hhx as [Hlt | (Hxh & Hhx' & _)].
      - apply pv_lt_true in Hlt. destruct Hch as [[? _]|?]; destruct Hlt as [?|[? ?]]; try lia.
        split; auto. lra.
      - apply pv_lt_false in Hxh, Hhx'. destruct Hch as [[? _]|?];
          destruct Hxh as [?|[? ?]]; destruct Hhx' as [?|[? ?]]; try lia. split; auto. }
    destruct Hh0 as [Hh0 Hle]. rewrite Hh0. simpl.
    destruct Hch as [[_ Hhb]|?]; [|lia].
    unfold pv_priority in *. simpl. rewrite Hhb in Hle. lra. }
  destruct (fold_add_sorted p (map (@eobj pv) (firstn k L) ++ [o]) (pq_ s1) [] (skipn k L))
    as (news & En & Em); auto.
  { apply (sw_irrefl pv_lt_strict_weak). }
  simpl app in En. rewrite En, map_app, Em, <- app_assoc. reflexivity.
Qed.

End PosInsert.
