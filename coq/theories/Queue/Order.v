(* Order theory for C17: PriEntry.__lt__ (entry_lt), built from a bare `<` on
   priorities, is a strict weak order on all entries and a strict total order on
   entries with pairwise distinct sequence numbers, whenever `<` on priorities is
   a strict weak order.  Sorted lists; uniqueness of the sorted list within a
   permutation class; list.sort() (stable_sort of PQ.v) computes it. *)
From Coq Require Import Sorting.Sorted Sorting.Permutation.
From Asynkit Require Import Base.Prelude Queue.PQ.

(* a strict weak order given as a boolean `<` *)
Record StrictWeak {P : Type} (lt : P -> P -> bool) : Prop := mkSW {
  sw_irrefl : forall a, lt a a = false;
  sw_trans  : forall a b c, lt a b = true -> lt b c = true -> lt a c = true;
  sw_incomp : forall a b c,
      lt a b = false -> lt b a = false -> lt b c = false -> lt c b = false ->
      lt a c = false /\ lt c a = false }.
Arguments sw_irrefl {P lt} _ _.
Arguments sw_trans {P lt} _ _ _ _ _ _.
Arguments sw_incomp {P lt} _ _ _ _ _ _ _ _.

Section StrictWeakFacts.
Context {P : Type} (lt : P -> P -> bool) (SW : StrictWeak lt).

Lemma sw_asym a b : lt a b = true -> lt b a = false.
Proof.
  intros Hab. destruct (lt b a) eqn:Hba; auto.
  pose proof (sw_trans SW _ _ _ Hab Hba) as Haa. rewrite (sw_irrefl SW) in Haa. discriminate.
Qed.

(* negative transitivity, the usual alternative axiom of strict weak orders *)
Lemma sw_negtrans a b c : lt a c = true -> lt a b = true \/ lt b c = true.
Proof.
  intros Hac.
  destruct (lt a b) eqn:Hab; auto. destruct (lt b c) eqn:Hbc; auto. exfalso.
  destruct (lt b a) eqn:Hba.
  { pose proof (sw_trans SW _ _ _ Hba Hac). congruence. }
  destruct (lt c b) eqn:Hcb.
  { pose proof (sw_trans SW _ _ _ Hac Hcb). congruence. }
  destruct (sw_incomp SW _ _ _ Hab Hba Hbc Hcb). congruence.
Qed.

Lemma sw_negtrans' a b c : lt a b = false -> lt b c = false -> lt a c = false.
Proof.
  intros Hab Hbc. destruct (lt a c) eqn:Hac; auto.
  destruct (sw_negtrans a b c Hac); congruence.
Qed.

End StrictWeakFacts.
Arguments sw_asym {P lt} SW a b _.
Arguments sw_negtrans {P lt} SW a b c _.
Arguments sw_negtrans' {P lt} SW a b c _ _.

(* ------------------------------------------------------------------ *)
(* entry_lt                                                            *)
Section EntryOrder.
Context {P : Type} (lt : P -> P -> bool) (SW : StrictWeak lt).
Notation entry := (entry P).
Notation elt := (entry_lt lt).

(* a <= b  :=  not (b < a) *)
Definition ele (a b : entry) : Prop := elt b a = false.

Lemma elt_irrefl a : elt a a = false.
Proof.
  unfold entry_lt. rewrite (sw_irrefl SW). simpl. apply Z.ltb_irrefl.
Qed.

Lemma elt_true a b :
  elt a b = true <->
  lt (epri a) (epri b) = true \/
  (lt (epri a) (epri b) = false /\ lt (epri b) (epri a) = false /\ (eseq a < eseq b)%Z).
Proof.
  unfold entry_lt.
  destruct (lt (epri a) (epri b)) eqn:Hab; simpl.
  - intuition.
  - destruct (lt (epri b) (epri a)) eqn:Hba; simpl.
    + intuition congruence.
    + rewrite Z.ltb_lt. intuition.
Qed.

Lemma elt_false a b :
  elt a b = false <->
  lt (epri b) (epri a) = true \/
  (lt (epri a) (epri b) = false /\ lt (epri b) (epri a) = false /\ (eseq b <= eseq a)%Z).
Proof.
  unfold entry_lt.
  destruct (lt (epri a) (epri b)) eqn:Hab; simpl.
  - pose proof (sw_asym SW _ _ Hab). intuition congruence.
  - destruct (lt (epri b) (epri a)) eqn:Hba; simpl.
    + intuition.
    + rewrite Z.ltb_ge. intuition congruence.
Qed.

Lemma elt_trans a b c : elt a b = true -> elt b c = true -> elt a c = true.
Proof.
  rewrite !elt_true.
  intros [Hab | (Hab & Hba & Hs1)] [Hbc | (Hbc & Hcb & Hs2)].
  - left. eapply (sw_trans SW); eauto.
  - left. destruct (sw_negtrans SW _ (epri c) _ Hab) as [Hx | Hx]; auto. congruence.
  - left. destruct (sw_negtrans SW _ (epri a) _ Hbc) as [Hx | Hx]; auto. congruence.
  - right. destruct (sw_incomp SW _ _ _ Hab Hba Hbc Hcb). repeat split; auto. lia.
Qed.

Lemma elt_asym a b : elt a b = true -> elt b a = false.
Proof.
  intros Hab. destruct (elt b a) eqn:Hba; auto.
  pose proof (elt_trans _ _ _ Hab Hba) as Haa. rewrite elt_irrefl in Haa. discriminate.
Qed.

(* the complement of entry_lt is transitive (negative transitivity) *)
Lemma ele_trans a b c : ele a b -> ele b c -> ele a c.
Proof.
  unfold ele. rewrite !elt_false.
  intros [Hab | (Hab & Hba & Hs1)] [Hbc | (Hbc & Hcb & Hs2)].
  - left. eapply (sw_trans SW); eauto.
  - left. destruct (sw_negtrans SW _ (epri c) _ Hab) as [Hx | Hx]; auto. congruence.
  - left. destruct (sw_negtrans SW _ (epri a) _ Hbc) as [Hx | Hx]; auto. congruence.
  - right. destruct (sw_incomp SW _ _ _ Hba Hab Hcb Hbc). repeat split; auto. lia.
Qed.

Lemma ele_refl a : ele a a.
Proof. apply elt_irrefl. Qed.

Lemma elt_ele a b : elt a b = true -> ele a b.
Proof. apply elt_asym. Qed.

Lemma elt_ele_trans a b c : elt a b = true -> ele b c -> elt a c = true.
Proof.
  intros Hab Hbc. destruct (elt a c) eqn:Hac; auto.
  assert (Hca : ele c a) by exact Hac.
  pose proof (ele_trans _ _ _ Hbc Hca) as Hba. unfold ele in Hba. congruence.
Qed.

Lemma ele_elt_trans a b c : ele a b -> elt b c = true -> elt a c = true.
Proof.
  intros Hab Hbc. destruct (elt a c) eqn:Hac; auto.
  assert (Hca : ele c a) by exact Hac.
  pose proof (ele_trans _ _ _ Hca Hab) as Hcb. unfold ele in Hcb. congruence.
Qed.

(* totality needs distinct sequence numbers *)
Lemma elt_total a b : eseq a <> eseq b -> elt a b = true \/ elt b a = true.
Proof.
  intros Hne. destruct (elt a b) eqn:Hab; auto. right.
  apply elt_false in Hab. apply elt_true.
  destruct Hab as [Hab | (Hab & Hba & Hs)]; auto. right. repeat split; auto. lia.
Qed.

Lemma ele_antisym_seq a b : ele a b -> ele b a -> eseq a = eseq b.
Proof.
  intros Hab Hba. destruct (Z.eq_dec (eseq a) (eseq b)) as [|Hne]; auto.
  unfold ele in *. destruct (elt_total a b Hne); congruence.
Qed.

Lemma ele_total a b : ele a b \/ ele b a.
Proof.
  unfold ele. destruct (elt b a) eqn:Hba; auto. right. apply elt_asym; auto.
Qed.

Lemma ele_elt a b : eseq a <> eseq b -> ele a b -> elt a b = true.
Proof.
  intros Hne Hab. destruct (elt_total a b Hne) as [|Hba]; auto.
  unfold ele in Hab. congruence.
Qed.

(* ---- sorted lists ---- *)
Definition sorted (l : list entry) : Prop := StronglySorted ele l.

Lemma sorted_Sorted l : sorted l <-> Sorted ele l.
Proof.
  split.
  - apply StronglySorted_Sorted.
  - apply Sorted_StronglySorted. intros a b c. apply ele_trans.
Qed.

Lemma sorted_nil : sorted [].
Proof. constructor. Qed.

Lemma sorted_cons_inv {a l} : sorted (a :: l) -> sorted l /\ Forall (ele a) l.
Proof. intros Hs. inversion Hs; subst. auto. Qed.

Lemma sorted_cons a l : sorted l -> Forall (ele a) l -> sorted (a :: l).
Proof. intros. constructor; auto. Qed.

Lemma sorted_app l1 l2 :
  sorted (l1 ++ l2) <->
  sorted l1 /\ sorted l2 /\ (forall x y, In x l1 -> In y l2 -> ele x y).
Proof.
  induction l1 as [|a l1 IH]; simpl.
  - split.
    + intros Hs. repeat split; auto using sorted_nil. intros x y [].
    + tauto.
  - split.
    + intros Hs. apply sorted_cons_inv in Hs. destruct Hs as [Hs Hall].
      apply IH in Hs. destruct Hs as (Hs1 & Hs2 & Hx).
      rewrite Forall_app in Hall. destruct Hall as [Ha1 Ha2].
      repeat split; auto.
      * apply sorted_cons; auto.
      * intros x y [<- | Hin] Hy; auto.
        rewrite Forall_forall in Ha2. auto.
    + intros (Hs1 & Hs2 & Hx). apply sorted_cons_inv in Hs1. destruct Hs1 as [Hs1 Ha1].
      apply sorted_cons.
      * apply IH. repeat split; auto.
      * rewrite Forall_app. split; auto. rewrite Forall_forall. intros y Hy. apply Hx; auto.
Qed.

Lemma sorted_nth l d i j :
  sorted l -> i <= j -> j < length l -> ele (nth i l d) (nth j l d).
Proof.
  intros Hs. revert i j. induction Hs as [|a l Hs IH Hall]; intros i j Hij Hj; simpl in *.
  - lia.
  - destruct i as [|i], j as [|j]; try lia.
    + apply ele_refl.
    + rewrite Forall_forall in Hall. apply Hall. apply nth_In. lia.
    + apply IH; lia.
Qed.

(* uniqueness of the sorted list within a permutation class *)
Lemma sorted_unique l1 l2 :
  sorted l1 -> sorted l2 -> Permutation l1 l2 -> NoDup (map eseq l1) -> l1 = l2.
Proof.
  revert l2. induction l1 as [|a t1 IH]; intros l2 Hs1 Hs2 Hp Hnd.
  - apply Permutation_nil in Hp. auto.
  - destruct l2 as [|b t2].
    { apply Permutation_sym, Permutation_nil in Hp. discriminate. }
    assert (Hab : a = b).
    { destruct (sorted_cons_inv Hs1) as [_ Ha1]. destruct (sorted_cons_inv Hs2) as [_ Ha2].
      rewrite Forall_forall in Ha1, Ha2.
      assert (Hina : In a (b :: t2)) by (eapply Permutation_in; eauto; simpl; auto).
      assert (Hinb : In b (a :: t1)) by (eapply Permutation_in; [apply Permutation_sym|]; eauto; simpl; auto).
      destruct Hina as [->|Hina]; auto. destruct Hinb as [->|Hinb]; auto.
      pose proof (ele_antisym_seq _ _ (Ha1 _ Hinb) (Ha2 _ Hina)) as Hseq.
      simpl in Hnd. inversion Hnd as [|? ? Hnin _]; subst.
      exfalso. apply Hnin. rewrite Hseq. apply in_map; auto. }
    subst b. f_equal. apply Permutation_cons_inv in Hp.
    destruct (sorted_cons_inv Hs1). destruct (sorted_cons_inv Hs2).
    simpl in Hnd. inversion Hnd; subst. apply IH; auto.
Qed.

(* with distinct sequence numbers a sorted list is strictly ascending *)
Lemma sorted_strict l :
  sorted l -> NoDup (map eseq l) -> StronglySorted (fun a b => elt a b = true) l.
Proof.
  induction 1 as [|a l Hs IH Hall]; intros Hnd; simpl in *; constructor.
  - inversion Hnd; auto.
  - inversion Hnd as [|? ? Hnin _]; subst. rewrite Forall_forall in *.
    intros x Hx. apply ele_elt; auto. intros Heq. apply Hnin. rewrite Heq. apply in_map; auto.
Qed.

End EntryOrder.
Arguments elt_irrefl {P lt} SW.
Arguments elt_false {P lt} SW.
Arguments elt_trans {P lt} SW.
Arguments elt_asym {P lt} SW.
Arguments ele_trans {P lt} SW.
Arguments ele_refl {P lt} SW.
Arguments elt_ele {P lt} SW.
Arguments elt_ele_trans {P lt} SW.
Arguments ele_elt_trans {P lt} SW.
Arguments elt_total {P lt} SW.
Arguments ele_antisym_seq {P lt} SW.
Arguments ele_total {P lt} SW.
Arguments ele_elt {P lt} SW.
Arguments sorted_Sorted {P lt} SW.
Arguments sorted_nth {P lt} SW.
Arguments sorted_unique {P lt} SW.
Arguments sorted_strict {P lt} SW.
Arguments elt_true {P lt}.
Arguments sorted_nil {P lt}.
Arguments sorted_cons {P lt}.
Arguments sorted_app {P lt}.
Arguments sorted_cons_inv {P lt a l}.

(* ------------------------------------------------------------------ *)
(* list.sort() of PQ.v                                                 *)
Section StableSort.
Context {P : Type} (H : heapimpl P) (SW : StrictWeak (plt H)).
Notation entry := (entry P).
Notation elt := (entry_lt (plt H)).
Notation ele := (ele (plt H)).
Notation sorted := (sorted (plt H)).
Notation ins := (ins_stable H).
Notation sort := (stable_sort H).

Lemma ins_stable_perm e l : Permutation (ins e l) (e :: l).
Proof.
  induction l as [|h t IH]; simpl; auto.
  destruct (elt e h); auto.
  eapply perm_trans; [apply perm_skip, IH | apply perm_swap].
Qed.

Lemma ins_stable_sorted e l : sorted l -> sorted (ins e l).
Proof.
  induction 1 as [|h t Hs IH Hall]; simpl.
  - apply sorted_cons; auto. apply sorted_nil.
  - destruct (elt e h) eqn:Heh.
    + apply sorted_cons; [apply sorted_cons; auto|].
      constructor; [apply elt_ele; auto|].
      rewrite Forall_forall in *. intros x Hx.
      eapply ele_trans; eauto. apply elt_ele; auto.
    + apply sorted_cons; auto.
      rewrite Forall_forall in *. intros x Hx.
      eapply Permutation_in in Hx; [|apply ins_stable_perm].
      destruct Hx as [<-|Hx]; auto.
Qed.

Lemma stable_sort_perm l : Permutation (sort l) l.
Proof.
  induction l as [|a l IH]; simpl; auto.
  eapply perm_trans; [apply ins_stable_perm|]. auto.
Qed.

Lemma stable_sort_sorted l : sorted (sort l).
Proof.
  induction l as [|a l IH]; simpl; [apply sorted_nil | apply ins_stable_sorted; auto].
Qed.

Lemma stable_sort_length l : length (sort l) = length l.
Proof. apply Permutation_length, stable_sort_perm. Qed.

Lemma NoDup_map_perm {A B} (f : A -> B) l l' :
  Permutation l l' -> NoDup (map f l) -> NoDup (map f l').
Proof. intros Hp. apply Permutation_NoDup, Permutation_map, Hp. Qed.

(* the sorted list is the unique sorted permutation *)
Lemma sort_unique l s :
  NoDup (map eseq l) -> sorted s -> Permutation s l -> sort l = s.
Proof.
  intros Hnd Hs Hp. apply (sorted_unique SW).
  - apply stable_sort_sorted.
  - auto.
  - eapply perm_trans; [apply stable_sort_perm | apply Permutation_sym, Hp].
  - eapply NoDup_map_perm; [apply Permutation_sym, stable_sort_perm | auto].
Qed.

Lemma sort_perm_eq l l' :
  NoDup (map eseq l) -> Permutation l l' -> sort l = sort l'.
Proof.
  intros Hnd Hp. apply sort_unique; auto.
  - apply stable_sort_sorted.
  - eapply perm_trans; [apply stable_sort_perm | apply Permutation_sym, Hp].
Qed.

Lemma sort_sorted_id l : NoDup (map eseq l) -> sorted l -> sort l = l.
Proof. intros. apply sort_unique; auto. Qed.

Lemma sort_idem l : NoDup (map eseq l) -> sort (sort l) = sort l.
Proof.
  intros Hnd. apply sort_sorted_id.
  - eapply NoDup_map_perm; [apply Permutation_sym, stable_sort_perm | auto].
  - apply stable_sort_sorted.
Qed.

(* inserting into the sorted list = sorting with one more element *)
Lemma sort_cons_perm l e l' :
  NoDup (map eseq l) -> Permutation l (e :: l') -> sort l = ins e (sort l').
Proof.
  intros Hnd Hp. apply sort_unique; auto.
  - apply ins_stable_sorted, stable_sort_sorted.
  - eapply perm_trans; [apply ins_stable_perm|].
    eapply perm_trans; [apply perm_skip, stable_sort_perm|]. apply Permutation_sym, Hp.
Qed.

(* a minimal element comes first *)
Lemma sort_min_first l e l' :
  NoDup (map eseq l) -> Permutation l (e :: l') -> Forall (ele e) l' ->
  sort l = e :: sort l'.
Proof.
  intros Hnd Hp Hall. apply sort_unique; auto.
  - apply sorted_cons; [apply stable_sort_sorted|].
    rewrite Forall_forall in *. intros x Hx. apply Hall.
    eapply Permutation_in; [apply stable_sort_perm | auto].
  - eapply perm_trans; [apply perm_skip, stable_sort_perm|]. apply Permutation_sym, Hp.
Qed.

(* where the stable insert puts an entry whose sequence number is larger than
   all others: after every entry of priority not above its own ("arrival order
   breaks ties"), before every entry of strictly larger priority *)
Lemma ins_stable_split e l :
  sorted l -> Forall (fun x => (eseq x < eseq e)%Z) l ->
  exists l1 l2, ins e l = l1 ++ e :: l2 /\ l = l1 ++ l2 /\
    Forall (fun x => plt H (epri e) (epri x) = false) l1 /\
    Forall (fun x => plt H (epri e) (epri x) = true) l2.
Proof.
  induction 1 as [|h t Hs IH Hall]; intros Hseq; simpl.
  - exists [], []. repeat split; auto.
  - inversion Hseq as [|? ? Hh Ht]; subst.
    destruct (elt e h) eqn:Heh.
    + exists [], (h :: t). repeat split; auto.
      assert (Hlt : plt H (epri e) (epri h) = true).
      { apply elt_true in Heh. destruct Heh as [|(_ & _ & ?)]; auto. lia. }
      constructor; auto.
      rewrite Forall_forall in *. intros x Hx.
      assert (Hex : elt e x = true) by (eapply elt_ele_trans; eauto).
      apply elt_true in Hex. destruct Hex as [|(_ & _ & ?)]; auto.
      specialize (Ht _ Hx). simpl in Ht. lia.
    + destruct (IH Ht) as (l1 & l2 & E1 & E2 & F1 & F2).
      exists (h :: l1), l2. rewrite E1. repeat split; auto.
      * simpl. congruence.
      * constructor; auto. unfold entry_lt in Heh.
        destruct (plt H (epri e) (epri h)); auto.
Qed.

End StableSort.

(* the hypotheses are satisfiable: integers under < *)
Lemma Zltb_strict_weak : StrictWeak Z.ltb.
Proof. constructor; intros; lia. Qed.
