(* C18: proofs about the step-level model Queue/Threads.v.
   1. c_*_eq: an uninterrupted run of the C (swap-based) heapq functions computes exactly
      the arrays of the hole-based transcription HeapqModel (hence meets HeapSpec).
   2. t_*_atomic: an operation in which the foreign append does not strike equals the
      sequential composition "loop-thread operation of PosPQ, then pos_append_pri".
   3. deque loops: list-level interleavings are sequential histories.
   4. a strike inside popleft / append always raises, loses the head / duplicates a
      sequence number. *)
From Coq Require Import QArith Sorting.Permutation.
From Asynkit Require Import Base.Prelude Queue.PQ Queue.Order Queue.Heap Queue.ListFacts
  Queue.HeapqModel Queue.HeapqProofs Queue.PosPQ Queue.Exec Queue.PQProofs Queue.PosProofs
  Queue.Threads Queue.ThreadsCorr.
Local Close Scope Q_scope.
Local Open Scope nat_scope.

(* ------------------------------------------------------------------ *)
(* arrays *)
Lemma set_nth_comm {A} (h : list A) : forall i j u v,
  i <> j -> set_nth (set_nth h i u) j v = set_nth (set_nth h j v) i u.
Proof.
  induction h as [|a t IH]; intros [|i] [|j] u v Hne; simpl; auto; try lia.
  rewrite IH by lia. reflexivity.
Qed.

Lemma set_nth_same2 {A} (h : list A) : forall i u v, set_nth (set_nth h i u) i v = set_nth h i v.
Proof. induction h as [|a t IH]; intros [|i] u v; simpl; auto. rewrite IH. auto. Qed.

Lemma nth_set_nth_other {A} (h : list A) : forall i j x d, i <> j -> nth i (set_nth h j x) d = nth i h d.
Proof. induction h as [|a t IH]; intros [|i] [|j] x d Hne; simpl; auto; try lia. Qed.

(* swapping the item x (sitting at pos) with position c, in terms of the array with a hole *)
Lemma swap_hole (h : list E) pos c x :
  pos <> c -> pos < length h -> c < length h ->
  let a := set_nth h pos x in
  set_nth (set_nth a c (nth pos a ed)) pos (nth c a ed)
  = set_nth (set_nth h pos (nth c h ed)) c x.
Proof.
  intros Hne Hp Hc a. unfold a.
  rewrite nth_set_nth_same by auto. rewrite nth_set_nth_other by auto.
  rewrite (@set_nth_comm _ h pos c x x) by auto.
  rewrite set_nth_same2. apply set_nth_comm. auto.
Qed.

(* ------------------------------------------------------------------ *)
(* budgets: None = no foreign thread; Some k = strike during comparison k *)
Definition bud_ok (b b' : option nat) : Prop :=
  match b, b' with
  | None, None => True
  | Some k, Some k' => k' <= k
  | _, _ => False
  end.

Lemma bud_ok_refl b : bud_ok b b.
Proof. destruct b; simpl; auto. Qed.
Lemma bud_ok_trans b1 b2 b3 : bud_ok b1 b2 -> bud_ok b2 b3 -> bud_ok b1 b3.
Proof. destruct b1, b2, b3; simpl; intros; try tauto; lia. Qed.

(* a comparison that is not struck leaves the state alone except for the budget *)
Lemma ccmp_unstruck a b x u v s' l :
  ccmp (mkC a b x false) u v = (s', l) -> cerr s' = false ->
  l = elt u v /\ exists b', s' = mkC a b' x false /\ bud_ok b b'.
Proof.
  unfold ccmp. simpl. destruct b as [[|n]|]; intros Hc He; inversion Hc; subst; simpl in *; try discriminate.
  - split; auto. exists (Some n). split; [reflexivity | simpl; lia].
  - split; auto. exists None. split; [reflexivity | exact I].
Qed.

(* unstruck result: array a', same foreign entry, budget only decreased *)
Definition unstruck (r : cst) (a' : list E) (b : option nat) (x : E) : Prop :=
  exists b', r = mkC a' b' x false /\ bud_ok b b'.

(* ---- siftdown ---- *)
Lemma c_siftdown_hole fuel : forall h b x sp pos newitem,
  pos < length h ->
  let r := c_siftdown fuel (mkC (set_nth h pos newitem) b x false) sp pos in
  cerr r = false ->
  unstruck r (siftdown_loop elt ed fuel h sp pos newitem) b x.
Proof.
  induction fuel as [|fuel IH]; intros h b x sp pos newitem Hp r; subst r.
  - simpl. intros _. exists b. split; auto. apply bud_ok_refl.
  - cbn [c_siftdown siftdown_loop].
    destruct (Nat.ltb sp pos) eqn:Hlt.
    2:{ intros _. exists b. split; auto. apply bud_ok_refl. }
    apply Nat.ltb_lt in Hlt.
    set (pp := Nat.div2 (pos - 1)).
    assert (Hpp : pp < pos) by (unfold pp; rewrite Nat.div2_div; lia).
    destruct (ccmp _ _ _) as [s' l] eqn:Hc.
    destruct (cerr s') eqn:He.
    { intros Hr. congruence. }
    destruct (ccmp_unstruck _ _ _ _ _ _ _ Hc He) as (Hl & b' & -> & Hb).
    unfold cget in Hl. simpl in Hl.
    rewrite nth_set_nth_same in Hl by auto.
    rewrite nth_set_nth_other in Hl by lia.
    unfold get. rewrite <- Hl.
    destruct l.
    + unfold cswap, cget. simpl.
      pose proof (swap_hole h pos pp newitem) as Hs. simpl in Hs.
      rewrite Hs by lia. clear Hs.
      intros Hr.
      assert (Hlen : pp < length (set_nth h pos (nth pp h ed))) by (rewrite set_nth_length; lia).
      destruct (IH (set_nth h pos (nth pp h ed)) b' x sp pp newitem Hlen Hr) as (b'' & E & Hb').
      exists b''. split; auto. eapply bud_ok_trans; eauto.
    + intros _. exists b'. split; auto.
Qed.

Lemma siftdown_loop_fuel f1 : forall f2 h sp pos x,
  pos < f1 -> pos < f2 ->
  siftdown_loop elt ed f1 h sp pos x = siftdown_loop elt ed f2 h sp pos x.
Proof.
  induction f1 as [|f1 IH]; intros [|f2] h sp pos x H1 H2; try lia.
  simpl. destruct (Nat.ltb sp pos) eqn:Hlt; auto.
  apply Nat.ltb_lt in Hlt.
  destruct (elt x _); auto.
  apply IH; rewrite Nat.div2_div; lia.
Qed.

(* the statement for an arbitrary array: the item being sifted is the one at pos *)
Lemma c_siftdown_eq fuel a b x sp pos :
  pos < length a -> pos < fuel ->
  let r := c_siftdown fuel (mkC a b x false) sp pos in
  cerr r = false -> unstruck r (siftdown elt ed a sp pos) b x.
Proof.
  intros Hp Hf r Hr. unfold siftdown.
  rewrite (siftdown_loop_fuel (S pos) fuel) by lia.
  pose proof (c_siftdown_hole fuel a b x sp pos (get ed a pos) Hp) as HH.
  unfold get in *. rewrite set_nth_nth_id in HH by auto. apply HH. exact Hr.
Qed.

(* ---- siftup ---- *)
Lemma div2_cond pos endpos : Nat.ltb pos (Nat.div2 endpos) = Nat.ltb (2 * pos + 1) endpos.
Proof.
  rewrite Nat.div2_div.
  destruct (Nat.ltb pos (endpos / 2)) eqn:E1, (Nat.ltb (2 * pos + 1) endpos) eqn:E2; auto;
    rewrite ?Nat.ltb_lt, ?Nat.ltb_ge in *; lia.
Qed.

Lemma c_siftup_loop_hole fuel : forall h b x endpos pos newitem,
  pos < length h -> endpos <= length h ->
  let r := c_siftup_loop fuel (mkC (set_nth h pos newitem) b x false) endpos pos in
  cerr (fst r) = false ->
  let m := siftup_loop elt ed fuel h endpos pos in
  snd r = snd m /\ snd m < length h /\ length (fst m) = length h /\
  unstruck (fst r) (set_nth (fst m) (snd m) newitem) b x.
Proof.
  induction fuel as [|fuel IH]; intros h b x endpos pos newitem Hp He r; subst r.
  - simpl. intros _. repeat split; auto. exists b. split; auto. apply bud_ok_refl.
  - cbn [c_siftup_loop siftup_loop]. rewrite div2_cond.
    destruct (Nat.ltb (2 * pos + 1) endpos) eqn:Hlt.
    2:{ simpl. intros _. repeat split; auto. exists b. split; auto. apply bud_ok_refl. }
    apply Nat.ltb_lt in Hlt.
    set (cp := 2 * pos + 1) in *.
    destruct (Nat.ltb (cp + 1) endpos) eqn:Hr.
    + apply Nat.ltb_lt in Hr.
      destruct (ccmp _ _ _) as [s' l] eqn:Hc.
      destruct (cerr s') eqn:Hes.
      { simpl. congruence. }
      destruct (ccmp_unstruck _ _ _ _ _ _ _ Hc Hes) as (Hl & b' & -> & Hb).
      unfold cget in Hl. simpl in Hl.
      rewrite !nth_set_nth_other in Hl by lia.
      unfold get. rewrite <- Hl. simpl andb.
      set (c := if l then cp else cp + 1).
      assert (Hcc : (if negb l then cp + 1 else cp) = c) by (unfold c; destruct l; auto).
      rewrite Hcc.
      assert (Hc1 : c < endpos) by (unfold c; destruct l; lia).
      assert (Hc2 : pos <> c) by (unfold c, cp; destruct l; lia).
      unfold cswap, cget. simpl.
      pose proof (swap_hole h pos c newitem) as Hs. simpl in Hs.
      rewrite Hs by lia. clear Hs.
      intros Hres.
      assert (Hlen : c < length (set_nth h pos (nth c h ed))) by (rewrite set_nth_length; lia).
      assert (Hlen2 : endpos <= length (set_nth h pos (nth c h ed))) by (rewrite set_nth_length; lia).
      destruct (IH (set_nth h pos (nth c h ed)) b' x endpos c newitem Hlen Hlen2 Hres)
        as (E1 & E2 & E3 & (b'' & E4 & Hb')).
      rewrite set_nth_length in E2, E3.
      repeat split; auto. exists b''. split; auto. eapply bud_ok_trans; eauto.
    + simpl andb.
      apply Nat.ltb_ge in Hr.
      assert (Hc2 : pos <> cp) by (unfold cp; lia).
      unfold cswap, cget. simpl.
      pose proof (swap_hole h pos cp newitem) as Hs. simpl in Hs.
      rewrite Hs by lia. clear Hs.
      intros Hres.
      assert (Hlen : cp < length (set_nth h pos (nth cp h ed))) by (rewrite set_nth_length; lia).
      assert (Hlen2 : endpos <= length (set_nth h pos (nth cp h ed))) by (rewrite set_nth_length; lia).
      destruct (IH (set_nth h pos (nth cp h ed)) b x endpos cp newitem Hlen Hlen2 Hres)
        as (E1 & E2 & E3 & (b'' & E4 & Hb')).
      rewrite set_nth_length in E2, E3.
      repeat split; auto. exists b''. split; auto.
Qed.

Lemma c_siftup_eq a b x pos :
  pos < length a ->
  let r := c_siftup (mkC a b x false) pos in
  cerr r = false -> unstruck r (siftup elt ed a pos) b x.
Proof.
  intros Hp r Hr. subst r. unfold c_siftup, siftup in *. simpl carr in *.
  pose proof (c_siftup_loop_hole (length a) a b x (length a) pos (get ed a pos) Hp (le_n _)) as HL.
  unfold get in *. rewrite set_nth_nth_id in HL by auto. simpl in HL.
  destruct (c_siftup_loop (length a) (mkC a b x false) (length a) pos) as [s p] eqn:Hloop.
  destruct (siftup_loop elt ed (length a) a (length a) pos) as [h' p'] eqn:Hm.
  simpl in HL.
  destruct (cerr s) eqn:Hes; [congruence|].
  destruct (HL eq_refl) as (-> & Hp' & Hlen & (b' & -> & Hb)).
  assert (Hlen' : p' < length (set_nth h' p' (nth pos a ed))) by (rewrite set_nth_length; lia).
  destruct (c_siftdown_eq (S p') (set_nth h' p' (nth pos a ed)) b' x pos p' Hlen' (Nat.lt_succ_diag_r _) Hr)
    as (b'' & E & Hb').
  exists b''. split; auto. eapply bud_ok_trans; eauto.
Qed.

(* ---- PriEntry.__lt__ over PriorityValue.__lt__ is a usable order ---- *)
Lemma Elt_asym : forall a b : E, elt a b = true -> elt b a = false.
Proof. exact (elt_asym pv_lt_strict_weak). Qed.
Lemma Ele_trans : forall a b c : E, elt b a = false -> elt c b = false -> elt c a = false.
Proof. intros a b c. exact (ele_trans pv_lt_strict_weak a b c). Qed.

Lemma HPV_spec : HeapSpec HPV.
Proof. exact (heapq_model_spec pv_lt pv_dflt pv_lt_strict_weak). Qed.

(* ---- heappush / heappop / heapify ---- *)
Lemma c_heappush_eq a b x e :
  let r := c_heappush (mkC a b x false) e in
  cerr r = false -> unstruck r (heappush elt ed a e) b x.
Proof.
  intros r Hr. subst r. unfold c_heappush, heappush in *. simpl in *.
  rewrite app_length in *. simpl in *.
  replace (length a + 1 - 1) with (length a) in * by lia.
  apply c_siftdown_eq; auto; rewrite ?app_length; simpl; lia.
Qed.

Lemma c_heappop_eq a b x :
  let r := c_heappop (mkC a b x false) in
  cerr (fst r) = false ->
  match heappop elt ed a with
  | None => r = (mkC a b x false, None)
  | Some (e, a') => snd r = Some e /\ unstruck (fst r) a' b x
  end.
Proof.
  intros r Hr. subst r. unfold c_heappop, heappop in *. simpl carr in *.
  destruct (rev a) as [|lastelt t]; [reflexivity|].
  destruct (rev t) as [|ret t'] eqn:Hrev.
  - simpl. split; auto. exists b. split; auto. apply bud_ok_refl.
  - simpl cbudget in *. simpl cx in *. simpl cerr in *.
    set (a0 := set_nth (ret :: t') 0 lastelt) in *.
    simpl fst in Hr. simpl.
    assert (Hp : 0 < length a0) by (unfold a0; simpl; lia).
    rewrite Hr. split; auto.
    apply c_siftup_eq; auto.
Qed.

Lemma c_heapify_loop_eq i : forall a b x,
  i <= length a ->
  let r := c_heapify_loop i (mkC a b x false) in
  cerr r = false -> unstruck r (heapify_loop elt ed i a) b x.
Proof.
  induction i as [|i IH]; intros a b x Hi r Hr; subst r.
  - simpl. exists b. split; auto. apply bud_ok_refl.
  - cbn [c_heapify_loop heapify_loop] in *.
    destruct (cerr (c_siftup (mkC a b x false) i)) eqn:He; [congruence|].
    assert (Hp : i < length a) by lia.
    destruct (c_siftup_eq a b x i Hp He) as (b' & E & Hb).
    rewrite E in *.
    assert (Hl : i <= length (siftup elt ed a i)).
    { rewrite (siftup_length elt ed Elt_asym Ele_trans) by auto. lia. }
    destruct (IH _ b' x Hl Hr) as (b'' & E' & Hb').
    exists b''. split; auto. eapply bud_ok_trans; eauto.
Qed.

Lemma c_heapify_eq a b x :
  let r := c_heapify (mkC a b x false) in
  cerr r = false -> unstruck r (heapify elt ed a) b x.
Proof.
  intros r Hr. unfold heapify. apply c_heapify_loop_eq; auto.
  simpl. rewrite Nat.div2_div. apply Nat.div_le_upper_bound; lia.
Qed.

(* ---- no foreign thread: cbudget = None.  The C functions never fail and compute
   HeapqModel's arrays ---- *)
Lemma ccmp_none a x u v : ccmp (mkC a None x false) u v = (mkC a None x false, elt u v).
Proof. reflexivity. Qed.

Lemma c_siftdown_none fuel : forall a x sp pos,
  cerr (c_siftdown fuel (mkC a None x false) sp pos) = false.
Proof.
  induction fuel as [|fuel IH]; intros a x sp pos; simpl; auto.
  destruct (Nat.ltb sp pos); auto. destruct (elt _ _); auto.
  unfold cswap. simpl. apply IH.
Qed.

Lemma c_siftup_loop_none fuel : forall a x endpos pos,
  exists a', fst (c_siftup_loop fuel (mkC a None x false) endpos pos) = mkC a' None x false.
Proof.
  induction fuel as [|fuel IH]; intros a x endpos pos; simpl; eauto.
  destruct (Nat.ltb pos _); simpl; eauto.
  destruct (Nat.ltb _ endpos); simpl; unfold cswap; simpl; apply IH.
Qed.

Lemma c_siftup_none a x pos : cerr (c_siftup (mkC a None x false) pos) = false.
Proof.
  unfold c_siftup. simpl carr.
  destruct (c_siftup_loop_none (length a) a x (length a) pos) as [a' Ha].
  destruct (c_siftup_loop _ _ _ _) as [s p]. simpl in Ha. subst s. cbn [cerr].
  apply c_siftdown_none.
Qed.

Lemma unstruck_none r a' x : unstruck r a' None x -> r = mkC a' None x false.
Proof. intros (b' & -> & Hb). destruct b'; simpl in Hb; [tauto | reflexivity]. Qed.

Lemma c_heapify_loop_none i : forall a x, i <= length a ->
  cerr (c_heapify_loop i (mkC a None x false)) = false.
Proof.
  induction i as [|i IH]; intros a x Hi; simpl; auto.
  pose proof (c_siftup_none a x i) as He. rewrite He.
  assert (Hp : i < length a) by lia.
  rewrite (unstruck_none _ _ _ (c_siftup_eq a None x i Hp He)).
  apply IH. rewrite (siftup_length elt ed Elt_asym Ele_trans) by auto. lia.
Qed.

(* Part 1: with no interference the C swap-based algorithms compute the arrays of the
   hole-based Python transcription *)
Theorem c_sift_equiv :
  forall (a : list E) (x : E),
    let s := mkC a None x false in
    (forall fuel sp pos, pos < length a -> pos < fuel ->
       c_siftdown fuel s sp pos = mkC (siftdown elt ed a sp pos) None x false) /\
    (forall pos, pos < length a ->
       c_siftup s pos = mkC (siftup elt ed a pos) None x false) /\
    (forall e, c_heappush s e = mkC (heappush elt ed a e) None x false) /\
    (c_heappop s = match heappop elt ed a with
                   | None => (s, None)
                   | Some (e, a') => (mkC a' None x false, Some e)
                   end) /\
    c_heapify s = mkC (heapify elt ed a) None x false.
Proof.
  intros a x s. subst s. repeat split.
  - intros fuel sp pos Hp Hf. apply unstruck_none, c_siftdown_eq; auto. apply c_siftdown_none.
  - intros pos Hp. apply unstruck_none, c_siftup_eq; auto. apply c_siftup_none.
  - intros e. apply unstruck_none, c_heappush_eq. apply c_siftdown_none.
  - pose proof (c_heappop_eq a None x) as HH. simpl in HH.
    assert (He : cerr (fst (c_heappop (mkC a None x false))) = false).
    { unfold c_heappop. simpl carr. destruct (rev a) as [|l t]; auto.
      destruct (rev t); auto. simpl. apply c_siftup_none. }
    specialize (HH He). destruct (heappop elt ed a) as [[e a']|]; auto.
    destruct HH as [H1 H2]. apply unstruck_none in H2.
    destruct (c_heappop _) as [r o]. simpl in *. congruence.
  - apply unstruck_none, c_heapify_eq. unfold c_heapify. apply c_heapify_loop_none.
    simpl. rewrite Nat.div2_div. apply Nat.div_le_upper_bound; lia.
Qed.

(* hence the uninterfered C functions, packaged as a heapimpl, meet HeapSpec *)
Definition c_heapimpl : heapimpl pv :=
  mkHI pv_lt pv_dflt
    (fun a e => carr (c_heappush (mkC a None ed false) e))
    (fun a => match c_heappop (mkC a None ed false) with
              | (s, Some e) => Some (e, carr s) | (_, None) => None end)
    (fun a => carr (c_heapify (mkC a None ed false))).

Lemma c_heapimpl_eq :
  (forall a e, PQ.heappush c_heapimpl a e = PQ.heappush HPV a e) /\
  (forall a, PQ.heappop c_heapimpl a = PQ.heappop HPV a) /\
  (forall a, PQ.heapify c_heapimpl a = PQ.heapify HPV a).
Proof.
  repeat split; intros a; intros; simpl;
    destruct (c_sift_equiv a ed) as (_ & _ & Hpush & Hpop & Hfy).
  - rewrite Hpush. reflexivity.
  - rewrite Hpop. destruct (HeapqModel.heappop _ _ a) as [[e0 a']|]; reflexivity.
  - rewrite Hfy. reflexivity.
Qed.

Theorem c_heapq_spec : HeapSpec c_heapimpl.
Proof.
  destruct c_heapimpl_eq as (Epush & Epop & Efy).
  pose proof HPV_spec as HS.
  constructor; intros; rewrite ?Epush, ?Epop, ?Efy in *.
  - apply (hs_push_perm HS).
  - apply (hs_push_heap HS); auto.
  - apply (hs_pop_nil HS).
  - apply (hs_pop_some HS); auto.
  - apply (hs_pop_perm HS); auto.
  - apply (hs_pop_heap HS a e a'); auto.
  - apply (hs_heapify_perm HS).
  - apply (hs_heapify_heap HS).
Qed.

(* ------------------------------------------------------------------ *)
(* Part 2: operations that are not struck.  The foreign append then happens after the
   operation, as an ordinary append (settle): the result is the sequential composition
   "loop-thread operation of PosPQ ; pos_append_pri of the foreign entry". *)

(* the foreign append as a sequential step: object and base priority of the foreign entry;
   sequence number and insertion counter are read when it is executed *)
Definition foreign_append (s : pos) (x : E) : pos := pos_append_pri HPV s (eobj x) (base (epri x)).

Lemma bud_some k b' : bud_ok (Some k) b' -> exists k', b' = Some k'.
Proof. destruct b'; simpl; [eauto | tauto]. Qed.

Lemma unstruck_some r a' k x : unstruck r a' (Some k) x -> exists k', r = mkC a' (Some k') x false.
Proof. intros (b' & -> & Hb). destruct (bud_some _ _ Hb) as [k' ->]. eauto. Qed.

Lemma with_pq_id s : with_pq s (pq_ s) = s.
Proof. destruct s; reflexivity. Qed.

Lemma t_popleft_atomic s k x :
  cerr (fst (c_heappop (start s k x))) = false ->
  t_popleft s k x = match pos_popleft HPV s with
                    | None => mkT (foreign_append s x) TRaise
                    | Some (o, s') => mkT (foreign_append s' x) (TOk o)
                    end.
Proof.
  intros He. unfold t_popleft.
  pose proof (c_heappop_eq (arr (pq_ s)) (Some k) x He) as HH.
  unfold start in *.
  destruct (c_heappop _) as [c r]. simpl in He. rewrite He.
  unfold pos_popleft, pq_popentry.
  change (PQ.heappop HPV (arr (pq_ s))) with (heappop elt ed (arr (pq_ s))).
  destruct (heappop elt ed (arr (pq_ s))) as [[e a']|].
  - destruct HH as [Hr Hu]. simpl in Hr, Hu. subst r.
    destruct (unstruck_some _ _ _ _ Hu) as [k' ->]. reflexivity.
  - inversion HH; subst. reflexivity.
Qed.

Lemma t_append_atomic s o p k x :
  cerr (c_heappush (start s k x) (mkE (mkPV p (n_ins s) 0 1) (seqn (pq_ s)) o)) = false ->
  t_append s o p k x = mkT (foreign_append (pos_append_pri HPV s o p) x) TNone.
Proof.
  intros He. unfold t_append. rewrite He.
  destruct (unstruck_some _ _ _ _ (c_heappush_eq _ _ _ _ He)) as [k' E].
  unfold start in *. rewrite E. unfold settle. cbn [carr cbudget cx]. unfold foreign_append. f_equal.
Qed.

Lemma t_find_remove_atomic s o k x :
  tout_ (t_find_remove s o k x) <> TRaise ->
  t_find_remove s o k x = match pos_find HPV s (Z.eqb o) true with
                          | None => mkT (foreign_append s x) TNone
                          | Some (o', s') => mkT (foreign_append s' x) (TOk o')
                          end.
Proof.
  unfold t_find_remove, pos_find, pq_find.
  destruct (find_last_index (Z.eqb o) (arr (pq_ s))) as [i|] eqn:Hfi; [|reflexivity].
  destruct (find_last_index_some _ _ _ ed Hfi) as [Hi Hk].
  apply Z.eqb_eq in Hk.
  change (edflt HPV) with ed.
  destruct (Nat.eqb i (length (arr (pq_ s)) - 1)); cbv iota beta; rewrite <- Hk; [reflexivity|].
  unfold replace_with_tail. change (edflt HPV) with ed.
  set (a0 := set_nth (removelast (arr (pq_ s))) i (last (arr (pq_ s)) ed)).
  destruct (cerr (c_heapify (mkC a0 (Some k) x false))) eqn:He.
  { simpl. congruence. }
  intros _.
  destruct (unstruck_some _ _ _ _ (c_heapify_eq _ _ _ He)) as [k' E].
  rewrite E. reflexivity.
Qed.

Lemma t_reschedule_atomic s o p k x :
  tout_ (t_reschedule s o p k x) <> TRaise ->
  t_reschedule s o p k x = match pos_reschedule HPV s (Z.eqb o) p with
                           | None => mkT (foreign_append s x) TNone
                           | Some (o', s') => mkT (foreign_append s' x) (TOk o')
                           end.
Proof.
  unfold t_reschedule, pos_reschedule, pos_reschedule_reg, pq_reschedule, pq_find.
  destruct (find_last_index (Z.eqb o) (arr (pq_ s))) as [i|] eqn:Hfi; [|reflexivity].
  destruct (find_last_index_some _ _ _ ed Hfi) as [Hi Hk].
  apply Z.eqb_eq in Hk.
  change (edflt HPV) with ed. cbv iota beta.
  destruct (pclass (epri (nth i (arr (pq_ s)) ed)) =? 0)%Z; [rewrite <- Hk; reflexivity|].
  cbv iota beta.
  change (plt HPV) with pv_lt.
  destruct (pv_lt _ _ || pv_lt _ _).
  2:{ rewrite with_pq_id, <- Hk. reflexivity. }
  rewrite <- Hk.
  set (a0 := set_nth (arr (pq_ s)) i _).
  destruct (cerr (c_heapify (mkC a0 (Some k) x false))) eqn:He.
  { simpl. congruence. }
  intros _.
  destruct (unstruck_some _ _ _ _ (c_heapify_eq _ _ _ He)) as [k' E].
  rewrite E. reflexivity.
Qed.

(* a struck popleft / append raises, so "did not raise" implies "not struck" *)
Lemma t_popleft_struck_raises s k x :
  cerr (fst (c_heappop (start s k x))) = true -> tout_ (t_popleft s k x) = TRaise.
Proof. unfold t_popleft. destruct (c_heappop _) as [c r]. simpl. intros ->. reflexivity. Qed.

Lemma t_append_struck_raises s o p k x :
  cerr (c_heappush (start s k x) (mkE (mkPV p (n_ins s) 0 1) (seqn (pq_ s)) o)) = true ->
  tout_ (t_append s o p k x) = TRaise.
Proof. unfold t_append. intros ->. reflexivity. Qed.

Lemma t_popleft_empty s k x : arr (pq_ s) = [] -> t_popleft s k x = mkT (foreign_append s x) TRaise.
Proof.
  intros Ha. rewrite t_popleft_atomic.
  - unfold pos_popleft, pq_popentry. rewrite Ha. reflexivity.
  - unfold start. rewrite Ha. reflexivity.
Qed.

(* the combined statement: an operation that does not raise (popleft: on a non-empty
   queue) is the sequential composition, and the C17 invariant is kept *)
Theorem t_ops_atomic s k x :
  (arr (pq_ s) <> [] -> tout_ (t_popleft s k x) <> TRaise ->
     exists o s', pos_popleft HPV s = Some (o, s') /\
                  t_popleft s k x = mkT (foreign_append s' x) (TOk o)) /\
  (arr (pq_ s) = [] -> t_popleft s k x = mkT (foreign_append s x) TRaise) /\
  (forall o p, tout_ (t_append s o p k x) <> TRaise ->
     t_append s o p k x = mkT (foreign_append (pos_append_pri HPV s o p) x) TNone) /\
  (forall o, tout_ (t_find_remove s o k x) <> TRaise ->
     t_find_remove s o k x = match pos_find HPV s (Z.eqb o) true with
                             | None => mkT (foreign_append s x) TNone
                             | Some (o', s') => mkT (foreign_append s' x) (TOk o')
                             end) /\
  (forall o p, tout_ (t_reschedule s o p k x) <> TRaise ->
     t_reschedule s o p k x = match pos_reschedule HPV s (Z.eqb o) p with
                              | None => mkT (foreign_append s x) TNone
                              | Some (o', s') => mkT (foreign_append s' x) (TOk o')
                              end).
Proof.
  split; [|split; [|split; [|split]]].
  - intros Hne Hr.
    destruct (cerr (fst (c_heappop (start s k x)))) eqn:He.
    { apply t_popleft_struck_raises in He. congruence. }
    pose proof (t_popleft_atomic s k x He) as HH.
    destruct (pos_popleft HPV s) as [[o s']|] eqn:Hp; [eauto|].
    rewrite HH in Hr. simpl in Hr. congruence.
  - apply t_popleft_empty.
  - intros o p Hr.
    destruct (cerr (c_heappush (start s k x) (mkE (mkPV p (n_ins s) 0 1) (seqn (pq_ s)) o))) eqn:He.
    { apply t_append_struck_raises in He. congruence. }
    apply t_append_atomic; auto.
  - intros o. apply t_find_remove_atomic.
  - intros o p. apply t_reschedule_atomic.
Qed.

Notation PInvH := (PInv HPV).

Lemma foreign_append_inv s x : PInvH s -> PInvH (foreign_append s x).
Proof. unfold foreign_append. apply (append_pri_inv HPV HPV_spec). Qed.

Theorem t_ops_atomic_inv s k x : PInvH s ->
  (tout_ (t_popleft s k x) <> TRaise \/ arr (pq_ s) = [] -> PInvH (tq (t_popleft s k x))) /\
  (forall o p, tout_ (t_append s o p k x) <> TRaise -> PInvH (tq (t_append s o p k x))) /\
  (forall o, tout_ (t_find_remove s o k x) <> TRaise -> PInvH (tq (t_find_remove s o k x))) /\
  (forall o p, tout_ (t_reschedule s o p k x) <> TRaise -> PInvH (tq (t_reschedule s o p k x))).
Proof.
  intros Hinv.
  destruct (t_ops_atomic s k x) as (H1 & H2 & H3 & H4 & H5).
  pose proof (fun s => foreign_append_inv s x) as Happ.
  split; [|split; [|split]].
  - intros [Hr|He].
    + destruct (arr (pq_ s)) eqn:Ha.
      * rewrite (H2 eq_refl). simpl. apply Happ; auto.
      * destruct (H1 ltac:(discriminate) Hr) as (o & s' & Hp & ->). simpl.
        apply Happ. eapply (popleft_inv HPV eq_refl HPV_spec); eauto.
    + rewrite (H2 He). simpl. apply Happ; auto.
  - intros o p Hr. rewrite (H3 o p Hr). simpl. apply Happ.
    apply (append_pri_inv HPV HPV_spec); auto.
  - intros o Hr. rewrite (H4 o Hr).
    destruct (pos_find HPV s (Z.eqb o) true) as [[o' s']|] eqn:Hf; simpl; apply Happ; auto.
    eapply (find_inv_pos HPV HPV_spec); eauto.
  - intros o p Hr. rewrite (H5 o p Hr).
    destruct (pos_reschedule HPV s (Z.eqb o) p) as [[o' s']|] eqn:Hf; simpl; apply Happ; auto.
    eapply (reschedule_inv_pos HPV HPV_spec); eauto.
Qed.

(* ------------------------------------------------------------------ *)
(* Part 4: what a strike does.  Whatever the comparison during which the foreign append
   happens, the C function stops with the array "some permutation of the array it was
   working on, plus the foreign entry pushed", and reports the error. *)
Definition struck_from (r : cst) (a : list E) (x : E) : Prop :=
  exists a1, r = mkC (push_atomic a1 x) None x true /\ Permutation a1 a.

Lemma cswap_perm a b x e i j :
  i <> j -> i < length a -> j < length a ->
  exists a', cswap (mkC a b x e) i j = mkC a' b x e /\ Permutation a' a /\ length a' = length a.
Proof.
  intros Hne Hi Hj. unfold cswap, cget. simpl. eexists. split; [reflexivity|]. split.
  - eapply perm_trans; [apply (perm_set_swap elt ed Elt_asym Ele_trans); auto|].
    rewrite set_nth_nth_id; auto.
  - rewrite !set_nth_length. reflexivity.
Qed.

Lemma ccmp_cases a b x u v :
  ccmp (mkC a b x false) u v = (mkC (push_atomic a x) None x true, elt u v) \/
  exists b', ccmp (mkC a b x false) u v = (mkC a b' x false, elt u v).
Proof.
  destruct b as [[|n]|]; unfold ccmp; cbn [cbudget carr cx].
  - left. reflexivity.
  - right. exists (Some n). reflexivity.
  - right. exists None. reflexivity.
Qed.

Lemma struck_from_perm r a a' x : struck_from r a' x -> Permutation a' a -> struck_from r a x.
Proof. intros (a1 & E & Hp) Hp'. exists a1. split; auto. eapply perm_trans; eauto. Qed.

Lemma c_siftdown_struck fuel : forall a b x sp pos,
  pos < length a ->
  let r := c_siftdown fuel (mkC a b x false) sp pos in
  cerr r = true -> struck_from r a x.
Proof.
  induction fuel as [|fuel IH]; intros a b x sp pos Hp r; subst r; [simpl; discriminate|].
  cbn [c_siftdown].
  destruct (Nat.ltb sp pos) eqn:Hlt; [|simpl; discriminate].
  apply Nat.ltb_lt in Hlt.
  set (pp := Nat.div2 (pos - 1)).
  assert (Hpp : pp < pos) by (unfold pp; rewrite Nat.div2_div; lia).
  destruct (ccmp_cases a b x (cget (mkC a b x false) pos) (cget (mkC a b x false) pp)) as [Hc|[b' Hc]];
    rewrite Hc; cbn [cerr].
  - intros _. exists a. split; auto.
  - destruct (elt _ _); [|simpl; discriminate].
    destruct (cswap_perm a b' x false pp pos) as (a' & -> & Hperm & Hlen); try lia.
    intros Hr. eapply struck_from_perm; [apply IH; auto; lia | exact Hperm].
Qed.

(* the sift-up loop either is struck, or ends unstruck on a permutation *)
Lemma c_siftup_loop_cases fuel : forall a b x endpos pos,
  pos < length a -> endpos <= length a ->
  let r := c_siftup_loop fuel (mkC a b x false) endpos pos in
  (cerr (fst r) = true /\ struck_from (fst r) a x) \/
  (exists a' b', fst r = mkC a' b' x false /\ Permutation a' a /\ snd r < length a).
Proof.
  induction fuel as [|fuel IH]; intros a b x endpos pos Hp He r; subst r.
  { right. exists a, b. simpl. auto. }
  cbn [c_siftup_loop]. rewrite div2_cond.
  destruct (Nat.ltb (2 * pos + 1) endpos) eqn:Hlt.
  2:{ right. exists a, b. simpl. auto. }
  apply Nat.ltb_lt in Hlt.
  set (cp := 2 * pos + 1) in *.
  destruct (Nat.ltb (cp + 1) endpos) eqn:Hr.
  - apply Nat.ltb_lt in Hr.
    destruct (ccmp_cases a b x (cget (mkC a b x false) cp) (cget (mkC a b x false) (cp + 1)))
      as [Hc|[b' Hc]]; rewrite Hc; cbn [cerr].
    + left. simpl. split; auto. exists a. split; auto.
    + set (c := if elt _ _ then cp else cp + 1).
      assert (Hc1 : c < endpos) by (unfold c; destruct (elt _ _); lia).
      assert (Hc2 : c <> pos) by (unfold c, cp; destruct (elt _ _); lia).
      destruct (cswap_perm a b' x false c pos) as (a' & -> & Hperm & Hlen); try lia.
      destruct (IH a' b' x endpos c) as [[H1 H2]|(a'' & b'' & H1 & H2 & H3)]; try lia.
      * left. split; auto. eapply struck_from_perm; eauto.
      * right. exists a'', b''. split; auto. split; [eapply perm_trans; eauto | lia].
  - apply Nat.ltb_ge in Hr.
    destruct (cswap_perm a b x false cp pos) as (a' & -> & Hperm & Hlen); try (unfold cp; lia).
    destruct (IH a' b x endpos cp) as [[H1 H2]|(a'' & b'' & H1 & H2 & H3)]; try lia.
    * left. split; auto. eapply struck_from_perm; eauto.
    * right. exists a'', b''. split; auto. split; [eapply perm_trans; eauto | lia].
Qed.

Lemma c_siftup_struck a b x pos :
  pos < length a ->
  let r := c_siftup (mkC a b x false) pos in
  cerr r = true -> struck_from r a x.
Proof.
  intros Hp r. subst r. unfold c_siftup. simpl carr.
  pose proof (c_siftup_loop_cases (length a) a b x (length a) pos Hp (le_n _)) as HC.
  destruct (c_siftup_loop (length a) (mkC a b x false) (length a) pos) as [s p].
  cbn [fst snd] in HC.
  destruct HC as [[H1 H2]|(a' & b' & H1 & H2 & H3)].
  - rewrite H1. auto.
  - subst s. cbn [cerr]. intros Hr.
    eapply struck_from_perm; [|exact H2].
    apply (c_siftdown_struck (S p)); auto. rewrite (Permutation_length H2). auto.
Qed.

Lemma c_heappush_struck a b x e :
  let r := c_heappush (mkC a b x false) e in
  cerr r = true -> struck_from r (a ++ [e]) x.
Proof.
  intros r Hr. subst r. unfold c_heappush in *. simpl in *.
  apply c_siftdown_struck; auto. rewrite app_length. simpl. lia.
Qed.

(* heappop: the head has already been overwritten by the tail element when sifting starts *)
Lemma c_heappop_struck a b x :
  let r := c_heappop (mkC a b x false) in
  cerr (fst r) = true -> snd r = None /\ struck_from (fst r) (tl a) x.
Proof.
  intros r Hr. subst r. unfold c_heappop in *. simpl carr in *.
  destruct (rev a) as [|lastelt t] eqn:Ha; [simpl in Hr; discriminate|].
  assert (Ea : a = rev t ++ [lastelt]).
  { rewrite <- (rev_involutive a), Ha. reflexivity. }
  destruct (rev t) as [|ret t'] eqn:Hrev; [simpl in Hr; discriminate|].
  simpl cbudget in *. simpl cx in *. simpl cerr in *. simpl fst in *. simpl snd.
  rewrite Hr. split; auto.
  eapply struck_from_perm.
  - apply c_siftup_struck; auto. simpl. lia.
  - subst a. simpl. apply Permutation_cons_append.
Qed.

Lemma c_heapify_loop_struck i : forall a b x,
  i <= length a ->
  let r := c_heapify_loop i (mkC a b x false) in
  cerr r = true -> struck_from r a x.
Proof.
  induction i as [|i IH]; intros a b x Hi r; subst r; [simpl; discriminate|].
  cbn [c_heapify_loop].
  assert (Hp : i < length a) by lia.
  destruct (cerr (c_siftup (mkC a b x false) i)) eqn:He.
  - intros _. apply c_siftup_struck; auto.
  - destruct (c_siftup_eq a b x i Hp He) as (b' & E & _). rewrite E.
    intros Hr.
    assert (Hperm : Permutation (siftup elt ed a i) a)
      by (apply (siftup_perm elt ed Elt_asym Ele_trans); auto).
    eapply struck_from_perm; [|exact Hperm].
    apply IH; auto. rewrite (Permutation_length Hperm). lia.
Qed.

Lemma c_heapify_struck a b x :
  let r := c_heapify (mkC a b x false) in
  cerr r = true -> struck_from r a x.
Proof.
  intros r. apply c_heapify_loop_struck. simpl.
  rewrite Nat.div2_div. apply Nat.div_le_upper_bound; lia.
Qed.

Lemma push_atomic_perm a x : Permutation (push_atomic a x) (x :: a).
Proof. apply (heappush_perm elt ed Elt_asym Ele_trans). Qed.

Lemma struck_arr r a x : struck_from r a x -> Permutation (carr r) (x :: a).
Proof.
  intros (a1 & -> & Hp). simpl. eapply perm_trans; [apply push_atomic_perm|]. auto.
Qed.

(* the foreign thread's own bookkeeping does not touch the array when boosting is off *)
Lemma foreign_done_arr s a :
  boost_off s ->
  arr (pq_ (foreign_done (with_arr s a))) = a /\
  seqn (pq_ (foreign_done (with_arr s a))) = (seqn (pq_ s) + 1)%Z.
Proof.
  intros Hf. unfold foreign_done.
  match goal with |- context [update_counters HPV ?s0 true] =>
    destruct (update_counters_off HPV s0 true Hf) as [E _]; rewrite E end.
  simpl. auto.
Qed.

(* at least one comparison happens: popleft on >= 3 entries, append on >= 1 entry *)
Lemma c_heappop_strike0 a x :
  3 <= length a -> cerr (fst (c_heappop (mkC a (Some 0) x false))) = true.
Proof.
  intros Hl. unfold c_heappop. simpl carr.
  destruct (rev a) as [|lastelt t] eqn:Ha.
  { apply (f_equal (@length E)) in Ha. rewrite rev_length in Ha. simpl in Ha. lia. }
  assert (Hlt : length t = length a - 1).
  { apply (f_equal (@length E)) in Ha. rewrite rev_length in Ha. simpl in Ha. lia. }
  rewrite <- (rev_length t) in Hlt.
  destruct (rev t) as [|ret [|t1 [|t2 t']]]; simpl in Hlt; try lia; reflexivity.
Qed.

Lemma c_heappush_strike0 a x e :
  1 <= length a -> cerr (c_heappush (mkC a (Some 0) x false) e) = true.
Proof.
  intros Hl. unfold c_heappush. simpl. rewrite app_length. simpl.
  replace (length a + 1) with (S (length a)) by lia.
  cbn [c_siftdown]. replace (S (length a) - 1) with (length a) by lia.
  destruct (Nat.ltb 0 (length a)) eqn:E; [reflexivity|]. apply Nat.ltb_ge in E. lia.
Qed.

(* popleft struck (during any comparison): RuntimeError escapes, the array afterwards is
   the foreign entry plus everything except the head entry: the entry being popped is lost *)
Theorem t_popleft_struck s k x :
  boost_off s ->
  cerr (fst (c_heappop (start s k x))) = true ->
  let r := t_popleft s k x in
  tout_ r = TRaise /\
  Permutation (arr (pq_ (tq r))) (x :: tl (arr (pq_ s))) /\
  seqn (pq_ (tq r)) = (seqn (pq_ s) + 1)%Z.
Proof.
  intros Hf He r. subst r.
  destruct (c_heappop_struck (arr (pq_ s)) (Some k) x He) as [_ Hs].
  unfold t_popleft. unfold start in *.
  destruct (c_heappop _) as [c o]. simpl in He, Hs. rewrite He. simpl.
  destruct (foreign_done_arr s (carr c) Hf) as [-> ->].
  split; auto. split; auto. apply struck_arr; auto.
Qed.

Theorem t_append_struck s o p k x :
  boost_off s ->
  let e := mkE (mkPV p (n_ins s) 0 1) (seqn (pq_ s)) o in
  cerr (c_heappush (start s k x) e) = true ->
  let r := t_append s o p k x in
  tout_ r = TRaise /\
  Permutation (arr (pq_ (tq r))) (x :: e :: arr (pq_ s)) /\
  seqn (pq_ (tq r)) = (seqn (pq_ s) + 1)%Z.
Proof.
  intros Hf e He r. subst r.
  pose proof (c_heappush_struck (arr (pq_ s)) (Some k) x e He) as Hs.
  unfold t_append. fold e. unfold start in *. rewrite He. simpl.
  destruct (foreign_done_arr s (carr (c_heappush (mkC (arr (pq_ s)) (Some k) x false) e)) Hf) as [-> ->].
  split; auto. split; auto.
  eapply perm_trans; [apply struck_arr; eauto|].
  apply perm_skip. apply Permutation_sym, Permutation_cons_append.
Qed.

(* Part 4 as asked: a strike during comparison 0 *)
Theorem strike_always_raises s x :
  PInvH s ->
  (3 <= length (arr (pq_ s)) ->
     let r := t_popleft s 0 x in
     tout_ r = TRaise /\
     Permutation (arr (pq_ (tq r))) (x :: tl (arr (pq_ s))) /\
     (~ In x (arr (pq_ s)) -> ~ In (hd ed (arr (pq_ s))) (arr (pq_ (tq r))))) /\
  (forall o p, 1 <= length (arr (pq_ s)) ->
     let e := mkE (mkPV p (n_ins s) 0 1) (seqn (pq_ s)) o in
     let r := t_append s o p 0 x in
     tout_ r = TRaise /\
     Permutation (arr (pq_ (tq r))) (x :: e :: arr (pq_ s)) /\
     seqn (pq_ (tq r)) = (seqn (pq_ s) + 1)%Z /\
     (eseq x = seqn (pq_ s) -> x <> e -> ~ NoDup (map eseq (arr (pq_ (tq r)))))).
Proof.
  intros (Hinv & Hf & _). split.
  - intros Hl r.
    destruct (t_popleft_struck s 0 x Hf (c_heappop_strike0 _ x Hl)) as (H1 & H2 & _).
    fold r in H1, H2. split; auto. split; auto.
    intros Hnx Hin.
    eapply Permutation_in in Hin; [|exact H2].
    destruct Hinv as (_ & Hnd & _).
    destruct (arr (pq_ s)) as [|h t]; [simpl in Hl; lia|]. simpl in *.
    destruct Hin as [<-|Hin]; [tauto|].
    inversion Hnd; subst. apply H3. apply in_map. auto.
  - intros o p Hl e r.
    destruct (t_append_struck s o p 0 x Hf (c_heappush_strike0 _ x e Hl)) as (H1 & H2 & H3).
    fold r in H1, H2, H3. repeat split; auto.
    intros Hx Hne Hnd.
    apply (Permutation_map eseq) in H2.
    eapply Permutation_NoDup in Hnd; [|exact H2].
    simpl in Hnd. inversion Hnd; subst. apply H4. left. auto.
Qed.

(* find+remove / reschedule struck inside their heapify: RuntimeError escapes; no entry is
   lost or duplicated (the removal / re-prioritisation itself took effect and the foreign
   entry is there), but the heapify was abandoned half-way *)
Theorem t_find_remove_struck s o k x :
  boost_off s ->
  let r := t_find_remove s o k x in
  tout_ r = TRaise ->
  exists i, find_last_index (Z.eqb o) (arr (pq_ s)) = Some i /\
            Permutation (nth i (arr (pq_ s)) ed :: arr (pq_ (tq r))) (x :: arr (pq_ s)) /\
            seqn (pq_ (tq r)) = (seqn (pq_ s) + 1)%Z.
Proof.
  intros Hf r. subst r. unfold t_find_remove.
  destruct (find_last_index (Z.eqb o) (arr (pq_ s))) as [i|] eqn:Hfi; [|simpl; discriminate].
  destruct (find_last_index_some _ _ _ ed Hfi) as [Hi _].
  destruct (Nat.eqb i (length (arr (pq_ s)) - 1)) eqn:Hlast; [simpl; discriminate|].
  apply Nat.eqb_neq in Hlast.
  set (a0 := set_nth (removelast (arr (pq_ s))) i (last (arr (pq_ s)) ed)).
  destruct (cerr (c_heapify (mkC a0 (Some k) x false))) eqn:He.
  2:{ destruct (unstruck_some _ _ _ _ (c_heapify_eq _ _ _ He)) as [k' E]. rewrite E.
      simpl. discriminate. }
  intros _. exists i. split; auto. simpl.
  destruct (foreign_done_arr s (carr (c_heapify (mkC a0 (Some k) x false))) Hf) as [-> ->].
  split; auto.
  pose proof (struck_arr _ _ _ (c_heapify_struck a0 (Some k) x He)) as Hp.
  eapply perm_trans; [apply perm_skip, Hp|].
  eapply perm_trans; [apply perm_swap|]. apply perm_skip.
  apply Permutation_sym, perm_replace_with_tail. lia.
Qed.

Theorem t_reschedule_struck s o p k x :
  boost_off s ->
  let r := t_reschedule s o p k x in
  tout_ r = TRaise ->
  exists i, find_last_index (Z.eqb o) (arr (pq_ s)) = Some i /\
            let e := nth i (arr (pq_ s)) ed in
            Permutation (arr (pq_ (tq r)))
                        (x :: set_nth (arr (pq_ s)) i (mkE (mkPV p (n_ins s) 0 1) (eseq e) (eobj e))) /\
            seqn (pq_ (tq r)) = (seqn (pq_ s) + 1)%Z.
Proof.
  intros Hf r. subst r. unfold t_reschedule.
  destruct (find_last_index (Z.eqb o) (arr (pq_ s))) as [i|] eqn:Hfi; [|simpl; discriminate].
  destruct (pclass (epri (nth i (arr (pq_ s)) ed)) =? 0)%Z; [simpl; discriminate|].
  destruct (pv_lt _ _ || pv_lt _ _); [|simpl; discriminate].
  set (a0 := set_nth (arr (pq_ s)) i _).
  destruct (cerr (c_heapify (mkC a0 (Some k) x false))) eqn:He.
  2:{ destruct (unstruck_some _ _ _ _ (c_heapify_eq _ _ _ He)) as [k' E]. rewrite E.
      simpl. discriminate. }
  intros _. exists i. split; auto. simpl.
  destruct (foreign_done_arr s (carr (c_heapify (mkC a0 (Some k) x false))) Hf) as [-> ->].
  split; auto.
  apply (struck_arr _ _ _ (c_heapify_struck a0 (Some k) x He)).
Qed.

(* ------------------------------------------------------------------ *)
(* struck <-> the budget was used up: the hypotheses "cerr = false" used above say exactly
   that the operation ended with cbudget = Some _ (k at least the number of comparisons) *)
Lemma heappop_unstruck_iff s k x :
  let c := fst (c_heappop (start s k x)) in
  cerr c = false <-> exists k', cbudget c = Some k'.
Proof.
  intros c. subst c. split.
  - intros He. pose proof (c_heappop_eq (arr (pq_ s)) (Some k) x He) as HH.
    unfold start in *. destruct (heappop elt ed (arr (pq_ s))) as [[e a']|].
    + destruct HH as [_ Hu]. destruct (unstruck_some _ _ _ _ Hu) as [k' ->]. simpl. eauto.
    + rewrite HH. simpl. eauto.
  - intros [k' Hk]. destruct (cerr (fst (c_heappop (start s k x)))) eqn:He; auto.
    destruct (c_heappop_struck (arr (pq_ s)) (Some k) x He) as [_ (a1 & E & _)].
    unfold start in *. rewrite E in Hk. discriminate.
Qed.

Lemma heappush_unstruck_iff s k x e :
  let c := c_heappush (start s k x) e in
  cerr c = false <-> exists k', cbudget c = Some k'.
Proof.
  intros c. subst c. split.
  - intros He. destruct (unstruck_some _ _ _ _ (c_heappush_eq _ _ _ _ He)) as [k' E].
    unfold start in *. rewrite E. simpl. eauto.
  - intros [k' Hk]. destruct (cerr (c_heappush (start s k x) e)) eqn:He; auto.
    destruct (c_heappush_struck (arr (pq_ s)) (Some k) x e He) as (a1 & E & _).
    unfold start in *. rewrite E in Hk. discriminate.
Qed.

Lemma heapify_unstruck_iff a k x :
  let c := c_heapify (mkC a (Some k) x false) in
  cerr c = false <-> exists k', cbudget c = Some k'.
Proof.
  intros c. subst c. split.
  - intros He. destruct (unstruck_some _ _ _ _ (c_heapify_eq _ _ _ He)) as [k' E].
    rewrite E. simpl. eauto.
  - intros [k' Hk]. destruct (cerr (c_heapify (mkC a (Some k) x false))) eqn:He; auto.
    destruct (c_heapify_struck a (Some k) x He) as (a1 & E & _).
    rewrite E in Hk. discriminate.
Qed.

(* Part 2 in the form "the operation ended with some budget left" *)
Theorem t_atomic_budget s k x :
  (forall k', cbudget (fst (c_heappop (start s k x))) = Some k' ->
     t_popleft s k x = match pos_popleft HPV s with
                       | None => mkT (foreign_append s x) TRaise
                       | Some (o, s') => mkT (foreign_append s' x) (TOk o)
                       end) /\
  (forall o p k',
     cbudget (c_heappush (start s k x) (mkE (mkPV p (n_ins s) 0 1) (seqn (pq_ s)) o)) = Some k' ->
     t_append s o p k x = mkT (foreign_append (pos_append_pri HPV s o p) x) TNone) /\
  (cerr (fst (c_heappop (start s k x))) = false <->
     exists k', cbudget (fst (c_heappop (start s k x))) = Some k').
Proof.
  split; [|split].
  - intros k' Hk. apply t_popleft_atomic. apply heappop_unstruck_iff. eauto.
  - intros o p k' Hk. apply t_append_atomic. apply heappush_unstruck_iff. eauto.
  - apply heappop_unstruck_iff.
Qed.

(* Part 4 for a strike during any comparison, all four operations *)
Theorem strike_any_comparison s k x :
  boost_off s ->
  (cerr (fst (c_heappop (start s k x))) = true ->
     let r := t_popleft s k x in
     tout_ r = TRaise /\ Permutation (arr (pq_ (tq r))) (x :: tl (arr (pq_ s))) /\
     seqn (pq_ (tq r)) = (seqn (pq_ s) + 1)%Z) /\
  (forall o p,
     let e := mkE (mkPV p (n_ins s) 0 1) (seqn (pq_ s)) o in
     cerr (c_heappush (start s k x) e) = true ->
     let r := t_append s o p k x in
     tout_ r = TRaise /\ Permutation (arr (pq_ (tq r))) (x :: e :: arr (pq_ s)) /\
     seqn (pq_ (tq r)) = (seqn (pq_ s) + 1)%Z) /\
  (forall o,
     let r := t_find_remove s o k x in
     tout_ r = TRaise ->
     exists i, find_last_index (Z.eqb o) (arr (pq_ s)) = Some i /\
               Permutation (nth i (arr (pq_ s)) ed :: arr (pq_ (tq r))) (x :: arr (pq_ s)) /\
               seqn (pq_ (tq r)) = (seqn (pq_ s) + 1)%Z) /\
  (forall o p,
     let r := t_reschedule s o p k x in
     tout_ r = TRaise ->
     exists i, find_last_index (Z.eqb o) (arr (pq_ s)) = Some i /\
               let e := nth i (arr (pq_ s)) ed in
               Permutation (arr (pq_ (tq r)))
                 (x :: set_nth (arr (pq_ s)) i (mkE (mkPV p (n_ins s) 0 1) (eseq e) (eobj e))) /\
               seqn (pq_ (tq r)) = (seqn (pq_ s) + 1)%Z).
Proof.
  intros Hf. split; [|split; [|split]].
  - apply t_popleft_struck; auto.
  - intros o p. apply t_append_struck; auto.
  - intros o. apply t_find_remove_struck; auto.
  - intros o p. apply t_reschedule_struck; auto.
Qed.

(* ------------------------------------------------------------------ *)
(* whole runs: every loop-thread operation is accompanied by one foreign append that may
   strike during comparison k of that operation *)
Inductive lop := LPop | LApp (o : Z) (p : Q) | LFindRemove (o : Z) | LResched (o : Z) (p : Q).

Definition t_op (s : pos) (op : lop) (k : nat) (x : E) : tres :=
  match op with
  | LPop => t_popleft s k x
  | LApp o p => t_append s o p k x
  | LFindRemove o => t_find_remove s o k x
  | LResched o p => t_reschedule s o p k x
  end.

(* the same operation in the sequential model of C17 (Queue/PosPQ.v) *)
Definition seq_op (s : pos) (op : lop) : pos * tout :=
  match op with
  | LPop => match pos_popleft HPV s with None => (s, TRaise) | Some (o, s') => (s', TOk o) end
  | LApp o p => (pos_append_pri HPV s o p, TNone)
  | LFindRemove o => match pos_find HPV s (Z.eqb o) true with
                     | None => (s, TNone) | Some (o', s') => (s', TOk o') end
  | LResched o p => match pos_reschedule HPV s (Z.eqb o) p with
                    | None => (s, TNone) | Some (o', s') => (s', TOk o') end
  end.

(* the foreign append did not happen inside the operation: nothing was raised, except the
   IndexError of popleft on an empty queue (which performs no comparison) *)
Definition between (s : pos) (op : lop) (k : nat) (x : E) : Prop :=
  tout_ (t_op s op k x) <> TRaise \/ (op = LPop /\ arr (pq_ s) = []).

Theorem t_op_atomic s op k x :
  between s op k x ->
  t_op s op k x = mkT (foreign_append (fst (seq_op s op)) x) (snd (seq_op s op)).
Proof.
  destruct (t_ops_atomic s k x) as (H1 & H2 & H3 & H4 & H5).
  intros [Hr|[-> He]].
  - destruct op as [|o p|o|o p]; simpl in *.
    + destruct (arr (pq_ s)) eqn:Ha.
      * rewrite (H2 eq_refl). unfold pos_popleft, pq_popentry. rewrite Ha. reflexivity.
      * destruct (H1 ltac:(discriminate) Hr) as (o & s' & -> & ->). reflexivity.
    + apply H3; auto.
    + rewrite (H4 o Hr). destruct (pos_find HPV s (Z.eqb o) true) as [[o' s']|]; reflexivity.
    + rewrite (H5 o p Hr). destruct (pos_reschedule HPV s (Z.eqb o) p) as [[o' s']|]; reflexivity.
  - simpl. rewrite (H2 He). unfold pos_popleft, pq_popentry. rewrite He. reflexivity.
Qed.

Lemma seq_op_inv s op : PInvH s -> PInvH (fst (seq_op s op)).
Proof.
  intros Hinv. destruct op as [|o p|o|o p]; simpl.
  - destruct (pos_popleft HPV s) as [[o s']|] eqn:Hp; simpl; auto.
    eapply (popleft_inv HPV eq_refl HPV_spec); eauto.
  - apply (append_pri_inv HPV HPV_spec); auto.
  - destruct (pos_find HPV s (Z.eqb o) true) as [[o' s']|] eqn:Hf; simpl; auto.
    eapply (find_inv_pos HPV HPV_spec); eauto.
  - destruct (pos_reschedule HPV s (Z.eqb o) p) as [[o' s']|] eqn:Hf; simpl; auto.
    eapply (reschedule_inv_pos HPV HPV_spec); eauto.
Qed.

Fixpoint t_run (s : pos) (h : list (lop * nat * E)) : pos * list tout :=
  match h with
  | [] => (s, [])
  | (op, k, x) :: h' =>
      let r := t_op s op k x in
      let '(s', outs) := t_run (tq r) h' in (s', tout_ r :: outs)
  end.

(* the sequential history: loop-thread operation, then the foreign append, and so on *)
Fixpoint seq_run (s : pos) (h : list (lop * nat * E)) : pos * list tout :=
  match h with
  | [] => (s, [])
  | (op, k, x) :: h' =>
      let '(s', outs) := seq_run (foreign_append (fst (seq_op s op)) x) h' in
      (s', snd (seq_op s op) :: outs)
  end.

Fixpoint all_between (s : pos) (h : list (lop * nat * E)) : Prop :=
  match h with
  | [] => True
  | (op, k, x) :: h' => between s op k x /\ all_between (tq (t_op s op k x)) h'
  end.

Theorem t_run_sequential h : forall s,
  all_between s h ->
  t_run s h = seq_run s h /\ (PInvH s -> PInvH (fst (t_run s h))).
Proof.
  induction h as [|[[op k] x] h IH]; intros s Hb; simpl.
  - auto.
  - destruct Hb as [Hb Hrest].
    pose proof (t_op_atomic s op k x Hb) as E.
    destruct (IH _ Hrest) as [IH1 IH2].
    rewrite E in IH1, IH2 |- *. simpl in *.
    rewrite IH1.
    destruct (seq_run (foreign_append (fst (seq_op s op)) x) h) as [s' outs] eqn:Hs.
    split; auto. simpl. intros Hinv.
    rewrite IH1 in IH2. simpl in IH2. apply IH2.
    apply (append_pri_inv HPV HPV_spec). apply seq_op_inv. auto.
Qed.

(* ------------------------------------------------------------------ *)
(* Part 3: the scheduling loops keep the stock collections.deque as ready queue.
   TRUSTED FACT (not modelled): deque.append / popleft / insert / remove / __delitem__ are
   single C calls that never run Python code of another thread while they hold the GIL
   (handles are compared by identity), so a foreign append can only happen BETWEEN two
   loop-thread operations.  An interleaving therefore IS a list of events, each applied
   atomically to the list; the statement below holds for every such list. *)
Inductive item := Fo (x : Z) | Lo (y : Z).          (* submitted by a foreign thread / by the loop thread *)
Definition is_foreign (i : item) : bool := match i with Fo _ => true | Lo _ => false end.

Inductive dev :=
| Foreign (x : Z)                (* call_soon_threadsafe from another thread: ready.append *)
| LoopPop                        (* _run_once: ready.popleft() (nothing when empty) *)
| LoopAppend (y : Z)             (* call_soon *)
| LoopInsert (k : nat) (y : Z)   (* ready.insert(k, handle) *)
| LoopRemove (i : nat).          (* removal of the entry found at index i (no-op when out of range) *)

Record dst := mkD { dq : list item; dpopped : list item; dremoved : list item }.

Definition dstep (s : dst) (e : dev) : dst :=
  match e with
  | Foreign x => mkD (dq s ++ [Fo x]) (dpopped s) (dremoved s)
  | LoopPop => match dq s with
               | [] => s
               | h :: t => mkD t (dpopped s ++ [h]) (dremoved s)
               end
  | LoopAppend y => mkD (dq s ++ [Lo y]) (dpopped s) (dremoved s)
  | LoopInsert k y => mkD (insert_nth (dq s) k (Lo y)) (dpopped s) (dremoved s)
  | LoopRemove i => match nth_error (dq s) i with
                    | None => s
                    | Some it => mkD (remove_nth (dq s) i) (dpopped s) (dremoved s ++ [it])
                    end
  end.
Definition drun (evs : list dev) (s : dst) : dst := fold_left dstep evs s.

(* everything that was submitted, in submission order; the foreign submissions *)
Definition submitted (evs : list dev) : list item :=
  flat_map (fun e => match e with
                     | Foreign x => [Fo x] | LoopAppend y => [Lo y] | LoopInsert _ y => [Lo y]
                     | _ => [] end) evs.
Definition foreigns (evs : list dev) : list Z :=
  flat_map (fun e => match e with Foreign x => [x] | _ => [] end) evs.

Definition accounted (s : dst) : list item := dpopped s ++ dremoved s ++ dq s.
(* foreign entries among executed-or-still-queued, in execution order *)
Definition fexec (s : dst) : list item := filter is_foreign (dpopped s ++ dq s).

Inductive subseq {A} : list A -> list A -> Prop :=
| ss_nil : subseq [] []
| ss_skip l1 l2 a : subseq l1 l2 -> subseq l1 (a :: l2)
| ss_take l1 l2 a : subseq l1 l2 -> subseq (a :: l1) (a :: l2).

Lemma subseq_refl {A} (l : list A) : subseq l l.
Proof. induction l; [apply ss_nil | apply ss_take; auto]. Qed.

Lemma subseq_trans {A} (l1 l2 l3 : list A) : subseq l1 l2 -> subseq l2 l3 -> subseq l1 l3.
Proof.
  intros H12 H23. revert l1 H12. induction H23; intros l0 H12.
  - exact H12.
  - apply ss_skip. auto.
  - inversion H12; subst.
    + apply ss_skip. auto.
    + apply ss_take. auto.
Qed.

Lemma subseq_app {A} (l1 l2 m1 m2 : list A) :
  subseq l1 l2 -> subseq m1 m2 -> subseq (l1 ++ m1) (l2 ++ m2).
Proof. induction 1; simpl; intros; auto; [apply ss_skip | apply ss_take]; auto. Qed.

Lemma subseq_length {A} (l1 l2 : list A) : subseq l1 l2 -> length l1 <= length l2.
Proof. induction 1; simpl; lia. Qed.

Lemma subseq_length_eq {A} (l1 l2 : list A) : subseq l1 l2 -> length l1 = length l2 -> l1 = l2.
Proof.
  induction 1; simpl; intros Hl; auto.
  - apply subseq_length in H. lia.
  - f_equal. auto.
Qed.

Lemma subseq_filter_remove_nth {A} (f : A -> bool) (l : list A) : forall i,
  subseq (filter f (remove_nth l i)) (filter f l).
Proof.
  induction l as [|a l IH]; intros [|i]; simpl; try apply subseq_refl.
  - destruct (f a); [apply ss_skip|]; apply subseq_refl.
  - destruct (f a); [apply ss_take|]; apply IH.
Qed.

Lemma perm_insert_nth {A} (l : list A) : forall k x, Permutation (insert_nth l k x) (x :: l).
Proof.
  induction l as [|a l IH]; intros [|k] x; simpl; auto.
  eapply perm_trans; [apply perm_skip, IH|]. apply perm_swap.
Qed.

Lemma filter_insert_nth_false {A} (f : A -> bool) (l : list A) : forall k x,
  f x = false -> filter f (insert_nth l k x) = filter f l.
Proof.
  induction l as [|a l IH]; intros [|k] x Hx; simpl; rewrite ?Hx; auto.
  rewrite IH by auto. reflexivity.
Qed.

Lemma perm_remove_nth_error {A} (l : list A) : forall i x,
  nth_error l i = Some x -> Permutation l (x :: remove_nth l i).
Proof.
  induction l as [|a l IH]; intros [|i] x Hx; simpl in *; try discriminate.
  - inversion Hx; subst. auto.
  - eapply perm_trans; [apply perm_skip, IH; eauto|]. apply perm_swap.
Qed.

(* one step: accounting *)
Lemma dstep_accounted s e :
  Permutation (accounted (dstep s e)) (accounted s ++ submitted [e]).
Proof.
  unfold accounted. destruct e as [x| |y|k y|i]; simpl.
  - rewrite <- !app_assoc. reflexivity.
  - rewrite app_nil_r. destruct (dq s) as [|h t] eqn:Hq; simpl; [rewrite Hq; reflexivity|].
    rewrite <- !app_assoc. simpl. apply Permutation_app_head, Permutation_middle.
  - rewrite <- !app_assoc. reflexivity.
  - rewrite <- !app_assoc. do 2 apply Permutation_app_head.
    eapply perm_trans; [apply perm_insert_nth | apply Permutation_cons_append].
  - rewrite app_nil_r. destruct (nth_error (dq s) i) as [it|] eqn:Hn; simpl; [|reflexivity].
    rewrite <- !app_assoc. simpl. do 2 apply Permutation_app_head.
    apply Permutation_sym, perm_remove_nth_error. auto.
Qed.

Lemma submitted_cons e evs : submitted (e :: evs) = submitted [e] ++ submitted evs.
Proof. unfold submitted. simpl. rewrite app_nil_r. reflexivity. Qed.

Lemma drun_cons e evs s : drun (e :: evs) s = drun evs (dstep s e).
Proof. reflexivity. Qed.

Lemma drun_accounted evs : forall s,
  Permutation (accounted (drun evs s)) (accounted s ++ submitted evs).
Proof.
  induction evs as [|e evs IH]; intros s.
  - simpl. rewrite app_nil_r. reflexivity.
  - rewrite drun_cons. eapply perm_trans; [apply IH|].
    rewrite (submitted_cons e evs), app_assoc.
    apply Permutation_app_tail. apply dstep_accounted.
Qed.

(* one step: order of the foreign entries *)
Lemma dstep_fexec s e :
  match e with
  | Foreign x => fexec (dstep s e) = fexec s ++ [Fo x]
  | _ => subseq (fexec (dstep s e)) (fexec s)
  end.
Proof.
  unfold fexec. destruct e as [x| |y|k y|i]; simpl.
  - rewrite app_assoc, filter_app. reflexivity.
  - destruct (dq s) as [|h t] eqn:Hq; simpl; [rewrite Hq; apply subseq_refl|].
    rewrite <- app_assoc. simpl. apply subseq_refl.
  - rewrite app_assoc, filter_app. simpl. rewrite app_nil_r. apply subseq_refl.
  - rewrite !filter_app, filter_insert_nth_false by reflexivity. apply subseq_refl.
  - destruct (nth_error (dq s) i) as [it|]; simpl; [|apply subseq_refl].
    rewrite !filter_app. apply subseq_app; [apply subseq_refl | apply subseq_filter_remove_nth].
Qed.

Lemma drun_fexec evs : forall s,
  subseq (fexec (drun evs s)) (fexec s ++ map Fo (foreigns evs)).
Proof.
  induction evs as [|e evs IH]; intros s.
  - simpl. rewrite app_nil_r. apply subseq_refl.
  - rewrite drun_cons. eapply subseq_trans; [apply IH|].
    pose proof (dstep_fexec s e) as Hs.
    change (foreigns (e :: evs)) with ((match e with Foreign x => [x] | _ => [] end) ++ foreigns evs).
    destruct e as [x| |y|k y|i]; cbn [app];
      try (apply subseq_app; [exact Hs | apply subseq_refl]).
    rewrite Hs, <- app_assoc. simpl. apply subseq_refl.
Qed.

Lemma filter_submitted evs : filter is_foreign (submitted evs) = map Fo (foreigns evs).
Proof.
  induction evs as [|e evs IH]; auto.
  rewrite submitted_cons, filter_app, IH. destruct e; simpl; auto.
Qed.

Definition dinit : dst := mkD [] [] [].

Theorem deque_loops evs :
  let s := drun evs dinit in
  (* nothing lost, nothing duplicated: popped, removed and still queued entries together are
     exactly the submitted ones (as multisets) *)
  Permutation (dpopped s ++ dremoved s ++ dq s) (submitted evs) /\
  (* so when submissions are pairwise distinct, each is popped at most once and is in exactly
     one of the three places *)
  (NoDup (submitted evs) -> NoDup (dpopped s ++ dremoved s ++ dq s)) /\
  (* the foreign entries that were executed or are still queued appear in arrival order *)
  subseq (filter is_foreign (dpopped s ++ dq s)) (map Fo (foreigns evs)) /\
  (* and if the loop thread removed none of them, they are all there, in arrival order *)
  (filter is_foreign (dremoved s) = [] -> filter is_foreign (dpopped s ++ dq s) = map Fo (foreigns evs)).
Proof.
  intros s.
  pose proof (drun_accounted evs dinit) as Hacc. fold s in Hacc. unfold accounted in Hacc. simpl in Hacc.
  pose proof (drun_fexec evs dinit) as Hord. fold s in Hord. unfold fexec in Hord. simpl in Hord.
  split; [exact Hacc|]. split; [|split; [exact Hord|]].
  - intros Hnd. eapply Permutation_NoDup; [apply Permutation_sym, Hacc | exact Hnd].
  - intros Hrm. apply subseq_length_eq; auto.
    rewrite <- filter_submitted.
    assert (Hp : Permutation (filter is_foreign (dpopped s ++ dremoved s ++ dq s)) (filter is_foreign (submitted evs))).
    { clear -Hacc. induction Hacc; simpl; auto.
      - destruct (is_foreign x); auto.
      - destruct (is_foreign x), (is_foreign y); auto. apply perm_swap.
      - eapply perm_trans; eauto. }
    apply Permutation_length in Hp. rewrite <- Hp.
    rewrite !filter_app, Hrm, !app_length. simpl. reflexivity.
Qed.

(* ------------------------------------------------------------------ *)
(* the number of comparisons of an operation: a threshold n, independent of the budget k and
   of the foreign entry x, such that the operation is struck iff k < n *)
Definition has_thr (F : cst -> cst) (a : list E) : Prop :=
  exists n a', forall k x,
    (n <= k -> F (mkC a (Some k) x false) = mkC a' (Some (k - n)) x false) /\
    (k < n -> cerr (F (mkC a (Some k) x false)) = true).

Lemma thr_id a : has_thr (fun s => s) a.
Proof.
  exists 0, a. intros k x. split; [|lia]. intros _. rewrite Nat.sub_0_r. reflexivity.
Qed.

Lemma thr_siftdown fuel : forall a sp pos, has_thr (fun s => c_siftdown fuel s sp pos) a.
Proof.
  induction fuel as [|fuel IH]; intros a sp pos; [apply thr_id|].
  cbn [c_siftdown].
  destruct (Nat.ltb sp pos) eqn:Hlt; [|apply thr_id].
  set (pp := Nat.div2 (pos - 1)).
  destruct (elt (nth pos a ed) (nth pp a ed)) eqn:Hl.
  - destruct (IH (set_nth (set_nth a pp (nth pos a ed)) pos (nth pp a ed)) sp pp) as (n1 & a1 & H1).
    exists (S n1), a1. intros k x. unfold cget, ccmp. cbn [carr cbudget cx].
    destruct k as [|k]; [split; [lia | reflexivity]|].
    cbn [cerr]. rewrite Hl.
    destruct (H1 k x) as [Ha Hb]. unfold cswap, cget. cbn [carr cbudget cx cerr].
    split; intros Hk.
    + rewrite Ha by lia. reflexivity.
    + apply Hb. lia.
  - exists 1, a. intros k x. unfold cget, ccmp. cbn [carr cbudget cx].
    destruct k as [|k]; [split; [lia | reflexivity]|].
    cbn [cerr]. rewrite Hl. split; [|lia]. intros _. simpl. rewrite Nat.sub_0_r. reflexivity.
Qed.

Definition has_thr2 (F : cst -> cst * nat) (a : list E) : Prop :=
  exists n a' p, forall k x,
    (n <= k -> F (mkC a (Some k) x false) = (mkC a' (Some (k - n)) x false, p)) /\
    (k < n -> cerr (fst (F (mkC a (Some k) x false))) = true).

Lemma thr_siftup_loop fuel : forall a endpos pos,
  has_thr2 (fun s => c_siftup_loop fuel s endpos pos) a.
Proof.
  assert (Hid : forall a p, has_thr2 (fun s => (s, p)) a).
  { intros a p. exists 0, a, p. intros k x. split; [|lia]. intros _. rewrite Nat.sub_0_r. reflexivity. }
  induction fuel as [|fuel IH]; intros a endpos pos; [apply Hid|].
  cbn [c_siftup_loop].
  destruct (Nat.ltb pos (Nat.div2 endpos)); [|apply Hid].
  set (cp := 2 * pos + 1).
  destruct (Nat.ltb (cp + 1) endpos).
  - set (l := elt (nth cp a ed) (nth (cp + 1) a ed)).
    set (c := if l then cp else cp + 1).
    destruct (IH (set_nth (set_nth a c (nth pos a ed)) pos (nth c a ed)) endpos c) as (n1 & a1 & p1 & H1).
    exists (S n1), a1, p1. intros k x. unfold cget, ccmp. cbn [carr cbudget cx].
    destruct k as [|k]; [split; [lia | reflexivity]|].
    cbn [cerr]. fold l. fold c.
    destruct (H1 k x) as [Ha Hb]. unfold cswap, cget. cbn [carr cbudget cx cerr].
    split; intros Hk.
    + rewrite Ha by lia. reflexivity.
    + apply Hb. lia.
  - destruct (IH (set_nth (set_nth a cp (nth pos a ed)) pos (nth cp a ed)) endpos cp) as (n1 & a1 & p1 & H1).
    exists n1, a1, p1. intros k x. unfold cswap, cget. cbn [carr cbudget cx cerr]. apply H1.
Qed.

Lemma thr_siftup a pos : has_thr (fun s => c_siftup s pos) a.
Proof.
  unfold c_siftup.
  destruct (thr_siftup_loop (length a) a (length a) pos) as (n1 & a1 & p1 & H1).
  destruct (thr_siftdown (S p1) a1 pos p1) as (n2 & a2 & H2).
  exists (n1 + n2), a2. intros k x. cbn [carr].
  destruct (H1 k x) as [Ha Hb].
  destruct (Nat.le_gt_cases n1 k) as [Hle|Hgt].
  - rewrite Ha by auto. cbn [cerr].
    destruct (H2 (k - n1) x) as [Hc Hd]. split; intros Hk.
    + rewrite Hc by lia. replace (k - n1 - n2) with (k - (n1 + n2)) by lia. reflexivity.
    + apply Hd. lia.
  - split; [lia|]. intros _. specialize (Hb Hgt).
    destruct (c_siftup_loop _ _ _ _) as [s p]. simpl in Hb. rewrite Hb. exact Hb.
Qed.

Lemma thr_heappush a e : has_thr (fun s => c_heappush s e) a.
Proof.
  unfold c_heappush. cbn [carr cbudget cx cerr].
  destruct (thr_siftdown (length (a ++ [e])) (a ++ [e]) 0 (length (a ++ [e]) - 1)) as (n & a' & H).
  exists n, a'. intros k x. apply H.
Qed.

Lemma thr_heappop a :
  exists n a' o, forall k x,
    (n <= k -> c_heappop (mkC a (Some k) x false) = (mkC a' (Some (k - n)) x false, o)) /\
    (k < n -> cerr (fst (c_heappop (mkC a (Some k) x false))) = true).
Proof.
  unfold c_heappop. cbn [carr cbudget cx cerr].
  destruct (rev a) as [|lastelt t].
  { exists 0, a, None. intros k x. split; [|lia]. intros _. rewrite Nat.sub_0_r. reflexivity. }
  destruct (rev t) as [|ret t'].
  { exists 0, [], (Some lastelt). intros k x. split; [|lia]. intros _. rewrite Nat.sub_0_r. reflexivity. }
  destruct (thr_siftup (set_nth (ret :: t') 0 lastelt) 0) as (n & a' & H).
  exists n, a', (Some ret). intros k x. destruct (H k x) as [Ha Hb]. split; intros Hk.
  - rewrite Ha by auto. reflexivity.
  - simpl fst. auto.
Qed.

Lemma thr_heapify_loop i : forall a, has_thr (c_heapify_loop i) a.
Proof.
  induction i as [|i IH]; intros a; [apply thr_id|].
  cbn [c_heapify_loop].
  destruct (thr_siftup a i) as (n1 & a1 & H1).
  destruct (IH a1) as (n2 & a2 & H2).
  exists (n1 + n2), a2. intros k x.
  destruct (H1 k x) as [Ha Hb].
  destruct (Nat.le_gt_cases n1 k) as [Hle|Hgt].
  - rewrite Ha by auto. cbn [cerr].
    destruct (H2 (k - n1) x) as [Hc Hd]. split; intros Hk.
    + rewrite Hc by lia. replace (k - n1 - n2) with (k - (n1 + n2)) by lia. reflexivity.
    + apply Hd. lia.
  - split; [lia|]. intros _. rewrite (Hb Hgt). exact (Hb Hgt).
Qed.

Lemma thr_heapify a : has_thr c_heapify a.
Proof.
  destruct (thr_heapify_loop (Nat.div2 (length a)) a) as (n & a' & H).
  exists n, a'. intros k x. unfold c_heapify. cbn [carr]. apply H.
Qed.

(* every loop-thread operation has a number of comparisons n: a foreign append scheduled
   for comparison k >= n falls after the operation (sequential composition, t_op_atomic),
   one scheduled for k < n strikes and the operation raises *)
Theorem strike_threshold s op :
  exists n, forall k x,
    (n <= k -> between s op k x) /\
    (k < n -> tout_ (t_op s op k x) = TRaise /\ ~ between s op k x).
Proof.
  assert (Hnb : forall k x, tout_ (t_op s op k x) = TRaise ->
                 (op = LPop -> arr (pq_ s) <> []) -> ~ between s op k x).
  { intros k x Hr Hne [Hb|[Ho He]]; [congruence | exact (Hne Ho He)]. }
  destruct op as [|o p|o|o p]; simpl t_op.
  - (* popleft *)
    destruct (thr_heappop (arr (pq_ s))) as (n & a' & r & H).
    destruct (arr (pq_ s)) as [|e0 t0] eqn:Harr.
    { exists 0. intros k x. split; [|lia]. intros _. right. auto. }
    exists n. intros k x. destruct (H k x) as [Ha Hb]. rewrite <- Harr in *.
    split; intros Hk.
    + left. simpl. intros Hr.
      assert (He : cerr (fst (c_heappop (start s k x))) = false)
        by (unfold start; rewrite Ha by auto; reflexivity).
      rewrite (t_popleft_atomic s k x He) in Hr.
      unfold pos_popleft, pq_popentry in Hr.
      destruct (hs_pop_some HPV_spec (arr (pq_ s))) as (e & a1 & Hp); [rewrite Harr; discriminate|].
      rewrite Hp in Hr. simpl in Hr. discriminate.
    + assert (Hr : tout_ (t_popleft s k x) = TRaise)
        by (apply t_popleft_struck_raises; unfold start; auto).
      split; auto. apply (Hnb k x); auto. intros _. rewrite Harr. discriminate.
  - (* append *)
    set (e := mkE (mkPV p (n_ins s) 0 1) (seqn (pq_ s)) o).
    destruct (thr_heappush (arr (pq_ s)) e) as (n & a' & H).
    exists n. intros k x. destruct (H k x) as [Ha Hb]. split; intros Hk.
    + left. simpl. rewrite t_append_atomic; [simpl; discriminate|].
      fold e. unfold start. rewrite Ha by auto. reflexivity.
    + assert (Hr : tout_ (t_append s o p k x) = TRaise)
        by (apply t_append_struck_raises; fold e; unfold start; auto).
      split; auto. apply (Hnb k x); auto. discriminate.
  - (* find + remove *)
    unfold between. simpl t_op. unfold t_find_remove.
    destruct (find_last_index (Z.eqb o) (arr (pq_ s))) as [i|].
    2:{ exists 0. intros k x. split; [|lia]. intros _. left. simpl. discriminate. }
    destruct (Nat.eqb i (length (arr (pq_ s)) - 1)).
    { exists 0. intros k x. split; [|lia]. intros _. left. simpl. discriminate. }
    set (a0 := set_nth (removelast (arr (pq_ s))) i (last (arr (pq_ s)) ed)).
    destruct (thr_heapify a0) as (n & a' & H).
    exists n. intros k x. destruct (H k x) as [Ha Hb]. split; intros Hk.
    + left. rewrite Ha by auto. simpl. discriminate.
    + rewrite (Hb Hk). simpl. split; auto. intros [Hc|[Hc _]]; [congruence|discriminate].
  - (* reschedule *)
    unfold between. simpl t_op. unfold t_reschedule.
    destruct (find_last_index (Z.eqb o) (arr (pq_ s))) as [i|].
    2:{ exists 0. intros k x. split; [|lia]. intros _. left. simpl. discriminate. }
    destruct (pclass (epri (nth i (arr (pq_ s)) ed)) =? 0)%Z.
    { exists 0. intros k x. split; [|lia]. intros _. left. simpl. discriminate. }
    destruct (pv_lt _ _ || pv_lt _ _).
    2:{ exists 0. intros k x. split; [|lia]. intros _. left. simpl. discriminate. }
    set (a0 := set_nth (arr (pq_ s)) i _).
    destruct (thr_heapify a0) as (n & a' & H).
    exists n. intros k x. destruct (H k x) as [Ha Hb]. split; intros Hk.
    + left. rewrite Ha by auto. simpl. discriminate.
    + rewrite (Hb Hk). simpl. split; auto. intros [Hc|[Hc _]]; [congruence|discriminate].
Qed.

(* item 2 with the hypothesis on k itself: a budget of at least the number of comparisons
   gives the sequential composition *)
Corollary atomic_when_budget_suffices s op :
  exists n, forall k x,
    (n <= k -> t_op s op k x = mkT (foreign_append (fst (seq_op s op)) x) (snd (seq_op s op))) /\
    (k < n -> tout_ (t_op s op k x) = TRaise /\ ~ between s op k x).
Proof.
  destruct (strike_threshold s op) as [n H]. exists n. intros k x.
  destruct (H k x) as [Ha Hb]. split; auto. intros Hk. apply t_op_atomic. auto.
Qed.

(* iteration struck (list.sort() empties the list while it sorts): ValueError escapes, the
   queue is the sorted old content - the FOREIGN entry is discarded although the foreign
   thread's _sequence += 1 took effect *)
Theorem t_iter_struck_spec s :
  boost_off s ->
  let r := t_iter_struck s in
  tout_ r = TRaise /\
  arr (pq_ (tq r)) = stable_sort HPV (arr (pq_ s)) /\
  seqn (pq_ (tq r)) = (seqn (pq_ s) + 1)%Z.
Proof.
  intros Hf r. subst r. unfold t_iter_struck. simpl tout_. simpl tq. split; auto.
  exact (foreign_done_arr s (stable_sort HPV (arr (pq_ s))) Hf).
Qed.

(* ------------------------------------------------------------------ *)
(* the hypotheses are satisfiable: queues built by appends satisfy the invariant, and on a
   concrete queue budget 5 does not strike (sequential composition) while budget 0 does *)
Lemma prefill_inv l : PInvH (prefill l).
Proof.
  unfold prefill. generalize (PInv_empty HPV []). generalize (pos_empty 0%Q []).
  induction l as [|[o p] l IH]; intros s Hs; simpl; auto.
  apply IH. apply (append_pri_inv HPV HPV_spec). auto.
Qed.

Example atomic_example :
  let s := prefill [(1, 0%Q); (2, 0%Q); (3, 0%Q)]%Z in
  let x := foreign_entry s 200 0%Q in
  PInvH s /\ 3 <= length (arr (pq_ s)) /\
  between s LPop 5 x /\ tout_ (t_op s LPop 5 x) = TOk 1%Z /\
  cerr (fst (c_heappop (start s 0 x))) = true /\ tout_ (t_op s LPop 0 x) = TRaise.
Proof.
  intros s x. split; [apply prefill_inv|].
  split; [vm_compute; lia|]. split; [left; vm_compute; discriminate|].
  vm_compute. auto.
Qed.

Example deque_example :
  let s := drun [LoopAppend 1; Foreign 10; LoopInsert 0 2; LoopPop; Foreign 11; LoopRemove 0; LoopPop]%Z dinit in
  dpopped s = [Lo 2; Fo 10]%Z /\ dremoved s = [Lo 1]%Z /\ dq s = [Fo 11]%Z.
Proof. vm_compute. auto. Qed.
