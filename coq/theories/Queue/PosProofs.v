(* Proofs for PosPriorityQueue with boosting disabled (factor = 0), model
   Queue/PosPQ.v: PriorityValue.__lt__ is a strict weak order; every operation
   preserves the PriorityQueue invariant; positional (class 0) entries pop before
   regular ones; reschedule_all (which sorts first) keeps the pop order of
   positional entries and of entries whose new priorities do not force a swap. *)
From Coq Require Import QArith Lqa Sorting.Sorted Sorting.Permutation.
From Asynkit Require Import Base.Prelude Queue.PQ Queue.Order Queue.Heap Queue.ListFacts
  Queue.PQProofs Queue.PosPQ.

(* ---- PriorityValue.__lt__ ---- *)
Lemma qltb_lt a b : qltb a b = true <-> (a < b)%Q.
Proof.
  unfold qltb. rewrite negb_true_iff. split.
  - intros Hf. apply Qnot_le_lt. intros Hle. apply Qle_bool_iff in Hle. congruence.
  - intros Hlt. destruct (Qle_bool b a) eqn:E; auto. apply Qle_bool_iff in E. lra.
Qed.

Lemma qltb_ge a b : qltb a b = false <-> (b <= a)%Q.
Proof.
  unfold qltb. rewrite negb_false_iff. apply Qle_bool_iff.
Qed.

Lemma pv_lt_true a b :
  pv_lt a b = true <->
  (pclass a < pclass b)%Z \/ (pclass a = pclass b /\ (pv_priority a < pv_priority b)%Q).
Proof.
  unfold pv_lt. destruct (pclass a =? pclass b)%Z eqn:E; simpl.
  - apply Z.eqb_eq in E. rewrite qltb_lt. intuition lia.
  - apply Z.eqb_neq in E. rewrite Z.ltb_lt. intuition lia.
Qed.

Lemma pv_lt_false a b :
  pv_lt a b = false <->
  (pclass b < pclass a)%Z \/ (pclass a = pclass b /\ (pv_priority b <= pv_priority a)%Q).
Proof.
  unfold pv_lt. destruct (pclass a =? pclass b)%Z eqn:E; simpl.
  - apply Z.eqb_eq in E. rewrite qltb_ge. intuition lia.
  - apply Z.eqb_neq in E. rewrite Z.ltb_ge. intuition lia.
Qed.

Lemma pv_lt_strict_weak : StrictWeak pv_lt.
Proof.
  constructor.
  - intros a. apply pv_lt_false. right. split; auto. lra.
  - intros a b c. rewrite !pv_lt_true. intros [H1|[H1 H1']] [H2|[H2 H2']]; try (left; lia).
    right. split; [lia | lra].
  - intros a b c. rewrite !pv_lt_false.
    intros [H1|[H1 H1']] [H2|[H2 H2']] [H3|[H3 H3']] [H4|[H4 H4']]; try lia.
    split; right; (split; [lia | lra]).
Qed.

Lemma ssorted_app_inv {A} (R : A -> A -> Prop) l1 l2 :
  StronglySorted R (l1 ++ l2) ->
  StronglySorted R l2 /\ (forall x y, In x l1 -> In y l2 -> R x y).
Proof.
  induction l1 as [|a l1 IH]; simpl; intros Hs.
  - split; auto. intros x y [].
  - inversion Hs as [|? ? Hs' Hall]; subst. destruct (IH Hs') as [H2 Hx]. split; auto.
    intros x y [<-|Hin] Hy; auto. rewrite Forall_forall in Hall. apply Hall.
    apply in_or_app. auto.
Qed.

Section PosProofs.
Context (H : heapimpl pv) (Hplt : plt H = pv_lt) (HS : HeapSpec H).

Lemma SWH : StrictWeak (plt H).
Proof. rewrite Hplt. apply pv_lt_strict_weak. Qed.

Notation Inv := (Inv H).
Notation sort := (stable_sort H).
Notation elt := (entry_lt (plt H)).

(* ---- counters never touch the queue when boosting is disabled ---- *)
Definition boost_off (s : pos) : Prop := Qeq_bool (factor s) 0 = true.

Lemma do_maintenance_off s : boost_off s -> do_maintenance H s = s.
Proof. intros Hf. unfold do_maintenance. rewrite Hf. reflexivity. Qed.

Lemma update_counters_off s b :
  boost_off s ->
  pq_ (update_counters H s b) = pq_ s /\ boost_off (update_counters H s b).
Proof.
  intros Hf. unfold update_counters. destruct b.
  - match goal with |- context [if ?c then _ else _] => destruct c end.
    + rewrite do_maintenance_off by exact Hf. simpl. auto.
    + simpl. auto.
  - match goal with |- context [if ?c then _ else _] => destruct c end; simpl; auto.
Qed.

(* ---- the invariant of the wrapper ---- *)
Definition cls_ok (e : entry pv) : Prop :=
  (pclass (epri e) = 0%Z /\ boost (epri e) = 0%Q) \/ pclass (epri e) = 1%Z.

Definition PInv (s : pos) : Prop :=
  Inv (pq_ s) /\ boost_off s /\ Forall cls_ok (arr (pq_ s)).

Lemma PInv_empty ds : PInv (pos_empty 0 ds).
Proof. split; [apply Inv_empty | split; [reflexivity | constructor]]. Qed.

Lemma PInv_with_pq s q :
  PInv s -> Inv q -> Forall cls_ok (arr q) -> PInv (with_pq s q).
Proof. intros (_ & Hf & _) Hi Hc. split; auto. Qed.

Lemma PInv_counters s b : PInv s -> PInv (update_counters H s b).
Proof.
  intros (Hi & Hf & Hc). destruct (update_counters_off s b Hf) as [E Hf'].
  split; [|split]; auto; rewrite E; auto.
Qed.

Lemma cls_perm a a' : Permutation a a' -> Forall cls_ok a -> Forall cls_ok a'.
Proof. apply Permutation_Forall. Qed.

Lemma cls_removed a e a' : Permutation a (e :: a') -> Forall cls_ok a -> Forall cls_ok a'.
Proof. intros Hp Hc. eapply Permutation_Forall in Hc; [|exact Hp]. inversion Hc; auto. Qed.

Lemma append_pri_inv s o p : PInv s -> PInv (pos_append_pri H s o p).
Proof.
  intros (Hi & Hf & Hc). unfold pos_append_pri. apply PInv_counters, PInv_with_pq.
  - split; auto.
  - apply (add_inv H HS); auto.
  - eapply cls_perm; [apply Permutation_sym, (add_perm H HS)|].
    constructor; auto. right. reflexivity.
Qed.

Lemma popleft_inv s o s' : PInv s -> pos_popleft H s = Some (o, s') -> PInv s'.
Proof.
  intros (Hi & Hf & Hc). unfold pos_popleft.
  destruct (pq_popentry H (pq_ s)) as [[e q]|] eqn:E; [|discriminate].
  intros E'. assert (Es : s' = update_counters H (with_pq s q) false) by congruence.
  subst s'. clear E'.
  destruct (pop_inv H SWH HS _ _ _ Hi E) as (Hi' & Hp & _).
  apply PInv_counters, PInv_with_pq; auto.
  - split; auto.
  - eapply cls_removed; eauto.
Qed.

Lemma promote_inv k : forall s acc s1 pr ok,
  PInv s -> promote H k s acc = (s1, pr, ok) -> PInv s1.
Proof.
  induction k as [|k IH]; intros s acc s1 pr ok Hp E; simpl in E.
  - inversion E; subst; auto.
  - destruct (pos_popleft H s) as [[o s']|] eqn:Ep.
    + eapply IH; [|exact E]. eapply popleft_inv; eauto.
    + inversion E; subst; auto.
Qed.

Lemma fold_add_inv p os : forall q,
  Inv q -> Forall cls_ok (arr q) -> cls_ok (mkE p 0 0) ->
  Inv (fold_left (fun q o => pq_add H q p o) os q) /\
  Forall cls_ok (arr (fold_left (fun q o => pq_add H q p o) os q)).
Proof.
  induction os as [|o os IH]; intros q Hi Hc Hp; simpl; auto.
  apply IH; auto.
  - apply (add_inv H HS); auto.
  - eapply cls_perm; [apply Permutation_sym, (add_perm H HS)|]. constructor; auto.
Qed.

Lemma insert_inv s k o : PInv s -> PInv (pos_insert H s k o).
Proof.
  intros Hp. unfold pos_insert.
  destruct (promote H k s []) as [[s1 pr] ok] eqn:E.
  pose proof (promote_inv _ _ _ _ _ _ Hp E) as (Hi1 & Hf1 & Hc1).
  apply PInv_counters.
  match goal with |- PInv (with_pq s1 (fold_left _ _ _)) =>
    idtac end.
  set (pval := if ok then _ else _).
  destruct (fold_add_inv (mkPV pval (n_ins s1) 0 0) (pr ++ [o]) (pq_ s1) Hi1 Hc1) as [Hi' Hc'].
  { left. split; reflexivity. }
  apply PInv_with_pq; auto. split; auto.
Qed.

Lemma remove_inv_pos s o s' : PInv s -> pos_remove H s o = Some s' -> PInv s'.
Proof.
  intros (Hi & Hf & Hc). unfold pos_remove.
  destruct (pq_remove H (pq_ s) o) as [[p q]|] eqn:E; [|discriminate].
  intros E'. assert (Es : s' = update_counters H (with_pq s q) false) by congruence.
  subst s'. clear E'.
  destruct (remove_inv H SWH HS _ _ _ _ Hi E) as (Hi' & e & _ & _ & Hp).
  apply PInv_counters, PInv_with_pq; auto.
  - split; auto.
  - eapply cls_removed; eauto.
Qed.

Lemma find_inv_pos s key rm o s' : PInv s -> pos_find H s key rm = Some (o, s') -> PInv s'.
Proof.
  intros (Hi & Hf & Hc). unfold pos_find.
  destruct (pq_find H (pq_ s) key rm) as [[e q]|] eqn:E; [|discriminate].
  intros E'. assert (Es : s' = with_pq s q) by congruence.
  subst s'. clear E'.
  destruct (find_inv H HS _ _ _ _ _ Hi E) as (Hi' & _ & _ & Hrm).
  apply PInv_with_pq; auto.
  - split; auto.
  - destruct rm; [eapply cls_removed; eauto | subst; auto].
Qed.

Lemma reschedule_reg_inv_pos s key np o s' :
  PInv s -> pos_reschedule_reg H s key np = Some (o, s') -> PInv s'.
Proof.
  intros (Hi & Hf & Hc). unfold pos_reschedule_reg.
  destruct (pq_reschedule H (pq_ s) key _) as [[o' q]|] eqn:E; [|discriminate].
  intros E'. assert (Es : s' = with_pq s q) by congruence.
  subst s'. clear E'.
  destruct (resched_inv H HS _ _ _ _ _ Hi E) as (Hi' & _ & e & r & _ & _ & Hp & Hq).
  apply PInv_with_pq; auto.
  - split; auto.
  - destruct Hq as [->|[Hp' _]]; auto.
    eapply cls_perm; [apply Permutation_sym, Hp'|].
    constructor; [right; reflexivity | apply (cls_removed _ _ _ Hp Hc)].
Qed.

Lemma reschedule_inv_pos s key np o s' :
  PInv s -> pos_reschedule H s key np = Some (o, s') -> PInv s'.
Proof.
  intros HP. unfold pos_reschedule.
  destruct (pq_find H (pq_ s) key false) as [[e q]|]; [|discriminate].
  destruct (pclass (epri e) =? 0)%Z.
  - intros E. injection E as _ <-. exact HP.
  - apply reschedule_reg_inv_pos; exact HP.
Qed.

(* the re-prioritised entries handed to extend() *)
Definition repri (getp : Z -> Q) (e : entry pv) : pv * Z :=
  let p := epri e in
  ((if (pclass p =? 0)%Z then p else mkPV (getp (eobj e)) (ins_at p) (boost p) (pclass p)),
   eobj e).

Lemma reschedule_all_unfold s getp :
  pos_reschedule_all H s getp =
  with_pq s (pq_extend H pq_empty (map (repri getp) (sort (arr (pq_ s))))).
Proof. reflexivity. Qed.

Lemma extend_entries_cls getp (l : list (entry pv)) : forall s0,
  Forall cls_ok l -> Forall cls_ok (snd (extend_entries s0 (map (repri getp) l))).
Proof.
  induction l as [|e l IH]; intros s0 Hc; simpl; [constructor|].
  inversion Hc as [|? ? He Hl]; subst.
  specialize (IH (s0 + 1)%Z Hl).
  destruct (extend_entries (s0 + 1) (map (repri getp) l)) as [s' es]. simpl in *.
  constructor; auto. unfold cls_ok in *. simpl.
  destruct (pclass (epri e) =? 0)%Z eqn:E; simpl; auto.
Qed.

Lemma reschedule_all_inv s getp : PInv s -> PInv (pos_reschedule_all H s getp).
Proof.
  intros (Hi & Hf & Hc). rewrite reschedule_all_unfold. apply PInv_with_pq.
  - split; auto.
  - apply (extend_inv H SWH HS), Inv_empty.
  - eapply cls_perm; [apply Permutation_sym, (extend_perm H HS)|]. simpl.
    apply extend_entries_cls. eapply cls_perm; [apply Permutation_sym, (stable_sort_perm H)|]. auto.
Qed.

Lemma clear_inv_pos s : PInv s -> PInv (pos_clear s).
Proof.
  intros Hp. apply PInv_with_pq; auto; [apply Inv_empty | constructor].
Qed.

Lemma iter_inv_pos s : PInv s -> PInv (snd (pos_iter H s)).
Proof.
  intros (Hi & Hf & Hc). unfold pos_iter. simpl. apply PInv_with_pq.
  - split; auto.
  - apply (abs_inv H SWH); auto.
  - eapply cls_perm; [apply Permutation_sym, (stable_sort_perm H) | auto].
Qed.

(* ---- positional entries pop first ---- *)
Lemma class_order a b : elt a b = true -> (pclass (epri a) <= pclass (epri b))%Z.
Proof.
  intros Hlt. apply elt_true in Hlt. rewrite Hplt in Hlt.
  destruct Hlt as [Hlt | (Hab & Hba & _)].
  - apply pv_lt_true in Hlt. lia.
  - apply pv_lt_false in Hab, Hba. lia.
Qed.

(* in a strictly sorted list, order of occurrence = order *)
Lemma strict_sorted_before (l : list (entry pv)) x y :
  StronglySorted (fun a b => elt a b = true) l -> In x l -> In y l -> elt x y = true ->
  exists l1 l2 l3, l = l1 ++ x :: l2 ++ y :: l3.
Proof.
  intros Hs Hx Hy Hlt.
  destruct (in_split _ _ Hx) as (l1 & r & ->).
  destruct (ssorted_app_inv _ _ _ Hs) as [Hs2 Hcross].
  apply in_app_or in Hy. destruct Hy as [Hy|[Hy|Hy]].
  - exfalso.
    assert (Hyx : elt y x = true) by (apply Hcross; simpl; auto).
    rewrite (elt_asym SWH _ _ Hlt) in Hyx. discriminate.
  - subst y. rewrite (elt_irrefl SWH) in Hlt. discriminate.
  - destruct (in_split _ _ Hy) as (l2 & l3 & ->). exists l1, l2, l3. reflexivity.
Qed.

(* pop order: whatever pops earlier has the smaller class, i.e. every
   positional (class 0) entry pops before every regular (class 1) entry *)
Theorem pos_class_order s :
  PInv s ->
  let out := drain H (length (arr (pq_ s))) (pq_ s) in
  Permutation out (arr (pq_ s)) /\
  forall l1 a l2 b l3, out = l1 ++ a :: l2 ++ b :: l3 ->
    (pclass (epri a) <= pclass (epri b))%Z.
Proof.
  intros (Hi & _) out. destruct (drain_order H SWH HS _ Hi) as [Hp Hs]. fold out in Hp, Hs.
  split; auto. intros l1 a l2 b l3 E. rewrite E in Hs.
  destruct (ssorted_app_inv _ _ _ Hs) as [Hs2 _].
  inversion Hs2 as [|? ? _ Hall]; subst. rewrite Forall_forall in Hall.
  apply class_order, Hall. apply in_or_app. right. simpl. auto.
Qed.

(* ---- reschedule_all ---- *)
Local Open Scope nat_scope.
Lemma extend_entries_nth (l : list (pv * Z)) : forall s0 i d,
  i < length l ->
  nth i (snd (extend_entries s0 l)) d
  = mkE (fst (nth i l (epri d, eobj d))) (s0 + Z.of_nat i) (snd (nth i l (epri d, eobj d))).
Proof.
  induction l as [|[p o] l IH]; intros s0 i d Hi; simpl in *; [lia|].
  specialize (IH (s0 + 1)%Z). destruct (extend_entries (s0 + 1) l) as [s' es]. simpl in *.
  destruct i as [|i]; simpl.
  - f_equal. lia.
  - rewrite IH by lia. f_equal. lia.
Qed.

Lemma extend_entries_length (l : list (pv * Z)) : forall s0,
  length (snd (extend_entries s0 l)) = length l.
Proof.
  induction l as [|[p o] l IH]; intros s0; simpl; auto.
  specialize (IH (s0 + 1)%Z). destruct (extend_entries (s0 + 1) l) as [s' es]. simpl in *. lia.
Qed.

(* Let l be the pop order before reschedule_all.  The entry at position i of l
   becomes (repri, sequence i, same object); whenever i < j and the new priority
   of the j-th is not strictly below the new priority of the i-th, the i-th still
   pops before the j-th.  Objects are neither lost nor duplicated. *)
Theorem reschedule_all_order s getp :
  PInv s ->
  let l := sort (arr (pq_ s)) in
  let out := sort (arr (pq_ (pos_reschedule_all H s getp))) in
  let new i := mkE (fst (repri getp (nth i l (edflt H)))) (Z.of_nat i)
                   (eobj (nth i l (edflt H))) in
  Permutation (map (@eobj pv) out) (map (@eobj pv) (arr (pq_ s))) /\
  forall i j, i < j -> j < length l ->
    pv_lt (epri (new j)) (epri (new i)) = false ->
    exists l1 l2 l3, out = l1 ++ new i :: l2 ++ new j :: l3.
Proof.
  intros (Hi & Hf & Hc) l out new.
  assert (Hq : Inv (pq_ (pos_reschedule_all H s getp))).
  { apply (reschedule_all_inv s getp). split; auto. }
  pose proof (extend_perm H HS pq_empty (map (repri getp) l)) as Hpe. simpl in Hpe.
  set (es := snd (extend_entries 0 (map (repri getp) l))) in *.
  assert (Hout : Permutation out es).
  { unfold out. rewrite reschedule_all_unfold. simpl pq_.
    eapply perm_trans; [apply (stable_sort_perm H)|]. exact Hpe. }
  assert (Hnth : forall i, i < length l -> nth i es (edflt H) = new i).
  { intros i Hil. unfold es. rewrite extend_entries_nth by (rewrite map_length; auto).
    unfold new. simpl epri. simpl eobj.
    change (pdflt H, 0%Z) with (pdflt H, 0%Z).
    rewrite (nth_indep _ _ (repri getp (edflt H))) by (rewrite map_length; auto).
    rewrite map_nth. simpl. f_equal. }
  assert (Hlen : length es = length l).
  { unfold es. rewrite extend_entries_length, map_length. auto. }
  split.
  - eapply perm_trans; [apply Permutation_map, Hout|].
    unfold es. rewrite (extend_entries_objs _ 0%Z). rewrite map_map. simpl.
    apply Permutation_map. apply (stable_sort_perm H).
  - intros i j Hij Hj Hnlt.
    destruct Hq as (_ & Hnd & _).
    assert (Hs : StronglySorted (fun a b => elt a b = true) out).
    { apply (sorted_strict SWH); [apply (stable_sort_sorted H SWH)|].
      eapply NoDup_map_perm; [apply Permutation_sym, (stable_sort_perm H) | exact Hnd]. }
    apply strict_sorted_before; auto.
    + eapply Permutation_in; [apply Permutation_sym, Hout|].
      rewrite <- Hnth by lia. apply nth_In. lia.
    + eapply Permutation_in; [apply Permutation_sym, Hout|].
      rewrite <- Hnth by lia. apply nth_In. lia.
    + apply elt_true. rewrite Hplt.
      destruct (pv_lt (epri (new i)) (epri (new j))) eqn:E; auto.
      right. repeat split; auto. unfold new. simpl. lia.
Qed.

(* positional entries keep their priority value, so the premise about the new
   priorities holds for any two of them in pop order: their order is preserved *)
Lemma repri_class0 getp e : pclass (epri e) = 0%Z -> fst (repri getp e) = epri e.
Proof. intros Hc. unfold repri. simpl. rewrite Hc. reflexivity. Qed.

Theorem reschedule_all_keeps_positional s getp i j :
  PInv s ->
  let l := sort (arr (pq_ s)) in
  i < j -> j < length l ->
  pclass (epri (nth i l (edflt H))) = 0%Z -> pclass (epri (nth j l (edflt H))) = 0%Z ->
  pv_lt (fst (repri getp (nth j l (edflt H)))) (fst (repri getp (nth i l (edflt H)))) = false.
Proof.
  intros (Hi & _) l Hij Hj Hci Hcj.
  rewrite !repri_class0 by auto.
  pose proof (stable_sort_sorted H SWH (arr (pq_ s))) as Hs. fold l in Hs.
  pose proof (sorted_nth SWH l (edflt H) i j Hs (Nat.lt_le_incl _ _ Hij) Hj) as Hle.
  unfold ele in Hle. apply (elt_false SWH) in Hle. rewrite Hplt in Hle.
  destruct Hle as [Hlt | (Hx & _)]; auto.
  apply (sw_asym pv_lt_strict_weak) in Hlt. auto.
Qed.

Corollary reschedule_all_positional s getp i j :
  PInv s ->
  let l := sort (arr (pq_ s)) in
  let out := sort (arr (pq_ (pos_reschedule_all H s getp))) in
  let new i := mkE (fst (repri getp (nth i l (edflt H)))) (Z.of_nat i)
                   (eobj (nth i l (edflt H))) in
  i < j -> j < length l ->
  pclass (epri (nth i l (edflt H))) = 0%Z -> pclass (epri (nth j l (edflt H))) = 0%Z ->
  exists l1 l2 l3, out = l1 ++ new i :: l2 ++ new j :: l3.
Proof.
  intros Hp l out new Hij Hj Hci Hcj.
  apply (proj2 (reschedule_all_order s getp Hp)); auto.
  apply reschedule_all_keeps_positional; auto.
Qed.

End PosProofs.
