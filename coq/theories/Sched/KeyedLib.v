(* C12, fifth pass, library level: every library call of the running task keeps [KO]
   (fixed order on the tables + keys of all live entries current). *)
From Coq Require Import QArith Lqa Sorting.Permutation.
From RecordUpdate Require Import RecordUpdate.
From Asynkit Require Import Base.Prelude Queue.PQ Queue.Order Queue.Heap Queue.ListFacts Queue.PQProofs
  Queue.PosPQ Queue.Exec
  Sched.Model Sched.Tables Sched.QFacts Sched.LockInv Sched.Footprint Sched.LockOps Sched.LockLib
  Sched.LockProofs Sched.LockThms Sched.InheritEprio Sched.InheritHandover Sched.InheritKeys
  Sched.InheritFalls Sched.WaitInv Sched.WaitOps Sched.WaitLib Sched.WaitProofs.
From Asynkit Require Import Sched.OrderInv Sched.OrderPass Sched.OrderThms Sched.InheritLocal
  Sched.InheritChain Sched.InheritArrive Sched.InheritFinish Sched.KeyedInv.
Import RecordSetNotations.
Open Scope nat_scope.

(* priorities are fixed at spawn: set_priority is not called *)
Definition op_np (op : libop) : Prop := match op with OSetPrio _ => False | _ => True end.

Lemma wq_release_p s t l : wq s (fst (release_p s t l)).
Proof.
  unfold release_p. destruct (negb (llocked (getl s l))); [apply wq_refl|].
  destruct (lowner (getl s l)) as [o|]; [|apply wq_refl].
  destruct (negb (Nat.eqb o t)); [apply wq_refl|]. cbn [fst].
  set (s1 := setl s l (getl s l <| lowner := None |>)).
  apply wq_trans with (s2 := s1); [apply wk_wq, wk_setl; reflexivity|].
  set (s2 := if is_prio_task s1 t
             then sett s1 t (gett s1 t <| tholding := filter (fun x => negb (Nat.eqb x l)) (tholding (gett s1 t)) |>)
             else s1).
  apply wq_trans with (s2 := s2).
  { unfold s2. destruct (is_prio_task s1 t); [apply wq_sett; reflexivity|apply wq_refl]. }
  apply wq_trans with (s2 := setl s2 l (getl s2 l <| llocked := false |>));
    [apply wk_wq, wk_setl; reflexivity|apply wk_wq, wk_wake_p].
Qed.

Lemma wq_release s t l : wq s (fst (release s t l)).
Proof. unfold release. destruct (lkind_ (getl s l)); [apply wq_release_p|apply wk_wq, wk_release_a]. Qed.

Lemma wq_notify_p s c n : wq s (notify_p s c n).
Proof.
  unfold notify_p.
  set (order := map (fun e => Z.to_nat (eobj e)) (arr (pq_sort HQ (cpq (getc s c))))).
  pose proof (wk_notify_fold n order s 0 0) as K.
  destruct (fold_left _ order (s, 0, 0)) as [[s1 taken] cnt]. cbn [fst] in K.
  eapply wq_trans; [apply wk_wq; exact K|apply wq_setc].
Qed.

Lemma wq_cond_p_after s c r : wq s (fst (cond_p_after s c r)).
Proof. unfold cond_p_after. destruct r; [apply wq_refl|apply wq_notify_p]. Qed.

Theorem lib_call_wq t op s :
  needs_task op = false -> op_np op -> wq s (fst (lib_call t op s)).
Proof.
  intros Hn Hp. destruct op; cbn [lib_call]; try discriminate Hn.
  - (* OLog *) apply wk_wq, wk_core; reflexivity.
  - (* OSleep0 *) apply wq_refl.
  - (* OSleep *)
    change (new_future s None) with (fst (new_future s None), length (futs s)). cbv beta iota.
    set (s1 := fst (new_future s None)).
    pose proof (wk_call_at s1 (Qplus (now s1) d) (HSetResult (length (futs s)) 0)) as K2.
    destruct (call_at s1 (Qplus (now s1) d) (HSetResult (length (futs s)) 0)) as [s2 h]. cbn [fst snd] in *.
    apply wk_wq.
    eapply wk_trans; [apply wk_new_future|]. eapply wk_trans; [exact K2|apply wk_setf_flag; reflexivity].
  - (* ONewFut *) cbn [fst snd]. apply wk_wq, wk_new_future.
  - (* OAwaitFut *)
    pose proof (wk_await_fut s f []) as K. unfold await_fut in *. destruct (fdone s f).
    + destruct (fut_result s f) as [s' r]. cbn [fst snd] in *. now apply wk_wq.
    + cbn [fst snd] in *. now apply wk_wq.
  - (* OAwaitTask *)
    pose proof (wk_await_fut s (tfut (gett s t0)) []) as K. unfold await_fut in *.
    destruct (fdone s (tfut (gett s t0))).
    + destruct (fut_result s _) as [s' r]. cbn [fst snd] in *. now apply wk_wq.
    + cbn [fst snd] in *. now apply wk_wq.
  - (* OSetResult *)
    pose proof (wk_fut_finish s f (FResult v)) as K.
    destruct (fut_finish s f (FResult v)) as [s' ok]. cbn [fst snd] in *. now apply wk_wq.
  - (* OSetExc *)
    pose proof (wk_fut_finish s f (FExc e)) as K.
    destruct (fut_finish s f (FExc e)) as [s' ok]. cbn [fst snd] in *. now apply wk_wq.
  - (* OFutCancel *)
    pose proof (wk_fut_finish s f FCancelled) as K.
    destruct (fut_finish s f FCancelled) as [s' ok]. cbn [fst snd] in *. now apply wk_wq.
  - (* OCancel *)
    pose proof (wk_cancel_task s t0) as K.
    destruct (cancel_task s t0) as [s' ok]. cbn [fst snd] in *. now apply wk_wq.
  - (* OEventWait *)
    destruct (evalue (gete s e)); [apply wq_refl|].
    change (new_future s None) with (fst (new_future s None), length (futs s)). cbv beta iota.
    cbn [fst snd]. apply wk_wq.
    eapply wk_trans; [apply wk_new_future|]. eapply wk_trans; [|apply wk_setf_flag; reflexivity].
    apply wk_core; reflexivity.
  - (* OEventSet *)
    destruct (evalue (gete s e)); [apply wq_refl|].
    cbn [fst snd]. apply wk_wq.
    eapply wk_trans; [|apply wk_event_fold]. apply wk_core; reflexivity.
  - (* OEventClear *) cbn [fst snd]. apply wk_wq, wk_core; reflexivity.
  - (* ORelease *)
    pose proof (wq_release s t l) as K. destruct (release s t l) as [s' r]. exact K.
  - (* OCondWait *)
    destruct (negb (cond_locked s c)) eqn:Elk; [apply wq_refl|].
    destruct (ckind_ (getc s c)).
    + change (new_future s None) with (fst (new_future s None), length (futs s)). cbv beta iota.
      set (f := length (futs s)). set (s1 := fst (new_future s None)).
      assert (K1 : wq s s1) by apply wk_wq, wk_new_future.
      pose proof (wq_release s1 t (clock (getc s c))) as K2.
      destruct (release s1 t (clock (getc s c))) as [s2 rr]. cbn [fst snd] in *.
      destruct rr as [v|e].
      * cbn [fst snd]. eapply wq_trans; [exact K1|]. eapply wq_trans; [exact K2|].
        eapply wq_trans; [apply wq_setc|apply wk_wq, wk_setf_flag; reflexivity].
      * pose proof (wq_cond_p_after s2 c (RExc e)) as K3.
        destruct (cond_p_after s2 c (RExc e)) as [s3 r3]. cbn [fst snd] in *.
        eapply wq_trans; [exact K1|]. eapply wq_trans; [exact K2|exact K3].
    + pose proof (wq_release s t (clock (getc s c))) as K1.
      destruct (release s t (clock (getc s c))) as [s1 rr]. cbn [fst snd] in *.
      destruct rr as [v|e]; [|cbn [fst snd]; exact K1].
      change (new_future s1 None) with (fst (new_future s1 None), length (futs s1)). cbv beta iota.
      cbn [fst snd]. eapply wq_trans; [exact K1|].
      eapply wq_trans; [apply wk_wq, wk_new_future|].
      eapply wq_trans; [apply wq_setc|apply wk_wq, wk_setf_flag; reflexivity].
  - (* OCondNotify *)
    destruct (negb (cond_locked s c)); [apply wq_refl|].
    cbn [fst snd]. destruct (ckind_ (getc s c)); [apply wq_notify_p|apply wk_wq, wk_notify_i].
  - (* OCondNotifyAll *)
    destruct (negb (cond_locked s c)); [apply wq_refl|].
    cbn [fst snd]. destruct (ckind_ (getc s c)); [apply wq_notify_p|apply wk_wq, wk_notify_i].
  - (* OSleepInsert *) cbn [fst snd]. apply wk_wq, wk_call_pos.
  - (* OTaskSwitch *)
    pose proof (wk_task_reinsert s t0 0) as K. destruct (task_reinsert s t0 0) as [s1 r]. cbn [fst] in K.
    destruct r as [v|e]; [|now apply wk_wq].
    destruct p as [p|]; cbn [fst snd].
    + apply wk_wq. eapply wk_trans; [exact K|apply wk_call_pos].
    + now apply wk_wq.
  - (* OTaskReinsert *)
    pose proof (wk_task_reinsert s t0 p) as K. destruct (task_reinsert s t0 p) as [s1 r]. cbn [fst snd] in *.
    now apply wk_wq.
  - (* OCallSoon *) cbn [fst snd]. apply wk_wq, wk_call_soon.
  - (* OCallPos *) cbn [fst snd]. apply wk_wq, wk_call_pos.
  - (* OTaskThrow *)
    pose proof (wk_task_throw s t0 e) as K. destruct (task_throw s t0 e) as [s1 r]. cbn [fst snd] in *.
    now apply wk_wq.
  - (* OTaskInterrupt *) apply wk_wq, wk_task_interrupt_start.
  - (* OTimeoutEnter *)
    destruct d as [d|]; [|apply wq_refl].
    pose proof (wk_call_at s (Qplus (now s) d) (HTrigger (length (blocks s)))) as K.
    destruct (call_at s (Qplus (now s) d) (HTrigger (length (blocks s)))) as [s1 h]. cbn [fst snd] in *.
    apply wk_wq. eapply wk_trans; [exact K|apply wk_core; reflexivity].
  - (* OTimeoutExit *)
    cbn [fst snd]. apply wk_wq.
    eapply wk_trans; [|apply wk_cancel_handle]. apply wk_core; reflexivity.
  - (* OInterruptor *)
    pose proof (wk_interruptor 4 s b 0) as K.
    destruct (interruptor 4 s b 0) as [s1 r]. cbn [fst snd] in *.
    pose proof (interruptor_wrap_fst s1 r) as E.
    destruct (interruptor_wrap s1 r) as [s2 r2]. cbn [fst snd] in *. subst s2. now apply wk_wq.
  - (* OSetPrio *) destruct Hp.
  - (* OSelf *) apply wq_refl.
  - (* OQuery *) cbn [fst snd]. apply wk_wq.
    unfold queue_iterated. destruct (ready (addlog s (query_code s))); apply wk_core; reflexivity.
  - (* OCallSoonQuery *) cbn [fst snd]. apply wk_wq, wk_call_soon.
  - (* OCallSoonCancel *) cbn [fst snd]. apply wk_wq, wk_call_soon.
  - (* OCancelAw *)
    pose proof (wk_cancel_awaitable s f) as K.
    destruct (cancel_awaitable s f) as [s' ok]. cbn [fst snd] in *. now apply wk_wq.
Qed.

(* ------------------------------------------------------------ acquire *)
Theorem acquire_start_K s t l P :
  Inv s -> t < length (tasks s) -> WI true (t, P) s -> (forall l0 f, ~ In (f, t) (rows s l0)) ->
  holds_below s t l -> KO s -> KO (fst (acquire_start s t l)).
Proof.
  intros I Ht W Hnr Hb K.
  pose proof (acquire_start_W true s t l P I Ht W) as W'.
  destruct (acquire_start_ext s t l I Ht) as [E' _]. apply ext_inv in E'.
  revert W' E'. unfold acquire_start. destruct (lkind_ (getl s l)) eqn:Ek; intros W' I'.
  - destruct K as [O Ky]. destruct (keyed_arrive s t l P I Ht Ek W O Hb Hnr Ky) as [A B]. split; auto.
  - destruct (benign_acquire_a_start s l I Ek) as [B _].
    apply (KO_same s _ (t, P) _ I W I' W' (wk_wq _ _ (wk_acquire_a_start s l)) K).
    intros x Hx. now destruct (c_task B x Hx).
Qed.

(* ------------------------------------------------------------ lib_call *)
Theorem lib_call_K t op s P :
  Inv s -> op_safe s op -> t < length (tasks s) -> (forall l f, ~ In (f, t) (rows s l)) ->
  WI true (t, P) s -> op_ord t op s -> op_np op -> KO s -> KO (fst (lib_call t op s)).
Proof.
  intros I Hs Ht Hnr W Ho Hp K. destruct (needs_task op) eqn:En.
  - destruct op; try discriminate En. cbn [lib_call op_ord] in *. now apply (acquire_start_K s t l P).
  - pose proof (lib_call_W true t op s P I Hs Ht (fun _ => Hnr) W) as W'.
    destruct (lib_call_ext t op s I Hs (fun _ => Ht)) as [E' _]. apply ext_inv in E'.
    destruct (lib_call_xo t op s I Hs (fun _ => Ht) Ho) as [H _]. rewrite En in H.
    apply (KO_run s _ (t, P) _ I W E' W' (lib_call_wq t op s En Hp) K t); auto.
    intros x Hx Hne. now destruct (h_oth H x Hx Hne).
Qed.

(* ------------------------------------------------------------ conditions: notify after wait, re-acquire *)
Lemma cond_p_after_K s c r R : Inv s -> WI true R s -> KO s -> KO (fst (cond_p_after s c r)).
Proof.
  intros I W K. apply (KO_bq s _ R I W); auto; [now apply benign_cond_p_after|apply wq_cond_p_after].
Qed.

Lemma reacquire_K s t c pc err body P :
  Inv s -> t < length (tasks s) -> WI true (t, P) s -> (forall l0 f, ~ In (f, t) (rows s l0)) ->
  holds_below s t (clock (getc s c)) -> KO s -> KO (fst (reacquire s t c pc err body)).
Proof.
  intros I Ht W Hnr Hb K. unfold reacquire.
  pose proof (acquire_start_K s t (clock (getc s c)) P I Ht W Hnr Hb K) as A.
  destruct (acquire_start s t (clock (getc s c))) as [s1 r]. destruct r as [[v|e]|y frs]; exact A.
Qed.

Lemma reacq_after_K s t c err body P :
  Inv s -> t < length (tasks s) -> WI true (t, P) s -> (forall l0 f, ~ In (f, t) (rows s l0)) ->
  holds_below s t (clock (getc s c)) -> KO s -> KO (fst (reacq_after s t c err body)).
Proof.
  intros I Ht W Hnr Hb K. unfold reacq_after.
  pose proof (reacquire_K s t c true err body P I Ht W Hnr Hb K) as A.
  pose proof (reacquire_W true s t c true err body P I Ht W) as W1.
  destruct (reacquire_ext s t c true err body I Ht) as [E _]. apply ext_inv in E.
  destruct (reacquire s t c true err body) as [s1 r]. cbn [fst snd] in *.
  destruct r as [rep|y frs]; [|exact A].
  pose proof (cond_p_after_K s1 c rep _ E W1 A) as A2.
  destruct (cond_p_after s1 c rep) as [s2 rep']. exact A2.
Qed.

(* ------------------------------------------------------------ frame_resume *)
Theorem frame_resume_K t fr inp s rest :
  Inv s -> t < length (tasks s) -> frame_ok s fr -> WI true (t, rest) s ->
  (forall l0 f, ~ In (f, t) (rows s l0)) -> frame_ord t fr inp s -> KO s ->
  KO (fst (frame_resume t fr inp s)).
Proof.
  intros I Ht Hok W Hnr Ho K. destruct fr; cbn [frame_resume frame_ord] in *.
  - (* InSleep0 *) exact K.
  - (* InFut *)
    destruct inp as [v|e]; [|exact K]. destruct (fdone s f); [|exact K].
    pose proof (chg_fut_result (notlf s) s f) as B. pose proof (wk_fut_result s f) as Kw.
    destruct (fut_result s f) as [s' r]. cbn [fst snd] in *.
    apply (KO_bq s s' _ I W); auto. now apply wk_wq.
  - (* InSleepTimer *) cbn [fst snd].
    apply (KO_bq s _ _ I W); auto; [apply chg_cancel_handle|apply wk_wq, wk_cancel_handle].
  - (* InEventWait *) cbn [fst snd]. apply (KO_bq s _ _ I W); auto; [|apply wk_wq, wk_core; reflexivity].
    apply chg_sete. intros g Hg. cbn in Hg. apply filter_In in Hg as [Hg _]. now left.
  - (* InAcquireP *) destruct Hok.
  - (* InAcquireA *)
    pose proof (benign_acquire_a_finish s l f inp I Hok) as B. pose proof (wk_acquire_a_finish s l f inp) as Kw.
    destruct (acquire_a_finish s l f inp) as [s' r]. cbn [fst snd] in *.
    apply (KO_bq s s' _ I W); auto. now apply wk_wq.
  - (* InCondWaitP *)
    set (s1 := match pq_remove HQ (cpq (getc s c)) (Z.of_nat f) with
               | Some (_, q') => setc s c (getc s c <| cpq := q' |>) | None => s end).
    assert (B1 : benign s s1).
    { unfold s1. destruct (pq_remove HQ (cpq (getc s c)) (Z.of_nat f)) as [[p q']|] eqn:Er; [|apply benign_refl].
      apply chg_setc.
      - intros g Hg. cbn in Hg. left. eapply pq_remove_in; eauto. apply (iB2 I).
      - intros g Hg. now left.
      - intros H. cbn. eapply pq_remove_perm; eauto. }
    assert (Q1 : wq s s1).
    { unfold s1. destruct (pq_remove HQ (cpq (getc s c)) (Z.of_nat f)) as [[p q']|]; [apply wq_setc|apply wq_refl]. }
    assert (W1 : WI true (t, rest) s1).
    { unfold s1. destruct (pq_remove HQ (cpq (getc s c)) (Z.of_nat f)) as [[p q']|] eqn:Er; [|exact W].
      destruct (qwf_remove _ _ _ _ (cond_qwf _ _ _ _ c I W) Er) as ((_ & Hnd & Hnn) & Hp & _).
      apply WIx_setc; auto; cbn.
      - apply (w_cd W).
      - intros g [H|H]; left; [left|now right].
        eapply Permutation_in; [apply Permutation_sym; exact Hp|now right]. }
    assert (Ec : clock (getc s1 c) = clock (getc s c)).
    { unfold s1. destruct (pq_remove HQ (cpq (getc s c)) (Z.of_nat f)) as [[p q']|]; auto.
      rewrite getc_setc, Nat.eqb_refl. simpl. destruct (Nat.ltb c (length (conds s))); reflexivity. }
    pose proof (Inv_benign s s1 B1 I) as I1.
    assert (Ht1 : t < length (tasks s1)) by (pose proof (benign_tasks s s1 B1); lia).
    assert (Hb1 : holds_below s1 t (clock (getc s1 c))).
    { rewrite Ec. eapply holds_below_benign; eauto. }
    assert (K1 : KO s1) by (apply (KO_bq s s1 _ I W); auto).
    assert (Hnr1 : forall l0 g, ~ In (g, t) (rows s1 l0)) by (intros l0 g; rewrite (q_rows Q1); apply Hnr).
    pose proof (reacq_after_K s1 t c None (match inp with RVal _ => RVal 1 | RExc e => RExc e end) rest
                              I1 Ht1 W1 Hnr1 Hb1 K1) as A.
    unfold reacq_after in A.
    destruct (reacquire s1 t c true None _) as [s2 r]. destruct r as [rep|y frs].
    + destruct (cond_p_after s2 c rep) as [s3 rep']. exact A.
    + exact A.
  - (* InReleasedP *)
    destruct inp as [v|e].
    + pose proof (cond_p_after_K s c (match err with Some e => RExc e | None => body end) _ I W K) as A.
      destruct (cond_p_after s c _) as [s1 rep]. exact A.
    + destruct (is_cancel e).
      * pose proof (reacq_after_K s t c (Some e) body rest I Ht W Hnr (Ho eq_refl) K) as A. unfold reacq_after in A.
        destruct (reacquire s t c true (Some e) body) as [s2 r]. destruct r as [rep|y frs].
        -- destruct (cond_p_after s2 c rep) as [s3 rep']. exact A.
        -- exact A.
      * pose proof (cond_p_after_K s c (RExc e) _ I W K) as A.
        destruct (cond_p_after s c (RExc e)) as [s1 rep]. exact A.
  - (* InCondWaitI *)
    set (s1 := setc s c (getc s c <| cdq := filter (fun x => negb (Nat.eqb x f)) (cdq (getc s c)) |>)).
    assert (B1 : benign s s1).
    { apply chg_setc.
      - intros g Hg. now left.
      - intros g Hg. cbn in Hg. apply filter_In in Hg as [Hg _]. now left.
      - intros H. exact H. }
    assert (W1 : WI true (t, rest) s1).
    { apply WIx_setc; auto; cbn.
      - apply (w_cq W).
      - apply (w_cq W).
      - apply NoDup_filter. apply (w_cd W).
      - intros g [H|H]; left; [now left|right]. apply filter_In in H as [H _]. exact H. }
    assert (Ec : clock (getc s1 c) = clock (getc s c)).
    { unfold s1. rewrite getc_setc, Nat.eqb_refl. simpl. destruct (Nat.ltb c (length (conds s))); reflexivity. }
    pose proof (Inv_benign s s1 B1 I) as I1.
    assert (Ht1 : t < length (tasks s1)) by (pose proof (benign_tasks s s1 B1); lia).
    assert (Hb1 : holds_below s1 t (clock (getc s1 c))).
    { rewrite Ec. eapply holds_below_benign; eauto. }
    assert (K1 : KO s1) by (apply (KO_bq s s1 _ I W); auto; apply wq_setc).
    apply (reacquire_K s1 t c false None _ rest); auto.
  - (* InReacquireI *)
    destruct inp as [v|e]; [exact K|]. destruct (is_cancel e); [|exact K].
    apply (reacquire_K s t c false (Some e) body rest); auto.
  - (* InIntr *)
    destruct inp as [v|e].
    + pose proof (benign_interruptor 4 s b (S i)) as B. pose proof (wk_interruptor 4 s b (S i)) as Kw.
      destruct (interruptor 4 s b (S i)) as [s1 r]. cbn [fst snd] in *.
      pose proof (interruptor_wrap_fst s1 r) as E.
      destruct (interruptor_wrap s1 r) as [s2 r2]. cbn [fst snd] in *. subst s2.
      apply (KO_bq s s1 _ I W); auto. now apply wk_wq.
    + destruct (Nat.eqb phase 0 && is_runtime (RExc e) && negb (Nat.eqb i 2))%bool.
      * pose proof (interruptor_wrap_fst s (LSusp YNone [InSleep0; InIntr b i 1])) as E'.
        destruct (interruptor_wrap s (LSusp YNone [InSleep0; InIntr b i 1])) as [s2 r2].
        cbn [fst snd] in *. subst s2. exact K.
      * pose proof (interruptor_wrap_fst s (LDone (RExc e))) as E'.
        destruct (interruptor_wrap s (LDone (RExc e))) as [s2 r2].
        cbn [fst snd] in *. subst s2. exact K.
Qed.

(* ------------------------------------------------------------ calls that keep everybody's held locks *)
(* every library call other than acquire / release / wait / set_priority is a benign step of C13's
   footprint class: held locks, lock queues and owners are untouched *)
Theorem lib_call_benign t op s :
  Inv s -> op_safe s op -> needs_task op = false -> touches_own op = false ->
  benign s (fst (lib_call t op s)).
Proof.
  intros I Hs Hn Hto. destruct op; cbn [lib_call]; try discriminate Hn; try discriminate Hto.
  - (* OLog *) apply chg_core_eq; reflexivity.
  - (* OSleep0 *) apply benign_refl.
  - (* OSleep *)
    set (f := length (futs s)). set (s1 := fst (new_future s None)).
    change (new_future s None) with (s1, f). cbv beta iota.
    assert (B1 : benign s s1) by apply chg_new_future.
    pose proof (chg_call_at (notlf s1) s1 (Qplus (now s1) d) (HSetResult f 0)) as B2.
    destruct (call_at s1 (Qplus (now s1) d) (HSetResult f 0)) as [s2 h]. cbn [fst snd] in *.
    eapply benign_trans; [exact B1|]. eapply benign_trans; [apply B2|apply chg_setf_flag; reflexivity].
    split; [exact Logic.I|]. intros f0 v0 E. inversion E; subst f0 v0. split.
    + unfold s1. rewrite new_future_len. unfold f. lia.
    + intros H. apply (benign_lockfut s s1 f B1) in H. now apply (fresh_not_lockfut s I).
  - (* ONewFut *) cbn [fst snd]. apply chg_new_future.
  - (* OAwaitFut *)
    pose proof (chg_await_fut (notlf s) s f []) as B. unfold await_fut in *.
    destruct (fdone s f).
    + destruct (fut_result s f) as [s' r]. cbn [fst snd] in *. exact B.
    + cbn [fst snd] in *. exact B.
  - (* OAwaitTask *)
    pose proof (chg_await_fut (notlf s) s (tfut (gett s t0)) []) as B. unfold await_fut in *.
    destruct (fdone s (tfut (gett s t0))).
    + destruct (fut_result s _) as [s' r]. cbn [fst snd] in *. exact B.
    + cbn [fst snd] in *. exact B.
  - (* OSetResult *)
    pose proof (benign_fut_finish s f (FResult v) I (or_intror Hs)) as B.
    destruct (fut_finish s f (FResult v)) as [s' ok]. exact B.
  - (* OSetExc *)
    pose proof (benign_fut_finish s f (FExc e) I (or_intror Hs)) as B.
    destruct (fut_finish s f (FExc e)) as [s' ok]. exact B.
  - (* OFutCancel *)
    pose proof (benign_fut_finish s f FCancelled I (or_introl eq_refl)) as B.
    destruct (fut_finish s f FCancelled) as [s' ok]. exact B.
  - (* OCancel *)
    pose proof (benign_cancel_task s t0 I) as B.
    destruct (cancel_task s t0) as [s' ok]. exact B.
  - (* OEventWait *)
    destruct (evalue (gete s e)); [apply benign_refl|].
    set (f := length (futs s)). set (s1 := fst (new_future s None)).
    change (new_future s None) with (s1, f). cbv beta iota.
    assert (B1 : benign s s1) by apply chg_new_future.
    cbn [fst snd].
    eapply benign_trans; [exact B1|]. eapply benign_trans; [|apply chg_setf_flag; reflexivity].
    apply chg_sete. intros g Hg. cbn in Hg. apply in_app_or in Hg as [Hg|[<-|[]]]; [now left|].
    right. split.
    + unfold s1. rewrite new_future_len. unfold f. lia.
    + intros H. apply (benign_lockfut s s1 f B1) in H. now apply (fresh_not_lockfut s I).
  - (* OEventSet *)
    destruct (evalue (gete s e)); [apply benign_refl|].
    cbn [fst snd].
    set (s1 := sete s e (mkEv true (ewaiters (gete s e)))).
    assert (B1 : benign s s1) by (apply chg_sete; intros g Hg; now left).
    eapply benign_trans; [exact B1|]. apply benign_event_fold; [eapply Inv_benign; eauto|].
    intros g Hg Hl. apply (benign_lockfut s s1 g B1) in Hl. apply (iD2 I _ Hl).
    apply (foreign_ev s e). unfold s1 in Hg. rewrite gete_sete, Nat.eqb_refl in Hg. simpl in Hg.
    destruct (Nat.ltb e (length (events s))); exact Hg.
  - (* OEventClear *)
    cbn [fst snd]. apply chg_sete; intros g Hg; now left.
  - (* OCondNotify *)
    destruct (negb (cond_locked s c)); [apply benign_refl|].
    cbn [fst snd]. destruct (ckind_ (getc s c)); [now apply benign_notify_p|now apply benign_notify_i].
  - (* OCondNotifyAll *)
    destruct (negb (cond_locked s c)); [apply benign_refl|].
    cbn [fst snd]. destruct (ckind_ (getc s c)); [now apply benign_notify_p|now apply benign_notify_i].
  - (* OSleepInsert *)
    cbn [fst snd]. apply chg_call_pos. split; [exact Logic.I|intros; discriminate].
  - (* OTaskSwitch *)
    pose proof (benign_task_reinsert s t0 0) as B. destruct (task_reinsert s t0 0) as [s1 r]. cbn [fst] in B.
    destruct r as [v|e]; [|exact B].
    destruct p as [p|]; cbn [fst snd].
    + eapply benign_trans; [exact B|]. apply chg_call_pos. split; [exact Logic.I|intros; discriminate].
    + exact B.
  - (* OTaskReinsert *)
    pose proof (benign_task_reinsert s t0 p) as B. destruct (task_reinsert s t0 p) as [s1 r]. exact B.
  - (* OCallSoon *) cbn [fst snd]. apply chg_call_soon, cb_ok_log.
  - (* OCallPos *) cbn [fst snd]. apply chg_call_pos, cb_ok_log.
  - (* OTaskThrow *)
    pose proof (benign_task_throw s t0 e) as B. destruct (task_throw s t0 e) as [s1 r]. exact B.
  - (* OTaskInterrupt *) apply benign_task_interrupt_start.
  - (* OTimeoutEnter *)
    destruct d as [d|]; [|apply benign_refl].
    pose proof (chg_call_at (notlf s) s (Qplus (now s) d) (HTrigger (length (blocks s)))) as B.
    destruct (call_at s (Qplus (now s) d) (HTrigger (length (blocks s)))) as [s1 h]. cbn [fst snd] in *.
    eapply benign_trans; [apply B; split; [exact Logic.I|intros; discriminate]|].
    apply chg_core_eq; reflexivity.
  - (* OTimeoutExit *)
    cbn [fst snd].
    eapply benign_trans; [|apply chg_cancel_handle]. apply chg_core_eq; reflexivity.
  - (* OInterruptor *)
    pose proof (benign_interruptor 4 s b 0) as B.
    destruct (interruptor 4 s b 0) as [s1 r]. cbn [fst snd] in *.
    pose proof (interruptor_wrap_fst s1 r) as E.
    destruct (interruptor_wrap s1 r) as [s2 r2]. cbn [fst snd] in *. subst s2. exact B.
  - (* OSelf *) apply benign_refl.
  - (* OQuery *) cbn [fst snd].
    unfold queue_iterated. destruct (ready (addlog s (query_code s))); apply chg_core_eq; reflexivity.
  - (* OCallSoonQuery *) cbn [fst snd].
    apply chg_call_soon. split; [exact Logic.I|intros; discriminate].
  - (* OCallSoonCancel *) cbn [fst snd].
    apply chg_call_soon. split; [exact Logic.I|intros; discriminate].
  - (* OCancelAw *)
    pose proof (benign_cancel_awaitable s f I) as B.
    destruct (cancel_awaitable s f) as [s' ok]. exact B.
Qed.
