(* C13: the PriorityLock invariant holds in every reachable state of the scheduler
   model, for all user programs and all environment action sequences. *)
From Coq Require Import QArith Sorting.Permutation.
From RecordUpdate Require Import RecordUpdate.
From Asynkit Require Import Base.Prelude Queue.PQ Queue.Order Queue.PosPQ Queue.Exec Sched.Model
  Sched.Tables Sched.QFacts Sched.LockInv Sched.Footprint Sched.LockOps Sched.LockLib.
Import RecordSetNotations.
Open Scope nat_scope.

(* ---------------------------------------------------------------- resume_stack *)
Lemma resume_noacq frs : forall t inp s,
  Inv s -> t < length (tasks s) -> no_acq frs ->
  (forall l f, In (InAcquireA l f) frs -> lkind_ (getl s l) = LPlain) ->
  ext s (fst (resume_stack t frs inp s)) /\
  (forall y frs', snd (resume_stack t frs inp s) = LSusp y frs' ->
                  pend (fst (resume_stack t frs inp s)) frs').
Proof.
  induction frs as [|fr rest IH]; intros t inp s I Ht Hn Hk; cbn [resume_stack].
  - split; [now apply ext_refl|intros; discriminate].
  - assert (Hok : frame_ok s fr).
    { pose proof (Hn fr (or_introl eq_refl)) as Ha. destruct fr; simpl in *; auto; try discriminate.
      apply (Hk l f). now left. }
    destruct (frame_resume_ext t fr inp s I Ht Hok) as [E P].
    destruct (frame_resume t fr inp s) as [s1 r]. cbn [fst snd] in *.
    destruct E as (I1 & Hlen & Hkind & H4).
    assert (Hk1 : forall l f, In (InAcquireA l f) rest -> lkind_ (getl s1 l) = LPlain).
    { intros l f Hin. rewrite Hkind. apply (Hk l f). now right. }
    destruct r as [rep|y frs1].
    + destruct (IH t rep s1 I1 ltac:(lia) (no_acq_tail fr rest Hn) Hk1) as [E2 P2].
      split; [|exact P2]. eapply ext_trans; [|exact E2]. split; [exact I1|split; [exact Hlen|split; [exact Hkind|exact H4]]].
    + cbn [fst snd]. split; [split; [exact I1|split; [exact Hlen|split; [exact Hkind|exact H4]]]|].
      intros y0 frs0 H. inversion H; subst y0 frs0. apply pend_app; eauto. apply (no_acq_tail fr rest Hn).
Qed.

Lemma infut_step t f inp s :
  exists rep, snd (frame_resume t (InFut f) inp s) = LDone rep /\
    benign s (fst (frame_resume t (InFut f) inp s)) /\
    (forall v, rep = RVal v -> woken (fst (frame_resume t (InFut f) inp s)) f = true) /\
    (forall t0, tframes (fst (frame_resume t (InFut f) inp s)) t0 = tframes s t0).
Proof.
  cbn [frame_resume]. destruct inp as [v|e].
  2:{ exists (RExc e). cbn. split; auto. split; [apply benign_refl|]. split; [intros; discriminate|auto]. }
  destruct (fdone s f).
  2:{ eexists. cbn. split; [reflexivity|]. split; [apply benign_refl|]. split; [intros; discriminate|auto]. }
  unfold fut_result. destruct (fstate_ (getf s f)) eqn:Es.
  - eexists. cbn. split; [reflexivity|]. split; [apply benign_refl|]. split; [intros; discriminate|auto].
  - eexists. cbn. split; [reflexivity|]. split; [apply benign_refl|]. split; [|auto].
    intros _ _. unfold woken. now rewrite Es.
  - eexists. cbn. split; [reflexivity|]. split; [apply benign_refl|]. split; [intros; discriminate|auto].
  - destruct (fcexc (getf s f)); eexists; cbn; (split; [reflexivity|]).
    + split; [apply chg_setf_flag; reflexivity|]. split; [intros; discriminate|auto].
    + split; [apply benign_refl|]. split; [intros; discriminate|auto].
Qed.

Theorem resume_stack_ext frs t inp s :
  Inv s -> t < length (tasks s) -> pend s frs ->
  ext s (fst (resume_stack t frs inp s)) /\
  (forall y frs', snd (resume_stack t frs inp s) = LSusp y frs' ->
                  pend (fst (resume_stack t frs inp s)) frs').
Proof.
  intros I Ht (Hs & Ha & Hk). destruct Hs as [Hn|(l & f & had & rest & -> & Hn)].
  - now apply resume_noacq.
  - cbn [resume_stack].
    destruct (infut_step t f inp s) as (rep & Er & B & Hw & Hfr).
    destruct (frame_resume t (InFut f) inp s) as [s1 r]. cbn [fst snd] in *. subst r.
    pose proof (Inv_benign s s1 B I) as I1.
    assert (Ht1 : t < length (tasks s1)) by (pose proof (benign_tasks s s1 B); lia).
    destruct (Ha l f had (or_intror (or_introl eq_refl))) as [Hf Hnf].
    assert (Hf1 : In f (objs s1 l)) by (now rewrite (benign_objs s s1 l B)).
    assert (Hnf1 : no_frame s1 f) by (intros t0 l0 had0; rewrite Hfr; apply Hnf).
    cbn [frame_resume].
    destruct (lstep_acquire_p_finish s1 t l f had rep I1 Ht1 Hf1 Hnf1 Hw) as (L & _ & W4).
    destruct (acquire_p_finish s1 t l f had rep) as [s2 r2]. cbn [fst snd] in *.
    pose proof (ls_inv L) as I2.
    assert (Ht2 : t < length (tasks s2)) by (rewrite (ls_ntasks L); exact Ht1).
    assert (Hk2 : forall l0 f0, In (InAcquireA l0 f0) rest -> lkind_ (getl s2 l0) = LPlain).
    { intros l0 f0 Hin. rewrite (ls_kind L), (benign_kind s s1 l0 B). apply (Hk l0 f0). right. now right. }
    destruct (resume_noacq rest t r2 s2 I2 Ht2 Hn Hk2) as [E3 P3].
    split; [|exact P3].
    eapply ext_trans; [apply ext_benign; eauto|]. eapply ext_trans; [apply ext_lstep; [exact L|exact W4]|exact E3].
Qed.

(* ---------------------------------------------------------------- storing pending frames *)
Theorem Inv_store s s' t :
  locks s' = locks s -> futs s' = futs s -> events s' = events s -> conds s' = conds s ->
  hcbs s' = hcbs s ->
  (forall t0, t0 <> t -> gett s' t0 = gett s t0) ->
  length (tasks s) <= length (tasks s') ->
  (forall t0, t0 < length (tasks s') -> t0 < length (tasks s) \/ t0 = t) ->
  tholding (gett s' t) = tholding (gett s t) ->
  (t < length (tasks s) -> is_prio_task s' t = is_prio_task s t /\ tfut (gett s' t) = tfut (gett s t)) ->
  (length (tasks s) <= t -> t < length (tasks s') ->
   tfut (gett s' t) < length (futs s) /\ fowner (getf s (tfut (gett s' t))) <> None) ->
  pend s (tframes s' t) ->
  Inv s -> Inv s'.
Proof.
  intros El Ef Ee Ec Eh Hto Hlen Hnew Hth Hold Hfresh (Hs & Ha & Hk) I.
  assert (Hl : forall l, getl s' l = getl s l) by (intros; unfold getl; now rewrite El).
  assert (Hf : forall f, getf s' f = getf s f) by (intros; unfold getf; now rewrite Ef).
  assert (Hob : forall l, objs s' l = objs s l) by (intros; unfold objs; now rewrite Hl).
  assert (Hw : forall f, woken s' f = woken s f) by (intros; unfold woken; now rewrite Hf).
  assert (Hfr : forall t0, t0 <> t -> tframes s' t0 = tframes s t0).
  { intros t0 Hne. unfold tframes. now rewrite Hto. }
  assert (Hfor : forall f, foreign s' f <-> foreign s f).
  { intros f. unfold foreign, gete, getc, getl. rewrite El, Ee, Ec, Eh. reflexivity. }
  assert (Hlf : forall f, lockfut s' f <-> lockfut s f).
  { intros f. unfold lockfut. split; intros [l H]; exists l; [now rewrite <- Hob|now rewrite Hob]. }
  constructor.
  - intros l. rewrite Hl. apply (iA1 I).
  - intros l t0 Hl0 Hin. rewrite Hl. rewrite El in Hl0. apply (iA2 I); auto.
    destruct (Nat.eq_dec t0 t) as [->|Hne]; [now rewrite <- Hth|now rewrite <- Hto].
  - intros l t0 Ho Hp. rewrite Hl in Ho. pose proof (iA5 I _ _ Ho) as Ht0.
    destruct (Nat.eq_dec t0 t) as [->|Hne].
    + rewrite Hth. apply (iA3 I); auto. destruct (Hold Ht0) as [E _]. now rewrite <- E.
    + rewrite Hto by auto. apply (iA3 I); auto. unfold is_prio_task in *. now rewrite <- Hto.
  - intros t0 Hp. destruct (Nat.eq_dec t0 t) as [->|Hne].
    + rewrite Hth. destruct (Nat.lt_ge_cases t (length (tasks s))) as [Ht|Ht].
      * apply (iA4 I). destruct (Hold Ht) as [E _]. now rewrite <- E.
      * now rewrite gett_oob.
    + rewrite Hto by auto. apply (iA4 I). unfold is_prio_task in *. now rewrite <- Hto.
  - intros l t0 Ho. rewrite Hl in Ho. pose proof (iA5 I _ _ Ho). lia.
  - intros l. rewrite Hl. apply (iB0 I).
  - intros l. rewrite Hl. apply (iB1 I).
  - intros c. unfold getc. rewrite Ec. apply (iB2 I).
  - intros l f1 f2. rewrite Hob, !Hw. apply (iC1 I).
  - intros l f. rewrite Hl, Hob, Hw. apply (iC2 I).
  - intros f Hlk. apply Hlf in Hlk. rewrite Ef, Hf. apply (iD0 I _ Hlk).
  - intros l l' f. rewrite !Hob. apply (iD1 I).
  - intros f Hlk Hfo. apply Hlf in Hlk. apply Hfor in Hfo. apply (iD2 I _ Hlk Hfo).
  - intros f Hfo. apply Hfor in Hfo. rewrite Ef. apply (iD3 I _ Hfo).
  - intros t0 Ht0. rewrite Ef, Hf. destruct (Nat.eq_dec t0 t) as [->|Hne].
    + destruct (Nat.lt_ge_cases t (length (tasks s))) as [Ht|Ht].
      * destruct (Hold Ht) as [_ E]. rewrite E. apply (iD4 I _ Ht).
      * apply Hfresh; auto.
    + rewrite Hto by auto. apply (iD4 I). destruct (Hnew _ Ht0); [auto|contradiction].
  - intros c Hc. rewrite Eh in Hc. pose proof (iE1 I _ Hc). destruct c; simpl in *; auto; lia.
  - intros f t0 Hc. rewrite Hf in Hc. pose proof (iE2 I _ _ Hc). lia.
  - intros t0. destruct (Nat.eq_dec t0 t) as [->|Hne]; [exact Hs|]. rewrite Hfr by auto. apply (iF1 I).
  - intros t0 l f had Hin. rewrite Hob. destruct (Nat.eq_dec t0 t) as [->|Hne].
    + apply (Ha _ _ _ Hin).
    + rewrite Hfr in Hin by auto. apply (iF2 I _ _ _ _ Hin).
  - intros t1 t2 l1 l2 f had1 had2 H1 H2.
    destruct (Nat.eq_dec t1 t) as [->|Hn1]; destruct (Nat.eq_dec t2 t) as [->|Hn2]; auto.
    + rewrite Hfr in H2 by auto. destruct (Ha _ _ _ H1) as [_ Hnf]. exfalso. eapply Hnf; eauto.
    + rewrite Hfr in H1 by auto. destruct (Ha _ _ _ H2) as [_ Hnf]. exfalso. eapply Hnf; eauto.
    + rewrite Hfr in H1, H2 by auto. eapply (iF3 I); eauto.
  - intros t0 l f Hin. rewrite Hl. destruct (Nat.eq_dec t0 t) as [->|Hne].
    + apply (Hk _ _ Hin).
    + rewrite Hfr in Hin by auto. apply (iF4 I _ _ _ Hin).
  - intros t0 l Hl0. rewrite El in Hl0. destruct (Nat.eq_dec t0 t) as [->|Hne].
    + rewrite Hth. apply (iA6 I); auto.
    + rewrite Hto by auto. apply (iA6 I); auto.
Qed.

Lemma pend_benign s s' frs : benign s s' -> pend s frs -> pend s' frs.
Proof.
  intros B (Hs & Ha & Hk). split; [exact Hs|]. split.
  - intros l f had Hin. destruct (Ha _ _ _ Hin) as [Hf Hnf]. split.
    + now rewrite (benign_objs s s' l B).
    + intros t0 l0 had0 H0. eapply Hnf. eapply chg_frames_in; eauto.
  - intros l f Hin. rewrite (benign_kind s s' l B). eauto.
Qed.

Lemma chg_append_task W s tk :
  tholding tk = [] -> frames_of (tcont_ tk) = [] -> tfut tk < length (futs s) ->
  fowner (getf s (tfut tk)) <> None -> chg W s (s <| tasks := tasks s ++ [tk] |>).
Proof.
  intros Eh Efr Hr Ho. set (s' := s <| tasks := tasks s ++ [tk] |>).
  assert (Hl : forall l, getl s' l = getl s l) by reflexivity.
  assert (Hf : forall f, getf s' f = getf s f) by reflexivity.
  assert (Ht : forall t, t < length (tasks s) -> gett s' t = gett s t).
  { intros t Ht. unfold gett, s'. cbn. now apply nth_app_old. }
  assert (Hlen : length (tasks s') = S (length (tasks s))).
  { unfold s'. cbn. rewrite app_length. simpl. lia. }
  constructor.
  - reflexivity.
  - intros l. rewrite Hl. auto.
  - lia.
  - intros t Hlt. unfold is_prio_task, tframes. rewrite Ht; auto.
  - intros t Hge. destruct (Nat.eq_dec t (length (tasks s))) as [->|Hne].
    + assert (E : gett s' (length (tasks s)) = tk) by (unfold gett, s'; cbn; apply nth_app_fresh).
      unfold tframes. rewrite E. auto.
    + assert (E : gett s' t = dtask) by (apply gett_oob; lia).
      unfold tframes. rewrite E. split; [reflexivity|]. split; [reflexivity|]. lia.
  - cbn. lia.
  - intros g _. now rewrite Hf.
  - intros g _. unfold woken. rewrite Hf. auto.
  - intros g t. rewrite Hf. auto.
  - intros c Hc. left. exact Hc.
  - intros g Hg. left. exact Hg.
  - intros Hc c. apply Hc.
  - intros g. unfold fdone. now rewrite Hf.
Qed.

Lemma benign_new_task s kind p c : Inv s -> benign s (fst (new_task s kind p c)).
Proof.
  intros I. unfold new_task.
  set (t := length (tasks s)). set (f := length (futs s)). set (s1 := fst (new_future s (Some t))).
  change (new_future s (Some t)) with (s1, f). cbv beta iota. cbn [fst].
  assert (B1 : benign s s1) by apply chg_new_future.
  eapply benign_trans; [exact B1|].
  set (tk := mkTask kind p f (TNew c) None false [] None).
  eapply benign_trans.
  - apply (chg_append_task (notlf s1) s1 tk); try reflexivity.
    + unfold s1. rewrite new_future_len. cbn. unfold f. lia.
    + unfold s1. cbn [tfut tk]. unfold f. rewrite new_future_get. discriminate.
  - apply chg_call_soon. apply cb_ok_step. cbn. rewrite app_length. simpl. unfold t. lia.
Qed.

Lemma new_task_id s kind p c : snd (new_task s kind p c) = length (tasks s).
Proof. reflexivity. Qed.

Lemma benign_spawn_task s how c : Inv s -> benign s (fst (spawn_task s how c)).
Proof. intros I. unfold spawn_task. destruct how; now apply benign_new_task. Qed.

(* ---------------------------------------------------------------- user code *)
(* [exec_ok t c s]: while task t runs the user code c from state s (up to its next
   suspension), no OSetResult/OSetExc names the future of a current lock waiter *)
Fixpoint exec_ok (t : nat) (c : coro) (s : st) {struct c} : Prop :=
  match c with
  | Ret _ | Raise _ => True
  | Call op k =>
      op_safe s op /\
      (let '(s', r) := lib_call t op s in
       match r with LDone rep => exec_ok t (k rep) s' | LSusp _ _ => True end)
  | Spawn SEager child k =>
      exec_ok t child s /\
      (let '(s, o) := exec t child s in
       match o with
       | ODone r =>
           let '(s, f) := new_future s None in
           let s := fst (fut_finish s f (match r with RVal v => FResult v | RExc e => FExc e end)) in
           exec_ok t (k (RVal (Z.of_nat f))) s
       | OYield y frs kc =>
           let s := match y with
                    | YFut f => setf s f (getf s f <| fblock := false |>)
                    | YNone => s end in
           let tn := length (tasks s) in
           let '(s, f) := new_future s (Some tn) in
           let s := s <| tasks := tasks s ++ [mkTask KC None f (TEager y frs kc) None false [] None] |> in
           let s := call_soon_ s (HStep tn None) in
           exec_ok t (k (RVal (Z.of_nat f))) s
       end)
  | Spawn how child k =>
      let '(s, t') := spawn_task s how child in
      match how with
      | SDescend =>
          let '(s, r) := lib_call t (OTaskSwitch t' (Some 1)) s in
          match r with
          | LDone (RExc e) => exec_ok t (k (RExc e)) s
          | LDone (RVal _) => exec_ok t (k (RVal (Z.of_nat t'))) s
          | LSusp _ _ => True
          end
      | SStart => True
      | _ => exec_ok t (k (RVal (Z.of_nat t'))) s
      end
  end.

Definition exec_post (t : nat) (c : coro) (s : st) : Prop :=
  ext s (fst (exec t c s)) /\
  (forall y frs k, snd (exec t c s) = OYield y frs k -> pend (fst (exec t c s)) frs).

Lemma ext_tasks s s' : ext s s' -> length (tasks s) <= length (tasks s').
Proof. intros H. apply H. Qed.

Theorem exec_ext c : forall t s,
  Inv s -> t < length (tasks s) -> exec_ok t c s -> exec_post t c s.
Proof.
  induction c as [v|e|op k IHk|how child IHc k IHk]; intros t s I Ht Hok; unfold exec_post.
  - cbn. split; [now apply ext_refl|intros; discriminate].
  - cbn. split; [now apply ext_refl|intros; discriminate].
  - cbn [exec exec_ok] in *. destruct Hok as [Hs Hk].
    destruct (lib_call_ext t op s I Hs (fun _ => Ht)) as [E P].
    destruct (lib_call t op s) as [s1 r]. cbn [fst snd] in *. destruct r as [rep|y frs].
    + destruct (IHk rep t s1 (ext_inv _ _ E) ltac:(pose proof (ext_tasks _ _ E); lia) Hk) as [E2 P2].
      split; [eapply ext_trans; eauto|exact P2].
    + cbn [fst snd]. split; [exact E|]. intros y0 frs0 k0 H. inversion H; subst. eapply P; eauto.
  - destruct how.
    + (* SPlain *)
      cbn [exec exec_ok] in *. pose proof (benign_spawn_task s SPlain child I) as B.
      destruct (spawn_task s SPlain child) as [s1 t']. cbn [fst] in B.
      pose proof (ext_benign s s1 I B) as E.
      destruct (IHk (RVal (Z.of_nat t')) t s1 (ext_inv _ _ E) ltac:(pose proof (ext_tasks _ _ E); lia) Hok) as [E2 P2].
      split; [eapply ext_trans; eauto|exact P2].
    + (* SPy *)
      cbn [exec exec_ok] in *. pose proof (benign_spawn_task s SPy child I) as B.
      destruct (spawn_task s SPy child) as [s1 t']. cbn [fst] in B.
      pose proof (ext_benign s s1 I B) as E.
      destruct (IHk (RVal (Z.of_nat t')) t s1 (ext_inv _ _ E) ltac:(pose proof (ext_tasks _ _ E); lia) Hok) as [E2 P2].
      split; [eapply ext_trans; eauto|exact P2].
    + (* SPrio *)
      cbn [exec exec_ok] in *. pose proof (benign_spawn_task s (SPrio p) child I) as B.
      destruct (spawn_task s (SPrio p) child) as [s1 t']. cbn [fst] in B.
      pose proof (ext_benign s s1 I B) as E.
      destruct (IHk (RVal (Z.of_nat t')) t s1 (ext_inv _ _ E) ltac:(pose proof (ext_tasks _ _ E); lia) Hok) as [E2 P2].
      split; [eapply ext_trans; eauto|exact P2].
    + (* SDescend *)
      cbn [exec exec_ok] in *. pose proof (benign_spawn_task s SDescend child I) as B.
      destruct (spawn_task s SDescend child) as [s1 t']. cbn [fst] in B.
      pose proof (ext_benign s s1 I B) as E. pose proof (ext_inv _ _ E) as I1.
      destruct (lib_call_ext t (OTaskSwitch t' (Some 1)) s1 I1 Logic.I (fun H => False_ind _ (Bool.diff_false_true H))) as [E2 P2].
      destruct (lib_call t (OTaskSwitch t' (Some 1)) s1) as [s2 r]. cbn [fst snd] in *.
      pose proof (ext_trans _ _ _ E E2) as E02.
      assert (Ht2 : t < length (tasks s2)) by (pose proof (ext_tasks _ _ E02); lia).
      destruct r as [[v|e]|y frs].
      * destruct (IHk (RVal (Z.of_nat t')) t s2 (ext_inv _ _ E02) Ht2 Hok) as [E3 P3].
        split; [eapply ext_trans; eauto|exact P3].
      * destruct (IHk (RExc e) t s2 (ext_inv _ _ E02) Ht2 Hok) as [E3 P3].
        split; [eapply ext_trans; eauto|exact P3].
      * cbn [fst snd]. split; [exact E02|]. intros y0 frs0 k0 H. inversion H; subst. eapply P2; eauto.
    + (* SStart *)
      cbn [exec exec_ok] in *. pose proof (benign_spawn_task s SStart child I) as B.
      destruct (spawn_task s SStart child) as [s1 t']. cbn [fst snd] in *.
      split; [now apply ext_benign|]. intros y0 frs0 k0 H. inversion H; subst.
      apply pend_inert. repeat constructor.
    + (* SEager *)
      cbn [exec exec_ok] in *. destruct Hok as [Hc Hk].
      destruct (IHc t s I Ht Hc) as [E1 P1].
      destruct (exec t child s) as [s1 o]. cbn [fst snd] in *.
      pose proof (ext_inv _ _ E1) as I1.
      assert (Ht1 : t < length (tasks s1)) by (pose proof (ext_tasks _ _ E1); lia).
      destruct o as [r|y frs kc].
      * set (f := length (futs s1)). set (s2 := fst (new_future s1 None)).
        change (new_future s1 None) with (s2, f) in Hk |- *. cbv beta iota in Hk |- *.
        assert (B2 : benign s1 s2) by apply chg_new_future.
        pose proof (Inv_benign _ _ B2 I1) as I2.
        set (x := match r with RVal v => FResult v | RExc e => FExc e end) in *.
        assert (B3 : benign s2 (fst (fut_finish s2 f x))).
        { apply benign_fut_finish; auto. right. intros H. apply (benign_lockfut s1 s2 f B2) in H.
          now apply (fresh_not_lockfut s1 I1). }
        pose proof (ext_trans _ _ _ E1 (ext_benign _ _ I1 (benign_trans _ _ _ B2 B3))) as E3.
        destruct (IHk (RVal (Z.of_nat f)) t _ (ext_inv _ _ E3) ltac:(pose proof (ext_tasks _ _ E3); lia) Hk) as [E4 P4].
        split; [eapply ext_trans; eauto|exact P4].
      * specialize (P1 y frs kc eq_refl).
        set (sa := match y with YFut f => setf s1 f (getf s1 f <| fblock := false |>) | YNone => s1 end) in *.
        assert (Ba : benign s1 sa).
        { unfold sa. destruct y; [apply benign_refl|apply chg_setf_flag; reflexivity]. }
        set (tn := length (tasks sa)) in *. set (f := length (futs sa)) in *.
        set (sb := fst (new_future sa (Some tn))) in *.
        change (new_future sa (Some tn)) with (sb, f) in Hk |- *. cbv beta iota in Hk |- *.
        assert (Bb : benign sa sb) by apply chg_new_future.
        pose proof (benign_trans _ _ _ Ba Bb) as Bab.
        pose proof (Inv_benign _ _ Bab I1) as Ib.
        set (tk := mkTask KC None f (TEager y frs kc) None false [] None) in *.
        set (sc := sb <| tasks := tasks sb ++ [tk] |>) in *.
        assert (Etn : length (tasks sb) = tn) by reflexivity.
        assert (Ic : Inv sc).
        { apply (Inv_store sb sc tn); try reflexivity; auto.
          - intros t0 Hne. unfold gett, sc. cbn.
            destruct (Nat.lt_ge_cases t0 (length (tasks sb))) as [H|H].
            + now apply nth_app_old.
            + rewrite !nth_oob; auto. rewrite app_length. simpl. lia.
          - unfold sc. cbn. rewrite app_length. lia.
          - intros t0 H0. unfold sc in H0. cbn in H0. rewrite app_length in H0. simpl in H0. lia.
          - assert (E : gett sc tn = tk) by (unfold gett, sc; cbn; rewrite <- Etn; apply nth_app_fresh).
            rewrite E. rewrite gett_oob by lia. reflexivity.
          - intros H. lia.
          - intros _ _.
            assert (E : gett sc tn = tk) by (unfold gett, sc; cbn; rewrite <- Etn; apply nth_app_fresh).
            rewrite E. cbn [tfut tk]. split.
            + unfold sb. rewrite new_future_len. unfold f. lia.
            + unfold sb, f. rewrite new_future_get. discriminate.
          - assert (E : tframes sc tn = frs).
            { unfold tframes. assert (E : gett sc tn = tk) by (unfold gett, sc; cbn; rewrite <- Etn; apply nth_app_fresh).
              rewrite E. reflexivity. }
            rewrite E. eapply pend_benign; eauto. }
        set (sd := call_soon_ sc (HStep tn None)) in *.
        assert (Bd : benign sc sd).
        { apply chg_call_soon. apply cb_ok_step. unfold sc. cbn. rewrite app_length. simpl. lia. }
        assert (E3 : ext s sd).
        { split; [eapply Inv_benign; eauto|]. split; [|split].
          - pose proof (ext_tasks _ _ E1). pose proof (benign_tasks _ _ Bab).
            change (tasks sd) with (tasks sc). unfold sc. cbn. rewrite app_length. lia.
          - intros l. change (getl sd l) with (getl sb l). rewrite (benign_kind _ _ l Bab).
            apply (ext_kind _ _ l E1).
          - intros H4. apply (WF4_chg _ _ _ Bd).
            assert (H4b : WF4 sb) by (apply (WF4_chg _ _ _ Bab); apply (ext_wf4 _ _ E1 H4)).
            exact H4b. }
        destruct (IHk (RVal (Z.of_nat f)) t sd (ext_inv _ _ E3) ltac:(pose proof (ext_tasks _ _ E3); lia) Hk) as [E4 P4].
        split; [eapply ext_trans; eauto|exact P4].
Qed.

(* ---------------------------------------------------------------- finish_step *)
Lemma Inv_store_sett s t x :
  Inv s -> t < length (tasks s) -> tholding x = tholding (gett s t) -> tprio x = tprio (gett s t) ->
  tfut x = tfut (gett s t) -> pend s (frames_of (tcont_ x)) -> Inv (sett s t x).
Proof.
  intros I Ht E1 E2 E3 P.
  assert (Eg : gett (sett s t x) t = x) by (now apply gett_sett_same).
  apply (Inv_store s (sett s t x) t); try reflexivity.
  - intros t0 Hne. apply gett_sett_other. auto.
  - unfold sett. cbn. rewrite set_nth_length. lia.
  - intros t0 H0. unfold sett in H0. cbn in H0. rewrite set_nth_length in H0. now left.
  - now rewrite Eg.
  - intros _. unfold is_prio_task. rewrite Eg. now rewrite E2, E3.
  - intros H. lia.
  - unfold tframes. now rewrite Eg.
  - exact I.
Qed.

Lemma taskfut_not_lockfut s t : Inv s -> t < length (tasks s) -> ~ lockfut s (tfut (gett s t)).
Proof.
  intros I Ht Hl. destruct (iD4 I t Ht) as [_ Ho]. destruct (iD0 I _ Hl) as [_ Hn]. contradiction.
Qed.

Lemma sett_len s t x : length (tasks (sett s t x)) = length (tasks s).
Proof. unfold sett. cbn. apply set_nth_length. Qed.

Theorem finish_step_ext t s o :
  Inv s -> t < length (tasks s) -> (forall y frs k, o = OYield y frs k -> pend s frs) ->
  ext s (finish_step t s o).
Proof.
  intros I Ht P. unfold finish_step.
  pose proof (taskfut_not_lockfut s t I Ht) as Hnl.
  destruct o as [[v|e]|y frs k].
  - (* return *)
    set (s1 := sett s t (gett s t <| tcont_ := TFin |>)).
    assert (B1 : benign s s1) by (apply chg_sett; [reflexivity|reflexivity|reflexivity|right; reflexivity]).
    pose proof (Inv_benign _ _ B1 I) as I1.
    apply ext_benign; auto. eapply benign_trans; [exact B1|].
    destruct (tmustc (gett s t)).
    + eapply benign_trans; [|apply benign_fut_finish; [|now left]].
      * bsett.
      * eapply Inv_benign; [|exact I1]. bsett.
    + apply benign_fut_finish; [exact I1|right; exact Hnl].
  - (* raise *)
    set (s1 := sett s t (gett s t <| tcont_ := TFin |>)).
    assert (B1 : benign s s1) by (apply chg_sett; [reflexivity|reflexivity|reflexivity|right; reflexivity]).
    pose proof (Inv_benign _ _ B1 I) as I1.
    apply ext_benign; auto. eapply benign_trans; [exact B1|].
    destruct (is_cancel e).
    + eapply benign_trans; [|apply benign_fut_finish; [|now left]].
      * apply chg_setf_flag; reflexivity.
      * eapply Inv_benign; [|exact I1]. apply chg_setf_flag; reflexivity.
    + apply benign_fut_finish; [exact I1|right; exact Hnl].
  - (* suspension *)
    specialize (P y frs k eq_refl).
    set (s1 := sett s t (gett s t <| tcont_ := TSusp frs k |>)).
    assert (I1 : Inv s1) by (apply Inv_store_sett; auto).
    assert (Ht1 : t < length (tasks s1)) by (unfold s1; now rewrite sett_len).
    assert (E1 : ext s s1).
    { split; [exact I1|]. split; [unfold s1; rewrite sett_len; lia|]. split; [reflexivity|]. intros H4. exact H4. }
    assert (Hsoon : forall e, benign s1 (call_soon_ s1 (HStep t e))).
    { intros e. apply chg_call_soon. now apply cb_ok_step. }
    destruct y as [|f].
    + eapply ext_step_benign; [exact E1|apply Hsoon].
    + destruct (fblock (getf s1 f)); [|eapply ext_step_benign; [exact E1|apply Hsoon]].
      destruct (Nat.eqb f (tfut (gett s t))); [eapply ext_step_benign; [exact E1|apply Hsoon]|].
      set (s2 := setf s1 f (getf s1 f <| fblock := false |>)).
      assert (B2 : benign s1 s2) by (apply chg_setf_flag; reflexivity).
      set (s3 := add_done_callback s2 f (CbWakeup t)).
      assert (B3 : benign s2 s3) by (apply chg_add_done_callback; exact Ht1).
      set (s4 := sett s3 t (gett s3 t <| twaiter := Some f |>)).
      assert (B4 : benign s3 s4) by bsett.
      pose proof (benign_trans _ _ _ B2 (benign_trans _ _ _ B3 B4)) as B14.
      destruct (tmustc (gett s4 t)); [|eapply ext_step_benign; [exact E1|exact B14]].
      pose proof (Inv_benign _ _ B14 I1) as I4.
      pose proof (benign_cancel_awaitable s4 f I4) as B5.
      destruct (cancel_awaitable s4 f) as [s5 ok]. cbn [fst] in B5.
      destruct ok.
      * eapply ext_step_benign; [exact E1|]. eapply benign_trans; [exact B14|].
        eapply benign_trans; [exact B5|]. bsett.
      * eapply ext_step_benign; [exact E1|]. eapply benign_trans; [exact B14|exact B5].
Qed.

(* ---------------------------------------------------------------- step_task *)
Definition step_ok (t : nat) (exc : option exn) (s : st) : Prop :=
  if tdone s t then True else
  let tk := gett s t in
  let exc := if tmustc tk
             then match exc with
                  | Some e => if is_cancel e then Some e else Some ECancelled
                  | None => Some ECancelled end
             else exc in
  let cont := tcont_ tk in
  let s := sett s t (tk <| tmustc := false |> <| twaiter := None |> <| tcont_ := TRun |>) in
  let s := s <| current := Some t |> in
  let inp := match exc with None => RVal 0 | Some e => RExc e end in
  match cont with
  | TNew c => match exc with Some _ => True | None => exec_ok t c s end
  | TSusp frs k =>
      let '(s, r) := resume_stack t frs inp s in
      match r with LDone rep => exec_ok t (k rep) s | LSusp _ _ => True end
  | TEager y frs k =>
      match exc with
      | None => True
      | Some _ =>
          let '(s, r) := resume_stack t frs inp s in
          match r with LDone rep => exec_ok t (k rep) s | LSusp _ _ => True end
      end
  | TRun | TFin => True
  end.

Lemma step_tail t s0 s3 o :
  ext s0 s3 -> t < length (tasks s3) -> (forall y frs k, o = OYield y frs k -> pend s3 frs) ->
  ext s0 ((finish_step t s3 o) <| current := None |>).
Proof.
  intros E Ht P. pose proof (finish_step_ext t s3 o (ext_inv _ _ E) Ht P) as E2.
  eapply ext_trans; [exact E|]. eapply ext_step_benign; [exact E2|]. apply chg_core_eq; reflexivity.
Qed.

Lemma resume_then_exec t frs inp s0 s k :
  ext s0 s -> t < length (tasks s) -> pend s frs ->
  (let '(s1, r) := resume_stack t frs inp s in
   match r with LDone rep => exec_ok t (k rep) s1 | LSusp _ _ => True end) ->
  let '(s3, o) := (let '(s1, r) := resume_stack t frs inp s in
                   match r with
                   | LDone rep => exec t (k rep) s1
                   | LSusp y frs' => (s1, OYield y frs' k) end) in
  ext s0 s3 /\ t < length (tasks s3) /\ (forall y frs0 k0, o = OYield y frs0 k0 -> pend s3 frs0).
Proof.
  intros E Ht P Hok.
  destruct (resume_stack_ext frs t inp s (ext_inv _ _ E) Ht P) as [E1 P1].
  destruct (resume_stack t frs inp s) as [s1 r]. cbn [fst snd] in *.
  pose proof (ext_trans _ _ _ E E1) as E01.
  assert (Ht1 : t < length (tasks s1)) by (pose proof (ext_tasks _ _ E1); lia).
  destruct r as [rep|y frs1].
  - destruct (exec_ext (k rep) t s1 (ext_inv _ _ E1) Ht1 Hok) as [E2 P2].
    destruct (exec t (k rep) s1) as [s3 o]. cbn [fst snd] in *.
    split; [eapply ext_trans; eauto|]. split; [pose proof (ext_tasks _ _ E2); lia|exact P2].
  - split; [exact E01|]. split; [exact Ht1|]. intros y0 frs0 k0 H. inversion H; subst. eapply P1; eauto.
Qed.

Theorem step_task_ext t exc s :
  Inv s -> t < length (tasks s) -> step_ok t exc s -> ext s (step_task t exc s).
Proof.
  intros I Ht Hok. unfold step_task, step_ok in *.
  destruct (tdone s t); [apply ext_benign; auto; apply chg_core_eq; reflexivity|].
  set (exc' := if tmustc (gett s t)
               then match exc with
                    | Some e => if is_cancel e then Some e else Some ECancelled
                    | None => Some ECancelled end
               else exc) in *.
  set (s1 := sett s t (gett s t <| tmustc := false |> <| twaiter := None |> <| tcont_ := TRun |>)) in *.
  set (s2 := s1 <| current := Some t |>) in *.
  assert (B2 : benign s s2).
  { apply benign_trans with (s2 := s1); [|apply chg_core_eq; reflexivity].
    apply chg_sett; [reflexivity|reflexivity|reflexivity|right; reflexivity]. }
  pose proof (ext_benign _ _ I B2) as E2.
  assert (Ht2 : t < length (tasks s2)) by (pose proof (ext_tasks _ _ E2); lia).
  assert (Hfr2 : forall t0, tframes s2 t0 = if Nat.eqb t t0 then [] else tframes s t0).
  { intros t0. unfold tframes. change (gett s2 t0) with (gett s1 t0). unfold s1. rewrite gett_sett.
    apply Nat.ltb_lt in Ht. rewrite Ht, andb_true_r. destruct (Nat.eqb t t0); reflexivity. }
  assert (P2 : pend s2 (tframes s t)).
  { split; [apply (iF1 I)|]. split.
    - intros l f had Hin. split; [apply (iF2 I _ _ _ _ Hin)|].
      intros t0 l0 had0 H0. rewrite Hfr2 in H0. destruct (Nat.eqb t t0) eqn:E; [destruct H0|].
      apply Nat.eqb_neq in E. apply E. eapply (iF3 I); eauto.
    - intros l f Hin. apply (iF4 I _ _ _ Hin). }
  unfold tframes in P2.
  destruct (tcont_ (gett s t)) as [c|frs k|y frs k| |]; cbn [frames_of] in P2.
  - (* TNew *)
    destruct exc' as [e|].
    + apply step_tail; auto. intros; discriminate.
    + destruct (exec_ext c t s2 (ext_inv _ _ E2) Ht2 Hok) as [E3 P3].
      destruct (exec t c s2) as [s3 o]. cbn [fst snd] in *.
      apply step_tail; [eapply ext_trans; eauto|pose proof (ext_tasks _ _ E3); lia|exact P3].
  - (* TSusp *)
    pose proof (resume_then_exec t frs (match exc' with None => RVal 0 | Some e => RExc e end) s s2 k E2 Ht2 P2 Hok) as H.
    destruct (let '(s1, r) := resume_stack t frs _ s2 in _) as [s3 o].
    destruct H as (E3 & Ht3 & P3). apply step_tail; auto.
  - (* TEager *)
    destruct exc' as [e|].
    + pose proof (resume_then_exec t frs (RExc e) s s2 k E2 Ht2 P2 Hok) as H.
      destruct (let '(s1, r) := resume_stack t frs _ s2 in _) as [s3 o].
      destruct H as (E3 & Ht3 & P3). apply step_tail; auto.
    + set (s3 := match y with YFut f => setf s2 f (getf s2 f <| fblock := true |>) | YNone => s2 end).
      assert (B3 : benign s2 s3).
      { unfold s3. destruct y; [apply benign_refl|apply chg_setf_flag; reflexivity]. }
      apply step_tail.
      * eapply ext_step_benign; eauto.
      * pose proof (benign_tasks _ _ B3). lia.
      * intros y0 frs0 k0 H. inversion H; subst. eapply pend_benign; eauto.
  - (* TRun *) apply step_tail; auto. intros; discriminate.
  - (* TFin *) apply step_tail; auto. intros; discriminate.
Qed.

(* ---------------------------------------------------------------- the loop *)
Definition wakeup_ok (t f : nat) (s : st) : Prop :=
  match fstate_ (getf s f) with
  | FResult _ => step_ok t None s
  | FExc e => step_ok t (Some e) s
  | FCancelled => let '(s', r) := fut_result s f in
                  step_ok t (match r with RExc e => Some e | RVal _ => None end) s'
  | FPending => step_ok t (Some EInvalidState) s
  end.

Definition run_callback_ok (c : callback) (s : st) : Prop :=
  match c with
  | HStep t e => step_ok t e s
  | HWakeup t f => wakeup_ok t f s
  | _ => True
  end.

Definition run_one_ok (s : st) : Prop :=
  match rq_popleft (ready s) with
  | None => True
  | Some (h, r) =>
      let s := s <| ready := r |> in
      let hd := geth s h in
      if hcancelled hd then True else run_callback_ok (hcb hd) s
  end.

(* the side condition on a run: no completion of a current lock-waiter future by
   user code or by the environment, and no PriorityLock.acquire from outside a task *)
Definition action_ok (s : st) (a : action) : Prop :=
  match a with
  | AStep => run_one_ok s
  | ADo op => op_safe s op /\ needs_task op = false
  | _ => True
  end.

Fixpoint run_ok (s : st) (acts : list action) : Prop :=
  match acts with
  | [] => True
  | a :: rest => action_ok s a /\ run_ok (do_action s a) rest
  end.

Theorem wakeup_ext t f s :
  Inv s -> t < length (tasks s) -> wakeup_ok t f s -> ext s (wakeup t f s).
Proof.
  intros I Ht Hok. unfold wakeup, wakeup_ok in *. destruct (fstate_ (getf s f)).
  - now apply step_task_ext.
  - now apply step_task_ext.
  - now apply step_task_ext.
  - pose proof (chg_fut_result (notlf s) s f) as B. destruct (fut_result s f) as [s' r]. cbn [fst] in B.
    eapply ext_trans; [apply ext_benign; eauto|]. apply step_task_ext; auto.
    + eapply Inv_benign; eauto.
    + pose proof (benign_tasks _ _ B). lia.
Qed.

Theorem run_callback_ext c s :
  Inv s -> In c (hcbs s) -> run_callback_ok c s -> ext s (run_callback c s).
Proof.
  intros I Hin Hok. pose proof (iE1 I _ Hin) as Hc.
  destruct c; cbn [run_callback run_callback_ok cb_task_ok] in *.
  - now apply step_task_ext.
  - now apply wakeup_ext.
  - pose proof (benign_task_reinsert s t p) as B. destruct (task_reinsert s t p) as [s' r]. cbn [fst] in B.
    destruct r; [now apply ext_benign|].
    eapply ext_step_benign; [apply ext_benign; eauto|]. apply chg_core_eq; reflexivity.
  - apply ext_benign; auto. apply chg_core_eq; reflexivity.
  - apply ext_benign; auto. apply benign_fut_finish; auto. right.
    intros Hl. apply (iD2 I _ Hl). eapply foreign_timer; eauto.
  - apply ext_benign; auto. now apply benign_new_task.
  - apply ext_benign; auto. unfold queue_iterated.
    destruct (ready (addlog s (query_code s))); apply chg_core_eq; reflexivity.
  - apply ext_benign; auto. now apply benign_cancel_task.
Qed.

Theorem run_one_ext s : Inv s -> run_one_ok s -> ext s (run_one s).
Proof.
  intros I Hok. unfold run_one, run_one_ok in *.
  destruct (rq_popleft (ready s)) as [[h r]|]; [|now apply ext_refl].
  set (s1 := s <| ready := r |>) in *.
  assert (B1 : benign s s1) by (apply chg_core_eq; reflexivity).
  destruct (hcancelled (geth s1 h)) eqn:Ec; [now apply ext_benign|].
  eapply ext_trans; [apply ext_benign; eauto|].
  apply run_callback_ext; auto.
  - eapply Inv_benign; eauto.
  - change (hcbs s1) with (hcbs s). change (geth s1 h) with (geth s h) in *.
    destruct (Nat.lt_ge_cases h (length (handles s))) as [Hh|Hh].
    + unfold hcbs, geth. apply in_map. now apply nth_In.
    + unfold geth in Ec. rewrite nth_overflow in Ec by auto. discriminate.
Qed.

Lemma core_drop_cancelled fuel : forall s, benign s (drop_cancelled fuel s).
Proof.
  induction fuel as [|fuel IH]; intros s; cbn [drop_cancelled]; [apply benign_refl|].
  destruct (timers s) as [|[w h] tm]; [apply benign_refl|].
  destruct (hcancelled (geth s h)); [|apply benign_refl].
  destruct (HeapqModel.heappop timer_lt tdflt ((w, h) :: tm)) as [[e tm']|]; [|apply benign_refl].
  eapply benign_trans; [|apply IH]. apply chg_core_eq; reflexivity.
Qed.

Lemma core_move_due fuel : forall s, benign s (move_due fuel s).
Proof.
  induction fuel as [|fuel IH]; intros s; cbn [move_due]; [apply benign_refl|].
  destruct (timers s) as [|[w h] tm]; [apply benign_refl|].
  destruct (Qle_bool w (now s)); [|apply benign_refl].
  destruct (HeapqModel.heappop timer_lt tdflt ((w, h) :: tm)) as [[[w' h'] tm']|]; [|apply benign_refl].
  eapply benign_trans; [|apply IH]. apply chg_core_eq; reflexivity.
Qed.

Lemma benign_begin_iteration s : benign s (begin_iteration s).
Proof. unfold begin_iteration. eapply benign_trans; [apply core_drop_cancelled|apply core_move_due]. Qed.

Theorem do_action_ext s a : Inv s -> action_ok s a -> ext s (do_action s a).
Proof.
  intros I Hok. destruct a; cbn [do_action action_ok] in *.
  - now apply run_one_ext.
  - apply ext_benign; auto. apply benign_begin_iteration.
  - apply ext_benign; auto. apply chg_core_eq; reflexivity.
  - apply ext_benign; auto. now apply benign_spawn_task.
  - destruct Hok as [Hs Hn]. apply (lib_call_ext 0 op s I Hs). intros H. congruence.
Qed.

(* ---------------------------------------------------------------- initial state *)
Lemma init_getl p fa dr lks cds nev l :
  exists k, getl (init_st p fa dr lks cds nev) l = mkLock k false None pq_empty [] [].
Proof.
  unfold getl, init_st. cbn [locks].
  destruct (nth_in_or_default l (map (fun k => mkLock k false None pq_empty [] []) lks) dlock) as [H|H].
  - apply in_map_iff in H as (k & E & _). exists k. now rewrite <- E.
  - exists LPrio. rewrite H. reflexivity.
Qed.

Lemma init_getc p fa dr lks cds nev c :
  cpq (getc (init_st p fa dr lks cds nev) c) = pq_empty /\ cdq (getc (init_st p fa dr lks cds nev) c) = [].
Proof.
  unfold getc, init_st. cbn [conds].
  destruct (nth_in_or_default c (map (fun c => mkCond (fst c) (snd c) pq_empty []) cds) dcond) as [H|H].
  - apply in_map_iff in H as (k & E & _). rewrite <- E. auto.
  - rewrite H. auto.
Qed.

Lemma init_gete p fa dr lks cds nev e : gete (init_st p fa dr lks cds nev) e = dev.
Proof.
  unfold gete, init_st. cbn [events].
  destruct (nth_in_or_default e (repeat dev nev) dev) as [H|H]; [|exact H].
  now apply repeat_spec in H.
Qed.

Theorem Inv_init p fa dr lks cds nev : Inv (init_st p fa dr lks cds nev).
Proof.
  set (s := init_st p fa dr lks cds nev).
  assert (Hl : forall l, exists k, getl s l = mkLock k false None pq_empty [] []) by (intros; apply init_getl).
  assert (Ht : forall t, gett s t = dtask) by (intros t; unfold gett, s, init_st; cbn; destruct t; reflexivity).
  assert (Hf : forall f, getf s f = dfut) by (intros f; unfold getf, s, init_st; cbn; destruct f; reflexivity).
  assert (Hob : forall l, objs s l = []).
  { intros l. unfold objs. destruct (Hl l) as [k ->]. reflexivity. }
  assert (Hlf : forall f, ~ lockfut s f). { intros f [l H]. rewrite Hob in H. destruct H. }
  assert (Hfo : forall f, ~ foreign s f).
  { intros f H. for_cases H.
    - destruct (Hl l) as [k E]. rewrite E in H. destruct H.
    - unfold s in H. rewrite init_gete in H. destruct H.
    - destruct (init_getc p fa dr lks cds nev c) as [E _]. fold s in E. rewrite E in H. destruct H.
    - destruct (init_getc p fa dr lks cds nev c) as [_ E]. fold s in E. rewrite E in H. destruct H.
    - destruct H. }
  assert (Hfr : forall t, tframes s t = []) by (intros t; unfold tframes; now rewrite Ht).
  constructor.
  - intros l _. destruct (Hl l) as [k ->]. cbn. split; [congruence|discriminate].
  - intros l t _. rewrite Ht. intros [].
  - intros l t. destruct (Hl l) as [k ->]. discriminate.
  - intros t _. now rewrite Ht.
  - intros l t. destruct (Hl l) as [k ->]. discriminate.
  - intros l _. destruct (Hl l) as [k ->]. reflexivity.
  - intros l. destruct (Hl l) as [k ->]. apply qwf_empty.
  - intros c. destruct (init_getc p fa dr lks cds nev c) as [E _]. fold s in E. rewrite E. apply PQInv_empty.
  - intros l f1 f2 H. rewrite Hob in H. destruct H.
  - intros l f _ H. rewrite Hob in H. destruct H.
  - intros f H. destruct (Hlf _ H).
  - intros l l' f H. rewrite Hob in H. destruct H.
  - intros f H. destruct (Hlf _ H).
  - intros f H. destruct (Hfo _ H).
  - intros t H. cbn in H. lia.
  - intros c [].
  - intros f t. rewrite Hf. intros [].
  - intros t. rewrite Hfr. apply stack_ok_nil.
  - intros t l f had. rewrite Hfr. intros [].
  - intros t t' l l' f had had'. rewrite Hfr. intros [].
  - intros t l f. rewrite Hfr. intros [].
  - intros t l _. rewrite Ht. simpl. lia.
Qed.

(* ---------------------------------------------------------------- main theorem *)
Theorem run_inv acts : forall s, Inv s -> run_ok s acts -> Inv (fold_left do_action acts s).
Proof.
  induction acts as [|a acts IH]; intros s I Hok; simpl; [exact I|].
  destruct Hok as [Ha Hr]. apply IH; [|exact Hr]. apply (do_action_ext s a I Ha).
Qed.

Theorem C13_inv_all p fa dr lks cds nev acts :
  run_ok (init_st p fa dr lks cds nev) acts ->
  Inv (fold_left do_action acts (init_st p fa dr lks cds nev)).
Proof. apply run_inv. apply Inv_init. Qed.

(* ---------------------------------------------------------------- I4 in every reachable state *)
Lemma WF4_init p fa dr lks cds nev : WF4 (init_st p fa dr lks cds nev).
Proof.
  intros l _ _ Hne. exfalso. apply Hne. unfold objs.
  destruct (init_getl p fa dr lks cds nev l) as [k ->]. reflexivity.
Qed.

Theorem run_inv_wf4 acts : forall s,
  Inv s -> WF4 s -> run_ok s acts ->
  Inv (fold_left do_action acts s) /\ WF4 (fold_left do_action acts s).
Proof.
  induction acts as [|a acts IH]; intros s I H4 Hok; simpl; [auto|].
  destruct Hok as [Ha Hr]. pose proof (do_action_ext s a I Ha) as E.
  apply IH; [apply (ext_inv _ _ E)|apply (ext_wf4 _ _ E H4)|exact Hr].
Qed.

Theorem C13_wake_in_flight_all p fa dr lks cds nev acts :
  run_ok (init_st p fa dr lks cds nev) acts ->
  WF4 (fold_left do_action acts (init_st p fa dr lks cds nev)).
Proof. intros H. apply run_inv_wf4; auto. apply Inv_init. apply WF4_init. Qed.
