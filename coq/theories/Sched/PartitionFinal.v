(* C09: the list ready queue meets QSpec; the partition theorem under Inv09. *)
From Coq Require Import QArith Sorting.Permutation.
From RecordUpdate Require Import RecordUpdate.
From Asynkit Require Import Base.Prelude Queue.ListFacts Queue.PQ Queue.PosPQ Queue.Exec
     Sched.Model Sched.PartTables Sched.PartitionProofs Sched.PartitionSteps Sched.PartitionRun.
Import RecordSetNotations.
Open Scope nat_scope.

(* ------------------------------------------------------------ the list queue *)
Definition qok_list (r : rq) : Prop := match r with RList _ => True | RPos _ => False end.

Lemma QSpec_list : QSpec qok_list.
Proof.
  constructor.
  - intros [l|p] h pr []. split; [exact Logic.I|]. simpl. symmetry. apply Permutation_cons_append.
  - intros [l|p] h r' [] E. simpl in E. destruct l as [|x l]; inversion E; subst.
    split; [exact Logic.I|]. simpl. reflexivity.
  - intros [l|p] key h r' [] E. simpl in E. destruct (find_last key l) as [i|] eqn:F; inversion E; subst.
    destruct (find_last_some key l i 0 F) as [Hi Hk]. split; [exact Logic.I|]. split; [exact Hk|].
    simpl. apply perm_remove_nth. exact Hi.
  - intros [l|p] key [] E h Hh. simpl in E. destruct (find_last key l) as [i|] eqn:F; [discriminate|].
    eapply find_last_none; eauto.
  - intros [l|p] h r' [] E. simpl in E. destruct (find_last (Nat.eqb h) l) as [i|] eqn:F; inversion E; subst.
    destruct (find_last_some (Nat.eqb h) l i 0 F) as [Hi Hk]. apply Nat.eqb_eq in Hk.
    split; [exact Logic.I|]. simpl. rewrite Hk. apply perm_remove_nth. exact Hi.
  - intros [l|p] k h []. split; [exact Logic.I|]. simpl. apply perm_insert_nth.
  - intros [l|p] key pr []. split; [exact Logic.I|]. reflexivity.
  - intros p [].
Qed.

(* ------------------------------------------------------------ the partition *)
Lemma in_dedup x : forall l, In x (dedup l) <-> In x l.
Proof.
  induction l as [|y l IH]; simpl; [tauto|].
  destruct (existsb (Nat.eqb y) l) eqn:E.
  - rewrite IH. split; auto. intros [<-|H]; auto.
    apply existsb_exists in E. destruct E as (z & Hz & Ez). apply Nat.eqb_eq in Ez. subst. auto.
  - simpl. rewrite IH. tauto.
Qed.

Lemma in_runnable_iff s t : In t (runnable_tasks s) <-> 0 < hcnt s t.
Proof.
  unfold runnable_tasks. rewrite in_dedup, in_flat_map. unfold hcnt.
  assert (Ei : ready_items s = rq_items (ready s)) by reflexivity. rewrite Ei.
  split.
  - intros (h & Hh & Hi). apply (cnt_in_pos _ _ h Hh). apply task_key_true.
    unfold task_of_handle, geth. change dh with (mkH (HLog 0) true).
    destruct (task_of_cb _) as [t'|]; [|destruct Hi]. destruct Hi as [<-|[]]. reflexivity.
  - intros Hc. destruct (cnt_pos_in _ _ Hc) as (h & Hh & Hk). exists h. split; auto.
    apply task_key_true in Hk. unfold task_of_handle, geth in Hk. change dh with (mkH (HLog 0) true) in Hk.
    rewrite Hk. left. reflexivity.
Qed.

Lemma in_all_tasks s t : In t (all_tasks s) <-> t < length (tasks s) /\ tdone s t = false.
Proof.
  unfold all_tasks. rewrite filter_In, in_seq. unfold tdone, fdone, gett, getf.
  rewrite negb_true_iff. split; intros [A B]; split; auto; lia.
Qed.

Lemma existsb_eqb_in t l : existsb (Nat.eqb t) l = true <-> In t l.
Proof.
  rewrite existsb_exists. split.
  - intros (x & Hx & E). apply Nat.eqb_eq in E. subst. auto.
  - intros H. exists t. split; auto. apply Nat.eqb_refl.
Qed.

Lemma in_blocked_tasks s t :
  In t (blocked_tasks s) <->
  In t (all_tasks s) /\ ~ In t (runnable_tasks s) /\ current s <> Some t.
Proof.
  unfold blocked_tasks. rewrite filter_In, andb_true_iff, !negb_true_iff.
  split; intros (A & B & C); split; auto.
  - split.
    + intros H. apply existsb_eqb_in in H. congruence.
    + intros H. rewrite H, Nat.eqb_refl in C. discriminate.
  - split.
    + destruct (existsb (Nat.eqb t) (runnable_tasks s)) eqn:E; auto. apply existsb_eqb_in in E. tauto.
    + destruct (current s) as [c|]; auto. apply Nat.eqb_neq. congruence.
Qed.

Lemma blocked_bo s t : task_is_blocked s t = true <-> exists f, bo s t = Some f.
Proof.
  unfold task_is_blocked, bo. destruct (twaiter (gett s t)) as [f|].
  - destruct (fdone s f); simpl.
    + split; [discriminate|]. intros (? & ?). discriminate.
    + split; eauto.
  - split; [discriminate|]. intros (? & ?). discriminate.
Qed.

Section Partition.
Variable qok : rq -> Prop.
Notation InvC := (InvC qok).

(* every live task is in exactly one of the three classes, and the helper
   predicates agree with real membership of the ready queue *)
Theorem partition_classes s t :
  InvC (current s) s -> In t (all_tasks s) ->
  (current s = Some t /\ ~ In t (runnable_tasks s) /\ ~ In t (blocked_tasks s)) \/
  (current s <> Some t /\ In t (runnable_tasks s) /\ ~ In t (blocked_tasks s) /\
   hcnt s t = 1 /\ task_is_runnable s t = true /\ task_is_blocked s t = false) \/
  (current s <> Some t /\ ~ In t (runnable_tasks s) /\ In t (blocked_tasks s) /\
   hcnt s t = 0 /\ task_is_runnable s t = false /\ task_is_blocked s t = true).
Proof.
  intros I Ha. pose proof Ha as Ha'. apply in_all_tasks in Ha. destruct Ha as [Ht Hd].
  pose proof (i_cls I t Ht Hd) as C. unfold cls in C.
  destruct (is_cur (current s) t) eqn:Hc.
  - left. destruct (current s) as [c|] eqn:Ecur; [|discriminate]. simpl in Hc. apply Nat.eqb_eq in Hc. subst c.
    destruct C as (Q1 & _ & _). split; auto. split.
    + rewrite in_runnable_iff. lia.
    + rewrite in_blocked_tasks. intros (_ & _ & H). congruence.
  - assert (Hn : current s <> Some t).
    { intros E. rewrite E in Hc. simpl in Hc. rewrite Nat.eqb_refl in Hc. discriminate. }
    right. destruct C as (R1 & R2). destruct (bo s t) as [f|] eqn:Eb.
    + right. assert (Hb : task_is_blocked s t = true) by (apply blocked_bo; eauto).
      assert (Hr : ~ In t (runnable_tasks s)) by (rewrite in_runnable_iff; lia).
      repeat split; auto.
      * apply in_blocked_tasks. auto.
      * unfold task_is_runnable. rewrite Hb. reflexivity.
    + left. assert (Hb : task_is_blocked s t = false).
      { destruct (task_is_blocked s t) eqn:E; auto. apply blocked_bo in E. destruct E as (f & E). congruence. }
      assert (Hr : In t (runnable_tasks s)) by (rewrite in_runnable_iff; lia).
      repeat split; auto.
      * rewrite in_blocked_tasks. tauto.
      * unfold task_is_runnable. rewrite Hb, Hd. reflexivity.
Qed.

(* membership of the ready queue = task_is_runnable, for a task neither done nor running *)
Corollary runnable_iff_in_queue s t :
  InvC (current s) s -> t < length (tasks s) -> tdone s t = false -> current s <> Some t ->
  (task_is_runnable s t = true <-> 0 < hcnt s t) /\
  (task_is_blocked s t = true <-> hcnt s t = 0).
Proof.
  intros I Ht Hd Hn. assert (Ha : In t (all_tasks s)) by (apply in_all_tasks; auto).
  destruct (partition_classes s t I Ha) as [(E & _)|[(_ & _ & _ & H1 & H2 & H3)|(_ & _ & _ & H1 & H2 & H3)]];
    [congruence|..]; rewrite H1, H2, H3; split; split; intros; try lia; try congruence.
Qed.

(* the assertions inside runnable_tasks() / blocked_tasks() hold *)
Theorem query_code_ok s :
  InvC (current s) s -> (forall t, In t (runnable_tasks s) -> tdone s t = false) ->
  (0 <= query_code s)%Z.
Proof.
  intros I Hclean. unfold query_code.
  set (blocked := fun t => match twaiter (nth t (tasks s) dtask) with
                           | Some f => match fstate_ (nth f (futs s) dfut) with FPending => true | _ => false end
                           | None => false end).
  assert (Eb : forall t, blocked t = task_is_blocked s t).
  { intros t. unfold blocked, task_is_blocked, fdone, gett, getf.
    destruct (twaiter (nth t (tasks s) dtask)); auto. destruct (fstate_ _); reflexivity. }
  destruct (existsb blocked (runnable_tasks s)) eqn:E1.
  { exfalso. apply existsb_exists in E1. destruct E1 as (t & Hr & Hb). rewrite Eb in Hb.
    pose proof (Hclean t Hr) as Hd. pose proof Hr as Hr'. apply in_runnable_iff in Hr'.
    assert (Ht : t < length (tasks s)).
    { destruct (Nat.lt_ge_cases t (length (tasks s))); auto. destruct (i_oor I t H). lia. }
    assert (Ha : In t (all_tasks s)) by (apply in_all_tasks; auto).
    destruct (partition_classes s t I Ha) as [(_ & H & _)|[(_ & _ & _ & _ & _ & H)|(_ & H & _)]];
      try tauto; congruence. }
  destruct (forallb blocked (blocked_tasks s)) eqn:E2; simpl.
  - lia.
  - exfalso. assert (forallb blocked (blocked_tasks s) = true); [|congruence].
    apply forallb_forall. intros t Hb. rewrite Eb. pose proof Hb as Hb'.
    apply in_blocked_tasks in Hb'. destruct Hb' as (Ha & Hr & Hn).
    destruct (partition_classes s t I Ha) as [(H & _)|[(_ & H & _)|(_ & _ & _ & _ & _ & H)]];
      try tauto; congruence.
Qed.

End Partition.
