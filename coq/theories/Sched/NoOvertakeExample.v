(* C12 no-overtake: a run on which the premises of the history theorem hold and its conclusion is
   visible.  List loop, two PriorityLocks.
     H (task 0, priority 0)   holds lock 0 across four sleep(0), then releases it;
     B (task 1, priority 3)   queues on lock 0: future 4, arrival 0;
     C (task 2, priority -10) queues on lock 0: future 5, arrival 1;
     A (task 3, priority 5)   takes lock 1, then queues on lock 0: future 6, arrival 2, key 5;
     X (task 4, priority -5)  queues on lock 1 (held by the queued A): A inherits -5 AFTER it began
                              waiting and its entry in lock 0 is re-keyed to -5 (arrival 2 kept).
   Window: states 12..14 (after X's acquire; action 12 = a sleep of H, action 13 = H's release).
   A waits throughout and is strictly more urgent than B throughout; the release inside the window
   hands lock 0 to C, not to B, although B arrived first.  The next hand-over (action 14, by C) goes
   to A, again before the earlier arrival B: lock 0 is served in the order C, A, B while the
   arrival order was B, C, A. *)
From Coq Require Import QArith Lqa.
From Asynkit Require Import Base.Prelude Queue.PQ Queue.Exec Sched.Model Sched.Corr Sched.LockInv
  Sched.LockLib Sched.LockProofs Sched.InheritEprio Sched.InheritHandover Sched.WaitProofs
  Sched.NoOvertakeRel Sched.NoOvertakeThms.
Open Scope nat_scope.

Definition nH : script :=
  SDo (OAcquire 0) (SDo OSleep0 (SDo OSleep0 (SDo OSleep0 (SDo OSleep0 (SDo (ORelease 0) SEnd))))).
Definition nB : script := SDo (OAcquire 0) (SDo (ORelease 0) SEnd).
Definition nC : script := SDo (OAcquire 0) (SDo (ORelease 0) SEnd).
Definition nA : script :=
  SDo (OAcquire 1) (SDo (OAcquire 0) (SDo (ORelease 0) (SDo (ORelease 1) SEnd))).
Definition nX : script := SDo (OAcquire 1) (SDo (ORelease 1) SEnd).
Definition nacts : list action :=
  map act [XSpawn (SPrio 0) nH; XStep; XSpawn (SPrio 3) nB; XSpawn (SPrio (-10)) nC; XSpawn (SPrio 5) nA;
           XStep; XStep; XStep; XStep; XSpawn (SPrio (-5)) nX; XStep; XStep; XStep; XStep; XStep; XStep].
(* notations, not definitions: the theorems are instantiated by syntactic matching *)
Notation nst0 := (init_st false 0%Q [] [LPrio; LPrio] [] 0).
Notation NT := (tr nst0 nacts).

Example nrun_ok : run_ok nst0 nacts.
Proof. vm_compute. repeat split. Qed.
Example nrun_ne : run_ne nst0 nacts.
Proof. vm_compute. repeat split; intros; discriminate. Qed.

(* the waiter queue of lock 0 in the window, and before X arrived *)
Example n_queue :
  arr (lpq (getl (NT 11) 0)) = [mkE (-10)%Q 1 5; mkE 3%Q 0 4; mkE 5%Q 2 6] /\
  arr (lpq (getl (NT 12) 0)) = [mkE (-10)%Q 1 5; mkE 3%Q 0 4; mkE (-5)%Q 2 6] /\
  arr (lpq (getl (NT 13) 0)) = [mkE (-10)%Q 1 5; mkE 3%Q 0 4; mkE (-5)%Q 2 6] /\
  arr (lpq (getl (NT 14) 0)) = [mkE (-10)%Q 1 5; mkE 3%Q 0 4; mkE (-5)%Q 2 6] /\
  arr (lpq (getl (NT 15) 0)) = [mkE (-5)%Q 2 6; mkE 3%Q 0 4] /\
  lwt (getl (NT 12) 0) = [(4, 1); (5, 2); (6, 3)] /\
  (* A (task 3) holds lock 1, on which X (task 4) is queued: outside the "flat" domain *)
  tholding (gett (NT 12) 3) = [1] /\ lwt (getl (NT 12) 1) = [(8, 4)] /\
  map (fun t => Qred (wprio (NT 11) t)) [1; 2; 3] = [3%Q; (-10)%Q; 5%Q] /\
  map (fun t => Qred (wprio (NT 12) t)) [1; 2; 3] = [3%Q; (-10)%Q; (-5)%Q].
Proof. repeat split; vm_compute; reflexivity. Qed.

Ltac grant := unfold granted_at;
  split; [vm_compute; tauto|split; [vm_compute; tauto|split; vm_compute; reflexivity]].

Lemma two k : 12 <= k <= 13 -> k = 12 \/ k = 13.
Proof. lia. Qed.

Example n_keyed k : 12 <= k <= 14 -> keyed (NT k) 0.
Proof.
  intros Hk. assert (k = 12 \/ k = 13 \/ k = 14) as [->|[->| ->]] by lia.
  - intros e He _. destruct n_queue as (_ & E & _). rewrite E in He.
    destruct He as [<-|[<-|[<-|[]]]]; vm_compute; reflexivity.
  - intros e He _. destruct n_queue as (_ & _ & E & _). rewrite E in He.
    destruct He as [<-|[<-|[<-|[]]]]; vm_compute; reflexivity.
  - intros e He Hl. destruct n_queue as (_ & _ & _ & E & _). rewrite E in He.
    destruct He as [<-|[<-|[<-|[]]]]; vm_compute; reflexivity.
Qed.

(* the holder of lock 0 (H in states 12 and 13, nobody in state 14) is not queued on a lock *)
Ltac hfree := intros o l0 f Ho Hin; vm_compute in Ho;
  first [discriminate Ho
        |injection Ho as <-; destruct l0 as [|[|l0]]; vm_compute in Hin;
         [intuition congruence|intuition congruence|destruct l0; destruct Hin]].

Example n_holder_free k : 12 <= k <= 14 -> holder_free (NT k) 0.
Proof.
  intros Hk. assert (k = 12 \/ k = 13 \/ k = 14) as [->|[->| ->]] by lia; hfree.
Qed.

(* A (future 6, arrival 2) waits on lock 0 in states 12, 13, 14 *)
Example n_A_waits : waits_through NT 0 6 2 12 14.
Proof.
  intros k Hk. assert (k = 12 \/ k = 13 \/ k = 14) as [->|[->| ->]] by lia;
    (split; [exists (mkE (-5)%Q 2 6); split; [vm_compute; tauto|split; reflexivity]|vm_compute; reflexivity]).
Qed.

(* B (future 4) is strictly less urgent than A in the states of the window *)
Example n_urgency k : 12 <= k <= 13 -> (waiter_prio (NT k) 0 6 < waiter_prio (NT k) 0 4)%Q.
Proof. intros Hk. destruct (two k Hk) as [->| ->]; vm_compute; reflexivity. Qed.

(* a hand-over happens inside the window: H's release (action 13) grants lock 0 to C (future 5) *)
Example n_grant_C : granted_at NT 0 5 13.
Proof. grant. Qed.

(* the conclusion of the history theorem on this run: B, which arrived first, is not granted the
   lock in the window *)
Example n_no_overtake : forall k, 12 <= k <= 13 -> ~ granted_at NT 0 4 k.
Proof.
  assert (Hlen : 13 < length nacts) by (vm_compute; lia).
  assert (Hk : forall k, 12 <= k <= 13 -> keyed (NT k) 0) by (intros k Hk; apply n_keyed; lia).
  assert (Hh : forall k, 12 <= k <= 13 -> holder_free (NT k) 0) by (intros k Hk'; apply n_holder_free; lia).
  assert (Hu : forall k, 12 <= k <= 13 -> In 4 (objs (NT k) 0) ->
               (waiter_prio (NT k) 0 6 < waiter_prio (NT k) 0 4)%Q) by (intros k Hk' _; now apply n_urgency).
  exact (no_overtake false 0%Q [] [LPrio; LPrio] [] 0 nacts nrun_ok nrun_ne 0 6 2%Z 4 12 13
           Hlen n_A_waits Hh Hk Hu).
Qed.

(* the next hand-over (action 14: C takes the lock and releases it) goes to A, the inheritor, while
   B (arrival 0) keeps waiting: the step theorem gives "A at least as urgent as B" - here strictly,
   -5 < 3 - although A's arrival number 2 is larger *)
Example n_grant_A : granted_at NT 0 6 14.
Proof. grant. Qed.

Example n_B_waits : waits_at (NT 14) 0 4 0 /\ waits_at (NT 15) 0 4 0.
Proof.
  split; (split; [exists (mkE 3%Q 0 4); split; [vm_compute; tauto|split; reflexivity]|vm_compute; reflexivity]).
Qed.

Example n_step :
  (waiter_prio (NT 14) 0 6 < waiter_prio (NT 14) 0 4)%Q \/
  ((waiter_prio (NT 14) 0 6 == waiter_prio (NT 14) 0 4)%Q /\ (2 < 0)%Z).
Proof.
  destruct n_B_waits as [W1 W2].
  assert (Hlen : 14 < length nacts) by (vm_compute; lia).
  assert (Hk : keyed (NT 14) 0) by (apply n_keyed; lia).
  assert (Hh : holder_free (NT 14) 0) by (apply n_holder_free; lia).
  assert (Hq : queued_at (NT 14) 0 6 2).
  { exists (mkE (-5)%Q 2 6). split; [vm_compute; tauto|split; reflexivity]. }
  exact (no_overtake_step false 0%Q [] [LPrio; LPrio] [] 0 nacts nrun_ok nrun_ne 0 4 0%Z 6 2%Z 14
           Hlen Hh Hk W1 W2 Hq n_grant_A).
Qed.

(* order of service of lock 0: futures 5 (C), 6 (A), 4 (B); order of arrival: 4, 5, 6 *)
Example n_service_order :
  granted_at NT 0 5 13 /\ granted_at NT 0 6 14 /\ granted_at NT 0 4 15 /\
  map (fun f => fstate_ (getf (NT 13) f)) [4; 5; 6] = [FPending; FPending; FPending].
Proof.
  split; [exact n_grant_C|]. split; [exact n_grant_A|]. split; [|vm_compute; reflexivity].
  grant.
Qed.

(* ------------------------------------------------------------ why [holder_free] is needed
   (since the repair of F16).  A waits-for cycle broken by a cancellation:
     T (task 0, priority -5) holds lock 0 and queues on lock 1 (future 4);
     O (task 1, priority 5)  holds lock 1 and queues on lock 0 (future 5, arrival 1): it inherits -5
                             from T, key -5;
     W (task 2, priority 3)  queues on lock 0 (future 3, arrival 0), key 3.
   State 9 (after T.cancel()): keyed holds for lock 0 (keys -5 and 3 = effective priorities), but
   the holder T of lock 0 is queued on lock 1.  Action 9 = one step of T: the `finally` of its
   acquire(lock 1) leaves lock 1, which stays locked by O, so O re-keys its entry in lock 0 to 5
   (it no longer inherits from T); T then catches the CancelledError and releases lock 0, which
   goes to W (key 3 < 5) while O keeps waiting - although O's entry stored in state 9 (key -5) is
   less than W's.  With the keys of the moment of the hand-over the order is respected; it is the
   comparison with the state BEFORE the action that needs the hypothesis. *)
Definition cT : script :=
  SDo (OAcquire 0) (SDo OSleep0 (STry (SDo (OAcquire 1) SEnd) CCancel SEnd SEnd
                                       (SDo (ORelease 0) (SDo OSleep0 SEnd)))).
Definition cO : script :=
  SDo (OAcquire 1) (SDo OSleep0 (SDo (OAcquire 0) (SDo (ORelease 0) (SDo (ORelease 1) SEnd)))).
Definition cW : script := SDo (OAcquire 0) (SDo (ORelease 0) SEnd).
Definition cacts : list action :=
  map act [XSpawn (SPrio (-5)) cT; XSpawn (SPrio 5) cO; XSpawn (SPrio 3) cW;
           XStep; XStep; XStep; XStep; XStep; XDo (OCancel 0); XStep; XStep].
Notation CT := (tr nst0 cacts).

Example cyc_run_ok : run_ok nst0 cacts.
Proof. vm_compute. repeat split. Qed.
Example cyc_run_ne : run_ne nst0 cacts.
Proof. vm_compute. repeat split; intros; discriminate. Qed.

Example cyc_states :
  arr (lpq (getl (CT 9) 0)) = [mkE (-5)%Q 1 5; mkE 3%Q 0 3] /\
  arr (lpq (getl (CT 10) 0)) = [mkE 3%Q 0 3; mkE 5%Q 1 5] /\
  lwt (getl (CT 9) 0) = [(3, 2); (5, 1)] /\ lwt (getl (CT 9) 1) = [(4, 0)] /\
  lowner (getl (CT 9) 0) = Some 0 /\ lowner (getl (CT 9) 1) = Some 1 /\
  map (fun t => Qred (wprio (CT 9) t)) [0; 1; 2] = [(-5)%Q; (-5)%Q; 3%Q] /\
  map (fun t => Qred (wprio (CT 10) t)) [0; 1; 2] = [(-5)%Q; 5%Q; 3%Q] /\
  map (fun f => fstate_ (getf (CT 9) f)) [3; 4; 5] = [FPending; FCancelled; FPending] /\
  map (fun f => fstate_ (getf (CT 10) f)) [3; 4; 5] = [FResult 1; FCancelled; FPending].
Proof. repeat split; vm_compute; reflexivity. Qed.

Example cyc_keyed : keyed (CT 9) 0.
Proof.
  intros e He _. destruct cyc_states as (E & _). rewrite E in He.
  destruct He as [<-|[<-|[]]]; vm_compute; reflexivity.
Qed.

Example cyc_grant_W : granted_at CT 0 3 9.
Proof. grant. Qed.

Example cyc_O_waits : waits_at (CT 9) 0 5 1 /\ In 5 (objs (CT 10) 0) /\ fdone (CT 10) 5 = false.
Proof.
  split; [split; [exists (mkE (-5)%Q 1 5); split; [vm_compute; tauto|split; reflexivity]|vm_compute; reflexivity]|].
  split; [vm_compute; tauto|vm_compute; reflexivity].
Qed.

Example cyc_not_holder_free : ~ holder_free (CT 9) 0.
Proof.
  intros H. apply (H 0 1 4).
  - destruct cyc_states as (_ & _ & _ & _ & E & _). exact E.
  - destruct cyc_states as (_ & _ & _ & E & _). rewrite E. now left.
Qed.

(* the conclusion of the key theorem fails for the entries stored in state 9 *)
Example cyc_keys_fail :
  In (mkE (-5)%Q 1 5) (arr (lpq (getl (CT 9) 0))) /\ In (mkE 3%Q 0 3) (arr (lpq (getl (CT 9) 0))) /\
  ~ ((3 < -5)%Q \/ ((3 == -5)%Q /\ (0 < 1)%Z)).
Proof.
  destruct cyc_states as (E & _). rewrite E.
  split; [now left|]. split; [right; now left|].
  intros [H|[H _]]; vm_compute in H; discriminate.
Qed.
