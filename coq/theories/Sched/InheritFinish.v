(* C12, nested waiters: PriorityLock.acquire after its `await fut` keeps [forall l, keyed s l]:
   a waiter LEAVES by exception (cancelled, interrupted: the owner re-propagates, repair F16) or is
   GRANTED the lock (it becomes the owner; it is not queued anywhere else). *)
From Coq Require Import QArith Lqa Sorting.Permutation.
From RecordUpdate Require Import RecordUpdate.
From Asynkit Require Import Base.Prelude Queue.PQ Queue.Order Queue.Heap Queue.ListFacts Queue.PQProofs
  Queue.PosPQ Queue.Exec
  Sched.Model Sched.Tables Sched.QFacts Sched.LockInv Sched.Footprint Sched.LockOps Sched.LockLib
  Sched.LockProofs Sched.LockThms Sched.InheritEprio Sched.InheritHandover Sched.InheritKeys
  Sched.InheritFalls Sched.WaitInv Sched.WaitOps Sched.WaitProofs.
From Asynkit Require Import Sched.OrderInv Sched.OrderPass Sched.OrderThms Sched.InheritLocal
  Sched.InheritChain Sched.InheritArrive.
Import RecordSetNotations.
Open Scope nat_scope.

(* steps that leave the lock tables, the priorities and the held locks alone *)
Lemma keyed_frame s s' :
  (forall x, tprio (gett s' x) = tprio (gett s x) /\ tholding (gett s' x) = tholding (gett s x)) ->
  (forall l0, lpq (getl s' l0) = lpq (getl s l0) /\ lwt (getl s' l0) = lwt (getl s l0)) ->
  efuel s' = efuel s -> (forall g, fdone s g = true -> fdone s' g = true) ->
  (forall l0, keyed s l0) -> forall l0, keyed s' l0.
Proof.
  intros Ht Hl Ef Hd K l0 e He Hlv.
  assert (E : esim s s').
  { split; [exact Ht|]. split; [|exact Ef]. intros l1. destruct (Hl l1) as [A B].
    rewrite (lwtasks_ext _ _ A B). apply Permutation_refl. }
  destruct (Hl l0) as [A B]. rewrite A in He.
  assert (Et : entry_task (getl s' l0) e = entry_task (getl s l0) e).
  { unfold entry_task, task_of_fut. now rewrite B. }
  rewrite Et, (wprio_sim s s' _ E). apply K; auto.
  unfold live in *. destruct (fdone s (Z.to_nat (eobj e))) eqn:Ed; auto. rewrite (Hd _ Ed) in Hlv. discriminate.
Qed.

Lemma OW_frame s s' :
  (forall x, is_prio_task s' x = true -> forall l, twaiting (gett s' x) = Some l ->
             twaiting (gett s x) = Some l /\ is_prio_task s x = true /\
             tholding (gett s' x) = tholding (gett s x)) -> OW s -> OW s'.
Proof.
  intros H O x l l0 Hp Ew Hl. destruct (H x Hp l Ew) as (A & B & C). rewrite C in Hl. eapply O; eauto.
Qed.

(* ------------------------------------------------------------ abstract leave *)
Section Leave.
Variables (s s1 : st) (t l f : nat).
Variables (ne ne1 : bool) (X X1 : nat -> Prop) (R R1 : nat * list frame).
Hypothesis I : Inv s.
Hypothesis W : WIx ne X R s.
Hypothesis O : OW s.
Hypothesis I1 : Inv s1.
Hypothesis W1 : WIx ne1 X1 R1 s1.
Hypothesis O1 : OW s1.
Hypothesis K : forall l0, keyed s l0.
Hypothesis Lt : forall x, tprio (gett s1 x) = tprio (gett s x) /\ tholding (gett s1 x) = tholding (gett s x).
Hypothesis Lo : forall l0, l0 <> l -> lpq (getl s1 l0) = lpq (getl s l0) /\ lwt (getl s1 l0) = lwt (getl s l0).
Hypothesis Lq : exists e0, Permutation (arr (lpq (getl s l))) (e0 :: arr (lpq (getl s1 l))).
Hypothesis Lw : lwt (getl s1 l) = filter (notf f) (lwt (getl s l)).
Hypothesis Lnin : ~ In f (pq_objs (lpq (getl s1 l))).
Hypothesis Ld : forall g, fdone s g = true -> fdone s1 g = true.
Hypothesis Ll1 : l < length (locks s1).

Lemma leave_sub l0 e : In e (arr (lpq (getl s1 l0))) ->
  In e (arr (lpq (getl s l0))) /\ entry_task (getl s1 l0) e = entry_task (getl s l0) e.
Proof.
  intros He. destruct (Nat.eq_dec l0 l) as [->|Hne].
  2:{ destruct (Lo l0 Hne) as [A B]. rewrite A in He. split; auto.
      unfold entry_task, task_of_fut. now rewrite B. }
  destruct Lq as (e0 & Pq).
  assert (He0 : In e (arr (lpq (getl s l)))) by (eapply Permutation_in; [apply Permutation_sym, Pq|now right]).
  split; auto.
  pose proof (rtask_row _ _ _ _ _ _ W He0) as Hrow. unfold rtask in Hrow.
  unfold entry_task. set (g := Z.to_nat (eobj e)) in *.
  apply task_of_fut_unique; [apply (w_nodup W1 l)|]. rewrite Lw. apply filter_In. split; auto.
  unfold notf. cbn [fst]. apply negb_true_iff, Nat.eqb_neq. intros Eg. apply Lnin. rewrite <- Eg.
  unfold g, pq_objs. apply (in_map (fun e1 : entry Q => Z.to_nat (eobj e1))). exact He.
Qed.

Lemma leave_lwtasks l0 w : In w (lock_waiter_tasks (getl s1 l0)) -> In w (lock_waiter_tasks (getl s l0)).
Proof.
  rewrite !lock_waiter_tasks_eq. intros H. apply in_map_iff in H as (e & <- & He).
  destruct (leave_sub l0 e He) as [He0 ->]. now apply in_map.
Qed.

Lemma leave_lwtasks_other l0 : l0 <> l -> lock_waiter_tasks (getl s1 l0) = lock_waiter_tasks (getl s l0).
Proof. intros Hne. destruct (Lo l0 Hne). now apply lwtasks_ext. Qed.

(* the tasks whose effective priority may have changed: the owner of l (a PriorityTask) and above *)
Definition Dl (x : nat) : Prop :=
  match lowner (getl s1 l) with
  | Some o => is_prio_task s1 o = true /\ above s1 o x
  | None => False end.

Lemma holds_l_dirty x : In l (tholding (gett s x)) -> Dl x.
Proof.
  intros Hl. rewrite <- (proj2 (Lt x)) in Hl. unfold Dl. rewrite (iA2 I1 l x Ll1 Hl).
  split; [eapply (holder_prio s1 I1); eauto|now left].
Qed.

Lemma leave_out l0 e' : In e' (arr (lpq (getl s1 l0))) -> live s1 e' ->
  ~ Dl (entry_task (getl s1 l0) e') ->
  (epri e' == wprio s1 (entry_task (getl s1 l0) e'))%Q.
Proof.
  intros He' Hl' Hd.
  apply (keyed_local s s1 Dl); auto.
  - apply (ranked_tbl ne X R); auto.
  - apply (ranked_tbl ne1 X1 R1); auto.
  - intros x _. apply Lt.
  - intros x Hx. unfold waiters_of. rewrite (proj2 (Lt x)).
    erewrite flat_map_ext_in; [apply Permutation_refl|].
    intros l1 Hl1. destruct (Nat.eq_dec l1 l) as [->|Hne]; [|now apply leave_lwtasks_other].
    exfalso. apply Hx. now apply holds_l_dirty.
  - intros x w Hx Hw Hdw. apply Hx. apply waits_on_iff in Hw as (l1 & H1 & H2).
    destruct (Nat.eq_dec l1 l) as [->|Hne]; [now apply holds_l_dirty|].
    unfold Dl in *. destruct (lowner (getl s1 l)) as [o|]; [|exact Hdw].
    destruct Hdw as [Hp Ha]. split; auto. apply (above_up s1 o w x Ha).
    exists l1. rewrite (proj2 (Lt x)). split; auto. now rewrite leave_lwtasks_other.
  - right. destruct (leave_sub l0 e' He') as [He0 Et]. exists e'. split; auto. split; [|split; [reflexivity|now symmetry]].
    unfold live in *. destruct (fdone s (Z.to_nat (eobj e'))) eqn:E; auto. rewrite (Ld _ E) in Hl'. discriminate.
Qed.

Theorem keyed_leave :
  (lowner (getl s1 l) = Some t -> is_prio_task s1 t = false) ->
  forall l0, keyed (match lowner (getl s1 l) with
                    | Some o => if Nat.eqb o t then s1 else propagate_priority s1 o
                    | None => s1 end) l0.
Proof.
  intros Hself.
  assert (Hnone : (forall x, ~ Dl x) -> forall l0, keyed s1 l0).
  { intros Hno l0 e He Hl. apply leave_out; auto. }
  destruct (lowner (getl s1 l)) as [o|] eqn:Eo.
  2:{ apply Hnone. intros x Hx. unfold Dl in Hx. now rewrite Eo in Hx. }
  destruct (Nat.eqb o t) eqn:Eot.
  { apply Nat.eqb_eq in Eot. subst o. apply Hnone. intros x Hx. unfold Dl in Hx. rewrite Eo in Hx.
    destruct Hx as [Hp _]. rewrite (Hself eq_refl) in Hp. discriminate. }
  destruct (is_prio_task s1 o) eqn:Epo.
  - apply (keyed_propagate_up ne1 X1 R1 s1 I1 W1 O1 o Epo).
    intros l0 e He Hl Hna. apply leave_out; auto. intros Hx. unfold Dl in Hx. rewrite Eo in Hx.
    destruct Hx as [_ Ha]. now apply Hna.
  - assert (E : propagate_priority s1 o = s1).
    { unfold propagate_priority. rewrite propagate_unf, Epo. reflexivity. }
    rewrite E. apply Hnone. intros x Hx. unfold Dl in Hx. rewrite Eo in Hx.
    destruct Hx as [Hp _]. congruence.
Qed.

Corollary keyed_leave_free : lowner (getl s1 l) = None -> forall l0, keyed s1 l0.
Proof.
  intros Eo l0 e He Hl. apply leave_out; auto. unfold Dl. rewrite Eo. tauto.
Qed.
End Leave.


(* ------------------------------------------------------------ PriorityLock.acquire after `await fut` *)
Theorem keyed_finish s t l f had inp rest :
  Inv s -> t < length (tasks s) -> In f (objs s l) -> no_frame s f -> no_acq rest ->
  (forall v, inp = RVal v -> woken s f = true) ->
  WI true (t, InAcquireP l f had :: rest) s -> OW s -> (forall l0, keyed s l0) ->
  (forall l0, keyed (fst (acquire_p_finish s t l f had inp)) l0) /\
  OW (fst (acquire_p_finish s t l f had inp)).
Proof.
  intros I Ht Hf Hnf Hna Hw W O K.
  pose proof (objs_inrange s l f Hf) as Hl.
  pose proof (objs_kind_prio s l f I Hf) as Hk.
  destruct (w_frame W t l f had ltac:(right; split; [reflexivity|now left])) as (u & Hrow & Ehad & _ & Hu).
  specialize (Hu eq_refl). subst u.
  assert (Htw : is_prio_task s t = true -> twaiting (gett s t) = Some l).
  { intros Hp. now destruct (w_wait W l f t Hrow Hp). }
  pose proof (acquire_p_finish_W true s t l f had inp rest I Ht Hf Hnf Hna W) as Wres.
  destruct (lstep_acquire_p_finish s t l f had inp I Ht Hf Hnf Hw) as (Lres & _ & _).
  pose proof (ls_inv Lres) as Ires. pose proof (ls_ntasks Lres) as Nres. clear Lres.
  destruct (acquire_p_finish_ot s t l f had inp) as [Ot _].
  revert Wres Ires Nres Ot.
  destruct (pq_remove HQ (lpq (getl s l)) (Z.of_nat f)) as [[p q']|] eqn:Er.
  2:{ exfalso. eapply pq_remove_none; eauto. apply (iB1 I). }
  destruct (qwf_remove _ _ _ _ (iB1 I l) Er) as (Hq' & Hp & Hnin).
  destruct (pq_remove_perm _ _ _ _ (proj1 (iB1 I l)) Er) as (_ & e0 & He0 & Pq).
  unfold acquire_p_finish.
  destruct inp as [v|e].
  - assert (Ho : lowner (getl s l) = None).
    { destruct (lowner (getl s l)) eqn:Ho; auto.
      assert (lowner (getl s l) <> None) as Hn by congruence.
      rewrite (iC2 I l f Hn Hf) in Hw. specialize (Hw v eq_refl). discriminate. }
    rewrite (take_lock_eq s l t Ho). cbv beta iota zeta.
    set (s1 := upd s l (take_lk s l t) t (take_oh s l t)).
    assert (E1 : getl s1 l = take_lk s l t).
    { destruct (upd_lk s l (take_lk s l t) t (take_oh s l t)) as [[_ E]|(Hge & _)]; [exact E|lia]. }
    rewrite E1. change (lpq (take_lk s l t)) with (lpq (getl s l)). rewrite Er.
    unfold s1. rewrite setl_upd. fold (notf f).
    set (w := filter (notf f) (lwt (take_lk s l t))).
    set (s2 := upd s l (take_lk s l t <| lpq := q' |> <| lwt := w |>) t (take_oh s l t)).
    assert (E2 : getl s2 l = take_lk s l t <| lpq := q' |> <| lwt := w |>).
    { destruct (upd_lk s l (take_lk s l t <| lpq := q' |> <| lwt := w |>) t (take_oh s l t))
        as [[_ E]|(Hge & _)]; [exact E|lia]. }
    rewrite E2.
    change (llocked (take_lk s l t <| lpq := q' |> <| lwt := w |>)) with true.
    change (lowner (take_lk s l t <| lpq := q' |> <| lwt := w |>)) with (Some t).
    cbv beta iota. rewrite Nat.eqb_refl. cbn [fst].
    set (sF := if had then sett s2 t (gett s2 t <| twaiting := None |>) else s2).
    intros Wres Ires Nres Ot.
    assert (Gl : forall l0, getl sF l0 = getl s2 l0) by (intros l0; unfold sF; destruct had; reflexivity).
    assert (G2 : forall l0, l0 <> l -> getl s2 l0 = getl s l0).
    { intros l0 Hne. unfold s2. rewrite upd_getl. apply not_eq_sym, Nat.eqb_neq in Hne. now rewrite Hne. }
    assert (Ff : futs sF = futs s).
    { unfold sF, s2, upd. destruct had; destruct (take_oh s l t); reflexivity. }
    assert (Fp : forall x, tprio (gett sF x) = tprio (gett s x)).
    { intros x. destruct (Nat.eq_dec x t) as [->|Hne]; [|now rewrite (o_oth Ot x Hne)].
      assert (E : tprio (gett s2 t) = tprio (gett s t)) by apply (upd_gett_fields s l _ t _ t).
      unfold sF. destruct had; [|exact E]. rewrite gett_sett.
      destruct (Nat.eqb t t && Nat.ltb t (length (tasks s2)))%bool; [cbn; exact E|exact E]. }
    assert (Pf : is_prio_task sF t = is_prio_task s t) by (unfold is_prio_task; now rewrite Fp).
    assert (Nt2 : length (tasks s2) = length (tasks s)).
    { unfold s2, upd. destruct (take_oh s l t); [rewrite sett_len|]; reflexivity. }
    assert (Tw : had = true -> twaiting (gett sF t) = None).
    { intros Eh. unfold sF. rewrite Eh. rewrite gett_sett_same by (rewrite Nt2; exact Ht). reflexivity. }
    assert (Tplain : had = false -> gett sF t = gett s t).
    { intros Eh. unfold sF. rewrite Eh. unfold s2, upd, take_oh. rewrite <- Ehad, Eh. reflexivity. }
    assert (OF : OW sF).
    { intros x l' l0 Hpx Ew Hl0. destruct (Nat.eq_dec x t) as [->|Hne].
      - rewrite Pf in Hpx. rewrite <- Ehad in Hpx. rewrite (Tw Hpx) in Ew. discriminate.
      - unfold is_prio_task in Hpx. rewrite (o_oth Ot x Hne) in *. eapply O; eauto. }
    assert (NoT : is_prio_task s t = true -> forall l0 e', In e' (arr (lpq (getl sF l0))) ->
                  entry_task (getl sF l0) e' <> t).
    { intros Hpt l0 e' He' Eq. pose proof (rtask_row _ _ _ _ _ _ Wres He') as Hr. unfold rtask in Hr.
      unfold entry_task in Eq. rewrite Eq in Hr.
      destruct (w_wait Wres l0 _ t Hr ltac:(now rewrite Pf)) as [Ew _].
      rewrite (Tw ltac:(now rewrite Ehad)) in Ew. discriminate. }
    assert (EF : getl sF l = take_lk s l t <| lpq := q' |> <| lwt := w |>) by (now rewrite Gl).
    assert (LoF : forall l0, l0 <> l -> lpq (getl sF l0) = lpq (getl s l0) /\ lwt (getl sF l0) = lwt (getl s l0)).
    { intros l0 Hne. now rewrite Gl, (G2 l0 Hne). }
    assert (LqF : exists e1, Permutation (arr (lpq (getl s l))) (e1 :: arr (lpq (getl sF l)))).
    { exists e0. rewrite EF. exact Pq. }
    assert (LwF : lwt (getl sF l) = filter (notf f) (lwt (getl s l))) by (rewrite EF; reflexivity).
    assert (LninF : ~ In f (pq_objs (lpq (getl sF l)))) by (rewrite EF; exact Hnin).
    split; [|exact OF].
    intros l0 e' He' Hl'.
    destruct (leave_sub s sF l f true true _ _ _ _ W Wres LoF LqF LwF LninF l0 e' He') as [Hin0 Et].
    set (D := fun x : nat => x = t /\ is_prio_task s t = true).
    assert (Rs : ranked s) by (apply (ranked_tbl true (fun _ => False) (t, InAcquireP l f had :: rest)); auto).
    assert (RF : ranked sF) by (apply (ranked_tbl true (fun _ => False) (t, rest)); auto).
    assert (HpF : forall x, ~ D x -> tprio (gett sF x) = tprio (gett s x)) by (intros x _; apply Fp).
    assert (Nol : forall x, ~ In l (tholding (gett s x))).
    { intros x Hx. pose proof (iA2 I l x Hl Hx). congruence. }
    assert (HwF : forall x, ~ D x -> Permutation (waiters_of sF x) (waiters_of s x)).
    { intros x Hx.
      assert (Eh : tholding (gett sF x) = tholding (gett s x)).
      { destruct (Nat.eq_dec x t) as [->|Hne]; [|now rewrite (o_oth Ot x Hne)].
        destruct (is_prio_task s t) eqn:Ept; [exfalso; apply Hx; split; auto|].
        now rewrite (Tplain Ehad). }
      unfold waiters_of. rewrite Eh. erewrite flat_map_ext_in; [apply Permutation_refl|].
      intros l1 Hl1. assert (Hne : l1 <> l) by (intros ->; exact (Nol x Hl1)).
      destruct (LoF l1 Hne). now apply lwtasks_ext. }
    assert (HupF : forall x w0, ~ D x -> In w0 (waiters_of s x) -> ~ D w0).
    { intros x w0 _ Hw0 [-> Hpt]. apply waits_on_iff in Hw0 as (l1 & H1 & H2).
      destruct (waiter_has_row _ _ _ _ _ _ W H2) as (g & Hr). destruct (w_wait W l1 g t Hr Hpt) as [Ew _].
      rewrite (Htw Hpt) in Ew. injection Ew as <-. exact (Nol x H1). }
    apply (keyed_local s sF D Rs RF HpF HwF HupF K l0 e').
    + intros [Eq Hpt]. exact (NoT Hpt l0 e' He' Eq).
    + right. exists e'. split; auto. split; [|split; [reflexivity|now symmetry]].
      unfold live, fdone, getf in *. now rewrite Ff in Hl'.
  - cbv beta iota zeta. rewrite Er. fold (notf f).
    set (s1 := setl s l (getl s l <| lpq := q' |> <| lwt := filter (notf f) (lwt (getl s l)) |>)).
    intros Wres Ires Nres Ot.
    assert (I1 : Inv s1).
    { pose proof (Inv_leave s l t f p q' (filter (notf f) (lwt (getl s l))) false I Hl Er Hnf) as I2.
      cbv beta iota in I2. apply I2. intros H; discriminate. }
    pose proof (WIx_leave true t l f had rest s p q' (iB1 I l) Hl Ht Er Hnf Hna W) as W1. fold s1 in W1.
    assert (T1 : tasks s1 = tasks s) by reflexivity.
    assert (O1 : OW s1) by (now apply (OW_tasks s)).
    assert (E1 : getl s1 l = getl s l <| lpq := q' |> <| lwt := filter (notf f) (lwt (getl s l)) |>).
    { unfold s1. now apply getl_setl_same. }
    assert (Eq1 : lpq (getl s1 l) = q') by (rewrite E1; reflexivity).
    assert (Eo1 : lowner (getl s1 l) = lowner (getl s l)) by (rewrite E1; reflexivity).
    assert (Lo : forall l0, l0 <> l -> lpq (getl s1 l0) = lpq (getl s l0) /\ lwt (getl s1 l0) = lwt (getl s l0)).
    { intros l0 Hne. unfold s1. rewrite getl_setl_other by auto. auto. }
    assert (Ll1 : l < length (locks s1)).
    { unfold s1, setl. cbn. now rewrite set_nth_length. }
    assert (Hself : lowner (getl s1 l) = Some t -> is_prio_task s1 t = false).
    { rewrite Eo1. intros Eo. change (is_prio_task s1 t) with (is_prio_task s t).
      destruct (is_prio_task s t) eqn:Ep; auto. exfalso.
      pose proof (O t l l Ep (Htw eq_refl) (iA3 I l t Eo Ep)). lia. }
    set (s2 := if llocked (getl s1 l)
               then match lowner (getl s1 l) with
                    | Some o => if Nat.eqb o t then s1 else propagate_priority s1 o
                    | None => s1 end
               else wake_up_first_p s1 l) in *.
    assert (Lv1 : forall l0, keyed (match lowner (getl s1 l) with
                    | Some o => if Nat.eqb o t then s1 else propagate_priority s1 o
                    | None => s1 end) l0).
    { apply (keyed_leave s s1 t l f true true (fun _ => False) (fun x => x = t /\ had = true)
                           (t, InAcquireP l f had :: rest) (t, rest) I W O I1 W1 O1 K).
        + intros x. split; reflexivity.
        + exact Lo.
        + exists e0. now rewrite Eq1.
        + rewrite E1. reflexivity.
        + now rewrite Eq1.
        + intros g Hg. exact Hg.
        + exact Ll1.
        + exact Hself. }
    assert (Lv2 : lowner (getl s1 l) = None -> forall l0, keyed s1 l0).
    { apply (keyed_leave_free s s1 l f true true (fun _ => False) (fun x => x = t /\ had = true)
                           (t, InAcquireP l f had :: rest) (t, rest) I W O I1 W1 O1 K).
        + intros x. split; reflexivity.
        + exact Lo.
        + exists e0. now rewrite Eq1.
        + rewrite E1. reflexivity.
        + now rewrite Eq1.
        + intros g Hg. exact Hg.
        + exact Ll1. }
    assert (K2 : forall l0, keyed s2 l0).
    { unfold s2. destruct (llocked (getl s1 l)) eqn:Elk; [exact Lv1|].
      assert (Eo : lowner (getl s1 l) = None).
      { destruct (lowner (getl s1 l)) as [o|] eqn:Eo; auto. exfalso.
        assert (Hk1 : lkind_ (getl s1 l) = LPrio) by (rewrite E1; exact Hk).
        assert (Hn : lowner (getl s1 l) <> None) by congruence.
        apply (iA1 I1 l Hk1) in Hn. congruence. }
      pose proof (wk_wake_p s1 l) as Kw.
      apply (keyed_frame s1); [| | | |exact (Lv2 Eo)].
      - intros x. unfold gett. rewrite tasks_wake_p. auto.
      - intros l0. split; [apply (k_lpq Kw)|apply (k_rows Kw)].
      - unfold efuel. now rewrite tasks_wake_p, (k_nlocks Kw).
      - apply (k_done Kw). }
    assert (T2 : tasks s2 = tasks s).
    { unfold s2. destruct (llocked (getl s1 l)); [|now rewrite tasks_wake_p].
      destruct (lowner (getl s1 l)) as [o|]; auto. destruct (Nat.eqb o t); auto.
      unfold propagate_priority. now rewrite tasks_propagate_task. }
    cbn [fst]. split.
    + destruct had; [|exact K2]. apply (keyed_frame s2); auto.
      * intros x. rewrite gett_sett.
        destruct (Nat.eqb t x && Nat.ltb t (length (tasks s2)))%bool eqn:B; auto.
        apply andb_prop in B as [B _]. apply Nat.eqb_eq in B. subst x. auto.
      * unfold efuel. now rewrite sett_len.
    + intros x l' l0 Hpx Ew Hl0. revert Hpx Ew Hl0. unfold is_prio_task.
      destruct had.
      * rewrite gett_sett.
        destruct (Nat.eqb t x && Nat.ltb t (length (tasks s2)))%bool eqn:B; [cbn; discriminate|].
        unfold gett. rewrite T2. apply O.
      * unfold gett. rewrite T2. apply O.
Qed.
