(* [WI] in every reachable state of the scheduler model: user code, Task.__step, the loop,
   environment actions. *)
From Coq Require Import QArith Sorting.Permutation.
From RecordUpdate Require Import RecordUpdate.
From Asynkit Require Import Base.Prelude Queue.PQ Queue.Order Queue.ListFacts Queue.PQProofs Queue.PosPQ
  Queue.Exec Sched.Model Sched.Corr Sched.Tables Sched.QFacts Sched.LockInv Sched.Footprint Sched.LockOps
  Sched.LockLib Sched.LockProofs Sched.LockStatic Sched.LockThms Sched.WaitInv Sched.WaitOps Sched.WaitLib.
Import RecordSetNotations.
Open Scope nat_scope.

(* ------------------------------------------------------------ the side condition "no eager start" *)
(* mirrors [exec_ok]: along the executed path no [Spawn SEager] is run *)
Fixpoint exec_ne (t : nat) (c : coro) (s : st) {struct c} : Prop :=
  match c with
  | Ret _ | Raise _ => True
  | Call op k =>
      (let '(s', r) := lib_call t op s in
       match r with LDone rep => exec_ne t (k rep) s' | LSusp _ _ => True end)
  | Spawn SEager child k => False
  | Spawn how child k =>
      let '(s, t') := spawn_task s how child in
      match how with
      | SDescend =>
          let '(s, r) := lib_call t (OTaskSwitch t' (Some 1)) s in
          match r with
          | LDone (RExc e) => exec_ne t (k (RExc e)) s
          | LDone (RVal _) => exec_ne t (k (RVal (Z.of_nat t'))) s
          | LSusp _ _ => True
          end
      | SStart => True
      | _ => exec_ne t (k (RVal (Z.of_nat t'))) s
      end
  end.

Definition step_ne (t : nat) (exc : option exn) (s : st) : Prop :=
  if tdone s t then True else
  let tk := gett s t in
  let exc := if tmustc tk
             then match exc with
                  | Some e => if is_cancel e then Some e else Some ECancelled
                  | None => Some ECancelled end
             else exc in
  let cont := tcont_ tk in
  let s := sett s t (tk <| tmustc := false |> <| twaiter := None |> <| tcont_ := TRun |>) in
  let s := s <| current := Some t |> in
  let inp := match exc with None => RVal 0 | Some e => RExc e end in
  match cont with
  | TNew c => match exc with Some _ => True | None => exec_ne t c s end
  | TSusp frs k =>
      let '(s, r) := resume_stack t frs inp s in
      match r with LDone rep => exec_ne t (k rep) s | LSusp _ _ => True end
  | TEager y frs k =>
      match exc with
      | None => True
      | Some _ =>
          let '(s, r) := resume_stack t frs inp s in
          match r with LDone rep => exec_ne t (k rep) s | LSusp _ _ => True end
      end
  | TRun | TFin => True
  end.

Definition wakeup_ne (t f : nat) (s : st) : Prop :=
  match fstate_ (getf s f) with
  | FResult _ => step_ne t None s
  | FExc e => step_ne t (Some e) s
  | FCancelled => let '(s', r) := fut_result s f in
                  step_ne t (match r with RExc e => Some e | RVal _ => None end) s'
  | FPending => step_ne t (Some EInvalidState) s
  end.

Definition run_callback_ne (c : callback) (s : st) : Prop :=
  match c with
  | HStep t e => step_ne t e s
  | HWakeup t f => wakeup_ne t f s
  | _ => True
  end.

Definition run_one_ne (s : st) : Prop :=
  match rq_popleft (ready s) with
  | None => True
  | Some (h, r) =>
      let s := s <| ready := r |> in
      let hd := geth s h in
      if hcancelled hd then True else run_callback_ne (hcb hd) s
  end.

(* [ADo op] runs op as "task 0": release / wait / set-priority from outside the loop only
   while task 0 is not queued on a PriorityLock *)
Definition action_ne (s : st) (a : action) : Prop :=
  match a with
  | AStep => run_one_ne s
  | ADo op => touches_own op = true -> forall l f, ~ In (f, 0) (rows s l)
  | _ => True
  end.

Fixpoint run_ne (s : st) (acts : list action) : Prop :=
  match acts with
  | [] => True
  | a :: rest => action_ne s a /\ run_ne (do_action s a) rest
  end.

(* ------------------------------------------------------------ moving frames between the table and the runner *)
Lemma WI_retable ne R R' s s' :
  locks s' = locks s -> conds s' = conds s -> futs s' = futs s ->
  length (tasks s) <= length (tasks s') ->
  (forall t0, t0 < length (tasks s) ->
     twaiting (gett s' t0) = twaiting (gett s t0) /\ is_prio_task s' t0 = is_prio_task s t0 /\
     tholding (gett s' t0) = tholding (gett s t0) /\ tprio (gett s' t0) = tprio (gett s t0)) ->
  (forall t0, length (tasks s) <= t0 -> twaiting (gett s' t0) = None) ->
  (forall t0 l f had, hasfr s' R' t0 (InAcquireP l f had) ->
     exists t1, hasfr s R t1 (InAcquireP l f had) /\
                (t1 = t0 \/ (ne = false /\ is_prio_task s' t0 = false))) ->
  (forall t1 l f had, hasfr s R t1 (InAcquireP l f had) ->
     exists t0, hasfr s' R' t0 (InAcquireP l f had)) ->
  (forall t0 fr c, cwait fr = Some c -> hasfr s' R' t0 fr -> exists t1, hasfr s R t1 fr) ->
  (snd R' <> [] -> fst R' < length (tasks s')) ->
  (ne = true -> forall t0, is_eager (tcont_ (gett s' t0)) = false) ->
  WI ne R s -> WI ne R' s'.
Proof.
  intros El Ec Ef Hlen Hold Hnew Hfr1 Hfr2 Hfr3 Hrt Hne W.
  assert (Hl : forall l, getl s' l = getl s l) by (intros; unfold getl; now rewrite El).
  assert (Hr : forall l, rows s' l = rows s l) by (intros; unfold rows; now rewrite Hl).
  assert (Ho : forall l, objs s' l = objs s l) by (intros; unfold objs; now rewrite Hl).
  assert (Hc : forall c, getc s' c = getc s c) by (intros; unfold getc; now rewrite Ec).
  assert (Hf : forall f, getf s' f = getf s f) by (intros; unfold getf; now rewrite Ef).
  assert (Hin : forall t0 fr, hasfr s R t0 fr -> t0 < length (tasks s)).
  { intros t0 fr [H|[-> H]]; [eapply tframes_inrange; eauto|].
    apply (w_rt W). intros E. rewrite E in H. destruct H. }
  constructor.
  - intros l. rewrite Hr. apply (w_nodup W).
  - intros l f. rewrite Hr, Ho. apply (w_objs W).
  - intros l f t. rewrite Hr. intros H. pose proof (w_range W _ _ _ H). lia.
  - intros l f t. rewrite Hr. intros H Hp. pose proof (w_range W _ _ _ H) as Ht.
    destruct (Hold t Ht) as (E1 & E2 & _). rewrite E1. rewrite E2 in Hp. eapply (w_wait W); eauto.
  - intros l f f' t. rewrite Hr. intros H1 H2 Hp. pose proof (w_range W _ _ _ H1) as Ht.
    destruct (Hold t Ht) as (_ & E2 & _). rewrite E2 in Hp. eapply (w_one W); eauto.
  - intros t0 l f had Hh. destruct (Hfr1 _ _ _ _ Hh) as (t1 & Hh1 & Hc1).
    destruct (w_frame W _ _ _ _ Hh1) as (u & Hu & Eh & Hp & Hn).
    exists u. rewrite Hr. split; auto. pose proof (w_range W _ _ _ Hu) as Hur.
    destruct (Hold u Hur) as (_ & E2 & _). rewrite E2. split; auto.
    destruct Hc1 as [->|[En Ep]].
    + split; auto. intros Hpt. apply Hp. destruct (Hold t0 (Hin _ _ Hh1)) as (_ & E3 & _). now rewrite <- E3.
    + split; [intros Hpt; congruence|intros Hx; congruence].
  - intros l f u. rewrite Hr. intros H. destruct (w_row W _ _ _ H) as (t1 & had & Hh).
    destruct (Hfr2 _ _ _ _ Hh) as (t0 & Hh0). eauto.
  - exact Hrt.
  - exact Hne.
  - intros En t l _ Hp Hw. rewrite Hr. destruct (Nat.lt_ge_cases t (length (tasks s))) as [Ht|Ht].
    + destruct (Hold t Ht) as (E1 & E2 & _). rewrite E1 in Hw. rewrite E2 in Hp.
      apply (w_newait W En t l); auto.
    + rewrite Hnew in Hw by auto. discriminate.
  - intros En. apply (KF_transfer s s'); [| | | |exact (w_key W En)].
    + intros l e. now rewrite Hl.
    + intros l e _. unfold rtask. now rewrite Hl.
    + intros g. unfold fdone. now rewrite Hf.
    + intros l e He. cbv zeta. rewrite Hl in He. pose proof (rtask_row _ _ _ _ l e W He) as Hrow.
      destruct (Hold _ (w_range W _ _ _ Hrow)) as (_ & _ & A & B). rewrite A, B. auto.
  - intros c. rewrite Hc. apply (w_cq W).
  - intros c. rewrite Hc. apply (w_cd W).
  - intros c f. rewrite Hc, Hf, Ef, El. apply (w_cf W).
  - intros t0 fr c Hh Ec0. destruct (Hfr3 t0 fr c Ec0 Hh) as (t1 & Hh1).
    pose proof (w_cw W t1 fr c Hh1 Ec0) as Hck. unfold cok in *. now rewrite Hc, El.
Qed.

Lemma kproj_tcont s s' t : kproj s' = kproj s -> tcont_ (gett s' t) = tcont_ (gett s t).
Proof.
  intros E. unfold gett. change TFin with (tcont_ dtask).
  rewrite <- !(map_nth tcont_). unfold kproj in E. now rewrite E.
Qed.
Lemma kproj_tframes s s' t : kproj s' = kproj s -> tframes s' t = tframes s t.
Proof. intros E. unfold tframes. now rewrite (kproj_tcont s s' t E). Qed.

Lemma wk_tframes_nil s s' t : wk s s' -> t < length (tasks s) -> tframes s t = [] -> tframes s' t = [].
Proof. intros K Ht E. destruct (k_task K t Ht) as (_ & _ & -> & _). exact E. Qed.

Lemma norows_runner s t :
  WI true (t, []) s -> tframes s t = [] -> forall l f, ~ In (f, t) (rows s l).
Proof.
  intros W Hfr l f Hin. destruct (w_row W l f t Hin) as (t' & had & Hh). pose proof Hh as Hh'.
  apply hasfr_nil in Hh. destruct (w_frame W t' l f had Hh') as (u & Hu & _ & _ & Hne).
  specialize (Hne eq_refl). subst u. pose proof (rows_unique _ _ _ _ (w_nodup W l) Hin Hu) as E.
  subst t'. rewrite Hfr in Hh. destruct Hh.
Qed.

(* ------------------------------------------------------------ user code *)
Definition yfr (o : outcome) : list frame := match o with OYield _ frs _ => frs | ODone _ => [] end.

Definition exec_postW (ne : bool) (t : nat) (c : coro) (s : st) : Prop :=
  WI ne (t, yfr (snd (exec t c s))) (fst (exec t c s)) /\ tframes (fst (exec t c s)) t = [].

Theorem exec_W ne c : forall t s,
  Inv s -> t < length (tasks s) -> exec_ok t c s -> (ne = true -> exec_ne t c s) ->
  WI ne (t, []) s -> tframes s t = [] -> exec_postW ne t c s.
Proof.
  induction c as [v|e|op k IHk|how child IHc k IHk]; intros t s I Ht Hok Hne W Hfr; unfold exec_postW.
  - cbn. auto.
  - cbn. auto.
  - cbn [exec exec_ok exec_ne] in *. destruct Hok as [Hs Hk].
    destruct (lib_call_ext t op s I Hs (fun _ => Ht)) as [E _].
    assert (Hnr : ne = true -> forall l f, ~ In (f, t) (rows s l)).
    { intros En. subst ne. now apply norows_runner. }
    pose proof (lib_call_W ne t op s [] I Hs Ht Hnr W) as W1.
    pose proof (kproj_tframes _ _ t (kproj_lib_call t op s)) as F1.
    destruct (lib_call t op s) as [s1 r]. cbn [fst snd] in *. destruct r as [rep|y frs]; cbn [push] in W1.
    + apply IHk; auto; [apply (ext_inv _ _ E)|pose proof (ext_tasks _ _ E); lia|congruence].
    + cbn [fst snd yfr]. rewrite app_nil_r in W1. split; [exact W1|congruence].
  - assert (Hsp : forall how', how' <> SEager ->
              let s1 := fst (spawn_task s how' child) in
              Inv s1 /\ t < length (tasks s1) /\ WI ne (t, []) s1 /\ tframes s1 t = []).
    { intros how' _. cbv zeta. pose proof (benign_spawn_task s how' child I) as B.
      pose proof (wk_spawn_task s how' child) as K.
      split; [eapply Inv_benign; eauto|]. split; [pose proof (k_ntasks K); lia|].
      split; [eapply WI_wk; eauto|eapply wk_tframes_nil; eauto]. }
    destruct how.
    + (* SPlain *)
      cbn [exec exec_ok exec_ne] in *. destruct (Hsp SPlain ltac:(discriminate)) as (I1 & Ht1 & W1 & F1).
      destruct (spawn_task s SPlain child) as [s1 t']. cbn [fst] in *. apply IHk; auto.
    + (* SPy *)
      cbn [exec exec_ok exec_ne] in *. destruct (Hsp SPy ltac:(discriminate)) as (I1 & Ht1 & W1 & F1).
      destruct (spawn_task s SPy child) as [s1 t']. cbn [fst] in *. apply IHk; auto.
    + (* SPrio *)
      cbn [exec exec_ok exec_ne] in *. destruct (Hsp (SPrio p) ltac:(discriminate)) as (I1 & Ht1 & W1 & F1).
      destruct (spawn_task s (SPrio p) child) as [s1 t']. cbn [fst] in *. apply IHk; auto.
    + (* SDescend *)
      cbn [exec exec_ok exec_ne] in *. destruct (Hsp SDescend ltac:(discriminate)) as (I1 & Ht1 & W1 & F1).
      destruct (spawn_task s SDescend child) as [s1 t']. cbn [fst] in *.
      destruct (lib_call_ext t (OTaskSwitch t' (Some 1)) s1 I1 Logic.I (fun _ => Ht1)) as [E2 _].
      assert (Hnr : ne = true -> forall l f, ~ In (f, t) (rows s1 l)).
      { intros En. subst ne. now apply norows_runner. }
      pose proof (lib_call_W ne t (OTaskSwitch t' (Some 1)) s1 [] I1 Logic.I Ht1 Hnr W1) as W2.
      pose proof (kproj_tframes _ _ t (kproj_lib_call t (OTaskSwitch t' (Some 1)) s1)) as F2.
      destruct (lib_call t (OTaskSwitch t' (Some 1)) s1) as [s2 r]. cbn [fst snd] in *.
      assert (Ht2 : t < length (tasks s2)) by (pose proof (ext_tasks _ _ E2); lia).
      destruct r as [[v|e]|y frs]; cbn [push] in W2.
      * apply IHk; auto; [apply (ext_inv _ _ E2)|congruence].
      * apply IHk; auto; [apply (ext_inv _ _ E2)|congruence].
      * cbn [fst snd yfr]. rewrite app_nil_r in W2. split; [exact W2|congruence].
    + (* SStart *)
      cbn [exec exec_ok exec_ne] in *. destruct (Hsp SStart ltac:(discriminate)) as (I1 & Ht1 & W1 & F1).
      destruct (spawn_task s SStart child) as [s1 t']. cbn [fst snd yfr] in *. split; [|exact F1].
      apply (WI_push_inert ne _ t [InSleep0] [] s1); auto. apply inert_noacqp. repeat constructor.
    + (* SEager *)
      cbn [exec exec_ok exec_ne] in *.
      assert (En : ne = false) by (destruct ne; auto; destruct (Hne eq_refl)).
      subst ne. destruct Hok as [Hc Hk].
      destruct (exec_ext child t s I Ht Hc) as [E1 P1].
      destruct (IHc t s I Ht Hc ltac:(discriminate) W Hfr) as [W1 F1].
      destruct (exec t child s) as [s1 o]. cbn [fst snd] in *.
      pose proof (ext_inv _ _ E1) as I1.
      assert (Ht1 : t < length (tasks s1)) by (pose proof (ext_tasks _ _ E1); lia).
      destruct o as [r|y frs kc]; cbn [yfr] in W1.
      * change (new_future s1 None) with (fst (new_future s1 None), length (futs s1)) in Hk |- *.
        cbv beta iota in Hk |- *.
        set (s2 := fst (new_future s1 None)) in *. set (f := length (futs s1)) in *.
        assert (B2 : benign s1 s2) by apply chg_new_future.
        pose proof (Inv_benign _ _ B2 I1) as I2.
        set (x := match r with RVal v => FResult v | RExc e => FExc e end) in *.
        assert (B3 : benign s2 (fst (fut_finish s2 f x))).
        { apply benign_fut_finish; auto. right. intros H. apply (benign_lockfut s1 s2 f B2) in H.
          now apply (fresh_not_lockfut s1 I1). }
        assert (K3 : wk s1 (fst (fut_finish s2 f x))).
        { eapply wk_trans; [apply wk_new_future|apply wk_fut_finish]. }
        apply IHk; auto.
        -- eapply Inv_benign; [exact B3|exact I2].
        -- pose proof (k_ntasks K3). lia.
        -- discriminate.
        -- eapply WI_wk; eauto.
        -- eapply wk_tframes_nil; eauto.
      * specialize (P1 y frs kc eq_refl).
        set (sa := match y with YFut f => setf s1 f (getf s1 f <| fblock := false |>) | YNone => s1 end) in *.
        assert (Ba : benign s1 sa).
        { unfold sa. destruct y; [apply benign_refl|apply chg_setf_flag; reflexivity]. }
        assert (Ka : wk s1 sa).
        { unfold sa. destruct y; [apply wk_refl|apply wk_setf_flag; reflexivity]. }
        set (tn := length (tasks sa)) in Hk |- *. set (f := length (futs sa)) in Hk |- *.
        set (sb := fst (new_future sa (Some tn))) in Hk |- *.
        change (new_future sa (Some tn)) with (sb, f) in Hk |- *. cbv beta iota in Hk |- *.
        assert (Bb : benign sa sb) by apply chg_new_future.
        assert (Kb : wk s1 sb) by (eapply wk_trans; [exact Ka|apply wk_new_future]).
        pose proof (benign_trans _ _ _ Ba Bb) as Bab.
        pose proof (Inv_benign _ _ Bab I1) as Ib.
        pose proof (WI_wk _ _ _ _ _ Kb W1) as Wb.
        set (tk := mkTask KC None f (TEager y frs kc) None false [] None) in Hk |- *.
        set (sc := sb <| tasks := tasks sb ++ [tk] |>) in Hk |- *.
        assert (Etn : length (tasks sb) = tn) by reflexivity.
        assert (Egt : gett sc tn = tk) by (unfold gett, sc; cbn; rewrite <- Etn; apply nth_app_fresh).
        assert (Ego : forall t0, t0 <> tn -> gett sc t0 = gett sb t0).
        { intros t0 Hne0. unfold gett, sc. cbn.
          destruct (Nat.lt_ge_cases t0 (length (tasks sb))) as [H|H].
          + now apply nth_app_old.
          + rewrite !nth_oob; auto. rewrite app_length. simpl. lia. }
        assert (Htn : t < tn) by (pose proof (k_ntasks Ka); unfold tn; lia).
        assert (Fb : tframes sb t = []) by (eapply wk_tframes_nil; eauto).
        assert (Fbn : tframes sb tn = []) by (apply tframes_oob; lia).
        assert (Ic : Inv sc).
        { apply (Inv_store sb sc tn); try reflexivity; auto.
          - unfold sc. cbn. rewrite app_length. lia.
          - intros t0 H0. unfold sc in H0. cbn in H0. rewrite app_length in H0. simpl in H0. lia.
          - rewrite Egt. rewrite gett_oob by lia. reflexivity.
          - intros H. lia.
          - intros _ _. rewrite Egt. cbn [tfut tk]. split.
            + unfold sb. rewrite new_future_len. unfold f. lia.
            + unfold sb, f. rewrite new_future_get. discriminate.
          - unfold tframes. rewrite Egt. cbn. eapply pend_benign; eauto. }
        assert (Wc : WI false (t, []) sc).
        { apply (WI_retable false (t, frs) (t, []) sb sc); try reflexivity.
          - unfold sc. cbn. rewrite app_length. lia.
          - intros t0 H0. unfold is_prio_task. rewrite Ego by lia. auto.
          - intros t0 H0. destruct (Nat.eq_dec t0 tn) as [->|Hn0]; [now rewrite Egt|].
            rewrite Ego by auto. rewrite gett_oob by auto. reflexivity.
          - intros t0 l0 f0 had0 Hh. apply hasfr_nil in Hh.
            destruct (Nat.eq_dec t0 tn) as [->|Hn0].
            + exists t. split; [right; simpl; split; auto; unfold tframes in Hh; rewrite Egt in Hh; exact Hh|].
              right. split; auto. unfold is_prio_task. now rewrite Egt.
            + exists t0. split; [left; unfold tframes in *; now rewrite <- (Ego t0 Hn0)|now left].
          - intros t1 l0 f0 had0 [Hh|[E Hh]]; [|simpl in E, Hh].
            + exists t1. apply hasfr_nil. destruct (Nat.eq_dec t1 tn) as [->|Hn1].
              * rewrite Fbn in Hh. destruct Hh.
              * unfold tframes in *. rewrite Ego; auto.
            + exists tn. apply hasfr_nil. unfold tframes. rewrite Egt. exact Hh.
          - intros t0 fr c _ Hh. apply hasfr_nil in Hh. destruct (Nat.eq_dec t0 tn) as [->|Hn0].
            + exists t. right. simpl. split; auto. unfold tframes in Hh. rewrite Egt in Hh. exact Hh.
            + exists t0. left. unfold tframes in *. now rewrite <- (Ego t0 Hn0).
          - simpl. congruence.
          - discriminate.
          - exact Wb. }
        set (sd := call_soon_ sc (HStep tn None)) in Hk |- *.
        assert (Bd : benign sc sd).
        { apply chg_call_soon. apply cb_ok_step. unfold sc. cbn. rewrite app_length. simpl. lia. }
        apply IHk; auto.
        -- eapply Inv_benign; eauto.
        -- change (tasks sd) with (tasks sc). unfold sc. cbn. rewrite app_length.
           pose proof (k_ntasks Kb). lia.
        -- discriminate.
        -- eapply WI_wk; [apply wk_call_soon|exact Wc].
        -- change (tframes sd t) with (tframes sc t). unfold tframes. rewrite Ego by lia. exact Fb.
Qed.

(* ------------------------------------------------------------ finish_step *)
Theorem finish_step_W ne t s o :
  Inv s -> t < length (tasks s) -> tframes s t = [] ->
  (forall y frs k, o = OYield y frs k -> pend s frs) ->
  WI ne (t, yfr o) s -> WI ne (t, []) (finish_step t s o).
Proof.
  intros I Ht Hfr P W. unfold finish_step. destruct o as [[v|e]|y frs k]; cbn [yfr] in W.
  - set (s1 := sett s t (gett s t <| tcont_ := TFin |>)).
    assert (K1 : wk s s1) by (apply wk_sett; [reflexivity|reflexivity|symmetry; exact Hfr|discriminate|intros H; exact H|reflexivity]).
    destruct (tmustc (gett s t)).
    + eapply WI_wk; [|exact W]. eapply wk_trans; [exact K1|].
      eapply wk_trans; [|apply wk_fut_finish]. wsett.
    + eapply WI_wk; [|exact W]. eapply wk_trans; [exact K1|apply wk_fut_finish].
  - set (s1 := sett s t (gett s t <| tcont_ := TFin |>)).
    assert (K1 : wk s s1) by (apply wk_sett; [reflexivity|reflexivity|symmetry; exact Hfr|discriminate|intros H; exact H|reflexivity]).
    destruct (is_cancel e).
    + eapply WI_wk; [|exact W]. eapply wk_trans; [exact K1|].
      eapply wk_trans; [|apply wk_fut_finish]. apply wk_setf_flag; reflexivity.
    + eapply WI_wk; [|exact W]. eapply wk_trans; [exact K1|apply wk_fut_finish].
  - set (s1 := sett s t (gett s t <| tcont_ := TSusp frs k |>)).
    assert (Eg : gett s1 t = gett s t <| tcont_ := TSusp frs k |>) by (unfold s1; now apply gett_sett_same).
    assert (Ego : forall t0, t0 <> t -> gett s1 t0 = gett s t0).
    { intros t0 Hn. unfold s1. apply gett_sett_other. auto. }
    assert (W1 : WI ne (t, []) s1).
    { apply (WI_retable ne (t, frs) (t, []) s s1); try reflexivity.
      - unfold s1. rewrite sett_len. lia.
      - intros t0 _. unfold is_prio_task. destruct (Nat.eq_dec t0 t) as [->|Hn]; [rewrite Eg; auto|rewrite Ego; auto].
      - intros t0 H0. rewrite Ego by lia. now rewrite gett_oob.
      - intros t0 l0 f0 had0 Hh. apply hasfr_nil in Hh. exists t0. split; [|now left].
        destruct (Nat.eq_dec t0 t) as [->|Hn].
        + right. simpl. split; auto. unfold tframes in Hh. rewrite Eg in Hh. exact Hh.
        + left. unfold tframes in *. now rewrite <- (Ego t0 Hn).
      - intros t1 l0 f0 had0 [Hh|[E Hh]]; simpl in *.
        + exists t1. apply hasfr_nil. destruct (Nat.eq_dec t1 t) as [->|Hn].
          * rewrite Hfr in Hh. destruct Hh.
          * unfold tframes in *. now rewrite (Ego t1 Hn).
        + subst t1. exists t. apply hasfr_nil. unfold tframes. rewrite Eg. exact Hh.
      - intros t0 fr c _ Hh. apply hasfr_nil in Hh. exists t0. destruct (Nat.eq_dec t0 t) as [->|Hn].
        + right. simpl. split; auto. unfold tframes in Hh. rewrite Eg in Hh. exact Hh.
        + left. unfold tframes in *. now rewrite <- (Ego t0 Hn).
      - simpl. congruence.
      - intros En t0. destruct (Nat.eq_dec t0 t) as [->|Hn]; [now rewrite Eg|].
        rewrite Ego by auto. apply (w_necont W En).
      - exact W. }
    destruct y as [|f].
    + eapply WI_wk; [apply wk_call_soon|exact W1].
    + destruct (fblock (getf s1 f)); [|eapply WI_wk; [apply wk_call_soon|exact W1]].
      destruct (Nat.eqb f (tfut (gett s t))); [eapply WI_wk; [apply wk_call_soon|exact W1]|].
      set (s2 := setf s1 f (getf s1 f <| fblock := false |>)).
      set (s3 := add_done_callback s2 f (CbWakeup t)).
      set (s4 := sett s3 t (gett s3 t <| twaiter := Some f |>)).
      assert (K14 : wk s1 s4).
      { apply wk_trans with (s2 := s2); [apply wk_setf_flag; reflexivity|].
        apply wk_trans with (s2 := s3); [apply wk_add_done_callback|]. unfold s4. wsett. }
      destruct (tmustc (gett s4 t)); [|eapply WI_wk; eauto].
      pose proof (wk_cancel_awaitable s4 f) as K5.
      destruct (cancel_awaitable s4 f) as [s5 ok]. cbn [fst] in K5.
      destruct ok.
      * eapply WI_wk; [|exact W1]. eapply wk_trans; [exact K14|]. eapply wk_trans; [exact K5|]. wsett.
      * eapply WI_wk; [|exact W1]. eapply wk_trans; [exact K14|exact K5].
Qed.

(* ------------------------------------------------------------ step_task *)
Lemma step_tail_W ne t s0 s3 o :
  ext s0 s3 -> t < length (tasks s3) -> tframes s3 t = [] ->
  (forall y frs k, o = OYield y frs k -> pend s3 frs) ->
  WI ne (t, yfr o) s3 -> WI ne (t, []) ((finish_step t s3 o) <| current := None |>).
Proof.
  intros E Ht Hfr P W. apply (WI_wk _ _ _ (finish_step t s3 o)); [apply wk_core; reflexivity|].
  apply finish_step_W; auto. apply (ext_inv _ _ E).
Qed.

Lemma resume_then_exec_W ne t frs inp s0 s k :
  ext s0 s -> t < length (tasks s) -> pend s frs -> tframes s t = [] ->
  (let '(s1, r) := resume_stack t frs inp s in
   match r with LDone rep => exec_ok t (k rep) s1 | LSusp _ _ => True end) ->
  (ne = true -> let '(s1, r) := resume_stack t frs inp s in
   match r with LDone rep => exec_ne t (k rep) s1 | LSusp _ _ => True end) ->
  WI ne (t, frs) s ->
  let '(s3, o) := (let '(s1, r) := resume_stack t frs inp s in
                   match r with
                   | LDone rep => exec t (k rep) s1
                   | LSusp y frs' => (s1, OYield y frs' k) end) in
  WI ne (t, yfr o) s3 /\ tframes s3 t = [].
Proof.
  intros E Ht P Hfr Hok Hne W.
  destruct (resume_stack_ext frs t inp s (ext_inv _ _ E) Ht P) as [E1 P1].
  pose proof (resume_stack_W ne frs t inp s (ext_inv _ _ E) Ht P W) as W1.
  pose proof (kproj_tframes _ _ t (kproj_resume_stack frs t inp s)) as F1.
  destruct (resume_stack t frs inp s) as [s1 r]. cbn [fst snd] in *.
  assert (Ht1 : t < length (tasks s1)) by (pose proof (ext_tasks _ _ E1); lia).
  destruct r as [rep|y frs1]; cbn [push] in W1.
  - destruct (exec_W ne (k rep) t s1 (ext_inv _ _ E1) Ht1 Hok Hne W1 ltac:(congruence)) as [W2 F2].
    destruct (exec t (k rep) s1) as [s3 o]. cbn [fst snd] in *. auto.
  - rewrite app_nil_r in W1. cbn [yfr]. split; [exact W1|congruence].
Qed.

Theorem step_task_W ne t exc s :
  Inv s -> t < length (tasks s) -> step_ok t exc s -> (ne = true -> step_ne t exc s) ->
  WI ne (t, []) s -> WI ne (t, []) (step_task t exc s).
Proof.
  intros I Ht Hok Hne W. unfold step_task, step_ok, step_ne in *.
  destruct (tdone s t); [apply (WI_wk _ _ _ s); [apply wk_core; reflexivity|exact W]|].
  set (exc' := if tmustc (gett s t)
               then match exc with
                    | Some e => if is_cancel e then Some e else Some ECancelled
                    | None => Some ECancelled end
               else exc) in *.
  set (s1 := sett s t (gett s t <| tmustc := false |> <| twaiter := None |> <| tcont_ := TRun |>)) in *.
  set (s2 := s1 <| current := Some t |>) in *.
  assert (B2 : benign s s2).
  { apply benign_trans with (s2 := s1); [|apply chg_core_eq; reflexivity].
    apply chg_sett; [reflexivity|reflexivity|reflexivity|right; reflexivity]. }
  pose proof (ext_benign _ _ I B2) as E2.
  assert (Ht2 : t < length (tasks s2)) by (pose proof (ext_tasks _ _ E2); lia).
  assert (Eg : gett s2 t = gett s t <| tmustc := false |> <| twaiter := None |> <| tcont_ := TRun |>).
  { change (gett s2 t) with (gett s1 t). unfold s1. now apply gett_sett_same. }
  assert (Ego : forall t0, t0 <> t -> gett s2 t0 = gett s t0).
  { intros t0 Hn. change (gett s2 t0) with (gett s1 t0). unfold s1. apply gett_sett_other. auto. }
  assert (Hfr2 : forall t0, tframes s2 t0 = if Nat.eqb t t0 then [] else tframes s t0).
  { intros t0. unfold tframes. change (gett s2 t0) with (gett s1 t0). unfold s1. rewrite gett_sett.
    apply Nat.ltb_lt in Ht. rewrite Ht, andb_true_r. destruct (Nat.eqb t t0); reflexivity. }
  assert (F2 : tframes s2 t = []) by (rewrite Hfr2, Nat.eqb_refl; reflexivity).
  assert (P2 : pend s2 (tframes s t)).
  { split; [apply (iF1 I)|]. split.
    - intros l f had Hin. split; [apply (iF2 I _ _ _ _ Hin)|].
      intros t0 l0 had0 H0. rewrite Hfr2 in H0. destruct (Nat.eqb t t0) eqn:E; [destruct H0|].
      apply Nat.eqb_neq in E. apply E. eapply (iF3 I); eauto.
    - intros l f Hin. apply (iF4 I _ _ _ Hin). }
  assert (W2 : WI ne (t, tframes s t) s2).
  { apply (WI_retable ne (t, []) (t, tframes s t) s s2); try reflexivity.
    - change (tasks s2) with (tasks s1). unfold s1. rewrite sett_len. lia.
    - intros t0 _. unfold is_prio_task. destruct (Nat.eq_dec t0 t) as [->|Hn]; [rewrite Eg; auto|rewrite Ego; auto].
    - intros t0 H0. rewrite Ego by lia. now rewrite gett_oob.
    - intros t0 l0 f0 had0 [Hh|[E Hh]]; simpl in *.
      + exists t0. split; [|now left]. apply hasfr_nil. rewrite Hfr2 in Hh.
        destruct (Nat.eqb t t0); [destruct Hh|exact Hh].
      + subst t0. exists t. split; [|now left]. apply hasfr_nil. exact Hh.
    - intros t1 l0 f0 had0 Hh. apply hasfr_nil in Hh. exists t1.
      destruct (Nat.eq_dec t1 t) as [->|Hn]; [right; simpl; auto|].
      left. rewrite Hfr2. apply Nat.eqb_neq in Hn. rewrite Nat.eqb_sym in Hn. now rewrite Hn.
    - intros t0 fr c _ [Hh|[E Hh]]; simpl in *.
      + exists t0. apply hasfr_nil. rewrite Hfr2 in Hh. destruct (Nat.eqb t t0); [destruct Hh|exact Hh].
      + exists t. apply hasfr_nil. exact Hh.
    - intros _. exact Ht2.
    - intros En t0. destruct (Nat.eq_dec t0 t) as [->|Hn]; [now rewrite Eg|].
      rewrite Ego by auto. apply (w_necont W En).
    - exact W. }
  unfold tframes in P2, W2.
  destruct (tcont_ (gett s t)) as [c|frs k|y frs k| |]; cbn [frames_of] in P2, W2.
  - (* TNew *)
    destruct exc' as [e|].
    + apply (step_tail_W ne t s); auto. intros; discriminate.
    + destruct (exec_ext c t s2 (ext_inv _ _ E2) Ht2 Hok) as [E3 P3].
      destruct (exec_W ne c t s2 (ext_inv _ _ E2) Ht2 Hok Hne W2 F2) as [W3 F3].
      destruct (exec t c s2) as [s3 o]. cbn [fst snd] in *.
      apply (step_tail_W ne t s); auto; [eapply ext_trans; eauto|pose proof (ext_tasks _ _ E3); lia].
  - (* TSusp *)
    pose proof (resume_then_exec t frs (match exc' with None => RVal 0 | Some e => RExc e end) s s2 k E2 Ht2 P2 Hok) as H.
    pose proof (resume_then_exec_W ne t frs (match exc' with None => RVal 0 | Some e => RExc e end) s s2 k E2 Ht2 P2 F2 Hok Hne W2) as HW.
    destruct (let '(s1, r) := resume_stack t frs _ s2 in _) as [s3 o].
    destruct H as (E3 & Ht3 & P3). destruct HW as [W3 F3]. apply (step_tail_W ne t s); auto.
  - (* TEager *)
    destruct exc' as [e|].
    + pose proof (resume_then_exec t frs (RExc e) s s2 k E2 Ht2 P2 Hok) as H.
      pose proof (resume_then_exec_W ne t frs (RExc e) s s2 k E2 Ht2 P2 F2 Hok Hne W2) as HW.
      destruct (let '(s1, r) := resume_stack t frs _ s2 in _) as [s3 o].
      destruct H as (E3 & Ht3 & P3). destruct HW as [W3 F3]. apply (step_tail_W ne t s); auto.
    + set (s3 := match y with YFut f => setf s2 f (getf s2 f <| fblock := true |>) | YNone => s2 end).
      assert (B3 : benign s2 s3).
      { unfold s3. destruct y; [apply benign_refl|apply chg_setf_flag; reflexivity]. }
      assert (K3 : wk s2 s3).
      { unfold s3. destruct y; [apply wk_refl|apply wk_setf_flag; reflexivity]. }
      apply (step_tail_W ne t s).
      * eapply ext_step_benign; eauto.
      * pose proof (benign_tasks _ _ B3). lia.
      * eapply wk_tframes_nil; eauto.
      * intros y0 frs0 k0 H. inversion H; subst. eapply pend_benign; eauto.
      * cbn [yfr]. eapply WI_wk; eauto.
  - (* TRun *) apply (step_tail_W ne t s); auto. intros; discriminate.
  - (* TFin *) apply (step_tail_W ne t s); auto. intros; discriminate.
Qed.

(* ------------------------------------------------------------ the loop *)
Theorem wakeup_W ne t f s :
  Inv s -> t < length (tasks s) -> wakeup_ok t f s -> (ne = true -> wakeup_ne t f s) ->
  WI ne (t, []) s -> WI ne (t, []) (wakeup t f s).
Proof.
  intros I Ht Hok Hne W. unfold wakeup, wakeup_ok, wakeup_ne in *. destruct (fstate_ (getf s f)).
  - now apply step_task_W.
  - now apply step_task_W.
  - now apply step_task_W.
  - pose proof (chg_fut_result (notlf s) s f) as B. pose proof (wk_fut_result s f) as K.
    destruct (fut_result s f) as [s' r]. cbn [fst] in *.
    apply step_task_W; auto.
    + eapply Inv_benign; eauto.
    + pose proof (benign_tasks _ _ B). lia.
    + eapply WI_wk; eauto.
Qed.

Theorem run_callback_W ne c s :
  Inv s -> In c (hcbs s) -> run_callback_ok c s -> (ne = true -> run_callback_ne c s) ->
  WInv ne s -> WInv ne (run_callback c s).
Proof.
  intros I Hin Hok Hne W. pose proof (iE1 I _ Hin) as Hc. unfold WInv in *.
  destruct c; cbn [run_callback run_callback_ok run_callback_ne cb_task_ok] in *.
  - apply (WI_runner ne _ t 0). apply step_task_W; auto. now apply (WI_runner ne _ 0 t).
  - apply (WI_runner ne _ t 0). apply wakeup_W; auto. now apply (WI_runner ne _ 0 t).
  - pose proof (wk_task_reinsert s t p) as K. destruct (task_reinsert s t p) as [s' r]. cbn [fst] in K.
    destruct r; [eapply WI_wk; eauto|].
    apply (WI_wk _ _ _ s'); [apply wk_core; reflexivity|eapply WI_wk; eauto].
  - apply (WI_wk _ _ _ s); [apply wk_core; reflexivity|exact W].
  - eapply WI_wk; [apply wk_fut_finish|exact W].
  - eapply WI_wk; [apply wk_new_task|exact W].
  - apply (WI_wk _ _ _ s); [|exact W]. unfold queue_iterated.
    destruct (ready (addlog s (query_code s))); apply wk_core; reflexivity.
  - eapply WI_wk; [apply wk_cancel_task|exact W].
Qed.

Theorem run_one_W ne s :
  Inv s -> run_one_ok s -> (ne = true -> run_one_ne s) -> WInv ne s -> WInv ne (run_one s).
Proof.
  intros I Hok Hne W. unfold run_one, run_one_ok, run_one_ne in *.
  destruct (rq_popleft (ready s)) as [[h r]|]; [|exact W].
  set (s1 := s <| ready := r |>) in *.
  assert (B1 : benign s s1) by (apply chg_core_eq; reflexivity).
  assert (W1 : WInv ne s1) by (apply (WI_wk _ _ _ s); [apply wk_core; reflexivity|exact W]).
  destruct (hcancelled (geth s1 h)) eqn:Ec; [exact W1|].
  apply run_callback_W; auto.
  - eapply Inv_benign; eauto.
  - change (hcbs s1) with (hcbs s). change (geth s1 h) with (geth s h) in *.
    destruct (Nat.lt_ge_cases h (length (handles s))) as [Hh|Hh].
    + unfold hcbs, geth. apply in_map. now apply nth_In.
    + unfold geth in Ec. rewrite nth_overflow in Ec by auto. discriminate.
Qed.

Theorem do_action_W ne s a :
  Inv s -> action_ok s a -> (ne = true -> action_ne s a) -> WInv ne s -> WInv ne (do_action s a).
Proof.
  intros I Hok Hne W. destruct a; cbn [do_action action_ok action_ne] in *.
  - now apply run_one_W.
  - eapply WI_wk; [apply wk_begin_iteration|exact W].
  - apply (WI_wk _ _ _ s); [apply wk_core; reflexivity|exact W].
  - eapply WI_wk; [apply wk_spawn_task|exact W].
  - destruct Hok as [Hs Hn]. apply (lib_call_core ne 0 op s (0, []) I Hs Hn Hne W).
Qed.

Lemma WInv_init ne p fa dr lks cds nev : WInv ne (init_st p fa dr lks cds nev).
Proof.
  set (s := init_st p fa dr lks cds nev).
  assert (Hl : forall l, exists k, getl s l = mkLock k false None pq_empty [] []) by (intros; apply init_getl).
  assert (Ht : forall t, gett s t = dtask) by (intros t; unfold gett, s, init_st; cbn; destruct t; reflexivity).
  assert (Hr : forall l, rows s l = []) by (intros l; unfold rows; destruct (Hl l) as [k ->]; reflexivity).
  assert (Hob : forall l, objs s l = []) by (intros l; unfold objs; destruct (Hl l) as [k ->]; reflexivity).
  assert (Hfr : forall t, tframes s t = []) by (intros t; unfold tframes; now rewrite Ht).
  constructor.
  - intros l. rewrite Hr. constructor.
  - intros l f. rewrite Hr, Hob. simpl. tauto.
  - intros l f t. rewrite Hr. intros [].
  - intros l f t. rewrite Hr. intros [].
  - intros l f f' t. rewrite Hr. intros [].
  - intros t l f had [H|[_ H]]; [rewrite Hfr in H; destruct H|destruct H].
  - intros l f u. rewrite Hr. intros [].
  - simpl. congruence.
  - intros _ t. now rewrite Ht.
  - intros _ t l _ Hp. unfold is_prio_task in Hp. rewrite Ht in Hp. discriminate.
  - intros _ l e He. destruct (Hl l) as [k E]. rewrite E in He. destruct He.
  - intros c. destruct (init_getc p fa dr lks cds nev c) as [E _]. fold s in E. rewrite E. split; constructor.
  - intros c. destruct (init_getc p fa dr lks cds nev c) as [_ E]. fold s in E. rewrite E. constructor.
  - intros c f. destruct (init_getc p fa dr lks cds nev c) as [E1 E2]. fold s in E1, E2. rewrite E1, E2.
    intros [[]|[]].
  - intros t fr c [H|[_ H]]; [rewrite Hfr in H; destruct H|destruct H].
Qed.

(* ------------------------------------------------------------ main theorems *)
Theorem run_W ne acts : forall s,
  Inv s -> WInv ne s -> run_ok s acts -> (ne = true -> run_ne s acts) ->
  Inv (fold_left do_action acts s) /\ WInv ne (fold_left do_action acts s).
Proof.
  induction acts as [|a acts IH]; intros s I W Hok Hne; simpl; [auto|].
  destruct Hok as [Ha Hr]. apply IH; auto.
  - apply (ext_inv _ _ (do_action_ext s a I Ha)).
  - apply do_action_W; auto. intros E. apply (Hne E).
  - intros E. apply (Hne E).
Qed.

(* reachable without eager starts *)
Definition reachable_ne (s : st) : Prop :=
  exists p fa dr lks cds nev acts,
    run_ok (init_st p fa dr lks cds nev) acts /\ run_ne (init_st p fa dr lks cds nev) acts /\
    s = fold_left do_action acts (init_st p fa dr lks cds nev).

Lemma reachable_ne_reachable s : reachable_ne s -> reachable s.
Proof. intros (p & fa & dr & lks & cds & nev & acts & H1 & _ & E). exists p, fa, dr, lks, cds, nev, acts. auto. Qed.

Theorem reachable_WInv s : reachable s -> WInv false s.
Proof.
  intros (p & fa & dr & lks & cds & nev & acts & Hok & ->).
  apply run_W; auto; [apply Inv_init|apply WInv_init|discriminate].
Qed.

Theorem reachable_ne_WInv s : reachable_ne s -> WInv true s.
Proof.
  intros (p & fa & dr & lks & cds & nev & acts & Hok & Hne & ->).
  apply run_W; auto; [apply Inv_init|apply WInv_init].
Qed.
