(* C14, part 2: every way the frames of Condition.wait() can be popped.

   PriorityCondition.wait (priority.py) and InterruptCondition.wait (interrupt.py)
   suspend in two kinds of places:
     - inside `await fut`                      frames [InFut f; InCondWaitP/I c f]
     - inside the `await lock.acquire()` of the re-acquire retry loop
                                               frames [InFut f'; InAcquireP/A l f' ..; InReleasedP/InReacquireI c err body]
   This file proves, for every state and every input delivered at such a point:
   the resumption either suspends again inside the retry loop (ownership of all
   locks untouched) or leaves wait() with the lock taken by the caller, and the
   reply is the last exception delivered inside wait() (or True). *)
From Coq Require Import QArith.
From RecordUpdate Require Import RecordUpdate.
From Asynkit Require Import Base.Prelude Queue.PQ Queue.PosPQ Queue.Exec Sched.Model Sched.Tables
  Sched.CondView.
Import RecordSetNotations.
Open Scope nat_scope.

(* ------------------------------------------------------------ notify keeps ownership *)
Definition nstep (n : nat) (v : Z) : st * nat * nat -> nat -> st * nat * nat :=
  fun '(s, taken, cnt) f =>
    if Nat.leb n cnt then (s, taken, cnt)
    else if fdone s f then (s, S taken, cnt)
    else (fst (fut_finish s f (FResult v)), S taken, S cnt).

Lemma nfold_tables n v order : forall s tk cnt,
  let s' := fst (fst (fold_left (nstep n v) order (s, tk, cnt))) in
  locks s' = locks s /\ conds s' = conds s /\ tasks s' = tasks s.
Proof.
  induction order as [|f order IH]; intros s tk cnt; simpl; auto.
  destruct (Nat.leb n cnt); [apply IH|]. destruct (fdone s f); [apply IH|].
  destruct (IH (fst (fut_finish s f (FResult v))) (S tk) (S cnt)) as (A & B & C).
  destruct (fut_finish_tables s f (FResult v)) as (A' & B' & C'). cbv zeta in *.
  rewrite A, B, C. auto.
Qed.

Lemma notify_p_unfold s c n :
  notify_p s c n =
  let r := fold_left (nstep n 1) (map (fun e => Z.to_nat (eobj e)) (arr (pq_sort HQ (cpq (getc s c)))))
                     (s, O, O) in
  setc (fst (fst r)) c
       (getc (fst (fst r)) c <| cpq := snd (pq_ordered_take HQ (cpq (getc s c))
                                             (if Nat.leb n 0 then 0 else snd (fst r))) |>).
Proof.
  unfold notify_p, nstep. cbv zeta.
  destruct (fold_left _ _ (s, 0, 0)) as [[s1 tk] cnt]. reflexivity.
Qed.

Lemma notify_p_tables s c n :
  locks (notify_p s c n) = locks s /\ tasks (notify_p s c n) = tasks s /\
  cview (notify_p s c n) = cview s.
Proof.
  rewrite notify_p_unfold. cbv zeta.
  match goal with |- context [fold_left ?F ?L ?S] =>
    destruct (nfold_tables n 1 L s 0 0) as (A & B & C); set (r := fold_left F L S) in * end.
  cbv zeta in A, B, C. split; [exact A|]. split; [exact C|].
  rewrite cview_setc_same by reflexivity. unfold cview. now rewrite B.
Qed.

Lemma sv_notify_p s c n : same_view s (notify_p s c n).
Proof.
  destruct (notify_p_tables s c n) as (A & B & C).
  constructor; [unfold lview; now rewrite A|exact C|unfold pview; now rewrite B].
Qed.

Lemma sv_cond_p_after s c r : same_view s (fst (cond_p_after s c r)).
Proof. destruct r; cbn [cond_p_after fst]; [apply sv_refl|apply sv_notify_p]. Qed.

(* ------------------------------------------------------------ vocabulary *)
(* PriorityLock bookkeeping at l (I1 of the C13 invariant): a free lock has no owner *)
Definition lock_sound (s : st) (l : nat) : Prop :=
  l < length (locks s) /\
  (lkind_ (getl s l) = LPrio -> llocked (getl s l) = false -> lowner (getl s l) = None).
(* `with _waiting_on(task, self)` asserts that the task is not already waiting on a lock *)
Definition not_waiting (s : st) (t : nat) : Prop :=
  is_prio_task s t = true -> twaiting (gett s t) = None.

Lemma lock_sound_view s s' l : lview s' = lview s -> lock_sound s l -> lock_sound s' l.
Proof.
  intros E [A B]. split; [now rewrite (lview_len s s' E)|].
  rewrite (lview_kind s s' l E), (lview_locked s s' l E), (lview_owner s s' l E). exact B.
Qed.

(* the frame of lock.acquire() for the lock's kind *)
Definition acq_frame (s : st) (t l f : nat) : frame :=
  match lkind_ (getl s l) with
  | LPrio => InAcquireP l f (is_prio_task s t)
  | LPlain => InAcquireA l f
  end.
(* the frame of the re-acquire retry loop: pc = PriorityCondition? *)
Definition retry_frame (pc : bool) (c : nat) (err : option exn) (body : reply) : frame :=
  if pc then InReleasedP c err body else InReacquireI c err body.
Definition wait_frame (pc : bool) (c f : nat) : frame :=
  if pc then InCondWaitP c f else InCondWaitI c f.
(* what the rest of wait() does with the outcome of the `try`/`async with` block *)
Definition after (pc : bool) (s : st) (c : nat) (rep : reply) : st * reply :=
  if pc then cond_p_after s c rep else (s, rep).
Definition norm (pc : bool) (rep : reply) : reply :=
  if pc then match rep with RVal _ => RVal 1 | RExc e => RExc e end else rep.

Lemma after_snd pc s c rep : snd (after pc s c rep) = norm pc rep.
Proof. destruct pc, rep; reflexivity. Qed.
Lemma sv_after pc s c rep : same_view s (fst (after pc s c rep)).
Proof. destruct pc; [apply sv_cond_p_after|apply sv_refl]. Qed.
(* the exceptional path of PriorityCondition.wait runs _notify(1) *)
Lemma after_exc_notifies s c e : fst (after true s c (RExc e)) = notify_p s c 1.
Proof. reflexivity. Qed.
Lemma after_val_nop pc s c v : fst (after pc s c (RVal v)) = s.
Proof. destruct pc; reflexivity. Qed.
Lemma after_i_nop s c rep : fst (after false s c rep) = s.
Proof. reflexivity. Qed.

(* ------------------------------------------------------------ the retry loop *)
Lemma acquire_start_spec s t l :
  lock_sound s l -> (lkind_ (getl s l) = LPrio -> not_waiting s t) ->
  let s' := fst (acquire_start s t l) in
  (snd (acquire_start s t l) = LDone (RVal 1) /\ taken s s' t l /\ llocked (getl s l) = false /\
   conds s' = conds s)
  \/
  (snd (acquire_start s t l) = LSusp (YFut (length (futs s)))
         [InFut (length (futs s)); acq_frame s t l (length (futs s))] /\
   same_view s s' /\ conds s' = conds s).
Proof.
  intros [Hl HI1] Hw. unfold acquire_start, acq_frame. destruct (lkind_ (getl s l)) eqn:Hk.
  - apply acquire_p_start_spec; auto. apply Hw; auto.
  - destruct (acquire_a_start_spec s t l Hk) as [(A & B & C & D & _)|(A & B & C & _)]; [left|right]; auto.
Qed.

(* one turn of `while True: try: await lock.acquire(); break; except CancelledError as e: err = e`
   followed, when the loop is left, by the rest of wait() *)
Definition reacq_after (pc : bool) (s : st) (t c : nat) (err : option exn) (body : reply) : st * lres :=
  let '(s1, r) := reacquire s t c pc err body in
  match r with
  | LDone rep => let '(s2, rep') := after pc s1 c rep in (s2, LDone rep')
  | _ => (s1, r)
  end.

Definition outcome_of (err : option exn) (body : reply) : reply :=
  match err with Some e => RExc e | None => body end.

Lemma reacq_after_spec pc s t c err body :
  let l := clock (getc s c) in
  lock_sound s l -> (lkind_ (getl s l) = LPrio -> not_waiting s t) ->
  let s' := fst (reacq_after pc s t c err body) in
  (* the lock was free and nobody queued: taken at once, wait() is left *)
  (snd (reacq_after pc s t c err body) = LDone (norm pc (outcome_of err body)) /\
   llocked (getl s l) = false /\
   exists s1, taken s s1 t l /\ conds s1 = conds s /\ length (futs s1) = length (futs s) /\
              s' = fst (after pc s1 c (outcome_of err body)))
  \/
  (* suspended in lock.acquire(): nothing taken, ownership untouched *)
  (snd (reacq_after pc s t c err body) =
     LSusp (YFut (length (futs s)))
           [InFut (length (futs s)); acq_frame s t l (length (futs s)); retry_frame pc c err body] /\
   same_view s s' /\ conds s' = conds s).
Proof.
  intros l Hs Hw. unfold reacq_after, reacquire. fold l.
  pose proof (acquire_start_done_flen s t l 1) as FL.
  destruct (acquire_start_spec s t l Hs Hw) as [(A & B & C & D)|(A & B & D)];
    destruct (acquire_start s t l) as [s1 r]; cbn [fst snd] in *; subst r.
  - left. fold (outcome_of err body).
    pose proof (after_snd pc s1 c (outcome_of err body)) as E.
    destruct (after pc s1 c (outcome_of err body)) as [s2 rep'] eqn:Ea. cbn [fst snd] in *.
    subst rep'. split; [reflexivity|]. split; [exact C|].
    exists s1. rewrite Ea. auto.
  - right. cbn [app]. unfold retry_frame. destruct pc; cbn [fst snd]; auto.
Qed.

(* ------------------------------------------------------------ frame by frame *)
Lemma infut_exc t f e s : frame_resume t (InFut f) (RExc e) s = (s, LDone (RExc e)).
Proof. reflexivity. Qed.
Lemma infut_val t f v v' s :
  fstate_ (getf s f) = FResult v' -> frame_resume t (InFut f) (RVal v) s = (s, LDone (RVal v')).
Proof. intros H. cbn [frame_resume]. unfold fdone, fut_result. rewrite H. reflexivity. Qed.

(* leaving `await fut`: `finally: self._waiters.remove(fut)` *)
Definition drop_waiter (pc : bool) (s : st) (c f : nat) : st :=
  if pc then
    match pq_remove HQ (cpq (getc s c)) (Z.of_nat f) with
    | Some (_, q') => setc s c (getc s c <| cpq := q' |>)
    | None => s
    end
  else setc s c (getc s c <| cdq := filter (fun x => negb (Nat.eqb x f)) (cdq (getc s c)) |>).

Lemma sv_drop_waiter pc s c f : same_view s (drop_waiter pc s c f).
Proof.
  unfold drop_waiter. destruct pc; [|apply sv_setc; reflexivity].
  destruct (pq_remove HQ _ _) as [[p q']|]; [apply sv_setc; reflexivity|apply sv_refl].
Qed.
Lemma drop_waiter_tables pc s c f :
  locks (drop_waiter pc s c f) = locks s /\ tasks (drop_waiter pc s c f) = tasks s /\
  futs (drop_waiter pc s c f) = futs s.
Proof.
  unfold drop_waiter. destruct pc; [|auto]. destruct (pq_remove HQ _ _) as [[p q']|]; auto.
Qed.

Definition body_of (inp : reply) : reply := match inp with RVal _ => RVal 1 | RExc e => RExc e end.

Lemma wait_frame_eq pc t c f inp s :
  frame_resume t (wait_frame pc c f) inp s =
  reacq_after pc (drop_waiter pc s c f) t c None (body_of inp).
Proof.
  destruct pc; cbn [wait_frame frame_resume drop_waiter]; unfold reacq_after, body_of; cbv zeta.
  - reflexivity.
  - destruct (reacquire _ t c false None _) as [s1 r]. destruct r; reflexivity.
Qed.

Lemma retry_frame_eq pc t c err body inp s :
  frame_resume t (retry_frame pc c err body) inp s =
  match inp with
  | RVal _ => let '(s', rep) := after pc s c (outcome_of err body) in (s', LDone rep)
  | RExc e => if is_cancel e then reacq_after pc s t c (Some e) body
              else let '(s', rep) := after pc s c (RExc e) in (s', LDone rep)
  end.
Proof.
  destruct pc; cbn [retry_frame frame_resume]; unfold reacq_after, outcome_of, after.
  - destruct inp as [v|e]; [reflexivity|]. destruct (is_cancel e); reflexivity.
  - destruct inp as [v|e]; [reflexivity|]. destruct (is_cancel e); [|reflexivity].
    destruct (reacquire s t c false (Some e) body) as [s1 r]. destruct r; reflexivity.
Qed.

(* ------------------------------------------------------------ the stacks *)
Definition body_ok (body : reply) : Prop := match body with RVal v => v = 1%Z | RExc _ => True end.

(* the frame stacks of a task suspended inside cond.wait(), for condition c with lock l *)
Inductive wait_stack (c l : nat) : list frame -> Prop :=
| WS_wait pc f : wait_stack c l [InFut f; wait_frame pc c f]
| WS_acqP pc f had err body :
    body_ok body -> wait_stack c l [InFut f; InAcquireP l f had; retry_frame pc c err body]
| WS_acqA pc f err body :
    body_ok body -> wait_stack c l [InFut f; InAcquireA l f; retry_frame pc c err body].

(* stable side conditions: the acquire frame is the one of the lock's kind; a PriorityTask
   suspended in PriorityLock.acquire has registered itself with set_waiting_on *)
Definition stack_wf (s : st) (t l : nat) (frs : list frame) : Prop :=
  match frs with
  | [_; InAcquireP _ _ had; _] => lkind_ (getl s l) = LPrio /\ (is_prio_task s t = true -> had = true)
  | [_; InAcquireA _ _; _] => lkind_ (getl s l) = LPlain
  | _ => True
  end.
Definition at_wait_point (frs : list frame) : bool :=
  match last frs InSleep0 with
  | InCondWaitP _ _ | InCondWaitI _ _ => true
  | _ => false
  end.

(* the inputs considered: what Task.__wakeup delivers after set_result on the awaited
   future, or a thrown exception - any exception while in `await fut`, any CancelledError
   subclass (cancellation, InterruptException, TimeoutInterrupt) while re-acquiring.
   A PriorityLock waiter woken with a result finds the lock without owner (C13). *)
Inductive wait_input (s : st) (l : nat) : list frame -> reply -> Prop :=
| WI_wait_val f fr v v' :
    fstate_ (getf s f) = FResult v' -> at_wait_point [InFut f; fr] = true ->
    wait_input s l [InFut f; fr] (RVal v)
| WI_wait_exc f fr e :
    at_wait_point [InFut f; fr] = true -> wait_input s l [InFut f; fr] (RExc e)
| WI_acq_exc frs e :
    at_wait_point frs = false -> is_cancel e = true -> wait_input s l frs (RExc e)
| WI_acqP_val f had fr v v' :
    fstate_ (getf s f) = FResult v' -> lowner (getl s l) = None ->
    wait_input s l [InFut f; InAcquireP l f had; fr] (RVal v)
| WI_acqA_val f fr v v' :
    fstate_ (getf s f) = FResult v' ->
    wait_input s l [InFut f; InAcquireA l f; fr] (RVal v).

(* the exception wait() will raise if no further fault arrives *)
Definition pending_exc (frs : list frame) : option exn :=
  match last frs InSleep0 with
  | InReleasedP _ (Some e) _ | InReacquireI _ (Some e) _ => Some e
  | InReleasedP _ None (RExc e) | InReacquireI _ None (RExc e) => Some e
  | _ => None
  end.
(* the last exception delivered inside wait(), the current input included *)
Definition last_exc (frs : list frame) (inp : reply) : option exn :=
  match inp with RExc e => Some e | RVal _ => pending_exc frs end.
Definition reply_of (o : option exn) : reply := match o with Some e => RExc e | None => RVal 1 end.

Definition is_pcond (frs : list frame) : bool :=
  match last frs InSleep0 with
  | InCondWaitP _ _ | InReleasedP _ _ _ => true
  | _ => false
  end.


Lemma after_norm pc s c rep : fst (after pc s c (norm pc rep)) = fst (after pc s c rep).
Proof. destruct pc, rep; reflexivity. Qed.

(* the condition table at the moment the rest of wait() runs *)
Definition conds_at_exit (s : st) (c : nat) (frs : list frame) : list cond :=
  match last frs InSleep0 with
  | InCondWaitP _ f => conds (drop_waiter true s c f)
  | InCondWaitI _ f => conds (drop_waiter false s c f)
  | _ => conds s
  end.
Lemma conds_at_exit_retry s c a b pc err body :
  conds_at_exit s c [a; b; retry_frame pc c err body] = conds s.
Proof. destruct pc; reflexivity. Qed.

(* the task was woken as a waiter of an asyncio.Lock: Lock.acquire then sets
   `self._locked = True` without looking *)
Definition woken_a (frs : list frame) (inp : reply) : Prop :=
  match inp, frs with
  | RVal _, [_; InAcquireA _ _; _] => True
  | _, _ => False
  end.

(* the outcome of a resumption *)
Definition wait_result (s : st) (t c l : nat) (frs : list frame) (inp : reply) (s' : st) (r : lres) : Prop :=
  match r with
  | LSusp y frs' =>
      (* (a) still inside wait(), now (again) suspended in the retry loop: nothing was
         taken, no lock changed hands; the frame remembers the last exception *)
      (exists f' rest, y = YFut f' /\ frs' = InFut f' :: rest) /\
      wait_stack c l frs' /\ stack_wf s' t l frs' /\ at_wait_point frs' = false /\
      is_pcond frs' = is_pcond frs /\
      same_view s s' /\ pending_exc frs' = last_exc frs inp
  | LDone rep =>
      (* (b) wait() is left: the lock entry went from its value in s to "locked, owned by t"
         within this resumption and no other lock changed; the reply is the last exception
         delivered, else True *)
      rep = reply_of (last_exc frs inp) /\ taken s s' t l /\
      (* an asyncio.Lock has no owner field: the lock was free when this resumption began
         and is locked now - unless the task was woken as the lock's own waiter *)
      (lkind_ (getl s l) = LPlain -> llocked (getl s l) = false \/ woken_a frs inp) /\
      (* the lock is taken (state s1) before the rest of wait() runs - for a
         PriorityCondition that is `except BaseException: self._notify(1); raise` *)
      exists s1, taken s s1 t l /\ conds s1 = conds_at_exit s c frs /\
                 length (futs s1) = length (futs s) /\
                 s' = fst (after (is_pcond frs) s1 c rep)
  end.

Definition close (r : lres) : lres :=
  match r with LDone rep => LDone rep | LSusp y frs' => LSusp y (frs' ++ []) end.

Lemma resume2 t a b inp s s1 r1 :
  frame_resume t a inp s = (s1, LDone r1) ->
  resume_stack t [a; b] inp s = (fst (frame_resume t b r1 s1), close (snd (frame_resume t b r1 s1))).
Proof. intros E. cbn [resume_stack]. rewrite E. destruct (frame_resume t b r1 s1) as [s2 [rep|y frs']]; reflexivity. Qed.

Lemma resume3 t a b c0 inp s s1 r1 s2 r2 :
  frame_resume t a inp s = (s1, LDone r1) -> frame_resume t b r1 s1 = (s2, LDone r2) ->
  resume_stack t [a; b; c0] inp s = (fst (frame_resume t c0 r2 s2), close (snd (frame_resume t c0 r2 s2))).
Proof.
  intros E1 E2. cbn [resume_stack]. rewrite E1, E2.
  destruct (frame_resume t c0 r2 s2) as [s3 [rep|y frs']]; reflexivity.
Qed.

Lemma is_pcond_wait pc c f g : is_pcond [InFut g; wait_frame pc c f] = pc.
Proof. destruct pc; reflexivity. Qed.
Lemma is_pcond_retry pc c err body a b : is_pcond [a; b; retry_frame pc c err body] = pc.
Proof. destruct pc; reflexivity. Qed.
Lemma at_wait_retry pc c err body a b : at_wait_point [a; b; retry_frame pc c err body] = false.
Proof. destruct pc; reflexivity. Qed.
Lemma pending_retry pc c err body a b :
  pending_exc [a; b; retry_frame pc c err body] =
  match err with Some e => Some e | None => match body with RExc e => Some e | RVal _ => None end end.
Proof. destruct pc, err, body; reflexivity. Qed.

(* the new stack built by a suspension inside the retry loop *)
Lemma new_stack_ok pc s0 s' t c l n err body :
  body_ok body -> same_view s0 s' ->
  let frs' := [InFut n; acq_frame s0 t l n; retry_frame pc c err body] in
  wait_stack c l frs' /\ stack_wf s' t l frs'.
Proof.
  intros Hb V. unfold acq_frame. cbv zeta.
  pose proof (lview_kind s0 s' l (sv_l V)) as K. pose proof (pview_prio s0 s' t (sv_p V)) as P.
  destruct (lkind_ (getl s0 l)) eqn:Hk.
  - split; [now apply WS_acqP|]. cbn. split; [congruence|]. intros H. congruence.
  - split; [now apply WS_acqA|]. cbn. congruence.
Qed.

(* leaving through the retry loop, given that the state s0 it starts in is related to s *)
Lemma reacq_result pc s s0 t c l frs inp err body :
  l = clock (getc s0 c) -> same_view s s0 -> conds s0 = conds_at_exit s c frs ->
  length (futs s0) = length (futs s) ->
  lock_sound s0 l -> (lkind_ (getl s0 l) = LPrio -> not_waiting s0 t) ->
  body_ok body -> is_pcond frs = pc ->
  norm pc (outcome_of err body) = reply_of (last_exc frs inp) ->
  match err with Some e => Some e | None => match body with RExc e => Some e | RVal _ => None end end
    = last_exc frs inp ->
  let p := reacq_after pc s0 t c err body in
  wait_result s t c l frs inp (fst p) (close (snd p)).
Proof.
  intros El V C FL Hs Hw Hb Hpc Hrep Hlast. subst l.
  destruct (reacq_after_spec pc s0 t c err body Hs Hw) as [(A & B & s1 & T & C1 & F1 & E)|(A & B & C1)];
    cbv zeta; rewrite A; clear A; unfold close.
  - unfold wait_result. split; [exact Hrep|].
    assert (T' : taken s s1 t (clock (getc s0 c))) by (eapply view_taken; eauto).
    split; [|split].
    + rewrite E. eapply taken_view; [exact T'|apply sv_after].
    + intros _. left. now rewrite <- (lview_locked s s0 _ (sv_l V)).
    + exists s1. split; [exact T'|]. split; [congruence|]. split; [congruence|].
      rewrite Hpc, E. symmetry. apply after_norm.
  - cbn [app]. unfold wait_result.
    destruct (new_stack_ok pc s0 (fst (reacq_after pc s0 t c err body)) t c (clock (getc s0 c))
                (length (futs s0)) err body Hb B) as [W1 W2].
    split; [eauto|]. split; [exact W1|]. split; [exact W2|].
    split; [apply at_wait_retry|]. split; [now rewrite is_pcond_retry|].
    split; [eapply sv_trans; eauto|]. now rewrite pending_retry.
Qed.

(* ------------------------------------------------------------ case: inside `await fut` *)
Lemma wait_case pc s t c f inp :
  let l := clock (getc s c) in
  let frs := [InFut f; wait_frame pc c f] in
  lock_sound s l -> (lkind_ (getl s l) = LPrio -> not_waiting s t) ->
  wait_input s l frs inp ->
  wait_result s t c l frs inp (fst (resume_stack t frs inp s)) (snd (resume_stack t frs inp s)).
Proof.
  intros l frs Hs Hw Hin.
  assert (Hat : at_wait_point frs = true) by (unfold frs; destruct pc; reflexivity).
  assert (E0 : exists r0, frame_resume t (InFut f) inp s = (s, LDone r0) /\
                          match inp with RVal _ => exists v, r0 = RVal v | RExc e => r0 = RExc e end).
  { inversion Hin; subst.
    - eexists. split; [eapply infut_val; eauto|eauto].
    - eexists. split; [apply infut_exc|reflexivity].
    - congruence. }
  destruct E0 as (r0 & E0 & Hr0). unfold frs at 2 3.
  rewrite (resume2 t (InFut f) (wait_frame pc c f) inp s s r0 E0), wait_frame_eq. cbn [fst snd].
  set (s0 := drop_waiter pc s c f).
  assert (V : same_view s s0) by apply sv_drop_waiter.
  destruct (drop_waiter_tables pc s c f) as (TL & TT & TF). fold s0 in TL, TT, TF.
  assert (El : l = clock (getc s0 c)) by (unfold l; symmetry; apply cview_clock, (sv_c V)).
  apply reacq_result; auto.
  - unfold frs, conds_at_exit, s0. destruct pc; reflexivity.
  - now rewrite TF.
  - eapply lock_sound_view; [apply (sv_l V)|exact Hs].
  - intros Hk. rewrite (lview_kind s s0 l (sv_l V)) in Hk. specialize (Hw Hk).
    unfold not_waiting in *. rewrite (pview_prio s s0 t (sv_p V)). unfold gett. rewrite TT. exact Hw.
  - destruct inp; [destruct Hr0 as [v' ->]|subst r0]; exact I || reflexivity.
  - unfold frs. apply is_pcond_wait.
  - unfold outcome_of, last_exc. destruct inp as [v|e].
    + destruct Hr0 as [v' ->]. unfold frs, pending_exc. destruct pc; reflexivity.
    + subst r0. destruct pc; reflexivity.
  - unfold last_exc. destruct inp as [v|e].
    + destruct Hr0 as [v' ->]. unfold frs, pending_exc. destruct pc; reflexivity.
    + subst r0. reflexivity.
Qed.

(* ------------------------------------------------------------ case: inside the retry loop, a fault arrives *)
Lemma acq_exc_case pc s t c fa fr err body e s1 :
  let l := clock (getc s c) in
  let frs := [InFut fa; fr; retry_frame pc c err body] in
  frame_resume t fr (RExc e) s = (s1, LDone (RExc e)) ->
  same_view s s1 -> conds s1 = conds s -> length (futs s1) = length (futs s) ->
  (lkind_ (getl s l) = LPrio -> not_waiting s1 t) ->
  lock_sound s l -> body_ok body -> is_cancel e = true ->
  wait_result s t c l frs (RExc e) (fst (resume_stack t frs (RExc e) s)) (snd (resume_stack t frs (RExc e) s)).
Proof.
  intros l frs E1 V C FL Hw Hs Hb Hc. unfold frs at 2 3.
  rewrite (resume3 t (InFut fa) fr (retry_frame pc c err body) (RExc e) s s (RExc e) s1 (RExc e) (infut_exc t fa e s) E1), retry_frame_eq, Hc. cbn [fst snd].
  assert (El : l = clock (getc s1 c)) by (unfold l; symmetry; apply cview_clock, (sv_c V)).
  apply reacq_result; auto.
  - unfold frs. now rewrite conds_at_exit_retry.
  - eapply lock_sound_view; [apply (sv_l V)|exact Hs].
  - intros Hk. rewrite (lview_kind s s1 l (sv_l V)) in Hk. auto.
  - unfold frs. apply is_pcond_retry.
  - unfold outcome_of, last_exc. destruct pc; reflexivity.
Qed.

(* ------------------------------------------------------------ case: inside the retry loop, the lock arrives *)
Lemma acq_val_case pc s t c fa fr err body v v' v1 s1 :
  let l := clock (getc s c) in
  let frs := [InFut fa; fr; retry_frame pc c err body] in
  fstate_ (getf s fa) = FResult v' ->
  frame_resume t fr (RVal v') s = (s1, LDone (RVal v1)) ->
  taken s s1 t l -> conds s1 = conds s -> length (futs s1) = length (futs s) ->
  (lkind_ (getl s l) = LPlain -> llocked (getl s l) = false \/ woken_a frs (RVal v)) ->
  body_ok body ->
  wait_result s t c l frs (RVal v) (fst (resume_stack t frs (RVal v) s)) (snd (resume_stack t frs (RVal v) s)).
Proof.
  intros l frs Hf E1 T C FL Hpl Hb. unfold frs at 2 3.
  rewrite (resume3 t (InFut fa) fr (retry_frame pc c err body) (RVal v) s s (RVal v') s1 (RVal v1) (infut_val t fa v v' s Hf) E1), retry_frame_eq.
  pose proof (after_snd pc s1 c (outcome_of err body)) as Es.
  pose proof (sv_after pc s1 c (outcome_of err body)) as Va.
  destruct (after pc s1 c (outcome_of err body)) as [s2 rep] eqn:Ea. cbn [fst snd close] in *.
  unfold wait_result. subst rep.
  assert (Hrep : norm pc (outcome_of err body) = reply_of (last_exc frs (RVal v))).
  { unfold last_exc, frs. rewrite pending_retry. unfold outcome_of.
    destruct err as [e0|]; [destruct pc; reflexivity|].
    destruct body as [vb|eb]; [|destruct pc; reflexivity].
    cbn in Hb. subst vb. destruct pc; reflexivity. }
  split; [exact Hrep|]. split; [eapply taken_view; eauto|]. split; [exact Hpl|].
  exists s1. split; [exact T|]. split; [unfold frs; now rewrite conds_at_exit_retry|]. split; [exact FL|].
  unfold frs. rewrite is_pcond_retry, after_norm, Ea. reflexivity.
Qed.

(* ------------------------------------------------------------ the theorem *)
Theorem wait_resume s t c frs inp :
  let l := clock (getc s c) in
  wait_stack c l frs -> stack_wf s t l frs ->
  lock_sound s l ->
  (at_wait_point frs = true -> lkind_ (getl s l) = LPrio -> not_waiting s t) ->
  wait_input s l frs inp ->
  wait_result s t c l frs inp (fst (resume_stack t frs inp s)) (snd (resume_stack t frs inp s)).
Proof.
  intros l Hst Hwf Hs Hw Hin. destruct Hst as [pc f|pc f had err body Hb|pc f err body Hb].
  - apply wait_case; auto. apply Hw. destruct pc; reflexivity.
  - destruct Hwf as [Hk Hhad].
    assert (Hnw : at_wait_point [InFut f; InAcquireP l f had; retry_frame pc c err body] = false)
      by apply at_wait_retry.
    inversion Hin; subst.
    + (* a fault *)
      destruct (acquire_p_finish_exc s t l f had e) as (A & B & C & D).
      eapply acq_exc_case; eauto.
      * cbn [frame_resume]. destruct (acquire_p_finish s t l f had (RExc e)) as [s1 r] eqn:E.
        cbn [fst snd] in *. subst r. reflexivity.
      * apply acquire_p_finish_flen.
      * intros _ Hp. apply D. apply Hhad. now rewrite <- (pview_prio s _ t (sv_p B)).
    + (* woken with the lock free *)
      destruct (acquire_p_finish_val s t l f had v' Hk H5) as (A & B & C).
      eapply acq_val_case; eauto.
      * cbn [frame_resume]. destruct (acquire_p_finish s t l f had (RVal v')) as [s1 r] eqn:E.
        cbn [fst snd] in *. subst r. reflexivity.
      * apply acquire_p_finish_flen.
      * fold l. intros Hk'. congruence.
  - cbn in Hwf.
    assert (Hnw : at_wait_point [InFut f; InAcquireA l f; retry_frame pc c err body] = false)
      by apply at_wait_retry.
    inversion Hin; subst.
    + destruct (acquire_a_finish_exc s l f e) as (A & B & C & D).
      eapply acq_exc_case; eauto.
      * cbn [frame_resume]. destruct (acquire_a_finish s l f (RExc e)) as [s1 r] eqn:E.
        cbn [fst snd] in *. subst r. reflexivity.
      * apply acquire_a_finish_flen.
      * fold l. intros Hk'. congruence.
    + destruct (acquire_a_finish_val s t l f v' Hwf) as (A & B & C & D).
      eapply acq_val_case; eauto.
      * cbn [frame_resume]. destruct (acquire_a_finish s l f (RVal v')) as [s1 r] eqn:E.
        cbn [fst snd] in *. subst r. reflexivity.
      * intros _. right. destruct pc; exact I.
Qed.
