(* C11/C12, fixed lock order: the run-checked side condition [run_ord] ("whenever a task starts
   acquire() on PriorityLock l it holds only PriorityLocks with a smaller index"; mirrors
   [run_ok] / [run_ne]) and the pass that makes [ordf] an invariant of every run satisfying it.
   Same architecture as LockProofs.v / NoOvertakePass.v: library calls -> frames -> resume_stack
   -> exec (induction on the coro tree) -> finish_step -> step_task -> callbacks -> actions; the
   C13 invariant of every intermediate state is taken from the *_ext lemmas. *)
From Coq Require Import QArith Sorting.Permutation.
From RecordUpdate Require Import RecordUpdate.
From Asynkit Require Import Base.Prelude Queue.PQ Queue.Order Queue.PQProofs Queue.PosPQ Queue.Exec
  Sched.Model Sched.Tables Sched.QFacts Sched.LockInv Sched.Footprint Sched.LockOps Sched.LockLib
  Sched.LockProofs Sched.WaitProofs.
From Asynkit Require Import Sched.OrderInv.
Import RecordSetNotations.
Open Scope nat_scope.

(* ------------------------------------------------------------ the side condition *)
(* a library call: acquire(l) is started only while holding smaller PriorityLocks *)
Definition op_ord (t : nat) (op : libop) (s : st) : Prop :=
  match op with OAcquire l => holds_below s t l | _ => True end.

(* a resumed frame: the re-acquisition of a condition's lock (wait() / its retry loop) *)
Definition frame_ord (t : nat) (fr : frame) (inp : reply) (s : st) : Prop :=
  match fr with
  | InCondWaitP c _ | InCondWaitI c _ => holds_below s t (clock (getc s c))
  | InReleasedP c _ _ | InReacquireI c _ _ =>
      match inp with
      | RExc e => is_cancel e = true -> holds_below s t (clock (getc s c))
      | RVal _ => True end
  | _ => True
  end.

Fixpoint resume_ord (t : nat) (frs : list frame) (inp : reply) (s : st) : Prop :=
  match frs with
  | [] => True
  | fr :: rest =>
      frame_ord t fr inp s /\
      (let '(s', r) := frame_resume t fr inp s in
       match r with LDone rep => resume_ord t rest rep s' | LSusp _ _ => True end)
  end.

Fixpoint exec_ord (t : nat) (c : coro) (s : st) {struct c} : Prop :=
  match c with
  | Ret _ | Raise _ => True
  | Call op k =>
      op_ord t op s /\
      (let '(s', r) := lib_call t op s in
       match r with LDone rep => exec_ord t (k rep) s' | LSusp _ _ => True end)
  | Spawn SEager child k => True
  | Spawn how child k =>
      let '(s, t') := spawn_task s how child in
      match how with
      | SDescend =>
          let '(s, r) := lib_call t (OTaskSwitch t' (Some 1)) s in
          match r with
          | LDone (RExc e) => exec_ord t (k (RExc e)) s
          | LDone (RVal _) => exec_ord t (k (RVal (Z.of_nat t'))) s
          | LSusp _ _ => True
          end
      | SStart => True
      | _ => exec_ord t (k (RVal (Z.of_nat t'))) s
      end
  end.

Definition step_ord (t : nat) (exc : option exn) (s : st) : Prop :=
  if tdone s t then True else
  let tk := gett s t in
  let exc := if tmustc tk
             then match exc with
                  | Some e => if is_cancel e then Some e else Some ECancelled
                  | None => Some ECancelled end
             else exc in
  let cont := tcont_ tk in
  let s := sett s t (tk <| tmustc := false |> <| twaiter := None |> <| tcont_ := TRun |>) in
  let s := s <| current := Some t |> in
  let inp := match exc with None => RVal 0 | Some e => RExc e end in
  match cont with
  | TNew c => match exc with Some _ => True | None => exec_ord t c s end
  | TSusp frs k =>
      resume_ord t frs inp s /\
      (let '(s, r) := resume_stack t frs inp s in
       match r with LDone rep => exec_ord t (k rep) s | LSusp _ _ => True end)
  | TEager y frs k =>
      match exc with
      | None => True
      | Some _ =>
          resume_ord t frs inp s /\
          (let '(s, r) := resume_stack t frs inp s in
           match r with LDone rep => exec_ord t (k rep) s | LSusp _ _ => True end)
      end
  | TRun | TFin => True
  end.

Definition wakeup_ord (t f : nat) (s : st) : Prop :=
  match fstate_ (getf s f) with
  | FResult _ => step_ord t None s
  | FExc e => step_ord t (Some e) s
  | FCancelled => let '(s', r) := fut_result s f in
                  step_ord t (match r with RExc e => Some e | RVal _ => None end) s'
  | FPending => step_ord t (Some EInvalidState) s
  end.

Definition run_callback_ord (c : callback) (s : st) : Prop :=
  match c with
  | HStep t e => step_ord t e s
  | HWakeup t f => wakeup_ord t f s
  | _ => True
  end.

Definition run_one_ord (s : st) : Prop :=
  match rq_popleft (ready s) with
  | None => True
  | Some (h, r) =>
      let s := s <| ready := r |> in
      let hd := geth s h in
      if hcancelled hd then True else run_callback_ord (hcb hd) s
  end.

Definition action_ord (s : st) (a : action) : Prop :=
  match a with
  | AStep => run_one_ord s
  | _ => True
  end.

Fixpoint run_ord (s : st) (acts : list action) : Prop :=
  match acts with
  | [] => True
  | a :: rest => action_ord s a /\ run_ord (do_action s a) rest
  end.

(* ------------------------------------------------------------ one library-level step *)
(* a step of the running task t with result r: the footprint, and the frames it pushes are
   below the locks t holds *)
Definition xo (g : bool) (t : nat) (s s' : st) (r : lres) : Prop :=
  hr g t s s' /\ (forall y frs, r = LSusp y frs -> ordp s' t frs).

Lemma xo_hr_l g t s1 s2 s3 r : hr g t s1 s2 -> xo g t s2 s3 r -> xo g t s1 s3 r.
Proof. intros A [B C]. split; auto. eapply hr_trans; eauto. Qed.

Lemma xo_true g t s s' r : xo g t s s' r -> xo true t s s' r.
Proof. intros [A B]. split; auto. destruct g; auto. now apply hr_weaken. Qed.

Lemma fin_xo g t s s' (r : lres) :
  Inv s -> benign s s' -> (forall y frs, r = LSusp y frs -> Forall (fun fr => inert fr = true) frs) ->
  xo g t s s' r.
Proof.
  intros _ B H. split; [now apply hr_benign|]. intros y frs Hy. apply ordp_inert. eapply H; eauto.
Qed.

Lemma xo_refl g t s r :
  (forall y frs, r = LSusp y frs -> Forall (fun fr => inert fr = true) frs) -> xo g t s s r.
Proof. intros H. split; [apply hr_refl|]. intros y frs Hy. apply ordp_inert. eapply H; eauto. Qed.

Ltac xo_refl_tac := apply xo_refl; inert_tac.

(* ------------------------------------------------------------ acquire / release *)
Lemma acquire_start_xo s t l :
  Inv s -> holds_below s t l -> xo true t s (fst (acquire_start s t l)) (snd (acquire_start s t l)).
Proof.
  intros I Hb. unfold acquire_start. destruct (lkind_ (getl s l)) eqn:Ek.
  - destruct (acquire_p_start_ot s t l) as [O F]. split; [now apply ot_hr|].
    intros y frs Hy. destruct (F y frs Hy) as (Eh & f & had & ->).
    intros l' f' had' l0 Hin Hl0. rewrite Eh in Hl0.
    destruct Hin as [Hin|[Hin|[]]]; [discriminate|]. inversion Hin; subst. now apply Hb.
  - destruct (benign_acquire_a_start s l I Ek) as [B _]. split; [now apply hr_benign|].
    intros y frs Hy. apply ordp_noacq. intros l' f' had' Hin.
    unfold acquire_a_start in Hy. destruct (_ && _)%bool; [discriminate|].
    destruct (new_future s None) as [s1 f]. cbn [snd] in Hy. inversion Hy; subst.
    destruct Hin as [Hin|[Hin|[]]]; discriminate.
Qed.

Lemma release_hr s t l : Inv s -> hr false t s (fst (release s t l)).
Proof.
  intros I. unfold release. destruct (lkind_ (getl s l)) eqn:Ek.
  - apply ot_hr_false; apply release_p_ot.
  - apply hr_benign. now apply benign_release_a.
Qed.

Lemma reacquire_xo s t c pc err body :
  Inv s -> holds_below s t (clock (getc s c)) ->
  xo true t s (fst (reacquire s t c pc err body)) (snd (reacquire s t c pc err body)).
Proof.
  intros I Hb. unfold reacquire. destruct (acquire_start_xo s t (clock (getc s c)) I Hb) as [H F].
  destruct (acquire_start s t (clock (getc s c))) as [s1 r]. cbn [fst snd] in *.
  destruct r as [[v|e]|y frs]; cbn [fst snd]; (split; [exact H|]); try (intros; discriminate).
  intros y0 frs0 Hy. inversion Hy; subst. apply ordp_app; [eapply F; eauto|].
  apply ordp_noacq. intros l f had [Hin|[]]. destruct pc; discriminate.
Qed.

Lemma reacq_after_xo s t c err body :
  Inv s -> t < length (tasks s) -> holds_below s t (clock (getc s c)) ->
  xo true t s (fst (reacq_after s t c err body)) (snd (reacq_after s t c err body)).
Proof.
  intros I Ht Hb. unfold reacq_after.
  pose proof (reacquire_xo s t c true err body I Hb) as N.
  destruct (reacquire_ext s t c true err body I Ht) as [E _].
  destruct (reacquire s t c true err body) as [s1 r]. cbn [fst snd] in *.
  destruct r as [rep|y frs]; [|exact N].
  pose proof (benign_cond_p_after s1 c rep (ext_inv _ _ E)) as B.
  destruct (cond_p_after s1 c rep) as [s2 rep']. cbn [fst snd] in *.
  split; [|intros; discriminate]. eapply hr_trans; [apply N|now apply hr_benign].
Qed.

(* ------------------------------------------------------------ lib_call *)
Theorem lib_call_xo t op s :
  Inv s -> op_safe s op -> (needs_task op = true -> t < length (tasks s)) -> op_ord t op s ->
  xo (needs_task op) t s (fst (lib_call t op s)) (snd (lib_call t op s)).
Proof.
  intros I Hs Hn Ho. destruct op; cbn [lib_call needs_task].
  - (* OLog *) apply fin_xo; auto; [apply chg_core_eq; reflexivity|inert_tac].
  - (* OSleep0 *) apply fin_xo; auto; [apply benign_refl|inert_tac].
  - (* OSleep *)
    set (f := length (futs s)). set (s1 := fst (new_future s None)).
    change (new_future s None) with (s1, f). cbv beta iota.
    assert (B1 : benign s s1) by apply chg_new_future.
    pose proof (chg_call_at (notlf s1) s1 (Qplus (now s1) d) (HSetResult f 0)) as B2.
    destruct (call_at s1 (Qplus (now s1) d) (HSetResult f 0)) as [s2 h]. cbn [fst snd] in *.
    apply fin_xo; auto; [|inert_tac].
    eapply benign_trans; [exact B1|]. eapply benign_trans; [apply B2|apply chg_setf_flag; reflexivity].
    split; [exact Logic.I|]. intros f0 v0 E. inversion E; subst f0 v0. split.
    + unfold s1. rewrite new_future_len. unfold f. lia.
    + intros H. apply (benign_lockfut s s1 f B1) in H. now apply (fresh_not_lockfut s I).
  - (* ONewFut *) cbn [fst snd]. apply fin_xo; auto; [apply chg_new_future|inert_tac].
  - (* OAwaitFut *)
    pose proof (chg_await_fut (notlf s) s f []) as B. unfold await_fut in *.
    destruct (fdone s f).
    + destruct (fut_result s f) as [s' r]. cbn [fst snd] in *. apply fin_xo; auto. inert_tac.
    + cbn [fst snd] in *. apply fin_xo; auto. inert_tac.
  - (* OAwaitTask *)
    pose proof (chg_await_fut (notlf s) s (tfut (gett s t0)) []) as B. unfold await_fut in *.
    destruct (fdone s (tfut (gett s t0))).
    + destruct (fut_result s _) as [s' r]. cbn [fst snd] in *. apply fin_xo; auto. inert_tac.
    + cbn [fst snd] in *. apply fin_xo; auto. inert_tac.
  - (* OSetResult *)
    pose proof (benign_fut_finish s f (FResult v) I (or_intror Hs)) as B.
    destruct (fut_finish s f (FResult v)) as [s' ok]. cbn [fst snd] in *. apply fin_xo; auto. inert_tac.
  - (* OSetExc *)
    pose proof (benign_fut_finish s f (FExc e) I (or_intror Hs)) as B.
    destruct (fut_finish s f (FExc e)) as [s' ok]. cbn [fst snd] in *. apply fin_xo; auto. inert_tac.
  - (* OFutCancel *)
    pose proof (benign_fut_finish s f FCancelled I (or_introl eq_refl)) as B.
    destruct (fut_finish s f FCancelled) as [s' ok]. cbn [fst snd] in *. apply fin_xo; auto. inert_tac.
  - (* OCancel *)
    pose proof (benign_cancel_task s t0 I) as B.
    destruct (cancel_task s t0) as [s' ok]. cbn [fst snd] in *. apply fin_xo; auto. inert_tac.
  - (* OEventWait *)
    destruct (evalue (gete s e)); [apply fin_xo; auto; [apply benign_refl|inert_tac]|].
    set (f := length (futs s)). set (s1 := fst (new_future s None)).
    change (new_future s None) with (s1, f). cbv beta iota.
    assert (B1 : benign s s1) by apply chg_new_future.
    cbn [fst snd]. apply fin_xo; auto; [|inert_tac].
    eapply benign_trans; [exact B1|]. eapply benign_trans; [|apply chg_setf_flag; reflexivity].
    apply chg_sete. intros g Hg. cbn in Hg. apply in_app_or in Hg as [Hg|[<-|[]]]; [now left|].
    right. split.
    + unfold s1. rewrite new_future_len. unfold f. lia.
    + intros H. apply (benign_lockfut s s1 f B1) in H. now apply (fresh_not_lockfut s I).
  - (* OEventSet *)
    destruct (evalue (gete s e)); [apply fin_xo; auto; [apply benign_refl|inert_tac]|].
    cbn [fst snd]. apply fin_xo; auto; [|inert_tac].
    set (s1 := sete s e (mkEv true (ewaiters (gete s e)))).
    assert (B1 : benign s s1) by (apply chg_sete; intros g Hg; now left).
    eapply benign_trans; [exact B1|]. apply benign_event_fold; [eapply Inv_benign; eauto|].
    intros g Hg Hl. apply (benign_lockfut s s1 g B1) in Hl. apply (iD2 I _ Hl).
    apply (foreign_ev s e). unfold s1 in Hg. rewrite gete_sete, Nat.eqb_refl in Hg. simpl in Hg.
    destruct (Nat.ltb e (length (events s))); exact Hg.
  - (* OEventClear *)
    cbn [fst snd]. apply fin_xo; auto; [|inert_tac]. apply chg_sete; intros g Hg; now left.
  - (* OAcquire *) apply acquire_start_xo; auto.
  - (* ORelease *)
    pose proof (release_hr s t l I) as H. destruct (release s t l) as [s' r]. cbn [fst snd] in *.
    split; auto. intros; discriminate.
  - (* OCondWait *)
    destruct (negb (cond_locked s c)); [apply fin_xo; auto; [apply benign_refl|inert_tac]|].
    destruct (ckind_ (getc s c)).
    + set (f := length (futs s)). set (s1 := fst (new_future s None)).
      change (new_future s None) with (s1, f). cbv beta iota.
      assert (B1 : benign s s1) by apply chg_new_future.
      pose proof (Inv_benign s s1 B1 I) as I1.
      pose proof (release_hr s1 t (clock (getc s c)) I1) as H2.
      destruct (release_facts s1 t (clock (getc s c)) I1) as (E2 & Hf2 & Hl2 & _ & _).
      destruct (release s1 t (clock (getc s c))) as [s2 rr]. cbn [fst snd] in *.
      assert (H02 : hr false t s s2) by (eapply hr_trans; [apply hr_benign; exact B1|exact H2]).
      destruct rr as [v|e].
      * cbn [fst snd]. eapply xo_hr_l; [exact H02|].
        apply fin_xo; [apply (ext_inv _ _ E2)| |inert_tac].
        eapply benign_trans; [|apply chg_setf_flag; reflexivity].
        apply chg_setc.
        -- intros g Hg. cbn in Hg. apply pq_add_in in Hg as [->|Hg]; [|now left]. right. split.
           ++ rewrite Hf2. unfold s1. rewrite new_future_len. unfold f. lia.
           ++ intros H. apply Hl2 in H. apply (benign_lockfut s s1 f B1) in H. now apply (fresh_not_lockfut s I).
        -- intros g Hg. now left.
        -- intros H. cbn. now apply PQInv_add.
      * pose proof (benign_cond_p_after s2 c (RExc e) (ext_inv _ _ E2)) as B3.
        destruct (cond_p_after s2 c (RExc e)) as [s3 r3]. cbn [fst snd] in *.
        split; [eapply hr_trans; [exact H02|now apply hr_benign]|intros; discriminate].
    + pose proof (release_hr s t (clock (getc s c)) I) as H1.
      destruct (release_facts s t (clock (getc s c)) I) as (E1 & Hf1 & Hl1 & _ & _).
      destruct (release s t (clock (getc s c))) as [s1 rr]. cbn [fst snd] in *.
      destruct rr as [v|e]; [|cbn [fst snd]; split; [auto|intros; discriminate]].
      pose proof (ext_inv s s1 E1) as I1.
      set (f := length (futs s1)). set (s2 := fst (new_future s1 None)).
      change (new_future s1 None) with (s2, f). cbv beta iota.
      assert (B2 : benign s1 s2) by apply chg_new_future.
      cbn [fst snd]. eapply xo_hr_l; [exact H1|].
      apply fin_xo; [exact I1| |inert_tac].
      eapply benign_trans; [exact B2|].
      eapply benign_trans; [|apply chg_setf_flag; reflexivity].
      apply chg_setc.
      * intros g Hg. now left.
      * intros g Hg. cbn in Hg. apply in_app_or in Hg as [Hg|[<-|[]]]; [now left|]. right. split.
        -- unfold s2. rewrite new_future_len. unfold f. lia.
        -- intros H. apply (benign_lockfut s1 s2 f B2) in H. now apply (fresh_not_lockfut s1 I1).
      * intros H. exact H.
  - (* OCondNotify *)
    destruct (negb (cond_locked s c)); [apply fin_xo; auto; [apply benign_refl|inert_tac]|].
    cbn [fst snd]. apply fin_xo; auto; [|inert_tac].
    destruct (ckind_ (getc s c)); [now apply benign_notify_p|now apply benign_notify_i].
  - (* OCondNotifyAll *)
    destruct (negb (cond_locked s c)); [apply fin_xo; auto; [apply benign_refl|inert_tac]|].
    cbn [fst snd]. apply fin_xo; auto; [|inert_tac].
    destruct (ckind_ (getc s c)); [now apply benign_notify_p|now apply benign_notify_i].
  - (* OSleepInsert *)
    cbn [fst snd]. apply fin_xo; auto; [|inert_tac]. apply chg_call_pos.
    split; [exact Logic.I|intros; discriminate].
  - (* OTaskSwitch *)
    pose proof (benign_task_reinsert s t0 0) as B. destruct (task_reinsert s t0 0) as [s1 r]. cbn [fst] in B.
    destruct r as [v|e]; [|apply fin_xo; auto; inert_tac].
    destruct p as [p|]; cbn [fst snd].
    + apply fin_xo; [exact I| |inert_tac].
      eapply benign_trans; [exact B|]. apply chg_call_pos. split; [exact Logic.I|intros; discriminate].
    + apply fin_xo; [exact I|exact B|inert_tac].
  - (* OTaskReinsert *)
    pose proof (benign_task_reinsert s t0 p) as B. destruct (task_reinsert s t0 p) as [s1 r]. cbn [fst snd] in *.
    apply fin_xo; auto. inert_tac.
  - (* OCallSoon *) cbn [fst snd]. apply fin_xo; auto; [apply chg_call_soon, cb_ok_log|inert_tac].
  - (* OCallPos *) cbn [fst snd]. apply fin_xo; auto; [apply chg_call_pos, cb_ok_log|inert_tac].
  - (* OTaskThrow *)
    pose proof (benign_task_throw s t0 e) as B. destruct (task_throw s t0 e) as [s1 r]. cbn [fst snd] in *.
    apply fin_xo; auto. inert_tac.
  - (* OTaskInterrupt *)
    apply fin_xo; auto; [apply benign_task_interrupt_start|].
    intros y frs Hy. eapply task_interrupt_start_inert; eauto.
  - (* OTimeoutEnter *)
    destruct d as [d|]; [|apply fin_xo; auto; [apply benign_refl|inert_tac]].
    pose proof (chg_call_at (notlf s) s (Qplus (now s) d) (HTrigger (length (blocks s)))) as B.
    destruct (call_at s (Qplus (now s) d) (HTrigger (length (blocks s)))) as [s1 h]. cbn [fst snd] in *.
    apply fin_xo; auto; [|inert_tac].
    eapply benign_trans; [apply B; split; [exact Logic.I|intros; discriminate]|].
    apply chg_core_eq; reflexivity.
  - (* OTimeoutExit *)
    cbn [fst snd]. apply fin_xo; auto; [|inert_tac].
    eapply benign_trans; [|apply chg_cancel_handle]. apply chg_core_eq; reflexivity.
  - (* OInterruptor *)
    pose proof (benign_interruptor 4 s b 0) as B. pose proof (interruptor_inert 4 s b 0) as Hi.
    destruct (interruptor 4 s b 0) as [s1 r]. cbn [fst snd] in *.
    pose proof (interruptor_wrap_fst s1 r) as E. pose proof (interruptor_wrap_snd s1 r) as E2.
    destruct (interruptor_wrap s1 r) as [s2 r2]. cbn [fst snd] in *. subst s2.
    apply fin_xo; auto. intros y frs Hy. eapply Hi. eapply E2. exact Hy.
  - (* OSetPrio *)
    destruct (is_prio_task s t) eqn:Ep; cbn [fst snd]; (apply fin_xo; auto; [|inert_tac]); [|apply benign_refl].
    apply chg_sett; [reflexivity|reflexivity|symmetry; exact Ep|left; reflexivity].
  - (* OSelf *) apply fin_xo; auto; [apply benign_refl|inert_tac].
  - (* OQuery *) cbn [fst snd]. apply fin_xo; auto; [|inert_tac].
    unfold queue_iterated. destruct (ready (addlog s (query_code s))); apply chg_core_eq; reflexivity.
  - (* OCallSoonQuery *) cbn [fst snd]. apply fin_xo; auto; [|inert_tac].
    apply chg_call_soon. split; [exact Logic.I|intros; discriminate].
  - (* OCallSoonCancel *) cbn [fst snd]. apply fin_xo; auto; [|inert_tac].
    apply chg_call_soon. split; [exact Logic.I|intros; discriminate].
  - (* OCancelAw *)
    pose proof (benign_cancel_awaitable s f I) as B.
    destruct (cancel_awaitable s f) as [s' ok]. cbn [fst snd] in *. apply fin_xo; auto. inert_tac.
Qed.

(* ------------------------------------------------------------ frame_resume *)
Lemma holds_below_benign s s' t l : benign s s' -> t < length (tasks s) -> holds_below s t l -> holds_below s' t l.
Proof.
  intros B Ht H Hk l0 Hl0. rewrite (benign_kind s s' l B) in Hk.
  destruct (c_task B t Ht) as (E & _). rewrite E in Hl0. now apply H.
Qed.

Theorem frame_resume_xo t fr inp s :
  Inv s -> t < length (tasks s) -> frame_ok s fr -> frame_ord t fr inp s ->
  xo true t s (fst (frame_resume t fr inp s)) (snd (frame_resume t fr inp s)).
Proof.
  intros I Ht Hok Ho. destruct fr; cbn [frame_resume frame_ord] in *.
  - (* InSleep0 *) xo_refl_tac.
  - (* InFut *)
    destruct inp as [v|e]; [|xo_refl_tac].
    destruct (fdone s f); [|xo_refl_tac].
    pose proof (chg_fut_result (notlf s) s f) as B. destruct (fut_result s f) as [s' r]. cbn [fst snd] in *.
    apply fin_xo; auto. inert_tac.
  - (* InSleepTimer *) cbn [fst snd]. apply fin_xo; auto; [apply chg_cancel_handle|inert_tac].
  - (* InEventWait *) cbn [fst snd]. apply fin_xo; auto; [|inert_tac].
    apply chg_sete. intros g Hg. cbn in Hg. apply filter_In in Hg as [Hg _]. now left.
  - (* InAcquireP *) destruct Hok.
  - (* InAcquireA *)
    pose proof (benign_acquire_a_finish s l f inp I Hok) as B.
    destruct (acquire_a_finish s l f inp) as [s' r]. cbn [fst snd] in *. apply fin_xo; auto. inert_tac.
  - (* InCondWaitP *)
    set (s1 := match pq_remove HQ (cpq (getc s c)) (Z.of_nat f) with
               | Some (_, q') => setc s c (getc s c <| cpq := q' |>) | None => s end).
    assert (B1 : benign s s1).
    { unfold s1. destruct (pq_remove HQ (cpq (getc s c)) (Z.of_nat f)) as [[p q']|] eqn:Er; [|apply benign_refl].
      apply chg_setc.
      - intros g Hg. cbn in Hg. left. eapply pq_remove_in; eauto. apply (iB2 I).
      - intros g Hg. now left.
      - intros H. cbn. eapply pq_remove_perm; eauto. }
    assert (Ec : clock (getc s1 c) = clock (getc s c)).
    { unfold s1. destruct (pq_remove HQ (cpq (getc s c)) (Z.of_nat f)) as [[p q']|]; auto.
      rewrite getc_setc, Nat.eqb_refl. simpl. destruct (Nat.ltb c (length (conds s))); reflexivity. }
    pose proof (Inv_benign s s1 B1 I) as I1.
    assert (Ht1 : t < length (tasks s1)) by (pose proof (benign_tasks s s1 B1); lia).
    assert (Hb1 : holds_below s1 t (clock (getc s1 c))).
    { rewrite Ec. eapply holds_below_benign; eauto. }
    pose proof (reacq_after_xo s1 t c None (match inp with RVal _ => RVal 1 | RExc e => RExc e end) I1 Ht1 Hb1) as N.
    unfold reacq_after in N.
    destruct (reacquire s1 t c true None _) as [s2 r]. destruct r as [rep|y frs].
    + destruct (cond_p_after s2 c rep) as [s3 rep']. cbn [fst snd] in *.
      eapply xo_hr_l; [apply hr_benign; exact B1|exact N].
    + cbn [fst snd] in *. eapply xo_hr_l; [apply hr_benign; exact B1|exact N].
  - (* InReleasedP *)
    destruct inp as [v|e].
    + pose proof (benign_cond_p_after s c (match err with Some e => RExc e | None => body end) I) as B.
      destruct (cond_p_after s c _) as [s1 rep]. cbn [fst snd] in *. apply fin_xo; auto. inert_tac.
    + destruct (is_cancel e).
      * pose proof (reacq_after_xo s t c (Some e) body I Ht (Ho eq_refl)) as N. unfold reacq_after in N.
        destruct (reacquire s t c true (Some e) body) as [s2 r]. destruct r as [rep|y frs].
        -- destruct (cond_p_after s2 c rep) as [s3 rep']. cbn [fst snd] in *. exact N.
        -- cbn [fst snd] in *. exact N.
      * pose proof (benign_cond_p_after s c (RExc e) I) as B.
        destruct (cond_p_after s c (RExc e)) as [s1 rep]. cbn [fst snd] in *. apply fin_xo; auto. inert_tac.
  - (* InCondWaitI *)
    set (s1 := setc s c (getc s c <| cdq := filter (fun x => negb (Nat.eqb x f)) (cdq (getc s c)) |>)).
    assert (B1 : benign s s1).
    { apply chg_setc.
      - intros g Hg. now left.
      - intros g Hg. cbn in Hg. apply filter_In in Hg as [Hg _]. now left.
      - intros H. exact H. }
    assert (Ec : clock (getc s1 c) = clock (getc s c)).
    { unfold s1. rewrite getc_setc, Nat.eqb_refl. simpl. destruct (Nat.ltb c (length (conds s))); reflexivity. }
    pose proof (Inv_benign s s1 B1 I) as I1.
    assert (Hb1 : holds_below s1 t (clock (getc s1 c))).
    { rewrite Ec. eapply holds_below_benign; eauto. }
    eapply xo_hr_l; [apply hr_benign; exact B1|]. now apply reacquire_xo.
  - (* InReacquireI *)
    destruct inp as [v|e]; [xo_refl_tac|].
    destruct (is_cancel e); [apply reacquire_xo; auto|xo_refl_tac].
  - (* InIntr *)
    destruct inp as [v|e].
    + pose proof (benign_interruptor 4 s b (S i)) as B. pose proof (interruptor_inert 4 s b (S i)) as Hi.
      destruct (interruptor 4 s b (S i)) as [s1 r]. cbn [fst snd] in *.
      pose proof (interruptor_wrap_fst s1 r) as E. pose proof (interruptor_wrap_snd s1 r) as E2.
      destruct (interruptor_wrap s1 r) as [s2 r2]. cbn [fst snd] in *. subst s2.
      apply fin_xo; auto. intros y frs Hy. eapply Hi. eapply E2. exact Hy.
    + destruct (Nat.eqb phase 0 && is_runtime (RExc e) && negb (Nat.eqb i 2))%bool.
      * pose proof (interruptor_wrap_fst s (LSusp YNone [InSleep0; InIntr b i 1])) as E'.
        pose proof (interruptor_wrap_snd s (LSusp YNone [InSleep0; InIntr b i 1])) as E2'.
        destruct (interruptor_wrap s (LSusp YNone [InSleep0; InIntr b i 1])) as [s2 r2].
        cbn [fst snd] in *. subst s2.
        apply xo_refl. intros y frs Hy. apply E2' in Hy. inversion Hy; subst. repeat constructor.
      * pose proof (interruptor_wrap_fst s (LDone (RExc e))) as E'.
        pose proof (interruptor_wrap_snd s (LDone (RExc e))) as E2'.
        destruct (interruptor_wrap s (LDone (RExc e))) as [s2 r2].
        cbn [fst snd] in *. subst s2.
        apply xo_refl. intros y frs Hy. apply E2' in Hy. discriminate.
Qed.

(* ------------------------------------------------------------ resume_stack *)
Lemma resume_noacq_xo frs : forall t inp s,
  Inv s -> t < length (tasks s) -> no_acq frs ->
  (forall l0 f, In (InAcquireA l0 f) frs -> lkind_ (getl s l0) = LPlain) ->
  resume_ord t frs inp s ->
  xo true t s (fst (resume_stack t frs inp s)) (snd (resume_stack t frs inp s)).
Proof.
  induction frs as [|fr rest IH]; intros t inp s I Ht Hn Hk Ho; cbn [resume_stack resume_ord] in *.
  - cbn [fst snd]. apply xo_refl. intros; discriminate.
  - destruct Ho as [Ho1 Ho2].
    assert (Hok : frame_ok s fr).
    { pose proof (Hn fr (or_introl eq_refl)) as Ha. destruct fr; simpl in *; auto; try discriminate.
      apply (Hk l f). now left. }
    destruct (frame_resume_ext t fr inp s I Ht Hok) as [E _].
    pose proof (frame_resume_xo t fr inp s I Ht Hok Ho1) as N.
    destruct (frame_resume t fr inp s) as [s1 r]. cbn [fst snd] in *.
    destruct E as (I1 & Hlen & Hkind & _).
    assert (Hk1 : forall l0 f, In (InAcquireA l0 f) rest -> lkind_ (getl s1 l0) = LPlain).
    { intros l0 f Hin. rewrite Hkind. apply (Hk l0 f). now right. }
    destruct r as [rep|y frs1].
    + eapply xo_hr_l; [apply N|]. apply IH; auto; [lia|apply (no_acq_tail fr rest Hn)].
    + cbn [fst snd]. destruct N as [H F]. split; [exact H|].
      intros y0 frs0 Hy. inversion Hy; subst. apply ordp_app; [eapply F; eauto|].
      apply ordp_no_acq. apply (no_acq_tail fr rest Hn).
Qed.

Theorem resume_stack_xo frs t inp s :
  Inv s -> t < length (tasks s) -> pend s frs -> resume_ord t frs inp s ->
  xo true t s (fst (resume_stack t frs inp s)) (snd (resume_stack t frs inp s)).
Proof.
  intros I Ht (Hs & Ha & Hk) Ho. destruct Hs as [Hn|(l0 & f & had & rest & -> & Hn)].
  - now apply resume_noacq_xo.
  - cbn [resume_stack resume_ord] in *. destruct Ho as [_ Ho].
    destruct (infut_step t f inp s) as (rep & Er & B & Hw & Hfr).
    destruct (frame_resume t (InFut f) inp s) as [s1 r]. cbn [fst snd] in *. subst r.
    pose proof (Inv_benign s s1 B I) as I1.
    assert (Ht1 : t < length (tasks s1)) by (pose proof (benign_tasks s s1 B); lia).
    destruct (Ha l0 f had (or_intror (or_introl eq_refl))) as [Hf Hnf].
    assert (Hf1 : In f (objs s1 l0)) by (now rewrite (benign_objs s s1 l0 B)).
    assert (Hnf1 : no_frame s1 f) by (intros t0 l1 had0; rewrite Hfr; apply Hnf).
    cbn [frame_resume] in *. destruct Ho as [_ Ho].
    destruct (lstep_acquire_p_finish s1 t l0 f had rep I1 Ht1 Hf1 Hnf1 Hw) as (L & _ & _).
    destruct (acquire_p_finish_ot s1 t l0 f had rep) as [O2 _].
    destruct (acquire_p_finish s1 t l0 f had rep) as [s2 r2]. cbn [fst snd] in *.
    pose proof (ls_inv L) as I2.
    assert (Ht2 : t < length (tasks s2)) by (rewrite (ls_ntasks L); exact Ht1).
    assert (Hk2 : forall l1 f0, In (InAcquireA l1 f0) rest -> lkind_ (getl s2 l1) = LPlain).
    { intros l1 f0 Hin. rewrite (ls_kind L), (benign_kind s s1 l1 B). apply (Hk l1 f0). right. now right. }
    eapply xo_hr_l; [apply hr_benign; exact B|]. eapply xo_hr_l; [apply ot_hr; exact O2|].
    now apply resume_noacq_xo.
Qed.

(* ------------------------------------------------------------ user code *)
Definition xoo (t : nat) (s s' : st) (o : outcome) : Prop :=
  hr true t s s' /\ (forall y frs k, o = OYield y frs k -> ordp s' t frs).

Lemma xoo_hr_l t s1 s2 s3 o : hr true t s1 s2 -> xoo t s2 s3 o -> xoo t s1 s3 o.
Proof. intros A [B C]. split; auto. eapply hr_trans; eauto. Qed.

Theorem exec_xo c : forall t s,
  Inv s -> t < length (tasks s) -> exec_ok t c s -> exec_ne t c s -> exec_ord t c s ->
  xoo t s (fst (exec t c s)) (snd (exec t c s)).
Proof.
  induction c as [v|e|op k IHk|how child IHc k IHk]; intros t s I Ht Hok Hne Ho.
  - cbn. split; [apply hr_refl|intros; discriminate].
  - cbn. split; [apply hr_refl|intros; discriminate].
  - cbn [exec exec_ok exec_ne exec_ord] in *. destruct Hok as [Hs Hk]. destruct Ho as [Ho1 Ho2].
    destruct (lib_call_ext t op s I Hs (fun _ => Ht)) as [E _].
    pose proof (xo_true _ _ _ _ _ (lib_call_xo t op s I Hs (fun _ => Ht) Ho1)) as N.
    destruct (lib_call t op s) as [s1 r]. cbn [fst snd] in *. destruct r as [rep|y frs].
    + eapply xoo_hr_l; [apply N|].
      apply IHk; auto; [apply (ext_inv _ _ E)|pose proof (ext_tasks _ _ E); lia].
    + cbn [fst snd]. destruct N as [H F]. split; [exact H|].
      intros y0 frs0 k0 Hy. inversion Hy; subst. eapply F; eauto.
  - assert (Hsp : forall how', let s1 := fst (spawn_task s how' child) in
              Inv s1 /\ t < length (tasks s1) /\ hr true t s s1).
    { intros how'. cbv zeta. pose proof (benign_spawn_task s how' child I) as B.
      split; [eapply Inv_benign; eauto|]. split; [pose proof (benign_tasks _ _ B); lia|].
      now apply hr_benign. }
    destruct how.
    + cbn [exec exec_ok exec_ne exec_ord] in *. destruct (Hsp SPlain) as (I1 & Ht1 & P1).
      destruct (spawn_task s SPlain child) as [s1 t']. cbn [fst] in *.
      eapply xoo_hr_l; [exact P1|]. apply IHk; auto.
    + cbn [exec exec_ok exec_ne exec_ord] in *. destruct (Hsp SPy) as (I1 & Ht1 & P1).
      destruct (spawn_task s SPy child) as [s1 t']. cbn [fst] in *.
      eapply xoo_hr_l; [exact P1|]. apply IHk; auto.
    + cbn [exec exec_ok exec_ne exec_ord] in *. destruct (Hsp (SPrio p)) as (I1 & Ht1 & P1).
      destruct (spawn_task s (SPrio p) child) as [s1 t']. cbn [fst] in *.
      eapply xoo_hr_l; [exact P1|]. apply IHk; auto.
    + (* SDescend *)
      cbn [exec exec_ok exec_ne exec_ord] in *. destruct (Hsp SDescend) as (I1 & Ht1 & P1).
      destruct (spawn_task s SDescend child) as [s1 t']. cbn [fst] in *.
      destruct (lib_call_ext t (OTaskSwitch t' (Some 1)) s1 I1 Logic.I (fun _ => Ht1)) as [E2 _].
      pose proof (xo_true _ _ _ _ _ (lib_call_xo t (OTaskSwitch t' (Some 1)) s1 I1 Logic.I (fun _ => Ht1) Logic.I)) as N2.
      destruct (lib_call t (OTaskSwitch t' (Some 1)) s1) as [s2 r]. cbn [fst snd] in *.
      assert (Ht2 : t < length (tasks s2)) by (pose proof (ext_tasks _ _ E2); lia).
      eapply xoo_hr_l; [exact P1|].
      destruct r as [[v|e]|y frs].
      * eapply xoo_hr_l; [apply N2|]. apply IHk; auto. apply (ext_inv _ _ E2).
      * eapply xoo_hr_l; [apply N2|]. apply IHk; auto. apply (ext_inv _ _ E2).
      * cbn [fst snd]. destruct N2 as [H F]. split; [exact H|].
        intros y0 frs0 k0 Hy. inversion Hy; subst. eapply F; eauto.
    + (* SStart *)
      cbn [exec exec_ok exec_ne exec_ord] in *. destruct (Hsp SStart) as (I1 & Ht1 & P1).
      destruct (spawn_task s SStart child) as [s1 t']. cbn [fst snd] in *.
      split; [exact P1|]. intros y0 frs0 k0 Hy. inversion Hy; subst.
      apply ordp_inert. repeat constructor.
    + (* SEager *) cbn [exec_ne] in Hne. destruct Hne.
Qed.

(* ------------------------------------------------------------ finish_step *)
Theorem finish_step_ordf t s o :
  Inv s -> t < length (tasks s) -> (forall y frs k, o = OYield y frs k -> pend s frs) ->
  ordf s -> tframes s t = [] -> (forall y frs k, o = OYield y frs k -> ordp s t frs) ->
  ordf (finish_step t s o).
Proof.
  intros I Ht P O Hfr Hp. unfold finish_step.
  pose proof (taskfut_not_lockfut s t I Ht) as Hnl.
  destruct o as [[v|e]|y frs k].
  - set (s1 := sett s t (gett s t <| tcont_ := TFin |>)).
    assert (B1 : benign s s1) by (apply chg_sett; [reflexivity|reflexivity|reflexivity|right; reflexivity]).
    pose proof (Inv_benign _ _ B1 I) as I1.
    eapply ordf_chg; [|exact O]. eapply benign_trans; [exact B1|].
    destruct (tmustc (gett s t)).
    + eapply benign_trans; [|apply benign_fut_finish; [|now left]].
      * bsett.
      * eapply Inv_benign; [|exact I1]. bsett.
    + apply benign_fut_finish; [exact I1|right; exact Hnl].
  - set (s1 := sett s t (gett s t <| tcont_ := TFin |>)).
    assert (B1 : benign s s1) by (apply chg_sett; [reflexivity|reflexivity|reflexivity|right; reflexivity]).
    pose proof (Inv_benign _ _ B1 I) as I1.
    eapply ordf_chg; [|exact O]. eapply benign_trans; [exact B1|].
    destruct (is_cancel e).
    + eapply benign_trans; [|apply benign_fut_finish; [|now left]].
      * apply chg_setf_flag; reflexivity.
      * eapply Inv_benign; [|exact I1]. apply chg_setf_flag; reflexivity.
    + apply benign_fut_finish; [exact I1|right; exact Hnl].
  - specialize (P y frs k eq_refl). specialize (Hp y frs k eq_refl).
    set (s1 := sett s t (gett s t <| tcont_ := TSusp frs k |>)).
    assert (I1 : Inv s1) by (apply Inv_store_sett; auto).
    assert (Ht1 : t < length (tasks s1)) by (unfold s1; now rewrite sett_len).
    assert (O1 : ordf s1).
    { intros u l' f had l Hin Hl. destruct (Nat.eq_dec u t) as [->|Hne].
      - unfold tframes, s1 in Hin. rewrite gett_sett_same in Hin by exact Ht. cbn in Hin.
        unfold s1 in Hl. rewrite gett_sett_same in Hl by exact Ht. cbn in Hl. eapply Hp; eauto.
      - unfold tframes, s1 in Hin. rewrite gett_sett_other in Hin by congruence.
        unfold s1 in Hl. rewrite gett_sett_other in Hl by congruence. eapply O; eauto. }
    assert (Hsoon : forall e, ordf (call_soon_ s1 (HStep t e))).
    { intros e. eapply ordf_chg; [|exact O1]. apply (chg_call_soon (notlf s1)). now apply cb_ok_step. }
    destruct y as [|f]; [apply Hsoon|].
    destruct (fblock (getf s1 f)); [|apply Hsoon].
    destruct (Nat.eqb f (tfut (gett s t))); [apply Hsoon|].
    set (s2 := setf s1 f (getf s1 f <| fblock := false |>)).
    assert (B2 : benign s1 s2) by (apply chg_setf_flag; reflexivity).
    set (s3 := add_done_callback s2 f (CbWakeup t)).
    assert (B3 : benign s2 s3) by (apply chg_add_done_callback; exact Ht1).
    set (s4 := sett s3 t (gett s3 t <| twaiter := Some f |>)).
    assert (B4 : benign s3 s4) by bsett.
    pose proof (benign_trans _ _ _ B2 (benign_trans _ _ _ B3 B4)) as B14.
    assert (O4 : ordf s4) by (eapply ordf_chg; eauto).
    destruct (tmustc (gett s4 t)); [|exact O4].
    pose proof (Inv_benign _ _ B14 I1) as I4.
    pose proof (benign_cancel_awaitable s4 f I4) as B5.
    destruct (cancel_awaitable s4 f) as [s5 ok]. cbn [fst] in B5.
    assert (O5 : ordf s5) by (eapply ordf_chg; eauto).
    destruct ok; [|exact O5].
    eapply ordf_chg; [|exact O5]. apply (chg_sett (notlf s5)); [reflexivity|reflexivity|reflexivity|left; reflexivity].
Qed.

(* ------------------------------------------------------------ step_task *)
Lemma step_tail_ordf t s3 o :
  Inv s3 -> t < length (tasks s3) -> (forall y frs k, o = OYield y frs k -> pend s3 frs) ->
  ordf s3 -> tframes s3 t = [] -> (forall y frs k, o = OYield y frs k -> ordp s3 t frs) ->
  ordf ((finish_step t s3 o) <| current := None |>).
Proof.
  intros I3 Ht P O Hfr Hp. pose proof (finish_step_ordf t s3 o I3 Ht P O Hfr Hp) as O'.
  eapply ordf_chg; [|exact O']. apply (chg_core_eq (fun _ => False)); reflexivity.
Qed.

Lemma resume_then_exec_xo t frs inp s k :
  Inv s -> t < length (tasks s) -> pend s frs ->
  (let '(s1, r) := resume_stack t frs inp s in
   match r with LDone rep => exec_ok t (k rep) s1 | LSusp _ _ => True end) ->
  (let '(s1, r) := resume_stack t frs inp s in
   match r with LDone rep => exec_ne t (k rep) s1 | LSusp _ _ => True end) ->
  resume_ord t frs inp s ->
  (let '(s1, r) := resume_stack t frs inp s in
   match r with LDone rep => exec_ord t (k rep) s1 | LSusp _ _ => True end) ->
  let '(s3, o) := (let '(s1, r) := resume_stack t frs inp s in
                   match r with
                   | LDone rep => exec t (k rep) s1
                   | LSusp y frs' => (s1, OYield y frs' k) end) in
  xoo t s s3 o.
Proof.
  intros I Ht P Hok Hne Hor Ho.
  destruct (resume_stack_ext frs t inp s I Ht P) as [E1 _].
  pose proof (resume_stack_xo frs t inp s I Ht P Hor) as N1.
  destruct (resume_stack t frs inp s) as [s1 r]. cbn [fst snd] in *.
  assert (Ht1 : t < length (tasks s1)) by (pose proof (ext_tasks _ _ E1); lia).
  destruct r as [rep|y frs1].
  - pose proof (exec_xo (k rep) t s1 (ext_inv _ _ E1) Ht1 Hok Hne Ho) as N2.
    destruct (exec t (k rep) s1) as [s3 o]. cbn [fst snd] in *.
    eapply xoo_hr_l; [apply N1|exact N2].
  - destruct N1 as [H F]. split; [exact H|]. intros y0 frs0 k0 Hy. inversion Hy; subst. eapply F; eauto.
Qed.

Theorem step_task_ordf t exc s :
  Inv s -> t < length (tasks s) -> step_ok t exc s -> step_ne t exc s -> step_ord t exc s ->
  ordf s -> ordf (step_task t exc s).
Proof.
  intros I Ht Hok Hne Ho O.
  unfold step_task, step_ok, step_ne, step_ord in *.
  destruct (tdone s t); [eapply ordf_chg; [apply (chg_core_eq (fun _ => False)); reflexivity|exact O]|].
  set (exc' := if tmustc (gett s t)
               then match exc with
                    | Some e => if is_cancel e then Some e else Some ECancelled
                    | None => Some ECancelled end
               else exc) in *.
  set (s1 := sett s t (gett s t <| tmustc := false |> <| twaiter := None |> <| tcont_ := TRun |>)) in *.
  set (s2 := s1 <| current := Some t |>) in *.
  assert (B2 : benign s s2).
  { apply benign_trans with (s2 := s1); [|apply chg_core_eq; reflexivity].
    apply chg_sett; [reflexivity|reflexivity|reflexivity|right; reflexivity]. }
  pose proof (ext_benign _ _ I B2) as E2. pose proof (ext_inv _ _ E2) as I2.
  assert (O2 : ordf s2) by (eapply ordf_chg; eauto).
  assert (Ht2 : t < length (tasks s2)) by (pose proof (ext_tasks _ _ E2); lia).
  assert (Hfr2 : forall t0, tframes s2 t0 = if Nat.eqb t t0 then [] else tframes s t0).
  { intros t0. unfold tframes. change (gett s2 t0) with (gett s1 t0). unfold s1. rewrite gett_sett.
    apply Nat.ltb_lt in Ht. rewrite Ht, andb_true_r. destruct (Nat.eqb t t0); reflexivity. }
  assert (Hfr2t : tframes s2 t = []) by (rewrite Hfr2, Nat.eqb_refl; reflexivity).
  assert (Hh2 : tholding (gett s2 t) = tholding (gett s t)) by (apply (c_task B2 t Ht)).
  assert (P2 : pend s2 (tframes s t)).
  { split; [apply (iF1 I)|]. split.
    - intros l0 f had Hin. split; [apply (iF2 I _ _ _ _ Hin)|].
      intros t0 l1 had0 H0. rewrite Hfr2 in H0. destruct (Nat.eqb t t0) eqn:E; [destruct H0|].
      apply Nat.eqb_neq in E. apply E. eapply (iF3 I); eauto.
    - intros l0 f Hin. apply (iF4 I _ _ _ Hin). }
  assert (Op2 : ordp s2 t (tframes s t)).
  { intros l' f had l Hin Hl. rewrite Hh2 in Hl. eapply O; eauto. }
  unfold tframes in P2, Op2.
  destruct (tcont_ (gett s t)) as [c|frs k|y frs k| |]; cbn [frames_of] in P2, Op2.
  - (* TNew *)
    destruct exc' as [e|].
    + apply step_tail_ordf; auto; intros; discriminate.
    + destruct (exec_ext c t s2 I2 Ht2 Hok) as [E3 P3].
      pose proof (exec_xo c t s2 I2 Ht2 Hok Hne Ho) as N3.
      destruct (exec t c s2) as [s3 o]. cbn [fst snd] in *. destruct N3 as [H3 F3].
      destruct (ordf_hr true t s2 s3 H3 Hfr2t O2) as [O3 Hfr3].
      apply step_tail_ordf; auto; [apply (ext_inv _ _ E3)|pose proof (ext_tasks _ _ E3); lia].
  - (* TSusp *)
    destruct Ho as [Hor Ho].
    pose proof (resume_then_exec t frs (match exc' with None => RVal 0 | Some e => RExc e end) s s2 k E2 Ht2 P2 Hok) as H.
    pose proof (resume_then_exec_xo t frs (match exc' with None => RVal 0 | Some e => RExc e end) s2 k
                  I2 Ht2 P2 Hok Hne Hor Ho) as HW.
    destruct (let '(s1, r) := resume_stack t frs _ s2 in _) as [s3 o].
    destruct H as (E3 & Ht3 & P3). destruct HW as [H3 F3].
    destruct (ordf_hr true t s2 s3 H3 Hfr2t O2) as [O3 Hfr3].
    apply step_tail_ordf; auto. apply (ext_inv _ _ E3).
  - (* TEager *)
    destruct exc' as [e|].
    + destruct Ho as [Hor Ho].
      pose proof (resume_then_exec t frs (RExc e) s s2 k E2 Ht2 P2 Hok) as H.
      pose proof (resume_then_exec_xo t frs (RExc e) s2 k I2 Ht2 P2 Hok Hne Hor Ho) as HW.
      destruct (let '(s1, r) := resume_stack t frs _ s2 in _) as [s3 o].
      destruct H as (E3 & Ht3 & P3). destruct HW as [H3 F3].
      destruct (ordf_hr true t s2 s3 H3 Hfr2t O2) as [O3 Hfr3].
      apply step_tail_ordf; auto. apply (ext_inv _ _ E3).
    + set (s3 := match y with YFut f => setf s2 f (getf s2 f <| fblock := true |>) | YNone => s2 end).
      assert (B3 : benign s2 s3).
      { unfold s3. destruct y; [apply benign_refl|apply chg_setf_flag; reflexivity]. }
      destruct (ordf_hr true t s2 s3 (hr_benign true t _ _ B3) Hfr2t O2) as [O3 Hfr3].
      apply step_tail_ordf; auto.
      * eapply Inv_benign; eauto.
      * pose proof (benign_tasks _ _ B3). lia.
      * intros y0 frs0 k0 H. inversion H; subst. eapply pend_benign; eauto.
      * intros y0 frs0 k0 H. inversion H; subst. eapply ordp_chg; eauto.
  - (* TRun *) apply step_tail_ordf; auto; intros; discriminate.
  - (* TFin *) apply step_tail_ordf; auto; intros; discriminate.
Qed.

(* ------------------------------------------------------------ the loop *)
Theorem wakeup_ordf t f s :
  Inv s -> t < length (tasks s) -> wakeup_ok t f s -> wakeup_ne t f s -> wakeup_ord t f s ->
  ordf s -> ordf (wakeup t f s).
Proof.
  intros I Ht Hok Hne Ho O. unfold wakeup, wakeup_ok, wakeup_ne, wakeup_ord in *. destruct (fstate_ (getf s f)).
  - now apply step_task_ordf.
  - now apply step_task_ordf.
  - now apply step_task_ordf.
  - pose proof (chg_fut_result (notlf s) s f) as B. destruct (fut_result s f) as [s' r]. cbn [fst] in B.
    assert (Ht' : t < length (tasks s')) by (pose proof (benign_tasks _ _ B); lia).
    apply step_task_ordf; auto; [eapply Inv_benign; eauto|eapply ordf_chg; eauto].
Qed.

Theorem run_callback_ordf c s :
  Inv s -> In c (hcbs s) -> run_callback_ok c s -> run_callback_ne c s -> run_callback_ord c s ->
  ordf s -> ordf (run_callback c s).
Proof.
  intros I Hin Hok Hne Ho O. pose proof (iE1 I _ Hin) as Hc.
  destruct c; cbn [run_callback run_callback_ok run_callback_ne run_callback_ord cb_task_ok] in *.
  - now apply step_task_ordf.
  - now apply wakeup_ordf.
  - pose proof (benign_task_reinsert s t p) as B. destruct (task_reinsert s t p) as [s' r]. cbn [fst] in B.
    assert (O' : ordf s') by (eapply ordf_chg; eauto).
    destruct r; [exact O'|].
    eapply ordf_chg; [apply (chg_core_eq (fun _ => False)); reflexivity|exact O'].
  - eapply ordf_chg; [apply (chg_core_eq (fun _ => False)); reflexivity|exact O].
  - eapply ordf_chg; [|exact O]. apply benign_fut_finish; auto. right.
    intros Hl. apply (iD2 I _ Hl). eapply foreign_timer; eauto.
  - eapply ordf_chg; [|exact O]. now apply benign_new_task.
  - eapply ordf_chg; [|exact O]. unfold queue_iterated.
    destruct (ready (addlog s (query_code s))); apply (chg_core_eq (fun _ => False)); reflexivity.
  - eapply ordf_chg; [|exact O]. now apply benign_cancel_task.
Qed.

Theorem run_one_ordf s :
  Inv s -> run_one_ok s -> run_one_ne s -> run_one_ord s -> ordf s -> ordf (run_one s).
Proof.
  intros I Hok Hne Ho O. unfold run_one, run_one_ok, run_one_ne, run_one_ord in *.
  destruct (rq_popleft (ready s)) as [[h r]|]; [|exact O].
  set (s1 := s <| ready := r |>) in *.
  assert (B1 : benign s s1) by (apply chg_core_eq; reflexivity).
  assert (O1 : ordf s1) by (eapply ordf_chg; eauto).
  destruct (hcancelled (geth s1 h)) eqn:Ec; [exact O1|].
  apply run_callback_ordf; auto.
  - eapply Inv_benign; eauto.
  - change (hcbs s1) with (hcbs s). change (geth s1 h) with (geth s h) in *.
    destruct (Nat.lt_ge_cases h (length (handles s))) as [Hh|Hh].
    + unfold hcbs, geth. apply in_map. now apply nth_In.
    + unfold geth in Ec. rewrite nth_overflow in Ec by auto. discriminate.
Qed.

Theorem do_action_ordf s a :
  Inv s -> action_ok s a -> action_ne s a -> action_ord s a -> ordf s -> ordf (do_action s a).
Proof.
  intros I Hok Hne Ho O. destruct a; cbn [do_action action_ok action_ne action_ord] in *.
  - now apply run_one_ordf.
  - eapply ordf_chg; [apply benign_begin_iteration|exact O].
  - eapply ordf_chg; [apply (chg_core_eq (fun _ => False)); reflexivity|exact O].
  - eapply ordf_chg; [now apply benign_spawn_task|exact O].
  - destruct Hok as [Hs Hn].
    (* a library call from outside the loop: never acquire(); task 0 may release *)
    assert (Hn' : needs_task op = true -> 0 < length (tasks s)) by (intros H; congruence).
    assert (Ho' : op_ord 0 op s) by (destruct op; try exact Logic.I; discriminate).
    pose proof (lib_call_xo 0 op s I Hs Hn' Ho') as N. rewrite Hn in N.
    destruct N as [H _]. eapply ordf_hr_false; eauto.
Qed.
