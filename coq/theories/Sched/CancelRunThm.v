(* C03, whole runs: the two start modes establish the tracking invariant (as in EagerRunThm.v -
   it does not depend on _must_cancel, so the caller of eager() may cancel the awaitable in the
   very activation that created it); then Sched/CancelRun.v carries it through a run with one
   delivered cancellation, and the end gives trace and outcome of [ref_run_c]. *)
From Coq Require Import QArith Sorting.Permutation.
From RecordUpdate Require Import RecordUpdate.
From Asynkit Require Import Base.Prelude Queue.ListFacts Queue.PQ Queue.PosPQ Queue.Exec
     Sched.Model Sched.Corr Sched.PartTables Sched.PartitionProofs Sched.PartitionSteps Sched.PartitionRun
     Sched.PartitionFinal Sched.FrameFacts Sched.TaskFrame Sched.ThrowProofs Sched.EagerProofs Sched.FutMono
     Sched.EagerRunOth Sched.EagerRun Sched.EagerRunThm Sched.CancelRun.
Import RecordSetNotations.
Open Scope nat_scope.

Section Thm.
Variable qok : rq -> Prop.
Hypothesis QS : QSpec qok.
Variable P : nat -> Prop.

(* the invariant after create_task(c) *)
Lemma plain_start_B s how c val :
  Inv09 qok s -> how <> SPy -> AD P c -> (forall f, P f -> f < length (futs s)) ->
  B qok P val c (length (tasks s)) (length (log s)) [] (do_action s (ASpawn how c)).
Proof.
  intros I Hh Hc Rng. set (tn := length (tasks s)). set (s1 := do_action s (ASpawn how c)).
  assert (Ex : exists p, s1 = fst (new_task s KC p c)).
  { unfold s1. cbn [do_action]. unfold spawn_task. destruct how; try congruence; eexists; reflexivity. }
  destruct Ex as [p E1].
  assert (Hcur : current s <> Some (length (tasks s))) by (rewrite (proj2 I); discriminate).
  destruct (start_plain qok QS P val None s p c (proj1 I) Hcur Hc Rng) as (X1 & T1 & R1 & _).
  cbv zeta in X1, T1, R1. rewrite <- E1 in X1, T1, R1. fold tn in X1, T1, R1.
  constructor; auto. apply (Inv09_action qok QS s (ASpawn how c) I). cbn. apply (AD_coro_ok P c Hc).
Qed.

(* the invariant after the step of the caller of eager(c), when the body suspended *)
Lemma eager_start_B s t c k val s1 y frs kc s' o :
  InvC qok (Some t) s -> current s = Some t ->
  AD P c -> coro_ok (length (blocks s)) (Spawn SEager c k) ->
  (forall f, P f -> f < length (futs s)) -> agree P s val ->
  exec t c s = (s1, OYield y frs kc) ->
  exec t (Spawn SEager c k) s = (s', o) ->
  B qok P val c (length (tasks s1)) (length (log s1)) (map snd (skipn (length (log s)) (log s1)))
    (finish_step t s' o <| current := None |>).
Proof.
  intros I Hcur Hc Hok Rng As E1 E.
  set (sb := finish_step t s' o <| current := None |>). set (tn := length (tasks s1)).
  set (pre := map snd (skipn (length (log s)) (log s1))).
  pose proof (i_cur I t eq_refl) as Lt.
  destruct (exec_AD P val t c Hc s s1 _ Rng As E1) as (l & S1 & L1 & O1).
  assert (Tg : tagof s = S t) by (unfold tagof; rewrite Hcur; reflexivity).
  assert (Epre : pre = l).
  { unfold pre. rewrite L1, skipn_len_app, map_snd_pair. reflexivity. }
  rewrite eager_exec_eq, E1 in E.
  destruct O1 as (Fy & Ak & Yo & Rr). destruct S1 as [S1 S2 S3 S4 S5 S6].
  destruct (exec_K qok QS (Some t) t c s s1 _ E1 (AD_coro_ok P c Hc _) I) as [[I1 _] _].
  set (sa := set_flag false s1 y).
  assert (Ia : InvC qok (Some t) sa).
  { unfold sa, set_flag. destruct y as [|f]; [exact I1|].
    apply (K_setf qok (Some t) s1 s1); try reflexivity. apply K_refl. exact I1. }
  assert (Ta : tasks sa = tasks s1) by apply tasks_set_flag.
  assert (Fa : length (futs sa) = length (futs s1)) by apply length_futs_set_flag.
  assert (Etn : length (tasks sa) = tn) by (rewrite Ta; reflexivity).
  set (x := eager_task (length (futs sa)) y frs kc).
  set (fx := mkFut FPending [] false (Some (length (tasks sa))) None).
  set (u := sa <| futs := futs sa ++ [fx] |> <| tasks := tasks sa ++ [x] |>).
  set (s2 := eager_cont_state s1 y frs kc) in *.
  assert (E2 : s2 = call_soon_ u (HStep (length (tasks sa)) None)) by reflexivity.
  pose proof (fresh_quiet qok P val (Some t) sa x fx Ia eq_refl eq_refl) as Q. fold u in Q. rewrite Etn in Q.
  assert (G2 : gett s2 tn = x).
  { rewrite E2. unfold gett. cbn. rewrite app_nth2 by lia. rewrite <- Etn, Nat.sub_diag. reflexivity. }
  assert (L2 : log s2 = log s1) by (rewrite E2; unfold u, sa, set_flag; destruct y; reflexivity).
  set (n0 := length (log s1)).
  assert (Ev : evlog tn n0 s2 = []) by (unfold evlog, n0; rewrite L2, skipn_all; reflexivity).
  assert (C2 : current s2 <> Some tn).
  { assert (Ec : current s2 = Some t).
    { rewrite E2. unfold u, sa, set_flag. destruct y; cbn; rewrite S4; exact Hcur. }
    rewrite Ec. intros Eq. inversion Eq. unfold tn in *. rewrite S3 in *. lia. }
  assert (X2 : X qok tn (twaiter (gett s2 tn)) n0 (evlog tn n0 s2) true s2).
  { assert (X0 : X qok tn None n0 [] false s2).
    { rewrite E2, Etn. apply X_call_soon; [exact QS|cbn; intros _; reflexivity|apply X_quiet; exact Q]. }
    rewrite G2, Ev. destruct X0 as [A1 A2 A3 A4 A5 A6 A7 A8]. constructor; auto;
      intros _; first [rewrite G2; reflexivity|exact C2|exact Ev]. }
  assert (T2 : Tracks P val c tn n0 pre s2).
  { unfold Tracks. rewrite G2. cbn [tcont_ twaiter x eager_task]. split; [unfold n0; rewrite L2; lia|].
    split; [exact Fy|]. split; [exact Ak|]. split; [destruct y; cbn in *; tauto|]. split; [|reflexivity].
    unfold Rem, evs_of. rewrite Ev, Epre. cbn [map]. rewrite app_nil_r. exact Rr. }
  assert (N2 : length (futs s2) = S (length (futs s1))).
  { rewrite E2. cbn. rewrite app_length, Fa. cbn. lia. }
  assert (R2 : forall f, P f -> f < length (futs s2) /\ f <> tfut (gett s2 tn)).
  { intros f Pf. pose proof (Rng f Pf). rewrite G2, N2. cbn [tfut x eager_task]. rewrite Fa, S5. lia. }
  assert (Ltn2 : tn < length (tasks s2)).
  { rewrite E2. cbn. rewrite app_length, Ta. cbn. unfold tn. lia. }
  assert (Lf2 : tfut (gett s2 tn) < length (futs s2)).
  { rewrite G2, N2. cbn [tfut x eager_task]. rewrite Fa. lia. }
  assert (Ntn : t <> tn) by (unfold tn; rewrite S3; lia).
  (* the rest of the caller's activation (which may cancel the awaitable) *)
  destruct (keep qok P val c tn n0 pre s2 s') as (X3 & T3 & R3); auto.
  { eapply X_exec; [exact QS|exact E|exact X2]. }
  { eapply Tf_exec; [exact E|apply Tf_refl]. }
  { eapply FM_exec; [exact E|apply FM_refl]. }
  { destruct (G_exec s2 t _ s2 s' o E (G_refl s2)) as [[_ Gl _] _]. exact Gl. }
  assert (Ltn3 : tn < length (tasks s')).
  { destruct (G_exec s2 t _ s2 s' o E (G_refl s2)) as [[Gt _ _] _]. lia. }
  assert (Hs'o : K qok (Some t) s s' /\ outcome_ok s' o).
  { apply (exec_K qok QS (Some t) t (Spawn SEager c k) s s' o); [|exact Hok|exact I].
    rewrite eager_exec_eq, E1. exact E. }
  destruct Hs'o as [[I3 _] Oo].
  assert (Lf3 : tfut (gett s' tn) < length (futs s')) by (apply (i_tfut (i_wf I3) tn Ltn3)).
  set (s4 := finish_step t s' o).
  destruct (keep qok P val c tn n0 pre s' s4) as (X4 & T4 & R4); auto.
  { apply X_finish_step; [exact QS|exact Ntn|exact X3]. }
  { apply Tf_finish_step; [exact Ntn|apply Tf_refl]. }
  { apply FM_finish_step, FM_refl. }
  { destruct (G_finish_step s' t s' o (G_refl s')) as [[_ Gl _] _]. exact Gl. }
  constructor.
  - split; [|reflexivity]. eapply InvC_same; [..|apply (finish_step_inv qok QS t s' o I3 Oo)]; reflexivity.
  - apply (X_current qok tn _ n0 _ true s4 None); [discriminate|exact X4].
  - exact T4.
  - exact R4.
Qed.

(* from the invariant through a run with one delivered cancellation to the result *)
Lemma cancel_run_final val c tn n0 pre n m acts s :
  AD P c -> post_ok P val c n m -> val_nc val ->
  B qok P val c tn n0 pre s -> actions_ok s acts -> cancel_run val c tn n m s acts ->
  let sf := fold_left do_action acts s in
  agree (P2 P m) sf val -> tcont_ (gett sf tn) = TFin ->
  pre ++ map snd (evlog tn n0 sf) = fst (ref_run_c c val n) /\
  fstate_ (getf sf (tfut (gett sf tn))) = task_outcome (snd (ref_run_c c val n)).
Proof.
  intros Hc Hpo Hnc Bs Ha Hr sf A Fin.
  assert (Hf : forall f, m = Some f -> fstate_ (getf sf f) = FCancelled).
  { intros f Em. apply (cancel_run_fut P val c tn n m f Em acts s); [|exact Hr].
    destruct (cancel_run_susp val c tn n m acts s Hr) as (l & y & k & Hs & Hy).
    destruct (susp_at_AD P val c Hc n l y k Hs) as [_ Py]. rewrite (Hy f Em) in Py.
    apply (b_rng _ _ _ _ _ _ _ _ Bs f Py). }
  pose proof (cancel_run_B qok QS P val c tn n0 pre n m Hc Hpo Hnc acts s Bs Ha Hr A Hf) as Bf.
  fold sf in Bf. rewrite <- (ref_run_cstar val c n).
  exact (B_final qok (P2 P m) val (cstar val c n) tn n0 pre sf Bf Fin).
Qed.

(* ---------------------------------------------------------------- plain task, cancelled *)
Theorem plain_cancel_run s how c acts val n m :
  Inv09 qok s -> how <> SPy -> AD P c -> (forall f, P f -> f < length (futs s)) ->
  let tn := length (tasks s) in
  let s1 := do_action s (ASpawn how c) in
  let sf := fold_left do_action acts s1 in
  post_ok P val c n m -> val_nc val ->
  actions_ok s1 acts -> cancel_run val c tn n m s1 acts -> agree (P2 P m) sf val ->
  tcont_ (gett sf tn) = TFin ->
  map snd (evlog tn (length (log s)) sf) = fst (ref_run_c c val n) /\
  fstate_ (getf sf (tfut (gett sf tn))) = task_outcome (snd (ref_run_c c val n)).
Proof.
  intros I Hh Hc Rng tn s1 sf Hpo Hnc Ha Hr A Fin.
  pose proof (plain_start_B s how c val I Hh Hc Rng) as B1.
  destruct (cancel_run_final val c tn (length (log s)) [] n m acts s1 Hc Hpo Hnc B1 Ha Hr A Fin) as [F1 F2].
  cbn [app] in F1. auto.
Qed.

(* ---------------------------------------------------------------- eager start, cancelled *)
Theorem eager_cancel_run s t c k acts val n m :
  InvC qok (Some t) s -> current s = Some t ->
  AD P c -> coro_ok (length (blocks s)) (Spawn SEager c k) ->
  (forall f, P f -> f < length (futs s)) ->
  (forall f, m = Some f -> fcancelled s f = false) ->
  forall s1 y frs kc s' o,
  exec t c s = (s1, OYield y frs kc) ->          (* the synchronous prefix: the body suspended *)
  exec t (Spawn SEager c k) s = (s', o) ->       (* ... and the rest of the caller's activation *)
  let sb := finish_step t s' o <| current := None |> in
  let sf := fold_left do_action acts sb in
  let tn := length (tasks s1) in
  let pre := map snd (skipn (length (log s)) (log s1)) in
  post_ok P val c n m -> val_nc val ->
  actions_ok sb acts -> cancel_run val c tn n m sb acts -> agree (P2 P m) sf val ->
  tcont_ (gett sf tn) = TFin ->
  pre ++ map snd (evlog tn (length (log s1)) sf) = fst (ref_run_c c val n) /\
  fstate_ (getf sf (tfut (gett sf tn))) = task_outcome (snd (ref_run_c c val n)).
Proof.
  intros I Hcur Hc Hok Rng Hnp s1 y frs kc s' o E1 E sb sf tn pre Hpo Hnc Ha Hr A Fin.
  assert (Msb : FM s sb).
  { apply (FM_same s (finish_step t s' o)); [reflexivity|]. apply FM_finish_step.
    eapply FM_exec; [exact E|apply FM_refl]. }
  assert (Msf : FM s sf) by (eapply FM_trans; [exact Msb|apply FM_actions]).
  (* the future the body will be blocked on ends cancelled; it is not cancelled yet *)
  assert (Hf : forall f, m = Some f -> fstate_ (getf sf f) = FCancelled).
  { intros f Em. destruct (cancel_run_susp val c tn n m acts sb Hr) as (l & y0 & k0 & Hs & Hy).
    destruct (susp_at_AD P val c Hc n l y0 k0 Hs) as [_ Py]. rewrite (Hy f Em) in Py.
    apply (cancel_run_fut P val c tn n m f Em acts sb); [|exact Hr].
    destruct Msb as (L & _). pose proof (Rng f Py). lia. }
  assert (As : agree P s val) by (apply (agree_pre P val m s sf Msf Rng A Hf Hnp)).
  pose proof (eager_start_B s t c k val s1 y frs kc s' o I Hcur Hc Hok Rng As E1 E) as Bb.
  exact (cancel_run_final val c tn (length (log s1)) pre n m acts sb Hc Hpo Hnc Bb Ha Hr A Fin).
Qed.

(* ---------------------------------------------------------------- drained runs: never left suspended *)
(* [own_done sf tn]: the task's future is completed only by the task's own step (the model lets
   a program set a task's own future id from outside - Python raises there; EagerRun.calm
   checks the same at every earlier boundary) *)
Definition own_done (sf : st) (tn : nat) : Prop := tdone sf tn = true -> tcont_ (gett sf tn) = TFin.

Lemma drained_calm val c tn n0 pre acts s :
  B qok P val c tn n0 pre s -> actions_ok s acts -> calm_run tn s acts ->
  let sf := fold_left do_action acts s in
  agree P sf val -> rq_items (ready sf) = [] -> (forall f, P f -> fdone sf f = true) ->
  own_done sf tn -> tcont_ (gett sf tn) = TFin.
Proof.
  intros Bs Ha Hq sf A Hr Hall Hod. apply Hod.
  apply (B_drained qok val tn n0 pre P c sf); auto. apply B_run; auto.
Qed.

Lemma drained_cancel val c tn n0 pre n m acts s :
  AD P c -> post_ok P val c n m -> val_nc val ->
  B qok P val c tn n0 pre s -> actions_ok s acts -> cancel_run_opt val c tn n m s acts ->
  let sf := fold_left do_action acts s in
  agree (P2 P m) sf val -> (forall f, m = Some f -> fstate_ (getf sf f) = FCancelled) ->
  rq_items (ready sf) = [] -> (forall f, P f -> fdone sf f = true) ->
  own_done sf tn -> tcont_ (gett sf tn) = TFin.
Proof.
  intros Hc Hpo Hnc Bs Ha Hq sf A Hf Hr Hall Hod. apply Hod.
  destruct (cancel_run_B_gen qok QS P val c tn n0 pre n m True Hc Hpo Hnc acts s Bs Ha Hq A Hf) as [Bf|[_ Bf]].
  - apply (B_drained qok val tn n0 pre (P2 P m) (cstar val c n) sf); auto. intros f [Pf _]. auto.
  - apply (B_drained qok val tn n0 pre P c sf); auto.
Qed.

Theorem eager_always_run s t c k acts val :
  InvC qok (Some t) s -> current s = Some t ->
  AD P c -> coro_ok (length (blocks s)) (Spawn SEager c k) ->
  (forall f, P f -> f < length (futs s)) ->
  forall s1 y frs kc s' o,
  exec t c s = (s1, OYield y frs kc) ->
  exec t (Spawn SEager c k) s = (s', o) ->
  let sb := finish_step t s' o <| current := None |> in
  let sf := fold_left do_action acts sb in
  let tn := length (tasks s1) in
  actions_ok sb acts ->
  rq_items (ready sf) = [] -> (forall f, P f -> fdone sf f = true) -> own_done sf tn ->
  (* never cancelled *)
  (calm_run tn sb acts -> agree P sf val -> tcont_ (gett sf tn) = TFin) /\
  (* cancelled (delivery not assumed) *)
  (forall n m, post_ok P val c n m -> val_nc val ->
     (forall f, m = Some f -> fcancelled s f = false /\ fstate_ (getf sf f) = FCancelled) ->
     cancel_run_opt val c tn n m sb acts -> agree (P2 P m) sf val -> tcont_ (gett sf tn) = TFin).
Proof.
  intros I Hcur Hc Hok Rng s1 y frs kc s' o E1 E sb sf tn Ha Hr Hall Hod.
  assert (Msb : FM s sb).
  { apply (FM_same s (finish_step t s' o)); [reflexivity|]. apply FM_finish_step.
    eapply FM_exec; [exact E|apply FM_refl]. }
  assert (Msf : FM s sf) by (eapply FM_trans; [exact Msb|apply FM_actions]).
  split.
  - intros Hq A.
    assert (As : agree P s val) by (apply (agree_mono P s sf val Msf Rng A)).
    pose proof (eager_start_B s t c k val s1 y frs kc s' o I Hcur Hc Hok Rng As E1 E) as Bb.
    apply (drained_calm val c tn _ _ acts sb Bb Ha Hq A Hr Hall Hod).
  - intros n m Hpo Hnc Hm Hq A.
    assert (As : agree P s val).
    { apply (agree_pre P val m s sf Msf Rng A); intros f Em; apply (Hm f Em). }
    pose proof (eager_start_B s t c k val s1 y frs kc s' o I Hcur Hc Hok Rng As E1 E) as Bb.
    apply (drained_cancel val c tn _ _ n m acts sb Hc Hpo Hnc Bb Ha Hq A); auto.
    intros f Em; apply (Hm f Em).
Qed.

End Thm.
