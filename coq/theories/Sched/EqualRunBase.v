(* C10, last sentence, as a WHOLE-RUN statement: with all priorities equal the priority
   loop schedules exactly like the list loop.  This file: the simulation relation and its
   preservation by every primitive of the scheduler model below lib_call.

   A state of the priority loop related to the list-loop state [s] is [wr s rp]: the same
   state with the ready queue replaced by a PosPriorityQueue [rp] (any boost factor, any
   draws) such that [Rel s rp]:  RisoB 0 rp (ready s)  (rp's run order is the list, every
   regular entry has priority == 0, queue invariant)  and every PriorityTask has priority
   == 0.  Every function f of the model satisfies
        f (wr s rp) = (wr (fst (f s)) rp', snd (f s))   with  Rel (fst (f s)) rp'. *)
From Coq Require Import QArith Lqa.
From RecordUpdate Require Import RecordUpdate.
From Asynkit Require Import Base.Prelude Queue.PQ Queue.PosPQ Queue.Exec Sched.Model
     Sched.PartTables Sched.PartitionProofs Sched.PrioLoopProofs Sched.PrioBoostFifo.
Import RecordSetNotations.
Open Scope nat_scope.

Definition wr (s : st) (r : rq) : st := s <| ready := r |>.

Definition Rel (s : st) (rp : rq) : Prop := RisoB 0 rp (ready s) /\ all_prio0 s.

Definition SimS (g : st -> st) : Prop :=
  forall s rp, Rel s rp -> exists rp', g (wr s rp) = wr (g s) rp' /\ Rel (g s) rp'.
Definition SimP {X} (g : st -> st * X) : Prop :=
  forall s rp, Rel s rp ->
    exists rp', g (wr s rp) = (wr (fst (g s)) rp', snd (g s)) /\ Rel (fst (g s)) rp'.

(* ------------------------------------------------------------ reading through wr *)
Lemma wr_ready s r : ready (wr s r) = r. Proof. reflexivity. Qed.
Lemma wr_handles s r : handles (wr s r) = handles s. Proof. reflexivity. Qed.
Lemma wr_futs s r : futs (wr s r) = futs s. Proof. reflexivity. Qed.
Lemma wr_tasks s r : tasks (wr s r) = tasks s. Proof. reflexivity. Qed.
Lemma wr_locks s r : locks (wr s r) = locks s. Proof. reflexivity. Qed.
Lemma wr_conds s r : conds (wr s r) = conds s. Proof. reflexivity. Qed.
Lemma wr_events s r : events (wr s r) = events s. Proof. reflexivity. Qed.
Lemma wr_blocks s r : blocks (wr s r) = blocks s. Proof. reflexivity. Qed.
Lemma wr_timers s r : timers (wr s r) = timers s. Proof. reflexivity. Qed.
Lemma wr_now s r : now (wr s r) = now s. Proof. reflexivity. Qed.
Lemma wr_current s r : current (wr s r) = current s. Proof. reflexivity. Qed.
Lemma wr_log s r : log (wr s r) = log s. Proof. reflexivity. Qed.
Lemma wr_errors s r : errors (wr s r) = errors s. Proof. reflexivity. Qed.

Lemma wr_getf s r : getf (wr s r) = getf s. Proof. reflexivity. Qed.
Lemma wr_gett s r : gett (wr s r) = gett s. Proof. reflexivity. Qed.
Lemma wr_getl s r : getl (wr s r) = getl s. Proof. reflexivity. Qed.
Lemma wr_getc s r : getc (wr s r) = getc s. Proof. reflexivity. Qed.
Lemma wr_gete s r : gete (wr s r) = gete s. Proof. reflexivity. Qed.
Lemma wr_getb s r : getb (wr s r) = getb s. Proof. reflexivity. Qed.
Lemma wr_geth s r : geth (wr s r) = geth s. Proof. reflexivity. Qed.
Lemma wr_fdone s r : fdone (wr s r) = fdone s. Proof. reflexivity. Qed.
Lemma wr_fcancelled s r : fcancelled (wr s r) = fcancelled s. Proof. reflexivity. Qed.
Lemma wr_tdone s r : tdone (wr s r) = tdone s. Proof. reflexivity. Qed.
Lemma wr_is_prio_task s r : is_prio_task (wr s r) = is_prio_task s. Proof. reflexivity. Qed.
Lemma wr_task_is_blocked s r : task_is_blocked (wr s r) = task_is_blocked s. Proof. reflexivity. Qed.
Lemma wr_task_is_runnable s r : task_is_runnable (wr s r) = task_is_runnable s. Proof. reflexivity. Qed.
Lemma wr_task_of_handle s r : task_of_handle (wr s r) = task_of_handle s. Proof. reflexivity. Qed.
Lemma wr_task_key s r : task_key (wr s r) = task_key s. Proof. reflexivity. Qed.
Lemma wr_cond_locked s r : cond_locked (wr s r) = cond_locked s. Proof. reflexivity. Qed.
Lemma wr_efuel s r : efuel (wr s r) = efuel s. Proof. reflexivity. Qed.
Lemma wr_effective_priority s r t : effective_priority (wr s r) t = effective_priority s t.
Proof. apply effective_priority_frame; reflexivity. Qed.
Lemma wr_handle_priority s r c : handle_priority (wr s r) c = handle_priority s c.
Proof. apply handle_priority_frame; reflexivity. Qed.

(* ------------------------------------------------------------ writing through wr *)
Lemma wr_setf s r f x : setf (wr s r) f x = wr (setf s f x) r. Proof. reflexivity. Qed.
Lemma wr_sett s r f x : sett (wr s r) f x = wr (sett s f x) r. Proof. reflexivity. Qed.
Lemma wr_setl s r f x : setl (wr s r) f x = wr (setl s f x) r. Proof. reflexivity. Qed.
Lemma wr_setc s r f x : setc (wr s r) f x = wr (setc s f x) r. Proof. reflexivity. Qed.
Lemma wr_sete s r f x : sete (wr s r) f x = wr (sete s f x) r. Proof. reflexivity. Qed.
Lemma wr_setb s r f x : setb (wr s r) f x = wr (setb s f x) r. Proof. reflexivity. Qed.
Lemma wr_addlog s r n : addlog (wr s r) n = wr (addlog s n) r. Proof. reflexivity. Qed.
Lemma wr_adderr s r n : adderr (wr s r) n = wr (adderr s n) r. Proof. reflexivity. Qed.
Lemma wr_cancel_handle s r h : cancel_handle (wr s r) h = wr (cancel_handle s h) r.
Proof. reflexivity. Qed.
Lemma wr_set_handles s r X : (wr s r) <| handles := X |> = wr (s <| handles := X |>) r.
Proof. reflexivity. Qed.
Lemma wr_set_futs s r X : (wr s r) <| futs := X |> = wr (s <| futs := X |>) r.
Proof. reflexivity. Qed.
Lemma wr_set_tasks s r X : (wr s r) <| tasks := X |> = wr (s <| tasks := X |>) r.
Proof. reflexivity. Qed.
Lemma wr_set_blocks s r X : (wr s r) <| blocks := X |> = wr (s <| blocks := X |>) r.
Proof. reflexivity. Qed.
Lemma wr_set_timers s r X : (wr s r) <| timers := X |> = wr (s <| timers := X |>) r.
Proof. reflexivity. Qed.
Lemma wr_set_now s r X : (wr s r) <| now := X |> = wr (s <| now := X |>) r.
Proof. reflexivity. Qed.
Lemma wr_set_current s r X : (wr s r) <| current := X |> = wr (s <| current := X |>) r.
Proof. reflexivity. Qed.
Lemma wr_set_ready s r r' : (wr s r) <| ready := r' |> = wr s r'.
Proof. reflexivity. Qed.

#[export] Hint Rewrite wr_ready wr_handles wr_futs wr_tasks wr_locks wr_conds wr_events wr_blocks
  wr_timers wr_now wr_current wr_log wr_errors
  wr_getf wr_gett wr_getl wr_getc wr_gete wr_getb wr_geth wr_fdone wr_fcancelled wr_tdone
  wr_is_prio_task wr_task_is_blocked wr_task_is_runnable wr_task_of_handle wr_task_key
  wr_cond_locked wr_efuel wr_effective_priority wr_handle_priority
  wr_setf wr_sett wr_setl wr_setc wr_sete wr_setb wr_addlog wr_adderr wr_cancel_handle
  wr_set_handles wr_set_futs wr_set_tasks wr_set_blocks wr_set_timers wr_set_now wr_set_current
  : wrdb.

(* ------------------------------------------------------------ Rel under oblivious updates *)
Lemma Rel_eq s s' rp : ready s' = ready s -> tasks s' = tasks s -> Rel s rp -> Rel s' rp.
Proof.
  intros Hr Ht [A B]. split; [rewrite Hr; exact A|].
  intros t. unfold gett. rewrite Ht. apply B.
Qed.
Lemma Rel_setf s rp f x : Rel s rp -> Rel (setf s f x) rp. Proof. apply Rel_eq; reflexivity. Qed.
Lemma Rel_setl s rp f x : Rel s rp -> Rel (setl s f x) rp. Proof. apply Rel_eq; reflexivity. Qed.
Lemma Rel_setc s rp f x : Rel s rp -> Rel (setc s f x) rp. Proof. apply Rel_eq; reflexivity. Qed.
Lemma Rel_sete s rp f x : Rel s rp -> Rel (sete s f x) rp. Proof. apply Rel_eq; reflexivity. Qed.
Lemma Rel_setb s rp f x : Rel s rp -> Rel (setb s f x) rp. Proof. apply Rel_eq; reflexivity. Qed.
Lemma Rel_addlog s rp n : Rel s rp -> Rel (addlog s n) rp. Proof. apply Rel_eq; reflexivity. Qed.
Lemma Rel_adderr s rp n : Rel s rp -> Rel (adderr s n) rp. Proof. apply Rel_eq; reflexivity. Qed.
Lemma Rel_cancel_handle s rp h : Rel s rp -> Rel (cancel_handle s h) rp.
Proof. apply Rel_eq; reflexivity. Qed.
Lemma Rel_set_handles s rp X : Rel s rp -> Rel (s <| handles := X |>) rp.
Proof. apply Rel_eq; reflexivity. Qed.
Lemma Rel_set_futs s rp X : Rel s rp -> Rel (s <| futs := X |>) rp.
Proof. apply Rel_eq; reflexivity. Qed.
Lemma Rel_set_blocks s rp X : Rel s rp -> Rel (s <| blocks := X |>) rp.
Proof. apply Rel_eq; reflexivity. Qed.
Lemma Rel_set_timers s rp X : Rel s rp -> Rel (s <| timers := X |>) rp.
Proof. apply Rel_eq; reflexivity. Qed.
Lemma Rel_set_now s rp X : Rel s rp -> Rel (s <| now := X |>) rp.
Proof. apply Rel_eq; reflexivity. Qed.
Lemma Rel_set_current s rp X : Rel s rp -> Rel (s <| current := X |>) rp.
Proof. apply Rel_eq; reflexivity. Qed.

Lemma Rel_sett s rp t x : tprio x = tprio (gett s t) -> Rel s rp -> Rel (sett s t x) rp.
Proof.
  intros Hx [A B]. split; [exact A|]. intros t'. rewrite gett_sett.
  destruct (Nat.eqb t' t && Nat.ltb t (length (tasks s))); [rewrite Hx|]; apply B.
Qed.
Lemma Rel_sett_prio s rp t x : okopt (tprio x) -> Rel s rp -> Rel (sett s t x) rp.
Proof.
  intros Hx [A B]. split; [exact A|]. intros t'. rewrite gett_sett.
  destruct (Nat.eqb t' t && Nat.ltb t (length (tasks s))); [exact Hx|apply B].
Qed.
Lemma Rel_tasks_app s rp x : okopt (tprio x) -> Rel s rp -> Rel (s <| tasks := tasks s ++ [x] |>) rp.
Proof.
  intros Hx [A B]. split; [exact A|]. intros t. unfold gett. cbn [tasks set].
  change (tasks (s <| tasks := tasks s ++ [x] |>)) with (tasks s ++ [x]).
  destruct (Nat.lt_ge_cases t (length (tasks s))) as [Hl|Hl].
  - rewrite app_nth1 by exact Hl. apply B.
  - rewrite app_nth2 by exact Hl. destruct (t - length (tasks s)) as [|[|n]]; simpl; auto.
Qed.

Lemma Rel_ready s rp r' rp' : Rel s rp -> RisoB 0 rp' r' -> Rel (s <| ready := r' |>) rp'.
Proof. intros [A B] A'. split; [exact A'|exact B]. Qed.

Ltac rel :=
  repeat first
    [ eassumption
    | match goal with
      | F : RisoB 0 ?rp1 ?rl1 |- Rel (_ <| ready := ?rl1 |>) ?rp1 => eapply Rel_ready; [|exact F]
      end
    | apply Rel_setf | apply Rel_setl | apply Rel_setc | apply Rel_sete | apply Rel_setb
    | apply Rel_addlog | apply Rel_adderr | apply Rel_cancel_handle
    | apply Rel_set_handles | apply Rel_set_futs | apply Rel_set_blocks | apply Rel_set_timers
    | apply Rel_set_now | apply Rel_set_current
    | apply Rel_sett; [reflexivity|] ].

Lemma Rel_items s rp : Rel s rp -> rq_items rp = rq_items (ready s).
Proof.
  intros [A _]. rewrite <- (rq_items_zero rp). unfold RisoB in A.
  destruct (zero_rq rp) as [l0|p]; destruct (ready s) as [l|p0]; try destruct A.
  destruct H0. assumption.
Qed.

Lemma sim_query_code s rp : Rel s rp -> query_code (wr s rp) = query_code s.
Proof.
  intros R. assert (Ei : ready_items (wr s rp) = ready_items s) by exact (Rel_items s rp R).
  unfold query_code, blocked_tasks, runnable_tasks. rewrite Ei. reflexivity.
Qed.

(* ------------------------------------------------------------ the engine *)
Ltac squery :=
  match goal with
  | R : Rel ?S ?rp |- context [query_code (wr ?S ?rp)] => rewrite (sim_query_code S rp R)
  end.
Ltac snorm1 :=
  repeat (progress (unfold await_fut, new_future, call_at, take_lock, fut_result;
                    autorewrite with wrdb; cbv beta iota zeta; cbn [fst snd]; repeat squery)).

(* name an intermediate list-side state (keeps terms small) *)
Ltac sabs :=
  match goal with
  | |- context [wr ?S ?rp] =>
      tryif is_var S then fail else
      (let R0 := fresh "R" in let s1 := fresh "s" in
       assert (R0 : Rel S rp) by rel; set (s1 := S) in *; clearbody s1)
  end.
Ltac snorm := snorm1; repeat (sabs; snorm1).

(* use a lemma  T : Rel S rp -> exists rp', g (wr S rp) = ... /\ Rel ... *)
Ltac sapply T :=
  let R0 := fresh "R0" in let H := fresh "H" in
  let rp1 := fresh "rp" in let E1 := fresh "E" in let R1 := fresh "R" in
  match type of T with
  | Rel ?S ?rp -> _ => assert (R0 : Rel S rp) by rel; pose proof (T R0) as H; clear R0
  end;
  cbv beta in H; destruct H as (rp1 & E1 & R1); rewrite E1; clear E1;
  lazymatch type of R1 with
  | Rel (fst ?p) _ =>
      let a := fresh "s" in let b := fresh "r" in destruct p as [a b] eqn:?; cbn [fst snd] in *
  | _ => idtac
  end.

Ltac sfind := fail.

Ltac sfin := eexists; split; [reflexivity | rel].

(* a ready-queue replacement on both sides, driven by a RisoB hypothesis *)
Ltac sready :=
  match goal with
  | F : RisoB 0 ?rp1 ?rl1 |- context [(wr ?S ?rp) <| ready := ?rp1 |>] =>
      change ((wr S rp) <| ready := rp1 |>) with (wr (S <| ready := rl1 |>) rp1)
  end.

Ltac has_match x :=
  lazymatch x with
  | context [match _ with _ => _ end] => idtac
  | context [if _ then _ else _] => idtac
  end.
Ltac destr x :=
  lazymatch type of x with
  | prod _ _ => let a := fresh "s" in let b := fresh "r" in destruct x as [a b] eqn:?
  | _ => destruct x eqn:?
  end.
(* destruct an innermost scrutinee of E *)
Ltac case_inner E :=
  first
  [ match type of E with
    | context [match ?x with _ => _ end] => tryif has_match x then fail else destr x
    | context [if ?x then _ else _] => tryif has_match x then fail else destr x
    end
  | match type of E with
    | context [match ?x with _ => _ end] => destr x
    | context [if ?x then _ else _] => destr x
    end ].

(* E : body s = (s', x)  (or  s' = body s);  goal: exists rp', body (wr s rp) = ... *)
Ltac sprep E :=
  cbv beta iota zeta in E; unfold await_fut, new_future, call_at, take_lock, fut_result in E;
  cbv beta iota zeta in E; cbn [fst snd] in E.
Ltac sloopx E tac :=
  snorm; repeat (first [sfind | sready | tac]; snorm);
  repeat (case_inner E; cbn [fst snd] in *; snorm; repeat (first [sfind | sready | tac]; snorm)).
Ltac sgoPx E tac :=
  sprep E; sloopx E tac; first [injection E as <- <- | rewrite E in *; cbn [fst snd] in *]; sfin.
Ltac sgoSx E tac := sprep E; sloopx E tac; subst; sfin.
Ltac sgoP E := sgoPx E fail.
Ltac sgoS E := sgoSx E fail.

Lemma SimP_intro {X} (g : st -> st * X) :
  (forall s rp s' x, g s = (s', x) -> Rel s rp ->
     exists rp', g (wr s rp) = (wr s' rp', x) /\ Rel s' rp') -> SimP g.
Proof.
  intros H s rp R. destruct (g s) as [s' x] eqn:E. cbn [fst snd]. eapply H; eauto.
Qed.

(* ------------------------------------------------------------ call_soon, call_pos *)
Lemma call_soon_eq' s c : call_soon s c = (call_soon_ s c, length (handles s)).
Proof. reflexivity. Qed.

Lemma sim_call_soon_ c : SimS (fun s => call_soon_ s c).
Proof.
  intros s rp R. unfold call_soon_, call_soon. cbn [fst].
  snorm1.
  set (s1 := s <| handles := handles s ++ [mkH c false] |>).
  assert (R1 : Rel s1 rp) by (subst s1; rel).
  change (ready s1) with (ready s).
  assert (Epr : handle_priority s1 c == 0) by (apply equal_prio_keys; apply R1).
  destruct R as [A B].
  pose proof (isoB_append 0 rp (ready s) (length (handles s)) (handle_priority s1 c) A Epr) as A'.
  exists (rq_append rp (length (handles s)) (handle_priority s1 c)). split.
  - reflexivity.
  - split; [exact A'|]. exact (proj2 R1).
Qed.

Lemma sim_call_soon c : SimP (fun s => call_soon s c).
Proof.
  intros s rp R. rewrite !call_soon_eq'. cbn [fst snd]. snorm1.
  destruct (sim_call_soon_ c s rp R) as (rp1 & E1 & R1). cbv beta in E1. rewrite E1. sfin.
Qed.

(* queued ids are allocated handles *)
Definition rwf (s : st) : Prop := forall h, In h (rq_items (ready s)) -> h < length (handles s).

Lemma cnt_fresh (l : list nat) n : (forall h, In h l -> h < n) -> cnt (Nat.eqb n) l = 0.
Proof.
  intros H. apply cnt_zero. intros x Hx. specialize (H x Hx).
  destruct (Nat.eqb_spec n x); auto; lia.
Qed.

Lemma sim_call_pos p c s rp : Rel s rp -> rwf s ->
  exists rp', call_pos (wr s rp) p c = wr (call_pos s p c) rp' /\ Rel (call_pos s p c) rp'.
Proof.
  intros R W. unfold call_pos. rewrite !call_soon_eq'.
  destruct (sim_call_soon_ c s rp R) as (rp1 & E1 & R1). cbv beta in E1. rewrite E1. snorm1.
  assert (Hc : cnt (Nat.eqb (length (handles s))) (rq_items (ready (call_soon_ s c))) <= 1).
  { destruct R as [A _]. unfold RisoB in A. destruct (zero_rq rp) as [l0|p0]; [destruct A|].
    unfold call_soon_, call_soon. cbn [fst]. simpl ready.
    unfold rwf in W. destruct (ready s) as [l|q] eqn:Er; [|destruct A].
    cbn [rq_append rq_items] in *. rewrite cnt_app, (cnt_fresh l _ W). rewrite cnt_cons, cnt_nil.
    destruct (Nat.eqb _ _); lia. }
  pose proof (isoB_remove 0 rp1 (ready (call_soon_ s c)) (length (handles s)) (proj1 R1) Hc) as Hi.
  destruct (rq_remove rp1 (length (handles s))) as [rp2|];
    destruct (rq_remove (ready (call_soon_ s c)) (length (handles s))) as [rl2|]; try contradiction.
  - snorm1. exists (rq_insert_pos rp2 p (length (handles s))). split; [reflexivity|].
    eapply Rel_ready; [exact R1|]. apply isoB_insert_pos; auto.
  - sfin.
Qed.

(* ------------------------------------------------------------ futures *)
Lemma sim_fold_soon (mk : cb -> callback) cbs :
  SimS (fun s => fold_left (fun s c => call_soon_ s (mk c)) cbs s).
Proof.
  induction cbs as [|c cbs IH]; intros s rp R; simpl.
  - sfin.
  - destruct (sim_call_soon_ (mk c) s rp R) as (rp1 & E1 & R1). cbv beta in E1. rewrite E1.
    exact (IH _ _ R1).
Qed.

Lemma sim_schedule_callbacks f : SimS (fun s => schedule_callbacks s f).
Proof.
  intros s rp R. unfold schedule_callbacks. snorm1.
  refine (sim_fold_soon (cb_callback f) _ _ _ _). rel.
Qed.

Ltac sfind ::=
  match goal with
  | |- context [call_soon_ (wr ?S ?rp) ?c] => sapply (sim_call_soon_ c S rp)
  | |- context [call_soon (wr ?S ?rp) ?c] => sapply (sim_call_soon c S rp)
  | |- context [schedule_callbacks (wr ?S ?rp) ?f] => sapply (sim_schedule_callbacks f S rp)
  end.

Lemma sim_fut_finish f x : SimP (fun s => fut_finish s f x).
Proof.
  apply SimP_intro. intros s rp s' ok E R. unfold fut_finish in *. sgoP E.
Qed.

Lemma sim_add_done_callback f c : SimS (fun s => add_done_callback s f c).
Proof.
  intros s rp R. remember (add_done_callback s f c) as s' eqn:E. unfold add_done_callback in *.
  sgoS E.
Qed.

Lemma sim_remove_done_callback f c : SimS (fun s => remove_done_callback s f c).
Proof. intros s rp R. unfold remove_done_callback. snorm1. sfin. Qed.

Ltac sfind ::=
  match goal with
  | |- context [call_soon_ (wr ?S ?rp) ?c] => sapply (sim_call_soon_ c S rp)
  | |- context [call_soon (wr ?S ?rp) ?c] => sapply (sim_call_soon c S rp)
  | |- context [schedule_callbacks (wr ?S ?rp) ?f] => sapply (sim_schedule_callbacks f S rp)
  | |- context [fut_finish (wr ?S ?rp) ?f ?x] => sapply (sim_fut_finish f x S rp)
  | |- context [add_done_callback (wr ?S ?rp) ?f ?c] => sapply (sim_add_done_callback f c S rp)
  | |- context [remove_done_callback (wr ?S ?rp) ?f ?c] => sapply (sim_remove_done_callback f c S rp)
  end.

(* ------------------------------------------------------------ cancellation *)
Lemma sim_task_cancel fuel : forall t, SimP (fun s => task_cancel fuel s t).
Proof.
  induction fuel as [|fuel IH]; intros t; apply SimP_intro; intros s rp s' ok E R;
    cbn [task_cancel] in *.
  - sgoP E.
  - sgoPx E ltac:(idtac; match goal with
                  | |- context [task_cancel fuel (wr ?S ?rp0) ?t0] => sapply (IH t0 S rp0)
                  end).
Qed.

Lemma sim_cancel_task t : SimP (fun s => cancel_task s t).
Proof.
  intros s rp R. unfold cancel_task. snorm1. apply (sim_task_cancel (length (tasks s)) t s rp R).
Qed.

Ltac sfind ::=
  match goal with
  | |- context [call_soon_ (wr ?S ?rp) ?c] => sapply (sim_call_soon_ c S rp)
  | |- context [call_soon (wr ?S ?rp) ?c] => sapply (sim_call_soon c S rp)
  | |- context [schedule_callbacks (wr ?S ?rp) ?f] => sapply (sim_schedule_callbacks f S rp)
  | |- context [fut_finish (wr ?S ?rp) ?f ?x] => sapply (sim_fut_finish f x S rp)
  | |- context [add_done_callback (wr ?S ?rp) ?f ?c] => sapply (sim_add_done_callback f c S rp)
  | |- context [remove_done_callback (wr ?S ?rp) ?f ?c] => sapply (sim_remove_done_callback f c S rp)
  | |- context [cancel_task (wr ?S ?rp) ?t] => sapply (sim_cancel_task t S rp)
  end.

Lemma sim_cancel_awaitable f : SimP (fun s => cancel_awaitable s f).
Proof. apply SimP_intro. intros s rp s' ok E R. unfold cancel_awaitable in *. sgoP E. Qed.

(* ------------------------------------------------------------ priority propagation: no-ops *)
Lemma sim_task_reschedule t : SimS (fun s => task_reschedule s t).
Proof.
  intros s rp R. unfold task_reschedule. snorm1.
  destruct (isoB_reschedule 0 rp (ready s) (task_key s t) (effective_priority s t) (proj1 R))
    as [E1 E2]; [apply equal_prio_keys; apply R|].
  rewrite E1, E2. rewrite rq_set_ready_id. exists rp. split; [reflexivity|exact R].
Qed.

Ltac sfind ::=
  match goal with
  | |- context [call_soon_ (wr ?S ?rp) ?c] => sapply (sim_call_soon_ c S rp)
  | |- context [call_soon (wr ?S ?rp) ?c] => sapply (sim_call_soon c S rp)
  | |- context [schedule_callbacks (wr ?S ?rp) ?f] => sapply (sim_schedule_callbacks f S rp)
  | |- context [fut_finish (wr ?S ?rp) ?f ?x] => sapply (sim_fut_finish f x S rp)
  | |- context [add_done_callback (wr ?S ?rp) ?f ?c] => sapply (sim_add_done_callback f c S rp)
  | |- context [remove_done_callback (wr ?S ?rp) ?f ?c] => sapply (sim_remove_done_callback f c S rp)
  | |- context [cancel_task (wr ?S ?rp) ?t] => sapply (sim_cancel_task t S rp)
  | |- context [cancel_awaitable (wr ?S ?rp) ?t] => sapply (sim_cancel_awaitable t S rp)
  | |- context [task_reschedule (wr ?S ?rp) ?t] => sapply (sim_task_reschedule t S rp)
  end.

(* the lock half of propagate_task (everything after the reschedule of a runnable task) *)
Definition prop_rest (fuel : nat) (s : st) (t : nat) : st :=
  match twaiting (gett s t), fuel with
  | Some l, S fuel =>
      let lk := getl s l in
      let s := match lowner lk with
               | Some o => propagate_task fuel s o
               | None => s end in
      let p := effective_priority s t in
      let lk := getl s l in
      match find (fun pr => Nat.eqb (snd pr) t) (lwt lk) with
      | Some (f, _) =>
          match pq_reschedule HQ (lpq lk) (fun o => Nat.eqb (Z.to_nat o) f) p with
          | Some (_, q') => setl s l (lk <| lpq := q' |>)
          | None => s
          end
      | None => s
      end
  | _, _ => s
  end.
Lemma propagate_task_unf fuel s t :
  propagate_task fuel s t =
  if negb (is_prio_task s t) then s
  else prop_rest fuel (if task_is_runnable s t then task_reschedule s t else s) t.
Proof. destruct fuel; reflexivity. Qed.

Lemma sim_prop_rest fuel :
  (forall fuel', fuel = S fuel' -> forall t, SimS (fun s => propagate_task fuel' s t)) ->
  forall t, SimS (fun s => prop_rest fuel s t).
Proof.
  intros IH t s rp R; remember (prop_rest _ s t) as s' eqn:E; unfold prop_rest in *.
  destruct fuel as [|fuel]; [sgoS E|]. specialize (IH fuel eq_refl).
  sprep E. snorm1.
  destruct (twaiting (gett s t)) as [l|]; [|subst; sfin].
  assert (H1 : exists rp1,
    match lowner (getl s l) with Some o => propagate_task fuel (wr s rp) o | None => wr s rp end
    = wr (match lowner (getl s l) with Some o => propagate_task fuel s o | None => s end) rp1
    /\ Rel (match lowner (getl s l) with Some o => propagate_task fuel s o | None => s end) rp1).
  { destruct (lowner (getl s l)) as [o|]; [exact (IH o s rp R)|]. exists rp; auto. }
  destruct H1 as (rp1 & E1 & R1). rewrite E1.
  set (s1 := match lowner (getl s l) with Some o => propagate_task fuel s o | None => s end) in *.
  clearbody s1. sgoS E.
Qed.

Lemma sim_propagate_task fuel : forall t, SimS (fun s => propagate_task fuel s t).
Proof.
  induction fuel as [|fuel IH]; intros t s rp R; rewrite !propagate_task_unf.
  - snorm1. destruct (negb (is_prio_task s t)); [sfin|].
    assert (H0 : exists rp0,
      (if task_is_runnable s t then task_reschedule (wr s rp) t else wr s rp)
      = wr (if task_is_runnable s t then task_reschedule s t else s) rp0
      /\ Rel (if task_is_runnable s t then task_reschedule s t else s) rp0).
    { destruct (task_is_runnable s t); [exact (sim_task_reschedule t s rp R)|exists rp; auto]. }
    destruct H0 as (rp0 & E0 & R0). rewrite E0.
    apply (sim_prop_rest 0); [|exact R0]. intros fuel' Hf. discriminate Hf.
  - snorm1. destruct (negb (is_prio_task s t)); [sfin|].
    assert (H0 : exists rp0,
      (if task_is_runnable s t then task_reschedule (wr s rp) t else wr s rp)
      = wr (if task_is_runnable s t then task_reschedule s t else s) rp0
      /\ Rel (if task_is_runnable s t then task_reschedule s t else s) rp0).
    { destruct (task_is_runnable s t); [exact (sim_task_reschedule t s rp R)|exists rp; auto]. }
    destruct H0 as (rp0 & E0 & R0). rewrite E0.
    apply (sim_prop_rest (S fuel)); [|exact R0]. intros fuel' Hf. injection Hf as <-. exact IH.
Qed.

Lemma sim_propagate_priority t : SimS (fun s => propagate_priority s t).
Proof. intros s rp R. unfold propagate_priority. snorm1. apply (sim_propagate_task _ t s rp R). Qed.

(* ------------------------------------------------------------ locks *)
Ltac sfind0 :=
  match goal with
  | |- context [call_soon_ (wr ?S ?rp) ?c] => sapply (sim_call_soon_ c S rp)
  | |- context [call_soon (wr ?S ?rp) ?c] => sapply (sim_call_soon c S rp)
  | |- context [schedule_callbacks (wr ?S ?rp) ?f] => sapply (sim_schedule_callbacks f S rp)
  | |- context [fut_finish (wr ?S ?rp) ?f ?x] => sapply (sim_fut_finish f x S rp)
  | |- context [add_done_callback (wr ?S ?rp) ?f ?c] => sapply (sim_add_done_callback f c S rp)
  | |- context [remove_done_callback (wr ?S ?rp) ?f ?c] => sapply (sim_remove_done_callback f c S rp)
  | |- context [cancel_task (wr ?S ?rp) ?t] => sapply (sim_cancel_task t S rp)
  | |- context [cancel_awaitable (wr ?S ?rp) ?t] => sapply (sim_cancel_awaitable t S rp)
  | |- context [task_reschedule (wr ?S ?rp) ?t] => sapply (sim_task_reschedule t S rp)
  | |- context [propagate_priority (wr ?S ?rp) ?t] => sapply (sim_propagate_priority t S rp)
  end.
Ltac sfind ::= sfind0.

Lemma sim_wake_up_first_p l : SimS (fun s => wake_up_first_p s l).
Proof. intros s rp R. remember (wake_up_first_p s l) as s' eqn:E. unfold wake_up_first_p in *. sgoS E. Qed.
Lemma sim_wake_up_first_a l : SimS (fun s => wake_up_first_a s l).
Proof. intros s rp R. remember (wake_up_first_a s l) as s' eqn:E. unfold wake_up_first_a in *. sgoS E. Qed.

Ltac sfind1 :=
  first [ sfind0
        | match goal with
          | |- context [wake_up_first_p (wr ?S ?rp) ?l] => sapply (sim_wake_up_first_p l S rp)
          | |- context [wake_up_first_a (wr ?S ?rp) ?l] => sapply (sim_wake_up_first_a l S rp)
          end ].
Ltac sfind ::= sfind1.

Lemma sim_acquire_p_start t l : SimP (fun s => acquire_p_start s t l).
Proof. apply SimP_intro. intros s rp s' x E R. unfold acquire_p_start in *. sgoP E. Qed.
Lemma sim_acquire_p_finish t l f had inp : SimP (fun s => acquire_p_finish s t l f had inp).
Proof. apply SimP_intro. intros s rp s' x E R. unfold acquire_p_finish in *. sgoP E. Qed.
Lemma sim_release_p t l : SimP (fun s => release_p s t l).
Proof. apply SimP_intro. intros s rp s' x E R. unfold release_p in *. sgoP E. Qed.
Lemma sim_acquire_a_start l : SimP (fun s => acquire_a_start s l).
Proof. apply SimP_intro. intros s rp s' x E R. unfold acquire_a_start in *. sgoP E. Qed.
Lemma sim_acquire_a_finish l f inp : SimP (fun s => acquire_a_finish s l f inp).
Proof. apply SimP_intro. intros s rp s' x E R. unfold acquire_a_finish in *. sgoP E. Qed.
Lemma sim_release_a l : SimP (fun s => release_a s l).
Proof. apply SimP_intro. intros s rp s' x E R. unfold release_a in *. sgoP E. Qed.

Ltac sfind2 :=
  first [ sfind1
        | match goal with
          | |- context [acquire_p_start (wr ?S ?rp) ?t ?l] => sapply (sim_acquire_p_start t l S rp)
          | |- context [acquire_p_finish (wr ?S ?rp) ?t ?l ?f ?h ?i] =>
              sapply (sim_acquire_p_finish t l f h i S rp)
          | |- context [release_p (wr ?S ?rp) ?t ?l] => sapply (sim_release_p t l S rp)
          | |- context [acquire_a_start (wr ?S ?rp) ?l] => sapply (sim_acquire_a_start l S rp)
          | |- context [acquire_a_finish (wr ?S ?rp) ?l ?f ?i] => sapply (sim_acquire_a_finish l f i S rp)
          | |- context [release_a (wr ?S ?rp) ?l] => sapply (sim_release_a l S rp)
          end ].
Ltac sfind ::= sfind2.

Lemma sim_acquire_start t l : SimP (fun s => acquire_start s t l).
Proof. apply SimP_intro. intros s rp s' x E R. unfold acquire_start in *. sgoP E. Qed.
Lemma sim_release t l : SimP (fun s => release s t l).
Proof. apply SimP_intro. intros s rp s' x E R. unfold release in *. sgoP E. Qed.

Ltac sfind3 :=
  first [ sfind2
        | match goal with
          | |- context [acquire_start (wr ?S ?rp) ?t ?l] => sapply (sim_acquire_start t l S rp)
          | |- context [release (wr ?S ?rp) ?t ?l] => sapply (sim_release t l S rp)
          end ].
Ltac sfind ::= sfind3.

(* ------------------------------------------------------------ conditions *)
Lemma sim_notify_p_fold n order : forall s rp a b, Rel s rp ->
  let F := (fun '(s, taken, cnt) f =>
              if Nat.leb n cnt then (s, taken, cnt)
              else if fdone s f then (s, S taken, cnt)
              else (fst (fut_finish s f (FResult 1)), S taken, S cnt)) in
  exists rp', fold_left F order (wr s rp, a, b) =
              (wr (fst (fst (fold_left F order (s, a, b)))) rp',
               snd (fst (fold_left F order (s, a, b))), snd (fold_left F order (s, a, b))) /\
              Rel (fst (fst (fold_left F order (s, a, b)))) rp'.
Proof.
  induction order as [|f order IH]; intros s rp a b R F; subst F; cbn [fold_left].
  - cbn [fst snd]. sfin.
  - cbv beta iota. snorm1.
    destruct (Nat.leb n b); [apply IH; auto|].
    destruct (fdone s f); [apply IH; auto|].
    destruct (sim_fut_finish f (FResult 1) s rp R) as (rp1 & E1 & R1). cbv beta in E1.
    rewrite E1. cbn [fst]. apply IH; auto.
Qed.

Lemma sim_notify_p c n : SimS (fun s => notify_p s c n).
Proof.
  intros s rp R. unfold notify_p. snorm1.
  destruct (sim_notify_p_fold n (map (fun e => Z.to_nat (eobj e)) (arr (pq_sort HQ (cpq (getc s c)))))
              s rp 0 0 R) as (rp1 & E1 & R1). cbv zeta in E1, R1. rewrite E1. clear E1.
  destruct (fold_left _ _ (s, 0, 0)) as [[s1 tk] cn]. cbn [fst snd] in *. snorm1. sfin.
Qed.

Lemma sim_notify_i_fold n order : forall s rp b, Rel s rp ->
  let F := (fun '(s, cnt) f =>
              if Nat.leb n cnt then (s, cnt)
              else if fdone s f then (s, cnt)
              else (fst (fut_finish s f (FResult 0)), S cnt)) in
  exists rp', fold_left F order (wr s rp, b) =
              (wr (fst (fold_left F order (s, b))) rp', snd (fold_left F order (s, b))) /\
              Rel (fst (fold_left F order (s, b))) rp'.
Proof.
  induction order as [|f order IH]; intros s rp b R F; subst F; cbn [fold_left].
  - cbn [fst snd]. sfin.
  - cbv beta iota. snorm1.
    destruct (Nat.leb n b); [apply IH; auto|].
    destruct (fdone s f); [apply IH; auto|].
    destruct (sim_fut_finish f (FResult 0) s rp R) as (rp1 & E1 & R1). cbv beta in E1.
    rewrite E1. cbn [fst]. apply IH; auto.
Qed.

Lemma sim_notify_i c n : SimS (fun s => notify_i s c n).
Proof.
  intros s rp R. unfold notify_i. snorm1.
  destruct (sim_notify_i_fold n (cdq (getc s c)) s rp 0 R) as (rp1 & E1 & R1).
  cbv zeta in E1, R1. rewrite E1. cbn [fst]. sfin.
Qed.

Ltac sfind4 :=
  first [ sfind3
        | match goal with
          | |- context [notify_p (wr ?S ?rp) ?c ?n] => sapply (sim_notify_p c n S rp)
          | |- context [notify_i (wr ?S ?rp) ?c ?n] => sapply (sim_notify_i c n S rp)
          end ].
Ltac sfind ::= sfind4.

Lemma sim_reacquire t c pc err body : SimP (fun s => reacquire s t c pc err body).
Proof. apply SimP_intro. intros s rp s' x E R. unfold reacquire in *. sgoP E. Qed.
Lemma sim_cond_p_after c r : SimP (fun s => cond_p_after s c r).
Proof. apply SimP_intro. intros s rp s' x E R. unfold cond_p_after in *. sgoP E. Qed.

Ltac sfind5 :=
  first [ sfind4
        | match goal with
          | |- context [reacquire (wr ?S ?rp) ?t ?c ?pc ?err ?body] =>
              sapply (sim_reacquire t c pc err body S rp)
          | |- context [cond_p_after (wr ?S ?rp) ?c ?r] => sapply (sim_cond_p_after c r S rp)
          end ].
Ltac sfind ::= sfind5.
