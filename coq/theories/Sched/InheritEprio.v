(* C11: the effective priority of the scheduler model ([eprio], fuel-bounded) on an
   acyclic wait-for graph: fixpoint equation, fuel independence, closed form (least own
   priority among the task and everybody transitively waiting for a lock it holds),
   the holder of a lock is at least as urgent as every waiter. *)
From Coq Require Import QArith Lqa Sorting.Permutation.
From RecordUpdate Require Import RecordUpdate.
From Asynkit Require Import Base.Prelude Queue.PQ Queue.PosPQ Queue.PosProofs Queue.Exec
  Sched.Model Sched.Tables.
Import RecordSetNotations.
Open Scope nat_scope.

(* ------------------------------------------------------------ vocabulary *)
(* PriorityTask.priority(); a plain task counts as 0 *)
Definition own (s : st) (t : nat) : Q :=
  match tprio (gett s t) with Some p => p | None => 0%Q end.
(* what a waiter contributes to the lock it waits for, with recursion budget [fuel] *)
Definition wprio_f (fuel : nat) (s : st) (w : nat) : Q :=
  match tprio (gett s w) with Some _ => eprio fuel s w | None => 0%Q end.
(* ... and with the budget of effective_priority() *)
Definition wprio (s : st) (w : nat) : Q :=
  match tprio (gett s w) with Some _ => effective_priority s w | None => 0%Q end.
(* the tasks queued on the locks held by t, in the order the code visits them *)
Definition waiters_of (s : st) (t : nat) : list nat :=
  flat_map (fun l => lock_waiter_tasks (getl s l)) (tholding (gett s t)).
(* w waits for a lock held by t *)
Definition waits_on (s : st) (w t : nat) : Prop :=
  exists l, In l (tholding (gett s t)) /\ In w (lock_waiter_tasks (getl s l)).
(* transitive closure *)
Inductive waits_tr (s : st) : nat -> nat -> Prop :=
| wt_one w t : waits_on s w t -> waits_tr s w t
| wt_step w u t : waits_tr s w u -> waits_on s u t -> waits_tr s w t.
(* the wait-for graph is acyclic, with chains no longer than the budget of
   effective_priority() *)
Definition ranked (s : st) : Prop :=
  exists rank : nat -> nat,
    (forall w t, waits_on s w t -> rank w < rank t) /\ (forall t, rank t <= efuel s).
(* x is a least element of vals *)
Definition min_of (x : Q) (vals : list Q) : Prop :=
  In x vals /\ forall v, In v vals -> (x <= v)%Q.

Lemma waits_on_iff s w t : waits_on s w t <-> In w (waiters_of s t).
Proof.
  unfold waits_on, waiters_of. rewrite in_flat_map. split; intros (l & H1 & H2); eauto.
Qed.

(* ------------------------------------------------------------ qmin *)
Lemma qmin_cases a b : (qmin a b = a /\ (a <= b)%Q) \/ (qmin a b = b /\ (b < a)%Q).
Proof.
  unfold qmin. destruct (qltb b a) eqn:E.
  - right. split; auto. now apply qltb_lt.
  - left. split; auto. now apply qltb_ge.
Qed.

Lemma qmin_le_l a b : (qmin a b <= a)%Q.
Proof. destruct (qmin_cases a b) as [[-> ?]|[-> ?]]; lra. Qed.
Lemma qmin_le_r a b : (qmin a b <= b)%Q.
Proof. destruct (qmin_cases a b) as [[-> ?]|[-> ?]]; lra. Qed.

(* ------------------------------------------------------------ the folds of eprio *)
Definition omin_spec (o : option Q) (vals : list Q) : Prop :=
  match o with None => vals = [] | Some x => min_of x vals end.

Lemma min_of_snoc x vals v : min_of x vals -> min_of (qmin x v) (vals ++ [v]).
Proof.
  intros [Hin Hle]. split.
  - apply in_or_app. destruct (qmin_cases x v) as [[-> _]|[-> _]]; simpl; auto.
  - intros y Hy. apply in_app_or in Hy as [Hy|[<-|[]]].
    + specialize (Hle _ Hy). pose proof (qmin_le_l x v). lra.
    + apply qmin_le_r.
Qed.

Lemma omin_snoc o vals v : omin_spec o vals -> omin_spec (qmin_opt o v) (vals ++ [v]).
Proof.
  destruct o as [x|]; simpl.
  - apply min_of_snoc.
  - intros ->. split; simpl; auto. intros y [<-|[]]. lra.
Qed.

Lemma inner_spec (g : nat -> Q) ws : forall m vals,
  omin_spec m vals ->
  omin_spec (fold_left (fun m w => qmin_opt m (g w)) ws m) (vals ++ map g ws).
Proof.
  induction ws as [|w ws IH]; intros m vals Hm; simpl.
  - now rewrite app_nil_r.
  - replace (vals ++ g w :: map g ws) with ((vals ++ [g w]) ++ map g ws)
      by (now rewrite <- app_assoc).
    apply IH. now apply omin_snoc.
Qed.

(* the body of eprio's loop over the held locks *)
Definition lock_step (s : st) (g : nat -> Q) (acc : option Q) (l : nat) : option Q :=
  match lock_waiter_tasks (getl s l) with
  | [] => acc
  | ws => match fold_left (fun m w => qmin_opt m (g w)) ws None with
          | Some x => qmin_opt acc x | None => acc end
  end.

Lemma min_of_app_min x vals y vals' :
  min_of y vals' -> omin_spec x vals -> omin_spec (qmin_opt x y) (vals ++ vals').
Proof.
  intros [Hy Hyle] Hx. destruct x as [x|]; simpl in *.
  - destruct Hx as [Hx Hxle]. split.
    + apply in_or_app. destruct (qmin_cases x y) as [[-> _]|[-> _]]; auto.
    + intros v Hv. apply in_app_or in Hv as [Hv|Hv].
      * specialize (Hxle _ Hv). pose proof (qmin_le_l x y). lra.
      * specialize (Hyle _ Hv). pose proof (qmin_le_r x y). lra.
  - subst vals. simpl. split; auto.
Qed.

Lemma lock_step_spec s g acc l vals :
  omin_spec acc vals ->
  omin_spec (lock_step s g acc l) (vals ++ map g (lock_waiter_tasks (getl s l))).
Proof.
  intros Hacc. unfold lock_step.
  destruct (lock_waiter_tasks (getl s l)) as [|w ws] eqn:E.
  - simpl. now rewrite app_nil_r.
  - pose proof (inner_spec g (w :: ws) None [] eq_refl) as Hin. rewrite app_nil_l in Hin.
    destruct (fold_left _ (w :: ws) None) as [x|] eqn:Ef.
    + simpl in Hin. now apply min_of_app_min.
    + simpl in Hin. discriminate.
Qed.

Lemma outer_spec s g ls : forall acc vals,
  omin_spec acc vals ->
  omin_spec (fold_left (lock_step s g) ls acc)
            (vals ++ map g (flat_map (fun l => lock_waiter_tasks (getl s l)) ls)).
Proof.
  induction ls as [|l ls IH]; intros acc vals Hacc; simpl.
  - now rewrite app_nil_r.
  - rewrite map_app, app_assoc. apply IH. now apply lock_step_spec.
Qed.

Lemma eprio_S fuel s t :
  eprio (S fuel) s t =
  match fold_left (lock_step s (wprio_f fuel s)) (tholding (gett s t)) None with
  | None => own s t | Some m => qmin (own s t) m end.
Proof. reflexivity. Qed.

Lemma eprio_0 s t : eprio 0 s t = own s t.
Proof. reflexivity. Qed.

(* one unfolding of the recursion: the result is a least element of the task's own
   priority and the contributions of the tasks waiting for locks it holds *)
Theorem eprio_step fuel s t :
  min_of (eprio (S fuel) s t) (own s t :: map (wprio_f fuel s) (waiters_of s t)).
Proof.
  rewrite eprio_S.
  pose proof (outer_spec s (wprio_f fuel s) (tholding (gett s t)) None [] eq_refl) as Ho.
  rewrite app_nil_l in Ho. fold (waiters_of s t) in Ho.
  destruct (fold_left _ (tholding (gett s t)) None) as [m|]; simpl in Ho.
  - destruct Ho as [Hin Hle]. split.
    + destruct (qmin_cases (own s t) m) as [[-> _]|[-> _]]; simpl; auto.
    + intros v [<-|Hv]; [apply qmin_le_l|]. specialize (Hle _ Hv).
      pose proof (qmin_le_r (own s t) m). lra.
  - rewrite Ho. split; simpl; auto. intros v [<-|[]]. lra.
Qed.

(* ------------------------------------------------------------ congruence *)
Lemma fold_left_ext_in {A B} (f g : A -> B -> A) l : forall a,
  (forall a x, In x l -> f a x = g a x) -> fold_left f l a = fold_left g l a.
Proof.
  induction l as [|x l IH]; intros a H; simpl; auto.
  rewrite H by (now left). apply IH. intros; apply H; now right.
Qed.

Lemma lock_step_ext s g1 g2 acc l :
  (forall w, In w (lock_waiter_tasks (getl s l)) -> g1 w = g2 w) ->
  lock_step s g1 acc l = lock_step s g2 acc l.
Proof.
  intros H. unfold lock_step. destruct (lock_waiter_tasks (getl s l)) as [|w ws]; auto.
  rewrite (fold_left_ext_in (fun m w0 => qmin_opt m (g1 w0)) (fun m w0 => qmin_opt m (g2 w0)));
    auto.
  intros a x Hx. now rewrite H.
Qed.

Lemma eprio_S_ext f1 f2 s t :
  (forall w, In w (waiters_of s t) -> wprio_f f1 s w = wprio_f f2 s w) ->
  eprio (S f1) s t = eprio (S f2) s t.
Proof.
  intros H. rewrite !eprio_S.
  rewrite (fold_left_ext_in (lock_step s (wprio_f f1 s)) (lock_step s (wprio_f f2 s))); auto.
  intros a l Hl. apply lock_step_ext. intros w Hw. apply H.
  unfold waiters_of. apply in_flat_map. eauto.
Qed.

Lemma eprio_no_waiters fuel s t : waiters_of s t = [] -> eprio fuel s t = own s t.
Proof.
  intros H. destruct fuel as [|fuel]; auto.
  destruct (eprio_step fuel s t) as [Hin _]. rewrite H in Hin. simpl in Hin. destruct Hin as [E|[]]. now symmetry.
Qed.

(* ------------------------------------------------------------ fuel independence *)
Section Ranked.
Variables (s : st) (rank : nat -> nat).
Hypothesis Hrank : forall w t, waits_on s w t -> rank w < rank t.

Lemma eprio_fuel_indep : forall f1 t f2,
  rank t <= f1 -> rank t <= f2 -> eprio f1 s t = eprio f2 s t.
Proof.
  induction f1 as [|f1 IH]; intros t f2 H1 H2.
  - assert (Hw : waiters_of s t = []).
    { destruct (waiters_of s t) as [|w ws] eqn:E; auto.
      assert (In w (waiters_of s t)) as Hin by (rewrite E; now left).
      apply waits_on_iff in Hin. apply Hrank in Hin. lia. }
    now rewrite !eprio_no_waiters.
  - destruct f2 as [|f2].
    + assert (Hw : waiters_of s t = []).
      { destruct (waiters_of s t) as [|w ws] eqn:E; auto.
        assert (In w (waiters_of s t)) as Hin by (rewrite E; now left).
        apply waits_on_iff in Hin. apply Hrank in Hin. lia. }
      now rewrite !eprio_no_waiters.
    + apply eprio_S_ext. intros w Hw. apply waits_on_iff in Hw. apply Hrank in Hw.
      unfold wprio_f. destruct (tprio (gett s w)); auto. apply IH; lia.
Qed.

Hypothesis Hbound : forall t, rank t <= efuel s.

Lemma wprio_f_efuel fuel w : efuel s <= fuel -> wprio_f fuel s w = wprio s w.
Proof.
  intros H. unfold wprio_f, wprio, effective_priority. destruct (tprio (gett s w)); auto.
  apply eprio_fuel_indep; auto. specialize (Hbound w). lia.
Qed.

(* more fuel changes nothing *)
Theorem eprio_fuel_enough fuel t : efuel s <= fuel -> eprio fuel s t = effective_priority s t.
Proof.
  intros H. unfold effective_priority. apply eprio_fuel_indep; auto. specialize (Hbound t). lia.
Qed.

(* the fixpoint equation *)
Theorem eprio_fixpoint t :
  min_of (effective_priority s t) (own s t :: map (wprio s) (waiters_of s t)).
Proof.
  rewrite <- (eprio_fuel_enough (S (efuel s)) t) by lia.
  pose proof (eprio_step (efuel s) s t) as H.
  rewrite (map_ext_in (wprio_f (efuel s) s) (wprio s)) in H; [exact H|].
  intros w _. apply wprio_f_efuel. lia.
Qed.

Lemma eprio_le_own t : (effective_priority s t <= own s t)%Q.
Proof. destruct (eprio_fixpoint t) as [_ H]. apply H. now left. Qed.

Lemma eprio_le_waiter w t : waits_on s w t -> (effective_priority s t <= wprio s w)%Q.
Proof.
  intros Hw. destruct (eprio_fixpoint t) as [_ H]. apply H. right.
  apply in_map. now apply waits_on_iff.
Qed.

Lemma wprio_le_own w : (wprio s w <= own s w)%Q.
Proof.
  unfold wprio, own. pose proof (eprio_le_own w) as H. unfold own in H.
  destruct (tprio (gett s w)); auto. lra.
Qed.

(* plain tasks hold no PriorityLock (clause iA4 of the C13 invariant) *)
Hypothesis Hplain : forall t, is_prio_task s t = false -> tholding (gett s t) = [].

Lemma plain_no_waiters t : is_prio_task s t = false -> waiters_of s t = [].
Proof. intros H. unfold waiters_of. now rewrite Hplain. Qed.

Lemma wprio_eq_eprio w : wprio s w = effective_priority s w.
Proof.
  unfold wprio. destruct (tprio (gett s w)) eqn:E; auto.
  assert (is_prio_task s w = false) as Hp by (unfold is_prio_task; now rewrite E).
  unfold effective_priority. rewrite eprio_no_waiters by (now apply plain_no_waiters).
  unfold own. now rewrite E.
Qed.

Lemma waits_tr_last w t : waits_tr s w t -> exists u, waits_on s u t.
Proof. intros H. destruct H; eauto. Qed.

(* the holder of a lock - and everybody up the holder chain - is at least as urgent
   as the waiter *)
Theorem holder_chain_le w t :
  waits_tr s w t -> (effective_priority s t <= effective_priority s w)%Q.
Proof.
  induction 1 as [w t H|w u t H IH H2].
  - rewrite <- (wprio_eq_eprio w). now apply eprio_le_waiter.
  - pose proof (eprio_le_waiter _ _ H2) as H3. rewrite wprio_eq_eprio in H3. lra.
Qed.

(* closed form *)
Theorem eprio_lower_bound w t :
  waits_tr s w t -> (effective_priority s t <= own s w)%Q.
Proof.
  intros H. pose proof (holder_chain_le _ _ H). pose proof (eprio_le_own w). lra.
Qed.

Theorem eprio_attained t :
  exists u, (u = t \/ waits_tr s u t) /\ effective_priority s t = own s u.
Proof.
  remember (rank t) as n eqn:En. revert t En.
  induction n as [n IH] using lt_wf_ind. intros t En.
  destruct (eprio_fixpoint t) as [[Hin|Hin] _].
  - exists t. auto.
  - apply in_map_iff in Hin as (w & Ew & Hw). apply waits_on_iff in Hw.
    rewrite wprio_eq_eprio in Ew.
    destruct (IH (rank w) ltac:(subst n; now apply Hrank) w eq_refl) as (u & Hu & Eu).
    exists u. split; [|congruence]. right. destruct Hu as [->|Hu].
    + now apply wt_one.
    + eapply wt_step; eauto.
Qed.

End Ranked.

(* ------------------------------------------------------------ frame rules *)
(* eprio only reads the priorities and held locks of the tasks and the waiter lists of
   the locks *)
Lemma eprio_ext s s' :
  (forall t, tprio (gett s' t) = tprio (gett s t) /\ tholding (gett s' t) = tholding (gett s t)) ->
  (forall l, lock_waiter_tasks (getl s' l) = lock_waiter_tasks (getl s l)) ->
  forall fuel t, eprio fuel s' t = eprio fuel s t.
Proof.
  intros Ht Hl. induction fuel as [|fuel IH]; intros t.
  - rewrite !eprio_0. unfold own. now destruct (Ht t) as [-> _].
  - rewrite !eprio_S. destruct (Ht t) as [Ep ->]. unfold own. rewrite Ep.
    assert (E : forall acc l, lock_step s' (wprio_f fuel s') acc l = lock_step s (wprio_f fuel s) acc l).
    { intros acc l. unfold lock_step. rewrite Hl.
      destruct (lock_waiter_tasks (getl s l)) as [|w ws]; auto.
      rewrite (fold_left_ext_in (fun m w0 => qmin_opt m (wprio_f fuel s' w0))
                                (fun m w0 => qmin_opt m (wprio_f fuel s w0))); auto.
      intros a x _. unfold wprio_f. destruct (Ht x) as [-> _]. now rewrite IH. }
    rewrite (fold_left_ext_in _ _ _ None (fun a x _ => E a x)). reflexivity.
Qed.

Lemma waits_on_ext s s' :
  (forall t, tholding (gett s' t) = tholding (gett s t)) ->
  (forall l, lock_waiter_tasks (getl s' l) = lock_waiter_tasks (getl s l)) ->
  forall w t, waits_on s' w t <-> waits_on s w t.
Proof.
  intros Ht Hl w t. unfold waits_on. split; intros (l & H1 & H2); exists l.
  - now rewrite <- Ht, <- Hl.
  - now rewrite Ht, Hl.
Qed.
