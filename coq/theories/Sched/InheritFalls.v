(* C11: the effective priority falls back when the holder releases or a waiter leaves.
   Both operations only remove edges of the wait-for graph, so it stays acyclic within the
   fuel, and the fixpoint equation of the new state ranges over the remaining waiters. *)
From Coq Require Import QArith Lqa Sorting.Permutation.
From RecordUpdate Require Import RecordUpdate.
From Asynkit Require Import Base.Prelude Queue.PQ Queue.Order Queue.PosPQ Queue.PosProofs Queue.Exec
  Sched.Model Sched.Tables Sched.QFacts Sched.LockInv Sched.LockOps Sched.InheritEprio
  Sched.InheritHandover Sched.InheritKeys.
Import RecordSetNotations.
Open Scope nat_scope.

(* a state with fewer wait-for edges and the same table sizes *)
Lemma ranked_sub s s' :
  (forall w t, waits_on s' w t -> waits_on s w t) -> efuel s' = efuel s -> ranked s -> ranked s'.
Proof.
  intros Hs Ef (rank & H1 & H2). exists rank. split; [intros w t H; apply H1; auto|].
  intros t. rewrite Ef. apply H2.
Qed.

(* ------------------------------------------------------------ release *)
(* PriorityLock.release up to the call of _wake_up_first *)
Definition pre_wake (s : st) (t l : nat) : st :=
  let s := setl s l (getl s l <| lowner := None |>) in
  let s := if is_prio_task s t
           then sett s t (gett s t <| tholding := filter (fun x => negb (Nat.eqb x l)) (tholding (gett s t)) |>)
           else s in
  setl s l (getl s l <| llocked := false |>).

Lemma release_p_wake s t l :
  llocked (getl s l) = true -> lowner (getl s l) = Some t ->
  release_p s t l = (wake_up_first_p (pre_wake s t l) l, RVal 0).
Proof.
  intros Hl Ho. unfold release_p, pre_wake. rewrite Hl, Ho. simpl negb.
  rewrite Nat.eqb_refl. reflexivity.
Qed.

Lemma wake_tasks s l : tasks (wake_up_first_p s l) = tasks s.
Proof.
  unfold wake_up_first_p. destruct (arr (lpq (getl s l))); auto.
  match goal with |- context [if ?b then _ else _] => destruct b end; auto.
  match goal with |- context [if ?b then _ else _] => destruct b end; auto.
  apply fut_finish_proj.
Qed.

Lemma wake_eprio s l fuel t : eprio fuel (wake_up_first_p s l) t = eprio fuel s t.
Proof.
  apply eprio_ext.
  - intros u. unfold gett. now rewrite wake_tasks.
  - intros l0. unfold getl. now rewrite wake_locks.
Qed.

Lemma wake_efuel s l : efuel (wake_up_first_p s l) = efuel s.
Proof. unfold efuel. now rewrite wake_tasks, wake_locks. Qed.

Lemma lwt_setl s l x l' :
  lock_waiter_tasks x = lock_waiter_tasks (getl s l) ->
  lock_waiter_tasks (getl (setl s l x) l') = lock_waiter_tasks (getl s l').
Proof.
  intros E. rewrite getl_setl. destruct (Nat.eqb l l' && Nat.ltb l (length (locks s)))%bool eqn:C; auto.
  apply andb_prop in C as [C _]. apply Nat.eqb_eq in C. now subst l'.
Qed.

Lemma pre_wake_locks s t l l' :
  lock_waiter_tasks (getl (pre_wake s t l) l') = lock_waiter_tasks (getl s l').
Proof.
  unfold pre_wake. rewrite lwt_setl.
  - destruct (is_prio_task _ t).
    + change (getl (sett ?a ?b ?c) l') with (getl a l'). now rewrite lwt_setl.
    + now rewrite lwt_setl.
  - reflexivity.
Qed.

Lemma pre_wake_gett s t l u :
  gett (pre_wake s t l) u =
  if (is_prio_task s t && Nat.eqb t u && Nat.ltb t (length (tasks s)))%bool
  then gett s t <| tholding := filter (fun x => negb (Nat.eqb x l)) (tholding (gett s t)) |>
  else gett s u.
Proof.
  unfold pre_wake. change (is_prio_task (setl s l (getl s l <| lowner := None |>)) t) with (is_prio_task s t).
  destruct (is_prio_task s t); simpl andb.
  - change (gett (setl ?a ?b ?c) u) with (gett a u). rewrite gett_sett.
    change (tasks (setl s l (getl s l <| lowner := None |>))) with (tasks s).
    destruct (Nat.eqb t u && Nat.ltb t (length (tasks s)))%bool; reflexivity.
  - reflexivity.
Qed.

Lemma pre_wake_efuel s t l : efuel (pre_wake s t l) = efuel s.
Proof.
  unfold efuel, pre_wake, setl, sett.
  change (is_prio_task (s <| locks := set_nth (locks s) l (getl s l <| lowner := None |>) |>) t)
    with (is_prio_task s t).
  destruct (is_prio_task s t); cbn; rewrite ?set_nth_length; reflexivity.
Qed.

Lemma filter_sub {A} (p : A -> bool) l x : In x (filter p l) -> In x l.
Proof. intros H. now apply filter_In in H. Qed.

(* C11_falls_back (release): after a successful release of l by the PriorityTask t the
   graph is still acyclic, and t's effective priority is least among its own priority and
   the contributions of the waiters of the locks it STILL holds *)
Theorem falls_back_release s t l :
  ranked s -> llocked (getl s l) = true -> lowner (getl s l) = Some t ->
  is_prio_task s t = true -> t < length (tasks s) ->
  let s' := fst (release_p s t l) in
  ranked s' /\
  tholding (gett s' t) = filter (fun x => negb (Nat.eqb x l)) (tholding (gett s t)) /\
  min_of (effective_priority s' t)
         (own s t :: map (wprio s')
                         (flat_map (fun l' => lock_waiter_tasks (getl s l'))
                                   (filter (fun x => negb (Nat.eqb x l)) (tholding (gett s t))))).
Proof.
  intros R Hl Ho Hp Ht s'. unfold s'. rewrite (release_p_wake s t l Hl Ho). cbn [fst].
  set (s1 := pre_wake s t l). set (s2 := wake_up_first_p s1 l).
  assert (G2 : forall u, gett s2 u = gett s1 u) by (intros; unfold gett, s2; now rewrite wake_tasks).
  assert (L2 : forall l', getl s2 l' = getl s1 l') by (intros; unfold getl, s2; now rewrite wake_locks).
  assert (Gt : gett s1 t = gett s t <| tholding := filter (fun x => negb (Nat.eqb x l)) (tholding (gett s t)) |>).
  { unfold s1. rewrite pre_wake_gett, Hp, Nat.eqb_refl. simpl.
    assert (Nat.ltb t (length (tasks s)) = true) as -> by (now apply Nat.ltb_lt). reflexivity. }
  assert (Hsub : forall w u, waits_on s2 w u -> waits_on s w u).
  { intros w u (l' & H1 & H2). exists l'. rewrite L2 in H2. unfold s1 in H2. rewrite pre_wake_locks in H2.
    split; auto. rewrite G2 in H1. unfold s1 in H1. rewrite pre_wake_gett in H1.
    destruct (_ && _)%bool eqn:C; auto.
    apply andb_prop in C as [C _]. apply andb_prop in C as [_ C]. apply Nat.eqb_eq in C. subst u.
    cbn in H1. now apply filter_sub in H1. }
  assert (R2 : ranked s2).
  { apply (ranked_sub s s2 Hsub); auto. unfold s2. rewrite wake_efuel. apply pre_wake_efuel. }
  split; [exact R2|]. split; [rewrite G2, Gt; reflexivity|].
  destruct R2 as (rank & H1 & H2).
  pose proof (eprio_fixpoint s2 rank H1 H2 t) as F.
  assert (Eo : own s2 t = own s t) by (unfold own; rewrite G2, Gt; reflexivity).
  assert (Ew : waiters_of s2 t =
               flat_map (fun l' => lock_waiter_tasks (getl s l'))
                        (filter (fun x => negb (Nat.eqb x l)) (tholding (gett s t)))).
  { unfold waiters_of. rewrite G2, Gt. cbn [tholding].
    apply flat_map_ext. intros l'. rewrite L2. apply pre_wake_locks. }
  now rewrite Eo, Ew in F.
Qed.

(* ------------------------------------------------------------ a waiter leaves *)
Lemma find_filter_other (lw : list (nat * nat)) f g :
  g <> f ->
  find (fun p => Nat.eqb (fst p) g) (filter (fun pr => negb (Nat.eqb (fst pr) f)) lw) =
  find (fun p => Nat.eqb (fst p) g) lw.
Proof.
  intros Hne. induction lw as [|[a b] lw IH]; simpl; auto.
  destruct (Nat.eqb a f) eqn:Ea; simpl.
  - apply Nat.eqb_eq in Ea. subst a. apply Nat.eqb_neq in Hne. rewrite Nat.eqb_sym in Hne.
    now rewrite Hne.
  - destruct (Nat.eqb a g); auto.
Qed.

(* the `finally` of acquire(): self._waiters.remove(entry) *)
Definition leave_lk (lk : lock) (f : nat) (q' : pq Q) : lock :=
  lk <| lpq := q' |> <| lwt := filter (fun pr => negb (Nat.eqb (fst pr) f)) (lwt lk) |>.

Lemma leave_waiters lk f p q' :
  qwf (lpq lk) -> pq_remove HQ (lpq lk) (Z.of_nat f) = Some (p, q') ->
  Permutation (lock_waiter_tasks lk) (task_of_fut lk f :: lock_waiter_tasks (leave_lk lk f q')).
Proof.
  intros W E. destruct (qwf_remove _ _ _ _ W E) as (W' & Po & Hn).
  rewrite !lock_waiter_tasks_objs.
  eapply perm_trans; [apply Permutation_map, Po|]. simpl. apply perm_skip.
  change (lpq (leave_lk lk f q')) with q'.
  rewrite (map_ext_in (task_of_fut lk) (task_of_fut (leave_lk lk f q'))); [reflexivity|].
  intros g Hg. unfold task_of_fut.
  change (lwt (leave_lk lk f q')) with (filter (fun pr => negb (Nat.eqb (fst pr) f)) (lwt lk)).
  rewrite find_filter_other; auto. intros ->. contradiction.
Qed.

(* C11_falls_back (a waiter leaves): removing the entry of future f from lock l keeps the
   graph acyclic; the waiter list of l loses exactly the task of f, and the effective
   priority of every task is given by the fixpoint equation over the remaining waiters *)
Theorem falls_back_leave s l f p q' :
  ranked s -> qwf (lpq (getl s l)) -> pq_remove HQ (lpq (getl s l)) (Z.of_nat f) = Some (p, q') ->
  let s' := setl s l (leave_lk (getl s l) f q') in
  ranked s' /\
  Permutation (lock_waiter_tasks (getl s l))
              (task_of_fut (getl s l) f :: lock_waiter_tasks (getl s' l)) /\
  (forall l', l' <> l -> getl s' l' = getl s l') /\
  (forall h, min_of (effective_priority s' h) (own s h :: map (wprio s') (waiters_of s' h))).
Proof.
  intros R W E s'.
  assert (Hl : l < length (locks s)).
  { destruct (Nat.lt_ge_cases l (length (locks s))) as [|Hge]; auto.
    rewrite getl_oob in E by auto. discriminate. }
  assert (Gl : getl s' l = leave_lk (getl s l) f q') by (unfold s'; now apply getl_setl_same).
  assert (Go : forall l', l' <> l -> getl s' l' = getl s l').
  { intros l' Hne. unfold s'. apply getl_setl_other. auto. }
  pose proof (leave_waiters _ _ _ _ W E) as P.
  assert (Hsub : forall w u, waits_on s' w u -> waits_on s w u).
  { intros w u (l' & H1 & H2). exists l'. split; [exact H1|].
    destruct (Nat.eq_dec l' l) as [->|Hne].
    - rewrite Gl in H2. eapply Permutation_in; [apply Permutation_sym, P|]. now right.
    - now rewrite Go in H2. }
  assert (R' : ranked s').
  { apply (ranked_sub s s' Hsub); auto. unfold efuel, s', setl. cbn. now rewrite set_nth_length. }
  split; [exact R'|]. split; [now rewrite Gl|]. split; [exact Go|].
  destruct R' as (rank & H1 & H2). intros h. apply (eprio_fixpoint s' rank H1 H2 h).
Qed.
