(* Tables, counting and the invariant Inv09 of the scheduler model (property C09).
   Definitions and basic facts only; the preservation proofs are in
   Sched/PartitionProofs.v. *)
From Coq Require Import QArith Sorting.Permutation.
From RecordUpdate Require Import RecordUpdate.
From Asynkit Require Import Base.Prelude Queue.ListFacts Queue.PQ Queue.PosPQ Queue.Exec Sched.Model.
Import RecordSetNotations.
Open Scope nat_scope.

(* ------------------------------------------------------------ list facts *)
Section Lists.
Context {A : Type}.

Lemma nth_set_nth_other (l : list A) i j x d : i <> j -> nth i (set_nth l j x) d = nth i l d.
Proof.
  revert i j. induction l as [|h t IH]; intros [|i] [|j] Hn; simpl; auto; try lia.
Qed.

Lemma set_nth_oob (l : list A) i x : length l <= i -> set_nth l i x = l.
Proof.
  revert i. induction l as [|h t IH]; intros [|i] Hl; simpl in *; auto; try lia.
  rewrite IH by lia. reflexivity.
Qed.

Lemma nth_set_nth (l : list A) i j x d :
  nth i (set_nth l j x) d = if Nat.eqb i j && Nat.ltb j (length l) then x else nth i l d.
Proof.
  destruct (Nat.eqb_spec i j) as [->|Hn]; simpl.
  - destruct (Nat.ltb_spec j (length l)).
    + apply nth_set_nth_same; auto.
    + rewrite set_nth_oob by lia. reflexivity.
  - apply nth_set_nth_other; auto.
Qed.

Lemma perm_insert_nth (l : list A) i x : Permutation (insert_nth l i x) (x :: l).
Proof.
  revert l. induction i as [|i IH]; intros [|h t]; simpl; auto.
  eapply perm_trans; [apply perm_skip, IH | apply perm_swap].
Qed.

Lemma find_last_some (key : A -> bool) l i d :
  find_last key l = Some i -> i < length l /\ key (nth i l d) = true.
Proof.
  revert i. induction l as [|h t IH]; simpl; intros i E; [discriminate|].
  destruct (find_last key t) as [j|] eqn:Ej.
  - inversion E; subst. destruct (IH j eq_refl). split; [lia|auto].
  - destruct (key h) eqn:Ek; inversion E; subst. split; [lia|auto].
Qed.

Lemma find_last_none (key : A -> bool) l :
  find_last key l = None -> forall x, In x l -> key x = false.
Proof.
  induction l as [|h t IH]; simpl; intros E x Hx; [tauto|].
  destruct (find_last key t) as [j|] eqn:Ej; [discriminate|].
  destruct (key h) eqn:Ek; [discriminate|]. destruct Hx as [<-|Hx]; auto.
Qed.

(* counting *)
Definition cnt (p : A -> bool) (l : list A) : nat := length (filter p l).

Lemma cnt_nil p : cnt p [] = 0. Proof. reflexivity. Qed.
Lemma cnt_cons p x l : cnt p (x :: l) = (if p x then 1 else 0) + cnt p l.
Proof. unfold cnt. simpl. destruct (p x); reflexivity. Qed.
Lemma cnt_app p l1 l2 : cnt p (l1 ++ l2) = cnt p l1 + cnt p l2.
Proof. unfold cnt. rewrite filter_app, app_length. reflexivity. Qed.
Lemma cnt_perm p l l' : Permutation l l' -> cnt p l = cnt p l'.
Proof.
  induction 1; rewrite ?cnt_cons; try lia; try congruence.
Qed.
Lemma cnt_ext p q l : (forall x, In x l -> p x = q x) -> cnt p l = cnt q l.
Proof.
  induction l as [|h t IH]; intros Hx; auto. rewrite !cnt_cons, IH.
  - rewrite (Hx h); simpl; auto.
  - intros; apply Hx; simpl; auto.
Qed.
Lemma cnt_zero p l : (forall x, In x l -> p x = false) -> cnt p l = 0.
Proof.
  induction l as [|h t IH]; intros Hx; auto. rewrite cnt_cons, IH.
  - rewrite (Hx h); simpl; auto.
  - intros; apply Hx; simpl; auto.
Qed.
Lemma cnt_pos_in p l : 0 < cnt p l -> exists x, In x l /\ p x = true.
Proof.
  induction l as [|h t IH]; [rewrite cnt_nil; lia|]. rewrite cnt_cons.
  destruct (p h) eqn:E; intros Hc.
  - exists h; simpl; auto.
  - destruct IH as (x & Hx & Hp); [simpl in Hc; lia|]. exists x; simpl; auto.
Qed.
Lemma cnt_in_pos p l x : In x l -> p x = true -> 0 < cnt p l.
Proof.
  induction l as [|h t IH]; simpl; [tauto|]. intros [->|Hi] Hp; rewrite cnt_cons.
  - rewrite Hp. lia.
  - specialize (IH Hi Hp). lia.
Qed.
Lemma cnt_filter_neg p l : cnt p (filter (fun x => negb (p x)) l) = 0.
Proof.
  apply cnt_zero. intros x Hx. apply filter_In in Hx. destruct Hx as [_ Hx].
  destruct (p x); simpl in *; congruence.
Qed.
Lemma cnt_filter_other p q l : (forall x, p x = true -> q x = true) ->
  cnt p (filter q l) = cnt p l.
Proof.
  intros Hpq. induction l as [|h t IH]; auto. simpl. destruct (q h) eqn:Eq.
  - rewrite !cnt_cons, IH. reflexivity.
  - rewrite cnt_cons, IH. destruct (p h) eqn:Ep; auto. rewrite Hpq in Eq; congruence.
Qed.
End Lists.

(* ---------------------------------------------------------- definitions *)
(* number of ready-queue entries that are step/wakeup handles of task t *)
Definition hcnt (s : st) (t : nat) : nat := cnt (task_key s t) (rq_items (ready s)).
(* number of wake-up callbacks of task t registered on future g *)
Definition is_wakeup (t : nat) (c : cb) : bool := cb_eqb c (CbWakeup t).
Definition ccnt (s : st) (t g : nat) : nat := cnt (is_wakeup t) (fcbs (getf s g)).

(* the pending future a task is blocked on, if any *)
Definition bo (s : st) (t : nat) : option nat :=
  match twaiter (gett s t) with
  | Some f => if fdone s f then None else Some f
  | None => None
  end.

(* class (C): the running task has no handle, no wake-up callback, and is not
   waiting on a pending future (Task.__step clears _fut_waiter first thing) *)
Definition quiet (s : st) (t : nat) : Prop :=
  hcnt s t = 0 /\ (forall g, fdone s g = false -> ccnt s t g = 0) /\ bo s t = None.

(* classes (R) and (B) *)
Definition RB (s : st) (t : nat) : Prop :=
  hcnt s t = (match bo s t with Some _ => 0 | None => 1 end) /\
  forall g, fdone s g = false ->
            ccnt s t g = match bo s t with Some f => if Nat.eqb f g then 1 else 0 | None => 0 end.

Definition is_cur (c : option nat) (t : nat) : bool :=
  match c with Some c' => Nat.eqb c' t | None => false end.

Definition cls (c : option nat) (s : st) (t : nat) : Prop :=
  if is_cur c t then quiet s t else RB s t.

(* side condition on user programs: task_timeout's exit is only called with a
   block id obtained from its enter *)
Definition op_ok (n : nat) (op : libop) : Prop :=
  match op with OTimeoutExit b _ => b < n | _ => True end.

Definition kont_ok_ (P : nat -> coro -> Prop) (n : nat) (k : reply -> coro) : Prop :=
  forall m rep, n <= m -> P m (k rep).

Fixpoint coro_ok (n : nat) (c : coro) : Prop :=
  match c with
  | Ret _ | Raise _ => True
  | Call op k =>
      op_ok n op /\
      match op with
      | OTimeoutEnter (Some _) => forall m, n <= m -> coro_ok (S m) (k (RVal (Z.of_nat m)))
      | _ => forall m rep, n <= m -> coro_ok m (k rep)
      end
  | Spawn how child k => coro_ok n child /\ forall m rep, n <= m -> coro_ok m (k rep)
  end.
Definition kont_ok (n : nat) (k : reply -> coro) : Prop := forall m rep, n <= m -> coro_ok m (k rep).

Definition nontask (s : st) (h : nat) : Prop :=
  h < length (handles s) /\ task_of_handle s h = None.

Definition frame_ok (s : st) (fr : frame) : Prop :=
  match fr with InSleepTimer h => nontask s h | _ => True end.

Definition tcont_ok (s : st) (k : tcont) : Prop :=
  match k with
  | TNew c => coro_ok (length (blocks s)) c
  | TSusp frs k => Forall (frame_ok s) frs /\ kont_ok (length (blocks s)) k
  | TEager _ frs k => Forall (frame_ok s) frs /\ kont_ok (length (blocks s)) k
  | TRun | TFin => True
  end.

(* what the proofs need from the two ready-queue implementations *)
Record QSpec (qok : rq -> Prop) : Prop := {
  q_append : forall r h p, qok r ->
      qok (rq_append r h p) /\ Permutation (rq_items (rq_append r h p)) (h :: rq_items r);
  q_popleft : forall r h r', qok r -> rq_popleft r = Some (h, r') ->
      qok r' /\ Permutation (rq_items r) (h :: rq_items r');
  q_find : forall r key h r', qok r -> rq_find r key true = Some (h, r') ->
      qok r' /\ key h = true /\ Permutation (rq_items r) (h :: rq_items r');
  q_find_none : forall r key, qok r -> rq_find r key true = None ->
      forall h, In h (rq_items r) -> key h = false;
  q_remove : forall r h r', qok r -> rq_remove r h = Some r' ->
      qok r' /\ Permutation (rq_items r) (h :: rq_items r');
  q_insert : forall r k h, qok r ->
      qok (rq_insert_pos r k h) /\ Permutation (rq_items (rq_insert_pos r k h)) (h :: rq_items r);
  q_resched : forall r key p, qok r ->
      qok (rq_reschedule r key p) /\ Permutation (rq_items (rq_reschedule r key p)) (rq_items r);
  q_iter : forall p, qok (RPos p) ->
      qok (RPos (snd (pos_iter HPV p))) /\
      Permutation (rq_items (RPos (snd (pos_iter HPV p)))) (rq_items (RPos p))
}.

(* well-formedness of the tables (independent of the classes) *)
Record WF (qok : rq -> Prop) (s : st) : Prop := {
  i_qok : qok (ready s);
  i_rwf : forall h, In h (rq_items (ready s)) -> h < length (handles s);
  i_canc : forall h, hcancelled (geth s h) = true -> task_of_handle s h = None;
  i_tfut : forall t, t < length (tasks s) -> tfut (gett s t) < length (futs s);
  i_blk : forall b, b < length (blocks s) -> nontask s (btimer (getb s b));
  i_tim : forall w h, In (w, h) (timers s) -> nontask s h;
  i_frm : forall t, t < length (tasks s) -> tcont_ok s (tcont_ (gett s t))
}.

(* the invariant; [c] is the task whose step is in progress (None between steps) *)
Record InvC (qok : rq -> Prop) (c : option nat) (s : st) : Prop := {
  i_wf : WF qok s;
  i_cur : forall t, c = Some t -> t < length (tasks s);
  i_cls : forall t, t < length (tasks s) -> tdone s t = false -> cls c s t;
  i_oor : forall t, length (tasks s) <= t ->
            hcnt s t = 0 /\ forall g, fdone s g = false -> ccnt s t g = 0
}.

Arguments i_qok {qok s}. Arguments i_rwf {qok s}. Arguments i_canc {qok s}. Arguments i_tfut {qok s}.
Arguments i_blk {qok s}. Arguments i_tim {qok s}. Arguments i_frm {qok s}.
Arguments i_wf {qok c s}. Arguments i_cur {qok c s}. Arguments i_cls {qok c s}. Arguments i_oor {qok c s}.
Arguments q_append {qok}. Arguments q_popleft {qok}. Arguments q_find {qok}. Arguments q_find_none {qok}.
Arguments q_remove {qok}. Arguments q_insert {qok}. Arguments q_resched {qok}. Arguments q_iter {qok}.

(* state extension: what later states keep of earlier ones *)
Record ext (s s' : st) : Prop := {
  e_hlen : length (handles s) <= length (handles s');
  e_hcb : forall h, h < length (handles s) -> hcb (geth s' h) = hcb (geth s h);
  e_blen : length (blocks s) <= length (blocks s');
  e_tlen : length (tasks s) <= length (tasks s');
  e_cur : current s' = current s
}.

Arguments e_hlen {s s'}. Arguments e_hcb {s s'}. Arguments e_blen {s s'}. Arguments e_tlen {s s'}.
Arguments e_cur {s s'}.

Lemma ext_refl s : ext s s.
Proof. constructor; auto. Qed.

Lemma ext_trans s1 s2 s3 : ext s1 s2 -> ext s2 s3 -> ext s1 s3.
Proof.
  intros [A1 A2 A3 A4 A5] [B1 B2 B3 B4 B5]. constructor; try lia.
  - intros h Hh. rewrite B2 by lia. apply A2; auto.
  - congruence.
Qed.

Lemma op_ok_mono n m op : op_ok n op -> n <= m -> op_ok m op.
Proof. destruct op; simpl; auto. lia. Qed.

Lemma coro_ok_mono c : forall n m, coro_ok n c -> n <= m -> coro_ok m c.
Proof.
  induction c as [v|e|op k IH|how child IHc k IHk]; simpl; auto.
  - intros n m [Ho Hk] Hle. split; [eapply op_ok_mono; eauto|].
    destruct op; try (intros m' rep Hm; apply Hk; lia).
    destruct d; intros; apply Hk; lia.
  - intros n m [Hc Hk] Hle. split; [eapply IHc; eauto|]. intros; apply Hk; lia.
Qed.

Lemma kont_ok_mono n m k : kont_ok n k -> n <= m -> kont_ok m k.
Proof. intros Hk Hle m' rep Hm. apply Hk. lia. Qed.

Lemma nontask_ext s s' h : ext s s' -> nontask s h -> nontask s' h.
Proof.
  intros E [Hl Hn]. split; [pose proof (e_hlen E); lia|].
  unfold task_of_handle in *. rewrite (e_hcb E); auto.
Qed.

Lemma frame_ok_ext s s' fr : ext s s' -> frame_ok s fr -> frame_ok s' fr.
Proof. destruct fr; simpl; auto. apply nontask_ext. Qed.

Lemma frames_ok_ext s s' frs : ext s s' -> Forall (frame_ok s) frs -> Forall (frame_ok s') frs.
Proof. intros E. apply Forall_impl. intros; eapply frame_ok_ext; eauto. Qed.

Lemma tcont_ok_ext s s' k : ext s s' -> tcont_ok s k -> tcont_ok s' k.
Proof.
  intros E. pose proof (e_blen E). destruct k; simpl; auto.
  - intros; eapply coro_ok_mono; eauto.
  - intros [Hf Hk]; split; [eapply frames_ok_ext|eapply kont_ok_mono]; eauto.
  - intros [Hf Hk]; split; [eapply frames_ok_ext|eapply kont_ok_mono]; eauto.
Qed.
