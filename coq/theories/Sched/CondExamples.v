(* C14, part 5: the hypotheses of the theorems are satisfiable on reachable states,
   and the conclusions can be seen on them.

   Run A (list loop, PriorityLock 0, PriorityCondition 0, PriorityTasks):
     consumer (task 0): acquire; wait; log; release       producer (task 1): acquire; notify(1);
                                                            sleep(0); sleep(0); release
     the consumer is notified, then cancelled before it resumes while the producer still
     holds the lock, so re-acquisition blocks; it is cancelled a second time while it is
     queued on the lock; the producer releases; the consumer leaves wait() owning the lock.
   Run B (asyncio.Lock, InterruptCondition, Python task): same schedule, the second fault is
     task_throw(EInterrupt 7): wait() raises that instance, not the earlier CancelledError. *)
From Coq Require Import QArith Sorting.Permutation.
From RecordUpdate Require Import RecordUpdate.
From Asynkit Require Import Base.Prelude Queue.PQ Queue.Order Queue.PQProofs Queue.PosPQ Queue.Exec
  Sched.Model Sched.Corr Sched.Tables Sched.QFacts Sched.LockInv Sched.LockProofs Sched.LockThms
  Sched.CondView Sched.CondProofs Sched.CondNotify Sched.CondThms.
Import RecordSetNotations.
Open Scope nat_scope.

Definition sCons : script := SDo (OAcquire 0) (SDo (OCondWait 0) (SDo (OLog 7) (SDo (ORelease 0) SEnd))).
Definition sProd : script :=
  SDo (OAcquire 0) (SDo (OCondNotify 0 1) (SDo OSleep0 (SDo OSleep0 (SDo (ORelease 0) SEnd)))).

(* ------------------------------------------------------------ run A *)
Definition a0 : st := init_st false 0 [] [LPrio] [(CPrio, 0)] 0.
Definition actsA1 : list action :=
  map act [XSpawn (SPrio 5) sCons; XStep; XSpawn (SPrio 0) sProd; XStep; XDo (OCancel 0)].
Definition actsA2 : list action := map act [XStep].                         (* consumer: re-acquire blocks *)
Definition actsA3 : list action := map act [XDo (OCancel 0); XStep].        (* second fault; producer sleeps *)
Definition actsA4 : list action := map act [XStep; XStep].                  (* consumer re-queues; producer releases *)
Definition actsA5 : list action := map act [XStep].                         (* consumer leaves wait() *)
Definition a1 : st := fold_left do_action actsA1 a0.
Definition a2 : st := fold_left do_action actsA2 a1.
Definition a3 : st := fold_left do_action actsA3 a2.
Definition a4 : st := fold_left do_action actsA4 a3.
Definition a5 : st := fold_left do_action actsA5 a4.

Example runA_ok : run_ok a0 (actsA1 ++ actsA2 ++ actsA3 ++ actsA4 ++ actsA5).
Proof. vm_compute. repeat split. Qed.

Lemma reach_prefix p fa dr lks cds nev pre post :
  run_ok (init_st p fa dr lks cds nev) (pre ++ post) ->
  reachable (fold_left do_action pre (init_st p fa dr lks cds nev)).
Proof.
  intros H. exists p, fa, dr, lks, cds, nev, pre. split; [|reflexivity].
  eapply run_ok_app; eauto.
Qed.

Example reach_a1 : reachable a1.
Proof. apply (reach_prefix false 0%Q [] [LPrio] [(CPrio, 0)] 0 actsA1 _ runA_ok). Qed.
Example reach_a4 : reachable a4.
Proof.
  unfold a4, a3, a2, a1. rewrite <- !fold_left_app.
  apply (reach_prefix false 0%Q [] [LPrio] [(CPrio, 0)] 0 (((actsA1 ++ actsA2) ++ actsA3) ++ actsA4) actsA5).
  rewrite <- !app_assoc. exact runA_ok.
Qed.

(* a1: the consumer sits in `await fut`, its future has the result (it was notified), a
   cancellation is pending, and the producer owns the lock *)
Example a1_shape :
  tframes a1 0 = [InFut 1; InCondWaitP 0 1] /\ fstate_ (getf a1 1) = FResult 1 /\
  tmustc (gett a1 0) = true /\ lowner (getl a1 0) = Some 1 /\ wait_order a1 0 = [1].
Proof. vm_compute. repeat split. Qed.

(* the preconditions of the theorems hold there, derived from the C13 invariant *)
Example a1_pre :
  wait_pre (step_entry a1 0) 0 0 [InFut 1; InCondWaitP 0 1] (RExc ECancelled).
Proof.
  pose proof (reachable_inv a1 reach_a1) as I.
  refine (wait_pre_of_inv a1 0 0 [InFut 1; InCondWaitP 0 1] _ (Some ECancelled) I _ _ _ _ _ _).
  - vm_compute. reflexivity.
  - change (clock (getc a1 0)) with 0. exact (WS_wait 0 0 true 1).
  - exact Logic.I.
  - vm_compute. lia.
  - intros _ _ _. vm_compute. reflexivity.
  - now left.
Qed.

(* the resumption suspends again, inside the retry loop, remembering the CancelledError *)
Example a1_resume :
  snd (resume_stack 0 [InFut 1; InCondWaitP 0 1] (RExc ECancelled) (step_entry a1 0)) =
  LSusp (YFut 3) [InFut 3; InAcquireP 0 3 true; InReleasedP 0 None (RExc ECancelled)] /\
  tframes a2 0 = [InFut 3; InAcquireP 0 3 true; InReleasedP 0 None (RExc ECancelled)] /\
  lowner (getl a2 0) = Some 1.
Proof. vm_compute. repeat split. Qed.

(* a4: cancelled a second time while queued, re-queued (err = the second CancelledError),
   then woken by the producer's release: the lock is free, the waiter's future has a result *)
Example a4_shape :
  tframes a4 0 = [InFut 4; InAcquireP 0 4 true; InReleasedP 0 (Some ECancelled) (RExc ECancelled)] /\
  fstate_ (getf a4 4) = FResult 1 /\ lowner (getl a4 0) = None /\ llocked (getl a4 0) = false.
Proof. vm_compute. repeat split. Qed.

Example a4_pre :
  wait_pre (step_entry a4 0) 0 0
    [InFut 4; InAcquireP 0 4 true; InReleasedP 0 (Some ECancelled) (RExc ECancelled)] (RVal 0).
Proof.
  pose proof (reachable_inv a4 reach_a4) as I.
  assert (El : clock (getc a4 0) = 0) by (vm_compute; reflexivity).
  refine (wait_pre_of_inv a4 0 0
            [InFut 4; InAcquireP 0 4 true; InReleasedP 0 (Some ECancelled) (RExc ECancelled)]
            _ None I _ _ _ _ _ _).
  - vm_compute. reflexivity.
  - rewrite El. exact (WS_acqP 0 0 true 4 true (Some ECancelled) (RExc ECancelled) Logic.I).
  - rewrite El. split; [vm_compute; reflexivity|intros _; reflexivity].
  - rewrite El. vm_compute. lia.
  - intros H. vm_compute in H. discriminate H.
  - exists 4, [InAcquireP 0 4 true; InReleasedP 0 (Some ECancelled) (RExc ECancelled)], 1%Z.
    split; [reflexivity|vm_compute; reflexivity].
Qed.

(* by the theorem: the consumer leaves wait() owning the lock, raising the CancelledError *)
Example a4_exit :
  exists s' rep,
    resume_stack 0 [InFut 4; InAcquireP 0 4 true; InReleasedP 0 (Some ECancelled) (RExc ECancelled)]
                 (RVal 0) (step_entry a4 0) = (s', LDone rep) /\
    rep = RExc ECancelled /\ lowner (getl s' 0) = Some 0 /\ llocked (getl s' 0) = true.
Proof.
  destruct (resume_stack 0 _ (RVal 0) (step_entry a4 0)) as [s' r] eqn:E.
  pose proof (lock_on_exit _ _ _ _ _ _ _ a4_pre E) as H1.
  pose proof (exception_identity _ _ _ _ _ _ _ a4_pre E) as H2.
  assert (Er : exists rep, r = LDone rep).
  { apply (f_equal snd) in E. cbn [snd] in E. rewrite <- E. vm_compute. eauto. }
  destruct Er as [rep ->]. exists s', rep. split; [reflexivity|]. split; [exact H2|].
  cbv zeta in H1.
  assert (El : clock (getc (step_entry a4 0) 0) = 0) by (vm_compute; reflexivity).
  rewrite El in H1. destruct H1 as ([Hl Ho] & T & _). split; [|exact Hl]. apply Ho.
  rewrite (taken_kind _ _ _ _ 0 T). vm_compute. reflexivity.
Qed.

(* and in the run itself: the task ends cancelled, still owning the lock it re-acquired *)
Example a5_shape :
  lowner (getl a5 0) = Some 0 /\ llocked (getl a5 0) = true /\ tholding (gett a5 0) = [0] /\
  fstate_ (getf a5 (tfut (gett a5 0))) = FCancelled.
Proof. vm_compute. repeat split. Qed.

(* a fault that is not a CancelledError, delivered while re-acquiring, leaves wait()
   WITHOUT the lock (the retry loop only catches CancelledError): here the producer
   still owns it.  The theorems exclude this input on purpose. *)
Example non_cancel_exit_without_lock :
  let p := resume_stack 0 [InFut 3; InAcquireP 0 3 true; InReleasedP 0 None (RExc ECancelled)]
                        (RExc (EUser 1)) (step_entry a2 0) in
  snd p = LDone (RExc (EUser 1)) /\ lowner (getl (fst p) 0) = Some 1.
Proof. vm_compute. split; reflexivity. Qed.

(* ------------------------------------------------------------ run B *)
Definition b0 : st := init_st false 0 [] [LPlain] [(CIntr, 0)] 0.
Definition actsB1 : list action :=
  map act [XSpawn SPy sCons; XStep; XSpawn SPlain sProd; XStep; XDo (OCancel 0)].
Definition actsB2 : list action := map act [XStep].
Definition actsB3 : list action := map act [XDo (OTaskThrow 0 (EInterrupt 7)); XStep].
Definition actsB4 : list action := map act [XStep; XStep].
Definition actsB5 : list action := map act [XStep].
Definition b1 : st := fold_left do_action actsB1 b0.
Definition b2 : st := fold_left do_action actsB2 b1.
Definition b3 : st := fold_left do_action actsB3 b2.
Definition b4 : st := fold_left do_action actsB4 b3.
Definition b5 : st := fold_left do_action actsB5 b4.

Example runB_ok : run_ok b0 (actsB1 ++ actsB2 ++ actsB3 ++ actsB4 ++ actsB5).
Proof. vm_compute. repeat split. Qed.

Example reach_b1 : reachable b1.
Proof. apply (reach_prefix false 0%Q [] [LPlain] [(CIntr, 0)] 0 actsB1 _ runB_ok). Qed.
Example reach_b3 : reachable b3.
Proof.
  unfold b3, b2, b1. rewrite <- !fold_left_app.
  apply (reach_prefix false 0%Q [] [LPlain] [(CIntr, 0)] 0 ((actsB1 ++ actsB2) ++ actsB3) (actsB4 ++ actsB5)).
  rewrite <- !app_assoc. exact runB_ok.
Qed.
Example reach_b4 : reachable b4.
Proof.
  unfold b4, b3, b2, b1. rewrite <- !fold_left_app.
  apply (reach_prefix false 0%Q [] [LPlain] [(CIntr, 0)] 0 (((actsB1 ++ actsB2) ++ actsB3) ++ actsB4) actsB5).
  rewrite <- !app_assoc. exact runB_ok.
Qed.

Definition frsB1 : list frame := [InFut 1; InCondWaitI 0 1].
Definition frsB3 : list frame := [InFut 3; InAcquireA 0 3; InReacquireI 0 None (RExc ECancelled)].
Definition frsB4 : list frame := [InFut 4; InAcquireA 0 4; InReacquireI 0 (Some (EInterrupt 7)) (RExc ECancelled)].

Example b_shapes :
  tframes b1 0 = frsB1 /\ tmustc (gett b1 0) = true /\ llocked (getl b1 0) = true /\
  tframes b3 0 = frsB3 /\ llocked (getl b3 0) = true /\
  tframes b4 0 = frsB4 /\ fstate_ (getf b4 4) = FResult 1 /\ llocked (getl b4 0) = false.
Proof. vm_compute. repeat split. Qed.

Example b1_pre : wait_pre (step_entry b1 0) 0 0 frsB1 (RExc ECancelled).
Proof.
  pose proof (reachable_inv b1 reach_b1) as I.
  assert (El : clock (getc b1 0) = 0) by (vm_compute; reflexivity).
  refine (wait_pre_of_inv b1 0 0 frsB1 _ (Some ECancelled) I _ _ _ _ _ _).
  - vm_compute. reflexivity.
  - rewrite El. exact (WS_wait 0 0 false 1).
  - exact Logic.I.
  - rewrite El. vm_compute. lia.
  - intros _ H. rewrite El in H. vm_compute in H. discriminate H.
  - left. reflexivity.
Qed.

Example b3_pre : wait_pre (step_entry b3 0) 0 0 frsB3 (RExc (EInterrupt 7)).
Proof.
  pose proof (reachable_inv b3 reach_b3) as I.
  assert (El : clock (getc b3 0) = 0) by (vm_compute; reflexivity).
  refine (wait_pre_of_inv b3 0 0 frsB3 _ (Some (EInterrupt 7)) I _ _ _ _ _ _).
  - vm_compute. reflexivity.
  - rewrite El. exact (WS_acqA 0 0 false 3 None (RExc ECancelled) Logic.I).
  - rewrite El. vm_compute. reflexivity.
  - rewrite El. vm_compute. lia.
  - intros H. vm_compute in H. discriminate H.
  - left. reflexivity.
Qed.

Example b4_pre : wait_pre (step_entry b4 0) 0 0 frsB4 (RVal 0).
Proof.
  pose proof (reachable_inv b4 reach_b4) as I.
  assert (El : clock (getc b4 0) = 0) by (vm_compute; reflexivity).
  refine (wait_pre_of_inv b4 0 0 frsB4 _ None I _ _ _ _ _ _).
  - vm_compute. reflexivity.
  - rewrite El. exact (WS_acqA 0 0 false 4 (Some (EInterrupt 7)) (RExc ECancelled) Logic.I).
  - rewrite El. vm_compute. reflexivity.
  - rewrite El. vm_compute. lia.
  - intros H. vm_compute in H. discriminate H.
  - exists 4, [InAcquireA 0 4; InReacquireI 0 (Some (EInterrupt 7)) (RExc ECancelled)], 1%Z.
    split; [reflexivity|vm_compute; reflexivity].
Qed.

(* the three resumptions of the consumer form a [wait_run]: cancelled after the
   notification, interrupted while re-acquiring, finally woken with the lock free *)
Example b_run :
  exists s', wait_run 0 0 0 (step_entry b1 0) frsB1
                      [RExc ECancelled; RExc (EInterrupt 7); RVal 0] s' (RExc (EInterrupt 7)) /\
             llocked (getl s' 0) = true.
Proof.
  set (p4 := resume_stack 0 frsB4 (RVal 0) (step_entry b4 0)).
  assert (E4 : p4 = (fst p4, LDone (RExc (EInterrupt 7)))).
  { rewrite (surjective_pairing p4) at 1. apply f_equal. vm_compute. reflexivity. }
  assert (R4 : wait_run 0 0 0 (step_entry b4 0) frsB4 [RVal 0] (fst p4) (RExc (EInterrupt 7))).
  { apply WR_exit; [vm_compute; reflexivity|exact b4_pre|exact E4]. }
  set (p3 := resume_stack 0 frsB3 (RExc (EInterrupt 7)) (step_entry b3 0)).
  assert (E3 : p3 = (fst p3, LSusp (YFut 4) frsB4)).
  { rewrite (surjective_pairing p3) at 1. apply f_equal. vm_compute. reflexivity. }
  assert (R3 : wait_run 0 0 0 (step_entry b3 0) frsB3 [RExc (EInterrupt 7); RVal 0] (fst p4) (RExc (EInterrupt 7))).
  { eapply WR_again; [vm_compute; reflexivity|exact b3_pre|exact E3|exact R4]. }
  set (p1 := resume_stack 0 frsB1 (RExc ECancelled) (step_entry b1 0)).
  assert (E1 : p1 = (fst p1, LSusp (YFut 3) frsB3)).
  { rewrite (surjective_pairing p1) at 1. apply f_equal. vm_compute. reflexivity. }
  exists (fst p4). split.
  - eapply WR_again; [vm_compute; reflexivity|exact b1_pre|exact E1|exact R3].
  - destruct (wait_run_exit _ _ _ _ _ _ _ _ R4) as [[Hl _] _]. exact Hl.
Qed.

(* wait() raises the interrupt - the last exception delivered - not the earlier CancelledError *)
Example b_identity :
  reply_of (last_delivered frsB1 [RExc ECancelled; RExc (EInterrupt 7); RVal 0]) = RExc (EInterrupt 7).
Proof. reflexivity. Qed.

(* ------------------------------------------------------------ notify order *)
(* four waiters with priorities 5, 1, 5, 3 (futures 4, 5, 6, 7); the most urgent one (5) is
   cancelled before the producer comes; notify(2) wakes 7 (priority 3) and 4 (priority 5,
   first arrival), not 6, and not the cancelled 5 *)
Definition c0 : st := init_st false 0 [] [LPrio] [(CPrio, 0)] 0.
Definition actsC : list action :=
  map act [XSpawn (SPrio 5) sCons; XSpawn (SPrio 1) sCons; XSpawn (SPrio 5) sCons; XSpawn (SPrio 3) sCons;
           XStep; XStep; XStep; XStep; XDo (OCancel 1)].
Definition c1 : st := fold_left do_action actsC c0.

Example runC_ok : run_ok c0 actsC.
Proof. vm_compute. repeat split. Qed.
Example reach_c1 : reachable c1.
Proof.
  pose proof (reach_prefix false 0%Q [] [LPrio] [(CPrio, 0)] 0 actsC []) as H.
  rewrite app_nil_r in H. exact (H runC_ok).
Qed.

Example c1_qwf : qwf (cpq (getc c1 0)) /\ (forall f, In f (pq_objs (cpq (getc c1 0))) -> f < length (futs c1)).
Proof.
  pose proof (reachable_inv c1 reach_c1) as I. split; [split; [apply (inv_cpq c1 0 I)|]|].
  - assert (E : arr (cpq (getc c1 0)) =
                [mkE 1%Q 1 5; mkE 3%Q 3 7; mkE 5%Q 2 6; mkE 5%Q 0 4]) by (vm_compute; reflexivity).
    unfold pq_objs. rewrite E. split.
    + cbn. repeat constructor; cbn; intuition lia.
    + repeat constructor; cbn; lia.
  - intros f Hf. exact (inv_cpq_range c1 0 f I Hf).
Qed.

Example c1_notify :
  wait_order c1 0 = [5; 7; 4; 6] /\ pending_in c1 (wait_order c1 0) = [7; 4; 6] /\
  map (fun f => fstate_ (getf (notify_p c1 0 2) f)) [4; 5; 6; 7] =
    [FResult 1; FCancelled; FPending; FResult 1] /\
  (* the heap was re-arranged by the traversal; its content is the same *)
  pq_objs (cpq (getc c1 0)) = [5; 7; 6; 4] /\ pq_objs (cpq (getc (notify_p c1 0 2) 0)) = [5; 7; 4; 6].
Proof. vm_compute. repeat split. Qed.

(* the same facts from the theorem *)
Example c1_notify_thm :
  fstate_ (getf (notify_p c1 0 2) 7) = FResult 1 /\ fstate_ (getf (notify_p c1 0 2) 4) = FResult 1 /\
  getf (notify_p c1 0 2) 6 = getf c1 6 /\ getf (notify_p c1 0 2) 5 = getf c1 5.
Proof.
  destruct c1_qwf as [Hq Hr]. destruct (notify_p_spec c1 0 2 Hq Hr) as (A & B & _). cbv zeta in A, B.
  assert (E : pending_in c1 (wait_order c1 0) = [7; 4; 6]) by (vm_compute; reflexivity).
  rewrite E in A, B. cbn [firstn] in A, B.
  split; [apply A; now left|]. split; [apply A; right; now left|].
  split; apply B; cbn; intuition lia.
Qed.

(* ------------------------------------------------------------ a notification is not lost *)
(* two waiters: task 0 (priority 5, future 2) and task 1 (priority 3, future 3); the producer
   notifies one - the more urgent task 1 - and releases; task 1 is cancelled before it
   resumes.  Its wait() re-acquires the free lock, runs _notify(1) - which wakes task 0 -
   and raises CancelledError. *)
Definition sProd1 : script := SDo (OAcquire 0) (SDo (OCondNotify 0 1) (SDo (ORelease 0) SEnd)).
Definition actsD : list action :=
  map act [XSpawn (SPrio 5) sCons; XSpawn (SPrio 3) sCons; XStep; XStep;
           XSpawn (SPrio 0) sProd1; XStep; XDo (OCancel 1)].
Definition d1 : st := fold_left do_action actsD c0.

Example runD_ok : run_ok c0 actsD.
Proof. vm_compute. repeat split. Qed.
Example reach_d1 : reachable d1.
Proof.
  pose proof (reach_prefix false 0%Q [] [LPrio] [(CPrio, 0)] 0 actsD []) as H.
  rewrite app_nil_r in H. exact (H runD_ok).
Qed.

Example d1_shape :
  tframes d1 0 = [InFut 2; InCondWaitP 0 2] /\ tframes d1 1 = [InFut 3; InCondWaitP 0 3] /\
  fstate_ (getf d1 2) = FPending /\ fstate_ (getf d1 3) = FResult 1 /\ tmustc (gett d1 1) = true /\
  llocked (getl d1 0) = false.
Proof. vm_compute. repeat split. Qed.

Example d1_pre : wait_pre (step_entry d1 1) 1 0 [InFut 3; InCondWaitP 0 3] (RExc ECancelled).
Proof.
  pose proof (reachable_inv d1 reach_d1) as I.
  assert (El : clock (getc d1 0) = 0) by (vm_compute; reflexivity).
  refine (wait_pre_of_inv d1 1 0 [InFut 3; InCondWaitP 0 3] _ (Some ECancelled) I _ _ _ _ _ _).
  - vm_compute. reflexivity.
  - rewrite El. exact (WS_wait 0 0 true 3).
  - exact Logic.I.
  - rewrite El. vm_compute. lia.
  - intros _ _ _. vm_compute. reflexivity.
  - left. reflexivity.
Qed.

Example d1_not_lost :
  let p := resume_stack 1 [InFut 3; InCondWaitP 0 3] (RExc ECancelled) (step_entry d1 1) in
  snd p = LDone (RExc ECancelled) /\
  lowner (getl (fst p) 0) = Some 1 /\ llocked (getl (fst p) 0) = true /\
  (* the other waiter has been given the notification *)
  fstate_ (getf (fst p) 2) = FResult 1.
Proof. vm_compute. repeat split. Qed.

Example d1_not_lost_thm :
  let p := resume_stack 1 [InFut 3; InCondWaitP 0 3] (RExc ECancelled) (step_entry d1 1) in
  exists s1, held s1 1 0 /\ fst p = notify_p s1 0 1 /\ ~ In 3 (wait_order s1 0) /\ In 2 (wait_order s1 0) /\
    match pending_in s1 (wait_order s1 0) with
    | f :: _ => fstate_ (getf (fst p) f) = FResult 1
    | [] => forall g, getf (fst p) g = getf s1 g
    end.
Proof.
  intros p.
  assert (E : p = (fst p, LDone (RExc ECancelled))).
  { rewrite (surjective_pairing p) at 1. apply f_equal. vm_compute. reflexivity. }
  pose proof (reachable_inv d1 reach_d1) as I.
  assert (Ea : arr (cpq (getc d1 0)) = [mkE 3%Q 1 3; mkE 5%Q 0 2]) by (vm_compute; reflexivity).
  assert (Hq : qwf (cpq (getc (step_entry d1 1) 0))).
  { change (getc (step_entry d1 1) 0) with (getc d1 0). split; [apply (inv_cpq d1 0 I)|].
    unfold pq_objs. rewrite Ea. split.
    - cbn. repeat constructor; cbn; intuition lia.
    - repeat constructor; cbn; lia. }
  assert (Hr : forall f, In f (pq_objs (cpq (getc (step_entry d1 1) 0))) -> f < length (futs (step_entry d1 1))).
  { intros f Hf. change (In f (pq_objs (cpq (getc d1 0)))) in Hf.
    change (f < length (futs d1)). exact (inv_cpq_range d1 0 f I Hf). }
  destruct (not_lost _ _ _ _ _ _ _ d1_pre eq_refl Hq Hr E) as (s1 & H1 & H2 & H3 & _ & H5 & H6).
  assert (El : clock (getc (step_entry d1 1) 0) = 0) by (vm_compute; reflexivity).
  rewrite El in H1.
  assert (Ho : pq_objs (cpq (getc (step_entry d1 1) 0)) = [3; 2]).
  { change (getc (step_entry d1 1) 0) with (getc d1 0). unfold pq_objs. rewrite Ea. reflexivity. }
  rewrite Ho in H3, H5.
  exists s1. split; [exact H1|]. split; [exact H2|]. split; [|split].
  - apply (H3 3 eq_refl); [vm_compute; lia|now left].
  - apply H5; [right; now left|]. intros X. discriminate X.
  - destruct (pending_in s1 (wait_order s1 0)) as [|f rest]; [exact H6|apply H6].
Qed.
