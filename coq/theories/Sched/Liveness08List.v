(* C08, liveness + safety together on the ListLoop model (the model of C08_exactly_once), list
   queue: the position measure of a queued handle, its exact one-step balance on every state
   satisfying the run invariant J (so: on every reachable state of every program, with NO
   duplicate-freedom hypothesis), and "runs exactly once": under a bound K on the entries pushed
   in front of h and if no step takes h out of the queue, h is executed at an index
   <= ahead + K of every sufficiently long run, and (ExactlyOnce) occurs exactly once in it. *)
From Asynkit Require Import Base.Prelude Base.Obs Queue.Deque Queue.DequeProofs
     Sched.ListLoop Sched.ListLoopProofs Sched.ExactlyOnce Sched.QueuePosition.
From Coq Require Import Permutation.
Open Scope nat_scope.

(* handles are non-negative integers; positions are measured on their images in nat *)
Definition zq (s : st) : list nat := map Z.to_nat (rq s).
Definition aheadL (s : st) (h : Z) : nat := ahead_l (zq s) (Z.to_nat h).
Definition nextL (s : st) : st := match run_one ListQ s with Some (_, s') => s' | None => s end.

Lemma NoDup_map_to_nat (l : list Z) : NoDup l -> (forall x, In x l -> (0 <= x)%Z) -> NoDup (map Z.to_nat l).
Proof.
  induction l as [|a t IH]; intros N P; simpl; [constructor|]. inversion N as [|? ? N1 N2]; subst.
  constructor.
  - intros A. apply in_map_iff in A. destruct A as (y & Ey & Hy). apply N1.
    apply Z2Nat.inj in Ey; [now subst| |]; apply P; simpl; auto.
  - apply IH; auto. intros x Hx. apply P. simpl. auto.
Qed.

Lemma in_map_to_nat (l : list Z) h : (0 <= h)%Z -> (forall x, In x l -> (0 <= x)%Z) ->
  In (Z.to_nat h) (map Z.to_nat l) -> In h l.
Proof.
  intros Hh P A. apply in_map_iff in A. destruct A as (y & Ey & Hy).
  apply Z2Nat.inj in Ey; [now subst|auto|auto].
Qed.

Lemma J_rq s : J s -> NoDup (rq s) /\ forall x, In x (rq s) -> (0 <= x)%Z.
Proof.
  intros [N B]. split; [now apply NoDup_app_l in N|]. intros x Hx. apply B. unfold live. apply in_or_app. auto.
Qed.

Lemma J_zq s : J s -> NoDup (zq s).
Proof. intros Hj. destruct (J_rq s Hj). now apply NoDup_map_to_nat. Qed.

Lemma run_one_cons s x r : rq s = x :: r -> exists s', run_one ListQ s = Some (x, s').
Proof. intros E. unfold run_one. rewrite E. cbn. eauto. Qed.

(* one handle: the head is popped, never queued again, J is kept, and every other handle h
   satisfies the exact balance (newfront / gonefront as in QueuePosition.v) *)
Theorem list_step_balance s x s' :
  J s -> run_one ListQ s = Some (x, s') ->
  exists r, rq s = x :: r /\ J s' /\ ~ In x (rq s') /\
    forall h, h <> x -> (0 <= h)%Z ->
      aheadL s' h + gonefront (map Z.to_nat r) (zq s') (Z.to_nat h) + 1 =
      aheadL s h + newfront (map Z.to_nat r) (zq s') (Z.to_nat h).
Proof.
  intros Hj R. destruct (run_one_ext s s' x Hj R) as (r & E & Hn & Hj' & _ & _).
  exists r. split; [exact E|]. split; [exact Hj'|]. split.
  - intros A. apply Hn. unfold live. apply in_or_app. auto.
  - intros h Hx Hh. destruct (J_rq s Hj) as [N P]. rewrite E in N, P.
    assert (Hx0 : (0 <= x)%Z) by (apply P; simpl; auto).
    assert (A : aheadL s h = S (ahead_l (map Z.to_nat r) (Z.to_nat h))).
    { unfold aheadL, zq. rewrite E. cbn [map]. apply ahead_cons. intros C. apply Hx.
      apply Z2Nat.inj in C; auto. }
    rewrite A. inversion N as [|? ? N1 N2]; subst.
    assert (Nr : NoDup (map Z.to_nat r)).
    { apply NoDup_map_to_nat; auto. intros y Hy. apply P. simpl. auto. }
    pose proof (ahead_balance (map Z.to_nat r) (zq s') (Z.to_nat h) Nr (J_zq s' Hj')) as B.
    unfold aheadL. lia.
Qed.

(* ---------------------------------------------------------------- eventually, exactly once *)
Definition pushedL (s : st) (h : Z) : nat :=
  let a := aheadL s h in
  if (0 <? a) && (a <? length (rq s)) then aheadL (nextL s) h + 1 - a else 0.
Fixpoint pushesL (n : nat) (s : st) (h : Z) : nat :=
  match n with O => 0 | S n => pushedL s h + pushesL n (nextL s) h end.
Fixpoint keptL (n : nat) (s : st) (h : Z) : Prop :=
  match n with
  | O => True
  | S n => (In h (rq s) -> 0 < aheadL s h -> In h (rq (nextL s))) /\ keptL n (nextL s) h
  end.

Lemma aheadL_in s h : J s -> (0 <= h)%Z -> In h (rq s) -> aheadL s h < length (rq s).
Proof.
  intros Hj Hh Hq. unfold aheadL, zq. rewrite <- (map_length Z.to_nat (rq s)). apply ahead_in.
  now apply in_map.
Qed.

Lemma aheadL_zero s h : J s -> (0 <= h)%Z -> In h (rq s) -> aheadL s h = 0 -> exists r, rq s = h :: r.
Proof.
  intros Hj Hh Hq A. destruct (J_rq s Hj) as [_ P]. unfold aheadL, zq in A.
  destruct (ahead_zero (map Z.to_nat (rq s)) (Z.to_nat h)) as [rest Er]; [now apply in_map|exact A|].
  destruct (rq s) as [|x r] eqn:E; [discriminate|]. cbn [map] in Er. inversion Er as [[Ex Et]].
  assert (Exh : x = h) by (apply Z2Nat.inj; auto; apply P; simpl; auto). subst. eauto.
Qed.

Theorem list_runs_eventually n : forall s h K,
  J s -> (0 <= h)%Z -> keptL n s h -> pushesL n s h <= K -> In h (rq s) -> aheadL s h + K <= n ->
  exists j, j <= aheadL s h + K /\
    forall fuel, j < fuel -> nth_error (fst (run_trace fuel s)) j = Some h.
Proof.
  induction n as [|n IH]; intros s h K Hj Hh HK HP Hq Hn.
  - assert (A : aheadL s h = 0) by lia. destruct (aheadL_zero s h Hj Hh Hq A) as [r E].
    exists 0. split; [lia|]. intros [|f] Hf; [lia|]. cbn [run_trace].
    destruct (run_one_cons s h r E) as [s' R]. rewrite R. destruct (run_trace f s'). reflexivity.
  - destruct (Nat.eq_dec (aheadL s h) 0) as [A|A].
    + destruct (aheadL_zero s h Hj Hh Hq A) as [r E].
      exists 0. split; [lia|]. intros [|f] Hf; [lia|]. cbn [run_trace].
      destruct (run_one_cons s h r E) as [s' R]. rewrite R. destruct (run_trace f s'). reflexivity.
    + destruct HK as [HK1 HK]. cbn [pushesL] in HP.
      assert (Ha : 0 < aheadL s h) by lia. pose proof (aheadL_in s h Hj Hh Hq) as Hl.
      assert (B : aheadL (nextL s) h + 1 <= aheadL s h + pushedL s h).
      { unfold pushedL. cbv zeta. destruct (0 <? aheadL s h) eqn:C1; [|apply Nat.ltb_ge in C1; lia].
        destruct (aheadL s h <? length (rq s)) eqn:C2; [|apply Nat.ltb_ge in C2; lia]. cbn [andb]. lia. }
      destruct (rq s) as [|x r] eqn:E; [cbn in Hl; lia|].
      destruct (run_one_cons s x r E) as [s' R].
      assert (En : nextL s = s') by (unfold nextL; now rewrite R). rewrite En in *.
      destruct (run_one_ext s s' x Hj R) as (_ & _ & _ & Hj' & _ & _).
      assert (Hq' : In h (rq s')). { apply HK1; auto. }
      destruct (IH s' h (K - pushedL s h) Hj' Hh HK) as (j & Hjb & Hr); [lia|exact Hq'|lia|].
      exists (S j). split; [lia|]. intros [|f] Hf; [lia|]. cbn [run_trace]. rewrite R.
      specialize (Hr f). destruct (run_trace f s') as [tr sf]. cbn [fst nth_error] in *. apply Hr. lia.
Qed.

(* ... exactly once: in every run longer than ahead + K the handle occurs exactly once *)
Theorem list_runs_exactly_once n s h K :
  J s -> (0 <= h)%Z -> keptL n s h -> pushesL n s h <= K -> In h (rq s) -> aheadL s h + K <= n ->
  forall fuel, aheadL s h + K < fuel ->
    count_occ Z.eq_dec (fst (run_trace fuel s)) h = 1 /\
    exists j, j <= aheadL s h + K /\ nth_error (fst (run_trace fuel s)) j = Some h.
Proof.
  intros Hj Hh HK HP Hq Hn fuel Hf.
  destruct (list_runs_eventually n s h K Hj Hh HK HP Hq Hn) as (j & Hjb & Hr).
  specialize (Hr fuel ltac:(lia)). pose proof (exactly_once_from s fuel Hj) as X.
  destruct (run_trace fuel s) as [tr sf]. cbn [fst] in *. destruct X as (N & _). split.
  - apply NoDup_count_occ'; [exact N|]. eapply nth_error_In; eauto.
  - eauto.
Qed.

(* instance: task 0 runs task_switch(task 1, insert_pos=5); handle 2 (task 2's first step) has two
   entries ahead, one entry (the re-insertion callback, handle 3) is pushed in front of it; it is
   executed at index 3 = ahead + K of the run, once *)
Definition l_s : st := init ListQ [[OSwitch 1 (Some 5)]; [OSleep]; [OSleep]] 0 [0; 1; 2].
Example list_runs_example :
  J l_s /\ aheadL l_s 2 = 2 /\ pushesL 3 l_s 2 = 1 /\ keptL 3 l_s 2 /\ In 2%Z (rq l_s) /\
  fst (run_trace 8 l_s) = [0; 3; 1; 2; 4; 5; 6]%Z /\
  count_occ Z.eq_dec (fst (run_trace 8 l_s)) 2%Z = 1.
Proof.
  split; [apply J_init|]. split; [vm_compute; reflexivity|]. split; [vm_compute; reflexivity|].
  split.
  { cbn [keptL]. repeat split; intros Hq Ha; vm_compute in Ha |- *; first [lia | tauto | auto 8]. }
  split; [vm_compute; auto|].
  assert (E : fst (run_trace 8 l_s) = [0; 3; 1; 2; 4; 5; 6]%Z) by (vm_compute; reflexivity).
  split; [exact E|]. rewrite E. reflexivity.
Qed.
